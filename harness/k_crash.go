package main

import (
	"bufio"
	"bytes"
	"context"
	"encoding/binary"
	"encoding/hex"
	"fmt"
	"io"
	"os"
	"os/exec"
	"path/filepath"
	"regexp"
	"strconv"
	"strings"
	"syscall"

	blocks "github.com/ipfs/go-block-format"
	"github.com/ipfs/go-cid"
	carv2 "github.com/ipld/go-car/v2"
	"github.com/ipld/go-car/v2/blockstore"
	carv1 "github.com/ipld/go-car"
	"github.com/ipld/go-car/v2/storage"
	mh "github.com/multiformats/go-multihash"
)

// Implementation drivers of the kinds "resume" (C12) and "crash" (C06); wire formats are in
// coq/theories/RunCrash.v.  Sessions run on the real library through runStoreImpl (k_store.go).

type crSeg struct {
	cut  string // "discard" | "finalize"
	blks []Blk
}

func crPutOp(b Blk) Val { return VL{VT("put"), VB(b.Cid.Bytes()), VB(b.Data)} }

func crRootsVal(roots []cid.Cid) Val {
	if roots == nil {
		return VT("nil")
	}
	return cidsVal(roots)
}

func crSegsVal(segs []crSeg) Val {
	out := VL{}
	for _, s := range segs {
		e := VL{VT(s.cut)}
		for _, b := range s.blks {
			e = append(e, VL{VB(b.Cid.Bytes()), VB(b.Data)})
		}
		out = append(out, e)
	}
	return out
}

// ops of one segment end: how the session is left before the file is reopened
// front-ends of the kind "resume": 0 = blockstore.OpenReadWrite(path), 1 = storage on a file,
// 5 = blockstore.OpenReadWriteFile on a caller-owned *os.File that is REUSED for every reopen,
// 6 = the same with the caller moving the handle's cursor before each reopen.  The model has one
// blockstore front-end: the handle and its cursor are not part of it.
func crIsBS(kind uint64) bool { return kind == 0 || kind == 5 || kind == 6 }

func crCutOps(kind uint64, cut string) VL {
	if cut == "finalize" {
		return VL{VL{VT("finalize")}}
	}
	if crIsBS(kind) {
		return VL{VL{VT("discard")}}
	}
	return VL{} // a StorageCar has no close: the handle is dropped
}

func crIsNilOut(v Val) bool {
	l, ok := v.(VL)
	if !ok || len(l) != 1 {
		return false
	}
	t, ok := l[0].(VT)
	return ok && t == "nil"
}

// c12PlainFinal: the file an uninterrupted session (puts, Finalize) leaves.
func c12PlainFinal(work string, kind uint64, o wOpts, roots []cid.Cid, blks []Blk) (Val, bool) {
	ops := VL{}
	for _, b := range blks {
		ops = append(ops, crPutOp(b))
	}
	ops = append(ops, VL{VT("finalize")})
	res := runStoreImpl(work, kind, o, roots, nil, ops).(VL)
	if !crIsNilOut(res[0]) {
		return nil, false
	}
	return res[2], true
}

// c12RunSegsImpl: (tok interrupted plain) | (treopen-failed plain) | (topenerr)
func c12RunSegsImpl(work string, kind uint64, o wOpts, roots []cid.Cid, segs []crSeg, last []Blk, plain Val) Val {
	ops := VL{}
	var reopenAt []int
	for _, s := range segs {
		for _, b := range s.blks {
			ops = append(ops, crPutOp(b))
		}
		ops = append(ops, crCutOps(kind, s.cut)...)
		reopenAt = append(reopenAt, len(ops))
		ops = append(ops, VL{VT("reopen"), o.val(), cidsVal(roots)})
	}
	for _, b := range last {
		ops = append(ops, crPutOp(b))
	}
	ops = append(ops, VL{VT("finalize")})
	res := runStoreImpl(work, kind, o, roots, nil, ops).(VL)
	if !crIsNilOut(res[0]) {
		return VL{VT("openerr")}
	}
	obs := res[1].(VL)
	for _, i := range reopenAt {
		if i >= len(obs) || !crIsNilOut(obs[i].(VL)[0]) {
			return VL{VT("reopen-failed"), plain}
		}
	}
	return VL{VT("ok"), res[2], plain}
}

// c12FileBeforeReopen: the file a session (puts, cut) leaves behind
func c12FileBeforeReopen(work string, kind uint64, o wOpts, roots []cid.Cid, puts []Blk, cut string) ([]byte, bool) {
	ops := VL{}
	for _, b := range puts {
		ops = append(ops, crPutOp(b))
	}
	ops = append(ops, crCutOps(kind, cut)...)
	res := runStoreImpl(work, kind, o, roots, nil, ops).(VL)
	if !crIsNilOut(res[0]) {
		return nil, false
	}
	return []byte(res[2].(VB)), true
}

// c12RunMismatchImpl: (taccepted changed) | (trejected errclass refusal changed) | (topenerr)
func c12RunMismatchImpl(work string, kind uint64, o wOpts, roots []cid.Cid, puts []Blk, cut string, o2 wOpts, roots2 []cid.Cid) Val {
	ops := VL{}
	for _, b := range puts {
		ops = append(ops, crPutOp(b))
	}
	ops = append(ops, crCutOps(kind, cut)...)
	at := len(ops)
	ops = append(ops, VL{VT("reopen"), o2.val(), crRootsVal(roots2)})
	// the file as it was when the reopen started (runStoreImplX hands the session to the observer
	// before it updates prev)
	var before []byte
	x := &storeExtra{afterStep2: func(s *storeSession, tag string, out Val, changed bool) {
		if tag == "reopen" {
			before = append([]byte(nil), s.prev...)
		}
	}}
	res := runStoreImplX(work, kind, o, roots, nil, ops, x).(VL)
	if !crIsNilOut(res[0]) {
		return VL{VT("openerr")}
	}
	step := res[1].(VL)[at].(VL)
	out := step[0].(VL)
	if crIsNilOut(out) {
		return VL{VT("accepted"), step[1]}
	}
	// error class as errclass.go maps it (the model: Val.v_err), then WHICH refusal
	return VL{VT("rejected"), out[1], VT(c12Refusal(work, kind, o2, roots2, before)), step[1]}
}

// c12Refusal reopens a copy of file with the library and names the error site of
// store.ResumableVersion / store.Resume that refused it (the model: Crash.refusal,
// RunCrash.refusal_name).  An error that is none of Resume's own messages comes either from the
// ReadVersion call of ResumableVersion ("first-header": ReadVersion on the same bytes under the
// same options fails too) or from a later stage ("later": the un-finalize writes, the scan).
func c12Refusal(work string, kind uint64, o2 wOpts, roots2 []cid.Cid, file []byte) string {
	dir, err := os.MkdirTemp(work, "rf")
	if err != nil {
		panic(err)
	}
	defer os.RemoveAll(dir)
	path := filepath.Join(dir, "a.car")
	if err := os.WriteFile(path, file, 0o644); err != nil {
		panic(err)
	}
	if crIsBS(kind) {
		if len(file) == 0 {
			return "open-new"
		}
		bs, e := blockstore.OpenReadWrite(path, roots2, o2.v2()...)
		if e == nil {
			bs.Discard()
		}
		err = e
	} else {
		f, ferr := os.OpenFile(path, os.O_RDWR, 0o666)
		if ferr != nil {
			panic(ferr)
		}
		defer f.Close()
		_, err = storage.OpenReadableWritable(f, roots2, o2.v2()...)
	}
	if err == nil {
		return "accepted" // the first reopen refused, this one did not: never equals a model answer
	}
	msg := err.Error()
	switch {
	case strings.Contains(msg, "cannot resume on CAR file with version"):
		return "version"
	case strings.Contains(msg, "without the ability to truncate"):
		return "no-truncate"
	case strings.Contains(msg, "mismatched CARv1 offset"):
		return "data-offset"
	case strings.Contains(msg, "error reading car header"):
		return "data-header"
	case strings.Contains(msg, "mismatching data header"):
		return "mismatch"
	}
	if _, verr := carv2.ReadVersion(bytes.NewReader(file), o2.v2()...); verr != nil {
		return "first-header"
	}
	return "later"
}

// crHeaderPayloadLen: length of the CARv1 header's CBOR payload (what its length varint encodes)
func crHeaderPayloadLen(roots []cid.Cid) int {
	var buf bytes.Buffer
	if err := carv1.WriteHeader(&carv1.CarHeader{Roots: roots, Version: 1}, &buf); err != nil {
		panic(err)
	}
	l, k := binary.Uvarint(buf.Bytes())
	if k <= 0 || int(l)+k != buf.Len() {
		panic("header framing")
	}
	return int(l)
}

// crRootsForHeaderLen: distinct roots whose CARv1 header payload is EXACTLY target bytes long (the
// length varint of the header changes width at 128 and 16384: carv1.HeaderSize / util.LdSize must
// follow).  36-byte sha2-256 CIDv1s, then one or two identity CIDs of fitted digest length.
func crRootsForHeaderLen(r *RNG, target int) []cid.Cid {
	var roots []cid.Cid
	for i := 0; ; i++ {
		next := append(append([]cid.Cid{}, roots...), mkCid(1, 0x55, mh.SHA2_256, -1, r.Bytes(12)))
		if crHeaderPayloadLen(next) > target-48 {
			break
		}
		roots = next
	}
	fill := func(d int, salt byte) cid.Cid {
		data := append([]byte{salt}, r.Bytes(d)...)[:d]
		return mkCid(1, 0x55, mh.IDENTITY, -1, data)
	}
	for d := 0; d <= 110; d++ {
		cand := append(append([]cid.Cid{}, roots...), fill(d, 1))
		if crHeaderPayloadLen(cand) == target {
			return cand
		}
	}
	for d1 := 1; d1 <= 40; d1++ {
		for d := 1; d <= 110; d++ {
			cand := append(append([]cid.Cid{}, roots...), fill(d1, 2), fill(d, 3))
			if d1 != d && crHeaderPayloadLen(cand) == target {
				return cand
			}
		}
	}
	panic(fmt.Sprintf("no root list with header payload length %d", target))
}

func crBlksFromVal(v Val) []Blk {
	var out []Blk
	for _, e := range v.(VL) {
		el := e.(VL)
		_, c, err := cid.CidFromBytes([]byte(el[0].(VB)))
		if err != nil {
			panic(err)
		}
		out = append(out, Blk{c, []byte(el[1].(VB))})
	}
	return out
}

func crSegsFromVal(v Val) []crSeg {
	var out []crSeg
	for _, e := range v.(VL) {
		el := e.(VL)
		out = append(out, crSeg{cut: string(el[0].(VT)), blks: crBlksFromVal(el[1:])})
	}
	return out
}

func crTagOf(v Val) string {
	if t, ok := v.(VT); ok {
		return string(t)
	}
	return ""
}

func init() {
	registerReplay("resume", func(c *Ctx, in Val) Val {
		l := in.(VL)
		kind := uint64(l[1].(VN))
		o := wOptsFromVal(l[2])
		roots := cidsFromVal(l[3])
		if crTagOf(l[0]) == "segs" {
			segs := crSegsFromVal(l[4])
			last := crBlksFromVal(l[5])
			var all []Blk
			for _, s := range segs {
				all = append(all, s.blks...)
			}
			all = append(all, last...)
			plain, ok := c12PlainFinal(c.Work, kind, o, roots, all)
			if !ok {
				return VL{VT("openerr")}
			}
			return c12RunSegsImpl(c.Work, kind, o, roots, segs, last, plain)
		}
		return c12RunMismatchImpl(c.Work, kind, o, roots, crBlksFromVal(l[4]), crTagOf(l[5]), wOptsFromVal(l[6]), cidsFromVal(l[7]))
	})
}

// ================================ kind "crash" (C06) ==============================================

// kind "crash" (C06): the write sequence of the last process of a session is OBSERVED (recording
// ReaderAt/WriterAt/Truncate wrapper for storage.StorageCar; strace of a helper process for
// blockstore.ReadWrite, whose *os.File cannot be wrapped), crash images are built from it, each
// image is reopened with the real library.  Wire format: coq/theories/RunCrash.v.

type c06Sess struct {
	kind  uint64
	o     wOpts
	roots []cid.Cid
	pre   []crSeg
	puts  []Blk
	fin   bool
}

func (s c06Sess) val() Val {
	return VL{VN(s.kind), s.o.val(), crRootsVal(s.roots), crSegsVal(s.pre), blksVal(s.puts), vbool(s.fin)}
}

func c06SessFromVal(v Val) c06Sess {
	l := v.(VL)
	return c06Sess{uint64(l[0].(VN)), wOptsFromVal(l[1]), cidsFromVal(l[2]), crSegsFromVal(l[3]), crBlksFromVal(l[4]), l[5].(VN) != 0}
}

// one observed underlying write
type c06ObsWrite struct {
	op    int // operation of the crashing process: 0 = open/resume, i = i-th Put, n+1 = Finalize
	trunc bool
	off   uint64 // offset, or new size for a truncation
	data  []byte
}

// c06RecFile records every WriteAt / Write / Truncate issued on an *os.File
type c06RecFile struct {
	f   *os.File
	seq int64
	op  *int
	log *[]c06ObsWrite
}

func (r *c06RecFile) ReadAt(p []byte, off int64) (int, error) { return r.f.ReadAt(p, off) }
func (r *c06RecFile) WriteAt(p []byte, off int64) (int, error) {
	*r.log = append(*r.log, c06ObsWrite{op: *r.op, off: uint64(off), data: append([]byte(nil), p...)})
	return r.f.WriteAt(p, off)
}
func (r *c06RecFile) Write(p []byte) (int, error) {
	n, err := r.WriteAt(p, r.seq)
	r.seq += int64(n)
	return n, err
}
func (r *c06RecFile) Truncate(n int64) error {
	*r.log = append(*r.log, c06ObsWrite{op: *r.op, trunc: true, off: uint64(n)})
	return r.f.Truncate(n)
}

// c06RunPre executes the earlier processes of the session on path with the real library
func c06RunPre(path string, s c06Sess) error {
	ctx := context.Background()
	for _, sg := range s.pre {
		if s.kind == 0 {
			bs, err := blockstore.OpenReadWrite(path, s.roots, s.o.v2()...)
			if err != nil {
				return err
			}
			for _, b := range sg.blks {
				blk, _ := blocks.NewBlockWithCid(b.Data, b.Cid)
				bs.Put(ctx, blk)
			}
			if sg.cut == "finalize" {
				bs.Finalize()
			} else {
				bs.Discard()
			}
		} else {
			f, err := os.OpenFile(path, os.O_RDWR|os.O_CREATE, 0o666)
			if err != nil {
				return err
			}
			st, _ := f.Stat()
			var sc *storage.StorageCar
			if st.Size() == 0 {
				sc, err = storage.NewReadableWritable(f, s.roots, s.o.v2()...)
			} else {
				sc, err = storage.OpenReadableWritable(f, s.roots, s.o.v2()...)
			}
			if err != nil {
				f.Close()
				return err
			}
			for _, b := range sg.blks {
				sc.Put(ctx, string(b.Cid.Bytes()), b.Data)
			}
			if sg.cut == "finalize" {
				sc.Finalize()
			}
			f.Close()
		}
	}
	return nil
}

// c06ObserveStorage runs the last process of a storage session with a recording file
func c06ObserveStorage(work string, s c06Sess) (f0 []byte, log []c06ObsWrite, err error) {
	dir, err := os.MkdirTemp(work, "cw")
	if err != nil {
		panic(err)
	}
	defer os.RemoveAll(dir)
	path := filepath.Join(dir, "a.car")
	if err = c06RunPre(path, s); err != nil {
		return nil, nil, err
	}
	f0, _ = os.ReadFile(path)
	f, err := os.OpenFile(path, os.O_RDWR|os.O_CREATE, 0o666)
	if err != nil {
		panic(err)
	}
	defer f.Close()
	op := 0
	rf := &c06RecFile{f: f, op: &op, log: &log}
	var sc *storage.StorageCar
	if len(f0) == 0 {
		sc, err = storage.NewReadableWritable(rf, s.roots, s.o.v2()...)
	} else {
		sc, err = storage.OpenReadableWritable(rf, s.roots, s.o.v2()...)
	}
	if err != nil {
		return nil, nil, err
	}
	ctx := context.Background()
	for i, b := range s.puts {
		op = i + 1
		sc.Put(ctx, string(b.Cid.Bytes()), b.Data)
	}
	if s.fin {
		op = len(s.puts) + 1
		sc.Finalize()
	}
	return f0, log, nil
}

// ---- blockstore: helper process under strace ------------------------------------------------------
const c06HelperEnv = "VERIF_CRASH_HELPER"

func c06HelperMain(specPath string) {
	data, err := os.ReadFile(specPath)
	if err != nil {
		fmt.Fprintln(os.Stderr, err)
		os.Exit(3)
	}
	lines := strings.Split(strings.TrimSpace(string(data)), "\n")
	v, err := parseVal(lines[0])
	if err != nil {
		os.Exit(3)
	}
	s := c06SessFromVal(v)
	path, f0path := lines[1], lines[2]
	if err := c06RunPre(path, s); err != nil {
		os.Exit(4)
	}
	if b, err := os.ReadFile(path); err == nil {
		os.WriteFile(f0path, b, 0o644)
	} else {
		os.WriteFile(f0path, nil, 0o644)
	}
	mk, err := os.OpenFile("/dev/null", os.O_WRONLY, 0)
	if err != nil {
		os.Exit(3)
	}
	marker := func(i int) { syscall.Write(int(mk.Fd()), []byte(fmt.Sprintf("OP%d", i))) }
	ctx := context.Background()
	marker(0)
	bs, err := blockstore.OpenReadWrite(path, s.roots, s.o.v2()...)
	if err != nil {
		os.Exit(5)
	}
	for i, b := range s.puts {
		marker(i + 1)
		blk, _ := blocks.NewBlockWithCid(b.Data, b.Cid)
		bs.Put(ctx, blk)
	}
	if s.fin {
		marker(len(s.puts) + 1)
		bs.Finalize()
	} else {
		bs.Discard()
	}
	marker(9999)
	os.Exit(0)
}

func init() {
	if p := os.Getenv(c06HelperEnv); p != "" {
		c06HelperMain(p)
	}
}

var (
	c06RePwrite = regexp.MustCompile(`pwrite64\(\d+<([^>]*)>, "((?:\\x[0-9a-f]{2})*)"(?:\.\.\.)?, (\d+), (\d+)\)\s+= (-?\d+)`)
	c06ReWrite  = regexp.MustCompile(`write\(\d+<([^>]*)>, "((?:\\x[0-9a-f]{2})*)"(?:\.\.\.)?, (\d+)\)\s+= (-?\d+)`)
	c06ReTrunc  = regexp.MustCompile(`ftruncate\(\d+<([^>]*)>, (\d+)\)\s+= (-?\d+)`)
	c06ReHexEsc = regexp.MustCompile(`^(?:\\x[0-9a-f]{2})+$`)
)

// with -xx strace also hex-escapes the paths it prints after file descriptors
func c06TracePath(s string) string {
	if c06ReHexEsc.MatchString(s) {
		return string(c06UnhexStrace(s))
	}
	return s
}

func c06UnhexStrace(s string) []byte {
	b, err := hex.DecodeString(strings.ReplaceAll(s, `\x`, ""))
	if err != nil {
		panic(err)
	}
	return b
}

// c06ObserveBlockstore runs the session in a helper process under strace and parses the write calls
func c06ObserveBlockstore(work string, s c06Sess) (f0 []byte, log []c06ObsWrite, err error) {
	dir, err := os.MkdirTemp(work, "cw")
	if err != nil {
		panic(err)
	}
	defer os.RemoveAll(dir)
	path := filepath.Join(dir, "a.car")
	f0path := filepath.Join(dir, "f0")
	spec := filepath.Join(dir, "spec")
	trace := filepath.Join(dir, "trace")
	os.WriteFile(spec, []byte(valString(s.val())+"\n"+path+"\n"+f0path+"\n"), 0o644)
	self, err := os.Executable()
	if err != nil {
		panic(err)
	}
	cmd := exec.Command("strace", "-f", "-y", "-e", "trace=pwrite64,write,ftruncate", "-xx", "-s", "1000000", "-o", trace, self)
	cmd.Env = append(os.Environ(), c06HelperEnv+"="+spec)
	if out, err := cmd.CombinedOutput(); err != nil {
		if ee, ok := err.(*exec.ExitError); ok && (ee.ExitCode() == 4 || ee.ExitCode() == 5) {
			return nil, nil, fmt.Errorf("session does not open")
		}
		panic(fmt.Sprintf("strace helper failed: %v: %s", err, out))
	}
	f0, _ = os.ReadFile(f0path)
	tf, err := os.Open(trace)
	if err != nil {
		panic(err)
	}
	defer tf.Close()
	sc := bufio.NewScanner(tf)
	sc.Buffer(make([]byte, 1<<20), 64<<20)
	op := -1
	pending := map[string]string{} // pid -> first half of a call strace printed in two pieces
	for sc.Scan() {
		line := sc.Text()
		// "<pid> call(args <unfinished ...>" ... "<pid> <... call resumed>rest": glue the halves together
		pid := ""
		if i := strings.IndexByte(line, ' '); i > 0 {
			pid = line[:i]
		}
		if i := strings.Index(line, " <unfinished ...>"); i >= 0 {
			pending[pid] = line[:i]
			continue
		}
		if i := strings.Index(line, "resumed>"); i >= 0 && strings.Contains(line, "<... ") {
			head, ok := pending[pid]
			if !ok {
				continue
			}
			delete(pending, pid)
			line = head + line[i+len("resumed>"):]
		}
		if m := c06ReWrite.FindStringSubmatch(line); m != nil && !strings.Contains(line, "pwrite64(") {
			if c06TracePath(m[1]) == "/dev/null" {
				t := string(c06UnhexStrace(m[2]))
				if strings.HasPrefix(t, "OP") {
					op, _ = strconv.Atoi(t[2:])
				}
			} else if c06TracePath(m[1]) == path {
				panic("sequential write on the target file: " + line)
			}
			continue
		}
		if op < 0 || op == 9999 {
			continue
		}
		if m := c06RePwrite.FindStringSubmatch(line); m != nil && c06TracePath(m[1]) == path {
			data := c06UnhexStrace(m[2])
			n, _ := strconv.Atoi(m[3])
			off, _ := strconv.ParseUint(m[4], 10, 64)
			ret, _ := strconv.Atoi(m[5])
			if len(data) != n || ret != n {
				panic("short or truncated pwrite in trace: " + line[:80])
			}
			log = append(log, c06ObsWrite{op: op, off: off, data: data})
		} else if m := c06ReTrunc.FindStringSubmatch(line); m != nil && c06TracePath(m[1]) == path {
			n, _ := strconv.ParseUint(m[2], 10, 64)
			log = append(log, c06ObsWrite{op: op, trunc: true, off: n})
		}
	}
	return f0, log, nil
}

func c06ObserveWrites(work string, s c06Sess) ([]byte, []c06ObsWrite, error) {
	if s.kind == 0 {
		return c06ObserveBlockstore(work, s)
	}
	return c06ObserveStorage(work, s)
}

// c06MergedOps: per operation, contiguous writes merged and empty writes dropped
func c06MergedOps(s c06Sess, log []c06ObsWrite) Val {
	nops := 1 + len(s.puts)
	if s.fin {
		nops++
	}
	out := VL{}
	for op := 0; op < nops; op++ {
		var cur []c06ObsWrite
		for _, w := range log {
			if w.op != op || (!w.trunc && len(w.data) == 0) {
				continue
			}
			if n := len(cur); n > 0 && !w.trunc && !cur[n-1].trunc && cur[n-1].off+uint64(len(cur[n-1].data)) == w.off {
				cur[n-1].data = append(append([]byte(nil), cur[n-1].data...), w.data...)
				continue
			}
			cur = append(cur, w)
		}
		l := VL{}
		for _, w := range cur {
			if w.trunc {
				l = append(l, VL{VT("trunc"), VN(w.off)})
			} else {
				l = append(l, VL{VT("at"), VN(w.off), VB(w.data)})
			}
		}
		out = append(out, l)
	}
	return out
}

func c06ApplyWrite(f []byte, w c06ObsWrite, t int) []byte {
	if w.trunc {
		if t == 0 {
			return f
		}
		if int(w.off) <= len(f) {
			return f[:w.off]
		}
		return append(f, make([]byte, int(w.off)-len(f))...)
	}
	d := w.data
	if t < len(d) {
		d = d[:t]
	}
	if len(d) == 0 {
		return f
	}
	end := int(w.off) + len(d)
	if end > len(f) {
		f = append(f, make([]byte, end-len(f))...)
	}
	copy(f[w.off:], d)
	return f
}

func c06UnitsOf(w c06ObsWrite) int {
	if w.trunc {
		return 1
	}
	return len(w.data)
}

// c06Image: f0 with u units of the observed write stream applied
func c06Image(f0 []byte, log []c06ObsWrite, u int) []byte {
	f := append([]byte(nil), f0...)
	for _, w := range log {
		n := c06UnitsOf(w)
		if u >= n {
			f = c06ApplyWrite(f, w, n)
			u -= n
			continue
		}
		f = c06ApplyWrite(f, w, u)
		break
	}
	return f
}

func c06TotalUnits(log []c06ObsWrite) int {
	n := 0
	for _, w := range log {
		n += c06UnitsOf(w)
	}
	return n
}

// attempted blocks in the order the model lists them (cs_attempted)
func (s c06Sess) attempted() []Blk {
	var out []Blk
	for _, sg := range s.pre {
		out = append(out, sg.blks...)
	}
	return append(out, s.puts...)
}

// c06ReopenImage: what the real library does with a crash image; returns the outcome Val and the
// Inspect(true) verdict on the continued file
func c06ReopenImage(work string, s c06Sess, img []byte, x Blk) (Val, bool) {
	dir, err := os.MkdirTemp(work, "ci")
	if err != nil {
		panic(err)
	}
	defer os.RemoveAll(dir)
	path := filepath.Join(dir, "a.car")
	if err := os.WriteFile(path, img, 0o644); err != nil {
		panic(err)
	}
	ctx := context.Background()
	readFile := func() []byte { b, _ := os.ReadFile(path); return b }
	var has func(c cid.Cid) Val
	var get func(c cid.Cid) Val
	var put func(b Blk) error
	var finalize func() error
	var keys Val = VT("nokeys")
	var closeAll func()
	if s.kind == 0 {
		bs, err := blockstore.OpenReadWrite(path, s.roots, s.o.v2()...)
		if err != nil {
			return VL{VT("err"), VB(readFile())}, false
		}
		closeAll = func() { bs.Discard() }
		has = func(c cid.Cid) Val {
			h, err := bs.Has(ctx, c)
			if err != nil {
				return VT("err")
			}
			return vbool(h)
		}
		get = func(c cid.Cid) Val {
			b, err := bs.Get(ctx, c)
			if err != nil {
				return VT("err")
			}
			return VB(b.RawData())
		}
		put = func(b Blk) error { blk, _ := blocks.NewBlockWithCid(b.Data, b.Cid); return bs.Put(ctx, blk) }
		finalize = bs.Finalize
		ch, err := bs.AllKeysChan(ctx)
		if err != nil {
			keys = VT("err")
		} else {
			var ks []cid.Cid
			for c := range ch {
				ks = append(ks, c)
			}
			keys = cidsVal(ks)
		}
	} else {
		f, err := os.OpenFile(path, os.O_RDWR, 0o666)
		if err != nil {
			panic(err)
		}
		sc, err := storage.OpenReadableWritable(f, s.roots, s.o.v2()...)
		if err != nil {
			f.Close()
			return VL{VT("err"), VB(readFile())}, false
		}
		closeAll = func() { f.Close() }
		has = func(c cid.Cid) Val {
			h, err := sc.Has(ctx, string(c.Bytes()))
			if err != nil {
				return VT("err")
			}
			return vbool(h)
		}
		get = func(c cid.Cid) Val {
			d, err := sc.Get(ctx, string(c.Bytes()))
			if err != nil {
				return VT("err")
			}
			return VB(d)
		}
		put = func(b Blk) error { return sc.Put(ctx, string(b.Cid.Bytes()), b.Data) }
		finalize = sc.Finalize
	}
	after := readFile()
	hg := VL{}
	for _, b := range s.attempted() {
		hg = append(hg, VL{has(b.Cid), get(b.Cid)})
	}
	cp := VT("nil")
	if err := put(x); err != nil {
		cp = VT("err")
	}
	cf := VT("nil")
	if err := finalize(); err != nil {
		cf = VT("err")
	}
	closeAll()
	final := readFile()
	insp := false
	if rd, err := carv2.OpenReader(path, carv2.ZeroLengthSectionAsEOF(s.o.zeof)); err == nil {
		if _, err := rd.Inspect(true); err == nil {
			insp = true
		}
		rd.Close()
	}
	return VL{VT("ok"), VB(after), keys, hg, cp, cf, VB(final), vbool(insp)}, insp
}

func c06WritesCase(s c06Sess) Val { return VL{VT("writes"), s.val()} }

func c06ImageCase(s c06Sess, u int, img []byte, x Blk, insp bool) Val {
	tab := crHdrTabAt(img, 0, crDataBase(s.o))
	return VL{VT("image"), s.val(), VN(uint64(u)), VB(img), VL{VB(x.Cid.Bytes()), VB(x.Data)}, vbool(insp), tab}
}

// the model prints (imgeq outcome); on the implementation side the image IS the observed one
func c06Obs(outcome Val) Val { return VL{VN(1), outcome} }

func init() {
	registerReplay("crash", func(c *Ctx, in Val) Val {
		l := in.(VL)
		s := c06SessFromVal(l[1])
		if crTagOf(l[0]) == "writes" {
			_, log, err := c06ObserveWrites(c.Work, s)
			if err != nil {
				return VL{VT("sesserr")}
			}
			return c06MergedOps(s, log)
		}
		// replay of an image case: the image is rebuilt from the writes observed NOW
		f0, log, err := c06ObserveWrites(c.Work, s)
		if err != nil {
			return VL{VT("sesserr")}
		}
		u := int(l[2].(VN))
		img := c06Image(f0, log, u)
		xl := l[4].(VL)
		_, xc, _ := cid.CidFromBytes([]byte(xl[0].(VB)))
		out, _ := c06ReopenImage(c.Work, s, img, Blk{xc, []byte(xl[1].(VB))})
		eq := uint64(0)
		if bytes.Equal(img, []byte(l[3].(VB))) {
			eq = 1
		}
		return VL{VN(eq), out}
	})
}

var _ = io.EOF
