package main

import (
	"github.com/ipfs/go-cid"
)

// Implementation drivers of the kinds "resume" (C12) and "crash" (C06); wire formats are in
// coq/theories/RunCrash.v.  Sessions run on the real library through runStoreImpl (k_store.go).

type seg struct {
	cut  string // "discard" | "finalize"
	blks []Blk
}

func putOp(b Blk) Val { return VL{VT("put"), VB(b.Cid.Bytes()), VB(b.Data)} }

func rootsVal(roots []cid.Cid) Val {
	if roots == nil {
		return VT("nil")
	}
	return cidsVal(roots)
}

func segsVal(segs []seg) Val {
	out := VL{}
	for _, s := range segs {
		e := VL{VT(s.cut)}
		for _, b := range s.blks {
			e = append(e, VL{VB(b.Cid.Bytes()), VB(b.Data)})
		}
		out = append(out, e)
	}
	return out
}

// ops of one segment end: how the session is left before the file is reopened
func cutOps(kind uint64, cut string) VL {
	if cut == "finalize" {
		return VL{VL{VT("finalize")}}
	}
	if kind == 0 {
		return VL{VL{VT("discard")}}
	}
	return VL{} // a StorageCar has no close: the handle is dropped
}

func isNilOut(v Val) bool {
	l, ok := v.(VL)
	if !ok || len(l) != 1 {
		return false
	}
	t, ok := l[0].(VT)
	return ok && t == "nil"
}

// plainFinal: the file an uninterrupted session (puts, Finalize) leaves.
func plainFinal(work string, kind uint64, o wOpts, roots []cid.Cid, blks []Blk) (Val, bool) {
	ops := VL{}
	for _, b := range blks {
		ops = append(ops, putOp(b))
	}
	ops = append(ops, VL{VT("finalize")})
	res := runStoreImpl(work, kind, o, roots, nil, ops).(VL)
	if !isNilOut(res[0]) {
		return nil, false
	}
	return res[2], true
}

// runSegsImpl: (tok interrupted plain) | (treopen-failed plain) | (topenerr)
func runSegsImpl(work string, kind uint64, o wOpts, roots []cid.Cid, segs []seg, last []Blk, plain Val) Val {
	ops := VL{}
	var reopenAt []int
	for _, s := range segs {
		for _, b := range s.blks {
			ops = append(ops, putOp(b))
		}
		ops = append(ops, cutOps(kind, s.cut)...)
		reopenAt = append(reopenAt, len(ops))
		ops = append(ops, VL{VT("reopen"), o.val(), cidsVal(roots)})
	}
	for _, b := range last {
		ops = append(ops, putOp(b))
	}
	ops = append(ops, VL{VT("finalize")})
	res := runStoreImpl(work, kind, o, roots, nil, ops).(VL)
	if !isNilOut(res[0]) {
		return VL{VT("openerr")}
	}
	obs := res[1].(VL)
	for _, i := range reopenAt {
		if i >= len(obs) || !isNilOut(obs[i].(VL)[0]) {
			return VL{VT("reopen-failed"), plain}
		}
	}
	return VL{VT("ok"), res[2], plain}
}

// fileBeforeReopen: the file a session (puts, cut) leaves behind
func fileBeforeReopen(work string, kind uint64, o wOpts, roots []cid.Cid, puts []Blk, cut string) ([]byte, bool) {
	ops := VL{}
	for _, b := range puts {
		ops = append(ops, putOp(b))
	}
	ops = append(ops, cutOps(kind, cut)...)
	res := runStoreImpl(work, kind, o, roots, nil, ops).(VL)
	if !isNilOut(res[0]) {
		return nil, false
	}
	return []byte(res[2].(VB)), true
}

// runMismatchImpl: (taccepted changed) | (trejected changed) | (topenerr)
func runMismatchImpl(work string, kind uint64, o wOpts, roots []cid.Cid, puts []Blk, cut string, o2 wOpts, roots2 []cid.Cid) Val {
	ops := VL{}
	for _, b := range puts {
		ops = append(ops, putOp(b))
	}
	ops = append(ops, cutOps(kind, cut)...)
	at := len(ops)
	ops = append(ops, VL{VT("reopen"), o2.val(), rootsVal(roots2)})
	res := runStoreImpl(work, kind, o, roots, nil, ops).(VL)
	if !isNilOut(res[0]) {
		return VL{VT("openerr")}
	}
	step := res[1].(VL)[at].(VL)
	out := step[0].(VL)
	if isNilOut(out) {
		return VL{VT("accepted"), step[1]}
	}
	return VL{VT("rejected"), step[1]} // the error class is not part of the property
}

func blksFromVal(v Val) []Blk {
	var out []Blk
	for _, e := range v.(VL) {
		el := e.(VL)
		_, c, err := cid.CidFromBytes([]byte(el[0].(VB)))
		if err != nil {
			panic(err)
		}
		out = append(out, Blk{c, []byte(el[1].(VB))})
	}
	return out
}

func segsFromVal(v Val) []seg {
	var out []seg
	for _, e := range v.(VL) {
		el := e.(VL)
		out = append(out, seg{cut: string(el[0].(VT)), blks: blksFromVal(el[1:])})
	}
	return out
}

func tagOf(v Val) string {
	if t, ok := v.(VT); ok {
		return string(t)
	}
	return ""
}

func init() {
	registerReplay("resume", func(c *Ctx, in Val) Val {
		l := in.(VL)
		kind := uint64(l[1].(VN))
		o := wOptsFromVal(l[2])
		roots := cidsFromVal(l[3])
		if tagOf(l[0]) == "segs" {
			segs := segsFromVal(l[4])
			last := blksFromVal(l[5])
			var all []Blk
			for _, s := range segs {
				all = append(all, s.blks...)
			}
			all = append(all, last...)
			plain, ok := plainFinal(c.Work, kind, o, roots, all)
			if !ok {
				return VL{VT("openerr")}
			}
			return runSegsImpl(c.Work, kind, o, roots, segs, last, plain)
		}
		return runMismatchImpl(c.Work, kind, o, roots, blksFromVal(l[4]), tagOf(l[5]), wOptsFromVal(l[6]), cidsFromVal(l[7]))
	})
}

// ================================ kind "crash" (C06) ==============================================
