package main

import (
	"fmt"

	"github.com/ipfs/go-cid"
	"github.com/ipld/go-car/v2/storage"
	mh "github.com/multiformats/go-multihash"
)

// C04 producer: operation histories on the writable stores (kind "storemap": the wire format of
// kind "store" without reopen and without write faults).  The layer-B predicate
// (coq/theories/RunMap.v prop_storemap) replays the reference map on what the implementation
// returned.

// c04Alphabet: a block alphabet that always contains every collision the property names:
//
//	A  sha2-256 / raw            A2 same multihash, other codec      A0 CIDv0 of the same data (maybe)
//	I  identity CID whose digest is A's sha2-256 digest (equal digest, other hash code)
//	X  a CID with another hash code carrying A's digest (equal digest, other hash code, not identity)
//	J  small identity block      L  identity CID of 80 bytes (over a small MaxIndexCidSize)
//	D  unrelated block(s)
func c04Alphabet(r *RNG, small bool) []Blk {
	n := 1 + r.Intn(40)
	if small {
		n = 3
	}
	dataA := r.Bytes(n)
	a := Blk{mkCid(1, 0x55, mh.SHA2_256, -1, dataA), dataA}
	dm, _ := mh.Decode(a.Cid.Hash())
	a2 := Blk{cid.NewCidV1(pick(r, []uint64{0x70, 0x71, 0x0129}), a.Cid.Hash()), dataA}
	ident := Blk{mkCid(1, 0x55, mh.IDENTITY, -1, dm.Digest), dm.Digest}
	xh, err := mh.Encode(dm.Digest, pick(r, []uint64{mh.SHA3_256, mh.DBL_SHA2_256, 0x1e /* blake3 */}))
	if err != nil {
		panic(err)
	}
	x := Blk{cid.NewCidV1(0x55, xh), dataA}
	long := r.Bytes(80)
	l := Blk{mkCid(1, 0x55, mh.IDENTITY, -1, long), long}
	if small {
		return []Blk{a, a2, ident, x, l}
	}
	out := []Blk{a, a2, ident, x, l}
	if r.Bool() {
		out = append(out, Blk{cid.NewCidV0(a.Cid.Hash()), dataA})
	}
	jd := r.Bytes(r.Intn(6))
	out = append(out, Blk{mkCid(1, pick(r, codecs), mh.IDENTITY, -1, jd), jd})
	out = append(out, genBlocks(r, 1+r.Intn(3), genOpts{identity: true, maxData: 300})...)
	return out
}

func alphabetFeatures(c *Ctx, alpha []Blk) {
	type key struct{ d string }
	byDigest := map[string]map[uint64]bool{}
	byMh := map[string]map[uint64]bool{}
	seen := map[string]bool{}
	for _, b := range alpha {
		dm, _ := mh.Decode(b.Cid.Hash())
		if byDigest[string(dm.Digest)] == nil {
			byDigest[string(dm.Digest)] = map[uint64]bool{}
		}
		byDigest[string(dm.Digest)][dm.Code] = true
		if byMh[string(b.Cid.Hash())] == nil {
			byMh[string(b.Cid.Hash())] = map[uint64]bool{}
		}
		byMh[string(b.Cid.Hash())][b.Cid.Prefix().Codec] = true
		if seen[string(b.Cid.Bytes())] {
			c.Count("alphabet:exact-duplicate")
		}
		seen[string(b.Cid.Bytes())] = true
		if dm.Code == mh.IDENTITY {
			c.Count("alphabet:identity")
		}
		if b.Cid.ByteLen() > 40 {
			c.Count("alphabet:long-cid")
		}
		if b.Cid.Version() == 0 {
			c.Count("alphabet:cidv0")
		}
	}
	for _, m := range byDigest {
		if len(m) > 1 {
			c.Count("alphabet:equal-digest-other-hash-code")
		}
	}
	for _, m := range byMh {
		if len(m) > 1 {
			c.Count("alphabet:equal-multihash-other-codec")
		}
	}
}

// genC04Ops: puts followed by queries about the same and about colliding keys, lifecycle calls in
// the middle and at the end
// kind 0 = blockstore.OpenReadWrite(path), kind 5 = blockstore.OpenReadWriteFile(caller's file, which
// stays open across Close/Discard: a stray write after Discard lands in the file instead of failing)
func isBS(kind uint64) bool { return kind == 0 || kind == 5 }

// genC04Lifecycle: a few puts, a lifecycle call, then mostly lifecycle calls and writes again -- what a
// frozen store must refuse without touching the file
func genC04Lifecycle(r *RNG, kind uint64, alpha []Blk) VL {
	ops := VL{}
	key := func(b Blk) Val { return VB(b.Cid.Bytes()) }
	for i := 0; i < r.Intn(4); i++ {
		b := pick(r, alpha)
		ops = append(ops, VL{VT("put"), key(b), VB(b.Data)})
	}
	first := []string{"finalize"}
	if isBS(kind) {
		first = []string{"discard", "discard", "close", "finalize", "finalizero"}
	}
	ops = append(ops, VL{VT(pick(r, first))})
	for i := 0; i < 2+r.Intn(6); i++ {
		b := pick(r, alpha)
		x := r.Intn(100)
		switch {
		case x < 30 && isBS(kind):
			ops = append(ops, VL{VT(pick(r, []string{"finalizero", "finalize", "close", "discard"}))})
		case x < 30:
			ops = append(ops, VL{VT("finalize")})
		case x < 55:
			ops = append(ops, VL{VT("put"), key(b), VB(b.Data)})
		case x < 65:
			ops = append(ops, VL{VT("roots")})
		case x < 80:
			ops = append(ops, VL{VT("has"), key(b)})
		default:
			ops = append(ops, VL{VT("get"), key(b)})
		}
	}
	return ops
}

func genC04Ops(r *RNG, kind uint64, alpha []Blk, n int) VL {
	ops := VL{}
	key := func(b Blk) Val { return VB(b.Cid.Bytes()) }
	for len(ops) < n {
		b := pick(r, alpha)
		x := r.Intn(100)
		switch {
		case x < 34:
			ops = append(ops, VL{VT("put"), key(b), VB(b.Data)})
			if r.Chance(50) { // ask about it (or a colliding key) right away
				q := b
				if r.Chance(40) {
					q = pick(r, alpha)
				}
				ops = append(ops, VL{VT(pick(r, []string{"has", "get"})), key(q)})
			}
		case x < 40 && isBS(kind):
			m := VL{VT("putmany")}
			for j := 0; j < 1+r.Intn(4); j++ {
				bb := pick(r, alpha)
				m = append(m, VL{VB(bb.Cid.Bytes()), VB(bb.Data)})
			}
			ops = append(ops, m)
		case x < 54:
			ops = append(ops, VL{VT("has"), key(b)})
		case x < 70:
			ops = append(ops, VL{VT("get"), key(b)})
		case x < 78 && isBS(kind):
			ops = append(ops, VL{VT("getsize"), key(b)})
		case x < 84 && isBS(kind):
			ops = append(ops, VL{VT("keys")})
		case x < 88:
			ops = append(ops, VL{VT("roots")})
		case x < 93:
			ops = append(ops, VL{VT("finalize")})
		case x < 97 && isBS(kind):
			ops = append(ops, VL{VT(pick(r, []string{"finalizero", "close", "discard"}))})
		case x < 99 && isBS(kind): // stutter steps: DeleteBlock (always an error), HashOnRead (no-op)
			if r.Bool() {
				ops = append(ops, VL{VT("delete"), key(b)})
			} else {
				ops = append(ops, VL{VT("hashonread"), vbool(r.Bool())})
			}
		default:
			ops = append(ops, VL{VT("get"), key(b)})
		}
	}
	return ops
}

func optsRowName(o wOpts) string {
	return fmt.Sprintf("opts:whole=%v,dups=%v,storeid=%v,v1=%v", o.whole, o.dups, o.storeID, o.v1)
}

// runC04Impl: the store driver with one more observation per step: what storage.IsNotFound says about the
// error the step returned (0 when it returned none)
func runC04Impl(work string, kind uint64, o wOpts, roots []cid.Cid, ops VL) Val {
	lastOutErr = nil
	x := &storeExtra{afterStep: func(s *storeSession) []Val {
		nf := lastOutErr != nil && storage.IsNotFound(lastOutErr)
		lastOutErr = nil
		return []Val{vbool(nf)}
	}}
	return runStoreImplX(work, kind, o, roots, nil, ops, x)
}

// emitC04 runs one history on the library and records it
func emitC04(c *Ctx, kind uint64, o wOpts, roots []cid.Cid, ops VL) {
	in := storeInput(kind, o, roots, nil, ops)
	obs := runC04Impl(c.Work, kind, o, roots, ops)
	// non-trivial: at least four steps, a put that was accepted and a query or listing after it
	okPut, queryAfter := false, false
	if l, ok := obs.(VL); ok && len(l) == 3 {
		steps, _ := l[1].(VL)
		for i, st := range steps {
			tag := string(ops[i].(VL)[0].(VT))
			out := st.(VL)[0].(VL)
			res := string(out[0].(VT))
			if res == "err" {
				c.Count("result:" + tag + ":err-" + string(out[1].(VT)))
			} else {
				c.Count("result:" + tag + ":" + res)
			}
			switch tag {
			case "put", "putmany":
				if res == "nil" {
					okPut = true
				}
			case "has", "get", "getsize", "keys":
				if okPut {
					queryAfter = true
				}
			}
		}
	}
	c.Count(fmt.Sprintf("front:%d", kind))
	c.Count(optsRowName(o))
	c.Emit("storemap", in, obs, len(ops) >= 4 && okPut && queryAfter)
}

// the 14 option rows of the exhaustive small-scope sub-space
func c04Rows() []wOpts {
	d := defaultWOpts
	row := func(f func(o *wOpts)) wOpts { o := d; f(&o); return o }
	return []wOpts{
		d,
		row(func(o *wOpts) { o.v1 = true }),
		row(func(o *wOpts) { o.whole = true }),
		row(func(o *wOpts) { o.whole = true; o.v1 = true }),
		row(func(o *wOpts) { o.dups = true }),
		row(func(o *wOpts) { o.dups = true; o.whole = true }),
		row(func(o *wOpts) { o.storeID = true }),
		row(func(o *wOpts) { o.storeID = true; o.whole = true }),
		row(func(o *wOpts) { o.storeID = true; o.dups = true; o.v1 = true }),
		row(func(o *wOpts) { o.storeID = true; o.maxCid = 36 }),
		row(func(o *wOpts) { o.dpad = 7; o.ipad = 1; o.codec = 0x0400 }),
		row(func(o *wOpts) { o.storeID = true; o.whole = true; o.v1 = true; o.maxCid = 36; o.dpad = 1 }),
		// rows 12, 13: CARv2 whose Finalize FAILS (store.Finalize cannot build the index):
		// carv2.WithoutIndex() (IndexCodec = index.CarIndexNone) and an index codec that does not exist
		row(func(o *wOpts) { o.codec = c04CodecNone }),
		row(func(o *wOpts) { o.codec = 0x55; o.dups = true; o.ipad = 1 }),
	}
}

// index.CarIndexNone: what carv2.WithoutIndex() sets; index.New refuses it, so Finalize fails
const c04CodecNone = 0x300000

func c04OpSet(kind uint64, alpha []Blk, reduced bool) []Val {
	var ops []Val
	k := func(b Blk) Val { return VB(b.Cid.Bytes()) }
	if reduced {
		// A, I (identity carrying A's digest), X (other hash code carrying A's digest)
		a, i, x := alpha[0], alpha[2], alpha[3]
		ops = []Val{
			VL{VT("put"), k(a), VB(a.Data)}, VL{VT("put"), k(i), VB(i.Data)}, VL{VT("put"), k(x), VB(x.Data)},
			VL{VT("has"), k(i)}, VL{VT("get"), k(i)}, VL{VT("get"), k(x)}, VL{VT("finalize")},
		}
		if isBS(kind) {
			ops = append(ops, VL{VT("keys")}, VL{VT("finalizero")}, VL{VT("discard")})
		} else {
			ops = append(ops, VL{VT("has"), k(a)}, VL{VT("get"), k(a)}, VL{VT("has"), k(x)})
		}
		return ops
	}
	for _, b := range alpha {
		ops = append(ops, VL{VT("put"), k(b), VB(b.Data)}, VL{VT("has"), k(b)}, VL{VT("get"), k(b)})
		if isBS(kind) {
			ops = append(ops, VL{VT("getsize"), k(b)})
		}
	}
	ops = append(ops, VL{VT("roots")}, VL{VT("finalize")})
	if isBS(kind) {
		ops = append(ops, VL{VT("keys")}, VL{VT("finalizero")}, VL{VT("close")}, VL{VT("discard")},
			VL{VT("delete"), k(alpha[0])}, VL{VT("hashonread"), VN(1)})
	}
	return ops
}

// every history of exactly n ops over the op set (shorter histories are their prefixes: each
// step's result is recorded, so they are covered)
func c04Exhaustive(c *Ctx, kind uint64, o wOpts, roots []cid.Cid, opset []Val, n int) {
	idx := make([]int, n)
	for {
		ops := make(VL, n)
		for i, j := range idx {
			ops[i] = opset[j]
		}
		emitC04(c, kind, o, roots, ops)
		c.Count(fmt.Sprintf("exhaustive:len%d", n))
		i := n - 1
		for i >= 0 {
			idx[i]++
			if idx[i] < len(opset) {
				break
			}
			idx[i] = 0
			i--
		}
		if i < 0 {
			return
		}
	}
}

// c04Example: the concrete instance the non-vacuity Examples of the C04 theorems are about
func c04Example(c *Ctx) {
	digest := make([]byte, 32)
	for i := range digest {
		digest[i] = byte(i + 1)
	}
	enc := func(code uint64, d []byte) mh.Multihash {
		h, err := mh.Encode(d, code)
		if err != nil {
			panic(err)
		}
		return h
	}
	data := []byte{222, 173, 190, 239}
	long := append(append(append([]byte{}, digest...), digest...), digest...)
	cA := cid.NewCidV1(0x55, enc(0x12, digest))
	cA2 := cid.NewCidV1(0x70, enc(0x12, digest))
	cI := cid.NewCidV1(0x55, enc(0x00, digest))
	cX := cid.NewCidV1(0x55, enc(0x16, digest))
	cL := cid.NewCidV1(0x55, enc(0x00, long))
	k := func(x cid.Cid) Val { return VB(x.Bytes()) }
	o := defaultWOpts
	o.dpad, o.ipad, o.maxCid, o.storeID = 7, 1, 40, true
	ops := VL{
		VL{VT("put"), k(cA), VB(data)}, VL{VT("put"), k(cI), VB(digest)}, VL{VT("has"), k(cI)}, VL{VT("get"), k(cI)},
		VL{VT("put"), k(cX), VB(data)}, VL{VT("get"), k(cX)}, VL{VT("put"), k(cA2), VB(data)},
		VL{VT("putmany"), VL{k(cA), VB(data)}, VL{k(cL), VB(long)}},
		VL{VT("keys")}, VL{VT("getsize"), k(cA)}, VL{VT("roots")}, VL{VT("get"), k(cA2)}, VL{VT("finalizero")},
		VL{VT("get"), k(cA)}, VL{VT("put"), k(cA), VB(data)}, VL{VT("finalize")}, VL{VT("has"), k(cA)}, VL{VT("get"), k(cI)},
	}
	c.Count("history:coq-example")
	emitC04(c, 0, o, []cid.Cid{cA}, ops)
	// Example C04_example_failed_finalize_closes: WithoutIndex, Finalize fails and closes, both front-ends
	on := o
	on.codec = c04CodecNone
	for _, kind := range []uint64{1, 0} {
		emitC04(c, kind, on, []cid.Cid{cA}, VL{VL{VT("put"), k(cA), VB(data)}, VL{VT("finalize")}, VL{VT("put"), k(cX), VB(data)},
			VL{VT("has"), k(cA)}, VL{VT("get"), k(cA)}, VL{VT("finalize")}})
	}
	// Example C04_example_across_reopen: a session, Finalize, reopen, and on
	emitC04(c, 0, o, []cid.Cid{cA}, VL{
		VL{VT("put"), k(cA), VB(data)}, VL{VT("has"), k(cA)}, VL{VT("put"), k(cI), VB(digest)}, VL{VT("keys")}, VL{VT("finalize")},
		VL{VT("reopen"), o.val(), cidsVal([]cid.Cid{cA})},
		VL{VT("has"), k(cI)}, VL{VT("put"), k(cA), VB(data)}, VL{VT("put"), k(cX), VB(data)}, VL{VT("get"), k(cX)}, VL{VT("keys")},
		VL{VT("finalize")}, VL{VT("has"), k(cA)},
	})
	// Example C04_example_callers_file_outs: the same store on a caller-owned file, used after Discard
	emitC04(c, 5, o, []cid.Cid{cA}, VL{
		VL{VT("put"), k(cA), VB(data)}, VL{VT("discard")}, VL{VT("roots")}, VL{VT("finalizero")}, VL{VT("finalize")},
		VL{VT("put"), k(cX), VB(data)}, VL{VT("has"), k(cA)}, VL{VT("roots")},
	})
}

func init() {
	registerReplay("storemap", func(c *Ctx, in Val) Val {
		l := in.(VL)
		return runC04Impl(c.Work, uint64(l[0].(VN)), wOptsFromVal(l[1]), cidsFromVal(l[2]), l[4].(VL))
	})
	register("c04", func(c *Ctx) {
		// (1) random histories over the collision alphabet x option matrix x front-ends
		n := 500 * c.Scale
		for i := 0; i < n; i++ {
			r := c.R.Fork()
			kind := uint64(pick(r, []int{0, 0, 0, 5, 5, 1, 1, 1, 2, 3}))
			o := genWOpts(r)
			if kind == 3 {
				o.v1 = true
			}
			if r.Chance(12) { // Finalize will fail (CARv2): WithoutIndex / unsupported index codec
				o.codec = uint64(pick(r, []int{c04CodecNone, c04CodecNone, 0x55, 0x0129}))
				c.Count("opts:finalize-fails-codec")
			}
			var alpha []Blk
			if r.Chance(70) {
				alpha = c04Alphabet(r, false)
			} else {
				alpha = storeAlphabet(r, 3+r.Intn(5))
			}
			if r.Chance(15) {
				o.maxCid = uint64(pick(r, []int{35, 36, 37, 40, 84}))
			}
			alphabetFeatures(c, alpha)
			roots := genRoots(r, alpha, true)
			if len(roots) == 0 && r.Bool() {
				roots = []cid.Cid{}
			}
			// limits set relative to the session's actual sizes: MaxAllowedSectionSize = the largest (or some)
			// section length, one below, one above; MaxAllowedHeaderSize = the header length, -1, +1
			limits := false
			if r.Chance(22) {
				b := pick(r, alpha)
				if r.Bool() {
					for _, x := range alpha {
						if x.Cid.ByteLen()+len(x.Data) > b.Cid.ByteLen()+len(b.Data) {
							b = x
						}
					}
				}
				l := b.Cid.ByteLen() + len(b.Data)
				d := pick(r, []int{0, 0, -1, 1})
				o.maxS = uint64(l + d)
				c.Count(fmt.Sprintf("limits:section%+d", d))
				limits = true
			}
			if r.Chance(12) {
				frame := refPayload(roots, nil)
				h := len(frame) - uvarintLen(uint64(len(frame)))
				if uvarintLen(uint64(h))+h != len(frame) {
					h = len(frame) - uvarintLen(uint64(h))
				}
				d := pick(r, []int{0, 0, -1, 1})
				o.maxH = uint64(h + d)
				c.Count(fmt.Sprintf("limits:header%+d", d))
				limits = true
			}
			ops := genC04Ops(r, kind, alpha, 4+r.Intn(36))
			if r.Chance(25) {
				ops = genC04Lifecycle(r, kind, alpha)
				c.Count("history:lifecycle-then-use")
			}
			c.Count("history:random")
			if !limits && (kind == 0 || kind == 1) && r.Chance(35) {
				// reopen the file once or twice in the middle of the history (same roots and options): the
				// resumed store must go on as the map holding the blocks stored so far
				for j := 0; j < 1+r.Intn(2); j++ {
					at := r.Intn(len(ops) + 1)
					ops = append(ops[:at:at], append(VL{VL{VT("reopen"), o.val(), cidsVal(roots)}}, ops[at:]...)...)
				}
				c.Count("history:with-reopen")
			}
			emitC04(c, kind, o, roots, ops)
		}
		// (1b) the two canonical collision scenarios (equal digest under another hash code) and the
		// use-after-Finalize scenario, on both front-ends
		{
			r := c.R.Fork()
			alpha := c04Alphabet(r, true)
			a, ident, x := alpha[0], alpha[2], alpha[3]
			dd := r.Bytes(5)
			d := Blk{mkCid(1, 0x71, mh.SHA2_256, -1, dd), dd} // unrelated block
			k := func(b Blk) Val { return VB(b.Cid.Bytes()) }
			for _, kind := range []uint64{0, 1} {
				for _, v1 := range []bool{false, true} {
					o := defaultWOpts
					o.v1 = v1
					emitC04(c, kind, o, []cid.Cid{a.Cid}, VL{VL{VT("put"), k(a), VB(a.Data)}, VL{VT("put"), k(x), VB(x.Data)},
						VL{VT("has"), k(x)}, VL{VT("get"), k(x)}, VL{VT("has"), k(a)}, VL{VT("get"), k(a)}})
					o.storeID = true
					emitC04(c, kind, o, []cid.Cid{a.Cid}, VL{VL{VT("put"), k(a), VB(a.Data)}, VL{VT("put"), k(ident), VB(ident.Data)},
						VL{VT("has"), k(ident)}, VL{VT("get"), k(ident)}})
					o.storeID = false
					emitC04(c, kind, o, []cid.Cid{a.Cid}, VL{VL{VT("put"), k(a), VB(a.Data)}, VL{VT("finalize")},
						VL{VT("put"), k(d), VB(d.Data)}, VL{VT("has"), k(a)}, VL{VT("get"), k(a)}, VL{VT("finalize")}})
					c.CountN("history:scenario", 3)
				}
			}
			// a Finalize that FAILS (WithoutIndex / unsupported codec), then further use: the store is closed
			// all the same (blockstore: FinalizeReadOnly leaves it finalized, not closed)
			for _, kind := range []uint64{0, 5, 1, 2} {
				for _, codec := range []uint64{c04CodecNone, 0x55} {
					o := defaultWOpts
					o.codec = codec
					emitC04(c, kind, o, []cid.Cid{a.Cid}, VL{VL{VT("put"), k(a), VB(a.Data)}, VL{VT("finalize")},
						VL{VT("put"), k(d), VB(d.Data)}, VL{VT("has"), k(a)}, VL{VT("get"), k(a)}, VL{VT("finalize")}, VL{VT("roots")}})
					if isBS(kind) {
						emitC04(c, kind, o, []cid.Cid{a.Cid}, VL{VL{VT("put"), k(a), VB(a.Data)}, VL{VT("finalizero")},
							VL{VT("put"), k(d), VB(d.Data)}, VL{VT("has"), k(a)}, VL{VT("get"), k(a)}, VL{VT("finalizero")}, VL{VT("close")}, VL{VT("has"), k(a)}})
					}
					c.Count("history:scenario")
				}
			}
			// the readers' limits at the boundary: MaxAllowedSectionSize = the section length of a, one below, one
			// above; MaxAllowedHeaderSize = the header length, one below, one above (strict ">" at HEAD)
			{
				rs := []cid.Cid{a.Cid}
				frame := refPayload(rs, nil)
				hl := len(frame) - uvarintLen(uint64(len(frame)-1))
				sl := a.Cid.ByteLen() + len(a.Data)
				for _, kind := range []uint64{0, 5, 1} {
					for _, dl := range []int{0, -1, 1} {
						for _, v1 := range []bool{false, true} {
							o := defaultWOpts
							o.v1 = v1
							o.maxS = uint64(sl + dl)
							o.maxH = uint64(hl + dl)
							ops := VL{VL{VT("put"), k(a), VB(a.Data)}, VL{VT("has"), k(a)}, VL{VT("get"), k(a)}, VL{VT("roots")},
								VL{VT("put"), k(d), VB(d.Data)}, VL{VT("get"), k(d)}}
							if isBS(kind) {
								ops = append(ops, VL{VT("getsize"), k(a)}, VL{VT("keys")})
							}
							emitC04(c, kind, o, rs, ops)
							c.Count(fmt.Sprintf("limits:scenario%+d", dl))
						}
					}
				}
			}
			// a session, Discard or Finalize, reopen, and on (Example C04_example_across_reopen has this shape)
			for _, kind := range []uint64{0, 1} {
				for _, v1 := range []bool{false, true} {
					for _, end := range []string{"finalize", "discard", ""} {
						if end == "discard" && kind != 0 {
							continue
						}
						o := defaultWOpts
						o.v1 = v1
						rs := []cid.Cid{a.Cid}
						ops := VL{VL{VT("put"), k(a), VB(a.Data)}, VL{VT("has"), k(a)}}
						if end != "" {
							ops = append(ops, VL{VT(end)})
						}
						ops = append(ops, VL{VT("reopen"), o.val(), cidsVal(rs)}, VL{VT("has"), k(a)}, VL{VT("get"), k(a)},
							VL{VT("put"), k(a), VB(a.Data)}, VL{VT("put"), k(d), VB(d.Data)}, VL{VT("get"), k(d)}, VL{VT("finalize")}, VL{VT("has"), k(a)})
						emitC04(c, kind, o, rs, ops)
						c.Count("history:scenario")
					}
				}
			}
			// use after Discard / Close on both blockstore variants; on the caller-owned file (kind 5) the
			// file is still open, so a finalize that is not refused would write header and index into it
			for _, kind := range []uint64{0, 5} {
				for _, v1 := range []bool{false, true} {
					for _, end := range []string{"discard", "close"} {
						o := defaultWOpts
						o.v1 = v1
						emitC04(c, kind, o, []cid.Cid{a.Cid}, VL{VL{VT("put"), k(a), VB(a.Data)}, VL{VT(end)}, VL{VT("roots")},
							VL{VT("finalizero")}, VL{VT("finalize")}, VL{VT("put"), k(d), VB(d.Data)}, VL{VT("has"), k(a)}, VL{VT("roots")}})
						c.Count("history:scenario")
					}
				}
			}
		}
		// (1c) the history of the Coq Example C04_example_* (proofs/StoreSpecExamples.v)
		c04Example(c)
		// (2) exhaustive small scope.  quick: all histories of length 2 over the full op set and a
		// 5-block alphabet for 4 rows; thorough: length 3 over the full op set and length 4 over the
		// reduced op set for the 12 rows, the three front-ends (blockstore on its own file, blockstore on
		// the caller's file, storage)
		r := c.R.Fork()
		alpha := c04Alphabet(r, true)
		roots := []cid.Cid{alpha[0].Cid}
		rows := c04Rows()
		if !c.Thorough {
			for _, ri := range []int{0, 1, 7, 9} {
				for _, kind := range []uint64{0, 1} {
					c04Exhaustive(c, kind, rows[ri], roots, c04OpSet(kind, alpha, false), 2)
				}
			}
			// the blockstore over a caller-owned file: length 2 over the full op set and length 3 over the
			// reduced op set (put x3, has, get x2, keys, finalize, finalizero, discard)
			for _, ri := range []int{0, 1} {
				c04Exhaustive(c, 5, rows[ri], roots, c04OpSet(5, alpha, false), 2)
				c04Exhaustive(c, 5, rows[ri], roots, c04OpSet(5, alpha, true), 3)
			}
			// the rows whose Finalize fails: length 3 over the reduced op set, the three front-ends
			for _, ri := range []int{12, 13} {
				for _, kind := range []uint64{0, 1, 5} {
					c04Exhaustive(c, kind, rows[ri], roots, c04OpSet(kind, alpha, true), 3)
				}
			}
			return
		}
		for _, o := range rows {
			for _, kind := range []uint64{0, 1, 5} {
				c04Exhaustive(c, kind, o, roots, c04OpSet(kind, alpha, false), 3)
				c04Exhaustive(c, kind, o, roots, c04OpSet(kind, alpha, true), 4)
			}
		}
	})
}
