package main

import (
	"bytes"
	"fmt"

	carv2 "github.com/ipld/go-car/v2"
)

// v2Container wraps a CARv1 payload in a CARv2 container (no index) with the given data padding.
func v2Container(payload []byte, dpad uint64, trailer []byte) []byte {
	var buf bytes.Buffer
	buf.Write(carv2.Pragma)
	h := carv2.NewHeader(uint64(len(payload))).WithDataPadding(dpad)
	h.IndexOffset = 0
	if len(trailer) > 0 {
		h.IndexOffset = h.DataOffset + h.DataSize
	}
	h.WriteTo(&buf)
	buf.Write(make([]byte, dpad))
	buf.Write(payload)
	buf.Write(trailer)
	return buf.Bytes()
}

// section layout of a payload built by refPayload
type layout struct {
	hdrEnd int
	// per block: start of section, start of cid, start of digest, start of data, end
	secStart, cidStart, digStart, dataStart, secEnd []int
}

func payloadLayout(roots interface{}, payload []byte, blks []Blk, hdrLen int) layout {
	l := layout{hdrEnd: hdrLen}
	pos := hdrLen
	for _, b := range blks {
		cl := b.Cid.ByteLen()
		sl := cl + len(b.Data)
		vl := uvarintLen(uint64(sl))
		dm := b.Cid.Hash()
		dl := digestLen(dm)
		l.secStart = append(l.secStart, pos)
		l.cidStart = append(l.cidStart, pos+vl)
		l.digStart = append(l.digStart, pos+vl+cl-dl)
		l.dataStart = append(l.dataStart, pos+vl+cl)
		l.secEnd = append(l.secEnd, pos+vl+sl)
		pos += vl + sl
	}
	return l
}

func uvarintLen(x uint64) int {
	n := 1
	for x >= 0x80 {
		x >>= 7
		n++
	}
	return n
}

func digestLen(mhb []byte) int {
	// multihash = code varint, len varint, digest
	i := 0
	for mhb[i] >= 0x80 {
		i++
	}
	i++
	j := i
	for mhb[j] >= 0x80 {
		j++
	}
	j++
	return len(mhb) - j
}

// c02Large: archives with one large section (above 1 MiB; thorough: straddling the 2^21 varint
// boundary) cut at sampled offsets inside and around it -- size-dependent read paths must report
// truncation like the small ones do.
func c02Large(c *Ctx) {
	r := c.R.Fork()
	sizes := []int{1<<20 + 4096}
	if c.Thorough {
		sizes = append(sizes, 2097152-40, 2097152+3)
	}
	for _, sz := range sizes {
		small1 := genBlock(r, genOpts{maxData: 20})
		bigData := r.Bytes(sz)
		big := Blk{mkCid(1, 0x55, 0x12, -1, bigData), bigData}
		small2 := genBlock(r, genOpts{maxData: 20})
		blks := []Blk{small1, big, small2}
		roots := genRoots(r, blks, false)
		payload := refPayload(roots, blks)
		hdrLen := len(refPayload(roots, nil))
		lay := payloadLayout(nil, payload, blks, hdrLen)
		orig := blksVal(blks)
		o := defaultROpts
		cuts := []int{lay.secStart[1] + 1, lay.cidStart[1], lay.dataStart[1], lay.dataStart[1] + 1,
			lay.dataStart[1] + sz/2, lay.secEnd[1] - 4097, lay.secEnd[1] - 1, lay.secEnd[1], lay.secEnd[1] + 1}
		boundary := map[int]bool{lay.hdrEnd: true}
		for _, e := range lay.secEnd {
			boundary[e] = true
		}
		// quick tier: the cuts that make the model chew through the whole 1 MiB block (the dominant
		// cost of the check) go to one reader per run; every reader still sees the cuts inside it
		heavyKind := uint64(r.Intn(3))
		for _, kind := range []uint64{0, 1, 2} {
			for _, k := range cuts {
				if !c.Thorough && kind != heavyKind && k >= lay.secEnd[1]-4097 && k != lay.secEnd[1]-1 {
					continue
				}
				nb := VN(1)
				if boundary[k] {
					nb = VN(0)
				}
				f := payload[:k]
				c02xScanCase(c, r, kind, o, f, nil, VL{VT("trunc"), orig, nb}, true)
				c.Count("input:large-section-prefix")
			}
		}
		// the loaders over the same large section (the root loader always; the internal one in thorough)
		lcuts := []int{lay.dataStart[1] + sz/2, lay.secEnd[1] - 1}
		if c.Thorough {
			lcuts = append(lcuts, lay.dataStart[1], lay.secEnd[1])
		}
		for _, k := range lcuts {
			kinds := []uint64{2}
			if c.Thorough {
				kinds = []uint64{1, 2}
			}
			for _, kind := range kinds {
				c02xEmitLoad(c, r, kind, r.Bool(), -1, payload[:k], c02xTruncExpect(orig, lay, k), true)
				c.Count("input:load-large-section-prefix")
			}
		}
	}
}

func init() {
	register("c02", func(c *Ctx) {
		c02Large(c)
		c02xBatch(c)
		c02xEdge(c)
		c02xVarint(c)
		c02xDuplicates(c)
		c02xCoverage(c)
		c02xShortSections(c)
		c02xHistories(c)
		nArch := 8 * c.Scale
		for a := 0; a < nArch; a++ {
			r := c.R.Fork()
			nb := 1 + r.Intn(4)
			blks := genBlocks(r, nb, genOpts{identity: true, maxData: 40})
			roots := genRoots(r, blks, false)
			payload := refPayload(roots, blks)
			hdrLen := len(refPayload(roots, nil))
			lay := payloadLayout(nil, payload, blks, hdrLen)
			orig := blksVal(blks)
			isV2 := r.Chance(40)
			dpad := uint64(0)
			if isV2 && r.Bool() {
				dpad = uint64(pick(r, []int{1, 7, 30}))
			}
			file := payload
			base := 0
			if isV2 {
				file = v2Container(payload, dpad, nil)
				base = 51 + int(dpad)
				c.Count("archive:v2")
			} else {
				c.Count("archive:v1")
			}
			readers := []uint64{0}
			if !isV2 {
				readers = []uint64{0, 1, 2}
			}
			o := defaultROpts
			if r.Chance(25) {
				o.zeof = true
			}
			if r.Chance(15) {
				// WithTrustedCAR: the BlockReader is util.ReadNode without the hash check (the path
				// carv1.ReadHeader + util.ReadNode loops take); truncation must still be loud
				o.trusted = true
				c.Count("archive:trusted-option")
			}
			emit := func(kind uint64, f []byte, expect Val) {
				c02xScanCase(c, r, kind, o, f, nil, expect, len(blks) > 0)
			}
			boundary := map[int]bool{base + lay.hdrEnd: true}
			for _, e := range lay.secEnd {
				boundary[base+e] = true
			}
			for _, kind := range readers {
				// the intact archive
				emit(kind, file, VL{VT("trunc"), orig, VN(0)})
				c.Count("input:intact")
				// every proper prefix of headers + sections
				for k := 0; k < base+len(payload); k++ {
					nb := VN(1)
					if boundary[k] {
						nb = VN(0)
					}
					emit(kind, file[:k], VL{VT("trunc"), orig, nb})
					c.Count("input:prefix")
				}
				// single-byte corruptions inside block data / digest
				for i := range blks {
					for pos := lay.digStart[i]; pos < lay.secEnd[i]; pos++ {
						for _, mask := range []byte{0x01, 0x80, 0xff} {
							if !c.Thorough && r.Intn(3) != 0 {
								continue
							}
							g := append([]byte(nil), file...)
							g[base+pos] ^= mask
							emit(kind, g, VL{VT("corrupt"), orig, VN(i)})
							c.Count("input:corrupt")
						}
					}
				}
				// corruptions anywhere else (headers, varints, cid prefix): only soundness (a) applies
				for t := 0; t < 40; t++ {
					pos := r.Intn(len(file))
					g := append([]byte(nil), file...)
					g[pos] ^= pick(r, []byte{0x01, 0x80, 0xff, 0x7f})
					emit(kind, g, VL{VT("none")})
					c.Count("input:corrupt-structure")
				}
			}
			if !isV2 {
				c02xLoaderCases(c, r, payload, lay, blks, orig, false)
			}
			c02xSkipCases(c, r, file, base, lay, blks, orig, o, 2)
		}
	})
}

// ---- round 2: the loaders (kind "c02load") -------------------------------------------------------------

// c02xTruncExpect: (ttrunc orig nonboundary nwhole) for the prefix payload[:k] of a CARv1 payload.
func c02xTruncExpect(orig Val, lay layout, k int) Val {
	nb := 1
	if k == lay.hdrEnd {
		nb = 0
	}
	nwhole := 0
	for _, e := range lay.secEnd {
		if e == k {
			nb = 0
		}
		if e <= k {
			nwhole++
		}
	}
	return VL{VT("trunc"), orig, VN(uint64(nb)), VN(uint64(nwhole))}
}

func c02xEmitLoad(c *Ctx, r *RNG, kind uint64, fast bool, failAt int, f []byte, expect Val, nontrivial bool) {
	hok, hdrs := scanTables(f)
	mode := c02xMode(r)
	one := func(mode int) {
		in := VL{VN(kind), vbool(fast), c02xFailVal(failAt), VB(f), hok, hdrs, expect, VN(uint64(mode))}
		c.Emit("c02load", in, c02xRunLoadImpl(kind, fast, failAt, f, mode), nontrivial)
	}
	one(mode)
	// the internal loader reads its length prefixes through the ReadByte adapters: same bytes, last
	// ones delivered together with io.EOF (Put path only: the paths share the reader)
	if mode != srcModeDataErr && kind == 1 && !fast && len(f) <= 4096 {
		one(srcModeDataErr)
	}
}

// c02xLoaderCases drives car.LoadCar and the internal carv1.LoadCar (Put path and PutMany path) over
// the same derivations of one small CARv1 the readers get: the intact archive, every proper prefix,
// single-byte corruptions of block data / digests, structural corruptions, and store faults.
func c02xLoaderCases(c *Ctx, r *RNG, payload []byte, lay layout, blks []Blk, orig Val, allPos bool) {
	nt := len(blks) > 0
	variants := []struct {
		kind uint64
		fast bool
	}{{1, false}, {1, true}, {2, false}, {2, true}}
	// the intact archive: all four variants, without and with a store fault at every call index
	for _, v := range variants {
		c02xEmitLoad(c, r, v.kind, v.fast, -1, payload, c02xTruncExpect(orig, lay, len(payload)), nt)
		c.Count("input:load-intact")
		for failAt := 0; failAt <= len(blks); failAt++ {
			c02xEmitLoad(c, r, v.kind, v.fast, failAt, payload, c02xTruncExpect(orig, lay, len(payload)), nt)
			c.Count("input:load-store-fault")
		}
	}
	// every proper prefix through all four variants
	for k := 0; k < len(payload); k++ {
		for _, v := range variants {
			failAt := -1
			if r.Chance(10) {
				failAt = r.Intn(len(blks) + 1)
			}
			c02xEmitLoad(c, r, v.kind, v.fast, failAt, payload[:k], c02xTruncExpect(orig, lay, k), nt)
			c.Count("input:load-prefix")
		}
	}
	// single-byte corruptions inside block data / digest
	for i := range blks {
		for pos := lay.digStart[i]; pos < lay.secEnd[i]; pos++ {
			if !c.Thorough && !allPos && r.Intn(3) != 0 {
				continue
			}
			g := append([]byte(nil), payload...)
			g[pos] ^= pick(r, []byte{0x01, 0x80, 0xff})
			for _, v := range variants {
				c02xEmitLoad(c, r, v.kind, v.fast, -1, g, VL{VT("corrupt"), orig, VN(uint64(i))}, nt)
				c.Count("input:load-corrupt")
			}
		}
	}
	// corruptions anywhere else: only "stored blocks hash to their CIDs" applies
	for t := 0; t < 20; t++ {
		g := append([]byte(nil), payload...)
		g[r.Intn(len(g))] ^= pick(r, []byte{0x01, 0x80, 0xff, 0x7f})
		v := pick(r, variants)
		c02xEmitLoad(c, r, v.kind, v.fast, -1, g, VL{VT("none")}, nt)
		c.Count("input:load-corrupt-structure")
	}
}

// c02xBatch: archives with more blocks than one PutMany batch of the fast path holds (1001), cut and
// corrupted around the batch boundaries -- the buffered blocks must not turn a failed load into a
// successful one, and nothing but original blocks may reach the store.
func c02xBatch(c *Ctx) {
	r := c.R.Fork()
	counts := []int{1003}
	if c.Thorough {
		counts = append(counts, 2004)
	}
	for _, n := range counts {
		var blks []Blk
		for i := 0; i < n; i++ {
			data := r.Bytes(1 + r.Intn(3))
			if r.Chance(80) {
				blks = append(blks, Blk{mkCid(1, 0x55, 0x00, -1, data), data}) // identity
			} else {
				blks = append(blks, Blk{mkCid(1, 0x55, 0x12, -1, data), data})
			}
		}
		roots := genRoots(r, blks, false)
		payload := refPayload(roots, blks)
		hdrLen := len(refPayload(roots, nil))
		lay := payloadLayout(nil, payload, blks, hdrLen)
		orig := blksVal(blks)
		cuts := []int{len(payload), lay.secEnd[999] + 1, lay.secEnd[1000] - 1, lay.secEnd[1000], lay.secEnd[1000] + 1, len(payload) - 1}
		faults := []int{0, 1}
		corrupt := []int{1000, 1001}
		if c.Thorough {
			cuts = append(cuts, lay.secStart[0]+1, lay.secEnd[499], lay.secEnd[999], lay.secEnd[1001], lay.secEnd[n-2]+2)
			faults = append(faults, 2)
			corrupt = append(corrupt, 500, n-1)
			if n > 2002 {
				cuts = append(cuts, lay.secEnd[2001]-1, lay.secEnd[2001], lay.secEnd[2001]+1)
			}
		}
		// quick: the two loaders take turns (same code shape); thorough: both on everything
		turn := r.Intn(2)
		kindsFor := func() []uint64 {
			if c.Thorough {
				return []uint64{1, 2}
			}
			turn++
			return []uint64{uint64(1 + turn%2)}
		}
		for _, k := range cuts {
			for _, kind := range kindsFor() {
				c02xEmitLoad(c, r, kind, true, -1, payload[:k], c02xTruncExpect(orig, lay, k), true)
				c.Count("input:load-batch-prefix")
			}
		}
		// the Put path once, cut where the PutMany path has flushed its first batch
		for _, kind := range kindsFor() {
			c02xEmitLoad(c, r, kind, false, -1, payload[:lay.secEnd[1001]-1], c02xTruncExpect(orig, lay, lay.secEnd[1001]-1), true)
			c.Count("input:load-batch-prefix")
		}
		// store faults on the first batch and on the final flush
		for _, failAt := range faults {
			for _, kind := range kindsFor() {
				c02xEmitLoad(c, r, kind, true, failAt, payload, c02xTruncExpect(orig, lay, len(payload)), true)
				c.Count("input:load-batch-store-fault")
			}
		}
		// a corrupted block at the end of the first batch and right behind it (thorough: also inside it, and the last)
		for _, i := range corrupt {
			for _, kind := range kindsFor() {
				g := append([]byte(nil), payload...)
				g[lay.secEnd[i]-1] ^= 0x01
				c02xEmitLoad(c, r, kind, true, -1, g, VL{VT("corrupt"), orig, VN(uint64(i))}, true)
				c.Count("input:load-batch-corrupt")
			}
		}
	}
}

// c02xEdge: one fixed-shape CARv1 per run whose blocks sit on the edges the random archives rarely hit:
// empty data under a hashing CID (v1 and v0), an identity CID with an empty digest, a one-byte block.
// Every reader and every loader variant sees the intact archive, every proper prefix and every
// single-byte corruption (3 masks) of digests and data.
func c02xEdge(c *Ctx) {
	r := c.R.Fork()
	one := r.Bytes(1)
	blks := []Blk{
		{mkCid(1, 0x55, 0x12, -1, nil), nil},
		{mkCid(1, pick(r, codecs), 0x00, -1, nil), nil},
		{mkCid(0, 0x70, 0x12, -1, nil), nil},
		{mkCid(1, 0x71, 0x13, -1, one), one},
		{mkCid(1, 0x55, 0x12, 20, nil), nil},
	}
	// order varies with the seed
	for i := len(blks) - 1; i > 0; i-- {
		j := r.Intn(i + 1)
		blks[i], blks[j] = blks[j], blks[i]
	}
	roots := genRoots(r, blks, false)
	payload := refPayload(roots, blks)
	hdrLen := len(refPayload(roots, nil))
	lay := payloadLayout(nil, payload, blks, hdrLen)
	orig := blksVal(blks)
	o := defaultROpts
	emit := func(kind uint64, f []byte, expect Val) {
		c02xScanCase(c, r, kind, o, f, nil, expect, true)
	}
	boundary := map[int]bool{lay.hdrEnd: true}
	for _, e := range lay.secEnd {
		boundary[e] = true
	}
	for _, kind := range []uint64{0, 1, 2} {
		for k := 0; k <= len(payload); k++ {
			nb := VN(1)
			if boundary[k] || k == len(payload) {
				nb = VN(0)
			}
			emit(kind, payload[:k], VL{VT("trunc"), orig, nb})
			c.Count("input:edge-prefix")
		}
		for i := range blks {
			for pos := lay.digStart[i]; pos < lay.secEnd[i]; pos++ {
				for _, mask := range []byte{0x01, 0x80, 0xff} {
					g := append([]byte(nil), payload...)
					g[pos] ^= mask
					emit(kind, g, VL{VT("corrupt"), orig, VN(uint64(i))})
					c.Count("input:edge-corrupt")
				}
			}
		}
	}
	c02xLoaderCases(c, r, payload, lay, blks, orig, true)
}

// ---- round 3: SkipNext / mixed walks (kind "c02skip"), multi-byte length varints, both zeof settings ----

// c02xSkipExpect: (ttrunc orig nonboundary nwhole) for file[:k], file = [container front of `base` bytes ++] payload.
func c02xSkipExpect(orig Val, lay layout, base, k, fileLen int) Val {
	nb := 1
	if k == base+lay.hdrEnd || k >= fileLen {
		nb = 0
	}
	nwhole := 0
	for _, e := range lay.secEnd {
		if base+e == k {
			nb = 0
		}
		if base+e <= k {
			nwhole++
		}
	}
	return VL{VT("trunc"), orig, VN(uint64(nb)), VN(uint64(nwhole))}
}

// c02xSkipSrc: source kind, chunk and "io.EOF comes with the last bytes" (counting sources only).
func c02xSkipSrc(r *RNG, seekable bool) (uint64, int, bool) {
	if seekable {
		k := pick(r, []uint64{0, 0, 3, 4, 4})
		return k, 0, k >= 3 && r.Bool()
	}
	return 2, pick(r, []int{0, 1, 3, 7, 4096}), r.Bool()
}

// c02xSkipCases: the BlockReader driven by SkipNext only and by a random mix of Next and SkipNext, on
// a seekable and on a plain source, over the intact file and every proper prefix (perCut walks per
// cut and source class; the first is always SkipNext-only).
func c02xSkipCases(c *Ctx, r *RNG, file []byte, base int, lay layout, blks []Blk, orig Val, o rOpts, perCut int) {
	n := len(blks)
	allSkip := make([]bool, n+2)
	for k := 0; k <= len(file); k++ {
		expect := c02xSkipExpect(orig, lay, base, k, len(file))
		for _, seekable := range []bool{true, false} {
			for t := 0; t < perCut; t++ {
				w := allSkip
				if t > 0 {
					w = randChoices(r, n+2)
				}
				kind, chunk, dataErr := c02xSkipSrc(r, seekable)
				if seekable && t == 0 && k%97 == 5 {
					kind, dataErr = 1, false // *os.File now and then
				}
				if !seekable && t == 0 {
					dataErr = true // every cut is walked once with io.EOF arriving with the last byte
				}
				c02xEmitSkip(c, kind, chunk, dataErr, o, file[:k], w, expect, n > 0)
				c.Count("input:skip-prefix")
			}
		}
	}
}

// c02xReplaceVarint replaces the length varint of section i by the given bytes.
func c02xReplaceVarint(payload []byte, lay layout, i int, v []byte) []byte {
	g := append([]byte(nil), payload[:lay.secStart[i]]...)
	g = append(g, v...)
	return append(g, payload[lay.cidStart[i]:]...)
}

// c02xVarint: sections whose length prefix is a 2-byte varint (128..300 bytes) with EVERY prefix
// (cuts inside the varint included), one section at the 3-byte boundary (16384) cut around its varint,
// and length prefixes replaced by overflowing / non-minimal varints -- under both settings of
// ZeroLengthSectionAsEOF, bare and wrapped as CARv2, through Next-only readers, SkipNext-only and
// mixed walks, and the loaders.  A failed length-prefix read is never a clean end.
func c02xVarint(c *Ctx) {
	r := c.R.Fork()
	mk := func(total int, hk hashKind, version int) Blk {
		probe := mkCid(version, 0x55, hk.code, hk.len, nil)
		n := total - probe.ByteLen()
		if hk.code == 0x00 { // identity: the CID holds the data
			n = (total - 4) / 2
		}
		data := r.Bytes(n)
		return Blk{mkCid(version, pick(r, codecs), hk.code, hk.len, data), data}
	}
	small := genBlock(r, genOpts{maxData: 20})
	blks := []Blk{
		mk(128+r.Intn(3), hashKind{0x12, -1}, 1),
		small,
		mk(pick(r, []int{129, 200, 255, 256, 300}), pick(r, hashKinds), 1),
		mk(130+r.Intn(100), hashKind{0x12, -1}, 0),
	}
	roots := genRoots(r, blks, false)
	payload := refPayload(roots, blks)
	hdrLen := len(refPayload(roots, nil))
	lay := payloadLayout(nil, payload, blks, hdrLen)
	orig := blksVal(blks)
	dpad := uint64(pick(r, []int{0, 1, 7}))
	v2file := v2Container(payload, dpad, nil)
	v2base := 51 + int(dpad)
	emitScan := func(kind uint64, o rOpts, f []byte, expect Val) {
		c02xScanCase(c, r, kind, o, f, nil, expect, true)
	}
	scanExpect := func(base, k, fileLen int) Val {
		e := c02xSkipExpect(orig, lay, base, k, fileLen).(VL)
		return VL{e[0], e[1], e[2]}
	}
	for _, zeof := range []bool{false, true} {
		o := defaultROpts
		o.zeof = zeof
		// every prefix of the bare CARv1: BlockReader and internal reader (root reader: no such option)
		for k := 0; k <= len(payload); k++ {
			for _, kind := range []uint64{0, 1} {
				emitScan(kind, o, payload[:k], scanExpect(0, k, len(payload)))
				c.Count("input:varint-prefix")
			}
			if !zeof {
				emitScan(2, o, payload[:k], scanExpect(0, k, len(payload)))
				c.Count("input:varint-prefix")
			}
		}
		// every prefix of the CARv2 container: BlockReader
		for k := 0; k <= len(v2file); k++ {
			emitScan(0, o, v2file[:k], scanExpect(v2base, k, len(v2file)))
			c.Count("input:varint-prefix-v2")
		}
		// SkipNext-only and mixed walks over the same prefixes
		c02xSkipCases(c, r, payload, 0, lay, blks, orig, o, 2)
		c02xSkipCases(c, r, v2file, v2base, lay, blks, orig, o, 2)
		// the same prefixes without hash verification (WithTrustedCAR = the bare ReadHeader + ReadNode path)
		ot := o
		ot.trusted = true
		for k := 0; k <= len(payload); k++ {
			emitScan(0, ot, payload[:k], scanExpect(0, k, len(payload)))
			c.Count("input:varint-prefix-trusted")
		}
		for k := 0; k <= len(v2file); k++ {
			emitScan(0, ot, v2file[:k], scanExpect(v2base, k, len(v2file)))
			c.Count("input:varint-prefix-trusted")
		}
		c02xSkipCases(c, r, v2file, v2base, lay, blks, orig, ot, 1)
		// length prefix of section i replaced by an invalid varint (and by a valid prefix cut short by junk)
		for i := range blks {
			l := uint64(blks[i].Cid.ByteLen() + len(blks[i].Data))
			bad := [][]byte{
				{0xff, 0xff, 0xff, 0xff, 0xff, 0xff, 0xff, 0xff, 0xff, 0xff},       // overflow (both decoders)
				{0x80, 0x80, 0x80, 0x80, 0x80, 0x80, 0x80, 0x80, 0x80, 0x02},       // 2^64: overflow
				{byte(l&0x7f) | 0x80, byte(l>>7&0x7f) | 0x80, 0x00},                 // non-minimal encoding of l
				{byte(l&0x7f) | 0x80, byte(l>>7&0x7f) | 0x80, 0x80, 0x00},           // non-minimal, longer
			}
			for bi, v := range bad {
				g := c02xReplaceVarint(payload, lay, i, v)
				expect := VL{VT("trunc"), orig, VN(1)}
				for _, kind := range []uint64{0, 1} {
					emitScan(kind, o, g, expect)
					c.Count("input:bad-length-prefix")
				}
				if !zeof {
					// encoding/binary accepts non-minimal varints: only soundness applies there
					if bi < 2 {
						emitScan(2, o, g, expect)
					} else {
						// (the oracle tables come from the unmodified payload: the harness's own section
						// enumerator follows go-varint and stops at the non-minimal prefix)
						c02xScanCase(c, r, 2, o, g, payload, VL{VT("none")}, true)
					}
					c.Count("input:bad-length-prefix")
				}
				gv2 := v2Container(g, dpad, nil)
				emitScan(0, o, gv2, expect)
				c.Count("input:bad-length-prefix")
				sexp := VL{VT("trunc"), orig, VN(1), VN(uint64(i))}
				for _, seekable := range []bool{true, false} {
					for _, f := range [][]byte{g, gv2} {
						kind, chunk, dataErr := c02xSkipSrc(r, seekable)
						w := make([]bool, len(blks)+2)
						if r.Bool() {
							w = randChoices(r, len(blks)+2)
						}
						c02xEmitSkip(c, kind, chunk, dataErr, o, f, w, sexp, true)
						c.Count("input:skip-bad-length-prefix")
					}
				}
			}
		}
	}
	// the loaders (default options) over every prefix of the same archive
	c02xLoaderCases(c, r, payload, lay, blks, orig, false)

	// one section at the 3-byte varint boundary, cut around and inside its length varint
	bigTotal := pick(r, []int{16384, 16385, 16500})
	big := mk(bigTotal, hashKind{0x12, -1}, 1)
	blks3 := []Blk{small, big, genBlock(r, genOpts{maxData: 20})}
	roots3 := genRoots(r, blks3, false)
	payload3 := refPayload(roots3, blks3)
	lay3 := payloadLayout(nil, payload3, blks3, len(refPayload(roots3, nil)))
	orig3 := blksVal(blks3)
	v2file3 := v2Container(payload3, dpad, nil)
	cuts := []int{lay3.secStart[1], lay3.secStart[1] + 1, lay3.secStart[1] + 2, lay3.cidStart[1], lay3.cidStart[1] + 1,
		lay3.dataStart[1], lay3.dataStart[1] + 1, lay3.dataStart[1] + bigTotal/2, lay3.secEnd[1] - 1, lay3.secEnd[1], lay3.secEnd[1] + 1, len(payload3)}
	for _, zeof := range []bool{false, true} {
		o := defaultROpts
		o.zeof = zeof
		for _, k := range cuts {
			e := c02xSkipExpect(orig3, lay3, 0, k, len(payload3)).(VL)
			for _, kind := range []uint64{0, 1} {
				emitScan(kind, o, payload3[:k], VL{e[0], e[1], e[2]})
				c.Count("input:varint3-prefix")
			}
			if !zeof {
				emitScan(2, o, payload3[:k], VL{e[0], e[1], e[2]})
				c02xEmitLoad(c, r, uint64(1+r.Intn(2)), r.Bool(), -1, payload3[:k], c02xTruncExpect(orig3, lay3, k), true)
				c.Count("input:varint3-prefix")
			}
			emitScan(0, o, v2file3[:v2base+k], VL{e[0], e[1], e[2]})
			c.Count("input:varint3-prefix")
			for _, seekable := range []bool{true, false} {
				kind, chunk, dataErr := c02xSkipSrc(r, seekable)
				c02xEmitSkip(c, kind, chunk, dataErr, o, payload3[:k], make([]bool, 5), e, true)
				kind, chunk, dataErr = c02xSkipSrc(r, seekable)
				c02xEmitSkip(c, kind, chunk, dataErr, o, v2file3[:v2base+k], randChoices(r, 5), c02xSkipExpect(orig3, lay3, v2base, v2base+k, len(v2file3)), true)
				c.Count("input:skip-varint3-prefix")
			}
		}
	}
}

// ---- round 4: delivery patterns of the source --------------------------------------------------------

// c02xScanCase emits one "scan" case read through a source with a drawn delivery pattern (recorded as
// the 7th input field, which the model ignores); for small files a reader that takes its length
// prefixes through go-car's ReadByte adapters (BlockReader, internal reader) also gets the same bytes
// through iotest.DataErrReader (the last bytes arrive together with io.EOF).
func c02xScanCase(c *Ctx, r *RNG, kind uint64, o rOpts, f []byte, tabFrom []byte, expect Val, nontrivial bool) {
	if tabFrom == nil {
		tabFrom = f
	}
	hok, hdrs := scanTables(tabFrom)
	mode := c02xMode(r)
	one := func(mode int) {
		in := VL{VN(kind), o.val(), VB(f), hok, hdrs, expect, VN(uint64(mode))}
		c.Emit("scan", in, runScanImplSrc(kind, o, c02xSource(f, mode)), nontrivial)
		c.Count(fmt.Sprintf("source:mode%d", mode))
	}
	one(mode)
	if mode != srcModeDataErr && kind != 2 && len(f) <= 4096 {
		one(srcModeDataErr)
	}
}

// ---- round 5: duplicate blocks; entry points found unexecuted by bin/coverage ---------------------------

// c02xDuplicates: archives in which the same (CID, data) section occurs two or three times (legal), with
// every prefix and every single-byte flip (3 masks) of the digests and data of EVERY copy -- so cuts and
// flips land in the later copies -- through full inspection (kind c02inspect), the three scanning
// readers, SkipNext / mixed walks and the loaders, bare and (inspection, BlockReader) wrapped as CARv2.
// A reader must not take a later copy on trust because it has verified an earlier one.
func c02xDuplicates(c *Ctx) {
	r := c.R.Fork()
	a := genBlock(r, genOpts{maxData: 24})
	b := genBlock(r, genOpts{identity: true, maxData: 12})
	d := Blk{mkCid(1, 0x55, 0x12, -1, []byte("dup")), []byte("dup")}
	blks := []Blk{a, d, a, b, d, a}
	if r.Bool() {
		blks = []Blk{d, a, a, d, b, b, a}
	}
	roots := genRoots(r, blks, false)
	payload := refPayload(roots, blks)
	lay := payloadLayout(nil, payload, blks, len(refPayload(roots, nil)))
	orig := blksVal(blks)
	dpad := uint64(pick(r, []int{0, 1, 7}))
	v2file := v2Container(payload, dpad, nil)
	v2base := 51 + int(dpad)
	o := defaultROpts
	io := iOpts{false, o.maxH, o.maxS}
	texp := func(base, k, fileLen int) Val {
		e := c02xSkipExpect(orig, lay, base, k, fileLen).(VL)
		return VL{e[0], e[1], e[2]}
	}
	for k := 0; k <= len(payload); k++ {
		c02xEmitInspect(c, io, payload[:k], texp(0, k, len(payload)), true)
		for _, kind := range []uint64{0, 1, 2} {
			c02xScanCase(c, r, kind, o, payload[:k], nil, texp(0, k, len(payload)), true)
		}
		c.Count("input:dup-prefix")
	}
	for k := 0; k <= len(v2file); k++ {
		c02xEmitInspect(c, io, v2file[:k], texp(v2base, k, len(v2file)), true)
		c02xScanCase(c, r, 0, o, v2file[:k], nil, texp(v2base, k, len(v2file)), true)
		c.Count("input:dup-prefix-v2")
	}
	for i := range blks {
		for pos := lay.digStart[i]; pos < lay.secEnd[i]; pos++ {
			for _, mask := range []byte{0x01, 0x80, 0xff} {
				g := append([]byte(nil), payload...)
				g[pos] ^= mask
				expect := VL{VT("corrupt"), orig, VN(uint64(i))}
				c02xEmitInspect(c, io, g, expect, true)
				for _, kind := range []uint64{0, 1, 2} {
					c02xScanCase(c, r, kind, o, g, nil, expect, true)
				}
				gv2 := v2Container(g, dpad, nil)
				c02xEmitInspect(c, io, gv2, expect, true)
				c02xScanCase(c, r, 0, o, gv2, nil, expect, true)
				c.Count("input:dup-corrupt")
			}
		}
	}
	c02xSkipCases(c, r, payload, 0, lay, blks, orig, o, 2)
	c02xSkipCases(c, r, v2file, v2base, lay, blks, orig, o, 1)
	c02xLoaderCases(c, r, payload, lay, blks, orig, true)
}

// c02xCoverage: legacy util.ReadCid on CIDs of every flavour followed by anything, their prefixes,
// non-minimal version/codec varints and garbage; carv1.ReadHeaderAt through pure ReaderAts and through
// readers positioned anywhere (also beyond the end); the internal offsetReadSeeker under random scripts.
// (carv1.NewCarReaderWithZeroLengthSectionAsEOF is reached by every "scan" case of reader kind 1 whose
// options are exactly that constructor's: ZeroLengthSectionAsEOF with the default limits.)
func c02xCoverage(c *Ctx) {
	r := c.R.Fork()
	emitCid := func(buf []byte, expect Val) {
		// ReadMultihash allocates the declared digest length before reading: keep declared lengths small
		if c02xDeclaredDigest(buf) > 1<<20 {
			return
		}
		c.Emit("c02readcid", VL{VB(buf), expect}, c02xReadCidImpl(buf), len(buf) > 0)
		c.Count("input:readcid")
	}
	n := 60 * c.Scale
	for i := 0; i < n; i++ {
		blk := genBlock(r, genOpts{identity: true, maxData: 40})
		cb := blk.Cid.Bytes()
		tail := r.Bytes(r.Intn(6))
		expect := Val(VL{VT("cid"), VB(cb)})
		emitCid(append(append([]byte(nil), cb...), tail...), expect)
		for k := 0; k < len(cb); k++ { // every proper prefix
			emitCid(cb[:k], VL{VT("none")})
		}
		if blk.Cid.Version() == 1 {
			// non-minimal version / codec varints (encoding/binary accepts them; the CID is re-encoded)
			g := append([]byte{0x81, 0x00}, cb[1:]...)
			emitCid(g, VL{VT("none")})
			// a flipped byte anywhere
			g2 := append([]byte(nil), cb...)
			g2[r.Intn(len(g2))] ^= pick(r, []byte{0x01, 0x80, 0xff})
			emitCid(g2, VL{VT("none")})
		}
		emitCid(r.Bytes(r.Intn(12)), VL{VT("none")})
	}
	// ReadHeaderAt
	for i := 0; i < 6*c.Scale; i++ {
		blks := genBlocks(r, 1+r.Intn(2), genOpts{maxData: 10})
		roots := genRoots(r, blks, true)
		payload := refPayload(roots, blks)
		pre := r.Bytes(r.Intn(5))
		file := append(append([]byte(nil), pre...), payload...)
		emitAt := func(isReader bool, pos int, maxH uint64, f []byte) {
			_, hdrs := scanTables(f[min(pos, len(f)):])
			if !isReader {
				_, hdrs = scanTables(f)
			}
			in := VL{vbool(isReader), VN(uint64(pos)), VN(maxH), VB(f), hdrs}
			c.Emit("c02hdrat", in, c02xHdrAtImpl(isReader, uint64(pos), maxH, f), true)
			c.Count("input:readheaderat")
		}
		hl := len(refPayload(roots, nil))
		for _, maxH := range []uint64{defaultROpts.maxH, uint64(hl - 1), uint64(hl - 2)} {
			emitAt(true, len(pre), maxH, file)   // positioned at the header
			emitAt(false, 0, maxH, payload)      // pure ReaderAt: from the start
		}
		emitAt(false, 0, defaultROpts.maxH, file) // pure ReaderAt over bytes that do not start with the header
		for t := 0; t < 8; t++ {
			emitAt(true, r.Intn(len(file)+4), defaultROpts.maxH, file) // anywhere, also beyond the end
		}
		for k := 0; k < hl; k += 1 + r.Intn(3) { // header cut short
			emitAt(true, 0, defaultROpts.maxH, payload[:k])
			emitAt(false, 0, defaultROpts.maxH, payload[:k])
		}
	}
	// offsetReadSeeker
	for i := 0; i < 40*c.Scale; i++ {
		data := r.Bytes(r.Intn(40))
		base := uint64(r.Intn(len(data) + 4))
		ops := VL{}
		for j := 0; j < 1+r.Intn(8); j++ {
			switch r.Intn(8) {
			case 0, 1:
				ops = append(ops, VL{VT("read"), VN(uint64(1 + r.Intn(12)))})
			case 2:
				ops = append(ops, VL{VT("byte")})
			case 3:
				ops = append(ops, VL{VT("at"), VN(uint64(1 + r.Intn(12))), VN(uint64(r.Intn(44)))})
			case 4:
				ops = append(ops, VL{VT("start"), VN(uint64(r.Intn(44)))})
			case 5:
				ops = append(ops, VL{VT("fwd"), VN(uint64(r.Intn(20)))})
			case 6:
				ops = append(ops, VL{VT("back"), VN(uint64(r.Intn(50)))})
			default:
				ops = append(ops, VL{VT("end")})
			}
		}
		c.Emit("c02ors", VL{VB(data), VN(base), ops}, c02xOrsImpl(data, base, ops), len(ops) > 1)
		c.Count("input:offsetreadseeker")
	}
}

// c02xDeclaredDigest: the digest length a v1 CID at the front of buf declares (0 if it does not get that far).
func c02xDeclaredDigest(buf []byte) uint64 {
	p := buf
	for i := 0; i < 4; i++ {
		var x uint64
		var s uint
		j := 0
		for {
			if j >= len(p) || j >= 10 {
				return 0
			}
			b := p[j]
			j++
			x |= uint64(b&0x7f) << s
			if b < 0x80 {
				break
			}
			s += 7
		}
		p = p[j:]
		if i == 3 {
			return x
		}
	}
	return 0
}

// ---- round 6: sections shorter than their CID; reader histories over the legacy reader -------------------

// c02xRewriteLen replaces the length prefix of section i by l.  reframe = false: the rest of the file is
// left as it is (the following bytes get framed differently); reframe = true: the section is cut to its
// first l bytes and the following sections keep their framing.
func c02xRewriteLen(payload []byte, lay layout, i int, l int, reframe bool) []byte {
	g := append([]byte(nil), payload[:lay.secStart[i]]...)
	g = append(g, byte(l)) // l < 128: one byte
	if reframe {
		g = append(g, payload[lay.cidStart[i]:lay.cidStart[i]+l]...)
		return append(g, payload[lay.secEnd[i]:]...)
	}
	return append(g, payload[lay.cidStart[i]:]...)
}

// c02xShortSections: in a valid CARv1, each section's length prefix set to each value 0..40 -- a complete
// section that is shorter than its own CID, stops where the digest should begin, or carries only part of
// its data -- through every reader, Inspect(true) and every loader variant.  None of it is the end of the
// archive: the error must be loud and nothing from that section on may be returned or stored.  (A length
// of 0 is the documented clean end under ZeroLengthSectionAsEOF and, always, for the legacy root reader
// and loader: only soundness applies there.)
func c02xShortSections(c *Ctx) {
	r := c.R.Fork()
	data1 := r.Bytes(30 + r.Intn(20))
	data2 := r.Bytes(3 + r.Intn(5))
	blks := []Blk{
		{mkCid(1, 0x55, 0x12, -1, data1), data1},
		{mkCid(0, 0x70, 0x12, -1, data2), data2},
		{mkCid(1, 0x71, 0x00, -1, data2), data2},
		genBlock(r, genOpts{maxData: 30}),
	}
	for i := len(blks) - 1; i > 0; i-- {
		j := r.Intn(i + 1)
		blks[i], blks[j] = blks[j], blks[i]
	}
	roots := genRoots(r, blks, false)
	payload := refPayload(roots, blks)
	lay := payloadLayout(nil, payload, blks, len(refPayload(roots, nil)))
	orig := blksVal(blks)
	oz := defaultROpts
	oz.zeof = true
	for i := range blks {
		full := blks[i].Cid.ByteLen() + len(blks[i].Data)
		for l := 0; l <= 40; l++ {
			for _, reframe := range []bool{false, true} {
				if l == full || (reframe && l > full) {
					continue
				}
				g := c02xRewriteLen(payload, lay, i, l, reframe)
				loud := Val(VL{VT("corrupt"), orig, VN(uint64(i))})
				none := Val(VL{VT("none")})
				legacy, zeof := loud, loud
				if l == 0 {
					legacy, zeof = none, none
				}
				c02xScanCase(c, r, 0, defaultROpts, g, nil, loud, true)
				c02xScanCase(c, r, 0, oz, g, nil, zeof, true)
				c02xScanCase(c, r, 1, defaultROpts, g, nil, loud, true)
				c02xScanCase(c, r, 1, oz, g, nil, zeof, true)
				c02xScanCase(c, r, 2, defaultROpts, g, nil, legacy, true)
				c02xEmitInspect(c, iOpts{false, defaultROpts.maxH, defaultROpts.maxS}, g, loud, true)
				for _, fast := range []bool{false, true} {
					c02xEmitLoad(c, r, 1, fast, -1, g, loud, true)
					c02xEmitLoad(c, r, 2, fast, -1, g, legacy, true)
				}
				kind, chunk, dataErr := c02xSkipSrc(r, r.Bool())
				c02xEmitSkip(c, kind, chunk, dataErr, defaultROpts, g, randChoices(r, len(blks)+2), none, true)
				c.Count("input:short-section")
			}
		}
	}
}

// c02xHistories: several legacy readers alive at once.  The caller owns bufio.Readers of 16 B, 4 KiB and
// 64 KiB, hands one to NewCarReader, reads that archive to its end, Resets the same bufio.Reader onto the
// next file and so on; readers over other (plain) sources are opened, advanced and drained in between.
// The files are intact archives, archives cut inside a section / on a boundary, and corrupted ones.
// Every reader must behave as if it were alone: in particular a cut archive never ends in a clean io.EOF.
func c02xHistories(c *Ctx) {
	r := c.R.Fork()
	type fcase struct {
		file   []byte
		expect Val
		nblk   int
	}
	var pool []fcase
	for a := 0; a < 3; a++ {
		blks := genBlocks(r, 1+r.Intn(3), genOpts{identity: true, maxData: 40})
		roots := genRoots(r, blks, false)
		payload := refPayload(roots, blks)
		lay := payloadLayout(nil, payload, blks, len(refPayload(roots, nil)))
		orig := blksVal(blks)
		texp := func(k int) Val {
			e := c02xSkipExpect(orig, lay, 0, k, len(payload)).(VL)
			return VL{e[0], e[1], e[2]}
		}
		pool = append(pool, fcase{payload, texp(len(payload)), len(blks)})
		for i := range blks {
			// cut inside the data (or right after the CID), right after the length varint, on the boundary
			for _, k := range []int{lay.secEnd[i] - 1, lay.cidStart[i], lay.cidStart[i] + 1, lay.secEnd[i], lay.dataStart[i]} {
				if k > lay.hdrEnd && k <= len(payload) {
					pool = append(pool, fcase{payload[:k], texp(k), len(blks)})
				}
			}
			if lay.secEnd[i] > lay.digStart[i] {
				g := append([]byte(nil), payload...)
				g[lay.digStart[i]+r.Intn(lay.secEnd[i]-lay.digStart[i])] ^= pick(r, []byte{0x01, 0x80, 0xff})
				pool = append(pool, fcase{g, VL{VT("corrupt"), orig, VN(uint64(i))}, len(blks)})
			}
		}
	}
	sizes := []int{16, 4096, 65536}
	sizesVal := VL{VN(16), VN(4096), VN(65536)}
	emit := func(ops VL, files [][]byte) {
		hokSeen, hdrSeen := map[string]bool{}, map[string]bool{}
		hok, hdrs := VL{}, VL{}
		for _, f := range files {
			h, d := scanTables(f)
			for _, x := range h.(VL) {
				if k := valString(x); !hokSeen[k] {
					hokSeen[k] = true
					hok = append(hok, x)
				}
			}
			for _, x := range d.(VL) {
				if k := valString(x); !hdrSeen[k] {
					hdrSeen[k] = true
					hdrs = append(hdrs, x)
				}
			}
		}
		in := VL{sizesVal, ops, hok, hdrs}
		c.Emit("c02hist", in, c02xHistImpl(sizes, ops), true)
		c.Count("input:reader-history")
	}
	nh := 150 * c.Scale
	for h := 0; h < nh; h++ {
		ops := VL{}
		var files [][]byte
		rid := uint64(0)
		open := func(slot int) uint64 {
			f := pick(r, pool)
			rid++
			ops = append(ops, VL{VT("open"), VN(rid), VN(uint64(slot)), VB(f.file), f.expect})
			files = append(files, f.file)
			return rid
		}
		drain := func(id uint64) { ops = append(ops, VL{VT("next"), VN(id), VN(100)}) }
		var foreign []uint64
		slot := 1 + r.Intn(3)
		if h%3 == 0 {
			slot = 2 + r.Intn(2) // the sizes at and above the bufio default more often
		}
		sessions := 2 + r.Intn(3)
		for s := 0; s < sessions; s++ {
			// a caller session on its bufio.Reader, with other readers opened / advanced around it
			id := open(slot)
			if r.Chance(40) {
				foreign = append(foreign, open(0))
			}
			if r.Chance(30) {
				ops = append(ops, VL{VT("next"), VN(id), VN(uint64(1 + r.Intn(2)))})
			}
			drain(id)
			if r.Chance(60) {
				foreign = append(foreign, open(0))
			}
			if len(foreign) > 0 && r.Chance(40) {
				ops = append(ops, VL{VT("next"), VN(pick(r, foreign)), VN(uint64(1 + r.Intn(2)))})
			}
			if r.Chance(25) {
				slot = 1 + r.Intn(3)
			}
		}
		for _, id := range foreign {
			drain(id)
		}
		emit(ops, files)
	}
}
