package main

import (
	"bytes"

	carv2 "github.com/ipld/go-car/v2"
)

// v2Container wraps a CARv1 payload in a CARv2 container (no index) with the given data padding.
func v2Container(payload []byte, dpad uint64, trailer []byte) []byte {
	var buf bytes.Buffer
	buf.Write(carv2.Pragma)
	h := carv2.NewHeader(uint64(len(payload))).WithDataPadding(dpad)
	h.IndexOffset = 0
	if len(trailer) > 0 {
		h.IndexOffset = h.DataOffset + h.DataSize
	}
	h.WriteTo(&buf)
	buf.Write(make([]byte, dpad))
	buf.Write(payload)
	buf.Write(trailer)
	return buf.Bytes()
}

// section layout of a payload built by refPayload
type layout struct {
	hdrEnd int
	// per block: start of section, start of cid, start of digest, start of data, end
	secStart, cidStart, digStart, dataStart, secEnd []int
}

func payloadLayout(roots interface{}, payload []byte, blks []Blk, hdrLen int) layout {
	l := layout{hdrEnd: hdrLen}
	pos := hdrLen
	for _, b := range blks {
		cl := b.Cid.ByteLen()
		sl := cl + len(b.Data)
		vl := uvarintLen(uint64(sl))
		dm := b.Cid.Hash()
		dl := digestLen(dm)
		l.secStart = append(l.secStart, pos)
		l.cidStart = append(l.cidStart, pos+vl)
		l.digStart = append(l.digStart, pos+vl+cl-dl)
		l.dataStart = append(l.dataStart, pos+vl+cl)
		l.secEnd = append(l.secEnd, pos+vl+sl)
		pos += vl + sl
	}
	return l
}

func uvarintLen(x uint64) int {
	n := 1
	for x >= 0x80 {
		x >>= 7
		n++
	}
	return n
}

func digestLen(mhb []byte) int {
	// multihash = code varint, len varint, digest
	i := 0
	for mhb[i] >= 0x80 {
		i++
	}
	i++
	j := i
	for mhb[j] >= 0x80 {
		j++
	}
	j++
	return len(mhb) - j
}

// c02Large: archives with one large section (above 1 MiB; thorough: straddling the 2^21 varint
// boundary) cut at sampled offsets inside and around it -- size-dependent read paths must report
// truncation like the small ones do.
func c02Large(c *Ctx) {
	r := c.R.Fork()
	sizes := []int{1<<20 + 4096}
	if c.Thorough {
		sizes = append(sizes, 2097152-40, 2097152+3)
	}
	for _, sz := range sizes {
		small1 := genBlock(r, genOpts{maxData: 20})
		bigData := r.Bytes(sz)
		big := Blk{mkCid(1, 0x55, 0x12, -1, bigData), bigData}
		small2 := genBlock(r, genOpts{maxData: 20})
		blks := []Blk{small1, big, small2}
		roots := genRoots(r, blks, false)
		payload := refPayload(roots, blks)
		hdrLen := len(refPayload(roots, nil))
		lay := payloadLayout(nil, payload, blks, hdrLen)
		orig := blksVal(blks)
		o := defaultROpts
		cuts := []int{lay.secStart[1] + 1, lay.cidStart[1], lay.dataStart[1], lay.dataStart[1] + 1,
			lay.dataStart[1] + sz/2, lay.secEnd[1] - 4097, lay.secEnd[1] - 1, lay.secEnd[1], lay.secEnd[1] + 1}
		boundary := map[int]bool{lay.hdrEnd: true}
		for _, e := range lay.secEnd {
			boundary[e] = true
		}
		for _, kind := range []uint64{0, 1, 2} {
			for _, k := range cuts {
				nb := VN(1)
				if boundary[k] {
					nb = VN(0)
				}
				f := payload[:k]
				hok, hdrs := scanTables(f)
				in := VL{VN(kind), o.val(), VB(f), hok, hdrs, VL{VT("trunc"), orig, nb}}
				c.Emit("scan", in, runScanImpl(kind, o, f, r.Bool()), true)
				c.Count("input:large-section-prefix")
			}
		}
	}
}

func init() {
	register("c02", func(c *Ctx) {
		c02Large(c)
		nArch := 8 * c.Scale
		for a := 0; a < nArch; a++ {
			r := c.R.Fork()
			nb := 1 + r.Intn(4)
			blks := genBlocks(r, nb, genOpts{identity: true, maxData: 40})
			roots := genRoots(r, blks, false)
			payload := refPayload(roots, blks)
			hdrLen := len(refPayload(roots, nil))
			lay := payloadLayout(nil, payload, blks, hdrLen)
			orig := blksVal(blks)
			isV2 := r.Chance(40)
			dpad := uint64(0)
			if isV2 && r.Bool() {
				dpad = uint64(pick(r, []int{1, 7, 30}))
			}
			file := payload
			base := 0
			if isV2 {
				file = v2Container(payload, dpad, nil)
				base = 51 + int(dpad)
				c.Count("archive:v2")
			} else {
				c.Count("archive:v1")
			}
			readers := []uint64{0}
			if !isV2 {
				readers = []uint64{0, 1, 2}
			}
			o := defaultROpts
			if r.Chance(25) {
				o.zeof = true
			}
			emit := func(kind uint64, f []byte, expect Val) {
				hok, hdrs := scanTables(f)
				// the original sections must be answerable too (prefix cases ask about them)
				in := VL{VN(kind), o.val(), VB(f), hok, hdrs, expect}
				obs := runScanImpl(kind, o, f, r.Bool())
				c.Emit("scan", in, obs, len(blks) > 0)
			}
			boundary := map[int]bool{base + lay.hdrEnd: true}
			for _, e := range lay.secEnd {
				boundary[base+e] = true
			}
			for _, kind := range readers {
				// the intact archive
				emit(kind, file, VL{VT("trunc"), orig, VN(0)})
				c.Count("input:intact")
				// every proper prefix of headers + sections
				for k := 0; k < base+len(payload); k++ {
					nb := VN(1)
					if boundary[k] {
						nb = VN(0)
					}
					emit(kind, file[:k], VL{VT("trunc"), orig, nb})
					c.Count("input:prefix")
				}
				// single-byte corruptions inside block data / digest
				for i := range blks {
					for pos := lay.digStart[i]; pos < lay.secEnd[i]; pos++ {
						for _, mask := range []byte{0x01, 0x80, 0xff} {
							if !c.Thorough && r.Intn(3) != 0 {
								continue
							}
							g := append([]byte(nil), file...)
							g[base+pos] ^= mask
							emit(kind, g, VL{VT("corrupt"), orig, VN(i)})
							c.Count("input:corrupt")
						}
					}
				}
				// corruptions anywhere else (headers, varints, cid prefix): only soundness (a) applies
				for t := 0; t < 40; t++ {
					pos := r.Intn(len(file))
					g := append([]byte(nil), file...)
					g[pos] ^= pick(r, []byte{0x01, 0x80, 0xff, 0x7f})
					emit(kind, g, VL{VT("none")})
					c.Count("input:corrupt-structure")
				}
			}
		}
	})
}
