package main

import (
	"fmt"
	"bytes"

	"github.com/ipfs/go-cid"
	carv1 "github.com/ipld/go-car"
	mh "github.com/multiformats/go-multihash"
)

// C12 producer: kind "resume".
//  (a) transparency: sessions cut into segments by Discard+reopen / Finalize+reopen, compared byte
//      for byte with the uninterrupted session: exhaustive c12Interleavings of a 5-put list with <= 3
//      interruptions for 6 option rows x 2 front-ends, plus random sessions;
//  (b) mismatching reopen: every single-field mismatch (roots / version / data padding), incl. the
//      adversarial block whose data embeds a CARv1 header.

func c12Rows() []wOpts {
	d := defaultWOpts
	r2 := d
	r2.dpad, r2.ipad, r2.codec = 7, 1, 0x0400
	r3 := d
	r3.dpad, r3.ipad, r3.storeID = 1413, 512, true
	r4 := d
	r4.v1 = true
	r5 := d
	r5.dups, r5.whole = true, true
	r6 := d
	r6.zeof, r6.maxCid, r6.dpad = true, 40, 1
	return []wOpts{d, r2, r3, r4, r5, r6}
}

func c12EncHeader(roots []cid.Cid) []byte {
	var buf bytes.Buffer
	if err := carv1.WriteHeader(&carv1.CarHeader{Roots: roots, Version: 1}, &buf); err != nil {
		panic(err)
	}
	return buf.Bytes()
}

// crHdrTabAt: header-oracle entries for what Resume can read at the given offsets of file
func crHdrTabAt(file []byte, offs ...uint64) Val {
	tab := VL{}
	for _, off := range offs {
		if off <= uint64(len(file)) {
			if e, _, ok := hdrEntry(file[off:]); ok {
				tab = append(tab, e)
			}
		}
	}
	return tab
}

func crDataBase(o wOpts) uint64 {
	if o.v1 {
		return 0
	}
	return 51 + o.dpad
}

func c12EmitSegs(c *Ctx, kind uint64, o wOpts, roots []cid.Cid, segs []crSeg, last []Blk, plain Val, what string) {
	in := VL{VT("segs"), VN(kind), o.val(), crRootsVal(roots), crSegsVal(segs), blksVal(last), VL{}}
	obs := c12RunSegsImpl(c.Work, kind, o, roots, segs, last, plain)
	n := 0
	for _, s := range segs {
		n += len(s.blks)
	}
	c.Emit("resume", in, obs, len(segs) >= 1 && n+len(last) >= 2)
	c.Count("segs:" + what)
	c.Count("segs:interruptions=" + string(rune('0'+len(segs))))
}

func c12EmitMismatch(c *Ctx, kind uint64, o wOpts, roots []cid.Cid, puts []Blk, cut string, o2 wOpts, roots2 []cid.Cid, what string) {
	file, ok := c12FileBeforeReopen(c.Work, kind, o, roots, puts, cut)
	if !ok {
		return
	}
	tab := crHdrTabAt(file, 0, crDataBase(o2), crDataBase(o))
	in := VL{VT("mismatch"), VN(kind), o.val(), crRootsVal(roots), blksVal(puts), VT(cut), o2.val(), crRootsVal(roots2), tab}
	obs := c12RunMismatchImpl(c.Work, kind, o, roots, puts, cut, o2, roots2)
	c.Emit("resume", in, obs, len(puts) >= 1)
	c.Count("mismatch:" + what)
	c.Count("mismatch:cut=" + cut)
}

// c12Interleavings: all ways to place <= maxCuts interruptions (Discard / Finalize) in the n+1 gaps of
// an n-put list (several interruptions may share a gap)
func c12Interleavings(n, maxCuts int) [][][2]int { // list of [(gap, kind)]
	var out [][][2]int
	var rec func(start int, cur [][2]int)
	rec = func(start int, cur [][2]int) {
		out = append(out, append([][2]int(nil), cur...))
		if len(cur) == maxCuts {
			return
		}
		for g := start; g <= n; g++ {
			for k := 0; k < 2; k++ {
				rec(g, append(cur, [2]int{g, k}))
			}
		}
	}
	rec(0, nil)
	return out
}

func c12BuildSegs(puts []Blk, cuts [][2]int) ([]crSeg, []Blk) {
	var segs []crSeg
	prev := 0
	for _, ct := range cuts {
		kind := "discard"
		if ct[1] == 1 {
			kind = "finalize"
		}
		segs = append(segs, crSeg{cut: kind, blks: puts[prev:ct[0]]})
		prev = ct[0]
	}
	return segs, puts[prev:]
}

func init() {
	register("c12", func(c *Ctx) {
		// ---- (a1) exhaustive c12Interleavings -------------------------------------------------
		nPuts, maxCuts := 4, 3
		if c.Thorough {
			nPuts = 5
		}
		ils := c12Interleavings(nPuts, maxCuts)
		for ri, o := range c12Rows() {
			r := c.R.Fork()
			// the put list of this row: a duplicate, an identity block and a cross-codec twin included
			alpha := genBlocks(r, nPuts-2, genOpts{identity: false, maxData: 50})
			idData := r.Bytes(5)
			puts := append([]Blk{}, alpha...)
			puts = append(puts, Blk{mkCid(1, 0x55, mh.IDENTITY, -1, idData), idData})
			puts = append(puts, alpha[0]) // exact duplicate of the first
			roots := []cid.Cid{alpha[0].Cid}
			if ri%3 == 1 {
				roots = []cid.Cid{alpha[0].Cid, puts[1].Cid, alpha[0].Cid}
			} else if ri%3 == 2 {
				roots = nil
			}
			for _, kind := range []uint64{0, 1} {
				plain, ok := c12PlainFinal(c.Work, kind, o, roots, puts)
				if !ok {
					continue
				}
				for _, cuts := range ils {
					segs, last := c12BuildSegs(puts, cuts)
					c12EmitSegs(c, kind, o, roots, segs, last, plain, "exhaustive")
				}
			}
		}
		// ---- (a2) random sessions ------------------------------------------------------------
		nRand := 120 * c.Scale
		for i := 0; i < nRand; i++ {
			r := c.R.Fork()
			kind := uint64(r.Intn(2))
			o := genWOpts(r)
			if i%4 == 3 {
				o.maxS = uint64(pick(r, []int{64, 256, 1 << 10})) // blocks above MaxAllowedSectionSize are put and resumed over
			}
			alpha := genBlocks(r, 2+r.Intn(5), genOpts{identity: true, maxData: 0}) // sizes up to the 2^14 varint boundary; 2^21 is C01/C05 territory (the extracted model is too slow on MiB-sized lists)
			roots := genRoots(r, alpha, true)
			var all []Blk
			var segs []crSeg
			nseg := r.Intn(5)
			for s := 0; s < nseg; s++ {
				var bl []Blk
				for j := r.Intn(4); j > 0; j-- {
					bl = append(bl, pick(r, alpha))
				}
				all = append(all, bl...)
				segs = append(segs, crSeg{cut: pick(r, []string{"discard", "finalize"}), blks: bl})
			}
			var last []Blk
			for j := r.Intn(4); j > 0; j-- {
				last = append(last, pick(r, alpha))
			}
			all = append(all, last...)
			plain, ok := c12PlainFinal(c.Work, kind, o, roots, all)
			if !ok {
				continue
			}
			c12EmitSegs(c, kind, o, roots, segs, last, plain, "random")
		}
		// ---- (a3) header / section size limits ---------------------------------------------------
		// many roots so that the CARv1 header is larger than a small MaxAllowedSectionSize (which
		// must not matter for the header), a MaxAllowedHeaderSize of exactly the header size
		// (resumable) and of one byte less (every reopen refused: outside the theorem's hypothesis
		// "header <= MaxAllowedHeaderSize"; model and implementation must agree on the refusal)
		{
			r := c.R.Fork()
			var roots []cid.Cid
			for j := 0; j < 40; j++ {
				roots = append(roots, mkCid(1, 0x71, mh.SHA2_256, -1, r.Bytes(8)))
			}
			hlen := uint64(len(c12EncHeader(roots))) - uint64(uvarintLen(uint64(len(c12EncHeader(roots)))-2)) // bytes after the length varint
			if uint64(uvarintLen(hlen))+hlen != uint64(len(c12EncHeader(roots))) {
				panic("header length")
			}
			puts := genBlocks(r, 2, genOpts{identity: false, maxData: 40})
			// a block ABOVE the small MaxAllowedSectionSize between them: Put does not check that limit
			// (it only bounds what readers take out of a CAR), so the session must stay resumable
			ld := r.Bytes(2048)
			puts = []Blk{puts[0], {mkCid(1, 0x55, mh.SHA2_256, -1, ld), ld}, puts[1]}
			smallS := defaultWOpts
			smallS.maxS = 1 << 10
			smallSpad := smallS
			smallSpad.dpad, smallSpad.ipad, smallSpad.codec = 7, 1, 0x0400
			exactH := defaultWOpts
			exactH.maxH = hlen
			bothExact := defaultWOpts
			bothExact.maxH, bothExact.maxS = hlen, 1<<10
			shortH := defaultWOpts
			shortH.maxH = hlen - 1
			v1small := smallS
			v1small.v1 = true
			type lim struct {
				o    wOpts
				what string
			}
			for _, l := range []lim{{smallS, "limits:section<header"}, {smallSpad, "limits:section<header"}, {v1small, "limits:section<header-v1"},
				{exactH, "limits:header=exact"}, {bothExact, "limits:header=exact,section<header"}, {shortH, "limits:header=exact-1"}} {
				for _, kind := range []uint64{0, 1} {
					plain, ok := c12PlainFinal(c.Work, kind, l.o, roots, puts)
					if !ok {
						continue
					}
					for ci, cuts := range c12Interleavings(len(puts), 2) {
						if len(cuts) == 0 || (len(cuts) == 2 && ci%3 != 0 && !c.Thorough) {
							continue
						}
						segs, last := c12BuildSegs(puts, cuts)
						c12EmitSegs(c, kind, l.o, roots, segs, last, plain, l.what)
					}
				}
			}
			// WHICH refusal a header above the caller's limit meets (C12_oversized_header_refused):
			// the session's own limit one byte short, and a file written under the default limit
			// reopened with a short one; CARv2 -> "error reading car header" (the first header read is
			// the 11-byte pragma), CARv1 -> the ReadVersion call of ResumableVersion; class hdr2big
			shortV1 := shortH
			shortV1.v1 = true
			defV1 := defaultWOpts
			defV1.v1 = true
			tiny := defaultWOpts
			tiny.maxH = 10 // the pragma still fits, nothing else
			for _, kind := range []uint64{0, 1} {
				for _, cut := range []string{"discard", "finalize"} {
					c12EmitMismatch(c, kind, shortH, roots, puts, cut, shortH, roots, "limits:refusal-own-limit")
					c12EmitMismatch(c, kind, shortV1, roots, puts, cut, shortV1, roots, "limits:refusal-own-limit-v1")
					c12EmitMismatch(c, kind, defaultWOpts, roots, puts, cut, shortH, roots, "limits:refusal-shorter-limit")
					c12EmitMismatch(c, kind, defV1, roots, puts, cut, shortV1, roots, "limits:refusal-shorter-limit-v1")
					c12EmitMismatch(c, kind, defaultWOpts, roots, puts, cut, tiny, roots, "limits:refusal-tiny-limit")
				}
			}
		}
		// ---- (a4) root lists whose header length straddles a varint width boundary ------------------
		// carv1.HeaderSize (util.LdSize) tells Resume where the first section starts: header payload
		// of exactly 127 / 128 bytes (1 -> 2 prefix bytes) and 16383 / 16384 / 16385 bytes (2 -> 3;
		// about 400 roots), both CAR versions, both front-ends, interrupted by Discard and by Finalize
		{
			r := c.R.Fork()
			puts := genBlocks(r, 3, genOpts{identity: false, maxData: 40})
			targets := []int{127, 128, 16384}
			if c.Thorough {
				targets = []int{126, 127, 128, 129, 16382, 16383, 16384, 16385}
			}
			for _, target := range targets {
				roots := crRootsForHeaderLen(r, target)
				for _, v1 := range []bool{false, true} {
					o := defaultWOpts
					o.v1 = v1
					for _, kind := range []uint64{0, 1} {
						plain, ok := c12PlainFinal(c.Work, kind, o, roots, puts)
						if !ok {
							continue
						}
						for _, cuts := range [][]string{{"discard"}, {"finalize"}, {"finalize", "discard"}} {
							if target > 1000 && len(cuts) < 2 && !c.Thorough {
								continue // a 16 KiB header costs the extracted model about a second per session
							}
							var segs []crSeg
							for i, cut := range cuts {
								segs = append(segs, crSeg{cut: cut, blks: puts[i : i+1]})
							}
							c12EmitSegs(c, kind, o, roots, segs, puts[len(cuts):], plain, fmt.Sprintf("header-length=%d", target))
						}
					}
				}
			}
		}
		// ---- (a5) ONE caller-owned *os.File reused for every reopen --------------------------------
		// blockstore.OpenReadWriteFile(f) -> puts -> Discard / Finalize -> OpenReadWriteFile(f) again,
		// 2..4 reopen cycles on the same handle (kind 5), also with the caller leaving the handle's
		// cursor at the end / somewhere inside the file before each reopen (kind 6).  The model is the
		// blockstore reopened by path: where the handle's cursor stands must not matter.
		{
			r := c.R.Fork()
			padded := defaultWOpts
			padded.dpad, padded.ipad = 7, 3
			v1o := defaultWOpts
			v1o.v1 = true
			alpha := genBlocks(r, 5, genOpts{identity: false, maxData: 60})
			roots := []cid.Cid{alpha[0].Cid}
			for _, o := range []wOpts{defaultWOpts, padded, v1o} {
				for _, kind := range []uint64{5, 6} {
					for cycles := 2; cycles <= 4; cycles++ {
						for _, pat := range []string{"discard", "finalize", "alternate"} {
							var segs []crSeg
							var all []Blk
							for i := 0; i < cycles; i++ {
								cut := pat
								if pat == "alternate" {
									cut = []string{"discard", "finalize"}[i%2]
								}
								bl := []Blk{alpha[i%len(alpha)]}
								if i == 1 {
									bl = nil // a process that puts nothing
								}
								all = append(all, bl...)
								segs = append(segs, crSeg{cut: cut, blks: bl})
							}
							last := []Blk{alpha[4]}
							all = append(all, last...)
							plain, ok := c12PlainFinal(c.Work, kind, o, roots, all)
							if !ok {
								continue
							}
							c12EmitSegs(c, kind, o, roots, segs, last, plain, "same-handle")
						}
					}
					// refusals on the same handle leave the file untouched, too
					for _, cut := range []string{"discard", "finalize"} {
						c12EmitMismatch(c, kind, o, roots, alpha[:2], cut, o, []cid.Cid{alpha[1].Cid}, "same-handle-roots")
					}
				}
			}
		}
		// ---- (b) mismatching reopen ------------------------------------------------------------
		nBase := 6 * c.Scale
		for i := 0; i < nBase; i++ {
			r := c.R.Fork()
			o := genWOpts(r)
			o.v1 = i%3 == 2
			alpha := genBlocks(r, 3+r.Intn(3), genOpts{identity: true, maxData: 80})
			nr := 1 + r.Intn(3)
			var roots []cid.Cid
			for j := 0; j < nr; j++ {
				roots = append(roots, pick(r, alpha).Cid)
			}
			other := genBlock(r, genOpts{maxData: 8}).Cid
			var puts []Blk
			for j := r.Intn(4); j > 0; j-- {
				puts = append(puts, pick(r, alpha))
			}
			for _, kind := range []uint64{0, 1} {
				for _, cut := range []string{"discard", "finalize"} {
					// roots: replaced, appended, dropped, permuted (no mismatch), duplicated-subset, nil
					rv := [][]cid.Cid{
						append(append([]cid.Cid{}, roots[1:]...), other),
						append(append([]cid.Cid{}, roots...), other),
						roots[1:],
						nil,
					}
					if len(roots) > 1 {
						perm := append([]cid.Cid{}, roots[1:]...)
						perm = append(perm, roots[0])
						rv = append(rv, perm)
						dup := append([]cid.Cid{}, roots...)
						dup[0] = dup[1]
						rv = append(rv, dup)
					}
					for _, r2 := range rv {
						c12EmitMismatch(c, kind, o, roots, puts, cut, o, r2, "roots")
					}
					// the file has a duplicated root, the caller names another one in its place
					if len(roots) >= 2 {
						fr := append([]cid.Cid{}, roots...)
						fr[1] = fr[0]
						req := append([]cid.Cid{}, fr...)
						req[1] = other
						c12EmitMismatch(c, kind, o, fr, puts, cut, o, req, "roots-file-has-duplicates")
					}
					// version
					o2 := o
					o2.v1 = !o.v1
					c12EmitMismatch(c, kind, o, roots, puts, cut, o2, roots, "version")
					// padding
					if !o.v1 {
						for _, p := range []uint64{0, 1, 7, 59, 1413} {
							if p == o.dpad {
								continue
							}
							o3 := o
							o3.dpad = p
							c12EmitMismatch(c, kind, o, roots, puts, cut, o3, roots, "padding")
						}
					}
				}
			}
		}
		// ---- (b2) systematic single-field ROOT mismatches for 2..4 roots ---------------------------
		// The file's roots are distinct dag-pb / sha2-256 CIDv1s (so each has a CIDv0 and a raw-codec
		// twin with the same multihash).  Per root count: same multihash under another codec, CIDv0
		// vs CIDv1 of the same multihash (both directions), one root duplicated vs distinct (both
		// directions), one root replaced by a fresh CID, and permutations (not a mismatch: accepted).
		for n := 2; n <= 4; n++ {
			r := c.R.Fork()
			o := defaultWOpts
			if n == 3 {
				o.dpad, o.ipad = 7, 1
			}
			var blks []Blk
			var roots []cid.Cid
			for j := 0; j < n; j++ {
				d := r.Bytes(6 + j)
				b := Blk{mkCid(1, 0x70, mh.SHA2_256, -1, d), d}
				blks = append(blks, b)
				roots = append(roots, b.Cid)
			}
			puts := blks[:1+r.Intn(n)]
			fresh := mkCid(1, 0x70, mh.SHA2_256, -1, r.Bytes(9))
			with := func(base []cid.Cid, i int, c2 cid.Cid) []cid.Cid {
				out := append([]cid.Cid{}, base...)
				out[i] = c2
				return out
			}
			rawTwin := func(c1 cid.Cid) cid.Cid { return cid.NewCidV1(0x55, c1.Hash()) }
			v0Twin := func(c1 cid.Cid) cid.Cid { return cid.NewCidV0(c1.Hash()) }
			type variant struct {
				file, req []cid.Cid
				what      string
			}
			var vs []variant
			for _, i := range []int{0, n - 1} {
				j := (i + 1) % n
				vs = append(vs,
					variant{roots, with(roots, i, rawTwin(roots[i])), "roots-same-multihash-other-codec"},
					variant{roots, with(roots, i, v0Twin(roots[i])), "roots-cidv0-for-cidv1"},
					variant{with(roots, i, v0Twin(roots[i])), roots, "roots-cidv1-for-cidv0"},
					variant{roots, with(roots, i, roots[j]), "roots-duplicated-for-distinct"},
					variant{with(roots, i, roots[j]), roots, "roots-distinct-for-duplicated"},
					variant{roots, with(roots, i, fresh), "roots-one-replaced"},
				)
			}
			rot := append(append([]cid.Cid{}, roots[1:]...), roots[0])
			rev := make([]cid.Cid, n)
			for i := range roots {
				rev[n-1-i] = roots[i]
			}
			vs = append(vs, variant{roots, rot, "roots-permuted"}, variant{roots, rev, "roots-permuted"},
				variant{with(roots, 0, roots[1]), with(rot, n-1, roots[1]), "roots-permuted-with-duplicate"})
			for _, v := range vs {
				for _, kind := range []uint64{0, 1} {
					for _, cut := range []string{"discard", "finalize"} {
						c12EmitMismatch(c, kind, o, v.file, puts, cut, o, v.req, v.what)
					}
				}
			}
		}
		// adversarial: block data = a framed CARv1 header with the session's roots, so that the
		// bytes at the offset implied by another padding parse as a matching header
		for i := 0; i < 1+2*c.Scale; i++ {
			r := c.R.Fork()
			o := defaultWOpts
			o.dpad = uint64(pick(r, []int{0, 0, 3}))
			rootBlk := genBlock(r, genOpts{maxData: 20})
			filler := r.Bytes(r.Intn(6))
			if i == 0 {
				// the fixed witness of C12_reject_padding_refuted (coq/proofs/ResumeRefuted.v)
				o.dpad = 0
				d := []byte("verif-c12-root")
				rootBlk = Blk{mkCid(1, 0x55, mh.SHA2_256, -1, d), d}
				filler = nil
			}
			roots := []cid.Cid{rootBlk.Cid}
			data := append(append([]byte{}, filler...), c12EncHeader(roots)...)
			adv := Blk{mkCid(1, 0x55, mh.SHA2_256, -1, data), data}
			pre := []Blk{}
			if i > 0 && r.Bool() {
				pre = append(pre, rootBlk)
			}
			puts := append(append([]Blk{}, pre...), adv)
			// offset of the embedded header in the payload
			pl := refPayload(roots, puts)
			off := uint64(len(pl) - len(c12EncHeader(roots)))
			for _, kind := range []uint64{0, 1} {
				for _, cut := range []string{"discard", "finalize"} {
					o2 := o
					o2.dpad = o.dpad + off
					c12EmitMismatch(c, kind, o, roots, puts, cut, o2, roots, "padding-adversarial")
				}
			}
		}
	})
}
