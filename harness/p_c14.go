package main

import (
	"bytes"
	"fmt"

	carv2 "github.com/ipld/go-car/v2"
	"github.com/ipld/go-car/v2/index"
	"github.com/multiformats/go-varint"
)

// v2ContainerX: pragma + header with the given characteristics / index offset + padding bytes
// + payload + trailer.  DataOffset and DataSize describe the payload exactly.
func v2ContainerX(payload, pad []byte, hi, lo, ioff uint64, trailer []byte) []byte {
	var buf bytes.Buffer
	buf.Write(carv2.Pragma)
	h := carv2.Header{
		Characteristics: carv2.Characteristics{Hi: hi, Lo: lo},
		DataOffset:      51 + uint64(len(pad)),
		DataSize:        uint64(len(payload)),
		IndexOffset:     ioff,
	}
	if _, err := h.WriteTo(&buf); err != nil {
		panic(err)
	}
	buf.Write(pad)
	buf.Write(payload)
	buf.Write(trailer)
	return buf.Bytes()
}

// c14Archive is one constructed valid archive.
type c14Archive struct {
	blks    []Blk
	file    []byte
	payload []byte
	base    int // offset of the payload in the file (0 for CARv1)
	hdrLen  int // length of the CARv1 header incl. its varint
	isV2    bool
	trailer int
}

func genC14Archive(c *Ctx, r *RNG, small bool) c14Archive {
	var blks []Blk
	if small {
		blks = genBlocks(r, r.Intn(5), genOpts{identity: true, maxData: 60})
	} else {
		blks = genBlocks(r, 1+r.Intn(6), genOpts{identity: true, big: c.Thorough && r.Chance(20)})
	}
	roots := genRoots(r, blks, true)
	payload := refPayload(roots, blks)
	a := c14Archive{blks: blks, payload: payload, file: payload, hdrLen: len(refPayload(roots, nil))}
	if r.Chance(55) {
		a.isV2 = true
		padLen := pick(r, []int{0, 0, 1, 7, 1413})
		pad := make([]byte, padLen)
		if r.Chance(30) {
			pad = r.Bytes(padLen) // the reader must not care what the padding holds
		}
		var trailer []byte
		switch r.Intn(5) {
		case 4: // a real index of this payload, after some index padding
			trailer = append(make([]byte, pick(r, []int{0, 1, 512})), c14RealIndex(payload)...)
			c.Count("archive:v2-real-index")
		case 0: // index-less
		case 1:
			trailer = r.Bytes(1 + r.Intn(40))
		case 2: // looks like more sections: must never be read
			trailer = refPayload(nil, genBlocks(r, 1, genOpts{maxData: 20}))[len(refPayload(nil, nil)):]
		case 3:
			trailer = append(make([]byte, r.Intn(20)), 0x81, 0x08, 0, 0, 0, 0)
		}
		ioff := uint64(0)
		if len(trailer) > 0 && r.Chance(70) {
			ioff = 51 + uint64(padLen) + uint64(len(payload))
		} else if r.Chance(20) {
			ioff = r.U64() >> 1
		}
		hi, lo := uint64(0), uint64(0)
		if r.Chance(40) {
			hi, lo = r.U64(), r.U64()
		}
		a.file = v2ContainerX(payload, pad, hi, lo, ioff, trailer)
		a.base = 51 + padLen
		a.trailer = len(trailer)
		c.Count(fmt.Sprintf("archive:v2-pad%d", padLen))
	} else {
		c.Count("archive:v1")
	}
	c.Count(fmt.Sprintf("archive:blocks=%d", len(blks)))
	return a
}

// c14RealIndex: the index GenerateIndex builds for the payload, as index.WriteTo writes it.
func c14RealIndex(payload []byte) []byte {
	idx, err := carv2.GenerateIndex(bytes.NewReader(payload))
	if err != nil {
		panic(err)
	}
	var buf bytes.Buffer
	if _, err := index.WriteTo(idx, &buf); err != nil {
		panic(err)
	}
	return buf.Bytes()
}

func genC14Opts(r *RNG, a c14Archive) rOpts {
	o := defaultROpts
	if r.Chance(25) {
		o.zeof = true
	}
	if r.Chance(25) {
		o.trusted = true
	}
	if r.Chance(30) && len(a.blks) > 0 { // exact section limit
		m := 0
		for _, b := range a.blks {
			if n := b.Cid.ByteLen() + len(b.Data); n > m {
				m = n
			}
		}
		o.maxS = uint64(m)
	}
	if r.Chance(30) { // exact header limit (the pragma needs 10)
		hb := a.hdrLen - 1
		for uvarintLen(uint64(hb))+hb != a.hdrLen {
			hb--
		}
		if hb < 10 {
			hb = 10
		}
		o.maxH = uint64(hb)
	}
	return o
}

func allChoices(n int) [][]bool {
	var out [][]bool
	for m := 0; m < 1<<n; m++ {
		w := make([]bool, n)
		for i := range w {
			w[i] = m>>i&1 == 1
		}
		out = append(out, w)
	}
	return out
}

func randChoices(r *RNG, n int) []bool {
	w := make([]bool, n)
	for i := range w {
		w[i] = r.Bool()
	}
	return w
}

func mixed(w []bool, nb int) bool {
	n, s := false, false
	for i, b := range w {
		if i >= nb {
			break
		}
		if b {
			n = true
		} else {
			s = true
		}
	}
	return n && s
}

// source kind for the malformed stream: *os.File is left out because a rewritten DataOffset can
// ask for a seek the file system refuses (EINVAL beyond its maximum file size), which no
// in-memory source does; kind 4 has the same method set as far as go-car looks.
func srcKind(r *RNG) (uint64, int) {
	k := pick(r, []uint64{0, 2, 2, 3, 4})
	chunk := 0
	if k == 2 {
		chunk = pick(r, []int{0, 1, 3, 7, 4096})
	}
	return k, chunk
}

func init() {
	register("c14", func(c *Ctx) {
		nArch := 12 * c.Scale
		for ai := 0; ai < nArch; ai++ {
			r := c.R.Fork()
			small := ai%3 != 2
			a := genC14Archive(c, r, small)
			o := genC14Opts(r, a)
			nb := len(a.blks)
			expect := VL{VT("valid"), blksVal(a.blks), VN(uint64(a.base)), VN(uint64(len(a.payload)))}

			// ---- valid archive x choice strings x source kinds
			var ws [][]bool
			hasBig := len(a.file) > 1<<20
			exhaustive := small || len(a.file) <= 2048 || (c.Thorough && len(a.file) <= 8192)
			if exhaustive {
				ws = allChoices(nb + 1) // one more call than there are blocks: the end is part of it
				c.Count("choices:exhaustive")
			} else {
				ws = [][]bool{randChoices(r, nb+1), randChoices(r, nb+2), make([]bool, nb+1)}
				if !hasBig {
					ws = append(ws, randChoices(r, nb+1), randChoices(r, nb), randChoices(r, nb+1))
				}
				c.Count("choices:random")
			}
			for _, w := range ws {
				for kind := uint64(0); kind < 5; kind++ {
					if !exhaustive && (hasBig || !c.Thorough) && r.Intn(5) > 1 {
						continue
					}
					chunk := 0
					if kind == 2 {
						chunk = pick(r, []int{0, 1, 3, 7, 4096})
					}
					emitBrpos(c, kind, chunk, o, a.file, w, expect, nb >= 2 && mixed(w, nb))
					c.Count(fmt.Sprintf("valid:kind%d", kind))
				}
			}
			if !small {
				continue
			}

			// ---- malformed stream (correspondence + the CARv2 consumption bound only)
			none := VL{VT("none")}
			emitX := func(f []byte, what string, expect Val) {
				k, chunk := srcKind(r)
				emitBrpos(c, k, chunk, o, f, randChoices(r, nb+2), expect, false)
				c.Count("malformed:" + what)
			}
			emitM := func(f []byte, what string) { emitX(f, what, none) }
			// every proper prefix; a cut is "inside" unless it falls on the end of the header or
			// of a section (or, for CARv2, at/after the end of the payload)
			boundary := map[int]bool{a.base + a.hdrLen: true}
			pos := a.base + a.hdrLen
			for _, b := range a.blks {
				sl := b.Cid.ByteLen() + len(b.Data)
				pos += uvarintLen(uint64(sl)) + sl
				boundary[pos] = true
			}
			for k := 0; k < len(a.file); k++ {
				if !c.Thorough && len(a.file) > 400 && r.Intn(len(a.file)/300+1) != 0 {
					continue
				}
				inside := !boundary[k] && k < a.base+len(a.payload)
				emitX(a.file[:k], "truncated", VL{VT("trunc"), vbool(inside), blksVal(a.blks), VN(uint64(a.base)), VN(uint64(len(a.payload)))})
			}
			for t := 0; t < 60; t++ {
				g := append([]byte(nil), a.file...)
				g[r.Intn(len(g))] ^= pick(r, []byte{0x01, 0x80, 0xff, 0x7f})
				emitM(g, "byte-flip")
			}
			// section length varints rewritten
			pos = a.base + a.hdrLen
			for _, b := range a.blks {
				sl := uint64(b.Cid.ByteLen() + len(b.Data))
				vl := uvarintLen(sl)
				for _, nl := range []uint64{0, sl - 1, sl + 1, uint64(b.Cid.ByteLen()), uint64(b.Cid.ByteLen()) - 1, 1 << 31, 1<<63 - 1} {
					g := append([]byte(nil), a.file[:pos]...)
					g = append(g, varint.ToUvarint(nl)...)
					g = append(g, a.file[pos+vl:]...)
					emitM(g, "section-length")
				}
				pos += vl + int(sl)
			}
			if a.isV2 {
				plen := uint64(len(a.payload))
				flen := uint64(len(a.file))
				for _, ds := range []uint64{1, uint64(a.hdrLen), uint64(a.hdrLen) + 1, plen - 1, plen + 1, plen + uint64(a.trailer), plen + uint64(a.trailer) + 5, 1 << 40} {
					g := append([]byte(nil), a.file...)
					putLE(g[35:43], ds)
					emitM(g, "v2-datasize")
				}
				for _, do := range []uint64{51, uint64(a.base) - 1, uint64(a.base) + 1, flen, flen + 10, 50} {
					g := append([]byte(nil), a.file...)
					putLE(g[27:35], do)
					emitM(g, "v2-dataoffset")
				}
			}
		}
	})
}

func putLE(b []byte, v uint64) {
	for i := 0; i < 8; i++ {
		b[i] = byte(v >> (8 * i))
	}
}
