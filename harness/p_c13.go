package main

import (
	"fmt"

	"github.com/multiformats/go-varint"
)

// c13: Reader.Inspect against the BlockReader scan on valid archives and structure-aware
// corruptions of them, x ZeroLengthSectionAsEOF x size limits.

func genC13Opts(r *RNG, a c14Archive) iOpts {
	o := iOpts{false, defaultROpts.maxH, defaultROpts.maxS}
	if r.Chance(35) {
		o.zeof = true
	}
	if len(a.blks) > 0 {
		m := 0
		for _, b := range a.blks {
			if n := b.Cid.ByteLen() + len(b.Data); n > m {
				m = n
			}
		}
		switch r.Intn(6) {
		case 0:
			o.maxS = uint64(m) // exact
		case 1:
			if m > 0 {
				o.maxS = uint64(m) - 1 // the largest section is refused
			}
		}
	}
	hb := a.hdrLen - 1
	for uvarintLen(uint64(hb))+hb != a.hdrLen {
		hb--
	}
	switch r.Intn(8) {
	case 0:
		if hb >= 10 {
			o.maxH = uint64(hb)
		}
	case 1:
		if hb-1 >= 10 {
			o.maxH = uint64(hb) - 1
		}
	}
	return o
}

// genC13Archive: like the C14 archives, but a CARv2 gets a meaningful index area.
func genC13Archive(c *Ctx, r *RNG, small bool) c14Archive {
	a := genC14Archive(c, r, small)
	if !a.isV2 {
		return a
	}
	pad := a.file[51:a.base]
	end := uint64(a.base + len(a.payload))
	var trailer []byte
	ioff := uint64(0)
	switch r.Intn(7) {
	case 0: // no index
	case 1, 2: // a readable codec, then anything
		ipad := pick(r, []int{0, 0, 1, 512})
		trailer = append(make([]byte, ipad), varint.ToUvarint(pick(r, []uint64{0x0400, 0x0401, 0x0401, 0x55, 0}))...)
		trailer = append(trailer, r.Bytes(r.Intn(30))...)
		ioff = end + uint64(ipad)
		c.Count("index:readable")
	case 3: // claimed, but the file ends at the payload
		ioff = end
		c.Count("index:at-eof")
	case 4: // claimed beyond the end of the file
		trailer = r.Bytes(r.Intn(8))
		ioff = end + uint64(len(trailer)) + uint64(r.Intn(50))
		c.Count("index:beyond-eof")
	case 5: // not a minimal / complete varint
		trailer = pick(r, [][]byte{{0x80}, {0x81, 0x00}, {0xff, 0xff, 0xff, 0xff, 0xff, 0xff, 0xff, 0xff, 0xff, 0x01}, {0x80, 0x80}})
		ioff = end
		c.Count("index:bad-varint")
	case 6: // index offset pointing back into the payload
		ioff = uint64(a.base + r.Intn(len(a.payload)))
		c.Count("index:inside-payload")
	}
	hi, lo := uint64(0), uint64(0)
	if r.Chance(30) {
		hi, lo = r.U64(), r.U64()
	}
	a.file = v2ContainerX(a.payload, pad, hi, lo, ioff, trailer)
	a.trailer = len(trailer)
	return a
}

// c13NonCanonical re-encodes the archive's CARv1 header in legal but non-canonical CBOR (version
// as a 1- or 2-byte uint, the two map keys swapped, the roots array with a 1-byte length) and
// returns the archive with each of them (CARv2: same padding, DataSize adjusted, no index).
// Whether go-ipld-cbor accepts a variant is recorded in the header oracle table.
func c13NonCanonical(a c14Archive) [][]byte {
	hdrVarint := uvarintLen(uint64(a.hdrLen - 1))
	for uvarintLen(uint64(a.hdrLen-hdrVarint))+a.hdrLen-hdrVarint != a.hdrLen {
		hdrVarint++
	}
	hb := a.payload[hdrVarint:a.hdrLen] // a2 65 roots <array> 67 version 01
	rootsArr := hb[7 : len(hb)-9]
	sections := a.payload[a.hdrLen:]
	key := func(s string) []byte { return append([]byte{0x60 + byte(len(s))}, s...) }
	var variants [][]byte
	mk := func(parts ...[]byte) {
		body := []byte{0xa2}
		for _, p := range parts {
			body = append(body, p...)
		}
		variants = append(variants, body)
	}
	mk(key("roots"), rootsArr, key("version"), []byte{0x18, 0x01})
	mk(key("roots"), rootsArr, key("version"), []byte{0x19, 0x00, 0x01})
	mk(key("version"), []byte{0x01}, key("roots"), rootsArr)
	if rootsArr[0] >= 0x80 && rootsArr[0] < 0x98 {
		long := append([]byte{0x98, rootsArr[0] - 0x80}, rootsArr[1:]...)
		mk(key("roots"), long, key("version"), []byte{0x01})
	}
	var out [][]byte
	for _, body := range variants {
		p := append(varint.ToUvarint(uint64(len(body))), body...)
		p = append(p, sections...)
		if a.isV2 {
			out = append(out, v2ContainerX(p, a.file[51:a.base], 0, 0, 0, nil))
		} else {
			out = append(out, p)
		}
	}
	return out
}

func init() {
	register("c13", func(c *Ctx) {
		nArch := 40 * c.Scale
		for ai := 0; ai < nArch; ai++ {
			r := c.R.Fork()
			small := ai%4 != 3
			a := genC13Archive(c, r, small)
			nb := len(a.blks)
			emit := func(f []byte, how string) {
				o := genC13Opts(r, a)
				validate := r.Chance(85)
				// history on the same Reader before the Inspect under test
				var hist []uint64
				if r.Chance(55) {
					for n := 1 + r.Intn(3); n > 0; n-- {
						hist = append(hist, pick(r, []uint64{1, 1, 1, 2, 3, 4, 5}))
					}
				}
				for _, h := range hist {
					c.Count(fmt.Sprintf("history:op%d", h))
				}
				if len(hist) == 0 {
					c.Count("history:none")
				}
				// section-reader reuse: the Reader under test is opened on a DataReader / IndexReader
				// value of an earlier Reader that has been consumed as a stream (nesting depth 1-3)
				var reuse []uint64
				if r.Chance(30) {
					for n := 1 + r.Intn(3); n > 0; n-- {
						view := uint64(10)
						if r.Chance(12) {
							view = 20
						}
						reuse = append(reuse, view+uint64(r.Intn(5)))
					}
					c.Count(fmt.Sprintf("reuse:depth%d", len(reuse)))
				}
				emitInspectR(c, o, f, validate, how, hist, reuse, validate && nb >= 2)
				c.Count("input:" + how)
				if o.zeof {
					c.Count("opt:zeof")
				}
				if o.maxS != defaultROpts.maxS {
					c.Count("opt:maxS-tight")
				}
				if o.maxH != defaultROpts.maxH {
					c.Count("opt:maxH-tight")
				}
			}
			// the valid archive under several option sets
			for t := 0; t < 4; t++ {
				emit(a.file, "valid")
			}
			// the same archive with a legal but non-canonical CBOR header
			for _, f := range c13NonCanonical(a) {
				emit(f, "noncanonical-header")
				emit(f, "noncanonical-header")
			}
			if !small {
				continue
			}
			// ---- structure-aware corruptions
			secStart := []int{}
			pos := a.base + a.hdrLen
			for _, b := range a.blks {
				secStart = append(secStart, pos)
				sl := b.Cid.ByteLen() + len(b.Data)
				pos += uvarintLen(uint64(sl)) + sl
			}
			// every truncation of the container
			for k := 0; k < len(a.file); k++ {
				if !c.Thorough && len(a.file) > 300 && r.Intn(len(a.file)/200+1) != 0 {
					continue
				}
				emit(a.file[:k], "truncated")
			}
			// CARv2: the payload window cut short / extended by DataSize, moved by DataOffset
			if a.isV2 {
				plen := uint64(len(a.payload))
				flen := uint64(len(a.file))
				for _, ds := range []uint64{1, uint64(a.hdrLen), uint64(a.hdrLen) + 1, plen - 1, plen + 1, plen + uint64(a.trailer), plen + uint64(a.trailer) + 5, 1 << 40, 1<<63 - 1} {
					g := append([]byte(nil), a.file...)
					putLE(g[35:43], ds)
					emit(g, "v2-datasize")
				}
				for i := range a.blks { // window ending right after / inside each section
					for _, d := range []int{0, 1, 2} {
						g := append([]byte(nil), a.file...)
						putLE(g[35:43], uint64(secStart[i]-a.base+d))
						emit(g, "v2-datasize-at-section")
					}
				}
				for _, do := range []uint64{51, uint64(a.base) - 1, uint64(a.base) + 1, flen, flen + 10, 50, 0, 1 << 63} {
					g := append([]byte(nil), a.file...)
					putLE(g[27:35], do)
					emit(g, "v2-dataoffset")
				}
				for _, io := range []uint64{1, 50, flen - 1, flen, flen + 1, 1 << 63, 1<<64 - 1} {
					g := append([]byte(nil), a.file...)
					putLE(g[43:51], io)
					emit(g, "v2-indexoffset")
				}
			}
			// header version byte (last byte of the CARv1 header): 0, 2, 3
			for _, v := range []byte{0, 2, 3} {
				g := append([]byte(nil), a.file...)
				g[a.base+a.hdrLen-1] = v
				emit(g, "payload-version")
			}
			if a.isV2 {
				for _, v := range []byte{0, 1, 3} {
					g := append([]byte(nil), a.file...)
					g[10] = v
					emit(g, "pragma-version")
				}
				// a version-2 first header that is not the 11-byte pragma: {roots:[],version:2}
				// (18 bytes with its varint); the 40 bytes at offset 11 are made a valid CARv2
				// header pointing at the payload, which is placed further down.
				long := append([]byte{0x11, 0xa2, 0x65, 'r', 'o', 'o', 't', 's', 0x80, 0x67, 'v', 'e', 'r', 's', 'i', 'o', 'n', 0x02}, make([]byte, 33)...)
				doff := uint64(100 + r.Intn(30))
				putLE(long[27:35], doff)
				putLE(long[35:43], uint64(len(a.payload)))
				long = append(long, make([]byte, int(doff)-len(long))...)
				long = append(long, a.payload...)
				emit(long, "long-pragma")
			}
			// section length varints rewritten (the last one growing = data promised but absent)
			for i, b := range a.blks {
				sl := uint64(b.Cid.ByteLen() + len(b.Data))
				vl := uvarintLen(sl)
				for _, nl := range []uint64{0, sl - 1, sl + 1, sl + 5, uint64(b.Cid.ByteLen()), uint64(b.Cid.ByteLen()) - 1, 1 << 31, 1<<63 - 1} {
					g := append([]byte(nil), a.file[:secStart[i]]...)
					g = append(g, varint.ToUvarint(nl)...)
					g = append(g, a.file[secStart[i]+vl:]...)
					if a.isV2 && r.Bool() { // keep the window consistent with the new length
						putLE(g[35:43], uint64(len(a.payload)+uvarintLen(nl)-vl))
					}
					emit(g, "section-length")
				}
			}
			// zero-length sections: at the end, and before each section
			for i := 0; i <= nb; i++ {
				at := a.base + len(a.payload)
				if i < nb {
					at = secStart[i]
				}
				g := append([]byte(nil), a.file[:at]...)
				g = append(g, make([]byte, 1+r.Intn(3))...)
				g = append(g, a.file[at:]...)
				if a.isV2 {
					putLE(g[35:43], uint64(len(a.payload)+len(g)-len(a.file)))
				}
				emit(g, "zero-length-section")
			}
			// one flipped byte inside a block's data / inside the digest of its CID (non-identity
			// blocks hash differently; identity blocks no longer equal their digest)
			for i, b := range a.blks {
				cl := b.Cid.ByteLen()
				sl := cl + len(b.Data)
				cidStart := secStart[i] + uvarintLen(uint64(sl))
				dl := digestLen(b.Cid.Hash())
				for t := 0; t < 3; t++ {
					if len(b.Data) > 0 {
						g := append([]byte(nil), a.file...)
						g[cidStart+cl+r.Intn(len(b.Data))] ^= pick(r, []byte{0x01, 0x80, 0xff})
						emit(g, "data-flip")
					}
					if dl > 0 {
						g := append([]byte(nil), a.file...)
						g[cidStart+cl-dl+r.Intn(dl)] ^= pick(r, []byte{0x01, 0x80, 0xff})
						emit(g, "digest-flip")
					}
				}
			}
			// byte flips anywhere
			for t := 0; t < 80; t++ {
				g := append([]byte(nil), a.file...)
				g[r.Intn(len(g))] ^= pick(r, []byte{0x01, 0x80, 0xff, 0x7f})
				emit(g, "byte-flip")
			}
			// duplicated / dropped sections (valid again: other statistics)
			if nb >= 1 {
				i := r.Intn(nb)
				end := a.base + len(a.payload)
				if i+1 < nb {
					end = secStart[i+1]
				}
				sec := a.file[secStart[i]:end]
				g := append([]byte(nil), a.file[:end]...)
				g = append(g, sec...)
				g = append(g, a.file[end:]...)
				if a.isV2 {
					putLE(g[35:43], uint64(len(a.payload)+len(sec)))
				}
				emit(g, "section-duplicated")
			}
		}
		_ = fmt.Sprint
	})
}
