package main

import (
	"bytes"
	"io"

	"github.com/ipfs/go-cid"
	carv2 "github.com/ipld/go-car/v2"
)

// C16 -- a failed write does not poison the store or the archive.
// kind "fault": a store session (kinds 0..3 of k_store.go) with a fault script; observation per
// step = (result, file changed, #index records).  The input also carries what the real
// Reader.Inspect(true) and BlockReader make of the implementation's final file.

// realVerdict: (inspect_ok scan_ok (cid data)...) for the final bytes of a session
func realVerdict(file []byte) Val {
	if len(file) == 0 {
		return VT("none")
	}
	inspOK := false
	if rd, err := carv2.NewReader(bytes.NewReader(file)); err == nil {
		if _, err := rd.Inspect(true); err == nil {
			inspOK = true
		}
	}
	scanOK := false
	blks := VL{}
	if br, err := carv2.NewBlockReader(bytes.NewReader(file)); err == nil {
		for {
			b, err := br.Next()
			if err == io.EOF {
				scanOK = true
				break
			}
			if err != nil {
				break
			}
			blks = append(blks, VL{VB(b.Cid().Bytes()), VB(b.RawData())})
		}
	}
	return VL{vbool(inspOK), vbool(scanOK), blks}
}

type faultRun struct {
	obs      Val
	callLens []int
	hits     int
	file     []byte
}

func runFaultImpl(work string, kind uint64, o wOpts, roots []cid.Cid, faults []int, ops VL) faultRun {
	x := &storeExtra{afterStep: func(s *storeSession) []Val { return []Val{VN(s.indexCount())} }}
	obs := runStoreImplX(work, kind, o, roots, faults, ops, x)
	var file []byte
	if l, ok := obs.(VL); ok && len(l) == 3 {
		file = []byte(l[2].(VB))
	}
	return faultRun{obs, x.callLens, x.hits, file}
}

// harness kind 4 (storage on a WriterAt without Truncate, CARv1) is the model's kind 3: positioned
// appends are sequential writes, and a partial section cannot be taken back either; the input says
// kind 3 and carries a marker so that a replay uses the same writer again.
func faultInput(kind uint64, o wOpts, roots []cid.Cid, faults []int, ops VL, real Val) Val {
	if kind == 4 {
		in := storeInput(3, o, roots, faults, ops).(VL)
		return append(in, real, VT("notrunc"))
	}
	in := storeInput(kind, o, roots, faults, ops).(VL)
	return append(in, real)
}

func putOp(b Blk) Val { return VL{VT("put"), VB(b.Cid.Bytes()), VB(b.Data)} }
func hasOp(b Blk) Val { return VL{VT("has"), VB(b.Cid.Bytes())} }
func getOp(b Blk) Val { return VL{VT("get"), VB(b.Cid.Bytes())} }

// plainBlocks: distinct sha2-256 raw blocks with the given data lengths
func plainBlocks(r *RNG, lens []int) []Blk {
	var out []Blk
	for _, n := range lens {
		d := r.Bytes(n)
		out = append(out, Blk{mkCid(1, 0x55, 0x12, -1, d), d})
	}
	return out
}

// c16Rows: option rows of the exhaustive part (storage on a stream is CARv1 only)
func c16Rows(kind uint64) []wOpts {
	v1 := defaultWOpts
	v1.v1 = true
	v1d := v1
	v1d.dups = true
	if kind >= 3 {
		return []wOpts{v1, v1d}
	}
	v2 := defaultWOpts
	v2p := defaultWOpts
	v2p.dpad, v2p.ipad = 7, 1
	v2i := defaultWOpts
	v2i.ipad, v2i.codec, v2i.storeID = 40, 0x0400, true
	return []wOpts{v2, v1, v2p, v2i, v1d}
}

// the session template of the exhaustive part: a long block, shorter ones after it (so that a
// failed long section leaves bytes beyond everything written later), every put probed with
// Has/Get and retried once, a batch on the blockstore, then Finalize.
func c16Template(r *RNG, kind uint64, o wOpts, lens []int) ([]cid.Cid, VL) {
	b := plainBlocks(r, lens)
	id := Blk{mkCid(1, 0x55, 0x00, -1, []byte{1, 2, 3}), []byte{1, 2, 3}}
	roots := []cid.Cid{b[0].Cid}
	ops := VL{putOp(b[0]), hasOp(b[0]), getOp(b[0]), putOp(b[0]),
		putOp(b[1]), hasOp(b[1]), putOp(b[2]), getOp(b[2]), putOp(b[1])}
	if kind == 0 {
		ops = append(ops, VL{VT("putmany"), VL{VB(b[3].Cid.Bytes()), VB(b[3].Data)}, VL{VB(b[0].Cid.Bytes()), VB(b[0].Data)},
			VL{VB(id.Cid.Bytes()), VB(id.Data)}, VL{VB(b[4].Cid.Bytes()), VB(b[4].Data)}},
			hasOp(b[3]), hasOp(b[4]), getOp(b[4]))
	} else {
		ops = append(ops, putOp(b[3]), putOp(id), hasOp(b[3]), getOp(b[3]))
	}
	ops = append(ops, VL{VT("finalize")}, hasOp(b[1]), VL{VT("finalize")})
	return roots, ops
}

func scriptAt(n, i, k int) []int {
	f := make([]int, n)
	for j := range f {
		f[j] = -1
	}
	if i < n {
		f[i] = k
	}
	return f
}

func init() {
	replay := func(c *Ctx, in Val) Val {
		l := in.(VL)
		kind := uint64(l[0].(VN))
		if len(l) > 7 {
			if t, ok := l[7].(VT); ok && t == "notrunc" {
				kind = 4
			}
		}
		return runFaultImpl(c.Work, kind, wOptsFromVal(l[1]), cidsFromVal(l[2]), faultsFromVal(l[3]), l[4].(VL)).obs
	}
	registerReplay("fault", replay)

	register("c16", func(c *Ctx) {
		emit := func(kind uint64, o wOpts, roots []cid.Cid, faults []int, ops VL, tag string) {
			fr := runFaultImpl(c.Work, kind, o, roots, faults, ops)
			in := faultInput(kind, o, roots, faults, ops, realVerdict(fr.file))
			// non-trivial: an injected fault actually hit a write call of the session
			c.Emit("fault", in, fr.obs, fr.hits > 0)
			c.Count(tag)
			if fr.hits > 0 {
				c.Count("fault-hit")
			} else {
				c.Count("no-fault-hit")
			}
		}

		// ---- exhaustive: every write call x {error with 0 bytes, short writes} ----------------
		for kind := uint64(0); kind < 5; kind++ {
			rows := c16Rows(kind)
			lensList := [][]int{{44, 3, 0, 9, 5}}
			if c.Thorough {
				// a two-byte length varint, empty blocks, equal lengths
				lensList = append(lensList, []int{130, 1, 2, 100, 0}, []int{0, 0, 1, 1, 1})
			}
			for ri, o := range rows {
				for li, lens := range lensList {
					if li > 0 && ri > 1 {
						continue // the extra block-length vectors on the two default rows only
					}
					r := c.R.Fork()
					roots, ops := c16Template(r, kind, o, lens)
					first := 0
					probe := []int{}
					if kind == 0 {
						first = blockstoreOpenCalls(o)
						probe = scriptAt(first+1, first+1, -1) // non-empty script: installs the wrapper
					}
					base := runFaultImpl(c.Work, kind, o, roots, probe, ops)
					emit(kind, o, roots, nil, ops, "exhaustive:fault-free")
					n := first + len(base.callLens)
					for i := first; i < n; i++ {
						ln := base.callLens[i-first]
						var ks []int
						// every short length (and the error with nothing written); beyond 64 bytes a spread
						for k := 0; k < ln; k++ {
							if k < 48 || k >= ln-8 || k%7 == 0 {
								ks = append(ks, k)
							}
						}
						if ln == 0 {
							ks = []int{0}
						}
						for _, k := range ks {
							emit(kind, o, roots, scriptAt(n, i, k), ops, "exhaustive:one-fault")
							if k == 0 {
								c.Count("fault:error-no-bytes")
							} else {
								c.Count("fault:short-write")
							}
						}
						// two faults: this call and a later one (the retry / the next section)
						if i+2 < n {
							f := scriptAt(n, i, ln/2)
							j := i + 1 + r.Intn(min(6, n-i-1))
							f[j] = r.Intn(base.callLens[min(j, n-1)-first] + 1)
							emit(kind, o, roots, f, ops, "exhaustive:two-faults")
						}
					}
				}
			}
		}

		// ---- random histories with random multi-fault scripts, all option combinations ---------
		n := 400 * c.Scale
		for i := 0; i < n; i++ {
			r := c.R.Fork()
			kind := uint64(pick(r, []int{0, 0, 0, 1, 1, 2, 3, 4}))
			o := genWOpts(r)
			if kind >= 3 {
				o.v1 = true
			}
			alpha := storeAlphabet(r, 3+r.Intn(4))
			roots := genRoots(r, alpha, true)
			if len(roots) == 0 && r.Bool() {
				roots = []cid.Cid{}
			}
			ops := genStoreOps(r, kind, o, roots, alpha, 6+r.Intn(18), false)
			if r.Chance(80) {
				ops = append(ops, VL{VT("finalize")})
			}
			first := 0
			if kind == 0 {
				first = blockstoreOpenCalls(o)
			}
			nf := first + 6 + r.Intn(60)
			faults := make([]int, nf)
			for j := range faults {
				faults[j] = -1
				if j >= first && r.Chance(10) {
					faults[j] = r.Intn(45)
				}
			}
			emit(kind, o, roots, faults, ops, "random")
		}
	})
}
