package main

import (
	"bytes"
	"io"

	"github.com/ipfs/go-cid"
	carv2 "github.com/ipld/go-car/v2"
)

// C16 -- a failed write does not poison the store or the archive.
// kind "fault": a store session (kinds 0..4 of k_store.go) with a fault script -- one entry per
// underlying WriteAt/Write call and per Truncate call of a rewind; observation per step =
// (result, file changed, #index records).  The input also carries what the real
// Reader.Inspect(true) and BlockReader make of the implementation's final file.

// c16RealVerdict: (inspect_ok scan_ok (cid data)...) for the final bytes of a session
func c16RealVerdict(file []byte) Val {
	if len(file) == 0 {
		return VT("none")
	}
	inspOK := false
	if rd, err := carv2.NewReader(bytes.NewReader(file)); err == nil {
		if _, err := rd.Inspect(true); err == nil {
			inspOK = true
		}
	}
	scanOK := false
	blks := VL{}
	if br, err := carv2.NewBlockReader(bytes.NewReader(file)); err == nil {
		for {
			b, err := br.Next()
			if err == io.EOF {
				scanOK = true
				break
			}
			if err != nil {
				break
			}
			blks = append(blks, VL{VB(b.Cid().Bytes()), VB(b.RawData())})
		}
	}
	return VL{vbool(inspOK), vbool(scanOK), blks}
}

type c16Run struct {
	obs        Val
	callOffs   []int64
	finalizeAt []int
	callLens   []int // buffer length of every intercepted call (0 = a Truncate call)
	hits       int
	file       []byte
}

// fsizeLimit > 0 (blockstore only, empty script): the first finalize operation runs the library's
// own method under RLIMIT_FSIZE = fsizeLimit, so the *os.File itself cuts the write crossing that
// offset short and fails it.
func c16RunImpl(work string, kind uint64, o wOpts, roots []cid.Cid, faults []int, ops VL, fsizeLimit int64) c16Run {
	x := &storeExtra{
		fsizeLimit: fsizeLimit,
		afterStep:  func(s *storeSession) []Val { return []Val{VN(s.indexCount())} },
	}
	obs := runStoreImplX(work, kind, o, roots, faults, ops, x)
	var file []byte
	if l, ok := obs.(VL); ok && len(l) == 3 {
		file = []byte(l[2].(VB))
	}
	return c16Run{obs, x.callOffs, x.finalizeAt, x.callLens, x.hits, file}
}

// Harness kind 4 (storage on a WriterAt WITHOUT a Truncate method, CARv1 and CARv2) is model kind 4.
func c16Input(kind uint64, o wOpts, roots []cid.Cid, faults []int, ops VL, real Val) Val {
	in := storeInput(kind, o, roots, faults, ops).(VL)
	return append(in, real)
}

// replay: a blockstore input carrying (tfsize limit) as 8th field re-runs the RLIMIT_FSIZE variant
// (its script describes what the limit does; the harness gets no script then)
func c16Replay(work string, kind uint64, l VL) Val {
	o, roots, faults, ops := wOptsFromVal(l[1]), cidsFromVal(l[2]), faultsFromVal(l[3]), l[4].(VL)
	if len(l) > 7 {
		if m, ok := l[7].(VL); ok && len(m) == 2 && m[0] == VT("fsize") {
			return c16RunImpl(work, kind, o, roots, nil, ops, int64(m[1].(VN))).obs
		}
	}
	return c16RunImpl(work, kind, o, roots, faults, ops, 0).obs
}

func c16Put(b Blk) Val { return VL{VT("put"), VB(b.Cid.Bytes()), VB(b.Data)} }
func c16Has(b Blk) Val { return VL{VT("has"), VB(b.Cid.Bytes())} }
func c16Get(b Blk) Val { return VL{VT("get"), VB(b.Cid.Bytes())} }

// c16Blocks: distinct sha2-256 raw blocks with the given data lengths
func c16Blocks(r *RNG, lens []int) []Blk {
	var out []Blk
	for _, n := range lens {
		d := r.Bytes(n)
		out = append(out, Blk{mkCid(1, 0x55, 0x12, -1, d), d})
	}
	return out
}

// c16Rows: option rows of the exhaustive part (storage on a stream is CARv1 only)
func c16Rows(kind uint64) []wOpts {
	v1 := defaultWOpts
	v1.v1 = true
	v1d := v1
	v1d.dups = true
	if kind == 3 {
		return []wOpts{v1, v1d}
	}
	v2 := defaultWOpts
	v2p := defaultWOpts
	v2p.dpad, v2p.ipad = 7, 1
	v2i := defaultWOpts
	v2i.ipad, v2i.codec, v2i.storeID = 40, 0x0400, true
	if kind == 4 {
		return []wOpts{v2, v1, v2p}
	}
	return []wOpts{v2, v1, v2p, v2i, v1d}
}

// the session template of the exhaustive part: a long block, shorter ones after it (so that a
// failed long section leaves bytes beyond everything written later), every put probed with
// Has/Get and retried once, a batch on the blockstore, then Finalize.
func c16Template(r *RNG, kind uint64, o wOpts, lens []int) ([]cid.Cid, VL) {
	b := c16Blocks(r, lens)
	id := Blk{mkCid(1, 0x55, 0x00, -1, []byte{1, 2, 3}), []byte{1, 2, 3}}
	roots := []cid.Cid{b[0].Cid}
	ops := VL{c16Put(b[0]), c16Has(b[0]), c16Get(b[0]), c16Put(b[0]),
		c16Put(b[1]), c16Has(b[1]), c16Put(b[2]), c16Get(b[2]), c16Put(b[1])}
	if kind == 0 {
		ops = append(ops, VL{VT("putmany"), VL{VB(b[3].Cid.Bytes()), VB(b[3].Data)}, VL{VB(b[0].Cid.Bytes()), VB(b[0].Data)},
			VL{VB(id.Cid.Bytes()), VB(id.Data)}, VL{VB(b[4].Cid.Bytes()), VB(b[4].Data)}},
			c16Has(b[3]), c16Has(b[4]), c16Get(b[4]))
	} else {
		ops = append(ops, c16Put(b[3]), c16Put(id), c16Has(b[3]), c16Get(b[3]))
	}
	ops = append(ops, VL{VT("finalize")}, c16Has(b[1]), VL{VT("finalize")})
	return roots, ops
}

func c16Script(n, i, k int) []int {
	f := make([]int, n)
	for j := range f {
		f[j] = -1
	}
	if i < n {
		f[i] = k
	}
	return f
}

func init() {
	replay := func(c *Ctx, in Val) Val {
		l := in.(VL)
		return c16Replay(c.Work, uint64(l[0].(VN)), l)
	}
	registerReplay("fault", replay)

	register("c16", func(c *Ctx) {
		emit := func(kind uint64, o wOpts, roots []cid.Cid, faults []int, ops VL, tag string) {
			fr := c16RunImpl(c.Work, kind, o, roots, faults, ops, 0)
			in := c16Input(kind, o, roots, faults, ops, c16RealVerdict(fr.file))
			// non-trivial: an injected fault actually hit a write (or truncate) call of the session
			c.Emit("fault", in, fr.obs, fr.hits > 0)
			c.Count(tag)
			if fr.hits > 0 {
				c.Count("fault-hit")
			} else {
				c.Count("no-fault-hit")
			}
		}

		// ---- exhaustive: every write call x {error with 0 bytes, short writes}, then the Truncate ----
		for kind := uint64(0); kind < 5; kind++ {
			rows := c16Rows(kind)
			lensList := [][]int{{44, 3, 0, 9, 5}}
			if c.Thorough {
				// a two-byte length varint, empty blocks, equal lengths
				lensList = append(lensList, []int{130, 1, 2, 100, 0}, []int{0, 0, 1, 1, 1})
			}
			for ri, o := range rows {
				for li, lens := range lensList {
					if li > 0 && ri > 1 {
						continue // the extra block-length vectors on the two default rows only
					}
					r := c.R.Fork()
					roots, ops := c16Template(r, kind, o, lens)
					first := 0
					probe := []int{}
					if kind == 0 {
						// the open phase (pragma, header) is out of the hooks' reach
						first = blockstoreOpenCalls(o)
						// a fault far beyond the session's calls: installs the wrapper and keeps the hooks'
						// Finalize in use, so that the base run sees the index and header writes too
						probe = c16Script(first+2001, first+2000, 0)
					}
					base := c16RunImpl(c.Work, kind, o, roots, probe, ops, 0)
					emit(kind, o, roots, nil, ops, "exhaustive:fault-free")
					if kind == 0 {
						// the same through the hooks (Finalize via the wrapped writer): the copy of
						// finalizeReadOnlyWithoutMutex in the hook file is checked against the same model
						emit(kind, o, roots, probe, ops, "exhaustive:fault-free-via-hooks")
					}
					n := first + len(base.callLens)
					if kind == 0 && !o.v1 && len(base.finalizeAt) > 0 {
						// the index writes of the library's OWN Finalize (no hook copy involved) cut short by
						// RLIMIT_FSIZE: call t of the base run fails after k bytes = file size limit offs[t]+k
						// (the two header writes lie inside the file and cannot be failed this way)
						f0 := base.finalizeAt[0]
						for t := f0; t < len(base.callLens)-2; t++ {
							ln := base.callLens[t]
							for _, k := range []int{0, 1, ln / 2, ln - 1} {
								if k < 0 || k >= ln || (k > 1 && k == ln/2 && ln/2 == ln-1) {
									continue
								}
								limit := base.callOffs[t] + int64(k)
								script := c16Script(n, first+t, k)
								fr := c16RunImpl(c.Work, kind, o, roots, nil, ops, limit)
								in := append(c16Input(kind, o, roots, script, ops, c16RealVerdict(fr.file)).(VL),
									VL{VT("fsize"), VN(uint64(limit))})
								c.Emit("fault", in, fr.obs, true)
								c.Count("exhaustive:finalize-fault-own-method")
								c.Count("fault-hit")
							}
						}
					}
					for i := first; i < n; i++ {
						ln := base.callLens[i-first]
						// every short length (and the error with nothing written); beyond 48 bytes a spread;
						// the quick tier thins out the middle of long buffers
						var ks []int
						for k := 0; k < ln; k++ {
							dense := k < 6 || k >= ln-3 || (c.Thorough && (k < 48 || k >= ln-8))
							if dense || k%7 == 0 {
								ks = append(ks, k)
							}
						}
						if ln == 0 {
							ks = []int{0}
						}
						for _, k := range ks {
							emit(kind, o, roots, c16Script(n, i, k), ops, "exhaustive:one-fault")
							if k == 0 {
								c.Count("fault:error-no-bytes")
							} else {
								c.Count("fault:short-write")
							}
						}
						// the write fails after some bytes AND the Truncate of the rewind fails (the next call)
						if kind != 3 && kind != 4 {
							for _, k := range []int{0, 1, ln / 2} {
								if k < ln || k == 0 {
									f := c16Script(n+1, i, k)
									f[i+1] = 0
									emit(kind, o, roots, f, ops, "exhaustive:write-and-truncate-fail")
								}
							}
						}
						// two faults: this call and a later one (the retry / the next section)
						if i+2 < n {
							f := c16Script(n, i, ln/2)
							j := i + 1 + r.Intn(min(6, n-i-1))
							f[j] = r.Intn(base.callLens[min(j, n-1)-first] + 1)
							emit(kind, o, roots, f, ops, "exhaustive:two-faults")
						}
					}
				}
			}
		}

		// ---- random histories with random multi-fault scripts, all option combinations ---------
		n := 300 * c.Scale
		for i := 0; i < n; i++ {
			r := c.R.Fork()
			kind := uint64(pick(r, []int{0, 0, 0, 1, 1, 2, 3, 4}))
			o := genWOpts(r)
			if kind == 3 {
				o.v1 = true
			}
			alpha := storeAlphabet(r, 3+r.Intn(4))
			roots := genRoots(r, alpha, true)
			if len(roots) == 0 && r.Bool() {
				roots = []cid.Cid{}
			}
			ops := genStoreOps(r, kind, o, roots, alpha, 6+r.Intn(18), false)
			if r.Chance(80) {
				ops = append(ops, VL{VT("finalize")})
			}
			first := 0
			if kind == 0 {
				first = blockstoreOpenCalls(o)
			}
			var faults []int
			if !r.Chance(10) { // one in ten fault-free: the blockstore then finalizes through the plain methods
				nf := first + 6 + r.Intn(60)
				faults = make([]int, nf)
				for j := range faults {
					faults[j] = -1
					if j >= first && r.Chance(10) {
						faults[j] = r.Intn(45)
					}
				}
			}
			emit(kind, o, roots, faults, ops, "random")
		}
	})
}
