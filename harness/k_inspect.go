package main

import (
	"bytes"
	"io"
	"sort"

	blocks "github.com/ipfs/go-block-format"
	carv2 "github.com/ipld/go-car/v2"
	"github.com/ipld/go-car/v2/index"
	"github.com/multiformats/go-multicodec"
)

// kind "inspect": (opts file hok hdr validate how) -> (inspect-part scan-part index-part)
//   inspect-part: NewReader(file) then Reader.Inspect(validate): (tnewerr e) | (tinsperr e) | (tok stats...)
//   scan-part:    NewBlockReader(file) + Next until it fails (hash-verifying, same limits)
//   index-part:   index.ReadCodec(Reader.IndexReader()) when the reader is a CARv2 claiming an index

type iOpts struct {
	zeof bool
	maxH uint64
	maxS uint64
}

func (o iOpts) val() Val { return VL{vbool(o.zeof), VN(o.maxH), VN(o.maxS)} }
func (o iOpts) r() rOpts { return rOpts{o.zeof, o.maxH, o.maxS, false} }

func countsVal(m map[multicodec.Code]uint64) Val {
	keys := make([]uint64, 0, len(m))
	for k := range m {
		keys = append(keys, uint64(k))
	}
	sort.Slice(keys, func(i, j int) bool { return keys[i] < keys[j] })
	out := VL{}
	for _, k := range keys {
		out = append(out, VL{VN(k), VN(m[multicodec.Code(k)])})
	}
	return out
}

func statsVal(st carv2.Stats) VL {
	h := st.Header
	return VL{VT("ok"), VN(st.Version),
		VL{VN(h.Characteristics.Hi), VN(h.Characteristics.Lo), VN(h.DataOffset), VN(h.DataSize), VN(h.IndexOffset)},
		cidsVal(st.Roots), vbool(st.RootsPresent), VN(st.BlockCount),
		countsVal(st.CodecCounts), countsVal(st.MhTypeCounts),
		VN(st.AvgCidLength), VN(st.MaxCidLength), VN(st.MinCidLength),
		VN(st.AvgBlockLength), VN(st.MaxBlockLength), VN(st.MinBlockLength), VN(uint64(st.IndexCodec))}
}

// c13Probe reads up to 16 bytes from a reader handed out by the Reader.
func c13Probe(r io.Reader) []byte {
	buf := make([]byte, 16)
	n, _ := io.ReadFull(r, buf)
	return buf[:n]
}

func c13InspVal(st carv2.Stats, err error) Val {
	if err != nil {
		return VL{VT("insperr"), verr(err)}
	}
	return statsVal(st)
}

// c13History makes the calls of hist on the Reader (1 Roots, 2 DataReader, 3 IndexReader,
// 4 Inspect(false), 5 Inspect(true)) and reports what each returned.
func c13History(r *carv2.Reader, hist []uint64) Val {
	out := VL{}
	for _, op := range hist {
		switch op {
		case 1:
			if roots, err := r.Roots(); err != nil {
				out = append(out, VL{VT("rootserr"), verr(err)})
			} else {
				out = append(out, VL{VT("roots"), cidsVal(roots)})
			}
		case 2:
			dr, err := r.DataReader()
			if err != nil {
				out = append(out, VL{VT("dataerr"), verr(err)})
			} else {
				out = append(out, VL{VT("data"), VB(c13Probe(dr))})
			}
		case 3:
			ir, err := r.IndexReader()
			if err != nil {
				out = append(out, VL{VT("indexerr"), verr(err)})
			} else if ir == nil {
				out = append(out, VL{VT("noindex")})
			} else {
				out = append(out, VL{VT("index"), VB(c13Probe(ir))})
			}
		default:
			out = append(out, c13InspVal(r.Inspect(op == 5)))
		}
	}
	return out
}

func runInspectImpl(o iOpts, file []byte, validate bool, hist []uint64) Val {
	// the reference scan: the real BlockReader over the same bytes
	var scan Val
	if br, err := carv2.NewBlockReader(bytes.NewReader(file), o.r().v2()...); err != nil {
		scan = VL{VT("openerr"), verr(err)}
	} else {
		var bs []blocks.Block
		for {
			b, err := br.Next()
			if err != nil {
				scan = VL{VT("ok"), VN(br.Version), cidsVal(br.Roots), blocksObs(bs, err)}
				break
			}
			bs = append(bs, b)
		}
	}
	// validate = false: also the non-verifying scan Inspect(false) is compared with
	var tscan Val = VL{VT("none")}
	if !validate {
		to := o.r()
		to.trusted = true
		if br, err := carv2.NewBlockReader(bytes.NewReader(file), to.v2()...); err != nil {
			tscan = VL{VT("openerr"), verr(err)}
		} else {
			var bs []blocks.Block
			for {
				b, err := br.Next()
				if err != nil {
					tscan = VL{VT("ok"), VN(br.Version), cidsVal(br.Roots), blocksObs(bs, err)}
					break
				}
				bs = append(bs, b)
			}
		}
	}
	r, err := carv2.NewReader(bytes.NewReader(file), o.r().v2()...)
	if err != nil {
		return VL{VL{VT("newerr"), verr(err)}, scan, VL{VT("none")}, tscan, VL{}}
	}
	histObs := c13History(r, hist)
	insp := c13InspVal(r.Inspect(validate))
	var idx Val = VL{VT("none")}
	if r.Version != 1 && r.Header.HasIndex() {
		ir, err := r.IndexReader()
		if err != nil {
			idx = VL{VT("idxerr"), verr(err)}
		} else if code, err := index.ReadCodec(ir); err != nil {
			idx = VL{VT("idxerr"), verr(err)}
		} else {
			idx = VL{VT("idx"), VN(uint64(code))}
		}
	}
	return VL{insp, scan, idx, tscan, histObs}
}

// inspectTables: the oracle tables of scanTables (what the BlockReader can ask about) plus the
// payload as a Reader sees it (CARv2 header at the fixed offset 11, whatever the first header's
// length).
func inspectTables(file []byte) (Val, Val) {
	hok, hdrs := scanTables(file)
	if len(file) >= 51 {
		var h carv2.Header
		if _, err := h.ReadFrom(bytes.NewReader(file[11:51])); err == nil && h.DataOffset <= uint64(len(file)) {
			win := file[h.DataOffset:]
			if h.DataSize < uint64(len(win)) {
				win = win[:h.DataSize]
			}
			if e, rest, ok := hdrEntry(win); ok {
				hdrs = append(hdrs.(VL), e)
				extra := hokTable(rest).(VL)
				seen := map[string]bool{}
				for _, x := range hok.(VL) {
					seen[valString(x)] = true
				}
				for _, x := range extra {
					if !seen[valString(x)] {
						hok = append(hok.(VL), x)
					}
				}
			}
		}
	}
	return hok, hdrs
}

func emitInspect(c *Ctx, o iOpts, file []byte, validate bool, how string, hist []uint64, nontrivial bool) {
	hok, hdrs := inspectTables(file)
	hv := VL{}
	for _, h := range hist {
		hv = append(hv, VN(h))
	}
	in := VL{o.val(), VB(file), hok, hdrs, vbool(validate), VT(how), hv}
	c.Emit("inspect", in, runInspectImpl(o, file, validate, hist), nontrivial)
}

func init() {
	registerReplay("inspect", func(c *Ctx, in Val) Val {
		l := in.(VL)
		ol := l[0].(VL)
		o := iOpts{ol[0].(VN) != 0, uint64(ol[1].(VN)), uint64(ol[2].(VN))}
		var hist []uint64
		if len(l) > 6 {
			for _, h := range l[6].(VL) {
				hist = append(hist, uint64(h.(VN)))
			}
		}
		return runInspectImpl(o, []byte(l[1].(VB)), l[4].(VN) != 0, hist)
	})
}
