package main

import (
	"bytes"
	"io"
	"sort"

	blocks "github.com/ipfs/go-block-format"
	carv2 "github.com/ipld/go-car/v2"
	"github.com/ipld/go-car/v2/index"
	"github.com/multiformats/go-multicodec"
)

// kind "inspect": (opts file hok hdr validate how) -> (inspect-part scan-part index-part)
//   inspect-part: NewReader(file) then Reader.Inspect(validate): (tnewerr e) | (tinsperr e) | (tok stats...)
//   scan-part:    NewBlockReader(file) + Next until it fails (hash-verifying, same limits)
//   index-part:   index.ReadCodec(Reader.IndexReader()) when the reader is a CARv2 claiming an index

type iOpts struct {
	zeof bool
	maxH uint64
	maxS uint64
}

func (o iOpts) val() Val { return VL{vbool(o.zeof), VN(o.maxH), VN(o.maxS)} }
func (o iOpts) r() rOpts { return rOpts{o.zeof, o.maxH, o.maxS, false} }

func countsVal(m map[multicodec.Code]uint64) Val {
	keys := make([]uint64, 0, len(m))
	for k := range m {
		keys = append(keys, uint64(k))
	}
	sort.Slice(keys, func(i, j int) bool { return keys[i] < keys[j] })
	out := VL{}
	for _, k := range keys {
		out = append(out, VL{VN(k), VN(m[multicodec.Code(k)])})
	}
	return out
}

func statsVal(st carv2.Stats) VL {
	h := st.Header
	return VL{VT("ok"), VN(st.Version),
		VL{VN(h.Characteristics.Hi), VN(h.Characteristics.Lo), VN(h.DataOffset), VN(h.DataSize), VN(h.IndexOffset)},
		cidsVal(st.Roots), vbool(st.RootsPresent), VN(st.BlockCount),
		countsVal(st.CodecCounts), countsVal(st.MhTypeCounts),
		VN(st.AvgCidLength), VN(st.MaxCidLength), VN(st.MinCidLength),
		VN(st.AvgBlockLength), VN(st.MaxBlockLength), VN(st.MinBlockLength), VN(uint64(st.IndexCodec))}
}

// c13Probe reads up to 16 bytes from a reader handed out by the Reader.
func c13Probe(r io.Reader) []byte {
	buf := make([]byte, 16)
	n, _ := io.ReadFull(r, buf)
	return buf[:n]
}

func c13InspVal(st carv2.Stats, err error) Val {
	if err != nil {
		return VL{VT("insperr"), verr(err)}
	}
	return statsVal(st)
}

// c13History makes the calls of hist on the Reader (1 Roots, 2 DataReader, 3 IndexReader,
// 4 Inspect(false), 5 Inspect(true)) and reports what each returned.
func c13History(r *carv2.Reader, hist []uint64) Val {
	out := VL{}
	for _, op := range hist {
		switch op {
		case 1:
			if roots, err := r.Roots(); err != nil {
				out = append(out, VL{VT("rootserr"), verr(err)})
			} else {
				out = append(out, VL{VT("roots"), cidsVal(roots)})
			}
		case 2:
			dr, err := r.DataReader()
			if err != nil {
				out = append(out, VL{VT("dataerr"), verr(err)})
			} else {
				out = append(out, VL{VT("data"), VB(c13Probe(dr))})
			}
		case 3:
			ir, err := r.IndexReader()
			if err != nil {
				out = append(out, VL{VT("indexerr"), verr(err)})
			} else if ir == nil {
				out = append(out, VL{VT("noindex")})
			} else {
				out = append(out, VL{VT("index"), VB(c13Probe(ir))})
			}
		default:
			out = append(out, c13InspVal(r.Inspect(op == 5)))
		}
	}
	return out
}

// c13Consume uses a reader handed out by a Reader as a stream before it is reused as an io.ReaderAt.
func c13Consume(rs io.ReadSeeker, ra io.ReaderAt, mode uint64) {
	switch mode {
	case 1:
		io.ReadFull(rs, make([]byte, 7))
	case 2:
		io.Copy(io.Discard, rs)
	case 3:
		rs.Seek(5, io.SeekStart)
		io.ReadFull(rs, make([]byte, 3))
	case 4:
		ra.ReadAt(make([]byte, 9), 2)
		io.ReadFull(rs, make([]byte, 1))
	}
}

// c13Reuse builds the io.ReaderAt the Reader under test is opened on: starting from the file, each
// step opens a Reader on the current value, takes its DataReader (step 10+mode) or IndexReader
// (20+mode), consumes it as a stream according to mode, and hands that very value on.  It also
// returns the bytes a FRESH view of the same region holds (what every positioned read must see).
func c13Reuse(o iOpts, file []byte, reuse []uint64) (io.ReaderAt, []byte, Val) {
	var cur io.ReaderAt = bytes.NewReader(file)
	eff := file
	for _, st := range reuse {
		r0, err := carv2.NewReader(cur, o.r().v2()...)
		if err != nil {
			return nil, nil, VL{VL{VT("reuseerr"), verr(err)}}
		}
		if st/10 == 1 {
			dr, err := r0.DataReader()
			if err != nil {
				return nil, nil, VL{VL{VT("reuseerr"), verr(err)}}
			}
			c13Consume(dr, dr, st%10)
			cur = dr
			if r0.Version == 2 {
				lo, hi := r0.Header.DataOffset, r0.Header.DataOffset+r0.Header.DataSize
				if lo > uint64(len(eff)) {
					lo = uint64(len(eff))
				}
				if hi > uint64(len(eff)) || hi < lo {
					hi = uint64(len(eff))
				}
				eff = eff[lo:hi]
			}
		} else {
			ir, err := r0.IndexReader()
			if err != nil {
				return nil, nil, VL{VL{VT("reuseerr"), verr(err)}}
			}
			if ir == nil {
				return nil, nil, VL{VL{VT("reusenil")}}
			}
			rsa := ir.(interface {
				io.ReadSeeker
				io.ReaderAt
			})
			c13Consume(rsa, rsa, st%10)
			cur = rsa
			lo := r0.Header.IndexOffset
			if lo > uint64(len(eff)) {
				lo = uint64(len(eff))
			}
			eff = eff[lo:]
		}
	}
	return cur, eff, nil
}

func runInspectImpl(o iOpts, file []byte, validate bool, hist []uint64) Val {
	return runInspectImplR(o, file, validate, hist, nil)
}

func runInspectImplR(o iOpts, file0 []byte, validate bool, hist []uint64, reuse []uint64) Val {
	src, file, failed := c13Reuse(o, file0, reuse)
	if failed != nil {
		return failed
	}
	// the reference scan: the real BlockReader over a fresh view of the same bytes
	var scan Val
	if br, err := carv2.NewBlockReader(bytes.NewReader(file), o.r().v2()...); err != nil {
		scan = VL{VT("openerr"), verr(err)}
	} else {
		var bs []blocks.Block
		for {
			b, err := br.Next()
			if err != nil {
				scan = VL{VT("ok"), VN(br.Version), cidsVal(br.Roots), blocksObs(bs, err)}
				break
			}
			bs = append(bs, b)
		}
	}
	// validate = false: also the non-verifying scan Inspect(false) is compared with
	var tscan Val = VL{VT("none")}
	if !validate {
		to := o.r()
		to.trusted = true
		if br, err := carv2.NewBlockReader(bytes.NewReader(file), to.v2()...); err != nil {
			tscan = VL{VT("openerr"), verr(err)}
		} else {
			var bs []blocks.Block
			for {
				b, err := br.Next()
				if err != nil {
					tscan = VL{VT("ok"), VN(br.Version), cidsVal(br.Roots), blocksObs(bs, err)}
					break
				}
				bs = append(bs, b)
			}
		}
	}
	// with a reuse chain: the same NewReader + Inspect on a FRESH view of the same bytes
	var fresh Val = VL{VT("none")}
	if len(reuse) > 0 {
		if fr, err := carv2.NewReader(bytes.NewReader(file), o.r().v2()...); err != nil {
			fresh = VL{VT("newerr"), verr(err)}
		} else {
			fresh = c13InspVal(fr.Inspect(validate))
		}
	}
	r, err := carv2.NewReader(src, o.r().v2()...)
	if err != nil {
		return VL{VL{VT("newerr"), verr(err)}, scan, VL{VT("none")}, tscan, VL{}, fresh}
	}
	histObs := c13History(r, hist)
	insp := c13InspVal(r.Inspect(validate))
	var idx Val = VL{VT("none")}
	if r.Version != 1 && r.Header.HasIndex() {
		ir, err := r.IndexReader()
		if err != nil {
			idx = VL{VT("idxerr"), verr(err)}
		} else if code, err := index.ReadCodec(ir); err != nil {
			idx = VL{VT("idxerr"), verr(err)}
		} else {
			idx = VL{VT("idx"), VN(uint64(code))}
		}
	}
	return VL{insp, scan, idx, tscan, histObs, fresh}
}

// inspectTables: the oracle tables of scanTables (what the BlockReader can ask about) plus the
// payload as a Reader sees it (CARv2 header at the fixed offset 11, whatever the first header's
// length).
func inspectTables(file []byte) (Val, Val) {
	hok, hdrs := scanTables(file)
	if len(file) >= 51 {
		var h carv2.Header
		if _, err := h.ReadFrom(bytes.NewReader(file[11:51])); err == nil && h.DataOffset <= uint64(len(file)) {
			win := file[h.DataOffset:]
			if h.DataSize < uint64(len(win)) {
				win = win[:h.DataSize]
			}
			if e, rest, ok := hdrEntry(win); ok {
				hdrs = append(hdrs.(VL), e)
				extra := hokTable(rest).(VL)
				seen := map[string]bool{}
				for _, x := range hok.(VL) {
					seen[valString(x)] = true
				}
				for _, x := range extra {
					if !seen[valString(x)] {
						hok = append(hok.(VL), x)
					}
				}
			}
		}
	}
	return hok, hdrs
}

func emitInspect(c *Ctx, o iOpts, file []byte, validate bool, how string, hist []uint64, nontrivial bool) {
	emitInspectR(c, o, file, validate, how, hist, nil, nontrivial)
}

// inspectTablesViews: the tables for the file and, when the Reader under test is opened on a reused section
// view, for every byte string such a chain of views can present (the data window or the bytes from
// IndexOffset of a CARv2, to the depth of the chain): the model asks the hash oracle about sections of the
// view, which a hostile header can place anywhere in the file.
func inspectTablesViews(file []byte, depth int) (Val, Val) {
	cands := [][]byte{file}
	frontier := [][]byte{file}
	for d := 0; d < depth; d++ {
		var next [][]byte
		for _, f := range frontier {
			if len(f) < 51 {
				continue
			}
			var h carv2.Header
			if _, err := h.ReadFrom(bytes.NewReader(f[11:51])); err != nil {
				continue
			}
			if h.DataOffset <= uint64(len(f)) {
				win := f[h.DataOffset:]
				if h.DataSize < uint64(len(win)) {
					win = win[:h.DataSize]
				}
				next = append(next, win)
			}
			if h.IndexOffset != 0 && h.IndexOffset <= uint64(len(f)) {
				next = append(next, f[h.IndexOffset:])
			}
		}
		cands = append(cands, next...)
		frontier = next
	}
	hokAll, hdrAll := VL{}, VL{}
	seenH, seenD := map[string]bool{}, map[string]bool{}
	for _, f := range cands {
		hok, hdrs := inspectTables(f)
		for _, x := range hok.(VL) {
			if k := valString(x); !seenH[k] {
				seenH[k] = true
				hokAll = append(hokAll, x)
			}
		}
		for _, x := range hdrs.(VL) {
			if k := valString(x); !seenD[k] {
				seenD[k] = true
				hdrAll = append(hdrAll, x)
			}
		}
	}
	return hokAll, hdrAll
}

func emitInspectR(c *Ctx, o iOpts, file []byte, validate bool, how string, hist []uint64, reuse []uint64, nontrivial bool) {
	hok, hdrs := inspectTables(file)
	if len(reuse) > 0 {
		hok, hdrs = inspectTablesViews(file, len(reuse))
	}
	hv := VL{}
	for _, h := range hist {
		hv = append(hv, VN(h))
	}
	rv := VL{}
	for _, x := range reuse {
		rv = append(rv, VN(x))
	}
	in := VL{o.val(), VB(file), hok, hdrs, vbool(validate), VT(how), hv, rv}
	c.Emit("inspect", in, runInspectImplR(o, file, validate, hist, reuse), nontrivial)
}

func init() {
	registerReplay("inspect", func(c *Ctx, in Val) Val {
		l := in.(VL)
		ol := l[0].(VL)
		o := iOpts{ol[0].(VN) != 0, uint64(ol[1].(VN)), uint64(ol[2].(VN))}
		var hist []uint64
		if len(l) > 6 {
			for _, h := range l[6].(VL) {
				hist = append(hist, uint64(h.(VN)))
			}
		}
		var reuse []uint64
		if len(l) > 7 {
			for _, h := range l[7].(VL) {
				reuse = append(reuse, uint64(h.(VN)))
			}
		}
		return runInspectImplR(o, []byte(l[1].(VB)), l[4].(VN) != 0, hist, reuse)
	})
}
