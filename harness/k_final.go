package main

import (
	"bytes"
	"context"
	"fmt"
	"os"
	"os/exec"
	"path/filepath"
	"strings"

	blocks "github.com/ipfs/go-block-format"
	"github.com/ipfs/go-cid"
	carv2 "github.com/ipld/go-car/v2"
	"github.com/ipld/go-car/v2/blockstore"
	"github.com/ipld/go-car/v2/index"
	"github.com/ipld/go-car/v2/storage"
	"github.com/ipld/go-car/v2/storage/deferred"
	mh "github.com/multiformats/go-multihash"
	"github.com/multiformats/go-varint"
)

// kinds "final" and "finalfile" (see coq/theories/RunFinal.v for the wire format).
// final: a writing session (open on an empty file, put calls, Finalize) on one of the front-ends
//   0 blockstore.ReadWrite  1 storage.NewReadableWritable  2 storage.NewWritable on a file
//   3 storage.NewWritable on a stream  4 deferred writer for a path  5 deferred writer for a stream
//   6 `car filter` (a blockstore session driven by the CLI; field 6 of the input says how to re-run it)
// and the verdicts of the library's own checkers on the finished file.

// c05InspectVerdict: Reader.Inspect(true) with default options on the bytes.
func c05InspectVerdict(file []byte) Val {
	rd, err := carv2.NewReader(bytes.NewReader(file))
	if err != nil {
		return VT("rej")
	}
	if _, err := rd.Inspect(true); err != nil {
		return VT("rej")
	}
	return VT("ok")
}

// c05VerifyVerdict: cmd/car/lib.VerifyCar through the car binary built from the working tree.
func c05VerifyVerdict(c *Ctx, file []byte) Val {
	f, err := os.CreateTemp(c.Work, "vf*.car")
	if err != nil {
		panic(err)
	}
	name := f.Name()
	f.Write(file)
	f.Close()
	defer os.Remove(name)
	cmd := exec.Command(c.CarBin, "verify", name)
	out, err := cmd.CombinedOutput()
	if err == nil {
		return VT("ok")
	}
	if ee, ok := err.(*exec.ExitError); ok && ee.ExitCode() == 1 && !bytes.Contains(out, []byte("panic:")) && !bytes.Contains(out, []byte("goroutine ")) {
		return VT("rej")
	}
	if bytes.Contains(out, []byte("out of memory")) || bytes.Contains(out, []byte("makeslice: len out of range")) {
		// index.ReadFrom allocates the declared bucket length up front (DESIGN section 6 #9, property C09):
		// only reachable here through a damaged index; counted, and reported as a rejection
		c.Count("verify:alloc-crash-on-damaged-index(C09)")
		return VT("rej")
	}
	return VT("CRASH")
}

func c05BatchesFromVal(v Val) [][]Blk {
	var out [][]Blk
	for _, bv := range v.(VL) {
		var b []Blk
		for _, e := range bv.(VL) {
			el := e.(VL)
			_, c, err := cid.CidFromBytes([]byte(el[0].(VB)))
			if err != nil {
				c = cid.Undef
			}
			b = append(b, Blk{c, []byte(el[1].(VB))})
		}
		out = append(out, b)
	}
	return out
}

func c05BatchesVal(h [][]Blk) Val {
	out := VL{}
	for _, b := range h {
		out = append(out, blksVal(b))
	}
	return out
}

// c05RunFinalImpl executes the session on the real library; kind 6 is handled by c05RunFilterCLI.
func c05RunFinalImpl(c *Ctx, kind uint64, o wOpts, roots []cid.Cid, h [][]Blk) Val {
	ctx := context.Background()
	dir, err := os.MkdirTemp(c.Work, "fin")
	if err != nil {
		panic(err)
	}
	defer os.RemoveAll(dir)
	path := filepath.Join(dir, "a.car")
	fail := func(err error) Val {
		return VL{outErr(err), VL{}, outNil(), VB(nil), VT("rej"), VT("rej")}
	}
	outs := VL{}
	var finOut Val
	var file []byte
	switch kind {
	case 0:
		bs, err := blockstore.OpenReadWrite(path, roots, o.v2()...)
		if err != nil {
			return fail(err)
		}
		for _, b := range h {
			var blks []blocks.Block
			for _, x := range b {
				blk, _ := blocks.NewBlockWithCid(x.Data, x.Cid)
				blks = append(blks, blk)
			}
			var err error
			if len(blks) == 1 {
				err = bs.Put(ctx, blks[0])
			} else {
				err = bs.PutMany(ctx, blks)
			}
			outs = append(outs, VL{outOf(err)})
		}
		finOut = outOf(bs.Finalize())
		file, _ = os.ReadFile(path)
	case 1, 2:
		f, err := os.OpenFile(path, os.O_RDWR|os.O_CREATE, 0o666)
		if err != nil {
			panic(err)
		}
		defer f.Close()
		var wc storage.WritableCar
		if kind == 1 {
			wc, err = storage.NewReadableWritable(f, roots, o.v2()...)
		} else {
			wc, err = storage.NewWritable(writeOnlyFile{&faultFile{f: f}}, roots, o.v2()...)
		}
		if err != nil {
			return fail(err)
		}
		for _, b := range h {
			bo := VL{}
			for _, x := range b {
				bo = append(bo, outOf(wc.Put(ctx, string(x.Cid.Bytes()), x.Data)))
			}
			outs = append(outs, bo)
		}
		finOut = outOf(wc.Finalize())
		file, _ = os.ReadFile(path)
	case 3:
		var buf bytes.Buffer
		wc, err := storage.NewWritable(&buf, roots, o.v2()...)
		if err != nil {
			return fail(err)
		}
		for _, b := range h {
			bo := VL{}
			for _, x := range b {
				bo = append(bo, outOf(wc.Put(ctx, string(x.Cid.Bytes()), x.Data)))
			}
			outs = append(outs, bo)
		}
		finOut = outOf(wc.Finalize())
		file = buf.Bytes()
	case 4, 5:
		var buf bytes.Buffer
		var dw *deferred.DeferredCarWriter
		if kind == 4 {
			dw = deferred.NewDeferredCarWriterForPath(path, roots, o.v2()...)
		} else {
			dw = deferred.NewDeferredCarWriterForStream(&buf, roots, o.v2()...)
		}
		for _, b := range h {
			bo := VL{}
			for _, x := range b {
				bo = append(bo, outOf(dw.Put(ctx, string(x.Cid.Bytes()), x.Data)))
			}
			outs = append(outs, bo)
		}
		finOut = outOf(dw.Close())
		if kind == 4 {
			file, _ = os.ReadFile(path)
		} else {
			file = buf.Bytes()
		}
	default:
		panic("bad final kind")
	}
	return VL{outNil(), outs, finOut, VB(file), c05InspectVerdict(file), c05VerifyVerdict(c, file)}
}

// c05FilterSpec: how a kind-6 case was produced: input archive (roots, blocks, v2?), the CID list, flags.
type c05FilterSpec struct {
	inRoots []cid.Cid
	inBlks  []Blk
	inV2    bool
	sel     []cid.Cid
	inverse bool
	version int
}

func (fs c05FilterSpec) val() Val {
	return VL{cidsVal(fs.inRoots), blksVal(fs.inBlks), vbool(fs.inV2), cidsVal(fs.sel), vbool(fs.inverse), VN(uint64(fs.version))}
}
func c05FilterSpecFromVal(v Val) c05FilterSpec {
	l := v.(VL)
	var fs c05FilterSpec
	fs.inRoots = cidsFromVal(l[0])
	for _, e := range l[1].(VL) {
		el := e.(VL)
		_, c, _ := cid.CidFromBytes([]byte(el[0].(VB)))
		fs.inBlks = append(fs.inBlks, Blk{c, []byte(el[1].(VB))})
	}
	fs.inV2 = l[2].(VN) != 0
	fs.sel = cidsFromVal(l[3])
	fs.inverse = l[4].(VN) != 0
	fs.version = int(l[5].(VN))
	return fs
}

// what `car filter` is asked to produce, computed independently: roots and blocks that pass the filter
func (fs c05FilterSpec) expected() ([]cid.Cid, [][]Blk) {
	m := map[cid.Cid]bool{}
	for _, c := range fs.sel {
		m[c] = true
	}
	keep := func(c cid.Cid) bool { return m[c] != fs.inverse }
	roots := []cid.Cid{}
	for _, r := range fs.inRoots {
		if keep(r) {
			roots = append(roots, r)
		}
	}
	var h [][]Blk
	for _, b := range fs.inBlks {
		if keep(b.Cid) {
			h = append(h, []Blk{b})
		}
	}
	return roots, h
}

func c05RunFilterCLI(c *Ctx, fs c05FilterSpec) Val {
	dir, err := os.MkdirTemp(c.Work, "flt")
	if err != nil {
		panic(err)
	}
	defer os.RemoveAll(dir)
	in := refPayload(fs.inRoots, fs.inBlks)
	if fs.inV2 {
		in = v2Container(in, 0, nil)
	}
	inPath := filepath.Join(dir, "in.car")
	outPath := filepath.Join(dir, "out.car")
	cidPath := filepath.Join(dir, "cids.txt")
	os.WriteFile(inPath, in, 0o644)
	var sb strings.Builder
	for _, x := range fs.sel {
		sb.WriteString(x.String() + "\n")
	}
	os.WriteFile(cidPath, []byte(sb.String()), 0o644)
	args := []string{"filter", "--cid-file", cidPath, "--version", fmt.Sprint(fs.version)}
	if fs.inverse {
		args = append(args, "--inverse")
	}
	args = append(args, inPath, outPath)
	out, err := exec.Command(c.CarBin, args...).CombinedOutput()
	if err != nil {
		return VL{outErr(err), VL{}, outNil(), VB(out), VT("rej"), VT("rej")}
	}
	file, _ := os.ReadFile(outPath)
	_, h := fs.expected()
	outs := VL{}
	for range h {
		outs = append(outs, VL{outNil()}) // the command succeeded, so every Put did
	}
	return VL{outNil(), outs, outNil(), VB(file), c05InspectVerdict(file), c05VerifyVerdict(c, file)}
}

func c05FinalInput(kind uint64, o wOpts, roots []cid.Cid, h [][]Blk, extra Val) Val {
	var rv Val = cidsVal(roots)
	if roots == nil {
		rv = VT("nil")
	}
	seen := map[string]bool{}
	hok := VL{}
	for _, b := range h {
		for _, x := range b {
			k := string(x.Cid.Bytes()) + "|" + string(x.Data)
			if !seen[k] {
				seen[k] = true
				hok = append(hok, VL{VB(x.Cid.Bytes()), VB(x.Data), vbool(hashOK(x.Cid, x.Data))})
			}
		}
	}
	in := VL{VN(kind), o.val(), rv, c05BatchesVal(h), hok, VL{}}
	if extra != nil {
		in = append(in, extra)
	}
	return in
}

// c05InspectQueries: the (cid, data) pairs Reader.Inspect(true) hashes while walking a payload window
// (CID parsed from the stream, data cut short if the window ends early).
func c05InspectQueries(win []byte, tab *VL, seen map[string]bool) {
	// skip the header frame
	l, n, err := varint.FromUvarint(win)
	if err != nil || l > uint64(len(win)-n) {
		return
	}
	p := win[n+int(l):]
	for len(p) > 0 {
		sl, n, err := varint.FromUvarint(p)
		if err != nil {
			return
		}
		p = p[n:]
		cl, c, err := cid.CidFromBytes(p)
		if err != nil || uint64(cl) > sl {
			return
		}
		dl := sl - uint64(cl)
		rest := p[cl:]
		if dl > uint64(len(rest)) {
			dl = uint64(len(rest))
		}
		data := rest[:dl]
		k := string(c.Bytes()) + "|" + string(data)
		if !seen[k] {
			seen[k] = true
			*tab = append(*tab, VL{VB(c.Bytes()), VB(data), vbool(hashOK(c, data))})
		}
		p = rest[dl:]
	}
}

// c05FileTables: hash and header oracle tables for an arbitrary (possibly damaged) file
func c05FileTables(file []byte) (Val, Val) {
	hokv, hdrs := scanTables(file)
	tab := hokv.(VL)
	seen := map[string]bool{}
	for _, e := range tab {
		el := e.(VL)
		seen[string(el[0].(VB))+"|"+string(el[1].(VB))] = true
	}
	c05InspectQueries(file, &tab, seen)
	if len(file) >= 51 {
		var h carv2.Header
		if _, err := h.ReadFrom(bytes.NewReader(file[11:51])); err == nil && h.DataOffset <= uint64(len(file)) {
			win := file[h.DataOffset:]
			if h.DataSize < uint64(len(win)) {
				win = win[:h.DataSize]
			}
			c05InspectQueries(win, &tab, seen)
		}
	}
	return tab, hdrs
}

func c05RunFinalFileImpl(c *Ctx, file []byte) Val {
	return VL{c05InspectVerdict(file), c05VerifyVerdict(c, file)}
}

// kind "finalwide": a CIDv1 (raw) with hash code `code` and an n-byte digest, too large to ship in a case line,
// is the first Put into a new CARv2 store (0 blockstore, 1 storage); then Finalize and index.ReadFrom on the file.
func c05RunWideImpl(c *Ctx, kind uint64, o wOpts, n uint64, code uint64) Val {
	ctx := context.Background()
	dir, err := os.MkdirTemp(c.Work, "wide")
	if err != nil {
		panic(err)
	}
	defer os.RemoveAll(dir)
	path := filepath.Join(dir, "a.car")
	digest := bytes.Repeat([]byte{7}, int(n))
	mhb, err := mh.Encode(digest, code)
	if err != nil {
		panic(err)
	}
	k := cid.NewCidV1(cid.Raw, mhb)
	var putErr, finErr error
	switch kind {
	case 0:
		bs, err := blockstore.OpenReadWrite(path, nil, o.v2()...)
		if err != nil {
			panic(err)
		}
		blk, _ := blocks.NewBlockWithCid([]byte("x"), k)
		putErr = bs.Put(ctx, blk)
		finErr = bs.Finalize()
	default:
		f, err := os.OpenFile(path, os.O_RDWR|os.O_CREATE, 0o666)
		if err != nil {
			panic(err)
		}
		defer f.Close()
		sc, err := storage.NewReadableWritable(f, nil, o.v2()...)
		if err != nil {
			panic(err)
		}
		putErr = sc.Put(ctx, string(k.Bytes()), []byte("x"))
		finErr = sc.Finalize()
	}
	readable := false
	if rd, err := carv2.OpenReader(path); err == nil {
		if ir, err := rd.IndexReader(); err == nil && ir != nil {
			_, err := index.ReadFrom(ir)
			readable = err == nil
		}
		rd.Close()
	}
	return VL{outOf(putErr), outOf(finErr), vbool(readable)}
}

// kind "finalresume": phase 1 = open on a new file, puts, no Finalize (blockstore: Discard; storage: the handle is
// dropped); `tail` zero bytes are appended to the file; phase 2 = reopen (resume), puts, Finalize.
func c05RunResumeImpl(c *Ctx, kind uint64, o1 wOpts, roots []cid.Cid, h1 [][]Blk, tail uint64, o2 wOpts, h2 [][]Blk) Val {
	ctx := context.Background()
	dir, err := os.MkdirTemp(c.Work, "res")
	if err != nil {
		panic(err)
	}
	defer os.RemoveAll(dir)
	path := filepath.Join(dir, "a.car")
	putAll := func(put func(Blk) error, putMany func([]Blk) error, h [][]Blk) VL {
		outs := VL{}
		for _, b := range h {
			if kind == 0 {
				if len(b) == 1 {
					outs = append(outs, VL{outOf(put(b[0]))})
				} else {
					outs = append(outs, VL{outOf(putMany(b))})
				}
				continue
			}
			bo := VL{}
			for _, x := range b {
				bo = append(bo, outOf(put(x)))
			}
			outs = append(outs, bo)
		}
		return outs
	}
	failAt := func(err error) Val {
		return VL{outErr(err), VL{}, outNil(), VL{}, outNil(), VB(nil), VT("rej"), VT("rej")}
	}
	var outs1, outs2 VL
	var reopenErr, finErr error
	appendTail := func() {
		if tail == 0 {
			return
		}
		f, err := os.OpenFile(path, os.O_WRONLY|os.O_APPEND, 0o666)
		if err != nil {
			panic(err)
		}
		f.Write(make([]byte, tail))
		f.Close()
	}
	if kind == 0 {
		mk := func(bs *blockstore.ReadWrite) (func(Blk) error, func([]Blk) error) {
			return func(x Blk) error {
					blk, _ := blocks.NewBlockWithCid(x.Data, x.Cid)
					return bs.Put(ctx, blk)
				}, func(b []Blk) error {
					var blks []blocks.Block
					for _, x := range b {
						blk, _ := blocks.NewBlockWithCid(x.Data, x.Cid)
						blks = append(blks, blk)
					}
					return bs.PutMany(ctx, blks)
				}
		}
		bs, err := blockstore.OpenReadWrite(path, roots, o1.v2()...)
		if err != nil {
			return failAt(err)
		}
		p1, pm1 := mk(bs)
		outs1 = putAll(p1, pm1, h1)
		bs.Discard()
		appendTail()
		bs2, err := blockstore.OpenReadWrite(path, roots, o2.v2()...)
		reopenErr = err
		if err == nil {
			p2, pm2 := mk(bs2)
			outs2 = putAll(p2, pm2, h2)
			finErr = bs2.Finalize()
		}
	} else {
		f, err := os.OpenFile(path, os.O_RDWR|os.O_CREATE, 0o666)
		if err != nil {
			panic(err)
		}
		sc, err := storage.NewReadableWritable(f, roots, o1.v2()...)
		if err != nil {
			f.Close()
			return failAt(err)
		}
		outs1 = putAll(func(x Blk) error { return sc.Put(ctx, string(x.Cid.Bytes()), x.Data) }, nil, h1)
		f.Close()
		appendTail()
		f2, err := os.OpenFile(path, os.O_RDWR, 0o666)
		if err != nil {
			panic(err)
		}
		defer f2.Close()
		sc2, err := storage.OpenReadableWritable(f2, roots, o2.v2()...)
		reopenErr = err
		if err == nil {
			outs2 = putAll(func(x Blk) error { return sc2.Put(ctx, string(x.Cid.Bytes()), x.Data) }, nil, h2)
			finErr = sc2.Finalize()
		}
	}
	file, _ := os.ReadFile(path)
	if reopenErr != nil {
		return VL{outNil(), outs1, outErr(reopenErr), VL{}, outNil(), VB(file), c05InspectVerdict(file), c05VerifyVerdict(c, file)}
	}
	return VL{outNil(), outs1, outNil(), outs2, outOf(finErr), VB(file), c05InspectVerdict(file), c05VerifyVerdict(c, file)}
}

func c05ResumeInput(kind uint64, o1 wOpts, roots []cid.Cid, h1 [][]Blk, tail uint64, o2 wOpts, h2 [][]Blk) Val {
	base := c05FinalInput(kind, o1, roots, append(append([][]Blk{}, h1...), h2...), nil).(VL)
	// base = (kind opts roots batches hok hdr)
	return VL{VN(kind), o1.val(), base[2], c05BatchesVal(h1), VN(tail), o2.val(), c05BatchesVal(h2), base[4], VL{}}
}

func init() {
	registerReplay("finalresume", func(c *Ctx, in Val) Val {
		l := in.(VL)
		return c05RunResumeImpl(c, uint64(l[0].(VN)), wOptsFromVal(l[1]), cidsFromVal(l[2]), c05BatchesFromVal(l[3]),
			uint64(l[4].(VN)), wOptsFromVal(l[5]), c05BatchesFromVal(l[6]))
	})
	registerReplay("finalwide", func(c *Ctx, in Val) Val {
		l := in.(VL)
		return c05RunWideImpl(c, uint64(l[0].(VN)), wOptsFromVal(l[1]), uint64(l[2].(VN)), uint64(l[3].(VN)))
	})
	registerReplay("final", func(c *Ctx, in Val) Val {
		l := in.(VL)
		kind := uint64(l[0].(VN))
		if kind == 6 {
			return c05RunFilterCLI(c, c05FilterSpecFromVal(l[6]))
		}
		return c05RunFinalImpl(c, kind, wOptsFromVal(l[1]), cidsFromVal(l[2]), c05BatchesFromVal(l[3]))
	})
	registerReplay("finalfile", func(c *Ctx, in Val) Val {
		return c05RunFinalFileImpl(c, []byte(in.(VL)[1].(VB)))
	})
}
