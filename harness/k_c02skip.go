package main

// kind "c02skip": same input and observation as kind "brpos" (k_brpos.go: NewBlockReader over a source
// of the given kind, then Next / SkipNext as the choice string says), with C02's expectation in the
// last field: (tnone) | (ttrunc orig nonboundary nwhole).

// The source descriptor may carry a third element: 1 = the counting sources (kinds 2..4) report io.EOF
// together with their last bytes (a delivery pattern the model, which reads byte strings, abstracts).
func c02xEmitSkip(c *Ctx, kind uint64, chunk int, dataErr bool, o rOpts, file []byte, w []bool, expect Val, nontrivial bool) {
	hok, hdrs := scanTables(file)
	in := VL{VL{VN(kind), VN(uint64(chunk)), vbool(dataErr)}, o.val(), VB(file), hok, hdrs, choicesVal(w), expect}
	c.Emit("c02skip", in, runBrposImplD(c, kind, chunk, dataErr, o, file, w), nontrivial)
}

func init() {
	registerReplay("c02skip", func(c *Ctx, in Val) Val {
		l := in.(VL)
		k := l[0].(VL)
		ol := l[1].(VL)
		o := rOpts{ol[0].(VN) != 0, uint64(ol[1].(VN)), uint64(ol[2].(VN)), ol[3].(VN) != 0}
		var w []bool
		for _, x := range l[5].(VL) {
			w = append(w, x.(VN) != 0)
		}
		dataErr := len(k) > 2 && k[2].(VN) != 0
		return runBrposImplD(c, uint64(k[0].(VN)), int(k[1].(VN)), dataErr, o, []byte(l[2].(VB)), w)
	})
}
