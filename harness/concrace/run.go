package main

import (
	"bytes"
	"context"
	"crypto/sha256"
	"errors"
	"fmt"
	"io"
	"os"
	"runtime"
	"runtime/debug"
	"sort"
	"strings"
	"sync"
	"sync/atomic"
	"time"

	blocks "github.com/ipfs/go-block-format"
	"github.com/ipfs/go-cid"
	carv2 "github.com/ipld/go-car/v2"
	"github.com/ipld/go-car/v2/blockstore"
	"github.com/ipld/go-car/v2/index"
	carstorage "github.com/ipld/go-car/v2/storage"
	"github.com/ipld/go-car/v2/storage/deferred"
	mh "github.com/multiformats/go-multihash"
)

// op kinds (same numbering as harness/concspec.go)
const (
	kPut = iota
	kPutMany
	kHas
	kGet
	kGetSize
	kAllKeys
	kRoots
	kFinalize
	kFinalizeRO
)

const unknownID = 0xffffffff

// ---- the fixed block table: block i is determined by its id ----

type blockTab struct {
	data   [][]byte
	cids   []cid.Cid
	keys   []string
	blks   []blocks.Block
	byData map[string]uint64
	byHash map[string]uint64
}

var tab = &blockTab{byData: map[string]uint64{}, byHash: map[string]uint64{}}

func blockData(i int) []byte {
	d := []byte(fmt.Sprintf("c08-block-%d-", i))
	return append(d, bytes.Repeat([]byte{byte(i)}, (i*7)%40)...)
}

// Key families (ids >= 100, see harness/concspec.go cMhKey): id = 100 + 10*g + v; all members of
// family g carry the same 32 digest bytes, the variants differ in CID version / codec / multihash code.
func familyDigest(g int) []byte {
	d := sha256.Sum256([]byte(fmt.Sprintf("c08-family-digest-%d", g)))
	return d[:]
}

func cidOf(i int, data []byte) cid.Cid {
	if i < 100 {
		h, err := mh.Sum(data, mh.SHA2_256, -1)
		if err != nil {
			panic(err)
		}
		return cid.NewCidV1(cid.Raw, h)
	}
	g, v := (i-100)/10, i%10
	code := uint64(mh.SHA2_256)
	switch {
	case v == 3 || v == 4:
		code = mh.SHA3_256
	case v >= 5:
		code = mh.BLAKE2B_MIN + 31 // blake2b-256
	}
	h, err := mh.Encode(familyDigest(g), code)
	if err != nil {
		panic(err)
	}
	switch v {
	case 1:
		return cid.NewCidV1(cid.DagProtobuf, h)
	case 2:
		return cid.NewCidV0(h)
	case 4:
		return cid.NewCidV1(cid.DagCBOR, h)
	}
	return cid.NewCidV1(cid.Raw, h)
}

// grow makes the table cover ids 0..max.
func (t *blockTab) grow(max int) {
	for i := len(t.data); i <= max; i++ {
		d := blockData(i)
		c := cidOf(i, d)
		b, err := blocks.NewBlockWithCid(d, c)
		if err != nil {
			panic(err)
		}
		t.data = append(t.data, d)
		t.cids = append(t.cids, c)
		t.keys = append(t.keys, c.KeyString())
		t.blks = append(t.blks, b)
		t.byData[string(d)] = uint64(i)
		// listings carry the multihash only: the smallest id with that multihash stands for it
		if _, seen := t.byHash[string(c.Hash())]; !seen {
			t.byHash[string(c.Hash())] = uint64(i)
		}
	}
}

func (t *blockTab) idOfData(d []byte) uint64 {
	if id, ok := t.byData[string(d)]; ok {
		return id
	}
	return unknownID
}

func (t *blockTab) idOfCid(c cid.Cid) uint64 {
	if id, ok := t.byHash[string(c.Hash())]; ok {
		return id
	}
	return unknownID
}

// ---- error classes: same mapping as harness/errclass.go ----

func errClass(err error) string {
	if err == nil {
		return "nil"
	}
	if err == io.EOF {
		return "eof"
	}
	var tooLarge *carv2.ErrCidTooLarge
	if errors.As(err, &tooLarge) {
		return "cid2big"
	}
	if errors.Is(err, index.ErrNotFound) {
		return "notfound"
	}
	if nf, ok := err.(interface{ NotFound() bool }); ok && nf.NotFound() {
		return "notfound"
	}
	var nfi interface{ NotFound() bool }
	if errors.As(err, &nfi) && nfi.NotFound() {
		return "notfound"
	}
	msg := err.Error()
	switch {
	case strings.Contains(msg, "invalid header data, length of read beyond allowable maximum"):
		return "hdr2big"
	case strings.Contains(msg, "invalid section data, length of read beyond allowable maximum"):
		return "sec2big"
	case strings.Contains(msg, "cannot use a carv2 blockstore after closing"),
		strings.Contains(msg, "cannot use a CAR storage after closing"):
		return "closed"
	case strings.Contains(msg, "cannot write in a carv2 blockstore after finalize"):
		return "finalized"
	}
	return "other"
}

// ---- the history clock ----

var clock atomic.Uint64

// tick increments the global history counter.  The increment is hidden from the race
// detector's happens-before relation (see racesync_race.go).
func tick() uint64 {
	raceSyncOff()
	v := clock.Add(1)
	raceSyncOn()
	return v
}

// ---- one store under test ----

type target struct {
	store int
	rw    *blockstore.ReadWrite
	sc    *carstorage.StorageCar
	f     *os.File
	dw    *deferred.DeferredCarWriter
}

// prepared op: everything the call needs is built before the invocation tick
type prepared struct {
	kind int
	id   int
	c    cid.Cid
	key  string
	data []byte
	blk  blocks.Block
	blks []blocks.Block
}

type rawRes struct {
	err      error
	has      bool
	data     []byte
	size     int
	cids     []cid.Cid
	nroots   int
	panicked bool
	panicMsg string
}

var errUnsupported = errors.New("c08: op kind not supported by this store")

var bg = context.Background()

// call invokes the library.  h[0] is ticked immediately before the call, h[1] immediately
// after it returned (AllKeys: after the channel was drained; panic: in the recover handler).
func (t *target) call(p *prepared, h *[2]uint64) (r rawRes) {
	defer func() {
		if e := recover(); e != nil {
			h[1] = tick()
			r.panicked = true
			r.panicMsg = fmt.Sprintf("panic: %v\n%s", e, debug.Stack())
		}
	}()
	switch t.store {
	case 0:
		switch p.kind {
		case kPut:
			h[0] = tick()
			r.err = t.rw.Put(bg, p.blk)
			h[1] = tick()
		case kPutMany:
			h[0] = tick()
			r.err = t.rw.PutMany(bg, p.blks)
			h[1] = tick()
		case kHas:
			h[0] = tick()
			r.has, r.err = t.rw.Has(bg, p.c)
			h[1] = tick()
		case kGet:
			h[0] = tick()
			b, err := t.rw.Get(bg, p.c)
			h[1] = tick()
			r.err = err
			if err == nil {
				r.data = b.RawData()
			}
		case kGetSize:
			h[0] = tick()
			r.size, r.err = t.rw.GetSize(bg, p.c)
			h[1] = tick()
		case kAllKeys:
			h[0] = tick()
			ch, err := t.rw.AllKeysChan(bg)
			if err == nil {
				for c := range ch {
					r.cids = append(r.cids, c)
				}
			}
			h[1] = tick()
			r.err = err
		case kRoots:
			h[0] = tick()
			roots, err := t.rw.Roots()
			h[1] = tick()
			r.err, r.nroots = err, len(roots)
		case kFinalize:
			h[0] = tick()
			r.err = t.rw.Finalize()
			h[1] = tick()
		case kFinalizeRO:
			h[0] = tick()
			r.err = t.rw.FinalizeReadOnly()
			h[1] = tick()
		default:
			h[0] = tick()
			r.err = errUnsupported
			h[1] = tick()
		}
	case 1:
		switch p.kind {
		case kPut:
			h[0] = tick()
			r.err = t.sc.Put(bg, p.key, p.data)
			h[1] = tick()
		case kHas:
			h[0] = tick()
			r.has, r.err = t.sc.Has(bg, p.key)
			h[1] = tick()
		case kGet:
			h[0] = tick()
			r.data, r.err = t.sc.Get(bg, p.key)
			h[1] = tick()
		case kRoots:
			h[0] = tick()
			roots := t.sc.Roots()
			h[1] = tick()
			r.nroots = len(roots)
		case kFinalize:
			h[0] = tick()
			r.err = t.sc.Finalize()
			h[1] = tick()
		default:
			h[0] = tick()
			r.err = errUnsupported
			h[1] = tick()
		}
	default:
		switch p.kind {
		case kPut:
			h[0] = tick()
			r.err = t.dw.Put(bg, p.key, p.data)
			h[1] = tick()
		case kHas:
			h[0] = tick()
			r.has, r.err = t.dw.Has(bg, p.key)
			h[1] = tick()
		case kFinalize:
			h[0] = tick()
			r.err = t.dw.Close()
			h[1] = tick()
		default:
			h[0] = tick()
			r.err = errUnsupported
			h[1] = tick()
		}
	}
	return r
}

// canon turns a raw result into the canonical observation of the op.
func canon(p *prepared, r rawRes) resJ {
	if r.panicked {
		return resJ{K: "panic"}
	}
	if r.err != nil {
		return resJ{K: "err", C: errClass(r.err)}
	}
	switch p.kind {
	case kHas:
		if r.has {
			return resJ{K: "okn", N: 1}
		}
		return resJ{K: "okn", N: 0}
	case kGet:
		return resJ{K: "okn", N: tab.idOfData(r.data)}
	case kGetSize:
		return resJ{K: "okn", N: uint64(int64(r.size))}
	case kAllKeys:
		ids := make([]uint64, 0, len(r.cids))
		for _, c := range r.cids {
			ids = append(ids, tab.idOfCid(c))
		}
		sort.Slice(ids, func(i, j int) bool { return ids[i] < ids[j] })
		return resJ{K: "okl", L: ids}
	case kRoots:
		return resJ{K: "okn", N: uint64(r.nroots)}
	}
	return resJ{K: "ok"}
}

func prepare(o opJ) *prepared {
	p := &prepared{kind: o.K}
	if len(o.Ids) > 0 {
		id := o.Ids[0]
		p.id = id
		p.c = tab.cids[id]
		p.key = tab.keys[id]
		p.data = tab.data[id]
		p.blk = tab.blks[id]
	}
	if o.K == kPutMany {
		p.blks = make([]blocks.Block, 0, len(o.Ids))
		for _, id := range o.Ids {
			p.blks = append(p.blks, tab.blks[id])
		}
	}
	return p
}

func openTarget(w *workJ) (*target, error) {
	roots := []cid.Cid{tab.cids[0]}
	var opts []carv2.Option
	if w.V1 == 1 {
		opts = append(opts, carv2.WriteAsCarV1(true))
	}
	t := &target{store: w.Store}
	switch w.Store {
	case 0:
		rw, err := blockstore.OpenReadWrite(w.Path, roots, opts...)
		if err != nil {
			return nil, err
		}
		t.rw = rw
	case 1:
		f, err := os.OpenFile(w.Path, os.O_RDWR|os.O_CREATE|os.O_TRUNC, 0o644)
		if err != nil {
			return nil, err
		}
		sc, err := carstorage.NewReadableWritable(f, roots, opts...)
		if err != nil {
			f.Close()
			return nil, err
		}
		t.f, t.sc = f, sc
	case 2:
		t.dw = deferred.NewDeferredCarWriterForPath(w.Path, roots, opts...)
	default:
		return nil, fmt.Errorf("unknown store %d", w.Store)
	}
	return t, nil
}

// readFinal reads the final file: block ids in file order, and whether a read-only
// blockstore opened on it returns every one of these blocks.
func readFinal(w *workJ) (final []uint64, indexok int) {
	final = []uint64{}
	f, err := os.Open(w.Path)
	if err != nil {
		if os.IsNotExist(err) && w.Store == 2 {
			return final, 1 // the deferred writer never created the file
		}
		return final, 0
	}
	br, err := carv2.NewBlockReader(f, carv2.WithTrustedCAR(true))
	if err != nil {
		f.Close()
		return final, 0
	}
	for {
		b, err := br.Next()
		if err == io.EOF {
			break
		}
		if err != nil {
			f.Close()
			return []uint64{}, 0
		}
		final = append(final, tab.idOfData(b.RawData()))
	}
	f.Close()
	ro, err := blockstore.OpenReadOnly(w.Path)
	if err != nil {
		return final, 0
	}
	defer ro.Close()
	for _, id := range final {
		if id == unknownID {
			return final, 0
		}
		b, err := ro.Get(bg, tab.cids[id])
		if err != nil || !bytes.Equal(b.RawData(), tab.data[id]) {
			return final, 0
		}
	}
	return final, 1
}

func runWorkload(w *workJ) (out outJ) {
	n := len(w.Ops)
	out = outJ{N: w.N, Res: make([]resJ, n), Hist: make([][2]uint64, n), Final: []uint64{}}
	for i := range out.Res {
		out.Res[i] = resJ{K: "panic"}
	}
	// anything that goes wrong outside the library calls (set-up, final read) is a crash of
	// the workload, not of the helper
	defer func() {
		if e := recover(); e != nil {
			out.Crashed = 1
			out.Msg = fmt.Sprintf("panic outside an op: %v\n%s", e, debug.Stack())
		}
		os.Remove(w.Path)
	}()

	max := 24
	for _, o := range w.Ops {
		for _, id := range o.Ids {
			if id < 0 {
				panic("negative block id")
			}
			if id > max {
				max = id
			}
		}
	}
	tab.grow(max)
	os.Remove(w.Path)
	clock.Store(0)

	t, err := openTarget(w)
	if err != nil {
		out.Crashed = 1
		out.Msg = "open: " + err.Error()
		return out
	}
	// OnPut callbacks are registered here, before any goroutine exists (OnPut is not one of the
	// property's operations).  Each callback counts its invocations and gives the scheduler a
	// chance to run somebody else (yield, every other one also a short sleep), as a listener
	// that does a little work would.  The counters are hidden from the race detector like the
	// history clock, so that they order nothing.
	cbCount := make([]atomic.Uint64, len(w.Cbs))
	out.Cb = make([]uint64, len(w.Cbs))
	if t.dw != nil {
		for ci, once := range w.Cbs {
			ci := ci
			t.dw.OnPut(func(int) {
				raceSyncOff()
				cbCount[ci].Add(1)
				raceSyncOn()
				runtime.Gosched()
				if ci%2 == 1 {
					time.Sleep(20 * time.Microsecond)
				}
			}, once != 0)
		}
	}
	defer func() {
		for ci := range cbCount {
			raceSyncOff()
			out.Cb[ci] = cbCount[ci].Load()
			raceSyncOn()
		}
	}()

	preps := make([]*prepared, n)
	for i, o := range w.Ops {
		preps[i] = prepare(o)
	}
	var msgMu sync.Mutex
	exec := func(i int) {
		r := t.call(preps[i], &out.Hist[i])
		out.Res[i] = canon(preps[i], r)
		if r.panicked {
			msgMu.Lock()
			out.Crashed = 1
			if out.Msg == "" {
				out.Msg = r.panicMsg
			}
			msgMu.Unlock()
		}
	}

	// phase 0: sequential, main goroutine
	for i, o := range w.Ops {
		if o.P == 0 {
			exec(i)
		}
	}
	// phase 1: one goroutine per tid, released together
	var tids []int
	byTid := map[int][]int{}
	for i, o := range w.Ops {
		if o.P == 1 {
			if _, ok := byTid[o.T]; !ok {
				tids = append(tids, o.T)
			}
			byTid[o.T] = append(byTid[o.T], i)
		}
	}
	if len(tids) > 0 {
		var wg sync.WaitGroup
		var ready atomic.Int32
		var start atomic.Bool
		for _, tid := range tids {
			idxs := byTid[tid]
			wg.Add(1)
			go func() {
				defer wg.Done()
				ready.Add(1)
				for !start.Load() {
					runtime.Gosched()
				}
				for _, i := range idxs {
					exec(i)
				}
			}()
		}
		for int(ready.Load()) < len(tids) {
			runtime.Gosched()
		}
		start.Store(true)
		wg.Wait()
	}
	// phase 2: sequential, main goroutine
	for i, o := range w.Ops {
		if o.P == 2 {
			exec(i)
		}
	}
	if t.f != nil {
		t.f.Close()
	}
	out.Final, out.IndexOK = readFinal(w)
	return out
}
