// conc-race: the race-instrumented helper of property C08.
//
// Built with `go build -race -tags verif ./concrace` by harness/k_conc.go.  It reads one JSON
// workload per line on stdin, runs it against the real library with real goroutines and prints
// one JSON result per line on stdout.  Around each workload it writes `@@BEGIN <n>` / `@@END <n>`
// to stderr (unbuffered), so that the parent can attribute the race detector's reports (which the
// runtime writes to fd 2) to the workload that was running.
package main

import (
	"bufio"
	"encoding/json"
	"fmt"
	"os"
	"runtime/pprof"
	"time"
)

// line protocol parent -> helper
type opJ struct {
	T   int   `json:"t"`   // goroutine number
	K   int   `json:"k"`   // kind
	Ids []int `json:"ids"` // block ids
	P   int   `json:"p"`   // phase
}

type workJ struct {
	N     int    `json:"n"`
	Store int    `json:"store"`
	V1    int    `json:"v1"`
	Path  string `json:"path"`
	Ops   []opJ  `json:"ops"`
	// store 2 only: OnPut callbacks registered before any goroutine starts (1 = once-only, 0 = persistent)
	Cbs []int `json:"cbs,omitempty"`
}

// line protocol helper -> parent
type resJ struct {
	K string   `json:"k"` // ok | okn | okl | err | panic
	N uint64   `json:"n,omitempty"`
	L []uint64 `json:"l,omitempty"`
	C string   `json:"c,omitempty"`
}

type outJ struct {
	N       int         `json:"n"`
	Res     []resJ      `json:"res"`
	Hist    [][2]uint64 `json:"hist"`
	Final   []uint64    `json:"final"`
	IndexOK int         `json:"indexok"`
	Crashed int         `json:"crashed"`
	Msg     string      `json:"msg,omitempty"`
	Cb      []uint64    `json:"cb"` // invocations of each registered callback
}

const watchdogTimeout = 10 * time.Second

func marker(format string, a ...interface{}) {
	// os.Stderr is unbuffered: one write system call per marker
	os.Stderr.WriteString(fmt.Sprintf(format, a...))
}

func main() {
	if !raceBuild && os.Getenv("CONC_ALLOW_NORACE") == "" {
		fmt.Fprintln(os.Stderr, "conc-race: built without -race")
		os.Exit(2)
	}
	in := bufio.NewReaderSize(os.Stdin, 1<<20)
	out := bufio.NewWriter(os.Stdout)
	for {
		line, err := in.ReadBytes('\n')
		if len(line) > 1 {
			var w workJ
			if jerr := json.Unmarshal(line, &w); jerr != nil {
				fmt.Fprintln(os.Stderr, "conc-race: bad workload line:", jerr)
				os.Exit(2)
			}
			n := w.N
			marker("@@BEGIN %d\n", n)
			dog := time.AfterFunc(watchdogTimeout, func() {
				marker("@@HANG %d\n", n)
				pprof.Lookup("goroutine").WriteTo(os.Stderr, 1)
				os.Exit(3)
			})
			res := runWorkload(&w)
			dog.Stop()
			marker("@@END %d\n", n)
			b, _ := json.Marshal(res)
			out.Write(b)
			out.WriteByte('\n')
			out.Flush()
		}
		if err != nil {
			break
		}
	}
}
