//go:build !race

package main

func raceSyncOff() {}
func raceSyncOn()  {}

const raceBuild = false
