//go:build race

package main

import "runtime"

// The history counter must not look like synchronisation to the race detector: an atomic
// read-modify-write is an acquire+release on its address, so ticking a shared counter around
// every library call would order any two calls that do not overlap in the recorded history and
// hide races between them.  RaceDisable makes the detector ignore the synchronisation events of
// the current goroutine until RaceEnable (same device as sync.Pool uses for its internals).
func raceSyncOff() { runtime.RaceDisable() }
func raceSyncOn()  { runtime.RaceEnable() }

const raceBuild = true
