package main

import (
	"bytes"
	"context"
	"encoding/binary"
	"io"
	"os"
	"path/filepath"
	"sort"
	"strings"

	blocks "github.com/ipfs/go-block-format"
	"github.com/ipfs/go-cid"
	carv2 "github.com/ipld/go-car/v2"
	"github.com/ipld/go-car/v2/blockstore"
	"github.com/ipld/go-car/v2/index"
	"github.com/ipld/go-car/v2/storage"
	"github.com/multiformats/go-multicodec"
	mh "github.com/multiformats/go-multihash"
	"github.com/multiformats/go-varint"
)

// kind "ro": read-only random access (see coq/theories/RunRo.v for the wire format).
// front: 0 blockstore.NewReadOnly / OpenReadOnly, 1 storage.OpenReadable

type c07Opts struct {
	whole, storeID, zeof bool
	maxH, maxS, maxCid   uint64
	codec                uint64
}

var c07DefaultOpts = c07Opts{maxH: 32 << 20, maxS: 8 << 20, maxCid: 2048, codec: 0x0401}

func (o c07Opts) val() Val {
	return VL{vbool(o.whole), vbool(o.storeID), vbool(o.zeof), VN(o.maxH), VN(o.maxS), VN(o.maxCid), VN(o.codec)}
}
func c07OptsFromVal(v Val) c07Opts {
	l := v.(VL)
	n := func(i int) uint64 { return uint64(l[i].(VN)) }
	return c07Opts{n(0) != 0, n(1) != 0, n(2) != 0, n(3), n(4), n(5), n(6)}
}
func (o c07Opts) v2() []carv2.Option {
	return []carv2.Option{
		carv2.UseWholeCIDs(o.whole), carv2.StoreIdentityCIDs(o.storeID), carv2.ZeroLengthSectionAsEOF(o.zeof),
		carv2.MaxAllowedHeaderSize(o.maxH), carv2.MaxAllowedSectionSize(o.maxS),
		carv2.MaxIndexCidSize(o.maxCid), carv2.UseIndexCodec(multicodec.Code(o.codec)),
	}
}

// c07ReaderAtOnly hides every optional interface of the backing.
type c07ReaderAtOnly struct{ r io.ReaderAt }

func (p c07ReaderAtOnly) ReadAt(b []byte, off int64) (int, error) { return p.r.ReadAt(b, off) }

// backing kinds: 0 *bytes.Reader, 1 ReaderAt only, 2 *os.File, 3 path through OpenReadOnly (mmap; blockstore only)
func c07Backing(c *Ctx, kind int, file []byte) (io.ReaderAt, string, func()) {
	switch kind {
	case 1:
		return c07ReaderAtOnly{bytes.NewReader(file)}, "", func() {}
	case 2, 3:
		p := filepath.Join(c.Work, "ro.car")
		if err := os.WriteFile(p, file, 0o644); err != nil {
			panic(err)
		}
		if kind == 3 {
			return nil, p, func() { os.Remove(p) }
		}
		f, err := os.Open(p)
		if err != nil {
			panic(err)
		}
		return f, "", func() { f.Close(); os.Remove(p) }
	default:
		return bytes.NewReader(file), "", func() {}
	}
}

// c07BackingUnchanged: the bytes behind the store are still the archive that was opened.
func c07BackingUnchanged(ra io.ReaderAt, path string, file []byte) bool {
	if path != "" {
		b, err := os.ReadFile(path)
		return err == nil && bytes.Equal(b, file)
	}
	if f, ok := ra.(*os.File); ok {
		b, err := os.ReadFile(f.Name())
		return err == nil && bytes.Equal(b, file)
	}
	buf := make([]byte, len(file)+1)
	n, _ := ra.ReadAt(buf, 0)
	return bytes.Equal(buf[:n], file)
}

func c07KeyFromVal(q Val) (cid.Cid, []byte) {
	kb := []byte(q.(VL)[1].(VB))
	c, err := cid.Cast(kb)
	if err != nil {
		panic("harness: query key is not a CID")
	}
	return c, kb
}

// c07RunImpl opens the archive and answers the queries with the real library.
func c07RunImpl(c *Ctx, front uint64, o c07Opts, file []byte, supplied Val, queries VL, backing int) Val {
	if front == 2 { // both front-ends on the same file (the storage one has no index parameter)
		b2 := backing
		if b2 == 3 {
			b2 = 2
		}
		return VL{VT("both"), c07RunImpl(c, 0, o, file, supplied, queries, backing), c07RunImpl(c, 1, o, file, VT("none"), queries, b2)}
	}
	ctx := context.Background()
	var sidx index.Index
	if l, ok := supplied.(VL); ok && len(l) == 2 { // (tidx bytes): a hand-crafted index section
		var err error
		sidx, err = index.ReadFrom(bytes.NewReader([]byte(l[1].(VB))))
		if err != nil {
			return VL{VT("generr"), verr(err)}
		}
	} else if ok && len(l) == 3 {
		g := c07OptsFromVal(l[1])
		var err error
		sidx, err = carv2.GenerateIndex(bytes.NewReader([]byte(l[2].(VB))), g.v2()...)
		if err != nil {
			return VL{VT("generr"), verr(err)}
		}
	}
	ra, path, done := c07Backing(c, backing, file)
	defer done()
	out := VL{}
	if front == 0 {
		var bs *blockstore.ReadOnly
		var err error
		if path != "" && sidx == nil {
			bs, err = blockstore.OpenReadOnly(path, o.v2()...)
		} else {
			if ra == nil {
				ra = bytes.NewReader(file)
			}
			bs, err = blockstore.NewReadOnly(ra, sidx, o.v2()...)
		}
		if err != nil {
			return VL{VT("openerr"), verr(err)}
		}
		defer bs.Close()
		for _, q := range queries {
			switch q.(VL)[0].(VT) {
			case "has":
				k, _ := c07KeyFromVal(q)
				b, err := bs.Has(ctx, k)
				if err != nil {
					out = append(out, outErr(err))
				} else {
					out = append(out, VL{VT("bool"), vbool(b)})
				}
			case "get":
				k, _ := c07KeyFromVal(q)
				b, err := bs.Get(ctx, k)
				if err != nil {
					out = append(out, outErr(err))
				} else {
					out = append(out, VL{VT("bytes"), VB(b.RawData())})
				}
			case "getsize":
				k, _ := c07KeyFromVal(q)
				n, err := bs.GetSize(ctx, k)
				if err != nil {
					out = append(out, outErr(err))
				} else {
					out = append(out, outSize(n))
				}
			case "keys":
				var asyncErr error
				reported := false
				kctx := blockstore.WithAsyncErrorHandler(ctx, func(e error) { asyncErr = e; reported = true })
				ch, err := bs.AllKeysChan(kctx)
				if err != nil {
					out = append(out, VL{VT("keyserr"), verr(err)})
					continue
				}
				ks := VL{}
				for k := range ch {
					ks = append(ks, VB(k.Bytes()))
				}
				end := Val(VT("nil"))
				if reported {
					end = verr(asyncErr)
				}
				out = append(out, VL{VT("keys"), ks, end})
			case "roots":
				rs, err := bs.Roots()
				if err != nil {
					out = append(out, outErr(err))
				} else {
					out = append(out, VL{VT("keys"), cidsVal(rs)})
				}
			case "close":
				out = append(out, outOf(bs.Close()))
			case "put", "putmany", "delete":
				var err error
				switch q.(VL)[0].(VT) {
				case "put":
					k, _ := c07KeyFromVal(q)
					blk, _ := blocks.NewBlockWithCid([]byte(q.(VL)[2].(VB)), k)
					err = bs.Put(ctx, blk)
				case "putmany":
					var blks []blocks.Block
					for _, e := range q.(VL)[1].(VL) {
						k, _ := c07KeyFromVal(VL{VT("k"), e.(VL)[0]})
						blk, _ := blocks.NewBlockWithCid([]byte(e.(VL)[1].(VB)), k)
						blks = append(blks, blk)
					}
					err = bs.PutMany(ctx, blks)
				default:
					k, _ := c07KeyFromVal(q)
					err = bs.DeleteBlock(ctx, k)
				}
				class := "nil"
				if err != nil {
					class = errClass(err)
					if strings.Contains(err.Error(), "called write method on a read-only carv2 blockstore") {
						class = "readonly"
					}
				}
				out = append(out, VL{VT("err"), VT(class), vbool(c07BackingUnchanged(ra, path, file))})
			case "hashonread":
				bs.HashOnRead(q.(VL)[1].(VN) != 0)
				out = append(out, outNil())
			case "idxgetall":
				k, _ := c07KeyFromVal(q)
				offs := VL{}
				err := bs.Index().GetAll(k, func(o uint64) bool { offs = append(offs, VN(o)); return true })
				if err != nil {
					out = append(out, outErr(err))
				} else {
					out = append(out, VL{VT("offs"), offs})
				}
			default:
				panic("harness: unknown ro query")
			}
		}
		return VL{VT("ok"), out}
	}
	if ra == nil {
		ra = bytes.NewReader(file)
	}
	sc, err := storage.OpenReadable(ra, o.v2()...)
	if err != nil {
		return VL{VT("openerr"), verr(err)}
	}
	for i, q := range queries {
		switch q.(VL)[0].(VT) {
		case "has":
			_, kb := c07KeyFromVal(q)
			b, err := sc.Has(ctx, string(kb))
			if err != nil {
				out = append(out, outErr(err))
			} else {
				out = append(out, VL{VT("bool"), vbool(b)})
			}
		case "get":
			_, kb := c07KeyFromVal(q)
			var data []byte
			var err error
			if i%2 == 0 {
				data, err = sc.Get(ctx, string(kb))
			} else {
				var rc io.ReadCloser
				rc, err = sc.GetStream(ctx, string(kb))
				if err == nil {
					data, err = io.ReadAll(rc)
				}
			}
			if err != nil {
				out = append(out, outErr(err))
			} else {
				out = append(out, VL{VT("bytes"), VB(data)})
			}
		case "roots":
			out = append(out, VL{VT("keys"), cidsVal(sc.Roots())})
		default:
			panic("harness: query not supported by the storage front-end")
		}
	}
	return VL{VT("ok"), out}
}

// ---- independent construction of index bytes (what index.WriteTo emits for an index generated
// from the payload): used for embedded indexes so that a valid archive does not depend on the
// library's own generator.
type c07RefRec struct {
	code   uint64
	digest []byte
	off    uint64
}

func c07RefRecords(roots []cid.Cid, blks []Blk, withID bool) []c07RefRec {
	pos := uint64(len(refPayload(roots, nil)))
	var out []c07RefRec
	for _, b := range blks {
		dm, err := mh.Decode(b.Cid.Hash())
		if err != nil {
			panic(err)
		}
		if withID || dm.Code != mh.IDENTITY {
			out = append(out, c07RefRec{dm.Code, dm.Digest, pos})
		}
		sl := uint64(b.Cid.ByteLen() + len(b.Data))
		pos += uint64(varint.UvarintSize(sl)) + sl
	}
	return out
}

func c07RefMultiWidth(recs []c07RefRec) []byte {
	byW := map[int][]c07RefRec{}
	for _, r := range recs {
		byW[len(r.digest)] = append(byW[len(r.digest)], r)
	}
	var ws []int
	for w := range byW {
		ws = append(ws, w)
	}
	sort.Ints(ws)
	var buf bytes.Buffer
	binary.Write(&buf, binary.LittleEndian, int32(len(ws)))
	for _, w := range ws {
		l := byW[w]
		sort.SliceStable(l, func(i, j int) bool { return bytes.Compare(l[i].digest, l[j].digest) < 0 })
		binary.Write(&buf, binary.LittleEndian, uint32(w+8))
		binary.Write(&buf, binary.LittleEndian, int64(len(l)*(w+8)))
		for _, r := range l {
			buf.Write(r.digest)
			binary.Write(&buf, binary.LittleEndian, r.off)
		}
	}
	return buf.Bytes()
}

func c07RefIndexBytes(codec uint64, recs []c07RefRec) []byte {
	var buf bytes.Buffer
	buf.Write(varint.ToUvarint(codec))
	if codec == 0x0400 {
		buf.Write(c07RefMultiWidth(recs))
		return buf.Bytes()
	}
	byC := map[uint64][]c07RefRec{}
	for _, r := range recs {
		byC[r.code] = append(byC[r.code], r)
	}
	var cs []uint64
	for k := range byC {
		cs = append(cs, k)
	}
	sort.Slice(cs, func(i, j int) bool { return cs[i] < cs[j] })
	binary.Write(&buf, binary.LittleEndian, int32(len(cs)))
	for _, k := range cs {
		binary.Write(&buf, binary.LittleEndian, k)
		buf.Write(c07RefMultiWidth(byC[k]))
	}
	return buf.Bytes()
}

// c07V2File assembles a CARv2: pragma, header, data padding, payload, index padding, index bytes.
func c07V2File(payload []byte, dpad, ipad uint64, idx []byte, fullyIndexed bool) []byte {
	var buf bytes.Buffer
	buf.Write(carv2.Pragma)
	h := carv2.NewHeader(uint64(len(payload))).WithDataPadding(dpad).WithIndexPadding(ipad)
	if idx == nil {
		h.IndexOffset = 0
	}
	h.Characteristics.SetFullyIndexed(fullyIndexed)
	h.WriteTo(&buf)
	buf.Write(make([]byte, dpad))
	buf.Write(payload)
	buf.Write(make([]byte, ipad))
	buf.Write(idx)
	return buf.Bytes()
}

// header-oracle entries for every header the open path can read in file (outer, inner payload)
func c07HdrTable(files ...[]byte) Val {
	out := VL{}
	for _, f := range files {
		_, hdrs := scanTables(f)
		out = append(out, hdrs.(VL)...)
	}
	return out
}

func init() {
	registerReplay("ro", func(c *Ctx, in Val) Val {
		l := in.(VL)
		backing := 0
		for _, q := range l[4].(VL) { // Close closing the backing too: the case was run through OpenReadOnly
			if ql := q.(VL); ql[0].(VT) == "close" && ql[1].(VN) == 1 {
				backing = 3
			}
		}
		return c07RunImpl(c, uint64(l[0].(VN)), c07OptsFromVal(l[1]), []byte(l[2].(VB)), l[3], l[4].(VL), backing)
	})
}
