package main

// C18: `car create` followed by `car extract` reproduces the file tree, and the archive's single
// root is the CID `car root` prints.
//
// Every case: a source tree is written below /SB/src, packed by the real binary
// (--version 1|2, wrapped or --no-wrap), the archive's header is read independently, and the archive
// is extracted by the real binary into the empty directory /SB/out (from -f, from a regular file on
// stdin, from a pipe on stdin); the whole sandbox is snapshotted.

import (
	"bytes"
	"crypto/sha256"
	"io"
	"os"
	"path"
	"sort"

	"github.com/ipfs/go-unixfsnode/data/builder"
	"github.com/ipld/go-ipld-prime"
	cidlink "github.com/ipld/go-ipld-prime/linking/cid"
)

// rootBlockOf writes the tree t to a scratch directory and returns the bytes of the root block
// that `car create`'s builder (go-unixfsnode BuildUnixFSRecursive) makes for it: the dag-pb node
// of a directory, of a symlink, of a multi-chunk file; the raw leaf of a small file.
func rootBlockOf(c *Ctx, t *stree) []byte {
	dir, err := os.MkdirTemp(c.Work, "blk")
	if err != nil {
		panic(err)
	}
	defer os.RemoveAll(dir)
	var write func(p string, t *stree)
	write = func(p string, t *stree) {
		var err error
		switch t.kind {
		case 'f':
			err = os.WriteFile(p, t.data, 0o644)
		case 'l':
			err = os.Symlink(string(t.data), p)
		default:
			err = os.Mkdir(p, 0o755)
			for _, e := range t.ents {
				write(p+"/"+string(e.name), e.t)
			}
		}
		if err != nil {
			panic(err)
		}
	}
	write(dir+"/x", t)
	store := map[string][]byte{}
	ls := cidlink.DefaultLinkSystem()
	ls.TrustedStorage = true
	ls.StorageWriteOpener = func(_ ipld.LinkContext) (io.Writer, ipld.BlockWriteCommitter, error) {
		buf := bytes.NewBuffer(nil)
		return buf, func(l ipld.Link) error {
			store[l.Binary()] = append([]byte(nil), buf.Bytes()...)
			return nil
		}, nil
	}
	ls.StorageReadOpener = func(_ ipld.LinkContext, l ipld.Link) (io.Reader, error) {
		return bytes.NewReader(store[l.Binary()]), nil
	}
	lnk, _, err := builder.BuildUnixFSRecursive(dir+"/x", &ls)
	if err != nil {
		panic(err)
	}
	return store[lnk.Binary()]
}

type stree struct {
	kind byte // 'f' file, 'l' symlink, 'd' directory
	data []byte
	seed  uint64 // contents longer than 64 bytes: data = contentOf(seed, size, ztail, rep, explicit)
	size  int
	ztail int // trailing zero bytes
	rep   int // > 0: one random 256 KiB chunk repeated
	zhead int // leading zero bytes
	ents []sent
}
type sent struct {
	name []byte
	t    *stree
}

var c18Names = []string{"a", "b", "c", "file.txt", ".hidden", "a.b.c", "...", "..x", "-rf", "with space", "tab\there",
	"new\nline", "\xc3\xbc", "\xe6\x97\xa5\xe6\x9c\xac\xe8\xaa\x9e", "\xf0\x9f\x98\x80", "unknown", "out", "a\\b", "*", "?", "%20", "~", "#",
	"d", "dir", "x.y", "UPPER", "upper", "0", "\xc3\xa9", "e\xcc\x81"}

var c18Targets = []string{"a", "../x", "/SB/out", "/nonexistent-verif-c18", "./b/", "dangling", " ", ".", "..", "/SB/src", "\xc3\xbc/\xe6\x97\xa5"}

type c18gen struct {
	r       *RNG
	c       *Ctx
	recipes VL
	last    *stree // previous regular file (for duplicates)
	spell   int    // spelling of the source argument (directory sources only), see c18Spellings
	multi   bool   // pass every top-level entry of the tree as its own source argument
	outv    int    // > 0: spelling of the output location, see c18Outputs
	nodes   int
	feat    map[string]bool
	maxDep  int
}

func (g *c18gen) content() (data []byte, seed uint64, size int) {
	r := g.r
	k := r.Intn(100)
	switch {
	case k < 10:
		size = 0
	case k < 20:
		size = 1
	case k < 70:
		size = 2 + r.Intn(60)
	case k < 85:
		size = 1000 + r.Intn(4000)
	case k < 89:
		// section (CID + data) of 127/128, 4095/4096, 8191/8192, 16383/16384, 65535/65536 bytes +-2
		size = pick(r, c18SectionSizes)
		g.feat["section-boundary-file"] = true
	case k < 93:
		size = pick(r, []int{262143, 262144, 262145})
		g.feat["chunk-boundary-file"] = true
	default:
		size = 300000 + r.Intn(400000)
		g.feat["multi-chunk-file"] = true
		if g.c.Thorough && r.Chance(30) {
			size = pick(r, []int{1048576, 1048577, 3 * 1048576, 5*262144 + 17})
		}
	}
	seed = r.U64()
	return bigFileData(seed, size), seed, size
}

func (g *c18gen) name(used map[string]bool) []byte {
	r := g.r
	for {
		var n string
		switch {
		case r.Chance(45):
			n = pick(r, c18Names)
		case r.Chance(4):
			n = string(bytes.Repeat([]byte("L"), pick(r, []int{254, 255})))
		default:
			n = "n" + string(rune('a'+r.Intn(26))) + string(rune('a'+r.Intn(26)))
		}
		if !used[n] {
			used[n] = true
			if len(n) > 200 || n[0] == '-' || bytes.ContainsAny([]byte(n), "\n\t\\*? ") || n[0] >= 0x80 {
				g.feat["unusual-name"] = true
			}
			return []byte(n)
		}
	}
}

func (g *c18gen) tree(depth int, forceDir bool) *stree {
	r := g.r
	g.nodes++
	k := r.Intn(100)
	switch {
	case forceDir || (k < 30 && depth < g.maxDep):
		n := r.Intn(7)
		if depth == 0 && n < 2 {
			n = 2 + r.Intn(4)
		}
		t := &stree{kind: 'd'}
		used := map[string]bool{}
		for i := 0; i < n; i++ {
			nm := g.name(used)
			t.ents = append(t.ents, sent{nm, g.tree(depth+1, false)})
		}
		if depth >= 2 {
			g.feat["nesting"] = true
		}
		if n == 0 {
			g.feat["empty-dir"] = true
		}
		return t
	case k < 45:
		g.feat["symlink"] = true
		return &stree{kind: 'l', data: []byte(pick(r, c18Targets))}
	default:
		if g.last != nil && r.Chance(8) {
			g.feat["duplicate-file"] = true
			cp := *g.last
			return &cp
		}
		if r.Chance(6) {
			g.feat["zero-blocks"] = true
			size := pick(r, []int{32768, 65536, 40000, 98304, 1})
			zt := size
			seed := uint64(0)
			if r.Bool() && size > 1 {
				// random head, the last 32 KiB-aligned block(s) zero
				zt = 32768 * (1 + r.Intn(2))
				size = zt + pick(r, []int{32768, 65536, 10})
				if size%32768 != 0 {
					size = 65536
					zt = 65536 - 10
				}
				seed = r.U64() | 1
			}
			t := &stree{kind: 'f', seed: seed, size: size, ztail: zt}
			t.data = contentOf(seed, size, zt, 0, nil)
			g.last = t
			return t
		}
		d, seed, size := g.content()
		t := &stree{kind: 'f', data: d, seed: seed | 1, size: size}
		t.data = contentOf(t.seed, size, 0, 0, nil)
		g.last = t
		return t
	}
}

// fs entries (parents first) for a tree rooted at path p, and the utree value the walk will see
func (g *c18gen) emitTree(t *stree, p VL, fs *VL) Val {
	switch t.kind {
	case 'f':
		d := absData(t.data)
		if len(t.data) > 64 {
			if t.seed == 0 && t.ztail == 0 && t.rep == 0 && t.zhead == 0 {
				g.recipes = append(g.recipes, VL{VB(d), VN(0), VN(uint64(len(t.data))), VN(0), VN(0), VB(t.data)})
			} else {
				g.recipes = append(g.recipes, VL{VB(d), VN(t.seed), VN(uint64(t.size)), VN(uint64(t.ztail)), VN(uint64(t.rep)), VB(nil), VN(uint64(t.zhead))})
			}
		}
		*fs = append(*fs, VL{p, VL{VT("f"), VB(d)}})
		return VL{VT("f"), VB(d)}
	case 'l':
		*fs = append(*fs, VL{p, VL{VT("l"), VB(t.data)}})
		return VL{VT("l"), VB(t.data)}
	default:
		*fs = append(*fs, VL{p, VL{VT("d")}})
		ents := append([]sent{}, t.ents...)
		sort.Slice(ents, func(i, j int) bool { return bytes.Compare(ents[i].name, ents[j].name) < 0 })
		out := VL{}
		for _, e := range ents {
			cp := append(append(VL{}, p...), VB(e.name))
			out = append(out, VL{VB(e.name), g.emitTree(e.t, cp, fs)})
		}
		return VL{VT("d"), out}
	}
}

// single-chunk file sizes whose CAR section (36-byte CID + data) straddles a length-varint width
// boundary (128, 16384) or a power of two a writer might buffer by (4096, 8192, 65536)
var c18SectionSizes = func() []int {
	var out []int
	for _, b := range []int{128, 4096, 8192, 16384, 65536} {
		for d := -2; d <= 2; d++ {
			out = append(out, b-36+d)
		}
	}
	return out
}()

// padDirTo builds a directory of small files whose dag-pb node (as car create's builder encodes it)
// is exactly target bytes long
func padDirTo(c *Ctx, target int) *stree {
	t := &stree{kind: 'd'}
	name := func(i, n int) []byte {
		return append([]byte{'p', byte('a' + i%26), byte('a' + i/26%26)}, bytes.Repeat([]byte("x"), n)...)
	}
	for i := 0; ; i++ {
		t.ents = append(t.ents, sent{name(i, 197), &stree{kind: 'f', data: []byte{byte(i), 'z'}}})
		if n := len(rootBlockOf(c, t)); n > target-300 {
			break
		}
	}
	last := len(t.ents) - 1
	t.ents[last].name = name(last, 0)
	for k := 0; k < 6; k++ {
		n := len(rootBlockOf(c, t))
		if n == target {
			return t
		}
		l := len(t.ents[last].name) - 3 + (target - n)
		if l < 0 || l > 250 {
			// spread over one more entry
			t.ents = append(t.ents, sent{name(last+1, 0), &stree{kind: 'f', data: []byte{byte(last + 1), 'y'}}})
			last++
			continue
		}
		t.ents[last].name = name(last, l)
	}
	return t
}

// spellings of the source argument "src/<top>" of `car create`; the wrapping entry is named
// path.Base(argument) by the tool, which is <top> for all of them except "src/<top>/." (".": the
// contents then land directly in the output directory, as with --no-wrap)
var c18Spellings = []string{"src/%", "/SB/src/%", "src/%/", "./src/%", "src//%", "src/../src/%", "/SB/src/%/", "./src/%//", "src/./%", "src/%/."}

// where the archive is extracted to: /SB/out, named directly, through a symlink to it (relative and
// absolute link), below a symlinked parent, with dot-dot through a link, or not named at all: the
// tool then extracts into its working directory, entered through its logical ($PWD) path
type c18Output struct {
	arg   string
	noArg bool
}

var c18Outputs = []c18Output{{"out", false}, {"/SB/out", false}, {"olnk", false}, {"/SB/olnk", false}, {"plnk/out", false},
	{"/SB/plnk/out", false}, {"alnk", false}, {"olnk/", false}, {"plnk/olnk/../out", false},
	{"/SB/olnk", true}, {"/SB/plnk/out", true}, {"/SB/out", true}, {"/SB/alnk", true}}

func c18Case(c *Ctx, g *c18gen, top []byte, t *stree, version uint64, nowrap bool, mode uint64, absSrc, absOut bool, label string) {
	fs := VL{fsDir(), fsDir("src"), fsDir("out"), fsLink("out", "olnk"), fsLink("/SB/out", "alnk"), fsLink(".", "plnk")}
	srcPath := VL{VB(sbName), VB([]byte("src")), VB(top)}
	g.recipes = VL{}
	u := g.emitTree(t, srcPath, &fs)
	var roots VL
	var dst Val
	outP := VL{VB(sbName), VB([]byte("out"))}
	if nowrap {
		roots = VL{VL{VT("n"), u}}
		switch {
		case t.kind == 'd':
			dst = outP
		case t.kind == 'f' && len(t.data) > 262144:
			dst = append(append(VL{}, outP...), VB([]byte("unknown")))
		case t.kind == 'f':
			// a file of at most one chunk is a single raw block: the root has the raw codec and
			// `car extract` skips raw roots
			roots = VL{VL{VT("raw")}}
			dst = VL{VT("skip"), outP}
		default:
			dst = VL{VT("skip"), outP}
		}
	} else {
		roots = VL{VL{VT("n"), VL{VT("d"), VL{VL{VB(top), u}}}}}
		dst = append(append(VL{}, outP...), VB(top))
	}
	srcArg := append([]byte("src/"), top...)
	if absSrc {
		srcArg = append([]byte("/SB/src/"), top...)
	}
	var srcArgV Val = VB(srcArg)
	if t.kind == 'd' && g.spell > 0 && !g.multi {
		sp := c18Spellings[g.spell%len(c18Spellings)]
		srcArg = bytes.Replace([]byte(sp), []byte("%"), top, 1)
		srcArgV = VB(srcArg)
		c.Count("source-spelling:" + sp)
		if !nowrap {
			if nm := path.Base(string(srcArg)); nm != string(top) {
				// "src/<top>/.": the entry is named "."
				roots = VL{VL{VT("n"), VL{VT("d"), VL{VL{VB([]byte(nm)), u}}}}}
				dst = outP
			}
		}
	}
	if g.multi && t.kind == 'd' && !nowrap && len(t.ents) > 0 {
		// every top-level entry is a source of its own: the archive's root lists them all
		srcPath = VL{VB(sbName), VB([]byte("src")), VB(top)}
		args := VL{}
		ents := append([]sent{}, t.ents...)
		// (argument order is not name order)
		for i := len(ents) - 1; i >= 0; i-- {
			a := append(append([]byte("src/"), top...), '/')
			a = append(a, ents[i].name...)
			if ents[i].t.kind == 'd' && i%2 == 0 {
				a = append(a, '/')
			}
			args = append(args, VB(a))
		}
		srcArgV = args
		roots = VL{VL{VT("n"), u}}
		dst = outP
		c.Count("source-spelling:multiple-sources")
	}
	outdir := []byte("out")
	if absOut {
		outdir = []byte("/SB/out")
	}
	noArg := false
	cwdV := VL{VB(sbName)}
	if g.outv > 0 {
		o := c18Outputs[g.outv%len(c18Outputs)]
		outdir = []byte(o.arg)
		noArg = o.noArg
		c.Count("output-location:" + o.arg + map[bool]string{true: " (cwd, no argument)", false: ""}[noArg])
		if noArg {
			// the working directory of the extraction is the output directory; sources are then
			// named absolutely
			cwdV = VL{VB(sbName), VB([]byte("out"))}
			if a, ok := srcArgV.(VB); ok && !bytes.HasPrefix(a, []byte("/")) {
				srcArgV = VB(append([]byte("/SB/"), bytes.TrimPrefix(a, []byte("./"))...))
			} else if l, ok := srcArgV.(VL); ok {
				nl := VL{}
				for _, x := range l {
					nl = append(nl, VB(append([]byte("/SB/"), vb(x)...)))
				}
				srcArgV = nl
			}
		}
	}
	opts := VL{VN(version), vbool(nowrap), VN(mode), vbool(noArg)}
	in := VL{fs, cwdV, VB(outdir), VB(nil), roots, opts, VL{srcArgV, g.recipes}, srcPath, dst}
	obs := runCreateExtractCase(c, in)
	c.Count("kind:" + label)
	c.Count("version:" + string(rune('0'+version)))
	if nowrap {
		c.Count("no-wrap")
	}
	c.Count([]string{"mode:file", "mode:stdin-file", "mode:stdin-pipe"}[mode])
	c.Count("status:" + vt(vnth(vnth(obs, 0), 0)))
	for k := range g.feat {
		c.Count("feature:" + k)
	}
	switch {
	case g.nodes <= 5:
		c.Count("nodes:1-5")
	case g.nodes <= 20:
		c.Count("nodes:6-20")
	default:
		c.Count("nodes:21+")
	}
	c.Emit("createextract", in, obs, g.nodes >= 3 && len(g.feat) > 0)
}

func init() {
	_ = sha256.Sum256
	register("c18", func(c *Ctx) {
		r := c.R
		// ---- directed: one small fixed tree through the whole configuration matrix
		for _, version := range []uint64{1, 2} {
			for _, nowrap := range []bool{false, true} {
				for mode := uint64(0); mode < 3; mode++ {
					g := &c18gen{r: r.Fork(), c: c, feat: map[string]bool{"symlink": true, "nesting": true}, maxDep: 3}
					t := &stree{kind: 'd', ents: []sent{
						{[]byte("a.txt"), &stree{kind: 'f', data: []byte("hello")}},
						{[]byte("empty"), &stree{kind: 'f'}},
						{[]byte("sub"), &stree{kind: 'd', ents: []sent{
							{[]byte("deep"), &stree{kind: 'd', ents: []sent{{[]byte("x"), &stree{kind: 'f', data: []byte("x")}}, {[]byte("deeper-empty"), &stree{kind: 'd'}}}}},
							{[]byte("empty-in-sub"), &stree{kind: 'd', ents: []sent{{[]byte("only-an-empty-dir"), &stree{kind: 'd'}}}}},
							{[]byte("lnk"), &stree{kind: 'l', data: []byte("../a.txt")}},
						}}},
						{[]byte("emptydir"), &stree{kind: 'd'}},
					}}
					g.nodes = 11
					c18Case(c, g, []byte("top"), t, version, nowrap, mode, false, false, "directed:matrix")
				}
			}
		}
		// ---- spellings of the source argument (trailing separator, ./, //, dir/.., absolute, dir/.) and
		// several source arguments; the expected tree comes from the tool's documented rule
		// (entry named path.Base(argument))
		small := func() *stree {
			return &stree{kind: 'd', ents: []sent{
				{[]byte("p1.jpg"), &stree{kind: 'f', data: []byte("one")}},
				{[]byte("album"), &stree{kind: 'd', ents: []sent{{[]byte("p2.jpg"), &stree{kind: 'f', data: []byte("two")}}, {[]byte("empty"), &stree{kind: 'd'}}}}},
				{[]byte("latest"), &stree{kind: 'l', data: []byte("album/p2.jpg")}},
				{[]byte("nothing-here"), &stree{kind: 'd'}},
			}}
		}
		for sp := 1; sp < len(c18Spellings); sp++ {
			for _, nowrap := range []bool{false, true} {
				g := &c18gen{r: r.Fork(), c: c, feat: map[string]bool{"source-spelling": true, "empty-dir": true, "symlink": true}, maxDep: 3, spell: sp}
				g.nodes = 7
				c18Case(c, g, []byte("photos"), small(), 1+uint64(sp%2), nowrap, uint64(sp%3), false, sp%2 == 0, "directed:source-spelling")
			}
		}
		for ov := 2; ov < len(c18Outputs); ov++ {
			g := &c18gen{r: r.Fork(), c: c, feat: map[string]bool{"output-through-symlink": true, "empty-dir": true, "symlink": true}, maxDep: 3, outv: ov}
			g.nodes = 7
			c18Case(c, g, []byte("photos"), small(), 1+uint64(ov%2), ov%3 == 0, uint64(ov%3), false, false, "directed:output-location")
		}
		for k := 0; k < 3; k++ {
			g := &c18gen{r: r.Fork(), c: c, feat: map[string]bool{"multiple-sources": true, "empty-dir": true, "symlink": true}, maxDep: 3, multi: true}
			g.nodes = 7
			c18Case(c, g, []byte("photos"), small(), 1+uint64(k%2), false, uint64(k), false, false, "directed:multiple-sources")
		}
		// the Coq example rt_tree (proofs/ExtractFsRoundTrip.v): a:"hi", d/{l -> ../a, a:""}
		for mode := uint64(0); mode < 3; mode++ {
			g := &c18gen{r: r.Fork(), c: c, feat: map[string]bool{"symlink": true}, maxDep: 3}
			t := &stree{kind: 'd', ents: []sent{
				{[]byte("a"), &stree{kind: 'f', data: []byte("hi")}},
				{[]byte("d"), &stree{kind: 'd', ents: []sent{
					{[]byte("l"), &stree{kind: 'l', data: []byte("../a")}},
					{[]byte("a"), &stree{kind: 'f'}},
				}}},
			}}
			g.nodes = 5
			c18Case(c, g, []byte("t"), t, 2, true, mode, false, true, "directed:coq-example")
		}
		// ---- equal multihash under different codecs / repeated blocks: `car create` stores one block
		// per multihash, the extractor must find it whatever the codec of the link it follows.
		// Files whose bytes are the dag-pb encoding of another node of the same tree (the empty
		// directory, a small directory, a multi-chunk file's root, a symlink node), on both sides of
		// that node in name order; identical files; several empty files; a file of one repeated chunk.
		{
			mk := func() (*stree, int) {
				fileOf := func(b []byte) *stree { return &stree{kind: 'f', data: append([]byte(nil), b...)} }
				empty := &stree{kind: 'd'}
				sub := &stree{kind: 'd', ents: []sent{
					{[]byte("a"), fileOf([]byte("hello"))},
					{[]byte("l"), &stree{kind: 'l', data: []byte("x")}},
				}}
				big := &stree{kind: 'f', seed: 4242, size: 300000}
				big.data = contentOf(big.seed, big.size, 0, 0, nil)
				lnk := &stree{kind: 'l', data: []byte("somewhere/else")}
				rep := &stree{kind: 'f', seed: 99, size: 3 * 262144, rep: 1}
				rep.data = contentOf(rep.seed, rep.size, 0, rep.rep, nil)
				bEmpty := rootBlockOf(c, empty) // 0a 02 08 01
				bSub := rootBlockOf(c, sub)
				bBig := rootBlockOf(c, big)
				bLnk := rootBlockOf(c, lnk)
				dupBig := *big
				t := &stree{kind: 'd', ents: []sent{
					{[]byte("a-emptydir-bytes"), fileOf(bEmpty)}, {[]byte("emptydir"), empty}, {[]byte("z-emptydir-bytes"), fileOf(bEmpty)},
					{[]byte("a-sub-bytes"), fileOf(bSub)}, {[]byte("sub"), sub}, {[]byte("z-sub-bytes"), fileOf(bSub)},
					{[]byte("a-big-bytes"), fileOf(bBig)}, {[]byte("big"), big}, {[]byte("z-big-bytes"), fileOf(bBig)},
					{[]byte("a-lnk-bytes"), fileOf(bLnk)}, {[]byte("lnk"), lnk}, {[]byte("z-lnk-bytes"), fileOf(bLnk)},
					{[]byte("dup1"), fileOf([]byte("same content"))}, {[]byte("dup2"), fileOf([]byte("same content"))},
					{[]byte("dupbig"), &dupBig},
					{[]byte("e1"), fileOf(nil)}, {[]byte("e2"), fileOf(nil)}, {[]byte("e3"), fileOf(nil)},
					{[]byte("hello-again"), fileOf([]byte("hello"))},
					{[]byte("repeated-chunk"), rep},
				}}
				return t, 24
			}
			for _, version := range []uint64{1, 2} {
				for mode := uint64(0); mode < 3; mode++ {
					g := &c18gen{r: r.Fork(), c: c, feat: map[string]bool{"same-multihash-different-codec": true, "duplicate-file": true, "symlink": true, "multi-chunk-file": true}, maxDep: 3}
					t, n := mk()
					g.nodes = n
					c18Case(c, g, []byte("coll"), t, version, mode == 1, mode, false, false, "directed:same-multihash-across-codecs")
				}
			}
		}
		// ---- sections on varint-width and power-of-two boundaries: single-chunk files whose CID+data is
		// 126..130, 4094..4098, 8190..8194, 16382..16386, 65534..65538 bytes, and directories whose
		// dag-pb node is exactly 4059 / 4060 bytes (section 4095 / 4096)
		pd4059, pd4060 := padDirTo(c, 4059), padDirTo(c, 4060)
		if len(rootBlockOf(c, pd4059)) == 4059 && len(rootBlockOf(c, pd4060)) == 4060 {
			c.Count("directory-node-of-4059-and-4060-bytes")
		}
		for _, version := range []uint64{1, 2} {
			for _, mode := range []uint64{0, 2} {
				g := &c18gen{r: r.Fork(), c: c, feat: map[string]bool{"section-boundary-file": true}, maxDep: 3}
				t := &stree{kind: 'd'}
				for _, sz := range c18SectionSizes {
					f := &stree{kind: 'f', seed: g.r.U64() | 1, size: sz}
					f.data = contentOf(f.seed, sz, 0, 0, nil)
					t.ents = append(t.ents, sent{[]byte("f" + itoa(sz)), f})
				}
				t.ents = append(t.ents, sent{[]byte("dir-node-4059"), pd4059}, sent{[]byte("dir-node-4060"), pd4060})
				g.nodes = len(t.ents) + 40
				c18Case(c, g, []byte("sections"), t, version, mode == 2, mode, false, false, "directed:section-boundaries")
			}
		}
		// ---- zero-filled 32 KiB blocks: all-zero files and files ending in whole blocks of zeros must
		// come back with their full length
		for _, version := range []uint64{1, 2} {
			for _, mode := range []uint64{0, 2} {
				g := &c18gen{r: r.Fork(), c: c, feat: map[string]bool{"zero-blocks": true, "multi-chunk-file": true}, maxDep: 3}
				zf := func(seed uint64, size, zt int) *stree {
					t := &stree{kind: 'f', seed: seed, size: size, ztail: zt}
					t.data = contentOf(seed, size, zt, 0, nil)
					return t
				}
				t := &stree{kind: 'd', ents: []sent{
					{[]byte("zero-1"), zf(0, 1, 1)}, {[]byte("zero-32k"), zf(0, 32768, 32768)}, {[]byte("zero-64k"), zf(0, 65536, 65536)},
					{[]byte("zero-40000"), zf(0, 40000, 40000)}, {[]byte("zero-600000"), zf(0, 600000, 600000)},
					{[]byte("head-then-32k-zeros"), zf(11, 65536, 32768)}, {[]byte("ten-bytes-then-zeros"), zf(13, 65536, 65526)},
					{[]byte("multi-chunk-then-64k-zeros"), zf(17, 262144+65536, 65536)}, {[]byte("unaligned-zero-tail"), zf(19, 50000, 40000)},
					{[]byte("zeros-then-data"), func() *stree {
						t := &stree{kind: 'f', seed: 23, size: 98304, zhead: 65536}
						t.data = contentOf(t.seed, t.size, 0, 0, nil, t.zhead)
						return t
					}()},
				}}
				g.nodes = 11
				c18Case(c, g, []byte("zeros"), t, version, false, mode, false, false, "directed:zero-blocks")
			}
		}
		// lone file / lone symlink sources
		for _, nowrap := range []bool{false, true} {
			for _, k := range []byte{'f', 'l'} {
				g := &c18gen{r: r.Fork(), c: c, feat: map[string]bool{}, maxDep: 3}
				t := &stree{kind: k, data: []byte("target-or-content")}
				if k == 'f' && nowrap {
					t.seed = 77
					t.size = 262145
					t.data = contentOf(t.seed, t.size, 0, 0, nil)
				}
				g.nodes = 1
				c18Case(c, g, []byte("lone"), t, 1+uint64(r.Intn(2)), nowrap, 0, r.Bool(), r.Bool(), "directed:lone-"+string(k))
			}
		}
		// ---- random trees
		n := 12 * c.Scale
		for i := 0; i < n; i++ {
			g := &c18gen{r: r.Fork(), c: c, feat: map[string]bool{}, maxDep: 3}
			if c.Thorough {
				g.maxDep = 5
			}
			gr := g.r
			used := map[string]bool{}
			top := g.name(used)
			t := g.tree(0, gr.Chance(85))
			if t.kind == 'd' && gr.Chance(50) {
				// an empty directory somewhere (at a random depth)
				g.feat["empty-dir"] = true
				d := t
				for {
					var subs []*stree
					for _, e := range d.ents {
						if e.t.kind == 'd' && len(e.t.ents) > 0 {
							subs = append(subs, e.t)
						}
					}
					if len(subs) == 0 || gr.Chance(35) {
						break
					}
					d = pick(gr, subs)
				}
				nm := "empty-dir-here"
				ok := true
				for _, e := range d.ents {
					if string(e.name) == nm {
						ok = false
					}
				}
				if ok {
					d.ents = append(d.ents, sent{[]byte(nm), &stree{kind: 'd'}})
					g.nodes++
				}
			}
			if t.kind == 'd' && gr.Chance(40) {
				g.spell = 1 + gr.Intn(len(c18Spellings)-1)
				g.feat["source-spelling"] = true
			}
			if gr.Chance(35) {
				g.outv = 2 + gr.Intn(len(c18Outputs)-2)
				g.feat["output-through-symlink"] = true
			}
			if t.kind == 'd' && len(t.ents) > 0 && gr.Chance(12) {
				g.multi = true
				g.feat["multiple-sources"] = true
			}
			if t.kind == 'd' && gr.Chance(15) {
				// files whose bytes are the dag-pb node of a sibling (same multihash, other codec)
				g.feat["same-multihash-different-codec"] = true
				have := map[string]bool{}
				for _, e := range t.ents {
					have[string(e.name)] = true
				}
				add := func(n string, x *stree) {
					if !have[n] {
						have[n] = true
						t.ents = append(t.ents, sent{[]byte(n), x})
						g.nodes++
					}
				}
				ed := &stree{kind: 'd'}
				b := rootBlockOf(c, ed)
				add("mm-emptydir", ed)
				add("aa-emptydir-bytes", &stree{kind: 'f', data: b})
				add("zz-emptydir-bytes", &stree{kind: 'f', data: append([]byte(nil), b...)})
				for _, e := range t.ents {
					if e.t.kind == 'l' {
						lb := rootBlockOf(c, e.t)
						add("aa-link-node-bytes", &stree{kind: 'f', data: lb})
						add("zz-link-node-bytes", &stree{kind: 'f', data: append([]byte(nil), lb...)})
						break
					}
				}
			}
			c18Case(c, g, top, t, 1+uint64(gr.Intn(2)), gr.Chance(30), uint64(gr.Intn(3)), gr.Chance(30), gr.Chance(30), "random")
		}
		// ---- a tree of more than 26 214 blocks: the sorted index of the CARv2 then has a sha2-256 bucket
		// larger than 1 MiB (read in chunks by index.ReadFrom); too large for the list-based fs model,
		// so the tree comparison is done here and the model predicts status and count
		// (kind createextractlarge)
		{
			gr := r.Fork()
			nd := 30 + gr.Intn(4)
			ents := VL{}
			for d := 0; d < nd; d++ {
				fl := VL{}
				for f := 0; f < 940; f++ {
					nm := "f" + itoa(f)
					fl = append(fl, VL{VB([]byte(nm)), VL{VT("f"), VB([]byte("d" + itoa(d) + "-" + nm + "-" + itoa(int(gr.U64()%1000))))}})
				}
				fl = append(fl, VL{VB([]byte("l")), VL{VT("l"), VB([]byte("f0"))}}, VL{VB([]byte("z-empty")), VL{VT("d"), VL{}}})
				ents = append(ents, VL{VB([]byte("d" + itoa(d))), VL{VT("d"), fl}})
			}
			tree := VL{VT("d"), ents}
			// quick: the archive is assembled here (same store session as `car create`), one
			// sub-directory is extracted with --path; thorough: the real create + full extraction too
			for k, mode := range []uint64{0, 2} {
				in := VL{tree, VL{VN(2), VN(1), VN(mode), VN(1), VB([]byte("d" + itoa(7+k)))}}
				obs := runCreateExtractLargeCase(c, in)
				c.Count("kind:large-archive-over-26214-blocks")
				c.Emit("createextractlarge", in, obs, true)
			}
			if c.Thorough {
				for _, mode := range []uint64{0, 1} {
					in := VL{tree, VL{VN(2), vbool(mode == 1), VN(mode), VN(0), VB(nil)}}
					c.Count("kind:large-tree-create-extract")
					c.Emit("createextractlarge", in, runCreateExtractLargeCase(c, in), true)
				}
			}
		}
		// ---- many siblings (directory sharding: sum of name+cid lengths > 256 KiB)
		nShard := 0
		if c.Thorough {
			nShard = 3
		} else if c.Scale >= 1 {
			nShard = 1
		}
		for i := 0; i < nShard; i++ {
			g := &c18gen{r: r.Fork(), c: c, feat: map[string]bool{"sharded-directory": true}, maxDep: 1}
			gr := g.r
			t := &stree{kind: 'd'}
			cnt := 1150 + gr.Intn(100)
			for k := 0; k < cnt; k++ {
				nm := append(bytes.Repeat([]byte{byte('a' + k%26)}, 215+k%7), []byte("-"+string(rune('0'+k/1000%10))+string(rune('0'+k/100%10))+string(rune('0'+k/10%10))+string(rune('0'+k%10)))...)
				var ch *stree
				switch {
				case k%97 == 5:
					ch = &stree{kind: 'l', data: []byte("../x")}
				case k%211 == 7:
					ch = &stree{kind: 'd', ents: []sent{{[]byte("in"), &stree{kind: 'f', data: []byte("in")}}}}
				default:
					ch = &stree{kind: 'f', data: []byte{byte(k), byte(k >> 8)}}
				}
				t.ents = append(t.ents, sent{nm, ch})
			}
			g.nodes = cnt
			c18Case(c, g, []byte("big"), t, 1+uint64(gr.Intn(2)), gr.Chance(50), uint64(gr.Intn(2)), false, false, "sharded")
		}
	})
}
