package main

import (
	"bytes"
	"encoding/binary"
	"errors"
	"fmt"
	"io"
	"os"
	"os/signal"
	"path/filepath"
	"sort"
	"syscall"
	"time"

	"github.com/ipfs/go-cid"
	carv2 "github.com/ipld/go-car/v2"
	"github.com/ipld/go-car/v2/index"
	"github.com/multiformats/go-multicodec"
	"github.com/multiformats/go-varint"
)

// Kinds xwrap / xextract / xrtrip / xreplace: drivers of WrapV1, WrapV1File, ExtractV1File and
// ReplaceRootsInFile on real files, printing what the model's run_x* entry points print
// (coq/theories/RunXform.v).

type xOpts struct {
	maxH    uint64
	zeof    bool
	codec   uint64 // 0 = option not passed (library default car-multihash-index-sorted)
	storeID bool
	maxCid  uint64 // 0 = option not passed (library default 2 KiB)
	maxSeek uint64 // environment: largest offset Seek accepts on the source
	// UseDataPadding / UseIndexPadding: accepted by WrapV1's signature, ignored by it at HEAD
	dataPad, indexPad uint64
}

var defaultXOpts = xOpts{maxH: 32 << 20}

// what the model is told: the values after ApplyOptions' defaults
func (o xOpts) val() Val {
	codec := o.codec
	if codec == 0 {
		codec = uint64(multicodec.CarMultihashIndexSorted)
	}
	maxCid := o.maxCid
	if maxCid == 0 {
		maxCid = carv2.DefaultMaxIndexCidSize
	}
	if maxCid > 32<<20-8 { // ApplyOptions caps MaxIndexCidSize at what an index record can hold
		maxCid = 32<<20 - 8
	}
	v := VL{VN(o.maxH), vbool(o.zeof), VN(codec), vbool(o.storeID), VN(maxCid), VN(o.maxSeek)}
	if o.dataPad != 0 || o.indexPad != 0 {
		v = append(v, VN(o.dataPad), VN(o.indexPad))
	}
	return v
}

func (o xOpts) v2() []carv2.Option {
	opts := []carv2.Option{carv2.MaxAllowedHeaderSize(o.maxH)}
	if o.zeof {
		opts = append(opts, carv2.ZeroLengthSectionAsEOF(true))
	}
	if o.codec != 0 {
		opts = append(opts, carv2.UseIndexCodec(multicodec.Code(o.codec)))
	}
	if o.storeID {
		opts = append(opts, carv2.StoreIdentityCIDs(true))
	}
	if o.maxCid != 0 {
		opts = append(opts, carv2.MaxIndexCidSize(o.maxCid))
	}
	if o.dataPad != 0 {
		opts = append(opts, carv2.UseDataPadding(o.dataPad))
	}
	if o.indexPad != 0 {
		opts = append(opts, carv2.UseIndexPadding(o.indexPad))
	}
	return opts
}

func xoptsOfVal(v Val) xOpts {
	l := v.(VL)
	// the recorded values are the effective ones; passing them explicitly is equivalent
	o := xOpts{maxH: uint64(l[0].(VN)), zeof: l[1].(VN) != 0, codec: uint64(l[2].(VN)),
		storeID: l[3].(VN) != 0, maxCid: uint64(l[4].(VN)), maxSeek: uint64(l[5].(VN))}
	if len(l) > 7 {
		o.dataPad, o.indexPad = uint64(l[6].(VN)), uint64(l[7].(VN))
	}
	return o
}

func xerr(err error) Val {
	if err != nil && errors.Is(err, carv2.ErrAlreadyV1) {
		return VT("alreadyv1")
	}
	return verr(err)
}

// c10MaxReadBack bounds every read-back: a file larger than this is reported by its size only
// (the model never produces such an observation, so it shows up as a difference, not as a hang).
const c10MaxReadBack = 16 << 20

func c10FileVal(path string) Val {
	st, err := os.Stat(path)
	if err != nil {
		if os.IsNotExist(err) {
			return VL{VT("absent")}
		}
		panic(err)
	}
	if st.Size() > c10MaxReadBack {
		return VL{VT("big"), VN(uint64(st.Size()))}
	}
	b, err := os.ReadFile(path)
	if err != nil {
		panic(err)
	}
	return VL{VT("file"), VB(b)}
}

// c10Stuck is set when an implementation call did not return within the watchdog's time; the
// producer then stops issuing further cases (the case already emitted carries (ttimeout)).
var c10Stuck bool

const c10Watchdog = 30 * time.Second

func init() {
	// writes beyond RLIMIT_FSIZE must come back as EFBIG, not kill the harness
	signal.Ignore(syscall.SIGXFSZ)
}

// c10Guarded runs one implementation call under two bounds: no file may grow beyond a size
// derived from the input (soft RLIMIT_FSIZE for the duration of the call: a transform that keeps
// copying a file onto itself ends with an error instead of filling the disk), and a watchdog.
func c10Guarded(inputLen int, fn func() Val) Val {
	if c10Stuck {
		return VL{VT("skipped-after-timeout")}
	}
	var old syscall.Rlimit
	haveOld := syscall.Getrlimit(syscall.RLIMIT_FSIZE, &old) == nil
	if haveOld {
		lim := old
		lim.Cur = uint64(4*inputLen + 1<<20)
		if lim.Cur > old.Max {
			lim.Cur = old.Max
		}
		syscall.Setrlimit(syscall.RLIMIT_FSIZE, &lim)
	}
	restore := func() {
		if haveOld {
			syscall.Setrlimit(syscall.RLIMIT_FSIZE, &old)
		}
	}
	done := make(chan Val, 1)
	go func() { done <- fn() }()
	select {
	case v := <-done:
		restore()
		return v
	case <-time.After(c10Watchdog):
		restore()
		c10Stuck = true
		return VL{VT("timeout")}
	}
}

func memFileVal(b []byte) Val { return VL{VT("file"), VB(append([]byte{}, b...))} }

var xdirN int

func xdir(c *Ctx) string {
	xdirN++
	d := filepath.Join(c.Work, fmt.Sprintf("x%d", xdirN))
	if err := os.MkdirAll(d, 0o755); err != nil {
		panic(err)
	}
	return d
}

func mustWrite(path string, b []byte) {
	if err := os.WriteFile(path, b, 0o644); err != nil {
		panic(err)
	}
}

// probeMaxSeek finds the largest absolute offset lseek accepts on a file in dir (the file
// system's s_maxbytes; 2^63-1 on tmpfs).
func probeMaxSeek(dir string) uint64 {
	p := filepath.Join(dir, "seekprobe")
	mustWrite(p, []byte{1})
	f, err := os.Open(p)
	if err != nil {
		panic(err)
	}
	defer func() { f.Close(); os.Remove(p) }()
	lo, hi := uint64(0), uint64(1<<63-1) // lo always accepted
	if _, err := f.Seek(int64(hi), io.SeekStart); err == nil {
		return hi
	}
	for lo+1 < hi {
		mid := lo + (hi-lo)/2
		if _, err := f.Seek(int64(mid), io.SeekStart); err == nil {
			lo = mid
		} else {
			hi = mid
		}
	}
	return lo
}

const memMaxSeek = uint64(1<<63 - 1)

// canonIndex rewrites the serialized index that starts at out[start:] so that runs of records
// with equal digests inside a bucket are ordered by offset (Go's sort.Sort is not stable; the
// order inside such a run is unspecified).  Returns the rewritten file and whether a run of
// equal digests was present.
func canonIndex(out []byte, start int) ([]byte, bool) {
	if start > len(out) {
		return out, false
	}
	res := append([]byte{}, out...)
	p := res[start:]
	codec, n, err := varint.FromUvarint(p)
	if err != nil {
		return out, false
	}
	p = p[n:]
	had := false
	mwi := func(p []byte) ([]byte, bool) {
		if len(p) < 4 {
			return nil, false
		}
		cnt := int(binary.LittleEndian.Uint32(p))
		p = p[4:]
		for i := 0; i < cnt; i++ {
			if len(p) < 12 {
				return nil, false
			}
			w := int(binary.LittleEndian.Uint32(p))
			l := binary.LittleEndian.Uint64(p[4:])
			p = p[12:]
			if w < 8 || l > uint64(len(p)) {
				return nil, false
			}
			data := p[:l]
			nrec := int(l) / w
			recs := make([][]byte, nrec)
			for j := range recs {
				recs[j] = append([]byte{}, data[j*w:(j+1)*w]...)
			}
			for j := 0; j+1 < nrec; j++ {
				if bytes.Equal(recs[j][:w-8], recs[j+1][:w-8]) {
					had = true
				}
			}
			sort.SliceStable(recs, func(a, b int) bool {
				if c := bytes.Compare(recs[a][:w-8], recs[b][:w-8]); c != 0 {
					return c < 0
				}
				return binary.LittleEndian.Uint64(recs[a][w-8:]) < binary.LittleEndian.Uint64(recs[b][w-8:])
			})
			for j := range recs {
				copy(data[j*w:], recs[j])
			}
			p = p[l:]
		}
		return p, true
	}
	switch multicodec.Code(codec) {
	case multicodec.CarIndexSorted:
		if _, ok := mwi(p); !ok {
			return out, false
		}
	case multicodec.CarMultihashIndexSorted:
		if len(p) < 4 {
			return out, false
		}
		cnt := int(binary.LittleEndian.Uint32(p))
		p = p[4:]
		for i := 0; i < cnt; i++ {
			if len(p) < 8 {
				return out, false
			}
			var ok bool
			if p, ok = mwi(p[8:]); !ok {
				return out, false
			}
		}
	default:
		return out, false
	}
	return res, had
}

func canonFileVal(v Val, start int, c *Ctx) Val {
	l := v.(VL)
	if len(l) != 2 || string(l[0].(VT)) != "file" {
		return v
	}
	b, had := canonIndex([]byte(l[1].(VB)), start)
	if had && c != nil {
		c.Count("wrap:index-had-equal-digest-run")
	}
	return VL{l[0], VB(b)}
}

// ---- xwrap --------------------------------------------------------------------------------
// input (opts, mode, x, hdr table, expect [, existing destination content])
// mode 0: WrapV1(bytes.Reader, bytes.Buffer, opts); 1: WrapV1File to an absent path;
// 2: WrapV1File over an existing file; 3: WrapV1File onto the source path;
// 4: WrapV1(*os.File, *os.File, opts) to an absent path
func runWrapImpl(c *Ctx, o xOpts, mode uint64, x []byte, existing []byte) Val {
	return c10Guarded(len(x)+len(existing), func() Val { return c10WrapImpl(c, o, mode, x, existing) })
}

func c10WrapImpl(c *Ctx, o xOpts, mode uint64, x []byte, existing []byte) Val {
	idxStart := 51 + len(x)
	if mode == 0 {
		var dst bytes.Buffer
		src := bytes.NewReader(x)
		err := carv2.WrapV1(src, &dst, o.v2()...)
		return VL{xerr(err), memFileVal(x), canonFileVal(memFileVal(dst.Bytes()), idxStart, c)}
	}
	d := xdir(c)
	defer os.RemoveAll(d)
	srcP := filepath.Join(d, "src.car")
	dstP := filepath.Join(d, "dst.car")
	mustWrite(srcP, x)
	var err error
	switch mode {
	case 1:
		err = carv2.WrapV1File(srcP, dstP)
	case 2:
		mustWrite(dstP, existing)
		err = carv2.WrapV1File(srcP, dstP)
	case 3:
		dstP = srcP
		err = carv2.WrapV1File(srcP, dstP)
	case 5:
		dstP = placeDest(d, srcP, VL{VT("symlink")})
		err = carv2.WrapV1File(srcP, dstP)
	case 6:
		dstP = placeDest(d, srcP, VL{VT("hardlink")})
		err = carv2.WrapV1File(srcP, dstP)
	default:
		err = func() error {
			src, err := os.Open(srcP)
			if err != nil {
				return err
			}
			defer src.Close()
			dst, err := os.Create(dstP)
			if err != nil {
				return err
			}
			defer dst.Close()
			if err := carv2.WrapV1(src, dst, o.v2()...); err != nil {
				return err
			}
			return dst.Close()
		}()
	}
	return VL{xerr(err), c10FileVal(srcP), canonFileVal(c10FileVal(dstP), idxStart, c)}
}

// ---- xextract -----------------------------------------------------------------------------
// input (opts, a, dest, hdr table, expect, c); dest = (tsame) | (tabsent) | (tfile b)
func placeDest(d string, srcP string, dest Val) string {
	l := dest.(VL)
	switch string(l[0].(VT)) {
	case "same":
		return srcP
	// the same file under another path string (in-place semantics all the same)
	case "symlink":
		p := filepath.Join(d, "c10alias.car")
		if err := os.Symlink(srcP, p); err != nil {
			panic(err)
		}
		return p
	case "hardlink":
		p := filepath.Join(d, "c10alias.car")
		if err := os.Link(srcP, p); err != nil {
			panic(err)
		}
		return p
	case "unclean":
		return filepath.Dir(srcP) + "/./" + filepath.Base(srcP)
	case "relative":
		if wd, err := os.Getwd(); err == nil {
			if rel, err := filepath.Rel(wd, srcP); err == nil {
				return rel
			}
		}
		return filepath.Dir(srcP) + "/../" + filepath.Base(filepath.Dir(srcP)) + "/" + filepath.Base(srcP)
	case "file":
		p := filepath.Join(d, "dst.car")
		mustWrite(p, []byte(l[1].(VB)))
		return p
	}
	return filepath.Join(d, "dst.car")
}

func c10DestLen(dest Val) int {
	if l := dest.(VL); len(l) > 1 {
		return len(l[1].(VB))
	}
	return 0
}

func runExtractImpl(c *Ctx, o xOpts, a []byte, dest Val) Val {
	return c10Guarded(len(a)+c10DestLen(dest), func() Val { return c10ExtractImpl(c, o, a, dest) })
}

func c10ExtractImpl(c *Ctx, o xOpts, a []byte, dest Val) Val {
	d := xdir(c)
	defer os.RemoveAll(d)
	srcP := filepath.Join(d, "src.car")
	mustWrite(srcP, a)
	dstP := placeDest(d, srcP, dest)
	err := carv2.ExtractV1File(srcP, dstP, o.v2()...)
	return VL{xerr(err), c10FileVal(srcP), c10FileVal(dstP)}
}

// ---- xrtrip -------------------------------------------------------------------------------
// input (opts, x, dest, hdr table, c): wrap x into tmp, extract tmp to dest ((tsame) = in place)
func runRtripImpl(c *Ctx, o xOpts, x []byte, dest Val) Val {
	return c10Guarded(len(x)+c10DestLen(dest), func() Val { return c10RtripImpl(c, o, x, dest) })
}

func c10RtripImpl(c *Ctx, o xOpts, x []byte, dest Val) Val {
	d := xdir(c)
	defer os.RemoveAll(d)
	srcP := filepath.Join(d, "x.car")
	tmpP := filepath.Join(d, "src.car")
	mustWrite(srcP, x)
	werr := func() error {
		src, err := os.Open(srcP)
		if err != nil {
			return err
		}
		defer src.Close()
		dst, err := os.Create(tmpP)
		if err != nil {
			return err
		}
		defer dst.Close()
		if err := carv2.WrapV1(src, dst, o.v2()...); err != nil {
			return err
		}
		return dst.Close()
	}()
	if werr != nil {
		return VL{xerr(werr), VT("skipped"), VL{VT("absent")}}
	}
	dstP := placeDest(d, tmpP, dest)
	err := carv2.ExtractV1File(tmpP, dstP, o.v2()...)
	return VL{VT("nil"), xerr(err), c10FileVal(dstP)}
}

// ---- xreplace -----------------------------------------------------------------------------
// input (opts, a, roots, hdr table, expect); roots = (tnil) | (tsome (cid ...))
func rootsVal(roots []cid.Cid) Val {
	if roots == nil {
		return VL{VT("nil")}
	}
	return VL{VT("some"), cidsVal(roots)}
}

func rootsOfVal(v Val) []cid.Cid {
	l := v.(VL)
	if string(l[0].(VT)) != "some" {
		return nil
	}
	out := []cid.Cid{}
	for _, x := range l[1].(VL) {
		c, err := cid.Cast([]byte(x.(VB)))
		if err != nil {
			panic(err)
		}
		out = append(out, c)
	}
	return out
}

func runReplaceImpl(c *Ctx, o xOpts, a []byte, roots []cid.Cid) Val {
	return c10Guarded(len(a), func() Val { return c10ReplaceImpl(c, o, a, roots) })
}

func c10ReplaceImpl(c *Ctx, o xOpts, a []byte, roots []cid.Cid) Val {
	d := xdir(c)
	defer os.RemoveAll(d)
	p := filepath.Join(d, "f.car")
	mustWrite(p, a)
	err := carv2.ReplaceRootsInFile(p, roots, o.v2()...)
	return VL{xerr(err), c10FileVal(p)}
}

// header-oracle table for a file the transforms may parse: the header at the start and, for a
// CARv2, the header found at the declared data offset (read up to the end of the file, as
// ReplaceRootsInFile and LoadIndex do)
func xTables(file []byte) Val {
	hdrs := VL{}
	e, rest, ok := hdrEntry(file)
	if !ok {
		return hdrs
	}
	hdrs = append(hdrs, e)
	if len(rest) >= 40 {
		var h carv2.Header
		if _, err := h.ReadFrom(bytes.NewReader(rest[:40])); err == nil && h.DataOffset <= uint64(len(file)) {
			if e2, _, ok2 := hdrEntry(file[h.DataOffset:]); ok2 {
				hdrs = append(hdrs, e2)
			}
		}
	}
	return hdrs
}

func init() {
	registerReplay("xwrap", func(c *Ctx, in Val) Val {
		l := in.(VL)
		var existing []byte
		if len(l) > 5 {
			existing = []byte(l[5].(VB))
		}
		return runWrapImpl(c, xoptsOfVal(l[0]), uint64(l[1].(VN)), []byte(l[2].(VB)), existing)
	})
	registerReplay("xextract", func(c *Ctx, in Val) Val {
		l := in.(VL)
		return runExtractImpl(c, xoptsOfVal(l[0]), []byte(l[1].(VB)), l[2])
	})
	registerReplay("xrtrip", func(c *Ctx, in Val) Val {
		l := in.(VL)
		return runRtripImpl(c, xoptsOfVal(l[0]), []byte(l[1].(VB)), l[2])
	})
	registerReplay("xreplace", func(c *Ctx, in Val) Val {
		l := in.(VL)
		return runReplaceImpl(c, xoptsOfVal(l[0]), []byte(l[1].(VB)), rootsOfVal(l[2]))
	})
}

// ---- xwrapmany ----------------------------------------------------------------------------
// A CARv1 with very many sections through WrapV1, judged by layer B only (the executable model of
// LoadIndex re-reads the file per section and is quadratic): input (opts, n, seed, idEvery)
// describes the archive (n distinct blocks; every idEvery-th has an identity CID), the observation
// is (error, sections, sections that must be indexed, of those how many the appended index resolves
// to their offset through index.ReadFrom + GetAll, records in the index, payload verbatim and
// nothing after the index).
func c10ManyArchive(n int, seed uint64, idEvery int) ([]Blk, []uint64, []byte) {
	blks := make([]Blk, 0, n)
	for i := 0; i < n; i++ {
		data := make([]byte, 12)
		binary.LittleEndian.PutUint64(data, seed)
		binary.LittleEndian.PutUint32(data[8:], uint32(i))
		switch {
		case idEvery > 0 && i%idEvery == idEvery-1:
			blks = append(blks, Blk{mkCid(1, 0x55, 0x00, -1, data), data})
		case i%5 == 0:
			blks = append(blks, Blk{mkCid(1, 0x71, 0x13, -1, data), data}) // sha2-512: a second bucket
		default:
			blks = append(blks, Blk{mkCid(1, 0x55, 0x12, -1, data), data})
		}
	}
	roots := []cid.Cid{blks[0].Cid}
	payload := refPayload(roots, blks)
	offs := make([]uint64, n)
	pos := uint64(len(refPayload(roots, nil)))
	for i, b := range blks {
		offs[i] = pos
		sl := uint64(b.Cid.ByteLen() + len(b.Data))
		pos += sl + uint64(uvarintLen(sl))
	}
	return blks, offs, payload
}

func runWrapManyImpl(c *Ctx, o xOpts, n int, seed uint64, idEvery int) Val {
	blks, offs, payload := c10ManyArchive(n, seed, idEvery)
	return c10Guarded(len(payload), func() Val {
		d := xdir(c)
		defer os.RemoveAll(d)
		srcP := filepath.Join(d, "src.car")
		dstP := filepath.Join(d, "dst.car")
		mustWrite(srcP, payload)
		err := func() error {
			src, err := os.Open(srcP)
			if err != nil {
				return err
			}
			defer src.Close()
			dst, err := os.Create(dstP)
			if err != nil {
				return err
			}
			defer dst.Close()
			if err := carv2.WrapV1(src, dst, o.v2()...); err != nil {
				return err
			}
			return dst.Close()
		}()
		if err != nil {
			return VL{xerr(err), VN(uint64(n)), VN(0), VN(0), VN(0), VN(0)}
		}
		fv := c10FileVal(dstP)
		if string(fv.(VL)[0].(VT)) != "file" {
			return VL{VT("nil"), VN(uint64(n)), VN(0), VN(0), VN(0), VN(0)}
		}
		out := []byte(fv.(VL)[1].(VB))
		verbatim := len(out) >= 51+len(payload) && bytes.Equal(out[:11], carv2.Pragma) && bytes.Equal(out[51:51+len(payload)], payload)
		var want, resolved, records uint64
		if verbatim {
			ir := bytes.NewReader(out[51+len(payload):])
			idx, err := index.ReadFrom(ir)
			if err != nil || ir.Len() != 0 {
				verbatim = false
			} else {
				for i, b := range blks {
					if !o.storeID && b.Cid.Prefix().MhType == 0 {
						continue
					}
					want++
					found := false
					idx.GetAll(b.Cid, func(off uint64) bool {
						if off == offs[i] {
							found = true
						}
						return !found
					})
					if found {
						resolved++
					}
				}
				records = c10CountRecords(out[51+len(payload):])
			}
		}
		return VL{VT("nil"), VN(uint64(n)), VN(want), VN(resolved), VN(records), vbool(verbatim)}
	})
}

func init() {
	registerReplay("xwrapmany", func(c *Ctx, in Val) Val {
		l := in.(VL)
		return runWrapManyImpl(c, xoptsOfVal(l[0]), int(l[1].(VN)), uint64(l[2].(VN)), int(l[3].(VN)))
	})
}

// c10CountRecords counts the records of a serialized index (both sorted codecs) from its bytes.
func c10CountRecords(p []byte) uint64 {
	codec, n, err := varint.FromUvarint(p)
	if err != nil {
		return 0
	}
	p = p[n:]
	var total uint64
	mwi := func(p []byte) ([]byte, bool) {
		if len(p) < 4 {
			return nil, false
		}
		cnt := int(binary.LittleEndian.Uint32(p))
		p = p[4:]
		for i := 0; i < cnt; i++ {
			if len(p) < 12 {
				return nil, false
			}
			w := uint64(binary.LittleEndian.Uint32(p))
			l := binary.LittleEndian.Uint64(p[4:])
			p = p[12:]
			if w < 8 || l > uint64(len(p)) {
				return nil, false
			}
			total += l / w
			p = p[l:]
		}
		return p, true
	}
	switch multicodec.Code(codec) {
	case multicodec.CarIndexSorted:
		mwi(p)
	case multicodec.CarMultihashIndexSorted:
		if len(p) < 4 {
			return 0
		}
		cnt := int(binary.LittleEndian.Uint32(p))
		p = p[4:]
		for i := 0; i < cnt; i++ {
			if len(p) < 8 {
				return total
			}
			var ok bool
			if p, ok = mwi(p[8:]); !ok {
				return total
			}
		}
	}
	return total
}

// ---- xattach ------------------------------------------------------------------------------
// input (file | (tabsent), index bytes, offset, expect): AttachIndex(path, index.ReadFrom(bytes), offset)
func c10IndexOf(ib []byte) index.Index {
	idx, err := index.ReadFrom(bytes.NewReader(ib))
	if err != nil {
		panic(err)
	}
	return idx
}

func runAttachImpl(c *Ctx, f Val, ib []byte, off uint64) Val {
	return c10Guarded(c10DestLen(f)+len(ib)+int(off&0xffffff), func() Val {
		d := xdir(c)
		defer os.RemoveAll(d)
		p := filepath.Join(d, "f.car")
		if l := f.(VL); string(l[0].(VT)) == "file" {
			mustWrite(p, []byte(l[1].(VB)))
		}
		err := carv2.AttachIndex(p, c10IndexOf(ib), off)
		return VL{xerr(err), c10FileVal(p)}
	})
}

// ---- xseq ---------------------------------------------------------------------------------
// input (x, ops, hdr table, c): a sequence of transforms applied to one file.
// op = (twrap opts) | (textract opts) | (treplace opts roots) | (tattach indexbytes off)
// obs = ((error per step) final file)
func runSeqImpl(c *Ctx, x []byte, ops VL) Val {
	return c10Guarded(8*len(x)+(1<<20), func() Val {
		d := xdir(c)
		defer os.RemoveAll(d)
		cur := filepath.Join(d, "f0.car")
		mustWrite(cur, x)
		errs := VL{}
		for i, opv := range ops {
			op := opv.(VL)
			var err error
			switch string(op[0].(VT)) {
			case "wrap":
				o := xoptsOfVal(op[1])
				next := filepath.Join(d, fmt.Sprintf("f%d.car", i+1))
				err = func() error {
					src, err := os.Open(cur)
					if err != nil {
						return err
					}
					defer src.Close()
					dst, err := os.Create(next)
					if err != nil {
						return err
					}
					defer dst.Close()
					if err := carv2.WrapV1(src, dst, o.v2()...); err != nil {
						return err
					}
					return dst.Close()
				}()
				if err == nil {
					// the index order inside equal-digest runs is sort.Sort's: canonicalise in place
					if b, rerr := os.ReadFile(next); rerr == nil {
						st, _ := os.Stat(cur)
						cb, _ := canonIndex(b, 51+int(st.Size()))
						mustWrite(next, cb)
					}
					cur = next
				}
			case "extract":
				err = carv2.ExtractV1File(cur, cur, xoptsOfVal(op[1]).v2()...)
			case "replace":
				err = carv2.ReplaceRootsInFile(cur, rootsOfVal(op[2]), xoptsOfVal(op[1]).v2()...)
			case "attach":
				err = carv2.AttachIndex(cur, c10IndexOf([]byte(op[1].(VB))), uint64(op[2].(VN)))
			}
			errs = append(errs, xerr(err))
		}
		return VL{errs, c10FileVal(cur)}
	})
}

func init() {
	registerReplay("xattach", func(c *Ctx, in Val) Val {
		l := in.(VL)
		return runAttachImpl(c, l[0], []byte(l[1].(VB)), uint64(l[2].(VN)))
	})
	registerReplay("xseq", func(c *Ctx, in Val) Val {
		l := in.(VL)
		return runSeqImpl(c, []byte(l[0].(VB)), l[1].(VL))
	})
}
