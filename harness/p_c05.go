package main

import (
	"bytes"
	"context"
	"fmt"
	"io"
	"os"
	"os/exec"
	"path/filepath"

	"github.com/ipfs/go-cid"
	carv2 "github.com/ipld/go-car/v2"
	"github.com/ipld/go-ipld-prime/datamodel"
	"github.com/ipld/go-ipld-prime/linking"
	cidlink "github.com/ipld/go-ipld-prime/linking/cid"
	selectorparse "github.com/ipld/go-ipld-prime/traversal/selector/parse"
	"github.com/multiformats/go-multicodec"
)

// C05 producer.  Four streams, all derived from c.R:
//  1. writing sessions on the six library front-ends under the option matrix (byte-exact prediction
//     of the finished file by the model, layer-B predicates on the implementation's file, verdicts of
//     Reader.Inspect(true) and `car verify` compared with the model's)
//  2. `car filter` outputs (a blockstore session driven by the CLI; predicted byte-exactly)
//  3. `car create` outputs (content not predicted: wf_car + both checkers)
//  4. damaged copies of finished files (only model = implementation for the two checkers)
// A session is non-trivial when at least two distinct blocks were put.

// c05ReadCar lists roots and blocks of a CARv1/CARv2 produced by the tool itself
func c05ReadCar(file []byte) ([]cid.Cid, []Blk) {
	br, err := carv2.NewBlockReader(bytes.NewReader(file))
	if err != nil {
		panic(err)
	}
	var blks []Blk
	for {
		b, err := br.Next()
		if err != nil {
			break
		}
		blks = append(blks, Blk{b.Cid(), b.RawData()})
	}
	return br.Roots, blks
}

func c05CodecUnknown(codec uint64) bool { return codec != 0 && codec != 0x0400 && codec != 0x0401 }

func c05GenOpts(r *RNG) wOpts {
	o := genWOpts(r)
	o.v1 = r.Chance(15)
	if r.Chance(25) {
		// MaxIndexCidSize around the CID lengths in play (34 = CIDv0, 36 = CIDv1 sha2-256, 37/38 = longer codec varints)
		o.maxCid = uint64(pick(r, []int{33, 34, 35, 36, 37, 38, 40, 68}))
	}
	if r.Chance(5) {
		o.codec = 0 // ApplyOptions: the default codec
	}
	if r.Chance(4) {
		o.maxCid = 0 // ApplyOptions: the default size
	}
	if r.Chance(4) {
		o.codec = uint64(pick(r, []int{0x55, 0x0402, 0x0300})) // not an index codec: Finalize must fail (0 would mean "default")
	}
	return o
}

func c05DistinctBlks(h [][]Blk) int {
	seen := map[string]bool{}
	for _, b := range h {
		for _, x := range b {
			seen[string(x.Cid.Bytes())] = true
		}
	}
	return len(seen)
}

func c05GenRoots(r *RNG, alpha []Blk) []cid.Cid {
	switch r.Intn(10) {
	case 0:
		return nil
	case 1:
		return []cid.Cid{}
	case 2, 3, 4:
		return genRoots(r, alpha, true)
	default: // every root is one of the blocks that will be offered
		n := 1 + r.Intn(3)
		var roots []cid.Cid
		for i := 0; i < n; i++ {
			roots = append(roots, pick(r, alpha).Cid)
		}
		return roots
	}
}

func c05GenHistory(r *RNG, kind uint64, alpha []Blk, nput int) [][]Blk {
	var h [][]Blk
	for len(h) < nput {
		if kind == 0 && r.Chance(20) {
			var b []Blk
			for j := 0; j < r.Intn(4); j++ { // includes the empty batch
				b = append(b, pick(r, alpha))
			}
			h = append(h, b)
			continue
		}
		h = append(h, []Blk{pick(r, alpha)})
	}
	return h
}

func init() {
	register("c05", func(c *Ctx) {
		var finished [][]byte // small finished files kept for the damage stream
		var finishedOpts []wOpts

		// ---- 1. library sessions
		nSess := 300 * c.Scale
		bigLeft := 6
		for i := 0; i < nSess; i++ {
			r := c.R.Fork()
			kind := uint64(pick(r, []int{0, 0, 0, 1, 1, 2, 3, 4, 4, 5}))
			o := c05GenOpts(r)
			if kind == 5 || (kind == 3 && !r.Chance(10)) {
				o.v1 = true
			}
			g := genOpts{identity: true, maxData: 60}
			boundary := r.Chance(20)
			if boundary {
				g.maxData = 0 // section lengths on the varint width boundaries (127/128, 16383/16384)
				if c.Thorough && bigLeft > 0 && r.Chance(10) {
					g.big = true // 2^21 boundary (a handful of sessions: each block is 2 MiB)
					bigLeft--
					c.Count("session:with-2^21-boundary-blocks")
				}
			}
			alpha := genBlocks(r, 2+r.Intn(6), g)
			if g.big {
				alpha = alpha[:2]
			}
			if r.Chance(40) {
				d := r.Bytes(80) // identity CID longer than a small MaxIndexCidSize
				alpha = append(alpha, Blk{mkCid(1, 0x55, 0x00, -1, d), d})
			}
			if r.Chance(6) {
				// a block whose data does not hash to its CID: the stores do not check, the readers do
				b := pick(r, alpha)
				alpha = append(alpha, Blk{b.Cid, append([]byte("x"), b.Data...)})
				c.Count("session:with-hash-mismatch")
			}
			manyDups := !boundary && r.Chance(8)
			if manyDups {
				// long runs of equal digests in one index bucket (sort.Sort on the flattened index must keep them)
				o.dups = true
				alpha = alpha[:2]
				c.Count("session:many-duplicates")
			}
			roots := c05GenRoots(r, alpha)
			nput := pick(r, []int{0, 0, 1, 2, 3, 5, 8, 12, 20})
			if boundary && nput > 5 {
				nput = 5
			}
			if g.big && nput > 2 {
				nput = 2
			}
			if manyDups {
				nput = 25 + r.Intn(20)
			}
			if kind >= 4 && nput == 0 {
				nput = 1 // the deferred writer creates nothing before the first Put
			}
			h := c05GenHistory(r, kind, alpha, nput)
			in := c05FinalInput(kind, o, roots, h, nil)
			obs := c05RunFinalImpl(c, kind, o, roots, h)
			c.Emit("final", in, obs, c05DistinctBlks(h) >= 2)
			c.Count(fmt.Sprintf("frontend:%d", kind))
			c.Count(fmt.Sprintf("puts:%d", nput))
			if o.v1 {
				c.Count("mode:v1")
			} else {
				c.Count(fmt.Sprintf("mode:v2/dpad=%d/ipad=%d/codec=%x", o.dpad, o.ipad, o.codec))
			}
			if o.storeID {
				c.Count("opt:store-identity")
			}
			if len(roots) == 0 {
				c.Count("roots:none")
				// the known finding (car verify refuses archives without roots) must not hide anything: the twin
				// session -- same front-end, options and history, one root among the offered blocks -- is checked
				// with every clause, the verifier included
				if len(h) > 0 && len(h[0]) > 0 {
					twinRoots := []cid.Cid{h[0][0].Cid}
					c.Emit("final", c05FinalInput(kind, o, twinRoots, h, nil), c05RunFinalImpl(c, kind, o, twinRoots, h), c05DistinctBlks(h) >= 2)
					c.Count("roots:none-twin-with-root")
				}
			}
			if ol := obs.(VL); len(finished) < 60*c.Scale && r.Chance(40) && len(ol[3].(VB)) > 0 && len(ol[3].(VB)) < 1500 && string(ol[2].(VL)[0].(VT)) == "nil" {
				finished = append(finished, []byte(ol[3].(VB)))
				finishedOpts = append(finishedOpts, o)
			}
		}

		// ---- 1b. (thorough) exhaustive small scope: every history of at most 3 single puts over a 4-block
		// collision alphabet x 8 option rows x {blockstore, storage}
		if c.Thorough {
			r := c.R.Fork()
			b1 := genBlock(r, genOpts{maxData: 30})
			for b1.Cid.Version() == 0 {
				b1 = genBlock(r, genOpts{maxData: 30})
			}
			b2 := Blk{cid.NewCidV1(0x71, b1.Cid.Hash()), b1.Data} // same multihash, other codec
			idd := r.Bytes(5)
			b3 := Blk{mkCid(1, 0x55, 0x00, -1, idd), idd} // identity
			b4 := genBlock(r, genOpts{maxData: 200})
			alpha := []Blk{b1, b2, b3, b4}
			rows := []func(o *wOpts){
				func(o *wOpts) {},
				func(o *wOpts) { o.dups = true },
				func(o *wOpts) { o.whole = true },
				func(o *wOpts) { o.storeID = true },
				func(o *wOpts) { o.v1 = true },
				func(o *wOpts) { o.dpad, o.ipad, o.codec = 1, 1, 0x0400 },
				func(o *wOpts) { o.storeID, o.dups = true, true },
				func(o *wOpts) { o.maxCid = uint64(b1.Cid.ByteLen()) },
			}
			var hist [][]int
			var rec func(pre []int, left int)
			rec = func(pre []int, left int) {
				hist = append(hist, append([]int(nil), pre...))
				if left == 0 {
					return
				}
				for i := range alpha {
					rec(append(pre, i), left-1)
				}
			}
			rec(nil, 3)
			for _, row := range rows {
				for _, kind := range []uint64{0, 1} {
					for _, hi := range hist {
						o := defaultWOpts
						row(&o)
						var h [][]Blk
						for _, i := range hi {
							h = append(h, []Blk{alpha[i]})
						}
						roots := []cid.Cid{b1.Cid}
						in := c05FinalInput(kind, o, roots, h, nil)
						obs := c05RunFinalImpl(c, kind, o, roots, h)
						c.Emit("final", in, obs, c05DistinctBlks(h) >= 2)
						c.Count("exhaustive:histories<=3-over-4-blocks")
					}
				}
			}
		}

		// ---- 1c. CIDs at the edge of what an index record can carry (32 MiB wide: digest + 8-byte offset), with
		// MaxIndexCidSize raised above it.  The block is built here, the case line carries only its description.
		{
			const capCid = 32<<20 - 8 // largest CID ApplyOptions lets into an index
			type wc struct {
				kind, n, code uint64
				storeID     bool
			}
			cases := []wc{
				{0, 32<<20 - 7, 0x00, true},      // identity digest one byte wider than a record allows
				{1, 32<<20 - 7, 0x12, false},     // the same with a (fabricated) sha2-256 code
				{1, capCid - 7 + 1, 0x00, true},  // CID one byte over the cap (1+1+1+4 bytes of prefix): refused
			}
			if c.Thorough {
				// a CID of exactly the cap is stored (64 MiB file) and its index reads back
				cases = append(cases, wc{0, capCid - 7, 0x00, true}, wc{1, capCid - 7, 0x12, false},
					wc{1, 32<<20 - 7, 0x00, true}, wc{0, 32<<20 - 7, 0x12, false}, wc{0, 40 << 20, 0x00, true})
			}
			for _, w := range cases {
				o := defaultWOpts
				o.maxCid = 64 << 20
				o.storeID = w.storeID
				in := VL{VN(w.kind), o.val(), VN(w.n), VN(w.code)}
				c.Emit("finalwide", in, c05RunWideImpl(c, w.kind, o, w.n, w.code), true)
				c.Count("wide-cid")
			}
		}

		// ---- 1d. resumed sessions: interrupted before Finalize, the file possibly followed by a zero tail (null
		// padding, zero-filled crash tail), reopened -- with ZeroLengthSectionAsEOF when there is a tail -- more puts,
		// Finalize.  The finished file must carry the blocks of both sessions at the right offsets.
		nRes := 40 * c.Scale
		for i := 0; i < nRes; i++ {
			r := c.R.Fork()
			kind := uint64(pick(r, []int{0, 0, 1}))
			o1 := c05GenOpts(r)
			if c05CodecUnknown(o1.codec) {
				o1.codec = 0x0401
			}
			if o1.maxCid != 0 && o1.maxCid < 128 {
				o1.maxCid = 2048 // the first block put after the reopen must be accepted: it overwrites the zero tail
			}
			alpha := genBlocks(r, 3+r.Intn(5), genOpts{identity: true, maxData: 80})
			roots := c05GenRoots(r, alpha)
			h1 := c05GenHistory(r, kind, alpha, pick(r, []int{0, 1, 2, 4, 7}))
			tail := uint64(pick(r, []int{0, 1, 1, 2, 3, 4}))
			o2 := o1
			o2.zeof = tail > 0 && !r.Chance(12) // a zero tail without the option: the reopen is refused
			if tail == 0 {
				o2.zeof = r.Bool()
			}
			// the first block put after the reopen is new, so the zero tail is overwritten
			fresh := genBlock(r, genOpts{maxData: 40})
			h2 := append([][]Blk{{fresh}}, c05GenHistory(r, kind, append(alpha, fresh), r.Intn(5))...)
			in := c05ResumeInput(kind, o1, roots, h1, tail, o2, h2)
			c.Emit("finalresume", in, c05RunResumeImpl(c, kind, o1, roots, h1, tail, o2, h2), true)
			c.Count(fmt.Sprintf("resume:tail=%d/zeof=%v", tail, o2.zeof))
			if o1.v1 {
				c.Count("resume:v1")
			}
		}

		// ---- 2. car filter
		nFlt := 25 * c.Scale
		for i := 0; i < nFlt; i++ {
			r := c.R.Fork()
			blks := genBlocks(r, 1+r.Intn(7), genOpts{identity: true, maxData: 200})
			fs := c05FilterSpec{inBlks: blks, inRoots: genRoots(r, blks, false), inV2: r.Bool(), inverse: r.Chance(35), version: pick(r, []int{1, 2, 2})}
			for _, b := range blks {
				if r.Chance(55) {
					fs.sel = append(fs.sel, b.Cid)
				}
			}
			if r.Chance(60) {
				// keep the roots on the kept side so that the verifier clause applies
				for _, rt := range fs.inRoots {
					in := false
					for _, s := range fs.sel {
						in = in || s == rt
					}
					if in == fs.inverse {
						if fs.inverse {
							var sel []cid.Cid
							for _, s := range fs.sel {
								if s != rt {
									sel = append(sel, s)
								}
							}
							fs.sel = sel
						} else {
							fs.sel = append(fs.sel, rt)
						}
					}
				}
			}
			if len(fs.sel) == 0 {
				fs.sel = []cid.Cid{blks[0].Cid}
			}
			o := defaultWOpts
			o.v1 = fs.version == 1
			roots, h := fs.expected()
			in := c05FinalInput(6, o, roots, h, fs.val())
			obs := c05RunFilterCLI(c, fs)
			c.Emit("final", in, obs, c05DistinctBlks(h) >= 2)
			c.Count("frontend:car-filter")
		}

		// ---- 3. car create
		nCr := 10 * c.Scale
		for i := 0; i < nCr; i++ {
			r := c.R.Fork()
			dir, err := os.MkdirTemp(c.Work, "cr")
			if err != nil {
				panic(err)
			}
			src := filepath.Join(dir, "src")
			os.MkdirAll(filepath.Join(src, "sub"), 0o755)
			nf := 1 + r.Intn(4)
			for j := 0; j < nf; j++ {
				name := filepath.Join(src, fmt.Sprintf("f%d", j))
				if r.Chance(30) {
					name = filepath.Join(src, "sub", fmt.Sprintf("g%d", j))
				}
				os.WriteFile(name, r.Bytes(pick(r, []int{0, 1, 100, 5000, 300000})), 0o644)
			}
			version := pick(r, []int{1, 2, 2})
			out := filepath.Join(dir, "out.car")
			args := []string{"create", "--version", fmt.Sprint(version), "-f", out}
			if r.Chance(25) {
				args = append(args, "--no-wrap")
			}
			args = append(args, src)
			if msg, err := exec.Command(c.CarBin, args...).CombinedOutput(); err != nil {
				panic(fmt.Sprintf("car create failed: %v %s", err, msg))
			}
			file, _ := os.ReadFile(out)
			os.RemoveAll(dir)
			o := defaultWOpts
			o.v1 = version == 1
			hok, hdrs := c05FileTables(file)
			in := VL{o.val(), VB(file), hok, hdrs, VN(1)}
			c.Emit("finalfile", in, c05RunFinalFileImpl(c, file), true)
			c.Count("frontend:car-create")
		}

		// ---- 3b. car get-dag: a blockstore session (v2) / the root module's selective writer (v1) driven by a
		// traversal; content not predicted here (C15/C19), the output must be a finished archive all the same
		nGd := 8 * c.Scale
		for i := 0; i < nGd; i++ {
			r := c.R.Fork()
			dir, err := os.MkdirTemp(c.Work, "gd")
			if err != nil {
				panic(err)
			}
			src := filepath.Join(dir, "src")
			os.MkdirAll(filepath.Join(src, "d"), 0o755)
			for j := 0; j < 1+r.Intn(4); j++ {
				name := filepath.Join(src, fmt.Sprintf("f%d", j))
				if r.Chance(40) {
					name = filepath.Join(src, "d", fmt.Sprintf("g%d", j))
				}
				os.WriteFile(name, r.Bytes(pick(r, []int{0, 3, 700, 40000, 600000})), 0o644)
			}
			in := filepath.Join(dir, "in.car")
			if msg, err := exec.Command(c.CarBin, "create", "--version", fmt.Sprint(pick(r, []int{1, 2})), "-f", in, src).CombinedOutput(); err != nil {
				panic(fmt.Sprintf("car create failed: %v %s", err, msg))
			}
			inBytes, _ := os.ReadFile(in)
			roots, blks := c05ReadCar(inBytes)
			version := pick(r, []int{1, 2, 2})
			out := filepath.Join(dir, "out.car")
			args := []string{"get-dag", "--version", fmt.Sprint(version), in}
			switch r.Intn(3) {
			case 0: // root taken from the input's header
				c.Count("get-dag:root-from-header")
			case 1:
				args = append(args, roots[0].String())
				c.Count("get-dag:explicit-root")
			default: // the DAG below some inner block (a file, a chunk, a sub-directory)
				args = append(args, pick(r, blks).Cid.String())
				c.Count("get-dag:inner-root")
			}
			args = append(args, out)
			if msg, err := exec.Command(c.CarBin, args...).CombinedOutput(); err != nil {
				panic(fmt.Sprintf("car get-dag failed: %v %s", err, msg))
			}
			file, _ := os.ReadFile(out)
			os.RemoveAll(dir)
			o := defaultWOpts
			o.v1 = version == 1
			hok, hdrs := c05FileTables(file)
			c.Emit("finalfile", VL{o.val(), VB(file), hok, hdrs, VN(1)}, c05RunFinalFileImpl(c, file), true)
			c.Count("frontend:car-get-dag")
		}

		// ---- 3c. the other producers of a finished archive in the library: WrapV1 / WrapV1File, the traversal
		// writers (TraverseToFile, NewSelectiveWriter, TraverseV1) and `car index`.  Their index holds what the
		// producer indexes (WrapV1 / car index: non-identity sections, or all with StoreIdentityCIDs; traversal
		// writers: every section) and none of them sets the fully-indexed bit: expectation 2 = wf_final with the
		// one-directional flag clause.  Inspect(true) / car verify verdicts as for every other file.
		nOther := 14 * c.Scale
		for i := 0; i < nOther; i++ {
			r := c.R.Fork()
			o := defaultWOpts
			if r.Chance(40) {
				o.codec = 0x0400
			}
			var file []byte
			switch r.Intn(7) {
			case 0, 1, 2: // WrapV1 / WrapV1File / car index over a CARv1 with identity blocks and duplicates
				blks := genBlocks(r, 1+r.Intn(7), genOpts{identity: true, maxData: 300})
				roots := genRoots(r, blks, false)
				payload := refPayload(roots, blks)
				o.storeID = r.Chance(40)
				dir, err := os.MkdirTemp(c.Work, "wr")
				if err != nil {
					panic(err)
				}
				src, dst := filepath.Join(dir, "in.car"), filepath.Join(dir, "out.car")
				os.WriteFile(src, payload, 0o644)
				switch r.Intn(3) {
				case 0:
					var buf bytes.Buffer
					if err := carv2.WrapV1(bytes.NewReader(payload), &buf, o.v2()...); err != nil {
						panic(err)
					}
					file = buf.Bytes()
					c.Count("frontend:WrapV1")
				case 1:
					o = defaultWOpts // WrapV1File takes no options
					if err := carv2.WrapV1File(src, dst); err != nil {
						panic(err)
					}
					file, _ = os.ReadFile(dst)
					c.Count("frontend:WrapV1File")
				default:
					o.storeID = false
					codec := "car-multihash-index-sorted"
					if o.codec == 0x0400 {
						codec = "car-index-sorted"
					}
					if msg, err := exec.Command(c.CarBin, "index", "--codec", codec, src, dst).CombinedOutput(); err != nil {
						panic(fmt.Sprintf("car index failed: %v %s", err, msg))
					}
					file, _ = os.ReadFile(dst)
					c.Count("frontend:car-index")
				}
				os.RemoveAll(dir)
			default: // traversal writers over a generated DAG
				g := genDag(r, 1+r.Intn(2), 1, false)
				store := map[string][]byte{}
				for _, n := range g.nodes {
					store[n.c.KeyString()] = n.data
				}
				ls := cidlink.DefaultLinkSystem()
				ls.TrustedStorage = true
				ls.StorageReadOpener = func(_ linking.LinkContext, l datamodel.Link) (io.Reader, error) {
					d, ok := store[l.(cidlink.Link).Cid.KeyString()]
					if !ok {
						return nil, fmt.Errorf("block not found")
					}
					return bytes.NewReader(d), nil
				}
				root := g.tops[0].c
				sel := selectorparse.CommonSelector_ExploreAllRecursively
				o.dpad = uint64(pick(r, []int{0, 0, 1, 7, 1413}))
				o.ipad = uint64(pick(r, []int{0, 0, 1, 512}))
				o.storeID = true // the traversal writers index every section they write
				topts := []carv2.Option{carv2.UseDataPadding(o.dpad), carv2.UseIndexPadding(o.ipad), carv2.UseIndexCodec(multicodec.Code(o.codec))}
				ctx := context.Background()
				switch r.Intn(3) {
				case 0:
					dir, err := os.MkdirTemp(c.Work, "tv")
					if err != nil {
						panic(err)
					}
					dst := filepath.Join(dir, "out.car")
					if err := carv2.TraverseToFile(ctx, &ls, root, sel, dst, topts...); err != nil {
						panic(err)
					}
					file, _ = os.ReadFile(dst)
					os.RemoveAll(dir)
					c.Count("frontend:TraverseToFile")
				case 1:
					w, err := carv2.NewSelectiveWriter(ctx, &ls, root, sel, topts...)
					if err != nil {
						panic(err)
					}
					var buf bytes.Buffer
					if _, err := w.WriteTo(&buf); err != nil {
						panic(err)
					}
					file = buf.Bytes()
					c.Count("frontend:NewSelectiveWriter")
				default:
					var buf bytes.Buffer
					if _, err := carv2.TraverseV1(ctx, &ls, root, sel, &buf, topts...); err != nil {
						panic(err)
					}
					file = buf.Bytes()
					o.v1 = true
					c.Count("frontend:TraverseV1")
				}
			}
			hok, hdrs := c05FileTables(file)
			c.Emit("finalfile", VL{o.val(), VB(file), hok, hdrs, VN(2)}, c05RunFinalFileImpl(c, file), true)
		}

		// ---- 4. damaged finished files: the two checker models against the real checkers
		for i, f := range finished {
			r := c.R.Fork()
			o := finishedOpts[i]
			emit := func(g []byte, what string) {
				hok, hdrs := c05FileTables(g)
				in := VL{o.val(), VB(g), hok, hdrs, VN(0)}
				c.Emit("finalfile", in, c05RunFinalFileImpl(c, g), true)
				c.Count("damage:" + what)
			}
			emit(f, "none")
			for t := 0; t < 3; t++ {
				emit(f[:r.Intn(len(f))], "truncate")
			}
			for t := 0; t < 6; t++ {
				g := append([]byte(nil), f...)
				g[r.Intn(len(g))] ^= pick(r, []byte{0x01, 0x80, 0xff, 0x7f})
				emit(g, "flip")
			}
			if !o.v1 && len(f) >= 51 {
				for t := 0; t < 5; t++ {
					g := append([]byte(nil), f...)
					field := 11 + 8*r.Intn(5)
					delta := pick(r, []int{1, -1, 7, 100, -40})
					v := int(g[field]) + delta
					g[field] = byte(v)
					emit(g, "v2header-field")
				}
				g := append([]byte(nil), f...)
				for j := 43; j < 51; j++ {
					g[j] = 0 // IndexOffset := 0 with the index bytes still in the file
				}
				emit(g, "index-offset-zero")
				emit(append(append([]byte(nil), f...), 0), "trailing-byte")
				// index stripped and IndexOffset := 0: an index-less CARv2 (accepted by car verify only without data padding)
				end := 51 + int(o.dpad) + int(uint64(f[35])|uint64(f[36])<<8|uint64(f[37])<<16|uint64(f[38])<<24)
				if end <= len(f) {
					g2 := append([]byte(nil), f[:end]...)
					for j := 43; j < 51; j++ {
						g2[j] = 0
					}
					emit(g2, "index-stripped")
				}
			}
		}
	})
}
