package main

import (
	blocks "github.com/ipfs/go-block-format"
	"bytes"
	"errors"
	"fmt"
	"io"
	"os"
	"path/filepath"

	carv2 "github.com/ipld/go-car/v2"
)

// kind "brpos": ((srckind chunk) opts file hok hdr choices expect) -> NewBlockReader over a
// source of the given kind, then Next (choice 1) / SkipNext (choice 0) until the choices run
// out or a call fails; after every call the source's read position and (for the counting
// sources) the high-water mark of delivered bytes are recorded.
//
// srckind: 0 *bytes.Reader, 1 *os.File, 2 plain io.Reader (counting, at most `chunk` bytes per
// Read), 3 counting Read+ReadByte+Seek, 4 counting Read+Seek.

// cntSrc is an in-memory source that tracks its position and the furthest byte delivered.
type cntSrc struct {
	data  []byte
	pos   int64
	hw    int64
	chunk int
	// dataErr: the Read that delivers the last byte also returns io.EOF (allowed by io.Reader)
	dataErr bool
}

func (s *cntSrc) read(p []byte) (int, error) {
	if len(p) == 0 {
		return 0, nil
	}
	if s.pos >= int64(len(s.data)) {
		return 0, io.EOF
	}
	if s.chunk > 0 && len(p) > s.chunk {
		p = p[:s.chunk]
	}
	n := copy(p, s.data[s.pos:])
	s.pos += int64(n)
	if n > 0 && s.pos > s.hw {
		s.hw = s.pos
	}
	if s.dataErr && s.pos >= int64(len(s.data)) {
		return n, io.EOF
	}
	return n, nil
}
func (s *cntSrc) seek(off int64, whence int) (int64, error) {
	var abs int64
	switch whence {
	case io.SeekStart:
		abs = off
	case io.SeekCurrent:
		abs = s.pos + off
	case io.SeekEnd:
		abs = int64(len(s.data)) + off
	default:
		return 0, errors.New("cntSrc: bad whence")
	}
	if abs < 0 {
		return 0, errors.New("cntSrc: negative position")
	}
	s.pos = abs
	return abs, nil
}

type srcPlain struct{ s *cntSrc }

func (r srcPlain) Read(p []byte) (int, error) { return r.s.read(p) }

type srcRS struct{ s *cntSrc }

func (r srcRS) Read(p []byte) (int, error)              { return r.s.read(p) }
func (r srcRS) Seek(o int64, w int) (int64, error)      { return r.s.seek(o, w) }

type srcBRS struct{ s *cntSrc }

func (r srcBRS) Read(p []byte) (int, error)             { return r.s.read(p) }
func (r srcBRS) Seek(o int64, w int) (int64, error)     { return r.s.seek(o, w) }
func (r srcBRS) ReadByte() (byte, error) {
	var b [1]byte
	n, err := r.s.read(b[:])
	if n == 1 {
		return b[0], nil
	}
	return 0, err
}

var brposFileSeq int

func runBrposImpl(c *Ctx, kind uint64, chunk int, o rOpts, file []byte, choices []bool) Val {
	return runBrposImplD(c, kind, chunk, false, o, file, choices)
}

// runBrposImplD: dataErr makes the counting sources (kinds 2..4) report io.EOF together with their
// last bytes.
func runBrposImplD(c *Ctx, kind uint64, chunk int, dataErr bool, o rOpts, file []byte, choices []bool) Val {
	var r io.Reader
	var posHw func() (uint64, uint64)
	switch kind {
	case 0:
		br := bytes.NewReader(file)
		r = br
		posHw = func() (uint64, uint64) { p, _ := br.Seek(0, io.SeekCurrent); return uint64(p), 0 }
	case 1:
		brposFileSeq++
		path := filepath.Join(c.Work, fmt.Sprintf("brpos-%d.car", brposFileSeq))
		if err := os.WriteFile(path, file, 0o644); err != nil {
			panic(err)
		}
		f, err := os.Open(path)
		if err != nil {
			panic(err)
		}
		defer func() { f.Close(); os.Remove(path) }()
		r = f
		posHw = func() (uint64, uint64) { p, _ := f.Seek(0, io.SeekCurrent); return uint64(p), 0 }
	default:
		s := &cntSrc{data: file, chunk: chunk, dataErr: dataErr}
		switch kind {
		case 2:
			r = srcPlain{s}
		case 3:
			r = srcBRS{s}
		default:
			r = srcRS{s}
		}
		posHw = func() (uint64, uint64) { return uint64(s.pos), uint64(s.hw) }
	}
	br, err := carv2.NewBlockReader(r, o.v2()...)
	if err != nil {
		return VL{VT("openerr"), verr(err)}
	}
	p0, h0 := posHw()
	steps := VL{}
	var end Val = VL{VT("stop")}
	// what the calls handed out is kept for the whole walk (the way a caller collecting blocks and
	// offsets does) and read again after it: nothing returned earlier may change under later calls
	var keptBlocks []blocks.Block
	var keptMeta []*carv2.BlockMetadata
	var keptKind []bool
	for _, next := range choices {
		if next {
			b, err := br.Next()
			if err != nil {
				end = endVal(err, posHw)
				break
			}
			p, h := posHw()
			steps = append(steps, VL{VT("N"), VB(b.Cid().Bytes()), VB(append([]byte(nil), b.RawData()...)), VN(p), VN(h)})
			keptBlocks = append(keptBlocks, b)
			keptKind = append(keptKind, true)
		} else {
			m, err := br.SkipNext()
			if err != nil {
				end = endVal(err, posHw)
				break
			}
			p, h := posHw()
			steps = append(steps, VL{VT("S"), VB(m.Cid.Bytes()), VN(m.Offset), VN(m.SourceOffset), VN(m.Size), VN(p), VN(h)})
			keptMeta = append(keptMeta, m)
			keptKind = append(keptKind, false)
		}
	}
	after := VL{}
	bi, mi := 0, 0
	for _, isNext := range keptKind {
		if isNext {
			b := keptBlocks[bi]
			bi++
			after = append(after, VL{VT("N"), VB(b.Cid().Bytes()), VB(b.RawData())})
		} else {
			m := keptMeta[mi]
			mi++
			after = append(after, VL{VT("S"), VB(m.Cid.Bytes()), VN(m.Offset), VN(m.SourceOffset), VN(m.Size)})
		}
	}
	return VL{VT("ok"), VN(br.Version), cidsVal(br.Roots), VN(p0), VN(h0), steps, end, after}
}

func endVal(err error, posHw func() (uint64, uint64)) Val {
	if err == io.EOF {
		p, h := posHw()
		return VL{VT("err"), verr(err), VN(p), VN(h)}
	}
	return VL{VT("err"), verr(err)}
}

func choicesVal(w []bool) Val {
	out := VL{}
	for _, b := range w {
		out = append(out, vbool(b))
	}
	return out
}

func emitBrpos(c *Ctx, kind uint64, chunk int, o rOpts, file []byte, w []bool, expect Val, nontrivial bool) {
	hok, hdrs := scanTables(file)
	in := VL{VL{VN(kind), VN(uint64(chunk))}, o.val(), VB(file), hok, hdrs, choicesVal(w), expect}
	obs := runBrposImpl(c, kind, chunk, o, file, w)
	c.Emit("brpos", in, obs, nontrivial)
}

func init() {
	registerReplay("brpos", func(c *Ctx, in Val) Val {
		l := in.(VL)
		k := l[0].(VL)
		ol := l[1].(VL)
		o := rOpts{ol[0].(VN) != 0, uint64(ol[1].(VN)), uint64(ol[2].(VN)), ol[3].(VN) != 0}
		var w []bool
		for _, x := range l[5].(VL) {
			w = append(w, x.(VN) != 0)
		}
		return runBrposImpl(c, uint64(k[0].(VN)), int(k[1].(VN)), o, []byte(l[2].(VB)), w)
	})
}
