package main

// Drivers for the `car` binary built from the working tree (c.CarBin): hand-assembled
// dag-pb / UnixFS DAGs (nothing here goes through an encoder that would sort or reject hostile
// links), sandbox directories, recursive snapshots.

import (
	"bytes"
	"context"
	"crypto/sha256"
	"fmt"
	"os"
	"os/exec"
	"path/filepath"
	"sort"
	"strconv"
	"strings"
	"syscall"
	"time"

	blocks "github.com/ipfs/go-block-format"
	"github.com/ipfs/go-cid"
	carv2 "github.com/ipld/go-car/v2"
	carbs "github.com/ipld/go-car/v2/blockstore"
	mh "github.com/multiformats/go-multihash"
)

func carv2NewBlockReader(f *os.File) (*carv2.BlockReader, error) { return carv2.NewBlockReader(f) }

// ---------------------------------------------------------------- val accessors
func vl(v Val) VL {
	if l, ok := v.(VL); ok {
		return l
	}
	return VL{}
}
func vnth(v Val, i int) Val {
	l := vl(v)
	if i < len(l) {
		return l[i]
	}
	return VL{}
}
func vb(v Val) []byte {
	if b, ok := v.(VB); ok {
		return []byte(b)
	}
	return nil
}
func vt(v Val) string {
	if t, ok := v.(VT); ok {
		return string(t)
	}
	return ""
}
func vn(v Val) uint64 {
	if n, ok := v.(VN); ok {
		return uint64(n)
	}
	return 0
}

// ---------------------------------------------------------------- protobuf by hand
func pbVarint(x uint64) []byte {
	var out []byte
	for x >= 0x80 {
		out = append(out, byte(x)|0x80)
		x >>= 7
	}
	return append(out, byte(x))
}
func pbBytesField(field int, b []byte) []byte {
	out := pbVarint(uint64(field<<3 | 2))
	out = append(out, pbVarint(uint64(len(b)))...)
	return append(out, b...)
}
func pbVarintField(field int, v uint64) []byte {
	return append(pbVarint(uint64(field<<3|0)), pbVarint(v)...)
}

type pbLink struct {
	Cid      cid.Cid
	Name     []byte
	HasName  bool
	Tsize    uint64
	HasTsize bool
}

func encPBNode(links []pbLink, data []byte, hasData bool) []byte {
	var out []byte
	for _, l := range links {
		var lb []byte
		lb = append(lb, pbBytesField(1, l.Cid.Bytes())...)
		if l.HasName {
			lb = append(lb, pbBytesField(2, l.Name)...)
		}
		if l.HasTsize {
			lb = append(lb, pbVarintField(3, l.Tsize)...)
		}
		out = append(out, pbBytesField(2, lb)...)
	}
	if hasData {
		out = append(out, pbBytesField(1, data)...)
	}
	return out
}

const (
	ufsRaw       = 0
	ufsDirectory = 1
	ufsFile      = 2
	ufsMetadata  = 3
	ufsSymlink   = 4
	ufsHAMT      = 5
)

type ufsData struct {
	Type       uint64
	Data       []byte
	HasData    bool
	FileSize   uint64
	HasSize    bool
	BlockSizes []uint64
	HashType   uint64
	Fanout     uint64
	IsHAMT     bool
	Mode       uint64 // UnixFS 1.5 optional metadata
	HasMode    bool
	Mtime      int64
	HasMtime   bool
}

func encUnixFS(d ufsData) []byte {
	out := pbVarintField(1, d.Type)
	if d.HasData {
		out = append(out, pbBytesField(2, d.Data)...)
	}
	if d.HasSize {
		out = append(out, pbVarintField(3, d.FileSize)...)
	}
	for _, b := range d.BlockSizes {
		out = append(out, pbVarintField(4, b)...)
	}
	if d.IsHAMT {
		out = append(out, pbVarintField(5, d.HashType)...)
		out = append(out, pbVarintField(6, d.Fanout)...)
	}
	if d.HasMode {
		out = append(out, pbVarintField(7, d.Mode)...)
	}
	if d.HasMtime {
		out = append(out, pbBytesField(8, pbVarintField(1, uint64(d.Mtime)))...)
	}
	return out
}

// optional metadata hint of a build value: n<mode+1> (0 / absent: no metadata)
func (d ufsData) withMeta(h Val) ufsData {
	if m := vn(h); m > 0 {
		d.Mode, d.HasMode = m-1, true
		d.Mtime, d.HasMtime = 1700000000+int64(m), true
	}
	return d
}

func pbCid(data []byte) cid.Cid   { return mkCid(1, 0x70, mh.SHA2_256, -1, data) }
func rawCid(data []byte) cid.Cid  { return mkCid(1, 0x55, mh.SHA2_256, -1, data) }
func cborCid(data []byte) cid.Cid { return mkCid(1, 0x71, mh.SHA2_256, -1, data) }

// ---------------------------------------------------------------- DAG assembly from the case value
//
// utree value (model part first, build hints after it; the model ignores the hints):
//   (tf  b<data> n<form> n<chunks> n<mode+1>)  (tl b<target> n<mode+1>)  (td (...) n<form> n<mode+1>): optional UnixFS mode/mtime
//   (tf  b<data> n<form> n<chunks>)              form: 0 raw leaf, 1 pb File inline, 2 pb Raw inline,
//                                                       3 chunked raw leaves, 4 chunked pb leaves, 5 dag-cbor bytes
//   (tfe b<prefix> n<form 3|4> n<chunks> n<missing index> b<full data>)
//   (tl  b<target>)
//   (td  ((b<name> <utree> n<hasname>) ...) n<form>) form: 0 basic dir, 1 flat HAMT, 2 nested HAMT, 3 pb node
//                                                       without Data, 4 nested HAMT whose child shard is missing
//   (tm  b<salt>)
//   (tb  n<form> b<salt>)                        form: 0 no Data, 1 garbage Data, 2 Metadata type, 3 dag-cbor map,
//                                                       4 undecodable dag-pb bytes
type dagStore struct {
	blks []Blk
	seen map[string]bool
	gone map[string]bool // CIDs the case declares missing
	sb   *sandbox // for placeholder substitution in link targets
}

func (s *dagStore) missing(c cid.Cid) {
	if s.gone == nil {
		s.gone = map[string]bool{}
	}
	s.gone[c.KeyString()] = true
}

// collision: a block declared missing is present after all (same bytes elsewhere in the DAG);
// the case does not mean what its value says and must not be emitted.
func (s *dagStore) collision() bool {
	for k := range s.gone {
		if s.seen[k] {
			return true
		}
	}
	return false
}

func (s *dagStore) put(c cid.Cid, data []byte) {
	k := c.KeyString()
	if s.seen == nil {
		s.seen = map[string]bool{}
	}
	if s.seen[k] {
		return
	}
	s.seen[k] = true
	s.blks = append(s.blks, Blk{Cid: c, Data: data})
}

func splitChunks(data []byte, n int) [][]byte {
	if n < 1 {
		n = 1
	}
	out := make([][]byte, 0, n)
	per := (len(data) + n - 1) / n
	if per == 0 {
		per = 1
	}
	for i := 0; i < n; i++ {
		lo := i * per
		hi := lo + per
		if lo > len(data) {
			lo = len(data)
		}
		if hi > len(data) || i == n-1 {
			hi = len(data)
		}
		out = append(out, data[lo:hi])
	}
	return out
}

// buildFile returns the CID of a file DAG; chunk index `missing` (if >= 0) is not stored.
func (s *dagStore) buildFile(data []byte, form, chunks, missing int, meta Val) cid.Cid {
	switch form {
	case 0:
		c := rawCid(data)
		s.put(c, data)
		return c
	case 1, 2:
		t := uint64(ufsFile)
		if form == 2 {
			t = ufsRaw
		}
		nb := encPBNode(nil, encUnixFS(ufsData{Type: t, Data: data, HasData: true, FileSize: uint64(len(data)), HasSize: true}.withMeta(meta)), true)
		c := pbCid(nb)
		s.put(c, nb)
		return c
	case 5:
		// dag-cbor byte string
		var cb []byte
		n := len(data)
		switch {
		case n < 24:
			cb = []byte{0x40 | byte(n)}
		case n < 256:
			cb = []byte{0x58, byte(n)}
		default:
			cb = []byte{0x59, byte(n >> 8), byte(n)}
		}
		cb = append(cb, data...)
		c := cborCid(cb)
		s.put(c, cb)
		return c
	default:
		parts := splitChunks(data, chunks)
		var links []pbLink
		var sizes []uint64
		for i, p := range parts {
			var c cid.Cid
			var tsize uint64
			if form == 3 {
				c = rawCid(p)
				tsize = uint64(len(p))
				if i != missing {
					s.put(c, p)
				} else {
					s.missing(c)
				}
			} else {
				nb := encPBNode(nil, encUnixFS(ufsData{Type: ufsFile, Data: p, HasData: true, FileSize: uint64(len(p)), HasSize: true}), true)
				c = pbCid(nb)
				tsize = uint64(len(nb))
				if i != missing {
					s.put(c, nb)
				} else {
					s.missing(c)
				}
			}
			links = append(links, pbLink{Cid: c, Name: nil, HasName: true, Tsize: tsize, HasTsize: true})
			sizes = append(sizes, uint64(len(p)))
		}
		nb := encPBNode(links, encUnixFS(ufsData{Type: ufsFile, FileSize: uint64(len(data)), HasSize: true, BlockSizes: sizes}.withMeta(meta)), true)
		c := pbCid(nb)
		s.put(c, nb)
		return c
	}
}

func hamtData(meta ...Val) []byte {
	bf := bytes.Repeat([]byte{0xff}, 32)
	d := ufsData{Type: ufsHAMT, Data: bf, HasData: true, IsHAMT: true, HashType: 0x22, Fanout: 256}
	if len(meta) > 0 {
		d = d.withMeta(meta[0])
	}
	return encUnixFS(d)
}

// build returns the CID for a utree value and stores the blocks that are present.
func (s *dagStore) build(v Val) cid.Cid {
	switch vt(vnth(v, 0)) {
	case "f":
		return s.buildFile(vb(vnth(v, 1)), int(vn(vnth(v, 2))), int(vn(vnth(v, 3))), -1, vnth(v, 4))
	case "fe":
		return s.buildFile(vb(vnth(v, 5)), int(vn(vnth(v, 2))), int(vn(vnth(v, 3))), int(vn(vnth(v, 4))), VN(0))
	case "l":
		tg := s.sb.realStr(vb(vnth(v, 1)))
		nb := encPBNode(nil, encUnixFS(ufsData{Type: ufsSymlink, Data: tg, HasData: true}.withMeta(vnth(v, 2))), true)
		c := pbCid(nb)
		s.put(c, nb)
		return c
	case "m":
		nb := encPBNode(nil, encUnixFS(ufsData{Type: ufsFile, Data: append([]byte("missing-"), vb(vnth(v, 1))...), HasData: true}), true)
		c := pbCid(nb) // never stored
		s.missing(c)
		return c
	case "d":
		form := int(vn(vnth(v, 2)))
		var links []pbLink
		for _, e := range vl(vnth(v, 1)) {
			c := s.build(vnth(e, 1))
			hasName := true
			if hn, ok := vnth(e, 2).(VN); ok && hn == 0 {
				hasName = false
			}
			links = append(links, pbLink{Cid: c, Name: vb(vnth(e, 0)), HasName: hasName, Tsize: 1, HasTsize: true})
		}
		switch form {
		case 1, 2, 4:
			for i := range links {
				links[i].Name = append([]byte(fmt.Sprintf("%02X", i%256)), links[i].Name...)
				links[i].HasName = true
			}
			if form != 1 && len(links) >= 2 {
				lo := len(links) / 3
				hi := lo + (len(links)+1)/3
				if hi <= lo {
					hi = lo + 1
				}
				child := encPBNode(links[lo:hi], hamtData(), true)
				cc := pbCid(child)
				if form == 2 {
					s.put(cc, child)
				} else {
					s.missing(cc)
				}
				nl := append([]pbLink{}, links[:lo]...)
				nl = append(nl, pbLink{Cid: cc, Name: []byte("7F"), HasName: true, Tsize: 1, HasTsize: true})
				nl = append(nl, links[hi:]...)
				links = nl
			}
			nb := encPBNode(links, hamtData(vnth(v, 3)), true)
			c := pbCid(nb)
			s.put(c, nb)
			return c
		case 3:
			nb := encPBNode(links, nil, false)
			c := pbCid(nb)
			s.put(c, nb)
			return c
		default:
			nb := encPBNode(links, encUnixFS(ufsData{Type: ufsDirectory}.withMeta(vnth(v, 3))), true)
			c := pbCid(nb)
			s.put(c, nb)
			return c
		}
	default: // "b"
		form := int(vn(vnth(v, 1)))
		salt := vb(vnth(v, 2))
		switch form {
		case 0:
			nb := encPBNode([]pbLink{{Cid: rawCid(salt), Name: salt, HasName: true}}, nil, false)
			c := pbCid(nb)
			s.put(c, nb)
			return c
		case 1:
			nb := encPBNode(nil, append([]byte{0xff, 0xff, 0xff}, salt...), true)
			c := pbCid(nb)
			s.put(c, nb)
			return c
		case 2:
			nb := encPBNode(nil, encUnixFS(ufsData{Type: ufsMetadata, Data: salt, HasData: true}), true)
			c := pbCid(nb)
			s.put(c, nb)
			return c
		case 3:
			cb := append([]byte{0xa1, 0x61, 0x61, 0x58, byte(len(salt))}, salt...) // {"a": h'salt'}
			c := cborCid(cb)
			s.put(c, cb)
			return c
		default:
			nb := append([]byte{0x07, 0xff, 0xff}, salt...)
			c := pbCid(nb)
			s.put(c, nb)
			return c
		}
	}
}

// the order in which the extraction walk sees the entries of a (td ...) value (for forms 2 and 4
// the nested shard is spliced in / dropped): returns the model's view of the value.
func modelView(v Val) Val {
	switch vt(vnth(v, 0)) {
	case "d":
		form := int(vn(vnth(v, 2)))
		ents := vl(vnth(v, 1))
		out := VL{}
		lo, hi := -1, -1
		if (form == 2 || form == 4) && len(ents) >= 2 {
			lo = len(ents) / 3
			hi = lo + (len(ents)+1)/3
			if hi <= lo {
				hi = lo + 1
			}
		}
		for i, e := range ents {
			if form == 4 && i >= lo && i < hi {
				continue
			}
			out = append(out, VL{vnth(e, 0), modelView(vnth(e, 1))})
		}
		return VL{VT("d"), out}
	case "f":
		return VL{VT("f"), vnth(v, 1)}
	case "fe":
		return VL{VT("fe"), vnth(v, 1)}
	case "l":
		return VL{VT("l"), vnth(v, 1)}
	case "m":
		return VL{VT("m")}
	default:
		return VL{VT("b")}
	}
}

// ---------------------------------------------------------------- sandbox
//
// The model places the sandbox at the physical path /SB; the real one is a fresh directory.
// Strings that start with "/SB" (output directory argument, symlink targets) are mapped both ways.
type sandbox struct {
	real string // symlink-free absolute path
}

var sbName = []byte("SB")

func newSandbox(c *Ctx) *sandbox {
	base := c.Work
	if base == "" {
		base = "/var/tmp"
	}
	d, err := os.MkdirTemp(base, "sb")
	if err != nil {
		panic(err)
	}
	r, err := filepath.EvalSymlinks(d)
	if err != nil {
		panic(err)
	}
	if err := os.Chmod(r, 0o755); err != nil {
		panic(err)
	}
	return &sandbox{real: r}
}
func (s *sandbox) remove() { os.RemoveAll(s.real) }

func (s *sandbox) realStr(m []byte) []byte {
	if bytes.HasPrefix(m, []byte("/SB")) && (len(m) == 3 || m[3] == '/') {
		return append([]byte(s.real), m[3:]...)
	}
	return m
}
func (s *sandbox) modelStr(r []byte) []byte {
	if bytes.HasPrefix(r, []byte(s.real)) && (len(r) == len(s.real) || r[len(s.real)] == '/') {
		return append([]byte("/SB"), r[len(s.real):]...)
	}
	return r
}
func (s *sandbox) realPath(p [][]byte) string {
	// p = SB :: rest
	parts := []string{s.real}
	for _, c := range p[1:] {
		parts = append(parts, string(c))
	}
	return strings.Join(parts, "/")
}

// fs value: ((path node) ...), path = (bSB bname ...), node = (td) | (tf bdata) | (tl btarget); parents first
type chmod struct {
	path string
	mode os.FileMode
}

func unixMode(m uint64) os.FileMode {
	fm := os.FileMode(m & 0o777)
	if m&0o4000 != 0 {
		fm |= os.ModeSetuid
	}
	if m&0o2000 != 0 {
		fm |= os.ModeSetgid
	}
	if m&0o1000 != 0 {
		fm |= os.ModeSticky
	}
	return fm
}
func modeBits(fm os.FileMode) uint64 {
	m := uint64(fm.Perm())
	if fm&os.ModeSetuid != 0 {
		m |= 0o4000
	}
	if fm&os.ModeSetgid != 0 {
		m |= 0o2000
	}
	if fm&os.ModeSticky != 0 {
		m |= 0o1000
	}
	return m
}

func (s *sandbox) populate(fs Val) {
	syscall.Umask(0o022)
	var chmods []chmod
	defer func() {
		// directories get their final bits once their contents are in place
		for i := len(chmods) - 1; i >= 0; i-- {
			if err := os.Chmod(chmods[i].path, unixMode(uint64(chmods[i].mode))); err != nil {
				panic(err)
			}
		}
		s.presetTimes()
	}()
	for _, e := range vl(fs) {
		var p [][]byte
		for _, c := range vl(vnth(e, 0)) {
			p = append(p, vb(c))
		}
		if len(p) == 0 || !bytes.Equal(p[0], sbName) {
			panic("fs entry outside the sandbox")
		}
		if len(p) == 1 {
			continue
		}
		rp := s.realPath(p)
		n := vnth(e, 1)
		var err error
		switch vt(vnth(n, 0)) {
		case "d":
			err = os.Mkdir(rp, 0o755)
			if m, ok := vnth(n, 1).(VN); ok && err == nil {
				chmods = append(chmods, chmod{rp, os.FileMode(m)})
			}
		case "f":
			err = os.WriteFile(rp, vb(vnth(n, 1)), 0o644)
			if m, ok := vnth(n, 2).(VN); ok && err == nil {
				err = os.Chmod(rp, unixMode(uint64(m)))
			}
		case "l":
			err = os.Symlink(string(s.realStr(vb(vnth(n, 1)))), rp)
		}
		if err != nil {
			panic(fmt.Sprintf("populate %s: %v", rp, err))
		}
	}
}

// every file and directory of a freshly populated sandbox gets this modification time, so that the
// snapshot can say whether an entry's mtime was touched without comparing clock values
var presetMtime = time.Unix(1500000000, 0)

func (s *sandbox) presetTimes() {
	filepath.Walk(s.real, func(p string, fi os.FileInfo, err error) error {
		if err == nil && fi.Mode()&os.ModeSymlink == 0 {
			if err := os.Chtimes(p, presetMtime, presetMtime); err != nil {
				panic(err)
			}
		}
		return nil
	})
}

// mtime flag of a file or directory outside the output directory: 1 untouched, 2 changed
func mtFlag(fi os.FileInfo) Val {
	if fi.ModTime().Equal(presetMtime) {
		return VN(1)
	}
	return VN(2)
}

type snapEnt struct {
	path [][]byte
	node Val
}

func cmpPath(a, b [][]byte) int {
	for i := 0; i < len(a) && i < len(b); i++ {
		if c := bytes.Compare(a[i], b[i]); c != 0 {
			return c
		}
	}
	return len(a) - len(b)
}

// absData keeps observations small: long contents are replaced by a digest on both sides.
func absData(b []byte) []byte {
	if len(b) <= 64 {
		return b
	}
	h := sha256.Sum256(b)
	return append([]byte("#sha256:"), h[:]...)
}

func (s *sandbox) snapshot(rr ...Val) Val {
	// rr: the real output directory (tsome <phys>) | (tnone); entries outside it carry an mtime flag
	outside := func(mp [][]byte) bool {
		if len(rr) == 0 {
			return false
		}
		if vt(vnth(rr[0], 0)) != "some" {
			return true
		}
		root := vl(vnth(rr[0], 1))
		if len(mp) < len(root) {
			return true
		}
		for i, c := range root {
			if !bytes.Equal(vb(c), mp[i]) {
				return true
			}
		}
		return false
	}
	var ents []snapEnt
	var walk func(real string, mp [][]byte)
	walk = func(real string, mp [][]byte) {
		fi, err := os.Lstat(real)
		if err != nil {
			panic(err)
		}
		switch {
		case fi.Mode()&os.ModeSymlink != 0:
			t, err := os.Readlink(real)
			if err != nil {
				panic(err)
			}
			ents = append(ents, snapEnt{mp, VL{VT("l"), VB(s.modelStr([]byte(t)))}})
		case fi.IsDir():
			dn := VL{VT("d"), VN(modeBits(fi.Mode()))}
			if outside(mp) {
				dn = append(dn, mtFlag(fi))
			}
			ents = append(ents, snapEnt{mp, dn})
			des, err := os.ReadDir(real)
			if err != nil {
				panic(err)
			}
			for _, de := range des {
				np := append(append([][]byte{}, mp...), []byte(de.Name()))
				walk(real+"/"+de.Name(), np)
			}
		case fi.Mode().IsRegular():
			b, err := os.ReadFile(real)
			if err != nil {
				panic(err)
			}
			fn := VL{VT("f"), VB(absData(b)), VN(modeBits(fi.Mode()))}
			if outside(mp) {
				fn = append(fn, mtFlag(fi))
			}
			ents = append(ents, snapEnt{mp, fn})
		default:
			ents = append(ents, snapEnt{mp, VL{VT("special")}})
		}
	}
	walk(s.real, [][]byte{sbName})
	sort.Slice(ents, func(i, j int) bool { return cmpPath(ents[i].path, ents[j].path) < 0 })
	out := VL{}
	for _, e := range ents {
		p := VL{}
		for _, c := range e.path {
			p = append(p, VB(c))
		}
		out = append(out, VL{p, e.node})
	}
	return out
}

// physical model path of a real path under the sandbox
func (s *sandbox) modelPhys(real string) (Val, bool) {
	if real != s.real && !strings.HasPrefix(real, s.real+"/") {
		return nil, false
	}
	out := VL{VB(sbName)}
	rest := strings.TrimPrefix(real, s.real)
	for _, c := range strings.Split(rest, "/") {
		if c != "" {
			out = append(out, VB([]byte(c)))
		}
	}
	return out, true
}

// ---------------------------------------------------------------- running the binary
type cliResult struct {
	exit   int
	stdout []byte
	stderr []byte
}

func runCar(c *Ctx, dir string, stdin []byte, args ...string) cliResult {
	ctx, cancel := context.WithTimeout(context.Background(), 60*time.Second)
	defer cancel()
	cmd := exec.CommandContext(ctx, c.CarBin, args...)
	cmd.Dir = dir
	if stdin != nil {
		cmd.Stdin = bytes.NewReader(stdin)
	}
	var so, se bytes.Buffer
	cmd.Stdout = &so
	cmd.Stderr = &se
	err := cmd.Run()
	res := cliResult{stdout: so.Bytes(), stderr: se.Bytes()}
	if err != nil {
		if ee, ok := err.(*exec.ExitError); ok {
			res.exit = ee.ExitCode()
			if ws, ok := ee.Sys().(syscall.WaitStatus); ok && ws.Signaled() {
				res.exit = 128 + int(ws.Signal())
			}
		} else {
			panic(fmt.Sprintf("cannot run %s: %v", c.CarBin, err))
		}
	}
	return res
}

// status of a `car extract` run: (tok n<count>) | (tnofiles) | (terr)
func extractStatus(r cliResult) Val {
	if r.exit == 0 {
		// "extracted %d file(s)\n" is the last line on stderr
		lines := strings.Split(strings.TrimSpace(string(r.stderr)), "\n")
		last := lines[len(lines)-1]
		f := strings.Fields(last)
		if len(f) >= 2 && f[0] == "extracted" {
			if n, err := strconv.ParseUint(f[1], 10, 64); err == nil {
				return VL{VT("ok"), VN(n)}
			}
		}
		return VL{VT("ok-unparsed")}
	}
	if r.exit == 1 && strings.Contains(string(r.stderr), "no files extracted") {
		return VL{VT("nofiles")}
	}
	if r.exit >= 2 && r.exit != 1 {
		// a Go panic exits with 2, a signal with 128+n: never an expected outcome
		if strings.Contains(string(r.stderr), "panic:") || r.exit > 128 {
			return VL{VT("CRASH")}
		}
	}
	return VL{VT("err")}
}

// ---------------------------------------------------------------- kind "extract"
//
// input: (fs cwd outdir pathflag roots opts buildroots)
//   roots      = what the walk is presented with (the model reads only this): ((traw) | (tn <utree>)) ...
//   buildroots = the same forest with build hints: ((traw n<present>) | (tn <utree with hints>)) ...
//   opts       = (n<stdin> n<carv2> n<no output argument: run in the directory outdir names (logical path)>)
// observation: (status realroot fs-after stdout)
func extractInput(fs, cwd Val, outdir, pathflag []byte, buildroots VL, opts Val) Val {
	roots := VL{}
	for _, r := range buildroots {
		if vt(vnth(r, 0)) == "raw" {
			roots = append(roots, VL{VT("raw")})
		} else {
			roots = append(roots, VL{VT("n"), modelView(vnth(r, 1))})
		}
	}
	return VL{fs, cwd, VB(outdir), VB(pathflag), roots, opts, buildroots}
}

func runExtractCase(c *Ctx, in Val) Val {
	sb := newSandbox(c)
	defer sb.remove()
	sb.populate(vnth(in, 0))
	// archive
	st := &dagStore{sb: sb}
	var roots []cid.Cid
	for i, r := range vl(vnth(in, 6)) {
		if vt(vnth(r, 0)) == "raw" {
			data := []byte(fmt.Sprintf("raw-root-%d", i))
			rc := rawCid(data)
			if vn(vnth(r, 1)) != 0 {
				st.put(rc, data)
			}
			roots = append(roots, rc)
		} else {
			roots = append(roots, st.build(vnth(r, 1)))
		}
	}
	if st.collision() {
		return VL{VT("generator-collision")}
	}
	payload := refPayload(roots, st.blks)
	opts := vnth(in, 5)
	useStdin := vn(vnth(opts, 0)) != 0
	if vn(vnth(opts, 1)) != 0 {
		payload = v2Container(payload, 0, nil)
	}
	carDir, err := os.MkdirTemp(c.Work, "car")
	if err != nil {
		panic(err)
	}
	if os.Getenv("VERIF_CLI_KEEP") == "" {
		defer os.RemoveAll(carDir)
	}
	carPath := carDir + "/in.car"
	if err := os.WriteFile(carPath, payload, 0o644); err != nil {
		panic(err)
	}
	// working directory and output directory argument
	var cwdp [][]byte
	for _, x := range vl(vnth(in, 1)) {
		cwdp = append(cwdp, vb(x))
	}
	cwdReal := sb.realPath(cwdp)
	outArg := string(sb.realStr(vb(vnth(in, 2))))
	// what the argument really names, before anything runs
	rr := Val(VL{VT("none")})
	probe := outArg
	if !strings.HasPrefix(probe, "/") {
		probe = cwdReal + "/" + probe
	}
	if res, err := filepath.EvalSymlinks(probe); err == nil {
		if mp, ok := sb.modelPhys(res); ok {
			rr = VL{VT("some"), mp}
		} else {
			rr = VL{VT("some-outside-sandbox")}
		}
	}
	args := []string{"extract"}
	if !useStdin {
		args = append(args, "-f", carPath)
	}
	if pf := vb(vnth(in, 3)); len(pf) > 0 {
		args = append(args, "--path", string(pf))
	}
	noArg := vn(vnth(opts, 2)) != 0
	if noArg {
		// no output directory argument: the tool extracts into os.Getwd(), which is the logical
		// ($PWD) spelling of the directory the process was started in
		cwdReal = outArg
	} else {
		args = append(args, outArg)
	}
	var stdin []byte
	if useStdin {
		stdin = payload
	}
	res := runCar(c, cwdReal, stdin, args...)
	if os.Getenv("VERIF_CLI_DEBUG") != "" {
		fmt.Fprintf(os.Stderr, "car %q (cwd %s) exit=%d\nstderr: %s\n", args, cwdReal, res.exit, res.stderr)
	}
	if outArg == "-" {
		rr = VL{VT("none")} // standard output, not a directory
	}
	return VL{extractStatus(res), rr, sb.snapshot(rr), VB(res.stdout)}
}

func init() {
	registerReplay("extract", func(c *Ctx, in Val) Val { return runExtractCase(c, in) })
}

// ---------------------------------------------------------------- kind "createextract" (C18)
//
// input: (fs cwd outdir pathflag roots opts src srcpath dstpath)
//   fs      = sandbox before extraction: source tree, empty output directory
//   roots   = ((tn <utree>)): what `car create` builds from the source, as the walk sees it
//   opts    = (n<version 1|2> n<no-wrap> n<mode: 0 -f file, 1 stdin from a file, 2 stdin from a pipe>
//              n<no output argument: extract runs in the directory outdir names>)
//   src     = (b<source argument of car create> | (b<source argument> ...)  ((b<digest> n<seed> n<len> n<zero tail> n<chunk repeats> b<explicit> n<zero head>) ...))
//             recipes for contents longer than 64 bytes (the fs value carries only their digest)
// observation: (status realroot fs-after (n<roots> n<printed = header root> n<root != proxy> n<root block present>))
const proxyRootStr = "bafybeihdwdcefgh4dqkjv67uzcmw7ojee6xedzdetojuzjevtenxquvyku"

func bigFileData(seed uint64, n int) []byte { return NewRNG(seed).Bytes(n) }

// contentOf: explicit bytes | one random 256 KiB chunk repeated | random bytes whose last ztail bytes are zero
func contentOf(seed uint64, n, ztail, rep int, explicit []byte, zhead ...int) []byte {
	if len(explicit) > 0 {
		return explicit
	}
	var d []byte
	if rep > 0 {
		ch := bigFileData(seed, 262144)
		for len(d) < n {
			d = append(d, ch...)
		}
		d = d[:n]
	} else if ztail >= n {
		d = make([]byte, n)
	} else {
		d = bigFileData(seed, n)
	}
	for i := n - ztail; i < n; i++ {
		if i >= 0 {
			d[i] = 0
		}
	}
	if len(zhead) > 0 {
		for i := 0; i < zhead[0] && i < n; i++ {
			d[i] = 0
		}
	}
	return d
}

func runCreateExtractCase(c *Ctx, in Val) Val {
	sb := newSandbox(c)
	defer sb.remove()
	// regenerate big files from their recipes
	recipes := map[string][]byte{}
	for _, h := range vl(vnth(vnth(in, 6), 1)) {
		recipes[string(vb(vnth(h, 0)))] = contentOf(vn(vnth(h, 1)), int(vn(vnth(h, 2))), int(vn(vnth(h, 3))), int(vn(vnth(h, 4))), vb(vnth(h, 5)), int(vn(vnth(h, 6))))
	}
	fs := VL{}
	for _, e := range vl(vnth(in, 0)) {
		n := vnth(e, 1)
		if vt(vnth(n, 0)) == "f" {
			if d, ok := recipes[string(vb(vnth(n, 1)))]; ok {
				e = VL{vnth(e, 0), VL{VT("f"), VB(d)}}
			}
		}
		fs = append(fs, e)
	}
	sb.populate(fs)
	var cwdp [][]byte
	for _, x := range vl(vnth(in, 1)) {
		cwdp = append(cwdp, vb(x))
	}
	cwdReal := sb.realPath(cwdp)
	carDir, err := os.MkdirTemp(c.Work, "car")
	if err != nil {
		panic(err)
	}
	defer os.RemoveAll(carDir)
	carPath := carDir + "/out.car"
	opts := vnth(in, 5)
	version := vn(vnth(opts, 0))
	nowrap := vn(vnth(opts, 1)) != 0
	mode := vn(vnth(opts, 2))
	var srcArgs []string
	if l, ok := vnth(vnth(in, 6), 0).(VL); ok {
		for _, a := range l {
			srcArgs = append(srcArgs, string(sb.realStr(vb(a))))
		}
	} else {
		srcArgs = []string{string(sb.realStr(vb(vnth(vnth(in, 6), 0))))}
	}
	args := []string{"create", "--version", strconv.FormatUint(version, 10)}
	if nowrap {
		args = append(args, "--no-wrap")
	}
	args = append(args, "-f", carPath)
	args = append(args, srcArgs...)
	debug := os.Getenv("VERIF_CLI_DEBUG") != ""
	res := runCar(c, cwdReal, nil, args...)
	if debug {
		fmt.Fprintf(os.Stderr, "car %q exit=%d stderr: %s\n", args, res.exit, res.stderr)
	}
	if res.exit != 0 {
		return VL{VL{VT("create-failed")}, VL{VT("none")}, sb.snapshot(), VL{VN(0), VN(0), VN(0), VN(0)}}
	}
	// the root: what `car root` prints vs the header, read independently of the CLI
	rootInfo := VL{VN(0), VN(0), VN(0), VN(0)}
	if f, err := os.Open(carPath); err == nil {
		if br, err := carv2NewBlockReader(f); err == nil {
			rr := runCar(c, cwdReal, nil, "root", carPath)
			printed := strings.Fields(string(rr.stdout))
			rootInfo[0] = VN(len(br.Roots))
			if len(br.Roots) == 1 {
				rootInfo[1] = vbool(rr.exit == 0 && len(printed) == 1 && printed[0] == br.Roots[0].String())
				rootInfo[2] = vbool(br.Roots[0].String() != proxyRootStr)
				for {
					blk, err := br.Next()
					if err != nil {
						break
					}
					if blk.Cid().Equals(br.Roots[0]) {
						rootInfo[3] = VN(1)
					}
				}
			}
		}
		f.Close()
	}
	outArg := string(sb.realStr(vb(vnth(in, 2))))
	rrv := Val(VL{VT("none")})
	probe := outArg
	if !strings.HasPrefix(probe, "/") {
		probe = cwdReal + "/" + probe
	}
	if r, err := filepath.EvalSymlinks(probe); err == nil {
		if mp, ok := sb.modelPhys(r); ok {
			rrv = VL{VT("some"), mp}
		}
	}
	var xr cliResult
	xcwd := cwdReal
	xargs := []string{"extract"}
	if mode == 0 {
		xargs = append(xargs, "-f", carPath)
	}
	if vn(vnth(opts, 3)) != 0 {
		xcwd = outArg // no output argument: extract into the (logical) working directory
	} else {
		xargs = append(xargs, outArg)
	}
	switch mode {
	case 0:
		xr = runCar(c, xcwd, nil, xargs...)
	case 1:
		xr = runCarStdinFile(c, xcwd, carPath, xargs...)
	default:
		data, err := os.ReadFile(carPath)
		if err != nil {
			panic(err)
		}
		xr = runCar(c, xcwd, data, xargs...)
	}
	if debug {
		fmt.Fprintf(os.Stderr, "car extract (mode %d) exit=%d stderr: %s\n", mode, xr.exit, xr.stderr)
	}
	return VL{extractStatus(xr), rrv, sb.snapshot(rrv), rootInfo}
}

// stdin connected to a regular file (seekable), as with `car extract dir < file.car`
func runCarStdinFile(c *Ctx, dir, stdinPath string, args ...string) cliResult {
	f, err := os.Open(stdinPath)
	if err != nil {
		panic(err)
	}
	defer f.Close()
	ctx, cancel := context.WithTimeout(context.Background(), 120*time.Second)
	defer cancel()
	cmd := exec.CommandContext(ctx, c.CarBin, args...)
	cmd.Dir = dir
	cmd.Stdin = f
	var so, se bytes.Buffer
	cmd.Stdout = &so
	cmd.Stderr = &se
	err = cmd.Run()
	res := cliResult{stdout: so.Bytes(), stderr: se.Bytes()}
	if err != nil {
		if ee, ok := err.(*exec.ExitError); ok {
			res.exit = ee.ExitCode()
		} else {
			panic(err)
		}
	}
	return res
}

func init() {
	registerReplay("createextract", func(c *Ctx, in Val) Val { return runCreateExtractCase(c, in) })
}

// ---------------------------------------------------------------- kind "createextractlarge" (C18)
//
// input: (utree opts), opts = (n<version> n<no-wrap> n<mode> n<synthetic> b<path>); the tree is written
// below /SB/src/t, packed, extracted into /SB/out and compared here (names, kinds, contents, link
// targets).  synthetic = 1: no source files and no `car create` -- creating tens of thousands of
// inodes costs more than the quick tier has -- the DAG (raw-leaf files, basic directories) is
// assembled here and written through blockstore.OpenReadWrite + Finalize, the store session `car create`
// itself uses; `car extract --path <path>` then extracts one sub-directory, which is compared.
func writeUtree(p string, v Val) {
	var err error
	switch vt(vnth(v, 0)) {
	case "f":
		err = os.WriteFile(p, vb(vnth(v, 1)), 0o644)
	case "l":
		err = os.Symlink(string(vb(vnth(v, 1))), p)
	case "d":
		err = os.Mkdir(p, 0o755)
		for _, e := range vl(vnth(v, 1)) {
			writeUtree(p+"/"+string(vb(vnth(e, 0))), vnth(e, 1))
		}
	}
	if err != nil {
		panic(err)
	}
}

// sameTree: the object at p is what the utree value says (and nothing else is there)
func sameTree(p string, v Val) bool {
	fi, err := os.Lstat(p)
	if err != nil {
		return false
	}
	switch vt(vnth(v, 0)) {
	case "f":
		b, err := os.ReadFile(p)
		return err == nil && fi.Mode().IsRegular() && bytes.Equal(b, vb(vnth(v, 1)))
	case "l":
		t, err := os.Readlink(p)
		return err == nil && t == string(vb(vnth(v, 1)))
	case "d":
		if !fi.IsDir() {
			return false
		}
		des, err := os.ReadDir(p)
		ents := vl(vnth(v, 1))
		if err != nil || len(des) != len(ents) {
			return false
		}
		for _, e := range ents {
			if !sameTree(p+"/"+string(vb(vnth(e, 0))), vnth(e, 1)) {
				return false
			}
		}
		return true
	}
	return false
}

// hintedTree turns a plain utree value into a build value: raw-leaf files, basic directories
func hintedTree(v Val) Val {
	switch vt(vnth(v, 0)) {
	case "f":
		return VL{VT("f"), vnth(v, 1), VN(0), VN(1)}
	case "d":
		ents := VL{}
		for _, e := range vl(vnth(v, 1)) {
			ents = append(ents, VL{vnth(e, 0), hintedTree(vnth(e, 1)), VN(1)})
		}
		return VL{VT("d"), ents, VN(0)}
	}
	return v
}

func runCreateExtractLargeCase(c *Ctx, in Val) Val {
	sb := newSandbox(c)
	defer sb.remove()
	syscall.Umask(0o022)
	tree := vnth(in, 0)
	opts := vnth(in, 1)
	version, nowrap, mode := vn(vnth(opts, 0)), vn(vnth(opts, 1)) != 0, vn(vnth(opts, 2))
	if err := os.MkdirAll(sb.real+"/src", 0o755); err != nil {
		panic(err)
	}
	if err := os.Mkdir(sb.real+"/out", 0o755); err != nil {
		panic(err)
	}
	t0 := time.Now()
	lap := func(what string) {
		if os.Getenv("VERIF_CLI_DEBUG") != "" {
			fmt.Fprintf(os.Stderr, "large: %s %.2fs\n", what, time.Since(t0).Seconds())
		}
		t0 = time.Now()
	}
	defer lap("compare")
	synthetic := vn(vnth(opts, 3)) != 0
	pathFlag := string(vb(vnth(opts, 4)))
	carDir, err := os.MkdirTemp(c.Work, "car")
	if err != nil {
		panic(err)
	}
	defer os.RemoveAll(carDir)
	carPath := carDir + "/out.car"
	if synthetic {
		st := &dagStore{sb: sb}
		rootCid := st.build(hintedTree(tree))
		var o []carv2.Option
		if version == 1 {
			o = append(o, carbs.WriteAsCarV1(true))
		}
		bs, err := carbs.OpenReadWrite(carPath, []cid.Cid{rootCid}, o...)
		if err != nil {
			panic(err)
		}
		for _, b := range st.blks {
			blk, err := blocks.NewBlockWithCid(b.Data, b.Cid)
			if err != nil {
				panic(err)
			}
			if err := bs.Put(context.Background(), blk); err != nil {
				panic(err)
			}
		}
		if err := bs.Finalize(); err != nil {
			panic(err)
		}
		lap("synthetic archive")
	} else {
		writeUtree(sb.real+"/src/t", tree)
		lap("write")
		args := []string{"create", "--version", strconv.FormatUint(version, 10)}
		if nowrap {
			args = append(args, "--no-wrap")
		}
		args = append(args, "-f", carPath, "src/t")
		if res := runCar(c, sb.real, nil, args...); res.exit != 0 {
			return VL{VL{VT("create-failed")}, VL{VN(0), VN(0), VN(0), VN(0)}, VN(0), VN(0)}
		}
	}
	rootInfo := VL{VN(0), VN(0), VN(0), VN(0)}
	if f, err := os.Open(carPath); err == nil {
		if br, err := carv2NewBlockReader(f); err == nil {
			rr := runCar(c, sb.real, nil, "root", carPath)
			printed := strings.Fields(string(rr.stdout))
			rootInfo[0] = VN(len(br.Roots))
			if len(br.Roots) == 1 {
				rootInfo[1] = vbool(rr.exit == 0 && len(printed) == 1 && printed[0] == br.Roots[0].String())
				rootInfo[2] = vbool(br.Roots[0].String() != proxyRootStr)
				for {
					blk, err := br.Next()
					if err != nil {
						break
					}
					if blk.Cid().Equals(br.Roots[0]) {
						rootInfo[3] = VN(1)
					}
				}
			}
		}
		f.Close()
	}
	var xr cliResult
	xargs := []string{"extract"}
	if mode == 0 {
		xargs = append(xargs, "-f", carPath)
	}
	if pathFlag != "" {
		xargs = append(xargs, "--path", pathFlag)
	}
	xargs = append(xargs, "out")
	switch mode {
	case 0:
		xr = runCar(c, sb.real, nil, xargs...)
	case 1:
		xr = runCarStdinFile(c, sb.real, carPath, xargs...)
	default:
		data, err := os.ReadFile(carPath)
		if err != nil {
			panic(err)
		}
		xr = runCar(c, sb.real, data, xargs...)
	}
	if synthetic {
		// out must hold exactly the selected sub-directory
		sub := Val(VL{VT("d"), VL{}})
		for _, e := range vl(vnth(tree, 1)) {
			if string(vb(vnth(e, 0))) == pathFlag {
				sub = VL{VT("d"), VL{VL{vnth(e, 0), vnth(e, 1)}}}
			}
		}
		return VL{extractStatus(xr), rootInfo, vbool(sameTree(sb.real+"/out", sub)), VN(1)}
	}
	if os.Getenv("VERIF_CLI_DEBUG") != "" {
		e := xr.stderr
		if len(e) > 600 {
			e = e[len(e)-600:]
		}
		fmt.Fprintf(os.Stderr, "large: extract exit=%d stderr tail: %s\n", xr.exit, e)
	}
	dst := sb.real + "/out/t"
	if nowrap {
		dst = sb.real + "/out"
	}
	return VL{extractStatus(xr), rootInfo, vbool(sameTree(dst, tree)), vbool(sameTree(sb.real+"/src/t", tree))}
}

func init() {
	registerReplay("createextractlarge", func(c *Ctx, in Val) Val { return runCreateExtractLargeCase(c, in) })
}
