package main

import (
	"bufio"
	"bytes"
	"context"
	"encoding/hex"
	"fmt"
	"os"
	"os/exec"
	"path/filepath"
	"sort"
	"strconv"
	"strings"
	"time"

	"github.com/ipfs/go-cid"
	carv2 "github.com/ipld/go-car/v2"
	"github.com/ipld/go-car/v2/index"
	"github.com/multiformats/go-multicodec"
	"github.com/multiformats/go-varint"
)

// kind "cli": one invocation of the car binary built from the working tree (see
// coq/theories/RunCli.v for the wire format).  Everything the binary sees is written into a fresh
// scratch directory under c.Work; observations are the exit status class, the output file and the
// parsed standard output.

type cliRes struct {
	status string // ok | err | crash
	stdout []byte
	stderr []byte
}

var cliSeq int

func cliDir(c *Ctx) string {
	cliSeq++
	d := filepath.Join(c.Work, fmt.Sprintf("cli%06d", cliSeq))
	if err := os.MkdirAll(d, 0o755); err != nil {
		panic(err)
	}
	return d
}

func carRun(c *Ctx, dir string, args ...string) cliRes { return carRunIn(c, dir, nil, args...) }

func carRunIn(c *Ctx, dir string, stdin []byte, args ...string) cliRes {
	if c.CarBin == "" {
		panic("the car binary was not built (needs_cli)")
	}
	ctx, cancel := context.WithTimeout(context.Background(), 60*time.Second)
	defer cancel()
	cmd := exec.CommandContext(ctx, c.CarBin, args...)
	cmd.Dir = dir
	cmd.Stdin = bytes.NewReader(stdin)
	var so, se bytes.Buffer
	cmd.Stdout = &so
	cmd.Stderr = &se
	err := cmd.Run()
	st := "ok"
	if err != nil {
		st = "crash"
		if ee, ok := err.(*exec.ExitError); ok && ee.ExitCode() == 1 {
			st = "err"
		}
	}
	c.Count("exit:" + st)
	return cliRes{st, so.Bytes(), se.Bytes()}
}

func fileVal(path string) Val {
	b, err := os.ReadFile(path)
	if err != nil {
		return VT("none")
	}
	return VB(b)
}

func cidString(b []byte) string {
	c, err := cid.Cast(b)
	if err != nil {
		return "not-a-cid-" + hex.EncodeToString(b)
	}
	return c.String()
}

func parseCidLines(out []byte) Val {
	l := VL{}
	sc := bufio.NewScanner(bytes.NewReader(out))
	sc.Buffer(make([]byte, 1<<20), 1<<26)
	for sc.Scan() {
		t := strings.TrimSpace(sc.Text())
		if t == "" {
			continue
		}
		c, err := cid.Decode(t)
		if err != nil {
			l = append(l, VT("unparsable"))
			continue
		}
		l = append(l, VB(c.Bytes()))
	}
	return l
}

// closure: what the tool's own checkers say about a file the tool produced
func postVal(c *Ctx, dir, out string, ok bool) Val {
	if !ok {
		return VL{}
	}
	if _, err := os.Stat(filepath.Join(dir, out)); err != nil {
		return VL{}
	}
	i := carRun(c, dir, "inspect", "--full", out)
	v := carRun(c, dir, "verify", out)
	return VL{VT(i.status), VT(v.status)}
}

var codecNames = map[uint64]string{1: "none", 2: "car-index-sorted", 3: "car-multihash-index-sorted", 4: "raw", 5: "no-such-codec-name"}

func codecArgs(k uint64) []string {
	if k == 0 {
		return nil
	}
	n, ok := codecNames[k]
	if !ok {
		n = "raw"
	}
	return []string{"--codec", n}
}

// damagePatch edits the text `car debug` wrote: kind 0 drops a line, 1 cuts the text short, 2 repeats a
// line, 3 overwrites a byte, 4 changes a hunk header's line counts, 5 changes a block's mode word.
func damagePatch(p []byte, kind, n uint64) []byte {
	lines := bytes.SplitAfter(p, []byte("\n"))
	pickLine := func(prefix string) int {
		var idx []int
		for i, l := range lines {
			if i > 0 && bytes.HasPrefix(l, []byte(prefix)) {
				idx = append(idx, i)
			}
		}
		if len(idx) == 0 {
			return -1
		}
		return idx[int(n%uint64(len(idx)))]
	}
	switch kind % 6 {
	case 0:
		if i := pickLine(""); i >= 0 {
			lines = append(lines[:i:i], lines[i+1:]...)
		}
	case 1:
		if len(p) > 20 {
			return p[:20+int(n%uint64(len(p)-20))]
		}
	case 2:
		if i := pickLine(""); i >= 0 {
			lines = append(lines[:i+1:i+1], lines[i:]...)
		}
	case 3:
		if len(p) > 20 {
			q := append([]byte(nil), p...)
			q[20+int(n%uint64(len(p)-20))] = byte(' ' + n%90)
			return q
		}
	case 4:
		if i := pickLine("@@ "); i >= 0 {
			lines[i] = []byte(fmt.Sprintf("@@ -0,%d +0,%d @@\n", n%7, n%5))
		}
	case 5:
		if i := pickLine("+++ "); i >= 0 {
			f := bytes.Fields(lines[i])
			if len(f) >= 3 {
				f[1] = []byte([]string{"raw", "dag-json", "dag-cbor", "nonsense"}[n%4])
				lines[i] = append(bytes.Join(f, []byte(" ")), '\n')
			}
		}
	}
	return bytes.Join(lines, nil)
}

func flagOn(flags VL, i int) bool { return i < len(flags) && vnum(flags[i]) != 0 }

// verbose listing: "<codec>: <cid>" lines, everything indented belongs to the block above
func parseVerboseList(out []byte) Val {
	l := VL{}
	for _, ln := range strings.Split(string(out), "\n") {
		if ln == "" || strings.HasPrefix(ln, "\t") {
			continue
		}
		i := strings.LastIndex(ln, ": ")
		if i < 0 {
			l = append(l, VT("unparsable"))
			continue
		}
		c, err := cid.Decode(strings.TrimSpace(ln[i+2:]))
		if err != nil {
			l = append(l, VT("unparsable"))
			continue
		}
		l = append(l, VB(c.Bytes()))
	}
	return l
}

func isVB(v Val) bool { _, ok := v.(VB); return ok }
func isVL(v Val) bool { _, ok := v.(VL); return ok }

func vnum(v Val) uint64 {
	if n, ok := v.(VN); ok {
		return uint64(n)
	}
	return 0
}

func parseInspect(out []byte) Val {
	lines := strings.Split(string(out), "\n")
	var ver, count, doff, dsize, ioff, idxKind uint64
	var present bool
	var bl, cl [3]uint64
	roots := VL{}
	num := func(s string) uint64 { n, _ := strconv.ParseUint(strings.TrimSpace(s), 10, 64); return n }
	triple := func(s string) (t [3]uint64) {
		p := strings.Split(s, "/")
		for i := 0; i < 3 && i < len(p); i++ {
			t[i] = num(p[i])
		}
		return
	}
	for i := 0; i < len(lines); i++ {
		ln := lines[i]
		switch {
		case strings.HasPrefix(ln, "Version: "):
			ver = num(ln[len("Version: "):])
		case strings.HasPrefix(ln, "Data offset: "):
			doff = num(ln[len("Data offset: "):])
		case strings.HasPrefix(ln, "Data (payload) length: "):
			dsize = num(ln[len("Data (payload) length: "):])
		case strings.HasPrefix(ln, "Index offset: "):
			ioff = num(ln[len("Index offset: "):])
		case strings.HasPrefix(ln, "Index type: "):
			switch strings.TrimSpace(ln[len("Index type: "):]) {
			case "(none)":
				idxKind = 0
			case "car-index-sorted":
				idxKind = 2
			case "car-multihash-index-sorted":
				idxKind = 3
			default:
				idxKind = 9
			}
		case strings.HasPrefix(ln, "Roots:"):
			rest := strings.TrimSpace(ln[len("Roots:"):])
			if rest == "(none)" {
				break
			}
			add := func(s string) {
				if c, err := cid.Decode(s); err == nil {
					roots = append(roots, VB(c.Bytes()))
				} else {
					roots = append(roots, VT("unparsable"))
				}
			}
			if rest != "" {
				add(rest)
				break
			}
			for i+1 < len(lines) && strings.HasPrefix(lines[i+1], "\t") {
				i++
				add(strings.TrimSpace(lines[i]))
			}
		case strings.HasPrefix(ln, "Root blocks present in data: "):
			present = strings.TrimSpace(ln[len("Root blocks present in data: "):]) == "Yes"
		case strings.HasPrefix(ln, "Block count: "):
			count = num(ln[len("Block count: "):])
		case strings.HasPrefix(ln, "Min / average / max block length (bytes): "):
			bl = triple(ln[len("Min / average / max block length (bytes): "):])
		case strings.HasPrefix(ln, "Min / average / max CID length (bytes): "):
			cl = triple(ln[len("Min / average / max CID length (bytes): "):])
		}
	}
	return VL{VN(ver), VN(count), vbool(present), VN(bl[0]), VN(bl[1]), VN(bl[2]), VN(cl[0]), VN(cl[1]), VN(cl[2]),
		VN(doff), VN(dsize), VN(ioff), VN(idxKind), roots}
}

// runCliImpl performs the invocation described by (cmd, flags, files) and returns the observation.
func runCliImpl(c *Ctx, cmd string, flags VL, files VL) Val {
	dir := cliDir(c)
	defer os.RemoveAll(dir)
	// a trailing (tpre b..) = content already sitting at the command's OUTPUT path
	var pre []byte
	hasPre := false
	if n := len(files); n > 0 {
		if l, ok := files[n-1].(VL); ok && len(l) == 2 {
			if t, ok := l[0].(VT); ok && t == "pre" {
				pre, hasPre = []byte(l[1].(VB)), true
				files = files[:n-1]
			}
		}
	}
	if hasPre {
		outName := map[string]string{"index": "out.car", "concat": "out.car", "indexcreate": "out.idx", "detach": "out.idx",
			"getblock": "out.bin", "listfile": "out.txt"}[cmd]
		if outName != "" {
			if err := os.WriteFile(filepath.Join(dir, outName), pre, 0o644); err != nil {
				panic(err)
			}
			c.Count("preexisting-output:" + cmd)
		}
	}
	if cmd == "outindep" {
		return runOutIndep(c, dir, flags)
	}
	names := make([]string, len(files))
	for i, f := range files {
		names[i] = fmt.Sprintf("in%d.car", i)
		if (cmd == "filter" || cmd == "getdag") && i == 1 {
			names[i] = "out.car"
		}
		if b, ok := f.(VB); ok {
			if err := os.WriteFile(filepath.Join(dir, names[i]), b, 0o644); err != nil {
				panic(err)
			}
		}
	}
	c.Count("cmd:" + cmd)
	switch cmd {
	case "filter":
		// the CID list: (text table mode intended) = the list file byte for byte, or plain (cid ...)
		var listText []byte
		viaStdin := false
		if cl := flags[0].(VL); len(cl) == 4 && isVB(cl[0]) && isVL(cl[1]) {
			listText = []byte(cl[0].(VB))
			viaStdin = vnum(cl[2]) == 1
		} else {
			var sb strings.Builder
			for _, s := range cl {
				sb.WriteString(cidString(s.(VB)))
				sb.WriteByte('\n')
			}
			listText = []byte(sb.String())
		}
		args := []string{"filter"}
		var stdin []byte
		if viaStdin {
			stdin = listText
			c.Count("cidlist:stdin")
		} else {
			os.WriteFile(filepath.Join(dir, "cids.txt"), listText, 0o644)
			args = append(args, "--cid-file", "cids.txt")
		}
		if vnum(flags[1]) != 0 {
			args = append(args, "--inverse")
		}
		args = append(args, "--version", strconv.FormatUint(vnum(flags[2]), 10))
		if vnum(flags[3]) != 0 {
			args = append(args, "--append")
		}
		args = append(args, names[0], "out.car")
		r := carRunIn(c, dir, stdin, args...)
		return VL{VT(r.status), fileVal(filepath.Join(dir, "out.car")), postVal(c, dir, "out.car", r.status == "ok")}
	case "index":
		args := append([]string{"index"}, codecArgs(vnum(flags[0]))...)
		args = append(args, "--version", strconv.FormatUint(vnum(flags[1]), 10), names[0], "out.car")
		r := carRun(c, dir, args...)
		return VL{VT(r.status), fileVal(filepath.Join(dir, "out.car")), postVal(c, dir, "out.car", r.status == "ok")}
	case "indexcreate":
		args := append([]string{"index"}, codecArgs(vnum(flags[0]))...)
		args = append(args, "create", names[0], "out.idx")
		r := carRun(c, dir, args...)
		return VL{VT(r.status), fileVal(filepath.Join(dir, "out.idx"))}
	case "detach":
		r := carRun(c, dir, "detach-index", names[0], "out.idx")
		return VL{VT(r.status), fileVal(filepath.Join(dir, "out.idx"))}
	case "detachlist":
		var r cliRes
		if flagOn(flags, 0) {
			r = carRunIn(c, dir, []byte(files[0].(VB)), "detach-index", "list")
			c.Count("stdin-pipe:detachlist")
		} else {
			r = carRun(c, dir, "detach-index", "list", names[0])
		}
		es := VL{}
		for _, ln := range strings.Split(string(r.stdout), "\n") {
			p := strings.Fields(ln)
			if len(p) != 2 {
				continue
			}
			mhb, err1 := hex.DecodeString(p[0])
			off, err2 := strconv.ParseUint(p[1], 10, 64)
			if err1 != nil || err2 != nil {
				es = append(es, VT("unparsable"))
				continue
			}
			es = append(es, VL{VB(mhb), VN(off)})
		}
		return VL{VT(r.status), es}
	case "getblock":
		r := carRun(c, dir, "get-block", names[0], cidString(flags[0].(VB)), "out.bin")
		data := VB{}
		if r.status == "ok" {
			if b, err := os.ReadFile(filepath.Join(dir, "out.bin")); err == nil {
				data = VB(b)
			}
		}
		return VL{VT(r.status), data}
	case "list": // flags (stdin verbose)
		args := []string{"list"}
		if flagOn(flags, 1) {
			args = append(args, "--verbose")
		}
		var r cliRes
		if flagOn(flags, 0) {
			r = carRunIn(c, dir, []byte(files[0].(VB)), args...) // a pipe on standard input, no file argument
			c.Count("stdin-pipe:list")
		} else {
			r = carRun(c, dir, append(args, names[0])...)
		}
		if flagOn(flags, 1) {
			return VL{VT(r.status), parseVerboseList(r.stdout)}
		}
		return VL{VT(r.status), parseCidLines(r.stdout)}
	case "listunixfs": // flags (blocks (rootvalue ...) (rootview ...))
		st := &dagStore{sb: &sandbox{real: "/nonexistent-sandbox"}}
		var roots []cid.Cid
		for _, rv := range flags[1].(VL) {
			roots = append(roots, st.build(rv))
		}
		if st.collision() {
			return VL{VT("collision"), VL{}}
		}
		os.WriteFile(filepath.Join(dir, "u.car"), refPayload(roots, st.blks), 0o644)
		args := []string{"list", "--unixfs"}
		if flagOn(flags, 0) {
			args = []string{"list", "--unixfs-blocks"}
		}
		r := carRun(c, dir, append(args, "u.car")...)
		ls := VL{}
		for _, ln := range strings.Split(string(r.stdout), "\n") {
			if ln == "" {
				continue
			}
			if flagOn(flags, 0) { // "<cid> <path>"
				if i := strings.Index(ln, " "); i >= 0 {
					ln = ln[i+1:]
				}
			}
			ls = append(ls, VB([]byte(ln)))
		}
		return VL{VT(r.status), ls}
	case "debugcompile":
		var r1 cliRes
		if flagOn(flags, 0) { // the archive through a pipe on standard input
			r1 = carRunIn(c, dir, []byte(files[0].(VB)), "debug", "-o", "p.patch")
			c.Count("stdin-pipe:debug")
		} else {
			r1 = carRun(c, dir, "debug", "-o", "p.patch", names[0])
		}
		if r1.status != "ok" {
			return VL{VT(r1.status)}
		}
		r2 := carRun(c, dir, "compile", "-o", "out.car", "p.patch")
		if r2.status != "ok" {
			return VL{VT(r2.status)}
		}
		out, _ := os.ReadFile(filepath.Join(dir, "out.car"))
		br, err := carv2.NewBlockReader(bytes.NewReader(out))
		if err != nil {
			return VL{VT("ok"), VT("unreadable")}
		}
		var bl []Blk
		for {
			b, err := br.Next()
			if err != nil {
				break
			}
			bl = append(bl, Blk{b.Cid(), b.RawData()})
		}
		sort.Slice(bl, func(i, j int) bool { return bytes.Compare(bl[i].Cid.Bytes(), bl[j].Cid.Bytes()) < 0 })
		return VL{VT("ok"), cidsVal(br.Roots), blksVal(bl), VN(uint64(len(out))), postVal(c, dir, "out.car", true)}
	case "compilebad":
		// car debug, the patch text damaged, car compile: whatever compile makes of it, it must not crash, and
		// an output it reports success for must be an archive inspect --full accepts.  (n1) = holds.
		if r1 := carRun(c, dir, "debug", "-o", "p.patch", names[0]); r1.status != "ok" {
			return VL{VN(1)}
		}
		p, _ := os.ReadFile(filepath.Join(dir, "p.patch"))
		p = damagePatch(p, vnum(flags[0]), vnum(flags[1]))
		os.WriteFile(filepath.Join(dir, "p.patch"), p, 0o644)
		r2 := carRun(c, dir, "compile", "-o", "out.car", "p.patch")
		c.Count("compilebad:compile-" + r2.status)
		switch r2.status {
		case "crash":
			return VL{VN(0), VB(p)}
		case "ok":
			if i := carRun(c, dir, "inspect", "--full", "out.car"); i.status != "ok" {
				return VL{VN(2), VB(p)}
			}
		}
		return VL{VN(1)}
	case "listfile":
		r := carRun(c, dir, "list", names[0], "out.txt")
		b, _ := os.ReadFile(filepath.Join(dir, "out.txt"))
		return VL{VT(r.status), parseCidLines(b)}
	case "root":
		var r cliRes
		if flagOn(flags, 0) {
			r = carRunIn(c, dir, []byte(files[0].(VB)), "root")
			c.Count("stdin-pipe:root")
		} else {
			r = carRun(c, dir, "root", names[0])
		}
		l := parseCidLines(r.stdout)
		if r.status != "ok" {
			l = VL{}
		}
		return VL{VT(r.status), l}
	case "concat":
		args := []string{"concat", "-o", "out.car", "--version", strconv.FormatUint(vnum(flags[0]), 10)}
		args = append(args, names...)
		r := carRun(c, dir, args...)
		return VL{VT(r.status), fileVal(filepath.Join(dir, "out.car")), postVal(c, dir, "out.car", r.status == "ok")}
	case "getdag":
		// (version root seljson strict trace); files (in out)
		args := []string{"get-dag"}
		if sj, ok := flags[2].(VB); ok {
			args = append(args, "--selector", string(sj))
		}
		if vnum(flags[3]) != 0 {
			args = append(args, "--strict")
		}
		args = append(args, "--version", strconv.FormatUint(vnum(flags[0]), 10), names[0])
		if rc, ok := flags[1].(VB); ok {
			args = append(args, cidString(rc))
		}
		args = append(args, "out.car")
		r := carRun(c, dir, args...)
		return VL{VT(r.status), fileVal(filepath.Join(dir, "out.car")), postVal(c, dir, "out.car", r.status == "ok")}
	case "verify":
		r := carRun(c, dir, "verify", names[0])
		return VL{VT(r.status)}
	case "inspect":
		args := []string{"inspect"}
		if vnum(flags[0]) != 0 {
			args = append(args, "--full")
		}
		var r cliRes
		if flagOn(flags, 1) {
			r = carRunIn(c, dir, []byte(files[0].(VB)), args...)
			c.Count("stdin-pipe:inspect")
		} else {
			r = carRun(c, dir, append(args, names[0])...)
		}
		if r.status != "ok" {
			return VL{VT(r.status), VL{}}
		}
		return VL{VT(r.status), parseInspect(r.stdout)}
	}
	return VL{VT("unknown-command")}
}

func init() {
	registerReplay("cli", func(c *Ctx, in Val) Val {
		l := in.(VL)
		return runCliImpl(c, string(l[0].(VT)), l[1].(VL), l[2].(VL))
	})
}

// ---- input archives ---------------------------------------------------------------------------

type Arch struct {
	roots    []cid.Cid
	nilRoots bool
	blks     []Blk
	payload  []byte
	file     []byte
	ver      int
	dpad     uint64
	ipad     uint64
	idxKind  uint64 // 0 no index, 2 car-index-sorted, 3 car-multihash-index-sorted
	storeID  bool   // the embedded index also lists identity CIDs (and the header says fully indexed)
}

func (a Arch) desc() Val {
	return VL{cidsVal(a.roots), blksVal(a.blks), vbool(a.nilRoots), VN(uint64(a.ver))}
}

// buildV2 lays a CARv2 out by hand around a payload: pragma, header, padding, payload, padding, index
// generated by the library from the payload.
func buildV2(payload []byte, dpad, ipad uint64, idxKind uint64, storeID bool) []byte {
	h := carv2.NewHeader(uint64(len(payload)))
	if dpad > 0 {
		h = h.WithDataPadding(dpad)
	}
	var idxBytes bytes.Buffer
	if idxKind != 0 {
		if ipad > 0 {
			h = h.WithIndexPadding(ipad)
		}
		codec := multicodec.CarMultihashIndexSorted
		if idxKind == 2 {
			codec = multicodec.CarIndexSorted
		}
		idx, err := carv2.GenerateIndex(bytes.NewReader(payload), carv2.UseIndexCodec(codec), carv2.StoreIdentityCIDs(storeID))
		if err != nil {
			panic(err)
		}
		if _, err := index.WriteTo(idx, &idxBytes); err != nil {
			panic(err)
		}
		h.Characteristics.SetFullyIndexed(storeID)
	} else {
		ipad = 0
		h.IndexOffset = 0
	}
	var buf bytes.Buffer
	buf.Write(carv2.Pragma)
	h.WriteTo(&buf)
	buf.Write(make([]byte, dpad))
	buf.Write(payload)
	if idxKind != 0 {
		buf.Write(make([]byte, ipad))
		buf.Write(idxBytes.Bytes())
	}
	return buf.Bytes()
}

// hash-oracle entries for everything a hashing walker can ask about a file: complete sections and,
// like Reader.Inspect, a final section cut short by the end of the payload window
func cliHok(tab VL, seen map[string]bool, file []byte) VL {
	add := func(cb, data []byte) {
		k := string(cb) + "|" + string(data)
		if seen[k] {
			return
		}
		seen[k] = true
		c, err := cid.Cast(cb)
		okv := false
		if err == nil {
			okv = hashOK(c, data)
		}
		tab = append(tab, VL{VB(cb), VB(data), vbool(okv)})
	}
	walk := func(p []byte) {
		l, n, err := varint.FromUvarint(p)
		if err != nil || l > uint64(len(p)-n) {
			return
		}
		p = p[n+int(l):]
		for len(p) > 0 {
			sl, sn, err := varint.FromUvarint(p)
			if err != nil || sl == 0 {
				return
			}
			p = p[sn:]
			cn, cc, err := cid.CidFromReader(bytes.NewReader(p))
			if err != nil {
				return
			}
			if uint64(cn) > sl {
				return
			}
			end := sl
			if end > uint64(len(p)) {
				end = uint64(len(p))
			}
			add(cc.Bytes(), p[cn:end])
			p = p[end:]
		}
	}
	walk(file)
	if len(file) >= 51 && bytes.Equal(file[:11], carv2.Pragma) {
		var h carv2.Header
		if _, err := h.ReadFrom(bytes.NewReader(file[11:51])); err == nil && h.DataOffset <= uint64(len(file)) {
			win := file[h.DataOffset:]
			if h.DataSize < uint64(len(win)) {
				win = win[:h.DataSize]
			}
			walk(win)
		}
	}
	return tab
}

func emitCli(c *Ctx, cmd string, flags VL, files VL, expect VL, nontrivial bool) Val {
	tab := VL{}
	seen := map[string]bool{}
	hdrs := VL{}
	for _, f := range files {
		if b, ok := f.(VB); ok {
			tab = cliHok(tab, seen, b)
			_, hs := scanTables(b)
			hdrs = append(hdrs, hs.(VL)...)
		}
	}
	obs := runCliImpl(c, cmd, flags, files)
	c.Emit("cli", VL{VT(cmd), flags, files, tab, hdrs, expect}, obs, nontrivial)
	return obs
}

// ---- commands outside the model (create, extract, debug, compile): the result must not depend on
// what was at the output path before.  flags = (tname payload...): the command is run in two fresh
// directories, once with the output path absent and once with a longer file of a recognisable
// pattern already there; observation 1 iff exit status and output bytes are identical.
func runOutIndep(c *Ctx, dir string, flags VL) Val {
	name := string(flags[0].(VT))
	pattern := bytes.Repeat([]byte{0xA5, 0x5A, 'P', 'R', 'E'}, 4000)
	run := func(sub string, withPre bool) (string, []byte) {
		d := filepath.Join(dir, sub)
		os.MkdirAll(d, 0o755)
		switch name {
		case "create": // (tcreate version ((name data) ...))
			var args []string
			args = append(args, "create", "-f", "out.car", "--version", strconv.FormatUint(vnum(flags[1]), 10))
			for _, e := range flags[2].(VL) {
				n := string(e.(VL)[0].(VB))
				os.WriteFile(filepath.Join(d, n), e.(VL)[1].(VB), 0o644)
				args = append(args, n)
			}
			if withPre {
				os.WriteFile(filepath.Join(d, "out.car"), pattern, 0o644)
			}
			r := carRun(c, d, args...)
			b, _ := os.ReadFile(filepath.Join(d, "out.car"))
			return r.status, b
		case "extract": // (textract ((name data) ...)): create, then extract into a directory holding longer files
			var args []string
			args = append(args, "create", "-f", "in.car")
			os.MkdirAll(filepath.Join(d, "src"), 0o755)
			for _, e := range flags[1].(VL) {
				n := string(e.(VL)[0].(VB))
				os.WriteFile(filepath.Join(d, "src", n), e.(VL)[1].(VB), 0o644)
				args = append(args, filepath.Join("src", n))
			}
			carRun(c, d, args...)
			os.MkdirAll(filepath.Join(d, "outdir"), 0o755)
			if withPre {
				for _, e := range flags[1].(VL) {
					os.WriteFile(filepath.Join(d, "outdir", string(e.(VL)[0].(VB))), pattern, 0o644)
				}
			}
			r := carRun(c, d, "extract", "-f", "in.car", "outdir")
			var all []byte
			for _, e := range flags[1].(VL) {
				b, _ := os.ReadFile(filepath.Join(d, "outdir", string(e.(VL)[0].(VB))))
				all = append(append(all, b...), 0)
			}
			return r.status, all
		case "debug", "compile": // (tdebug b<car>) / (tcompile b<car>): debug to a patch, compile it back
			os.WriteFile(filepath.Join(d, "in.car"), flags[1].(VB), 0o644)
			if name == "debug" {
				if withPre {
					os.WriteFile(filepath.Join(d, "out.patch"), pattern, 0o644)
				}
				r := carRun(c, d, "debug", "-o", "out.patch", "in.car")
				b, _ := os.ReadFile(filepath.Join(d, "out.patch"))
				return r.status, b
			}
			carRun(c, d, "debug", "-o", "out.patch", "in.car")
			if withPre {
				os.WriteFile(filepath.Join(d, "out.car"), pattern, 0o644)
			}
			r := carRun(c, d, "compile", "-o", "out.car", "out.patch")
			b, _ := os.ReadFile(filepath.Join(d, "out.car"))
			return r.status, b
		}
		return "unknown", nil
	}
	s1, b1 := run("absent", false)
	s2, b2 := run("pre", true)
	c.Count("outindep:" + name)
	same := bytes.Equal(b1, b2)
	if name == "compile" {
		// car compile emits its blocks in Go map order: compare as sorted block lists (and lengths)
		same = len(b1) == len(b2) && sortedBlocks(b1) != "" && sortedBlocks(b1) == sortedBlocks(b2)
	}
	switch {
	case s1 == "ok" && s2 == "ok" && same:
		return VL{VN(1)}
	case s1 == "ok" && s2 == "err" && bytes.Equal(b2, pattern):
		return VL{VN(2)} // refused: exit status 1 and the existing file untouched
	}
	return VL{VN(0), VT(s1), VT(s2), VN(uint64(len(b1))), VN(uint64(len(b2)))}
}

func sortedBlocks(file []byte) string {
	br, err := carv2.NewBlockReader(bytes.NewReader(file))
	if err != nil {
		return ""
	}
	var keys []string
	for {
		b, err := br.Next()
		if err != nil {
			break
		}
		keys = append(keys, string(b.Cid().Bytes())+"|"+string(b.RawData()))
	}
	sort.Strings(keys)
	out := fmt.Sprint(br.Roots)
	for _, k := range keys {
		out += "\x00" + k
	}
	return out
}
