#!/bin/bash
# pre_cmd of checks/C08.json:  check.sh <verif-dir> <repo> <work-dir> <tier>
# Regenerates the lock facts from the CURRENT Go source and re-checks the C08 obligations against
# them.  Prints lines understood by bin/check:
#   OBLIGATIONS <n> <discharged>      OBLIGATION-FAIL <what>
# Fast path: the regenerated file equals the committed coq/theories/GeneratedLockFacts.v, whose
# obligations the main build has just checked.  Otherwise GeneratedLockFacts.v, proofs/MonitorFacts.v
# and props/C08.v are recompiled in a scratch tree against the regenerated tables.
set -u
V=$1; REPO=$2; WORK=$3
export GOFLAGS=-mod=mod GOPROXY=off GOSUMDB=off GOTOOLCHAIN=local CGO_ENABLED=0 VERIF_REPO=$REPO
B=$V/.build
D=$WORK/lockfacts
mkdir -p "$D"
if ! ( cd "$B/harness-src" && go build -o "$B/lockfacts" ./lockfacts ) > "$D/build.log" 2>&1; then
  tail -20 "$D/build.log"
  echo "OBLIGATION-FAIL the lockfacts translator does not build"
  echo "OBLIGATIONS 1 0"
  exit 0
fi
if ! "$B/lockfacts" -repo "$REPO" -out "$D/GeneratedLockFacts.v" -report "$D/report.json" > "$D/run.log" 2>&1; then
  cat "$D/run.log"
  msg=$(grep '^TRANSLATOR-FAIL' "$D/run.log" | head -1 | cut -c17-300)
  echo "OBLIGATION-FAIL the translator fails closed on today's source: ${msg:-see log}"
  echo "OBLIGATIONS 1 0"
  exit 0
fi
cat "$D/run.log"
python3 - "$D/report.json" <<'PY'
import json, sys
r = json.load(open(sys.argv[1]))
for n in r.get('Notes') or []: print('lockfacts note:', n)
for n in r.get('Pruned') or []: print('lockfacts pruned:', n)
for i in r['Instances']:
    for m, why in (i.get('Other') or {}).items():
        print(f"lockfacts outside-the-property: {i['Name']}.{m}: {why}")
    for b in i.get('Blocking') or []:
        if b['Listed']: print(f"lockfacts listed blocking site: {b['Name']}: {b['Why']}")
PY
if cmp -s "$D/GeneratedLockFacts.v" "$V/coq/theories/GeneratedLockFacts.v"; then
  echo "lockfacts: regenerated tables are identical to coq/theories/GeneratedLockFacts.v (checked by the main build)"
  echo "OBLIGATIONS 1 1"
  exit 0
fi
echo "lockfacts: regenerated tables differ from the committed copy; re-checking MonitorFacts.v and props/C08.v against them"
S=$D/coq
mkdir -p "$S/theories" "$S/proofs" "$S/props"
for f in "$V"/coq/theories/*.vo; do
  [ "$(basename "$f")" = GeneratedLockFacts.vo ] || ln -sf "$f" "$S/theories/"
done
for f in "$V"/coq/proofs/*.vo; do
  case "$(basename "$f")" in MonitorFacts.vo|MonitorExamples.vo) ;; *) ln -sf "$f" "$S/proofs/";; esac
done
cp "$D/GeneratedLockFacts.v" "$S/theories/"
cp "$V/coq/proofs/MonitorFacts.v" "$S/proofs/"
cp "$V/coq/props/C08.v" "$S/props/"
Q="-Q $S/theories GoCar -Q $S/proofs GoCarProofs -Q $S/props GoCarProps -w -notation-overridden,-deprecated"
if ! ( cd "$S" && timeout 600 coqc $Q theories/GeneratedLockFacts.v ) > "$D/coq-gen.log" 2>&1; then
  tail -20 "$D/coq-gen.log"
  echo "OBLIGATION-FAIL the regenerated GeneratedLockFacts.v does not compile"
  echo "OBLIGATIONS 1 0"
  exit 0
fi
# what the executable check says about today's tables (diagnostics; the verdict is the recompilation below)
cat > "$S/Diag.v" <<'COQ'
From Coq Require Import List.
From Coq Require Strings.String.
Import ListNotations.
Import Coq.Strings.String.StringSyntax.
From GoCar Require Import Monitor GeneratedLockFacts.
Local Open Scope string_scope.
Eval vm_compute in (flat_map (fun I => map (fun v => (i_name I, fst v, snd v)) (violations I)) facts).
Eval vm_compute in (flat_map (fun I => map (fun v => (String.append "atomicity:" (i_name I), fst v, snd v)) (atomicity_violations I)) facts).
Eval vm_compute in (flat_map (fun I => map (fun v => (String.append "shape:" (i_name I), fst v, snd v)) (reduction_shape_violations I)) facts).
Eval vm_compute in (flat_map (fun I => if String.eqb (i_name I) "ReadOnly" then [] else map (fun v => (String.append "panic:" (i_name I), fst v, snd v)) (panic_violations I)) facts).
COQ
( cd "$S" && timeout 300 coqc $Q Diag.v ) > "$D/diag.log" 2>&1 || true
ok=1
( cd "$S" && timeout 900 coqc $Q proofs/MonitorFacts.v ) > "$D/coq-facts.log" 2>&1 || ok=0
if [ $ok = 1 ]; then
  ( cd "$S" && timeout 900 coqc $Q props/C08.v ) > "$D/coq-c08.log" 2>&1 || ok=0
fi
if [ $ok = 1 ]; then
  closed=$(grep -c 'Closed under the global context' "$D/coq-c08.log")
  echo "lockfacts: all C08 statements re-check against the regenerated tables ($closed closed under the global context); the committed copy is stale (harness/lockfacts/regen.sh refreshes it)"
  echo "OBLIGATIONS 1 1"
  exit 0
fi
python3 - "$D/diag.log" "$D/report.json" <<'PY'
import json, re, sys
diag = open(sys.argv[1], errors='replace').read()
rep = json.load(open(sys.argv[2]))
text = {}
for i in rep['Instances']:
    for m, ps in (i.get('PathText') or {}).items():
        text[(i['Name'], m)] = ps
found = re.findall(r'\("([^"]*)",\s*"([^"]*)",\s*(\d+)\)', diag)
if not found:
    print("OBLIGATION-FAIL violations facts = [] no longer holds (no diagnostic available): " + diag[-300:].replace('\n', ' '))
if len(found) > 6:
    print(f"lockfacts: {len(found)} paths break the discipline; the first 6 are reported")
for inst, name, k in found[:6]:
    atom = inst.startswith('atomicity:')
    if atom: inst = inst[len('atomicity:'):]
    ps = text.get((inst, name)) or []
    k = int(k)
    desc = ps[0] if len(ps) == 1 else (ps[k] if k < len(ps) else '?')
    shape = inst.startswith('shape:')
    if shape: inst = inst[len('shape:'):]
    pan = inst.startswith('panic:')
    if pan: inst = inst[len('panic:'):]
    ps = text.get((inst, ('panic:' + name) if pan else name)) or []
    desc = ps[0] if len(ps) == 1 else (ps[k] if k < len(ps) else '?')
    if pan:
        print(f"OBLIGATION-FAIL {inst}.{name}: panic exit {k} leaves a lock held or touches guarded state without it (no deferred unlock): {desc[:500]}")
    elif shape:
        print(f"OBLIGATION-FAIL {inst}.{name} path {k} is outside the shape the reduction theorem covers (inner lock outside an exclusive outer section, outer lock not released last, hand-off / goroutine start not of the covered kind): {desc[:500]}")
    elif atom:
        print(f"OBLIGATION-FAIL {inst}.{name} path {k} is more than one critical section (each section is atomic, the call is not): {desc[:600]}")
    else:
        print(f"OBLIGATION-FAIL lock discipline broken in {inst}: {name} path {k}: {desc[:600]}")
PY
tail -5 "$D/coq-facts.log" | tr '\n' ' ' | cut -c1-600; echo
echo "OBLIGATIONS 1 0"
exit 0
