package main

import (
	"crypto/sha256"
	"encoding/hex"
	"go/ast"
	"go/token"
	"sort"
	"strings"
)

// Shallow syntactic validation of the reviewed "read-only" lists against today's source:
// a method listed as read-only must not assign through its receiver and may only call, on
// receiver-rooted expressions, methods that are read-only themselves; a function whose
// argument effect is "R" must not assign through that parameter and may only hand it to
// read-only methods / "R" functions.  Anything that fails is demoted to "writes" (and the
// discipline check then sees a write where the code used to read).

// where the methods that may be called on guarded contents are declared: directory -> type filter (nil = all types)
var purityScope = map[string]map[string]bool{
	"v2/index":       nil,
	"v2/internal/io": nil,
	"v2/storage":     {"positionTrackingWriter": true},
}

type purity struct {
	w       *world
	methods map[string]int // method name -> 0 unknown, 1 in progress / pure, 2 impure
	funcs   map[string]int
}

func (w *world) purity() *purity {
	if w.pur == nil {
		w.pur = &purity{w: w, methods: map[string]int{}, funcs: map[string]int{}}
	}
	return w.pur
}

// declared: the methods called `name` on the types in scope
func (p *purity) declared(name string) (out []*ast.FuncDecl, pks []*pkgInfo, owners []string) {
	var dirs []string
	for d := range purityScope {
		dirs = append(dirs, d)
	}
	sort.Strings(dirs)
	for _, d := range dirs {
		pk := p.w.pkg(d)
		var ts []string
		for t := range pk.methods {
			if f := purityScope[d]; f == nil || f[t] {
				ts = append(ts, t)
			}
		}
		sort.Strings(ts)
		for _, t := range ts {
			if fd := pk.methods[t][name]; fd != nil && fd.Body != nil {
				out = append(out, fd)
				pks = append(pks, pk)
				owners = append(owners, t+" ("+d+")")
			}
		}
	}
	return
}

// methodPure: every method of that name in scope leaves its receiver unmodified
func (p *purity) methodPure(name string) bool {
	switch p.methods[name] {
	case 1:
		return true
	case 2:
		return false
	}
	p.methods[name] = 1
	fds, pks, owners := p.declared(name)
	for i, fd := range fds {
		if why := p.impure(fd, []string{recvVarName(fd)}, pks[i]); why != "" {
			p.methods[name] = 2
			p.w.note("read-only review no longer holds: method %s.%s %s; calls of %s are treated as writes", owners[i], name, why, name)
			return false
		}
	}
	return true
}

func (p *purity) funcPure(name string) bool {
	switch p.funcs[name] {
	case 1:
		return true
	case 2:
		return false
	}
	p.funcs[name] = 1
	fe, ok := funcEffects[name]
	if !ok {
		p.funcs[name] = 2
		return false
	}
	if fe.Dir == "" {
		return true // a dependency: trusted as listed
	}
	pk := p.w.pkg(fe.Dir)
	fn := name[strings.LastIndex(name, ".")+1:]
	fd := pk.funcs[fn]
	if fd == nil || fd.Body == nil {
		p.funcs[name] = 2
		p.w.note("read-only review no longer holds: function %s not found in %s; it is treated as writing its arguments", name, fe.Dir)
		return false
	}
	var params []string
	i := 0
	for _, fl := range fd.Type.Params.List {
		for _, n := range fl.Names {
			if fe.Args[i] == "R" {
				params = append(params, n.Name)
			}
			i++
		}
	}
	if why := p.impure(fd, params, pk); why != "" {
		p.funcs[name] = 2
		p.w.note("read-only review no longer holds: function %s %s; it is treated as writing its arguments", name, why)
		return false
	}
	return true
}

func (w *world) pureMethod(name string) bool { return w.purity().methodPure(name) }
func (w *world) pureFunc(name string) bool   { return w.purity().funcPure(name) }

func rootIdent(e ast.Expr) string {
	for {
		switch x := e.(type) {
		case *ast.ParenExpr:
			e = x.X
		case *ast.StarExpr:
			e = x.X
		case *ast.TypeAssertExpr:
			e = x.X
		case *ast.SelectorExpr:
			e = x.X
		case *ast.IndexExpr:
			e = x.X
		case *ast.SliceExpr:
			e = x.X
		case *ast.Ident:
			return x.Name
		default:
			return ""
		}
	}
}

// impure: why fd may write through one of the tracked names ("" = it does not, as far as the syntax shows)
func (p *purity) impure(fd *ast.FuncDecl, tracked []string, pk *pkgInfo) string {
	is := func(n string) bool {
		for _, t := range tracked {
			if t == n && n != "_" {
				return true
			}
		}
		return false
	}
	why := ""
	ast.Inspect(fd.Body, func(n ast.Node) bool {
		if why != "" {
			return false
		}
		switch x := n.(type) {
		case *ast.AssignStmt:
			for _, l := range x.Lhs {
				if _, plain := l.(*ast.Ident); plain {
					continue // rebinding a local name (shadowing) does not write through it
				}
				if is(rootIdent(l)) {
					why = "assigns " + exprString(pk.fset, l)
				}
			}
		case *ast.IncDecStmt:
			if _, plain := x.X.(*ast.Ident); !plain && is(rootIdent(x.X)) {
				why = "modifies " + exprString(pk.fset, x.X)
			}
		case *ast.UnaryExpr:
			if x.Op == token.AND && is(rootIdent(x.X)) {
				if _, plain := x.X.(*ast.Ident); !plain {
					why = "takes the address of " + exprString(pk.fset, x.X)
				}
			}
		case *ast.CallExpr:
			if sel, ok := x.Fun.(*ast.SelectorExpr); ok && is(rootIdent(sel.X)) {
				m := sel.Sel.Name
				// a method of the tracked object (or of something inside it)
				fds, _, _ := p.declared(m)
				switch {
				case len(fds) > 0:
					if !p.methodPure(m) {
						why = "calls " + exprString(pk.fset, x.Fun) + " (which is not read-only)"
					}
				case externalReadOnly[m] || valueMethod[m]:
				default:
					why = "calls " + exprString(pk.fset, x.Fun)
				}
			}
			name := calleeName(x)
			for i, arg := range x.Args {
				if !is(rootIdent(arg)) {
					continue
				}
				if _, isSel := stripExpr(arg).(*ast.SelectorExpr); !isSel {
					if _, isId := stripExpr(arg).(*ast.Ident); !isId {
						continue
					}
				}
				fe, known := funcEffects[name]
				if known {
					e := fe.Args[i]
					if e == "R" && p.funcPure(name) || e == "wrap" || e == "" {
						continue
					}
				}
				if pureBuiltins[name] || isTypeExpr(x.Fun) {
					continue
				}
				why = "passes " + exprString(pk.fset, arg) + " to " + name
			}
		}
		return true
	})
	return why
}

// methods of plain values reachable from a tracked parameter (CIDs, multihashes, records, readers wrapped locally)
var valueMethod = map[string]bool{
	"Hash": true, "Bytes": true, "Equals": true, "Prefix": true, "String": true, "KeyString": true,
	"Read": true, "ReadByte": true, "Seek": true, // the local offsetReadSeeker built by NewOffsetReadSeeker keeps its own position
}

var pureBuiltins = map[string]bool{
	"len": true, "cap": true, "bytes.Equal": true, "bytes.Compare": true, "multihash.Decode": true, "uint64": true, "int64": true, "int": true,
	"varint.ReadUvarint": true, "cid.CidFromReader": true, "util.ReadNode": true, "io.ReadFull": true,
}

// ---- source pins -------------------------------------------------------------------------------------------
func (w *world) funcHash(dir, name string) string {
	pk := w.pkg(dir)
	fd := pk.funcs[name]
	if fd == nil {
		return "missing"
	}
	cp := *fd
	cp.Doc = nil
	h := sha256.Sum256([]byte(exprString(pk.fset, &cp)))
	return hex.EncodeToString(h[:8])
}

func (w *world) pinOK(inf infallible) bool {
	return w.funcHash(inf.Dir, inf.Func) == inf.PinHash
}

// inspectAssign calls fn for every assignment / inc-dec target in fd
func inspectAssign(fd *ast.FuncDecl, fn func(lhs string, root string, text string), pk *pkgInfo) {
	ast.Inspect(fd.Body, func(n ast.Node) bool {
		switch x := n.(type) {
		case *ast.AssignStmt:
			for _, l := range x.Lhs {
				fn("", rootIdent(l), exprString(pk.fset, l))
			}
		case *ast.IncDecStmt:
			fn("", rootIdent(x.X), exprString(pk.fset, x.X))
		}
		return true
	})
}
