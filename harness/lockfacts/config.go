package main

// Reviewed tables of the translator.  Everything the translator cannot derive from the syntax
// of the four analysed files is listed here with its reason; the list is printed into the
// report (and ends up in the evidence).  The translator FAILS CLOSED on anything that is
// neither derivable nor listed.

// analysed types: one instance (= one kind of shared object) per entry.
type typeSpec struct {
	Name string // Go type name
	Dir  string // package directory relative to the repository root
	File string // the file the property anchors (all non-test files of Dir are parsed)
	// exported methods that are not operations of property C08 (reported, not counted)
	NotOps map[string]string
	// fields written only before the object is published (constructors); no method may write them
	Exempt map[string]string
}

var typeSpecs = []typeSpec{
	{
		Name: "ReadOnly", Dir: "v2/blockstore", File: "v2/blockstore/readonly.go",
		Exempt: map[string]string{
			"backing":     "set by NewReadOnly/OpenReadWriteFile before the value is returned",
			"idx":         "the index pointer is set by the constructors only (its contents are guarded)",
			"carv2Closer": "set by OpenReadOnly/OpenReadWrite before the value is returned",
			"opts":        "set by the constructors only",
		},
	},
	{
		Name: "ReadWrite", Dir: "v2/blockstore", File: "v2/blockstore/readwrite.go",
		Exempt: map[string]string{
			"f":          "set by OpenReadWriteFile only",
			"dataWriter": "the writer pointer is set by OpenReadWriteFile only (its position is guarded)",
			"idx":        "the index pointer is set by OpenReadWriteFile only (its contents are guarded)",
			"header":     "set by OpenReadWriteFile only",
			"opts":       "set by OpenReadWriteFile only",
		},
	},
	{
		Name: "StorageCar", Dir: "v2/storage", File: "v2/storage/storage.go",
		Exempt: map[string]string{
			"idx":        "the index pointer is set by the constructors only (its contents are guarded)",
			"reader":     "set by the constructors only",
			"writer":     "the writer pointer is set by newWritable only (its position is guarded)",
			"writer.w":   "positionTrackingWriter.w is set by newWritable only; Write/Position never assign it (checked)",
			"dataWriter": "the writer pointer is set by newWritable only (its position is guarded)",
			"header":     "set by newWritable only",
			"roots":      "set by the constructors only",
			"opts":       "set by the constructors only",
		},
	},
	{
		Name: "DeferredCarWriter", Dir: "v2/storage/deferred", File: "v2/storage/deferred/deferredcarwriter.go",
		NotOps: map[string]string{
			"OnPut": "callback registration; not among the operations of C08 (Put, PutMany, Has, Get, GetSize, AllKeysChan, Roots, Finalize)",
		},
		Exempt: map[string]string{
			"roots":     "set by the constructors only",
			"outPath":   "set by the constructors only",
			"outStream": "set by the constructors only",
			"opts":      "set by the constructors only",
		},
	},
}

// interface-typed fields whose dynamic type is an analysed type (the object behind them is
// analysed in place, with its own mutex).
var ifaceImpl = map[string]string{
	// deferred.DeferredCarWriter.w is assigned from carstorage.NewWritable, which returns sc.init() = *StorageCar
	"carstorage.WritableCar": "StorageCar",
}

type fieldKind int

const (
	kValue  fieldKind = iota // plain data stored in the struct (bool, numbers, struct values, slices taken as a whole)
	kRef                     // pointer / interface to an object with guarded contents: two locations, "f" and "f.*"
	kFile                    // handle of an OS resource or caller-supplied stream; its contents are not Go memory of this object
	kMutex                   // sync.Mutex / sync.RWMutex
	kStruct                  // analysed struct embedded by value
	kObj                     // pointer/interface to an analysed object
)

// kinds of field types that are not derivable from the type expression alone
var typeKinds = map[string]fieldKind{
	"carv2.Header":                  kValue,
	"carv2.Options":                 kValue,
	"index.Index":                   kRef,
	"*index.InsertionIndex":         kRef,
	"*internalio.OffsetWriteSeeker": kRef,
	"positionedWriter":              kRef,
	"io.ReaderAt":                   kFile, // io.ReaderAt contract: parallel ReadAt calls are allowed
	"io.Closer":                     kFile,
	"io.Writer":                     kFile,
	"*os.File":                      kFile, // os.File serialises through its own fdmutex
}

// deep fields: an explicit selector behind a kRef field that is its own location (not "f.*")
// key: <Type>.<field>.<selector>; value: type owning the selector (its methods are checked not to assign it)
var deepFields = map[string]string{
	"StorageCar.writer.w": "positionTrackingWriter",
}

// methods that only read the object they are called on (by method name; every method of that name
// declared in v2/index, v2/internal/io (and positionTrackingWriter) is checked syntactically, together with
// the unexported helpers it calls, see purity.go)
var readOnlyMethods = map[string]bool{
	"Position": true, "GetAll": true, "HasExactCID": true, "HasMultihash": true, "Get": true,
	"ForEachCid": true, "ForEach": true, "Len": true, "Codec": true, "Flatten": true,
}

// methods of the LLRB tree (dependency, not analysed) that only read the tree
var externalReadOnly = map[string]bool{
	"Get": true, "AscendGreaterOrEqual": true, "Min": true, "Max": true, "Len": true, "Has": true,
}

// effect of a package-level function on the objects passed to it
type funcEffect struct {
	Args map[int]string // argument index -> "R" (reads contents) | "W" (may write contents) | "wrap" (result is a view of the argument's contents)
	Blk  string         // non-empty: the call may run user code / block (site description)
	Recv bool           // the receiver itself may be passed (the callee only calls exported methods later)
	// where the function is declared (for the purity check of "R" arguments); empty = dependency, trusted
	Dir string
}

var funcEffects = map[string]funcEffect{
	"store.ShouldPut":                {Args: map[int]string{0: "R"}, Dir: "v2/internal/store"},
	"store.Has":                      {Args: map[int]string{0: "R"}, Dir: "v2/internal/store"},
	"store.FindCid":                  {Args: map[int]string{0: "R", 1: "R"}, Dir: "v2/internal/store"},
	"store.IsIdentity":               {Dir: "v2/internal/store"},
	"store.Finalize":                 {Args: map[int]string{0: "W", 2: "R"}, Dir: "v2/internal/store"},
	"util.LdWrite":                   {Args: map[int]string{0: "W"}},
	"internalio.NewOffsetReadSeeker": {Args: map[int]string{0: "wrap"}},
	"carv1.ReadHeader":               {Args: map[int]string{0: "W"}}, // advances the (local) reader
	"carv1.WriteHeader":              {Args: map[int]string{1: "W"}},
	"carv1.HeaderSize":               {},
	"varint.ReadUvarint":             {Args: map[int]string{0: "W"}},
	"cid.CidFromReader":              {Args: map[int]string{0: "W"}},
	"io.NewSectionReader":            {Args: map[int]string{0: "wrap"}},
	"io.NopCloser":                   {Args: map[int]string{0: "wrap"}},
	"io.ReadAll":                     {Args: map[int]string{0: "W"}},
	"maybeReportError":               {Blk: "user-supplied async error handler (WithAsyncErrorHandler)"},
	"carstorage.NewWritable":         {Args: map[int]string{0: "W"}},
	"ipldstorage.PutStream":          {Recv: true}, // returns closures that call the receiver's exported Put
}

// a call that cannot fail although it returns an error: the `if err != nil` branch right after it is dead.
// Pinned by the hash of the callee's source; when the callee changes the branch is analysed again.
type infallible struct {
	Callee  string // selector as written at the call site
	Arg1    string // required literal second argument
	Dir     string
	Func    string
	PinHash string
	Why     string
}

var infallibleCalls = []infallible{
	{
		Callee: "internalio.NewOffsetReadSeeker", Arg1: "0", Dir: "v2/internal/io", Func: "NewOffsetReadSeeker",
		PinHash: "64a7cb37c8251a2b",
		Why:     "with offset 0 the only error branch (newBase < oldBase, newBase = oldBase + 0) is unreachable",
	},
}

// blocking operations that are accepted while a lock is held (reviewed)
var listedBlocking = map[string]string{
	"ReadOnly.AllKeysChan/go0: select":                          "by design and documented on Close/Discard: the listing goroutine holds the read lock until the channel is drained or the context is cancelled; a writer (Close) waits",
	"ReadOnly.AllKeysChan/go0: call maybeReportError":           "the async error handler runs in the listing goroutine under the read lock; a handler that calls Close on the same store would wait for itself (documented limitation, not among the property's operations)",
	"DeferredCarWriter.Put: call of a function stored in putCb": "OnPut callbacks run under lk by design; a callback that re-enters the same writer would wait for itself (not among the property's operations)",
}
