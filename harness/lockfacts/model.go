package main

import (
	"bytes"
	"fmt"
	"go/ast"
	"go/parser"
	"go/printer"
	"go/token"
	"os"
	"path/filepath"
	"sort"
	"strings"
)

// ---- failing closed --------------------------------------------------------------------
type failure struct{ msg string }

func failf(format string, args ...interface{}) { panic(failure{fmt.Sprintf(format, args...)}) }

// ---- parsed packages ---------------------------------------------------------------------
type pkgInfo struct {
	dir   string
	name  string
	fset  *token.FileSet
	files []*ast.File
	// method declarations by receiver type name, then method name
	methods map[string]map[string]*ast.FuncDecl
	funcs   map[string]*ast.FuncDecl
	structs map[string]*ast.StructType
	fileOf  map[*ast.FuncDecl]*ast.File
}

func parsePkg(repo, dir string) *pkgInfo {
	p := &pkgInfo{dir: dir, fset: token.NewFileSet(), methods: map[string]map[string]*ast.FuncDecl{},
		funcs: map[string]*ast.FuncDecl{}, structs: map[string]*ast.StructType{}, fileOf: map[*ast.FuncDecl]*ast.File{}}
	ents, err := os.ReadDir(filepath.Join(repo, dir))
	if err != nil {
		failf("cannot read %s: %v", dir, err)
	}
	var names []string
	for _, e := range ents {
		n := e.Name()
		if strings.HasSuffix(n, ".go") && !strings.HasSuffix(n, "_test.go") {
			names = append(names, n)
		}
	}
	sort.Strings(names)
	for _, n := range names {
		src, err := os.ReadFile(filepath.Join(repo, dir, n))
		if err != nil {
			failf("cannot read %s/%s: %v", dir, n, err)
		}
		// files behind a build constraint other than the default build are not part of the library as built by its users
		if hasBuildTag(src) {
			continue
		}
		f, err := parser.ParseFile(p.fset, filepath.Join(dir, n), src, parser.SkipObjectResolution)
		if err != nil {
			failf("parse error in %s/%s: %v", dir, n, err)
		}
		p.name = f.Name.Name
		p.files = append(p.files, f)
		for _, d := range f.Decls {
			switch d := d.(type) {
			case *ast.FuncDecl:
				p.fileOf[d] = f
				if d.Recv == nil {
					p.funcs[d.Name.Name] = d
					continue
				}
				rt := recvTypeName(d)
				if p.methods[rt] == nil {
					p.methods[rt] = map[string]*ast.FuncDecl{}
				}
				p.methods[rt][d.Name.Name] = d
			case *ast.GenDecl:
				for _, s := range d.Specs {
					if ts, ok := s.(*ast.TypeSpec); ok {
						if st, ok := ts.Type.(*ast.StructType); ok {
							p.structs[ts.Name.Name] = st
						}
					}
				}
			}
		}
	}
	return p
}

func hasBuildTag(src []byte) bool {
	for _, line := range strings.Split(string(src), "\n") {
		t := strings.TrimSpace(line)
		if strings.HasPrefix(t, "//go:build") || strings.HasPrefix(t, "// +build") {
			return true
		}
		if strings.HasPrefix(t, "package ") {
			return false
		}
	}
	return false
}

func recvTypeName(d *ast.FuncDecl) string {
	t := d.Recv.List[0].Type
	if s, ok := t.(*ast.StarExpr); ok {
		t = s.X
	}
	if id, ok := t.(*ast.Ident); ok {
		return id.Name
	}
	return "?"
}

func recvVarName(d *ast.FuncDecl) string {
	if len(d.Recv.List[0].Names) == 0 {
		return "_"
	}
	return d.Recv.List[0].Names[0].Name
}

func exprString(fset *token.FileSet, e ast.Node) string {
	var b bytes.Buffer
	printer.Fprint(&b, fset, e)
	return b.String()
}

func importNames(f *ast.File) map[string]bool {
	m := map[string]bool{}
	for _, im := range f.Imports {
		if im.Name != nil {
			m[im.Name.Name] = true
			continue
		}
		p := strings.Trim(im.Path.Value, `"`)
		base := p[strings.LastIndex(p, "/")+1:]
		// go-xxx packages are conventionally named without the prefix; the analysed files always
		// use explicit names where that matters, the rest is matched by the last path element.
		base = strings.TrimPrefix(base, "go-")
		m[base] = true
	}
	return m
}

// ---- struct layout of an analysed type -----------------------------------------------------
type structInfo struct {
	name   string
	pkg    *pkgInfo
	spec   *typeSpec
	fields []*fieldInfo
}

type fieldInfo struct {
	name string
	typ  string
	kind fieldKind
	rw   bool        // kMutex: RWMutex
	sub  *structInfo // kStruct / kObj
}

func (s *structInfo) field(name string) *fieldInfo {
	for _, f := range s.fields {
		if f.name == name {
			return f
		}
	}
	return nil
}

func (s *structInfo) method(name string) *ast.FuncDecl {
	if m := s.pkg.methods[s.name]; m != nil {
		return m[name]
	}
	return nil
}

type world struct {
	repo    string
	pkgs    map[string]*pkgInfo    // by dir
	structs map[string]*structInfo // by type name
	notes   []string
	pruned  []string
	pur     *purity
}

func (w *world) note(format string, args ...interface{}) {
	s := fmt.Sprintf(format, args...)
	for _, n := range w.notes {
		if n == s {
			return
		}
	}
	w.notes = append(w.notes, s)
}

func (w *world) pkg(dir string) *pkgInfo {
	if p, ok := w.pkgs[dir]; ok {
		return p
	}
	p := parsePkg(w.repo, dir)
	w.pkgs[dir] = p
	return p
}

func basicValueType(t string) bool {
	switch t {
	case "bool", "string", "int", "int8", "int16", "int32", "int64", "uint", "uint8", "uint16", "uint32", "uint64", "uintptr", "byte", "rune", "float32", "float64", "error":
		return true
	}
	return strings.HasPrefix(t, "[]") || (strings.HasPrefix(t, "[") && !strings.HasPrefix(t, "[]"))
}

func (w *world) loadStruct(name string) *structInfo {
	if s, ok := w.structs[name]; ok {
		return s
	}
	var spec *typeSpec
	for i := range typeSpecs {
		if typeSpecs[i].Name == name {
			spec = &typeSpecs[i]
		}
	}
	if spec == nil {
		failf("type %s is not an analysed type", name)
	}
	p := w.pkg(spec.Dir)
	st := p.structs[name]
	if st == nil {
		failf("struct %s not found in %s", name, spec.Dir)
	}
	s := &structInfo{name: name, pkg: p, spec: spec}
	w.structs[name] = s
	for _, fl := range st.Fields.List {
		ts := exprString(p.fset, fl.Type)
		if len(fl.Names) == 0 {
			failf("%s: embedded field %s is not supported", name, ts)
		}
		for _, n := range fl.Names {
			fi := &fieldInfo{name: n.Name, typ: ts}
			switch {
			case ts == "sync.RWMutex":
				fi.kind, fi.rw = kMutex, true
			case ts == "sync.Mutex":
				fi.kind = kMutex
			case isAnalysed(ts):
				fi.kind, fi.sub = kStruct, w.loadStruct(ts)
			case isAnalysed(strings.TrimPrefix(ts, "*")):
				fi.kind, fi.sub = kObj, w.loadStruct(strings.TrimPrefix(ts, "*"))
			case ifaceImpl[ts] != "":
				fi.kind, fi.sub = kObj, w.loadStruct(ifaceImpl[ts])
			case basicValueType(ts):
				fi.kind = kValue
			default:
				k, ok := typeKinds[ts]
				if !ok {
					failf("%s.%s: field type %q is not classified (value / reference / file); extend typeKinds", name, n.Name, ts)
				}
				fi.kind = k
			}
			s.fields = append(s.fields, fi)
		}
	}
	return s
}

func isAnalysed(name string) bool {
	for _, t := range typeSpecs {
		if t.Name == name {
			return true
		}
	}
	return false
}

// ---- the instance tables (fields, mutexes) ---------------------------------------------------
type fieldEntry struct {
	Name   string
	Guard  string // mutex name ("" when exempt and the owner has no mutex)
	Exempt bool
	Why    string
}

type instance struct {
	Name     string
	root     *structInfo
	Mutexes  []string
	Fields   []fieldEntry
	alias    map[string]string // content location -> canonical content location
	Blk      []blkSite
	Tbl      []*tblEntry
	Methods  []methodPaths
	Panics   []methodPaths // panic exits taken while holding a lock
	Other    []methodPaths
	otherWhy map[string]string
}

type blkSite struct {
	Name   string
	Listed bool
	Why    string
}

type tblEntry struct {
	Name string
	Held []heldLock
	Path []seg
}

type methodPaths struct {
	Name  string
	Paths [][]seg
}

type heldLock struct {
	Mutex string
	Mode  string // "MR" | "MW"
}

type act struct {
	Op   string // Acq Rel Rd Wr Spawn Handoff Blk
	Name string
	Mode string
}

type seg struct {
	Iter bool
	Code []act   // Straight
	Alts [][]act // Iter
}

func (in *instance) mutexOf(s *structInfo, prefix string) string {
	for _, f := range s.fields {
		if f.kind == kMutex {
			return prefix + f.name
		}
	}
	for _, f := range s.fields {
		if f.kind == kStruct {
			if m := in.mutexOf(f.sub, prefix+f.name+"."); m != "" {
				return m
			}
		}
	}
	return ""
}

func (in *instance) layout(s *structInfo, prefix string, guard string) {
	own := in.mutexOf(s, prefix)
	if own != "" {
		guard = own
	}
	for _, f := range s.fields {
		if f.kind == kMutex {
			in.Mutexes = append(in.Mutexes, prefix+f.name)
		}
	}
	add := func(name string, owner *structInfo, key string) {
		why, ex := owner.spec.Exempt[key]
		in.Fields = append(in.Fields, fieldEntry{Name: name, Guard: guard, Exempt: ex, Why: why})
	}
	for _, f := range s.fields {
		p := prefix + f.name
		switch f.kind {
		case kValue, kFile:
			add(p, s, f.name)
		case kRef:
			add(p, s, f.name)
			in.Fields = append(in.Fields, fieldEntry{Name: p + ".*", Guard: guard})
			for k := range deepFields {
				if strings.HasPrefix(k, s.name+"."+f.name+".") {
					sel := strings.TrimPrefix(k, s.name+"."+f.name+".")
					add(p+"."+sel, s, f.name+"."+sel)
				}
			}
		case kStruct:
			in.layout(f.sub, p+".", guard)
		case kObj:
			add(p, s, f.name)
			in.layout(f.sub, p+".", guard)
		}
	}
}

func (in *instance) canon(loc string) string {
	for {
		n, ok := in.alias[loc]
		if !ok || n == loc {
			return loc
		}
		loc = n
	}
}
