package main

import (
	"fmt"
	"go/ast"
	"go/token"
	"sort"
	"strings"
)

// ---- targets: what an expression denotes with respect to the shared object -------------------
type tkind int

const (
	tNone     tkind = iota
	tObj            // an analysed object (the receiver, an embedded struct, an object behind a pointer/interface field)
	tMutex          // a mutex field
	tValue          // a value location
	tRefPtr         // the pointer/interface word of a kRef field
	tContents       // the contents behind a kRef field ("f.*")
	tFile           // a file-like handle (contents not modelled)
)

type target struct {
	kind   tkind
	path   string      // location name relative to the instance root
	obj    *structInfo // tObj
	prefix string      // tObj: prefix of its fields
	rw     bool        // tMutex
}

// an activation of a function body being analysed
type frame struct {
	recvName string
	recv     *structInfo
	prefix   string
	file     *ast.File
	pkg      *pkgInfo
	imports  map[string]bool
	alias    map[string][]target
	taint    map[string]string // local derived from a stored value of field ...
	site     string            // "<Type>.<Method>[/goN]" for naming blocking sites and goroutines
	depth    int
	goCount  *int
}

const (
	exFall = iota
	exRet
	exBreak
	exCont
)

// a deferred call, with the frame it was registered in
type dcall struct {
	call *ast.CallExpr
	fr   *frame
}

type state struct {
	held      []heldLock
	defers    []dcall
	outer     [][]dcall // deferred calls of the enclosing activations, innermost last
	relUnheld bool
}

type flow struct {
	segs []seg
	ctx  []seg // what precedes segs when segs is the body of a loop / callback under analysis
	st   state
	exit int
	ret  []target
}

func (f flow) clone() flow {
	n := flow{exit: f.exit, ret: f.ret, ctx: f.ctx}
	n.st.outer = f.st.outer
	n.segs = make([]seg, len(f.segs))
	for i, s := range f.segs {
		n.segs[i] = seg{Iter: s.Iter, Code: append([]act(nil), s.Code...), Alts: s.Alts}
	}
	n.st.held = append([]heldLock(nil), f.st.held...)
	n.st.defers = append([]dcall(nil), f.st.defers...)
	n.st.relUnheld = f.st.relUnheld
	return n
}

func (f *flow) emit(a act) {
	if n := len(f.segs); n > 0 && !f.segs[n-1].Iter {
		f.segs[n-1].Code = append(f.segs[n-1].Code, a)
		return
	}
	f.segs = append(f.segs, seg{Code: []act{a}})
}

func (f *flow) emitIter(alts [][]act) {
	if len(alts) == 0 {
		return
	}
	f.segs = append(f.segs, seg{Iter: true, Alts: alts})
}

type analyzer struct {
	w  *world
	in *instance
	// panic exits of the method under analysis (see mayPanic)
	panics   [][]seg
	inPanic  bool
	noPanics bool
}

// mayPanic: the operation just analysed (a call into other code, an index expression) may panic.
// If the thread holds a lock at that point, the panic exit is a path of its own: what has run so
// far, then the deferred calls of every activation, innermost first.  (A recovered panic leaves the
// goroutine running; whether the locks were released is exactly what [ok] checks on that path.)
func (a *analyzer) mayPanic(fr *frame, f flow) {
	if a.inPanic || a.noPanics || len(f.st.held) == 0 {
		return
	}
	a.inPanic = true
	defer func() { a.inPanic = false }()
	g := f.clone()
	g.segs = append(append([]seg(nil), g.ctx...), g.segs...)
	g.ctx = nil
	cur := []flow{g}
	stacks := [][]dcall{f.st.defers}
	for i := len(f.st.outer) - 1; i >= 0; i-- {
		stacks = append(stacks, f.st.outer[i])
	}
	for _, ds := range stacks {
		for i := len(ds) - 1; i >= 0; i-- {
			var next []flow
			for _, x := range cur {
				x.st.defers = nil
				x.st.outer = nil
				x.exit = exFall
				next = append(next, a.call(ds[i].call, ds[i].fr, x)...)
			}
			cur = next
		}
	}
	for _, x := range cur {
		a.panics = append(a.panics, normalize(x.segs))
	}
}

// ---- resolving selector chains -----------------------------------------------------------------
func stripExpr(e ast.Expr) ast.Expr {
	for {
		switch x := e.(type) {
		case *ast.ParenExpr:
			e = x.X
		case *ast.StarExpr:
			e = x.X
		case *ast.TypeAssertExpr:
			e = x.X
		default:
			return e
		}
	}
}

// chain splits a selector chain into its root expression and the selected names
func chain(e ast.Expr) (ast.Expr, []string) {
	var names []string
	e = stripExpr(e)
	for {
		s, ok := e.(*ast.SelectorExpr)
		if !ok {
			break
		}
		names = append([]string{s.Sel.Name}, names...)
		e = stripExpr(s.X)
	}
	return e, names
}

// resolve: the targets denoted by e, and the pointer locations read on the way
func (a *analyzer) resolve(e ast.Expr, fr *frame) (ts []target, reads []string) {
	e = stripExpr(e)
	switch x := e.(type) {
	case *ast.IndexExpr:
		return a.resolve(x.X, fr)
	case *ast.SliceExpr:
		return a.resolve(x.X, fr)
	case *ast.UnaryExpr:
		if x.Op == token.AND {
			return a.resolve(x.X, fr)
		}
		return nil, nil
	case *ast.CallExpr:
		return a.callResultTargets(x, fr), nil
	}
	root, names := chain(e)
	id, ok := root.(*ast.Ident)
	if !ok {
		return nil, nil
	}
	var start []target
	if id.Name == fr.recvName {
		start = []target{{kind: tObj, obj: fr.recv, prefix: fr.prefix}}
	} else if al, ok := fr.alias[id.Name]; ok {
		start = al
	} else {
		return nil, nil
	}
	for _, t := range start {
		cur := t
		var rd []string
		for i := 0; i < len(names); i++ {
			n := names[i]
			switch cur.kind {
			case tObj:
				f := cur.obj.field(n)
				if f == nil {
					if cur.obj.method(n) != nil && i == len(names)-1 {
						// method value: handled by the caller (call expression)
						cur = target{kind: tNone}
						break
					}
					failf("%s: unknown field or method %s.%s", fr.site, cur.obj.name, n)
				}
				p := cur.prefix + f.name
				switch f.kind {
				case kMutex:
					cur = target{kind: tMutex, path: p, rw: f.rw}
				case kStruct:
					cur = target{kind: tObj, obj: f.sub, prefix: p + "."}
				case kObj:
					if i < len(names)-1 {
						rd = append(rd, p)
						cur = target{kind: tObj, obj: f.sub, prefix: p + "."}
					} else {
						cur = target{kind: tValue, path: p, obj: f.sub, prefix: p + "."}
					}
				case kValue:
					cur = target{kind: tValue, path: p}
					i = len(names) // deeper selectors stay inside the value
				case kFile:
					cur = target{kind: tFile, path: p}
					i = len(names)
				case kRef:
					if i < len(names)-1 {
						rd = append(rd, p)
						key := cur.obj.name + "." + f.name + "." + names[i+1]
						if _, ok := deepFields[key]; ok {
							cur = target{kind: tValue, path: p + "." + names[i+1]}
						} else {
							cur = target{kind: tContents, path: a.in.canon(p + ".*")}
						}
						i = len(names)
					} else {
						cur = target{kind: tRefPtr, path: p}
					}
				}
			case tContents, tFile, tValue:
				i = len(names)
			default:
				i = len(names)
			}
		}
		if cur.kind != tNone {
			ts = append(ts, cur)
		}
		reads = append(reads, rd...)
	}
	return ts, reads
}

// asAlias: what a local variable assigned from a target denotes afterwards
func (a *analyzer) asAlias(t target) (target, bool) {
	switch t.kind {
	case tObj:
		return t, true
	case tValue:
		if t.obj != nil { // pointer word of an analysed object
			return target{kind: tObj, obj: t.obj, prefix: t.prefix}, true
		}
		return target{}, false
	case tRefPtr:
		return target{kind: tContents, path: a.in.canon(t.path + ".*")}, true
	case tContents, tFile:
		return t, true
	}
	return target{}, false
}

func (a *analyzer) callResultTargets(c *ast.CallExpr, fr *frame) []target {
	// wrappers: the result is a view of an argument's contents
	if name := calleeName(c); name != "" {
		if fe, ok := funcEffects[name]; ok {
			for i, eff := range fe.Args {
				if eff == "wrap" && i < len(c.Args) {
					ts, _ := a.resolve(c.Args[i], fr)
					var out []target
					for _, t := range ts {
						if al, ok := a.asAlias(t); ok {
							out = append(out, al)
						}
					}
					return out
				}
			}
		}
	}
	// inlined method: union of what its return statements denote
	if sel, ok := c.Fun.(*ast.SelectorExpr); ok {
		ts, _ := a.resolve(sel.X, fr)
		var out []target
		for _, t := range ts {
			if t.kind == tValue && t.obj != nil {
				t = target{kind: tObj, obj: t.obj, prefix: t.prefix}
			}
			if t.kind != tObj {
				continue
			}
			m := t.obj.method(sel.Sel.Name)
			if m == nil || m.Body == nil || fr.depth > 6 {
				continue
			}
			cf := a.calleeFrame(m, t, fr, nil, nil)
			ast.Inspect(m.Body, func(n ast.Node) bool {
				if _, ok := n.(*ast.FuncLit); ok {
					return false
				}
				if r, ok := n.(*ast.ReturnStmt); ok && len(r.Results) > 0 {
					rts, _ := a.resolve(r.Results[0], cf)
					out = append(out, rts...)
				}
				return true
			})
		}
		return out
	}
	return nil
}

func calleeName(c *ast.CallExpr) string {
	switch f := c.Fun.(type) {
	case *ast.Ident:
		return f.Name
	case *ast.SelectorExpr:
		if id, ok := f.X.(*ast.Ident); ok {
			return id.Name + "." + f.Sel.Name
		}
	}
	return ""
}

// ---- alias / taint pre-pass (flow-insensitive, per function body) --------------------------------
func (a *analyzer) collectAliases(body ast.Node, fr *frame) {
	for round := 0; round < 4; round++ {
		ast.Inspect(body, func(n ast.Node) bool {
			switch s := n.(type) {
			case *ast.AssignStmt:
				if len(s.Lhs) == len(s.Rhs) {
					for i := range s.Lhs {
						a.bindLocal(s.Lhs[i], s.Rhs[i], fr)
					}
				} else if len(s.Rhs) == 1 {
					a.bindLocal(s.Lhs[0], s.Rhs[0], fr)
				}
			case *ast.ValueSpec:
				for i := range s.Names {
					if i < len(s.Values) {
						a.bindLocal(s.Names[i], s.Values[i], fr)
					}
				}
			case *ast.RangeStmt:
				if s.Value != nil {
					a.bindLocal(s.Value, s.X, fr)
				}
			}
			return true
		})
	}
}

func (a *analyzer) bindLocal(lhs ast.Expr, rhs ast.Expr, fr *frame) {
	id, ok := lhs.(*ast.Ident)
	if !ok || id.Name == "_" || id.Name == fr.recvName {
		return
	}
	ts, _ := a.resolve(rhs, fr)
	for _, t := range ts {
		if t.kind == tValue && t.obj == nil {
			if _, seen := fr.taint[id.Name]; !seen {
				fr.taint[id.Name] = t.path
			}
			continue
		}
		if al, ok := a.asAlias(t); ok {
			dup := false
			for _, o := range fr.alias[id.Name] {
				if o.kind == al.kind && o.path == al.path && o.prefix == al.prefix {
					dup = true
				}
			}
			if !dup {
				fr.alias[id.Name] = append(fr.alias[id.Name], al)
			}
		}
	}
}

func (a *analyzer) calleeFrame(m *ast.FuncDecl, t target, caller *frame, args []ast.Expr, callerFrame *frame) *frame {
	p := t.obj.pkg
	cf := &frame{recvName: recvVarName(m), recv: t.obj, prefix: t.prefix, file: p.fileOf[m], pkg: p,
		imports: importNames(p.fileOf[m]), alias: map[string][]target{}, taint: map[string]string{},
		site: caller.site, depth: caller.depth + 1, goCount: caller.goCount}
	// parameters bound to shared objects keep denoting them
	if args != nil && callerFrame != nil {
		i := 0
		for _, fl := range m.Type.Params.List {
			for _, n := range fl.Names {
				if i < len(args) {
					ts, _ := a.resolve(args[i], callerFrame)
					for _, x := range ts {
						if al, ok := a.asAlias(x); ok {
							cf.alias[n.Name] = append(cf.alias[n.Name], al)
						}
					}
				}
				i++
			}
		}
	}
	if m.Body != nil {
		a.collectAliases(m.Body, cf)
	}
	return cf
}

// ---- effects -----------------------------------------------------------------------------------
func (a *analyzer) rd(f *flow, loc string) { f.emit(act{Op: "Rd", Name: a.in.canon(loc)}) }
func (a *analyzer) wr(f *flow, loc string) { f.emit(act{Op: "Wr", Name: a.in.canon(loc)}) }
func (a *analyzer) blk(f *flow, fr *frame, what string) {
	name := fr.site + ": " + what
	found := false
	for _, b := range a.in.Blk {
		if b.Name == name {
			found = true
		}
	}
	if !found {
		why, listed := listedBlocking[name]
		a.in.Blk = append(a.in.Blk, blkSite{Name: name, Listed: listed, Why: why})
	}
	f.emit(act{Op: "Blk", Name: name})
}

// readTargets: reading the value an expression denotes
func (a *analyzer) readTargets(f *flow, ts []target, reads []string) {
	for _, r := range reads {
		a.rd(f, r)
	}
	for _, t := range ts {
		switch t.kind {
		case tValue, tRefPtr, tFile:
			if t.path != "" {
				a.rd(f, t.path)
			}
		case tContents:
			a.rd(f, t.path)
		}
	}
}

func (a *analyzer) lock(f *flow, t target, method string, fr *frame) {
	switch method {
	case "Lock":
		f.emit(act{Op: "Acq", Name: t.path, Mode: "MW"})
		f.st.held = append(f.st.held, heldLock{t.path, "MW"})
	case "RLock":
		f.emit(act{Op: "Acq", Name: t.path, Mode: "MR"})
		f.st.held = append(f.st.held, heldLock{t.path, "MR"})
	case "Unlock", "RUnlock":
		mode := "MW"
		if method == "RUnlock" {
			mode = "MR"
		}
		f.emit(act{Op: "Rel", Name: t.path, Mode: mode})
		idx := -1
		for i, h := range f.st.held {
			if h.Mutex == t.path {
				idx = i
			}
		}
		if idx < 0 {
			f.st.relUnheld = true
		} else {
			f.st.held = append(append([]heldLock(nil), f.st.held[:idx]...), f.st.held[idx+1:]...)
		}
	default:
		failf("%s: unsupported mutex operation %s", fr.site, method)
	}
}

// exprs evaluates expressions left to right (each may fork the flow through inlined calls)
func (a *analyzer) exprs(es []ast.Expr, fr *frame, in []flow) []flow {
	for _, e := range es {
		var next []flow
		for _, f := range in {
			next = append(next, a.expr(e, fr, f)...)
		}
		in = next
	}
	return in
}

var builtins = map[string]bool{"len": true, "cap": true, "append": true, "make": true, "new": true, "panic": true,
	"close": true, "delete": true, "copy": true, "min": true, "max": true, "recover": true}

func isTypeExpr(e ast.Expr) bool {
	switch x := e.(type) {
	case *ast.ArrayType, *ast.MapType, *ast.ChanType, *ast.FuncType, *ast.InterfaceType, *ast.StructType:
		return true
	case *ast.Ident:
		return basicValueType(x.Name) || x.Name == "any"
	case *ast.StarExpr:
		return isTypeExpr(x.X)
	case *ast.ParenExpr:
		return isTypeExpr(x.X)
	}
	return false
}

func (a *analyzer) expr(e ast.Expr, fr *frame, f flow) []flow {
	if e == nil {
		return []flow{f}
	}
	switch x := e.(type) {
	case *ast.BasicLit:
		return []flow{f}
	case *ast.Ident:
		return []flow{f}
	case *ast.ParenExpr:
		return a.expr(x.X, fr, f)
	case *ast.StarExpr:
		return a.expr(x.X, fr, f)
	case *ast.TypeAssertExpr:
		return a.expr(x.X, fr, f)
	case *ast.SelectorExpr:
		ts, reads := a.resolve(x, fr)
		if ts != nil || reads != nil {
			for _, t := range ts {
				if t.kind == tMutex {
					failf("%s: mutex %s used as a value", fr.site, t.path)
				}
			}
			a.readTargets(&f, ts, reads)
			return []flow{f}
		}
		return a.expr(x.X, fr, f)
	case *ast.CallExpr:
		return a.call(x, fr, f)
	case *ast.BinaryExpr:
		return a.exprs([]ast.Expr{x.X, x.Y}, fr, []flow{f})
	case *ast.UnaryExpr:
		if x.Op == token.ARROW {
			out := a.expr(x.X, fr, f)
			for i := range out {
				a.blk(&out[i], fr, "channel receive")
			}
			return out
		}
		if x.Op == token.AND {
			if ts, _ := a.resolve(x.X, fr); len(ts) > 0 {
				failf("%s: address of shared state taken (%s)", fr.site, exprString(fr.pkg.fset, x))
			}
		}
		return a.expr(x.X, fr, f)
	case *ast.IndexExpr:
		outs := a.exprs([]ast.Expr{x.X, x.Index}, fr, []flow{f})
		for i := range outs {
			a.mayPanic(fr, outs[i]) // index out of range
		}
		return outs
	case *ast.SliceExpr:
		outs := a.exprs([]ast.Expr{x.X, x.Low, x.High, x.Max}, fr, []flow{f})
		for i := range outs {
			a.mayPanic(fr, outs[i])
		}
		return outs
	case *ast.CompositeLit:
		var es []ast.Expr
		for _, el := range x.Elts {
			if kv, ok := el.(*ast.KeyValueExpr); ok {
				es = append(es, kv.Value)
			} else {
				es = append(es, el)
			}
		}
		return a.exprs(es, fr, []flow{f})
	case *ast.KeyValueExpr:
		return a.expr(x.Value, fr, f)
	case *ast.FuncLit:
		// a closure that is neither called here, deferred nor started with go: it escapes and may run
		// at any time on any goroutine, holding nothing
		return a.spawn(x, fr, f, true)
	case *ast.ArrayType, *ast.MapType, *ast.ChanType, *ast.FuncType, *ast.InterfaceType, *ast.StructType:
		return []flow{f}
	}
	failf("%s: unsupported expression %T (%s)", fr.site, e, exprString(fr.pkg.fset, e))
	return nil
}

// applyEffect: a callee reads ("R") or may write ("W") the contents of what the argument denotes
func (a *analyzer) applyEffect(f *flow, ts []target, eff string) {
	for _, t := range ts {
		switch t.kind {
		case tRefPtr:
			loc := t.path + ".*"
			if eff == "R" {
				a.rd(f, loc)
			} else {
				a.wr(f, loc)
			}
		case tContents:
			if eff == "R" {
				a.rd(f, t.path)
			} else {
				a.wr(f, t.path)
			}
		case tObj:
			failf("an analysed object is passed to a function (%s)", t.prefix)
		}
	}
}

func (a *analyzer) call(c *ast.CallExpr, fr *frame, f flow) []flow {
	// conversions and builtins
	if isTypeExpr(c.Fun) {
		return a.exprs(c.Args, fr, []flow{f})
	}
	if id, ok := c.Fun.(*ast.Ident); ok && builtins[id.Name] {
		args := c.Args
		if (id.Name == "make" || id.Name == "new") && len(args) > 0 {
			args = args[1:]
		}
		if id.Name == "copy" || id.Name == "delete" {
			if ts, _ := a.resolve(c.Args[0], fr); len(ts) > 0 {
				failf("%s: builtin %s on shared state is not supported", fr.site, id.Name)
			}
		}
		return a.exprs(args, fr, []flow{f})
	}
	// immediately invoked function literal
	if lit, ok := c.Fun.(*ast.FuncLit); ok {
		out := a.exprs(c.Args, fr, []flow{f})
		var res []flow
		for _, o := range out {
			res = append(res, a.execBody(lit.Body, fr, o)...)
		}
		return res
	}
	// the receiver itself must not escape
	for _, arg := range c.Args {
		if id, ok := stripExpr(arg).(*ast.Ident); ok && id.Name == fr.recvName {
			fe, known := funcEffects[calleeName(c)]
			if !known || !fe.Recv {
				failf("%s: the receiver is passed to %s (not reviewed)", fr.site, exprString(fr.pkg.fset, c.Fun))
			}
			a.w.note("%s: the receiver is handed to %s (reviewed: it only calls exported methods later)", fr.site, calleeName(c))
		}
	}
	var callbacks []*ast.FuncLit
	var plain []ast.Expr
	for _, arg := range c.Args {
		if lit, ok := arg.(*ast.FuncLit); ok {
			callbacks = append(callbacks, lit)
		} else {
			plain = append(plain, arg)
		}
	}

	if sel, ok := c.Fun.(*ast.SelectorExpr); ok {
		ts, reads := a.resolve(sel.X, fr)
		if len(ts) > 0 {
			// evaluate the arguments first
			outs := a.exprs(plain, fr, []flow{f})
			var res []flow
			for _, o := range outs {
				for _, r := range reads {
					a.rd(&o, r)
				}
				cur := []flow{o}
				for _, t := range ts {
					var next []flow
					for _, g := range cur {
						next = append(next, a.methodOn(c, sel.Sel.Name, t, callbacks, fr, g)...)
					}
					cur = next
				}
				res = append(res, cur...)
			}
			return res
		}
		if id, ok := sel.X.(*ast.Ident); ok {
			if _, tainted := fr.taint[id.Name]; tainted {
				outs := a.exprs(plain, fr, []flow{f})
				for i := range outs {
					a.blk(&outs[i], fr, "call of a function stored in "+fr.taint[id.Name])
					a.mayPanic(fr, outs[i])
				}
				return a.runCallbacks(callbacks, nil, fr, outs)
			}
			if fr.imports[id.Name] {
				return a.funcCall(c, id.Name+"."+sel.Sel.Name, plain, callbacks, fr, f)
			}
		}
		// a method of a value that is not part of the shared object
		outs := a.expr(sel.X, fr, f)
		outs = a.exprs(plain, fr, outs)
		return a.runCallbacks(callbacks, nil, fr, outs)
	}
	if id, ok := c.Fun.(*ast.Ident); ok {
		if _, tainted := fr.taint[id.Name]; tainted {
			outs := a.exprs(plain, fr, []flow{f})
			for i := range outs {
				a.blk(&outs[i], fr, "call of a function stored in "+fr.taint[id.Name])
			}
			return outs
		}
		return a.funcCall(c, id.Name, plain, callbacks, fr, f)
	}
	failf("%s: unsupported call %s", fr.site, exprString(fr.pkg.fset, c.Fun))
	return nil
}

// funcCall: a package-level function (of this or another package) or a local function value
func (a *analyzer) funcCall(c *ast.CallExpr, name string, plain []ast.Expr, callbacks []*ast.FuncLit, fr *frame, f flow) []flow {
	outs := a.exprs(plain, fr, []flow{f})
	fe, known := funcEffects[name]
	for i := range outs {
		for ai, arg := range c.Args {
			if _, isLit := arg.(*ast.FuncLit); isLit {
				continue
			}
			ts, _ := a.resolve(arg, fr)
			if len(ts) == 0 {
				continue
			}
			eff := "W"
			if known {
				if e, ok := fe.Args[ai]; ok {
					eff = e
				} else {
					eff = ""
				}
			} else {
				shared := false
				for _, t := range ts {
					if t.kind == tRefPtr || t.kind == tContents {
						shared = true
					}
				}
				if shared {
					a.w.note("%s: %s is not in the reviewed function table; it is assumed to write what it is given", fr.site, name)
				}
			}
			if eff == "R" || eff == "W" {
				if eff == "R" && !a.w.pureFunc(name) {
					eff = "W"
				}
				a.applyEffect(&outs[i], ts, eff)
			}
		}
		if known && fe.Blk != "" {
			a.blk(&outs[i], fr, "call "+name)
		}
		a.mayPanic(fr, outs[i])
	}
	return a.runCallbacks(callbacks, nil, fr, outs)
}

// methodOn: a method call on something that belongs to the shared object
func (a *analyzer) methodOn(c *ast.CallExpr, name string, t target, callbacks []*ast.FuncLit, fr *frame, f flow) []flow {
	switch t.kind {
	case tMutex:
		a.lock(&f, t, name, fr)
		return []flow{f}
	case tValue:
		if t.obj != nil { // method of the analysed object behind a pointer field
			a.rd(&f, t.path)
			return a.inline(c, name, target{kind: tObj, obj: t.obj, prefix: t.prefix}, fr, f)
		}
		a.rd(&f, t.path)
		if !readOnlyMethods[name] {
			a.wr(&f, t.path)
		}
		return a.runCallbacks(callbacks, nil, fr, []flow{f})
	case tObj:
		return a.inline(c, name, t, fr, f)
	case tFile:
		a.rd(&f, t.path)
		a.mayPanic(fr, f)
		return a.runCallbacks(callbacks, nil, fr, []flow{f})
	case tRefPtr, tContents:
		loc := t.path
		if t.kind == tRefPtr {
			a.rd(&f, t.path)
			loc = t.path + ".*"
		}
		var accs []act
		if readOnlyMethods[name] && a.w.pureMethod(name) {
			a.rd(&f, loc)
			accs = []act{{Op: "Rd", Name: a.in.canon(loc)}}
		} else {
			a.wr(&f, loc)
			accs = []act{{Op: "Wr", Name: a.in.canon(loc)}}
		}
		a.mayPanic(fr, f)
		return a.runCallbacks(callbacks, accs, fr, []flow{f})
	}
	failf("%s: unsupported method call %s", fr.site, exprString(fr.pkg.fset, c.Fun))
	return nil
}

// runCallbacks: function literals passed to a callee run zero or more times during the call;
// between two runs the callee repeats its own accesses (accs).
func (a *analyzer) runCallbacks(callbacks []*ast.FuncLit, accs []act, fr *frame, in []flow) []flow {
	if len(callbacks) == 0 {
		return in
	}
	var res []flow
	for _, f := range in {
		var alts [][]act
		for _, lit := range callbacks {
			a.collectAliases(lit.Body, fr)
			outs := a.execBody(lit.Body, fr, flow{st: state{held: f.st.held, defers: f.st.defers, outer: f.st.outer}, ctx: append(append([]seg(nil), f.ctx...), f.segs...)})
			for _, o := range outs {
				if !sameHeld(o.st.held, f.st.held) {
					failf("%s: a callback changes the lock state", fr.site)
				}
				alts = append(alts, a.pieces(o.segs, accs, fr)...)
			}
		}
		g := f.clone()
		g.emitIter(dedupAlts(alts))
		res = append(res, g)
	}
	return res
}

// pieces flattens the body of one iteration into loop alternatives
func (a *analyzer) pieces(segs []seg, tail []act, fr *frame) [][]act {
	nested := false
	for _, s := range segs {
		if s.Iter {
			nested = true
		}
	}
	if !nested {
		var code []act
		for _, s := range segs {
			code = append(code, s.Code...)
		}
		code = append(code, tail...)
		if len(code) == 0 {
			return nil
		}
		return [][]act{code}
	}
	// nested loops: every piece becomes an alternative of the outer loop; sound only if no piece touches locks
	var out [][]act
	add := func(code []act) {
		for _, x := range code {
			if x.Op == "Acq" || x.Op == "Rel" || x.Op == "Handoff" {
				failf("%s: lock operation inside nested loops is not supported", fr.site)
			}
		}
		if len(code) > 0 {
			out = append(out, code)
		}
	}
	for _, s := range segs {
		if s.Iter {
			for _, alt := range s.Alts {
				add(alt)
			}
		} else {
			add(s.Code)
		}
	}
	add(tail)
	return out
}

func dedupAlts(alts [][]act) [][]act {
	seen := map[string]bool{}
	var out [][]act
	for _, al := range alts {
		k := fmt.Sprint(al)
		if !seen[k] {
			seen[k] = true
			out = append(out, al)
		}
	}
	return out
}

func sameHeld(x, y []heldLock) bool {
	if len(x) != len(y) {
		return false
	}
	for i := range x {
		if x[i] != y[i] {
			return false
		}
	}
	return true
}

// inline: a call of a method of an analysed object
func (a *analyzer) inline(c *ast.CallExpr, name string, t target, fr *frame, f flow) []flow {
	m := t.obj.method(name)
	if m == nil {
		failf("%s: method %s.%s not found", fr.site, t.obj.name, name)
	}
	if m.Body == nil {
		failf("%s: method %s.%s has no body", fr.site, t.obj.name, name)
	}
	if fr.depth > 8 {
		failf("%s: call depth exceeded at %s.%s (recursion?)", fr.site, t.obj.name, name)
	}
	cf := a.calleeFrame(m, t, fr, c.Args, fr)
	return a.execBody(m.Body, cf, f)
}

// execBody runs a function body as its own activation: its defers run when it returns
func (a *analyzer) execBody(body *ast.BlockStmt, fr *frame, f flow) []flow {
	saved := f.st.defers
	savedOuter := f.st.outer
	f.st.outer = append(append([][]dcall(nil), f.st.outer...), saved)
	f.st.defers = nil
	f.exit = exFall
	outs := a.stmts(body.List, fr, []flow{f})
	var res []flow
	for _, o := range outs {
		if o.exit == exBreak || o.exit == exCont {
			failf("%s: break/continue leaves a function body", fr.site)
		}
		cur := []flow{o}
		ds := o.st.defers
		for i := len(ds) - 1; i >= 0; i-- {
			var next []flow
			for _, g := range cur {
				g.st.defers = nil
				g.exit = exFall
				next = append(next, a.call(ds[i].call, ds[i].fr, g)...)
			}
			cur = next
		}
		for _, g := range cur {
			g.st.defers = saved
			g.st.outer = savedOuter
			g.exit = exFall
			g.ret = o.ret
			res = append(res, g)
		}
	}
	return res
}

// spawn: go func(){...}() (escaping = false) or an escaping closure (escaping = true)
func (a *analyzer) spawn(lit *ast.FuncLit, fr *frame, f flow, escaping bool) []flow {
	k := *fr.goCount
	*fr.goCount = k + 1
	sub := *fr
	sub.site = fmt.Sprintf("%s/go%d", fr.site, k)
	a.collectAliases(lit.Body, &sub)
	savedBlk := len(a.in.Blk)
	wasNo := a.noPanics
	a.noPanics = true
	defer func() { a.noPanics = wasNo }()
	outs := a.execBody(lit.Body, &sub, flow{})
	handoff := false
	if !escaping {
		for _, o := range outs {
			if o.st.relUnheld && len(f.st.held) > 0 {
				handoff = true
			}
		}
	}
	if handoff {
		a.in.Blk = a.in.Blk[:savedBlk]
		outs = a.execBody(lit.Body, &sub, flow{st: state{held: append([]heldLock(nil), f.st.held...)}})
	}
	var res []flow
	seen := map[string]int{}
	for _, o := range outs {
		e := &tblEntry{Path: normalize(o.segs)}
		if handoff {
			e.Held = append([]heldLock(nil), f.st.held...)
		}
		key := fmt.Sprint(e.Held, e.Path)
		if _, dup := seen[key]; dup {
			continue
		}
		seen[key] = 1
		e.Name = fmt.Sprintf("%s#%d", sub.site, len(seen)-1)
		// the same goroutine body may be reached from several paths of the creator
		found := false
		for _, old := range a.in.Tbl {
			if fmt.Sprint(old.Held, old.Path) == key && strings.HasPrefix(old.Name, fr.site+"/go") {
				e = old
				found = true
			}
		}
		if !found {
			a.in.Tbl = append(a.in.Tbl, e)
		}
		g := f.clone()
		if handoff {
			g.emit(act{Op: "Handoff", Name: e.Name})
			g.st.held = nil
		} else {
			g.emit(act{Op: "Spawn", Name: e.Name})
		}
		res = append(res, g)
	}
	return res
}

// ---- statements ------------------------------------------------------------------------------------
func (a *analyzer) stmts(list []ast.Stmt, fr *frame, in []flow) []flow {
	for i, s := range list {
		var next []flow
		for _, f := range in {
			if f.exit != exFall {
				next = append(next, f)
				continue
			}
			var prev ast.Stmt
			if i > 0 {
				prev = list[i-1]
			}
			next = append(next, a.stmt(s, prev, fr, f)...)
		}
		in = next
	}
	return in
}

func (a *analyzer) assignTargets(lhs ast.Expr, fr *frame, f *flow, alsoRead bool) {
	e := stripExpr(lhs)
	if ix, ok := e.(*ast.IndexExpr); ok {
		e = stripExpr(ix.X)
	}
	if _, local := e.(*ast.Ident); local {
		return // (re)binding a local name writes no shared state
	}
	ts, reads := a.resolve(e, fr)
	for _, r := range reads {
		a.rd(f, r)
	}
	for _, t := range ts {
		switch t.kind {
		case tValue, tRefPtr, tFile, tContents:
			if alsoRead {
				a.rd(f, t.path)
			}
			a.wr(f, t.path)
		case tObj, tMutex:
			failf("%s: assignment to %s is not supported", fr.site, exprString(fr.pkg.fset, lhs))
		}
	}
}

func (a *analyzer) stmt(s ast.Stmt, prev ast.Stmt, fr *frame, f flow) []flow {
	switch x := s.(type) {
	case nil:
		return []flow{f}
	case *ast.EmptyStmt:
		return []flow{f}
	case *ast.ExprStmt:
		return a.expr(x.X, fr, f)
	case *ast.DeclStmt:
		gd, ok := x.Decl.(*ast.GenDecl)
		if !ok {
			failf("%s: unsupported declaration", fr.site)
		}
		outs := []flow{f}
		for _, sp := range gd.Specs {
			if vs, ok := sp.(*ast.ValueSpec); ok {
				outs = a.exprs(vs.Values, fr, outs)
			}
		}
		return outs
	case *ast.AssignStmt:
		outs := a.exprs(x.Rhs, fr, []flow{f})
		for i := range outs {
			for _, l := range x.Lhs {
				// index expressions on the left are evaluated too
				if ix, ok := stripExpr(l).(*ast.IndexExpr); ok {
					sub := a.expr(ix.Index, fr, outs[i])
					if len(sub) != 1 {
						failf("%s: call inside an index on the left of an assignment", fr.site)
					}
					outs[i] = sub[0]
				}
				a.assignTargets(l, fr, &outs[i], x.Tok != token.ASSIGN && x.Tok != token.DEFINE)
			}
		}
		return outs
	case *ast.IncDecStmt:
		a.assignTargets(x.X, fr, &f, true)
		return []flow{f}
	case *ast.SendStmt:
		outs := a.exprs([]ast.Expr{x.Chan, x.Value}, fr, []flow{f})
		for i := range outs {
			a.blk(&outs[i], fr, "channel send")
		}
		return outs
	case *ast.BlockStmt:
		return a.stmts(x.List, fr, []flow{f})
	case *ast.ReturnStmt:
		outs := a.exprs(x.Results, fr, []flow{f})
		for i := range outs {
			outs[i].exit = exRet
			if len(x.Results) > 0 {
				outs[i].ret, _ = a.resolve(x.Results[0], fr)
			}
		}
		return outs
	case *ast.BranchStmt:
		if x.Label != nil {
			failf("%s: labelled %s is not supported", fr.site, x.Tok)
		}
		switch x.Tok {
		case token.BREAK:
			f.exit = exBreak
		case token.CONTINUE:
			f.exit = exCont
		default:
			failf("%s: %s is not supported", fr.site, x.Tok)
		}
		return []flow{f}
	case *ast.DeferStmt:
		// arguments of a deferred call are evaluated now
		var args []ast.Expr
		for _, arg := range x.Call.Args {
			if _, ok := arg.(*ast.FuncLit); !ok {
				args = append(args, arg)
			}
		}
		outs := a.exprs(args, fr, []flow{f})
		for i := range outs {
			outs[i].st.defers = append(append([]dcall(nil), outs[i].st.defers...), dcall{x.Call, fr})
		}
		return outs
	case *ast.GoStmt:
		lit, ok := x.Call.Fun.(*ast.FuncLit)
		if !ok || len(x.Call.Args) != 0 {
			failf("%s: only `go func() {...}()` is supported", fr.site)
		}
		return a.spawn(lit, fr, f, false)
	case *ast.IfStmt:
		outs := a.stmt(x.Init, nil, fr, f)
		outs = a.exprs([]ast.Expr{x.Cond}, fr, outs)
		var res []flow
		for _, o := range outs {
			if a.deadErrBranch(x, prev, fr) {
				// only the else/fall-through continues
			} else {
				res = append(res, a.stmts(x.Body.List, fr, []flow{o.clone()})...)
			}
			if x.Else != nil {
				res = append(res, a.stmt(x.Else, nil, fr, o.clone())...)
			} else {
				res = append(res, o)
			}
		}
		return res
	case *ast.ForStmt:
		outs := a.stmt(x.Init, nil, fr, f)
		var res []flow
		for _, o := range outs {
			res = append(res, a.loop(x.Cond, x.Post, nil, x.Body, fr, o)...)
		}
		return res
	case *ast.RangeStmt:
		outs := a.expr(x.X, fr, f)
		var res []flow
		for _, o := range outs {
			var per []act
			if ts, _ := a.resolve(x.X, fr); len(ts) > 0 {
				tmp := flow{}
				a.readTargets(&tmp, ts, nil)
				for _, sg := range tmp.segs {
					per = append(per, sg.Code...)
				}
			}
			if u, ok := stripExpr(x.X).(*ast.UnaryExpr); ok && u.Op == token.ARROW {
				failf("%s: range over a received value", fr.site)
			}
			res = append(res, a.loop(nil, nil, per, x.Body, fr, o)...)
		}
		return res
	case *ast.SwitchStmt:
		outs := a.stmt(x.Init, nil, fr, f)
		outs = a.exprs([]ast.Expr{x.Tag}, fr, outs)
		return a.clauses(x.Body, fr, outs)
	case *ast.TypeSwitchStmt:
		outs := a.stmt(x.Init, nil, fr, f)
		var res []flow
		for _, o := range outs {
			res = append(res, a.stmt(x.Assign, nil, fr, o)...)
		}
		return a.clauses(x.Body, fr, res)
	case *ast.SelectStmt:
		a.blk(&f, fr, "select")
		var res []flow
		for _, cl := range x.Body.List {
			cc := cl.(*ast.CommClause)
			g := f.clone()
			outs := []flow{g}
			if cc.Comm != nil {
				outs = a.commStmt(cc.Comm, fr, g)
			}
			for _, o := range a.stmts(cc.Body, fr, outs) {
				if o.exit == exBreak {
					o.exit = exFall
				}
				res = append(res, o)
			}
		}
		return res
	case *ast.LabeledStmt:
		failf("%s: labelled statements are not supported", fr.site)
	}
	failf("%s: unsupported statement %T", fr.site, s)
	return nil
}

// commStmt: the communication of a select clause (the blocking itself is the select's Blk site)
func (a *analyzer) commStmt(s ast.Stmt, fr *frame, f flow) []flow {
	switch x := s.(type) {
	case *ast.SendStmt:
		return a.exprs([]ast.Expr{x.Chan, x.Value}, fr, []flow{f})
	case *ast.ExprStmt:
		if u, ok := stripExpr(x.X).(*ast.UnaryExpr); ok && u.Op == token.ARROW {
			return a.expr(u.X, fr, f)
		}
	case *ast.AssignStmt:
		if len(x.Rhs) == 1 {
			if u, ok := stripExpr(x.Rhs[0]).(*ast.UnaryExpr); ok && u.Op == token.ARROW {
				return a.expr(u.X, fr, f)
			}
		}
	}
	failf("%s: unsupported select communication", fr.site)
	return nil
}

func (a *analyzer) clauses(body *ast.BlockStmt, fr *frame, in []flow) []flow {
	var res []flow
	for _, f := range in {
		hasDefault := false
		for _, cl := range body.List {
			cc := cl.(*ast.CaseClause)
			if cc.List == nil {
				hasDefault = true
			}
			outs := a.exprs(cc.List, fr, []flow{f.clone()})
			for _, o := range a.stmts(cc.Body, fr, outs) {
				if o.exit == exBreak {
					o.exit = exFall
				}
				res = append(res, o)
			}
			for _, st := range cc.Body {
				if b, ok := st.(*ast.BranchStmt); ok && b.Tok == token.FALLTHROUGH {
					failf("%s: fallthrough is not supported", fr.site)
				}
			}
		}
		if !hasDefault {
			res = append(res, f)
		}
	}
	return res
}

// loop: for cond { body; post } / range.  per: accesses repeated at the head of every iteration.
func (a *analyzer) loop(cond ast.Expr, post ast.Stmt, per []act, body *ast.BlockStmt, fr *frame, f flow) []flow {
	head := flow{st: state{held: f.st.held, defers: f.st.defers, outer: f.st.outer}, ctx: append(append([]seg(nil), f.ctx...), f.segs...)}
	for _, x := range per {
		head.emit(x)
	}
	heads := a.exprs([]ast.Expr{cond}, fr, []flow{head})
	if len(heads) != 1 {
		failf("%s: a loop condition with several paths is not supported", fr.site)
	}
	condCode := heads[0].segs
	outs := a.stmts(body.List, fr, []flow{heads[0]})
	var alts [][]act
	var exits []flow
	for _, o := range outs {
		switch o.exit {
		case exFall, exCont:
			o.exit = exFall
			ps := a.stmt(post, nil, fr, o)
			for _, p := range ps {
				if !sameHeld(p.st.held, f.st.held) || len(p.st.defers) != len(f.st.defers) {
					failf("%s: the lock state (or the set of deferred calls) differs between the head and the tail of a loop", fr.site)
				}
				alts = append(alts, a.pieces(p.segs, nil, fr)...)
			}
		case exBreak:
			o.exit = exFall
			exits = append(exits, o)
		case exRet:
			exits = append(exits, o)
		}
	}
	alts = dedupAlts(alts)
	var res []flow
	// leaving through the condition
	n := f.clone()
	n.emitIter(alts)
	for _, sg := range condCode {
		for _, x := range sg.Code {
			n.emit(x)
		}
	}
	res = append(res, n)
	for _, e := range exits {
		g := f.clone()
		g.emitIter(alts)
		for _, sg := range e.segs {
			if sg.Iter {
				g.segs = append(g.segs, sg)
			} else {
				for _, x := range sg.Code {
					g.emit(x)
				}
			}
		}
		g.st = e.st
		g.exit = e.exit
		g.ret = e.ret
		res = append(res, g)
	}
	return res
}

// deadErrBranch: `if err != nil {...}` right after a call listed as infallible
func (a *analyzer) deadErrBranch(ifs *ast.IfStmt, prev ast.Stmt, fr *frame) bool {
	if prev == nil || ifs.Init != nil || ifs.Else != nil {
		return false
	}
	if exprString(fr.pkg.fset, ifs.Cond) != "err != nil" {
		return false
	}
	as, ok := prev.(*ast.AssignStmt)
	if !ok || len(as.Rhs) != 1 || len(as.Lhs) != 2 {
		return false
	}
	if id, ok := as.Lhs[1].(*ast.Ident); !ok || id.Name != "err" {
		return false
	}
	c, ok := as.Rhs[0].(*ast.CallExpr)
	if !ok || len(c.Args) != 2 {
		return false
	}
	for _, inf := range infallibleCalls {
		if calleeName(c) != inf.Callee || exprString(fr.pkg.fset, c.Args[1]) != inf.Arg1 {
			continue
		}
		if a.w.pinOK(inf) {
			a.w.prune(fmt.Sprintf("%s: error branch after %s(_, %s) not analysed: %s", fr.site, inf.Callee, inf.Arg1, inf.Why))
			return true
		}
	}
	return false
}

func (w *world) prune(s string) {
	for _, p := range w.pruned {
		if p == s {
			return
		}
	}
	w.pruned = append(w.pruned, s)
}

// ---- normal form of paths -----------------------------------------------------------------------------
func normalize(segs []seg) []seg {
	var out []seg
	for _, s := range segs {
		if s.Iter {
			if len(s.Alts) == 0 {
				continue
			}
			out = append(out, s)
			continue
		}
		if len(s.Code) == 0 {
			continue
		}
		if n := len(out); n > 0 && !out[n-1].Iter {
			out[n-1].Code = append(out[n-1].Code, s.Code...)
		} else {
			out = append(out, seg{Code: append([]act(nil), s.Code...)})
		}
	}
	return out
}

// ---- one instance ---------------------------------------------------------------------------------------
func (w *world) analyseInstance(name string) *instance {
	root := w.loadStruct(name)
	in := &instance{Name: name, root: root, alias: map[string]string{}, otherWhy: map[string]string{}}
	in.layout(root, "", "")
	w.findAliases(in)
	// drop aliased content locations from the field table
	var fs []fieldEntry
	for _, f := range in.Fields {
		if in.canon(f.Name) == f.Name {
			fs = append(fs, f)
		}
	}
	in.Fields = fs
	a := &analyzer{w: w, in: in}
	var names []string
	for n := range root.pkg.methods[name] {
		names = append(names, n)
	}
	sort.Strings(names)
	for _, n := range names {
		m := root.pkg.methods[name][n]
		if !ast.IsExported(n) || m.Body == nil {
			continue
		}
		goCount := 0
		fr := &frame{recvName: recvVarName(m), recv: root, prefix: "", file: root.pkg.fileOf[m], pkg: root.pkg,
			imports: importNames(root.pkg.fileOf[m]), alias: map[string][]target{}, taint: map[string]string{},
			site: name + "." + n, goCount: &goCount}
		a.collectAliases(m.Body, fr)
		a.panics = nil
		outs := a.execBody(m.Body, fr, flow{})
		pp := methodPaths{Name: n}
		pseen := map[string]bool{}
		for _, p := range a.panics {
			if k := fmt.Sprint(p); !pseen[k] {
				pseen[k] = true
				pp.Paths = append(pp.Paths, p)
			}
		}
		if _, no := root.spec.NotOps[n]; !no && len(pp.Paths) > 0 {
			in.Panics = append(in.Panics, pp)
		}
		mp := methodPaths{Name: n}
		seen := map[string]bool{}
		for _, o := range outs {
			p := normalize(o.segs)
			k := fmt.Sprint(p)
			if seen[k] {
				continue
			}
			seen[k] = true
			mp.Paths = append(mp.Paths, p)
		}
		if why, no := root.spec.NotOps[n]; no {
			in.Other = append(in.Other, mp)
			in.otherWhy[n] = why
		} else {
			in.Methods = append(in.Methods, mp)
		}
	}
	return in
}

// findAliases: `v.p = v.q` in a function that builds the object: the contents behind p and q are the same object
func (w *world) findAliases(in *instance) {
	p := in.root.pkg
	for _, f := range p.files {
		for _, d := range f.Decls {
			fd, ok := d.(*ast.FuncDecl)
			if !ok || fd.Body == nil || fd.Recv != nil {
				continue
			}
			// variables assigned from &T{...}
			built := map[string]bool{}
			ast.Inspect(fd.Body, func(n ast.Node) bool {
				as, ok := n.(*ast.AssignStmt)
				if !ok {
					return true
				}
				for i, r := range as.Rhs {
					if i >= len(as.Lhs) {
						break
					}
					if u, ok := r.(*ast.UnaryExpr); ok && u.Op == token.AND {
						if cl, ok := u.X.(*ast.CompositeLit); ok {
							if id, ok := cl.Type.(*ast.Ident); ok && id.Name == in.root.name {
								if l, ok := as.Lhs[i].(*ast.Ident); ok {
									built[l.Name] = true
								}
							}
						}
					}
				}
				return true
			})
			if len(built) == 0 {
				continue
			}
			a := &analyzer{w: w, in: in}
			ast.Inspect(fd.Body, func(n ast.Node) bool {
				as, ok := n.(*ast.AssignStmt)
				if !ok || len(as.Lhs) != len(as.Rhs) {
					return true
				}
				for i := range as.Lhs {
					lr, _ := chain(as.Lhs[i])
					rr, _ := chain(as.Rhs[i])
					li, ok1 := lr.(*ast.Ident)
					ri, ok2 := rr.(*ast.Ident)
					if !ok1 || !ok2 || li.Name != ri.Name || !built[li.Name] {
						continue
					}
					fr := &frame{recvName: li.Name, recv: in.root, pkg: p, site: fd.Name.Name, alias: map[string][]target{}, taint: map[string]string{}}
					lt, _ := a.resolve(as.Lhs[i], fr)
					rt, _ := a.resolve(as.Rhs[i], fr)
					if len(lt) == 1 && len(rt) == 1 && lt[0].kind == tRefPtr && rt[0].kind == tRefPtr {
						x, y := lt[0].path+".*", rt[0].path+".*"
						if len(y) > len(x) || (len(y) == len(x) && y > x) {
							x, y = y, x
						}
						// x (longer name) is an alias of y
						in.alias[x] = y
						w.note("%s: %s and %s denote the same object (assigned in %s)", in.Name, lt[0].path, rt[0].path, fd.Name.Name)
					}
				}
				return true
			})
		}
	}
}
