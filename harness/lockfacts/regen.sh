#!/bin/bash
# regen.sh: refresh the committed coq/theories/GeneratedLockFacts.v from $VERIF_REPO (default /repo)
set -eu
V=$(cd "$(dirname "$0")/../.." && pwd)
export GOFLAGS=-mod=mod GOPROXY=off GOSUMDB=off GOTOOLCHAIN=local CGO_ENABLED=0
REPO=${VERIF_REPO:-/repo}
T=$(mktemp -d /var/tmp/lockfacts-XXXXXX)
trap 'rm -rf "$T"' EXIT
cp "$V"/harness/lockfacts/*.go "$T/"
printf 'module lockfacts\n\ngo 1.22\n' > "$T/go.mod"
( cd "$T" && go build -o lockfacts . )
"$T/lockfacts" -repo "$REPO" -out "$V/coq/theories/GeneratedLockFacts.v"
