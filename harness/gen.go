package main

import (
	"bufio"
	"bytes"
	"encoding/binary"
	"io"

	"github.com/ipfs/go-cid"
	carv1 "github.com/ipld/go-car"
	v1util "github.com/ipld/go-car/util"
	mh "github.com/multiformats/go-multihash"
	"github.com/multiformats/go-varint"
)

type Blk struct {
	Cid  cid.Cid
	Data []byte
}

var codecs = []uint64{0x55, 0x70, 0x71, 0x0129, 0xf101}

type hashKind struct {
	code uint64
	len  int // -1 default
}

var hashKinds = []hashKind{
	{mh.SHA2_256, -1}, {mh.SHA2_256, -1}, {mh.SHA2_256, -1}, {mh.SHA2_512, -1}, {mh.SHA1, -1}, {mh.MD5, -1},
	{0x1013, -1}, {mh.DBL_SHA2_256, -1}, {mh.SHA2_256, 20}, {mh.SHA2_512, 28}, {0x1015, -1},
}

func mkCid(version int, codec uint64, code uint64, length int, data []byte) cid.Cid {
	h, err := mh.Sum(data, code, length)
	if err != nil {
		panic(err)
	}
	if version == 0 {
		return cid.NewCidV0(h)
	}
	return cid.NewCidV1(codec, h)
}

// interesting data lengths: |cid|+|data| straddles the varint width boundaries
func genDataLen(r *RNG, cidLen int, big bool) int {
	targets := []int{0, 1, 2, 126, 127, 128, 129, 200, 16382, 16383, 16384, 16385}
	switch r.Intn(10) {
	case 0, 1, 2:
		return r.Intn(40)
	case 3, 4:
		return r.Intn(300)
	case 5:
		if big {
			t := pick(r, []int{2097150, 2097151, 2097152, 2097153})
			if t-cidLen >= 0 {
				return t - cidLen
			}
		}
		return r.Intn(40)
	default:
		t := pick(r, targets)
		if t-cidLen >= 0 {
			return t - cidLen
		}
		return t
	}
}

type genOpts struct {
	identity bool // allow identity CIDs
	big      bool // allow 2^21-boundary blocks
	maxData  int  // cap on data length (0 = none)
}

func genBlock(r *RNG, g genOpts) Blk {
	// choose the cid flavour first to know its length
	if g.identity && r.Chance(12) {
		n := pick(r, []int{0, 1, 5, 32, 64, 200})
		if g.maxData > 0 && n > g.maxData {
			n = g.maxData
		}
		data := r.Bytes(n)
		return Blk{mkCid(1, pick(r, codecs), mh.IDENTITY, -1, data), data}
	}
	hk := pick(r, hashKinds)
	version := 1
	codec := pick(r, codecs)
	if hk.code == mh.SHA2_256 && hk.len == -1 && r.Chance(25) {
		version = 0
	}
	probe := mkCid(version, codec, hk.code, hk.len, nil)
	n := genDataLen(r, probe.ByteLen(), g.big)
	if g.maxData > 0 && n > g.maxData {
		n = r.Intn(g.maxData + 1)
	}
	data := r.Bytes(n)
	return Blk{mkCid(version, codec, hk.code, hk.len, data), data}
}

// genBlocks produces a block sequence with the collision alphabet mixed in:
// exact duplicates, same multihash under another codec, identity CID carrying another
// block's digest (same digest, different hash code).
func genBlocks(r *RNG, n int, g genOpts) []Blk {
	var out []Blk
	for len(out) < n {
		if len(out) > 0 && r.Chance(25) {
			b := pick(r, out)
			switch r.Intn(3) {
			case 0: // exact duplicate
				out = append(out, b)
			case 1: // same multihash, different codec (v1)
				c := cid.NewCidV1(pick(r, codecs), b.Cid.Hash())
				out = append(out, Blk{c, b.Data})
			case 2: // identity CID whose digest equals b's digest
				if g.identity {
					dm, _ := mh.Decode(b.Cid.Hash())
					c := mkCid(1, 0x55, mh.IDENTITY, -1, dm.Digest)
					out = append(out, Blk{c, dm.Digest})
				}
			}
			continue
		}
		out = append(out, genBlock(r, g))
	}
	return out
}

func genRoots(r *RNG, blks []Blk, allowEmpty bool) []cid.Cid {
	n := r.Intn(4)
	if !allowEmpty && n == 0 {
		n = 1
	}
	var roots []cid.Cid
	for i := 0; i < n; i++ {
		switch {
		case len(blks) > 0 && r.Chance(60):
			roots = append(roots, pick(r, blks).Cid)
		case len(roots) > 0 && r.Chance(30):
			roots = append(roots, roots[0]) // duplicate root
		default:
			roots = append(roots, genBlock(r, genOpts{maxData: 8}).Cid) // root absent from blocks
		}
	}
	return roots
}

// refPayload writes a CARv1 payload with the root module's public framing functions
// (independent of every v2 writer under test).
func refPayload(roots []cid.Cid, blks []Blk) []byte {
	var buf bytes.Buffer
	if err := carv1.WriteHeader(&carv1.CarHeader{Roots: roots, Version: 1}, &buf); err != nil {
		panic(err)
	}
	for _, b := range blks {
		if err := v1util.LdWrite(&buf, b.Cid.Bytes(), b.Data); err != nil {
			panic(err)
		}
	}
	return buf.Bytes()
}

func cidsVal(cs []cid.Cid) Val {
	out := VL{}
	for _, c := range cs {
		out = append(out, VB(c.Bytes()))
	}
	return out
}
func blksVal(bs []Blk) Val {
	out := VL{}
	for _, b := range bs {
		out = append(out, VL{VB(b.Cid.Bytes()), VB(b.Data)})
	}
	return out
}

// hashOK = c.Prefix().Sum(data) equals c (what every verifying reader computes)
func hashOK(c cid.Cid, data []byte) bool {
	h, err := c.Prefix().Sum(data)
	if err != nil {
		return false
	}
	return h.Equals(c)
}

// refSections is the harness's own minimal section enumerator over a byte string: used only
// to fill the hash-oracle table with every (cid,data) pair a reader could ask about.
func refSections(payload []byte) (out []Blk) {
	// The v2 readers decode length prefixes with go-varint (minimal encodings only), the root module with
	// encoding/binary (which also accepts padded encodings): the hash table must hold every section either of
	// them can reach, so the payload is walked with both decoders.
	strict := func(p []byte) (uint64, int) {
		l, n, err := varint.FromUvarint(p)
		if err != nil {
			return 0, 0
		}
		return l, n
	}
	lenient := func(p []byte) (uint64, int) { return binary.Uvarint(p) }
	out = refSectionsWith(payload, strict)
	out = append(out, refSectionsWith(payload, lenient)...)
	return
}

func refSectionsWith(payload []byte, uv func([]byte) (uint64, int)) (out []Blk) {
	p := payload
	for len(p) > 0 {
		l, n := uv(p)
		if n <= 0 {
			return
		}
		p = p[n:]
		if l > uint64(len(p)) {
			return
		}
		sec := p[:l]
		p = p[l:]
		if cn, c, err := cid.CidFromBytes(sec); err == nil {
			out = append(out, Blk{c, sec[cn:]})
		}
		// the root module parses the CID with CidFromReader, which can differ on odd input
		if cn, c, err := cid.CidFromReader(bytes.NewReader(sec)); err == nil {
			out = append(out, Blk{c, sec[cn:]})
		}
	}
	return
}

func hokTable(payloads ...[]byte) Val {
	tab := VL{}
	seen := map[string]bool{}
	for _, p := range payloads {
		for _, b := range refSections(p) {
			k := string(b.Cid.Bytes()) + "|" + string(b.Data)
			if seen[k] {
				continue
			}
			seen[k] = true
			tab = append(tab, VL{VB(b.Cid.Bytes()), VB(b.Data), vbool(hashOK(b.Cid, b.Data))})
		}
	}
	return tab
}

// header oracle entry for the length-prefixed header found at the start of s (if any):
// what go-ipld-cbor makes of those bytes.
func hdrEntry(s []byte) (Val, []byte, bool) {
	l, n, err := varint.FromUvarint(s)
	if err != nil || n <= 0 || l > uint64(len(s)-n) || l > 1<<20 {
		return nil, nil, false
	}
	hb := s[n : n+int(l)]
	var framed bytes.Buffer
	framed.Write(varint.ToUvarint(uint64(len(hb))))
	framed.Write(hb)
	h, err := carv1.ReadHeader(bufio.NewReader(&framed))
	if err != nil {
		return VL{VB(hb), VN(0), VL{}, VN(0)}, s[n+int(l):], true
	}
	return VL{VB(hb), VN(1), cidsVal(h.Roots), VN(h.Version)}, s[n+int(l):], true
}

var _ = io.EOF
