package main

import (
	"bytes"
	"encoding/binary"
	"sort"

	"github.com/ipfs/go-cid"
	"github.com/ipld/go-car/v2/index"
	"github.com/multiformats/go-multicodec"
	mh "github.com/multiformats/go-multihash"
	"github.com/multiformats/go-varint"
)

// kind idxbig (theories/RunIndex.v): buckets above the 1 MiB read chunk of singleWidthIndex.Unmarshal.
// The record set follows a rule shared with the Coq side (big_recs); for this kind the extracted
// code evaluates only the layer-B expectation, see the comment there.

type c11BigBucket struct {
	code uint64
	dl   int
	n    int
}

type c11BigDesc struct {
	a, b c11BigBucket
	ndup int
}

func (d c11BigDesc) val() Val {
	bv := func(b c11BigBucket) Val { return VL{VN(b.code), VN(uint64(b.dl)), VN(uint64(b.n))} }
	return VL{bv(d.a), bv(d.b), VN(uint64(d.ndup))}
}

const c11BigMult = 11400714819323198485

func c11BigDigest(dl int, i uint64) []byte {
	d := make([]byte, dl)
	binary.BigEndian.PutUint64(d, i*c11BigMult)
	for k := 8; k < dl; k++ {
		d[k] = 0xa5
	}
	return d
}

func c11BigRecords(d c11BigDesc) []idxRec {
	rs := make([]idxRec, 0, d.a.n+d.b.n+d.ndup)
	for i := 0; i < d.a.n; i++ {
		rs = append(rs, idxRec{c11RawCid(0x55, d.a.code, c11BigDigest(d.a.dl, uint64(i))), 1000 + 3*uint64(i)})
	}
	for i := 0; i < d.b.n; i++ {
		rs = append(rs, idxRec{c11RawCid(0x55, d.b.code, c11BigDigest(d.b.dl, uint64(i))), 7 + 5*uint64(i)})
	}
	for j := 0; j < d.ndup; j++ {
		rs = append(rs, idxRec{c11RawCid(0x55, d.a.code, c11BigDigest(d.a.dl, uint64((7*j)%d.a.n))), 5000000000 + uint64(j)})
	}
	return rs
}

type c11BigEntry struct {
	code   uint64
	digest string
	off    uint64
}

// c11BigStructure parses serialized index bytes on its own: codes ascend, widths ascend inside a code,
// digests ascend inside a bucket, no trailing bytes; returns the entries found.
func c11BigStructure(b []byte) (entries []c11BigEntry, ok bool) {
	codec, n, err := varint.FromUvarint(b)
	if err != nil {
		return nil, false
	}
	p := b[n:]
	buckets := func(code uint64) bool {
		if len(p) < 4 {
			return false
		}
		cnt := int(int32(binary.LittleEndian.Uint32(p)))
		p = p[4:]
		lastW := -1
		for i := 0; i < cnt; i++ {
			if len(p) < 12 {
				return false
			}
			w := int(binary.LittleEndian.Uint32(p))
			dl := binary.LittleEndian.Uint64(p[4:])
			p = p[12:]
			if w < 8 || w <= lastW || dl > uint64(len(p)) || dl%uint64(w) != 0 {
				return false
			}
			lastW = w
			var prev []byte
			for k := 0; k < int(dl)/w; k++ {
				rec := p[k*w : (k+1)*w]
				if prev != nil && bytes.Compare(prev, rec[:w-8]) > 0 {
					return false
				}
				prev = rec[:w-8]
				entries = append(entries, c11BigEntry{code, string(rec[:w-8]), binary.LittleEndian.Uint64(rec[w-8:])})
			}
			p = p[dl:]
		}
		return true
	}
	switch codec {
	case 0x0400:
		if !buckets(0) {
			return entries, false
		}
	case 0x0401:
		if len(p) < 4 {
			return nil, false
		}
		cnt := int(int32(binary.LittleEndian.Uint32(p)))
		p = p[4:]
		last := int64(-1)
		for i := 0; i < cnt; i++ {
			if len(p) < 8 {
				return entries, false
			}
			code := binary.LittleEndian.Uint64(p)
			p = p[8:]
			if int64(code) <= last {
				return entries, false
			}
			last = int64(code)
			if !buckets(code) {
				return entries, false
			}
		}
	default:
		return nil, false
	}
	return entries, len(p) == 0
}

func c11BigSameMultiset(codec uint64, es []c11BigEntry, rs []idxRec) bool {
	want := make([]c11BigEntry, len(rs))
	for i, r := range rs {
		dm, _ := mh.Decode(r.C.Hash())
		code := dm.Code
		if codec == 0x0400 {
			code = 0
		}
		want[i] = c11BigEntry{code, string(dm.Digest), r.Off}
	}
	if len(want) != len(es) {
		return false
	}
	less := func(l []c11BigEntry) func(i, j int) bool {
		return func(i, j int) bool {
			if l[i].code != l[j].code {
				return l[i].code < l[j].code
			}
			if l[i].digest != l[j].digest {
				return l[i].digest < l[j].digest
			}
			return l[i].off < l[j].off
		}
	}
	got := append([]c11BigEntry(nil), es...)
	sort.Slice(got, less(got))
	sort.Slice(want, less(want))
	for i := range got {
		if got[i] != want[i] {
			return false
		}
	}
	return true
}

func c11ForEachCount(idx index.Index, fallback int) int {
	it, ok := idx.(index.IterableIndex)
	if !ok {
		return fallback
	}
	n := 0
	if err := it.ForEach(func(mh.Multihash, uint64) error { n++; return nil }); err != nil {
		return -1
	}
	return n
}

func runIdxBigImpl(codec uint64, d c11BigDesc, samples [][2]uint64, trailer []byte, plain bool) (obs Val) {
	defer func() {
		if r := recover(); r != nil {
			obs = VL{VT("PANIC")}
		}
	}()
	rs := c11BigRecords(d)
	idx, err := newIndex(codec, rs)
	if err != nil {
		return VL{VT("loaderr")}
	}
	raw, reported, err := writeIndex(idx)
	if err != nil {
		return VL{VT("writeerr")}
	}
	entries, ok := c11BigStructure(raw)
	structure := ok && c11BigSameMultiset(codec, entries, rs)
	var qs []cid.Cid
	for _, s := range samples {
		bk := d.a
		if s[0] != 0 {
			bk = d.b
		}
		qs = append(qs, c11RawCid(0x71, bk.code, c11BigDigest(bk.dl, s[1])))
	}
	before := getAllsVal(idx, qs, true)
	fe := c11ForEachCount(idx, len(entries))
	var reread Val
	answers := before
	idx2, rest, err := readIndex(append(append([]byte(nil), raw...), trailer...), plain)
	if err != nil {
		reread = VL{VT("err"), verr(err)}
	} else {
		raw2, _, _ := writeIndex(idx2)
		after := getAllsVal(idx2, qs, true)
		fe2 := c11ForEachCount(idx2, len(entries))
		same := VT("same")
		if !bytes.Equal(raw2, raw) || valString(after) != valString(before) || fe2 != fe {
			same = VT("diff")
		}
		reread = VL{VT("ok"), VN(uint64(rest)), same}
		answers = after
		fe = fe2
	}
	// the same records through an InsertionIndex (one InsertNoReplace each, as a writing session does)
	// and Flatten
	flat := VL{VN(0), VN(0), VT("diff")}
	if fi, err := c11InsertionIndex(rs).Flatten(multicodec.Code(codec)); err == nil {
		if fraw, _, err := writeIndex(fi); err == nil {
			fes, fok := c11BigStructure(fraw)
			same := VT("same")
			if valString(getAllsVal(fi, qs, true)) != valString(before) {
				same = VT("diff")
			}
			flat = VL{vbool(fok && c11BigSameMultiset(codec, fes, rs)), VN(uint64(len(fes))), same}
		}
	}
	return VL{VT("ok"), VN(reported), VN(uint64(len(raw))), vbool(structure), VN(uint64(len(entries))), reread, VN(uint64(fe)), answers, flat}
}

func c11BigDescOf(v Val) c11BigDesc {
	l := v.(VL)
	bk := func(x Val) c11BigBucket {
		b := x.(VL)
		return c11BigBucket{uint64(b[0].(VN)), int(b[1].(VN)), int(b[2].(VN))}
	}
	return c11BigDesc{bk(l[0]), bk(l[1]), int(l[2].(VN))}
}

func init() {
	registerReplay("idxbig", func(c *Ctx, in Val) Val {
		l := in.(VL)
		var samples [][2]uint64
		for _, s := range l[2].(VL) {
			p := s.(VL)
			samples = append(samples, [2]uint64{uint64(p[0].(VN)), uint64(p[1].(VN))})
		}
		return runIdxBigImpl(uint64(l[0].(VN)), c11BigDescOf(l[1]), samples, []byte(l[3].(VB)), false)
	})
}
