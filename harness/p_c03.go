package main

import (
	"bytes"
	"encoding/binary"

	"github.com/ipfs/go-cid"
	carv2 "github.com/ipld/go-car/v2"
	"github.com/ipld/go-car/v2/index"
	mh "github.com/multiformats/go-multihash"
	"github.com/multiformats/go-varint"
)

// C03 producer: constructed archives x {CARv1, CARv2 with data padding / trailers} x 3 index kinds x
// 5 source kinds x {StoreIdentityCIDs, ZeroLengthSectionAsEOF, MaxIndexCidSize} (kind idxgen with an
// expectation the layer-B predicate is evaluated against), plus a malformed stream (correspondence only).
//
// Non-triviality rule: a constructed archive with >= 2 sections and at least one of {two sections
// sharing a digest, an identity CID, CARv2 data padding, zero padding, a CID-size limit at the
// boundary}; malformed inputs always count.

var c03Codecs = []uint64{0x0400, 0x0401, codecInsertion}

// v2File wraps payload in a CARv2 container with arbitrary padding bytes and trailer.
func v2File(payload, pad, trailer []byte, indexed bool) []byte {
	var buf bytes.Buffer
	buf.Write(carv2.Pragma)
	h := carv2.NewHeader(uint64(len(payload))).WithDataPadding(uint64(len(pad)))
	h.IndexOffset = 0
	if indexed {
		h.IndexOffset = h.DataOffset + h.DataSize
	}
	h.WriteTo(&buf)
	buf.Write(pad)
	buf.Write(payload)
	buf.Write(trailer)
	return buf.Bytes()
}

func c03Queries(r *RNG, blks []Blk) []cid.Cid {
	var qs []cid.Cid
	seen := map[string]bool{}
	add := func(c cid.Cid) {
		if !seen[c.KeyString()] {
			seen[c.KeyString()] = true
			qs = append(qs, c)
		}
	}
	for _, b := range blks {
		add(b.Cid)
		dm, _ := mh.Decode(b.Cid.Hash())
		if r.Chance(35) { // same digest under another hash code (identity / sha2-512 label)
			add(c11RawCid(0x55, pick(r, []uint64{0x00, 0x12, 0x13}), dm.Digest))
		}
		if r.Chance(35) { // same multihash, other codec / version
			add(cid.NewCidV1(pick(r, codecs), b.Cid.Hash()))
		}
		if r.Chance(25) && len(dm.Digest) > 0 { // absent neighbour
			d := append([]byte(nil), dm.Digest...)
			d[r.Intn(len(d))] ^= 0x01
			add(c11RawCid(0x55, dm.Code, d))
		}
	}
	add(c11RawCid(0x71, 0x12, r.Bytes(32)))
	add(c11RawCid(0x55, 0x00, nil))
	return qs
}

type c03Archive struct {
	lyingIndex bool // the CARv2 carries an index with wrong offsets
	realIndex bool // the CARv2 carries the index GenerateIndex (default options) makes of its payload
	blks    []Blk
	payload []byte // header + sections (+ zero padding)
	hlen    int
	padded  bool
	file    []byte
	isV2    bool
	feat    bool // one of the non-triviality features
}

func genC03Archive(r *RNG, c *Ctx) c03Archive {
	var a c03Archive
	nb := pick(r, []int{0, 1, 2, 2, 3, 3, 4, 5, 6})
	a.blks = genBlocks(r, nb, genOpts{identity: true, maxData: 60})
	if r.Chance(15) { // a long identity CID (200-byte digest) to exercise MaxIndexCidSize
		d := r.Bytes(pick(r, []int{200, 300, 2100}))
		a.blks = append(a.blks, Blk{mkCid(1, 0x55, mh.IDENTITY, -1, d), d})
	}
	roots := genRoots(r, a.blks, true)
	a.payload = refPayload(roots, a.blks)
	a.hlen = len(refPayload(roots, nil))
	ds := map[string]bool{}
	for _, b := range a.blks {
		dm, _ := mh.Decode(b.Cid.Hash())
		if ds[string(dm.Digest)] || dm.Code == mh.IDENTITY {
			a.feat = true
		}
		ds[string(dm.Digest)] = true
	}
	if r.Chance(20) {
		a.padded = true
		a.feat = true
		a.payload = append(a.payload, make([]byte, 1+r.Intn(40))...)
		c.Count("archive:zero-padded")
	}
	a.file = a.payload
	if r.Chance(55) {
		a.isV2 = true
		pad := r.Bytes(pick(r, []int{0, 0, 1, 7, 60, 1413}))
		if len(pad) > 0 {
			a.feat = true
			if r.Bool() {
				pad = make([]byte, len(pad))
			}
		}
		var trailer []byte
		indexed := false
		switch r.Intn(4) {
		case 0: // nothing after the payload
		case 1: // the index of the payload (as GenerateIndex with default options makes it), or one that lies
			if idx, err := carv2.GenerateIndex(bytes.NewReader(a.payload), carv2.ZeroLengthSectionAsEOF(true)); err == nil && r.Chance(70) {
				var ib bytes.Buffer
				index.WriteTo(idx, &ib)
				trailer = ib.Bytes()
				indexed = true
				a.realIndex = true
				c.Count("archive:v2-with-its-index")
			} else {
				var recs []index.Record
				for i := range a.blks {
					recs = append(recs, index.Record{Cid: a.blks[i].Cid, Offset: uint64(i)})
				}
				idx, _ := index.New(0x0401)
				idx.Load(recs)
				var ib bytes.Buffer
				index.WriteTo(idx, &ib)
				trailer = ib.Bytes()
				indexed = true
				a.lyingIndex = true
			}
		case 2: // index padding (zeros) then garbage
			trailer = append(make([]byte, r.Intn(20)), r.Bytes(r.Intn(30))...)
			indexed = r.Bool()
			a.lyingIndex = indexed
		case 3: // bytes that look like another section
			trailer = refPayload(nil, []Blk{genBlock(r, genOpts{maxData: 10})})
		}
		a.file = v2File(a.payload, pad, trailer, indexed)
		c.Count("archive:v2")
		if len(trailer) > 0 {
			c.Count("archive:v2-with-trailer")
		}
	} else {
		c.Count("archive:v1")
	}
	if len(a.blks) == 0 {
		c.Count("archive:no-sections")
	}
	return a
}

// idxgenHdrTable: go-ipld-cbor's verdict on every header LoadIndex can come to decode in this file:
// the one at the start, and for a CARv2 the one at DataOffset -- read from the rest of the FILE
// (LoadIndex does not bound its reads by DataSize) and from the DataSize window (the ReaderAt path
// reads through an io.SectionReader).
func idxgenHdrTable(file []byte) Val {
	hdrs := VL{}
	e, rest, ok := hdrEntry(file)
	if !ok {
		return hdrs
	}
	hdrs = append(hdrs, e)
	if len(rest) >= 40 {
		var h carv2.Header
		if _, err := h.ReadFrom(bytes.NewReader(rest[:40])); err == nil && h.DataOffset <= uint64(len(file)) {
			tail := file[h.DataOffset:]
			if e2, _, ok2 := hdrEntry(tail); ok2 {
				hdrs = append(hdrs, e2)
			}
			if h.DataSize < uint64(len(tail)) {
				if e3, _, ok3 := hdrEntry(tail[:h.DataSize]); ok3 {
					hdrs = append(hdrs, e3)
				}
			}
		}
	}
	return hdrs
}

var c03SourceNames = []string{"bytes.Reader", "read-seeker", "plain-reader", "os.File", "reader-at", "bufio.Reader", "bytes.Buffer", "iotest.DataErrReader", "iotest.HalfReader", "iotest.OneByteReader", "ReadOrGenerateIndex(bytes.Reader)", "ReadOrGenerateIndex(read-seeker)", "GenerateIndexFromFile", "GenerateIndexFromFile(missing)"}

func emitIdxGen(c *Ctx, kind uint64, o gOpts, file []byte, codec uint64, qs []cid.Cid, expect Val, nontrivial bool) {
	hdrs := idxgenHdrTable(file)
	in := VL{VN(kind), o.val(), VB(file), hdrs, VN(codec), cidsVal(qs), expect}
	obs := runIdxGenImpl(c, kind, o, file, codec, qs)
	c.Emit("idxgen", in, obs, nontrivial)
	c.Count("source:" + c03SourceNames[kind])
	if l, ok := obs.(VL); ok && len(l) > 1 {
		if t, _ := l[0].(VT); t == "err" {
			c.Count("outcome:err-" + string(l[1].(VT)))
		} else {
			c.Count("outcome:ok")
		}
	}
}

// sectionFields returns, for a payload built by refPayload, the offset of each section's length varint.
func sectionStarts(blks []Blk, hlen int) []int {
	var out []int
	pos := hlen
	for _, b := range blks {
		out = append(out, pos)
		sl := b.Cid.ByteLen() + len(b.Data)
		pos += uvarintLen(uint64(sl)) + sl
	}
	return out
}

func c03Malformed(c *Ctx, r *RNG, a c03Archive, qs []cid.Cid, budget int) {
	base := 0
	if a.isV2 {
		var h carv2.Header
		h.ReadFrom(bytes.NewReader(a.file[11:51]))
		base = int(h.DataOffset)
	}
	starts := sectionStarts(a.blks, a.hlen)
	none := VL{VT("none")}
	emit := func(file []byte, what string, kinds []uint64) {
		o := defaultGOpts
		o.zeof = r.Chance(30)
		o.storeID = r.Bool()
		codec := pick(r, c03Codecs)
		for _, k := range kinds {
			emitIdxGen(c, k, o, file, codec, qs, none, true)
		}
		c.Count("malformed:" + what)
	}
	all := []uint64{0, 1, 2, 3, 4, 5, 6, 7, 8, 9, 10, 11}
	noFile := []uint64{0, 1, 2, 4, 5, 6, 7, 8, 9, 10, 11}
	// truncations: every prefix of a small archive, sampled otherwise
	for k := 0; k < len(a.file); k++ {
		if len(a.file) > 120 && !(c.Thorough && len(a.file) <= 400) && r.Intn(len(a.file)/40+1) != 0 {
			continue
		}
		emit(a.file[:k], "truncated", []uint64{pick(r, all), pick(r, []uint64{2, 5, 6, 7, 8, 9})})
	}
	for n := 0; n < budget; n++ {
		g := append([]byte(nil), a.file...)
		switch r.Intn(6) {
		case 0: // section length varint replaced by a hostile value
			if len(starts) == 0 {
				continue
			}
			i := r.Intn(len(starts))
			p := base + starts[i]
			old, on, _ := varint.FromUvarint(g[p:])
			var nv []byte
			switch r.Intn(7) {
			case 0:
				nv = []byte{0}
			case 1:
				nv = varint.ToUvarint(old - 1)
			case 2:
				nv = varint.ToUvarint(old + 1)
			case 3: // shorter than the CID: LoadIndex seeks backwards on seekable sources
				nv = varint.ToUvarint(uint64(1 + r.Intn(a.blks[i].Cid.ByteLen())))
			case 4:
				nv = varint.ToUvarint(pick(r, []uint64{1 << 31, 1<<63 - 1, 1 << 40}))
			case 5:
				nv = []byte{0x80, 0x80, 0x80, 0x80, 0x80, 0x80, 0x80, 0x80, 0x80, 0x01} // 2^63: 10 bytes
			case 6:
				nv = []byte{0x81, 0x00} // non-minimal
			}
			g = append(append(append([]byte(nil), g[:p]...), nv...), g[p+on:]...)
			emit(g, "section-length", noFile)
		case 1: // CARv2 header fields
			if !a.isV2 {
				continue
			}
			f := pick(r, []int{27, 35, 43}) // data offset, data size, index offset
			v := pick(r, []uint64{0, 50, 51, 52, uint64(base) - 1, uint64(base) + 1, uint64(len(a.file)), 1 << 31, 1<<63 - 1, 1 << 63, 1<<64 - 1})
			if f == 35 {
				v = pick(r, []uint64{0, 1, uint64(a.hlen), uint64(len(a.payload)) - 1, uint64(len(a.payload)) + 1, uint64(len(a.payload)) + 40, 1<<63 - 1, 1 << 63})
			}
			binary.LittleEndian.PutUint64(g[f:], v)
			emit(g, "v2-header-field", noFile)
		case 2: // byte flips in the structure (headers, varints, CIDs)
			for k := 0; k < 1+r.Intn(2); k++ {
				g[r.Intn(len(g))] ^= pick(r, []byte{0x01, 0x80, 0xff, 0x7f})
			}
			emit(g, "byteflip", noFile)
		case 3: // header length varint / pragma version
			p := 0
			if a.isV2 && r.Bool() {
				p = base
			}
			g[p] = pick(r, []byte{0, 1, 0x7f, 0x80, 0xff, g[p] + 1, g[p] - 1})
			emit(g, "header-length", noFile)
		case 4: // a CID cut short / replaced inside a section
			if len(starts) == 0 {
				continue
			}
			i := r.Intn(len(starts))
			p := base + starts[i]
			_, on, _ := varint.FromUvarint(g[p:])
			g[p+on] = pick(r, []byte{0x00, 0x02, 0x12, 0x01, 0x80})
			emit(g, "cid-version-byte", noFile)
		case 5: // bytes appended after a bare CARv1 / after the sections
			g = append(g, pick(r, [][]byte{{0}, {0, 0, 0}, {1}, {0x80}, r.Bytes(1 + r.Intn(12))})...)
			emit(g, "appended", all)
		}
	}
}

func init() {
	register("c03", func(c *Ctx) {
		nArch := 130 * c.Scale
		for n := 0; n < nArch; n++ {
			r := c.R.Fork()
			a := genC03Archive(r, c)
			qs := c03Queries(r, a.blks)
			expect := VL{VT("valid"), VN(a.hlen), blksVal(a.blks), VB(a.payload), vbool(a.padded)}
			// option matrix: two option draws per archive
			for rep := 0; rep < 2; rep++ {
				o := defaultGOpts
				o.storeID = r.Bool()
				o.zeof = r.Bool()
				feat := a.feat
				if len(a.blks) > 0 && r.Chance(40) { // CID-size limit at the boundary of some CID
					l := uint64(pick(r, a.blks).Cid.ByteLen())
					o.maxCid = pick(r, []uint64{l - 1, l, l + 1})
					feat = true
					c.Count("opts:maxcid-boundary")
				}
				switch r.Intn(12) { // option values passed as an explicit zero / above the cap
				case 0: // MaxIndexCidSize(0): ApplyOptions puts the 2 KiB default back
					o.maxCid = 0
					c.Count("opts:explicit-zero-maxcid")
				case 1: // above what an index record can hold: capped
					o.maxCid = pick(r, []uint64{32<<20 - 7, 1 << 40})
					c.Count("opts:maxcid-above-cap")
				}
				if r.Chance(10) { // header limit at the boundary
					o.maxH = uint64(a.hlen - uvarintLen(uint64(a.hlen-1)))
					if r.Bool() {
						o.maxH--
						expect = VL{VT("none")}
					}
				}
				if o.storeID {
					c.Count("opts:store-identity")
				}
				if o.zeof {
					c.Count("opts:zero-length-as-eof")
				}
				if r.Chance(4) { // MaxAllowedHeaderSize(0) is NOT defaulted: every header is too large
					o.maxH = 0
					expect = VL{VT("none")}
					c.Count("opts:explicit-zero-maxheader")
				}
				rowCodecs := c03Codecs
				if rep == 1 { // UseIndexCodec(0): ApplyOptions puts car-multihash-index-sorted back
					rowCodecs = append(append([]uint64(nil), c03Codecs...), 0)
				}
				for _, codec := range rowCodecs {
					for kind := uint64(0); kind < 10; kind++ {
						emitIdxGen(c, kind, o, a.file, codec, qs, expect, len(a.blks) >= 2 && feat)
					}
					if codec == codecInsertion {
						continue
					}
					// ReadOrGenerateIndex: with an index in the file it is read, not generated -- the
					// property's clauses then apply when that index is the payload's own and was built
					// with the options in force (defaults; its codec decides the key), else
					// correspondence only
					exp := expect
					if a.lyingIndex {
						exp = VL{VT("none")}
					} else if a.realIndex {
						if o.storeID || (o.maxCid != defaultGOpts.maxCid && o.maxCid != 0) || (codec != 0x0401 && codec != 0) {
							exp = VL{VT("none")}
						} else if len(exp) == 5 {
							exp = VL{exp[0], exp[1], exp[2], exp[3], vbool(false)} // nothing is scanned: padding is not seen
						}
					}
					for kind := uint64(10); kind < 12; kind++ {
						emitIdxGen(c, kind, o, a.file, codec, qs, exp, len(a.blks) >= 2 && feat)
					}
					// GenerateIndexFromFile: the archive as a file on disk; once per archive a missing path
					if rep == 0 {
						emitIdxGen(c, 12, o, a.file, codec, qs, expect, len(a.blks) >= 2 && feat)
					}
					if rep == 0 && codec == 0x0400 {
						emitIdxGen(c, 13, o, a.file, codec, qs, VL{VT("none")}, false)
					}
				}
				expect = VL{VT("valid"), VN(a.hlen), blksVal(a.blks), VB(a.payload), vbool(a.padded)}
			}
			if n%3 == 0 {
				c03Malformed(c, r, a, qs, 10)
			}
		}
		// ApplyOptions itself on random option lists (kind applyopts)
		for n := 0; n < 400*c.Scale; n++ {
			r := c.R.Fork()
			var l []c03Opt
			for k := r.Intn(9); k > 0; k-- {
				l = append(l, c03GenOpt(r))
			}
			if r.Chance(20) && len(l) > 0 { // the same list twice
				l = append(l, l...)
			}
			c.Emit("applyopts", c03OptsVal(l), c03ApplyOptionsObs(l), len(l) >= 2)
			c.Count("apply-options")
		}
		// an archive with more than 16 384 indexable sections (kind idxgenbig; layer-B expectation only)
		c03BigArchives(c)
	})
}

func c03BigArchives(c *Ctx) {
	type variant struct {
		kind, codec uint64
		v2, storeID bool
	}
	type job struct {
		d        c03BigDesc
		vs       []variant
		nsamples int
	}
	// quick: 17 700 sections (> 16 384 indexed) through five variants, and 70 500 sections
	// (> 65 536 indexed without identity CIDs) through LoadIndex/GenerateIndex for both sorted codecs
	jobs := []job{
		{c03BigDesc{0x12, 8, 17700, 30}, []variant{{7, 0x0400, true, true}, {3, 0x0401, true, true}, {0, codecInsertion, false, true}}, 24},
		{c03BigDesc{0x12, 8, 70500, 30}, []variant{{0, 0x0400, false, false}, {2, 0x0401, false, false}}, 8},
	}
	if c.Thorough {
		var all []variant
		for k := uint64(0); k < 10; k++ {
			all = append(all, variant{k, pick(c.R, []uint64{0x0400, 0x0401}), c.R.Bool(), c.R.Bool()})
		}
		jobs = append(jobs,
			job{c03BigDesc{0x13, 20, 16384 + 16384/15 + 2, 0}, all, 24},
			job{c03BigDesc{0x12, 8, 40000, 500}, all, 24},
			job{c03BigDesc{0x12, 8, 140000, 100}, []variant{{0, 0x0401, true, true}, {7, 0x0400, false, false}, {4, 0x0401, true, false}}, 8})
	}
	hlen := len(refPayload(nil, nil))
	for _, j := range jobs {
		d := j.d
		for _, v := range j.vs {
			r := c.R.Fork()
			o := defaultGOpts
			o.storeID = v.storeID
			var samples []uint64
			sv := VL{}
			for k := 0; k < j.nsamples; k++ {
				s := uint64(r.Intn(d.n + d.n/10))
				switch {
				case k < 2 && k < d.ndup:
					s = uint64((7 * k) % d.n) // repeated later in the payload
				case k == 2:
					s = 15 // an identity CID
				case k == 3:
					s = uint64(d.n - 1)
				case k == 4:
					s = 16384
				case k == 5 && d.n > 70000:
					s = 69904 // the 65 536th non-identity section and its neighbours
				case k == 6 && d.n > 70000:
					s = 69906
				}
				samples = append(samples, s)
				sv = append(sv, VN(s))
			}
			in := VL{VN(v.kind), o.val(), d.val(), VN(uint64(hlen)), VN(v.codec), sv, vbool(v.v2)}
			c.Emit("idxgenbig", in, runIdxGenBigImpl(c, v.kind, o, d, v.codec, samples, v.v2), true)
			c.Count("archive:more-than-16384-indexed-sections")
			if d.n > 70000 {
				c.Count("archive:more-than-65536-indexed-sections")
			}
		}
	}
}
