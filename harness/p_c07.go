package main

import (
	"github.com/ipfs/go-cid"
	mh "github.com/multiformats/go-multihash"
)

// C07 producer: constructed valid archives (CARv1; CARv2 with data/index padding, embedded index of
// either codec built independently of the library, or index-less; null padding with
// ZeroLengthSectionAsEOF; duplicate / hash-equal / same-digest-other-hash-code sections) opened by
// both read-only front-ends with every index source, queried with present, absent,
// same-hash-other-codec and identity keys under every option row.  A separate malformed stream
// (byte flips, truncations, wrong index, null padding without the option) only validates model = code.

type c07Archive struct {
	roots   []cid.Cid
	blks    []Blk
	payload []byte // with null padding
	npad    int
}

func c07Keys(r *RNG, blks []Blk) []cid.Cid {
	var keys []cid.Cid
	seen := map[string]bool{}
	add := func(k cid.Cid) {
		if !seen[k.KeyString()] {
			seen[k.KeyString()] = true
			keys = append(keys, k)
		}
	}
	// present keys (up to 5), plus the same multihash under another codec / cid version
	for i, b := range blks {
		if i < 5 || r.Chance(20) {
			add(b.Cid)
		}
	}
	if len(blks) > 0 {
		for t := 0; t < 2; t++ {
			b := pick(r, blks)
			add(cid.NewCidV1(pick(r, codecs), b.Cid.Hash()))
			dm, _ := mh.Decode(b.Cid.Hash())
			// same digest under another hash code (identity carrying it / sha2-256 <-> other)
			if dm.Code != mh.IDENTITY {
				add(mkCid(1, 0x55, mh.IDENTITY, -1, dm.Digest))
			} else if len(dm.Digest) == 32 {
				h, _ := mh.Encode(dm.Digest, mh.SHA2_256)
				add(cid.NewCidV1(0x55, h))
				add(cid.NewCidV0(h))
			}
		}
	}
	// absent keys: a fresh hashed block, a fresh identity key, an empty identity key
	add(genBlock(r, genOpts{maxData: 16}).Cid)
	add(mkCid(1, 0x55, mh.IDENTITY, -1, r.Bytes(1+r.Intn(40))))
	if r.Chance(30) {
		add(mkCid(1, 0x71, mh.IDENTITY, -1, nil))
	}
	return keys
}

func c07Queries(front uint64, keys []cid.Cid) VL {
	qs := VL{}
	for _, k := range keys {
		kb := VB(k.Bytes())
		// has and get alternate positions so that the storage front-end's Get and GetStream both see every kind of key
		qs = append(qs, VL{VT("has"), kb}, VL{VT("get"), kb})
		if front == 0 {
			qs = append(qs, VL{VT("getsize"), kb})
		} else {
			qs = append(qs, VL{VT("get"), kb})
		}
	}
	if front == 0 {
		qs = append(qs, VL{VT("keys")})
	}
	qs = append(qs, VL{VT("roots")})
	return qs
}

func c07GenArchive(r *RNG, c *Ctx, big bool) c07Archive {
	nb := r.Intn(8)
	if r.Chance(10) {
		nb = 0
	}
	g := genOpts{identity: true, maxData: 300}
	if big && r.Chance(15) {
		g.maxData = 0
	}
	blks := genBlocks(r, nb, g)
	// same CID, different data (nothing on the read-only path hashes): exercises "a section carrying the key"
	if len(blks) > 0 && r.Chance(8) {
		b := pick(r, blks)
		if b.Cid.Prefix().MhType != mh.IDENTITY { // an identity CID fixes its data
			blks = append(blks, Blk{b.Cid, r.Bytes(r.Intn(20))})
			c.Count("archive:same-cid-other-data")
		}
	}
	roots := genRoots(r, blks, true)
	a := c07Archive{roots: roots, blks: blks}
	a.payload = refPayload(roots, blks)
	if r.Chance(30) {
		a.npad = pick(r, []int{1, 2, 9, 130})
		a.payload = append(a.payload, make([]byte, a.npad)...)
	}
	return a
}

func c07HasIdentity(blks []Blk) bool {
	for _, b := range blks {
		if b.Cid.Prefix().MhType == mh.IDENTITY {
			return true
		}
	}
	return false
}

type c07Case struct {
	front    uint64
	o        c07Opts
	file     []byte
	supplied Val
	idxIDs   bool // the index in use has identity entries (or is generated on open)
	label    string
}

// c07Exhaustive: for one small archive, every option row x every container x every index source x
// every front-end (the thorough tier's small-scope enumeration).
func c07Exhaustive(c *Ctx, r *RNG) {
	ar := c07GenArchive(r, c, false)
	if len(ar.blks) > 5 {
		ar.blks = ar.blks[:5]
		ar.payload = append(refPayload(ar.roots, ar.blks), make([]byte, ar.npad)...)
	}
	keys := c07Keys(r, ar.blks)
	ids := c07HasIdentity(ar.blks)
	type cont struct {
		file   []byte
		idxIDs bool
		label  string
	}
	conts := []cont{{ar.payload, true, "v1"}}
	for _, dp := range []uint64{0, 7} {
		conts = append(conts, cont{c07V2File(ar.payload, dp, 1, nil, false), true, "v2-indexless"})
	}
	for _, codec := range []uint64{0x0400, 0x0401} {
		for _, wid := range []bool{false, true} {
			ib := c07RefIndexBytes(codec, c07RefRecords(ar.roots, ar.blks, wid))
			conts = append(conts, cont{c07V2File(ar.payload, 1, 512, ib, wid), wid || !ids, "v2-embedded"})
		}
	}
	for row := 0; row < 8; row++ {
		o := c07DefaultOpts
		o.whole = row&1 != 0
		o.storeID = row&2 != 0
		o.zeof = row&4 != 0
		if ar.npad > 0 && !o.zeof {
			continue // null padding without the option is not a valid archive (malformed stream covers it)
		}
		for _, ct := range conts {
			for _, sup := range []uint64{0, 0x0400, 0x0401} {
				for _, front := range []uint64{0, 1, 2} {
					if sup != 0 && front == 1 {
						continue
					}
					o.codec = pick(r, []uint64{0x0400, 0x0401})
					supplied := Val(VT("none"))
					idxIDs := ct.idxIDs
					if sup != 0 {
						g := o
						g.codec = sup
						supplied = VL{VT("gen"), g.val(), VB(ar.payload)}
						if front != 2 { // in "both" mode the storage half still uses the container's own index
							idxIDs = true
						}
					}
					qs := c07Queries(front, keys)
					expect := VL{VT("valid"), cidsVal(ar.roots), blksVal(ar.blks), vbool(idxIDs)}
					in := VL{VN(front), o.val(), VB(ct.file), supplied, qs, VL{}, expect}
					obs := c07RunImpl(c, front, o, ct.file, supplied, qs, r.Intn(3))
					c.Emit("ro", in, obs, len(ar.blks) >= 2)
					c.Count("exhaustive:" + ct.label)
				}
			}
		}
	}
}

func init() {
	register("c07", func(c *Ctx) {
		nArch := 150 * c.Scale
		if c.Thorough {
			for a := 0; a < 10*c.Scale; a++ {
				c07Exhaustive(c, c.R.Fork())
			}
		}
		for a := 0; a < nArch; a++ {
			r := c.R.Fork()
			ar := c07GenArchive(r, c, true)
			o := c07DefaultOpts
			o.whole = r.Bool()
			o.storeID = r.Bool()
			o.zeof = ar.npad > 0 || r.Chance(20)
			o.codec = pick(r, []uint64{0x0400, 0x0401})
			dpad := uint64(pick(r, []int{0, 0, 1, 7, 1413}))
			ipad := uint64(pick(r, []int{0, 0, 1, 512}))
			keys := c07Keys(r, ar.blks)
			ids := c07HasIdentity(ar.blks)
			if ids {
				c.Count("archive:has-identity-sections")
			}
			if ar.npad > 0 {
				c.Count("archive:null-padded")
			}
			c.CountN("archive:blocks", len(ar.blks))

			var cases []c07Case
			v1 := ar.payload
			v2none := c07V2File(ar.payload, dpad, ipad, nil, false)
			// embedded indexes, built independently of the library
			embCodec := pick(r, []uint64{0x0400, 0x0401})
			embID := r.Bool()
			embIdx := c07RefIndexBytes(embCodec, c07RefRecords(ar.roots, ar.blks, embID))
			emb := c07V2File(ar.payload, dpad, ipad, embIdx, embID)
			for _, front := range []uint64{0, 1, 2} {
				cases = append(cases,
					c07Case{front, o, v1, VT("none"), true, "v1-generated"},
					c07Case{front, o, v2none, VT("none"), true, "v2-indexless-generated"},
					c07Case{front, o, emb, VT("none"), embID || !ids, "v2-embedded"})
			}
			// caller-supplied indexes of both codecs, generated from the same payload with the same
			// identity setting (blockstore only; OpenReadable has no index parameter)
			for _, codec := range []uint64{0x0400, 0x0401} {
				g := o
				g.codec = codec
				base := v1
				if r.Bool() {
					base = v2none
				}
				src := v1 // GenerateIndex over the bare payload or the whole CARv2 gives the same records
				// (not for an empty block list: LoadIndex over a whole CARv2 reads past an empty
				// payload into the index padding before it ever compares against DataSize)
				if r.Bool() && len(ar.blks) > 0 {
					src = base
				}
				front := uint64(0)
				if r.Chance(30) {
					front = 2 // blockstore with the supplied index against storage with its own
				}
				cases = append(cases, c07Case{front, o, base, VL{VT("gen"), g.val(), VB(src)}, true, "supplied"})
			}
			for _, k := range cases {
				qs := c07Queries(k.front, keys)
				hdrs := Val(VL{})
				if r.Chance(50) {
					hdrs = c07HdrTable(k.file)
				}
				backing := r.Intn(4)
				if k.front == 1 && backing == 3 {
					backing = 2
				}
				// the rest of the Blockstore interface (blockstore front-end): refused writes, HashOnRead,
				// Index().GetAll -- sprinkled between the queries, and again after Close below
				var extra VL
				if k.front == 0 && r.Chance(40) {
					for _, key := range keys[:1+r.Intn(len(keys))] {
						kb := VB(key.Bytes())
						switch r.Intn(5) {
						case 0:
							extra = append(extra, VL{VT("put"), kb, VB(r.Bytes(r.Intn(20)))})
						case 1:
							extra = append(extra, VL{VT("putmany"), VL{VL{kb, VB(r.Bytes(3))}, VL{VB(keys[0].Bytes()), VB(nil)}}})
						case 2:
							extra = append(extra, VL{VT("delete"), kb})
						case 3:
							extra = append(extra, VL{VT("hashonread"), vbool(r.Bool())}, VL{VT("has"), kb}, VL{VT("get"), kb})
						}
						extra = append(extra, VL{VT("idxgetall"), kb})
					}
					// insert the extra operations before the listing / roots at the end
					qs = append(append(append(VL{}, qs[:len(qs)-2]...), extra...), qs[len(qs)-2:]...)
					c.Count("history:with-interface-ops")
				}
				// histories with Close (blockstore): everything is asked again on the closed store
				if k.front == 0 && r.Chance(35) {
					_, hasSup := k.supplied.(VL)
					cl := VL{VT("close"), vbool(backing == 3 && !hasSup)}
					after := c07Queries(0, keys[:1+r.Intn(len(keys))])
					qs = append(append(append(append(qs, cl), after...), extra...), cl, VL{VT("roots")})
					c.Count("history:with-close")
				}
				expect := VL{VT("valid"), cidsVal(ar.roots), blksVal(ar.blks), vbool(k.idxIDs)}
				in := VL{VN(k.front), k.o.val(), VB(k.file), k.supplied, qs, hdrs, expect}
				obs := c07RunImpl(c, k.front, k.o, k.file, k.supplied, qs, backing)
				c.Emit("ro", in, obs, len(ar.blks) >= 2)
				c.Count("case:" + k.label)
				c.Count("front:" + []string{"blockstore", "storage", "both"}[k.front])
				c.Count("backing:" + []string{"bytes.Reader", "ReaderAt-only", "os.File", "mmap"}[backing])
				c.CountN("queries", len(qs))
			}

			// ---- malformed stream: only model = code is checked (expect = none)
			if a%3 == 0 {
				for t := 0; t < 6; t++ {
					front := uint64(r.Intn(2))
					which := r.Intn(3)
					f := append([]byte(nil), [][]byte{v1, v2none, emb}[which]...)
					mo := o
					kind := r.Intn(8)
					sup := Val(VT("none"))
					switch kind {
					case 0, 1: // flip a byte of the container / payload (not of the embedded index: a
						// corrupted bucket length makes index.ReadFrom allocate it -- C09's subject, fatal here)
						lim := len(f)
						if which == 2 {
							lim -= len(embIdx)
						}
						if lim > 0 {
							f[r.Intn(lim)] ^= pick(r, []byte{0x01, 0x80, 0xff, 0x7f})
						}
						c.Count("malformed:byteflip")
					case 7: // index offsets that are not int64 (>= 2^63), embedded in a CARv2 or supplied to a CARv1
						recs := c07RefRecords(ar.roots, ar.blks, true)
						for i := range recs {
							if i == 0 || r.Chance(40) {
								recs[i].off = pick(r, []uint64{1 << 63, 1<<63 + recs[i].off, 1<<64 - 1, 1<<64 - 1 - recs[i].off})
							}
						}
						ib := c07RefIndexBytes(embCodec, recs)
						front = 0
						if r.Bool() {
							f = c07V2File(ar.payload, dpad, ipad, ib, true)
							if r.Bool() {
								front = 1
							}
						} else {
							f = append([]byte(nil), v1...)
							sup = VL{VT("idx"), VB(ib)}
						}
						c.Count("malformed:index-offsets-beyond-int64")
					case 6: // embedded index with wrong records: shifted / swapped / out-of-range offsets, foreign digests
						recs := c07RefRecords(ar.roots, ar.blks, true)
						for i := range recs {
							switch r.Intn(5) {
							case 0:
								recs[i].off += uint64(1 + r.Intn(3))
							case 1:
								recs[i].off = recs[r.Intn(len(recs))].off
							case 2:
								recs[i].off = uint64(len(ar.payload) + r.Intn(50))
							case 3:
								recs[i].digest = r.Bytes(len(recs[i].digest))
							}
						}
						f = c07V2File(ar.payload, dpad, ipad, c07RefIndexBytes(embCodec, recs), true)
						c.Count("malformed:wrong-embedded-index")
					case 2: // truncate
						f = f[:r.Intn(len(f)+1)]
						c.Count("malformed:truncated")
					case 3: // null padding without the option / option without padding
						mo.zeof = !mo.zeof
						c.Count("malformed:zeof-toggled")
					case 4: // index generated from another payload
						other := c07GenArchive(r, c, false)
						sup = VL{VT("gen"), mo.val(), VB(other.payload)}
						front = 0
						c.Count("malformed:foreign-index")
					case 5: // tiny limits
						mo.maxS = uint64(pick(r, []int{0, 36, 40, 100}))
						mo.maxCid = uint64(pick(r, []int{1, 34, 36, 2048}))
						mo.maxH = uint64(pick(r, []int{10, 60, 32 << 20}))
						c.Count("malformed:tiny-limits")
					}
					qs := c07Queries(front, keys)
					hdrFiles := [][]byte{f}
					if l, ok := sup.(VL); ok && len(l) == 3 {
						hdrFiles = append(hdrFiles, []byte(l[2].(VB)))
					}
					in := VL{VN(front), mo.val(), VB(f), sup, qs, c07HdrTable(hdrFiles...), VT("none")}
					obs := c07RunImpl(c, front, mo, f, sup, qs, r.Intn(3))
					c.Emit("ro", in, obs, false)
				}
			}
		}
	})
}
