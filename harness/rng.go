package main

// splitmix64: every random choice of a run derives from one seed.
type RNG struct{ s uint64 }

// NewRNG scrambles the seed (one splitmix64 output step) so that the streams of neighbouring seeds
// are unrelated: the state advances by the golden-ratio increment per draw, and an unscrambled
// seed*increment start would make seed n+1 the same stream as seed n shifted by one draw.
func NewRNG(seed uint64) *RNG {
	z := seed + 0x9E3779B97F4A7C15
	z = (z ^ (z >> 30)) * 0xBF58476D1CE4E5B9
	z = (z ^ (z >> 27)) * 0x94D049BB133111EB
	return &RNG{s: z ^ (z >> 31)}
}

func (r *RNG) U64() uint64 {
	r.s += 0x9E3779B97F4A7C15
	z := r.s
	z = (z ^ (z >> 30)) * 0xBF58476D1CE4E5B9
	z = (z ^ (z >> 27)) * 0x94D049BB133111EB
	return z ^ (z >> 31)
}
func (r *RNG) Intn(n int) int {
	if n <= 0 {
		return 0
	}
	return int(r.U64() % uint64(n))
}
func (r *RNG) Bool() bool       { return r.U64()&1 == 1 }
func (r *RNG) Chance(p int) bool { return r.Intn(100) < p } // p percent
func (r *RNG) Bytes(n int) []byte {
	b := make([]byte, n)
	for i := 0; i < n; i += 8 {
		v := r.U64()
		for j := 0; j < 8 && i+j < n; j++ {
			b[i+j] = byte(v >> (8 * j))
		}
	}
	return b
}
func (r *RNG) Fork() *RNG { return NewRNG(r.U64()) }
func pick[T any](r *RNG, xs []T) T { return xs[r.Intn(len(xs))] }
