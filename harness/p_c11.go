package main

import (
	"errors"
	"bytes"
	"encoding/binary"
	"sort"

	"github.com/ipfs/go-cid"
	"github.com/ipld/go-car/v2/index"
	mh "github.com/multiformats/go-multihash"
	"github.com/multiformats/go-varint"
)

// C11 producer: record multisets x load orders x both on-disk codecs (kind idxser), and a separate
// malformed stream for index.ReadFrom (kind idxread).
//
// Non-triviality rule (idxser): at least 3 records AND at least one of {two records sharing a digest,
// two digest widths, two hash codes}.  (idxread): the input is a mutated serialized index.

var idxCodes = []uint64{0x00, 0x12, 0x12, 0x12, 0x13, 0x1b, 0xb220, 0x11, 1 << 32, 1<<63 - 1}
var idxWidths = []int{0, 1, 2, 4, 8, 20, 28, 32, 32, 32, 32, 48, 64, 65, 200}
var idxOffsets = []uint64{0, 1, 51, 59, 127, 128, 255, 256, 65535, 65536, 1<<32 - 1, 1 << 32, 1<<63 - 1, 1 << 63, 1<<64 - 1}

// c11RawCid builds a CIDv1 around an arbitrary (code, digest) multihash -- no hash function involved.
func c11RawCid(codec, code uint64, digest []byte) cid.Cid {
	m, err := mh.Encode(digest, code)
	if err != nil {
		panic(err)
	}
	return cid.NewCidV1(codec, m)
}

// genDigestPool: digests of one width that stress the comparison: common prefixes, 00/7f/80/ff bytes,
// neighbours differing in the first / last byte.
func genDigestPool(r *RNG, width, n int) [][]byte {
	if width == 0 {
		return [][]byte{{}}
	}
	var pool [][]byte
	base := r.Bytes(width)
	pool = append(pool, base)
	for len(pool) < n {
		d := append([]byte(nil), pick(r, pool)...)
		switch r.Intn(6) {
		case 0:
			d = r.Bytes(width)
		case 1:
			d[width-1] ^= byte(1 + r.Intn(255))
		case 2:
			d[0] ^= byte(1 + r.Intn(255))
		case 3:
			d[r.Intn(width)] = pick(r, []byte{0x00, 0x7f, 0x80, 0xff})
		case 4:
			for i := r.Intn(width); i < width; i++ {
				d[i] = 0xff
			}
		case 5:
			for i := r.Intn(width); i < width; i++ {
				d[i] = 0x00
			}
		}
		pool = append(pool, d)
	}
	return pool
}

func genOffset(r *RNG) uint64 {
	switch r.Intn(4) {
	case 0:
		return pick(r, idxOffsets)
	case 1:
		return uint64(r.Intn(300))
	case 2:
		return r.U64()
	default:
		return uint64(r.Intn(1 << 20))
	}
}

type recFeatures struct{ ties, widths, codes bool }

func genRecordSet(r *RNG, n int) ([]idxRec, recFeatures) {
	var f recFeatures
	nw := 1 + r.Intn(3)
	var widths []int
	for i := 0; i < nw; i++ {
		widths = append(widths, pick(r, idxWidths))
	}
	pools := map[int][][]byte{}
	for _, w := range widths {
		pools[w] = genDigestPool(r, w, 1+r.Intn(5))
	}
	nc := 1 + r.Intn(3)
	var codes []uint64
	for i := 0; i < nc; i++ {
		codes = append(codes, pick(r, idxCodes))
	}
	var rs []idxRec
	for len(rs) < n {
		if len(rs) > 0 && r.Chance(30) {
			b := pick(r, rs)
			dm, _ := mh.Decode(b.C.Hash())
			switch r.Intn(4) {
			case 0: // exact duplicate record
				rs = append(rs, b)
			case 1: // same CID, other offset
				rs = append(rs, idxRec{b.C, genOffset(r)})
			case 2: // same multihash, other codec
				rs = append(rs, idxRec{cid.NewCidV1(pick(r, codecs), b.C.Hash()), genOffset(r)})
			case 3: // same digest, other hash code
				rs = append(rs, idxRec{c11RawCid(0x55, pick(r, idxCodes), dm.Digest), genOffset(r)})
			}
			continue
		}
		w := pick(r, widths)
		d := pick(r, pools[w])
		code := pick(r, codes)
		if w == 32 && code == 0x12 && r.Chance(30) {
			m, _ := mh.Encode(d, 0x12)
			rs = append(rs, idxRec{cid.NewCidV0(m), genOffset(r)})
			continue
		}
		rs = append(rs, idxRec{c11RawCid(pick(r, codecs), code, d), genOffset(r)})
	}
	ws, cs, ds := map[int]bool{}, map[uint64]bool{}, map[string]bool{}
	for _, x := range rs {
		dm, _ := mh.Decode(x.C.Hash())
		ws[len(dm.Digest)] = true
		cs[dm.Code] = true
		if ds[string(dm.Digest)] {
			f.ties = true
		}
		ds[string(dm.Digest)] = true
	}
	f.widths = len(ws) > 1
	f.codes = len(cs) > 1
	return rs, f
}

func genQueries(r *RNG, rs []idxRec) []cid.Cid {
	var qs []cid.Cid
	seen := map[string]bool{}
	add := func(c cid.Cid) {
		if !seen[c.KeyString()] {
			seen[c.KeyString()] = true
			qs = append(qs, c)
		}
	}
	for _, x := range rs {
		add(x.C)
		dm, _ := mh.Decode(x.C.Hash())
		if r.Chance(30) { // same digest under another hash code
			add(c11RawCid(0x55, pick(r, idxCodes), dm.Digest))
		}
		if r.Chance(30) && len(dm.Digest) > 0 { // absent digest of a present width: neighbour
			d := append([]byte(nil), dm.Digest...)
			d[r.Intn(len(d))] ^= byte(1 + r.Intn(255))
			add(c11RawCid(0x55, dm.Code, d))
		}
		if r.Chance(15) { // absent width
			add(c11RawCid(0x55, dm.Code, append(append([]byte(nil), dm.Digest...), 0)))
			if len(dm.Digest) > 0 {
				add(c11RawCid(0x55, dm.Code, dm.Digest[:len(dm.Digest)-1]))
			}
		}
	}
	add(c11RawCid(0x71, 0x12, r.Bytes(32)))
	add(c11RawCid(0x55, 0x00, nil))
	if len(qs) > 40 { // keep case lines small for big record sets: a random sample of the queries
		for i := len(qs) - 1; i > 0; i-- {
			j := r.Intn(i + 1)
			qs[i], qs[j] = qs[j], qs[i]
		}
		qs = qs[:40]
	}
	return qs
}

func permsVal(ps [][]int) Val {
	out := VL{}
	for _, p := range ps {
		l := VL{}
		for _, k := range p {
			l = append(l, VN(k))
		}
		out = append(out, l)
	}
	return out
}

func genPerms(r *RNG, n, k int) [][]int {
	var ps [][]int
	id := make([]int, n)
	for i := range id {
		id[i] = i
	}
	rev := make([]int, n)
	for i := range rev {
		rev[i] = n - 1 - i
	}
	ps = append(ps, rev)
	for len(ps) < k {
		p := append([]int(nil), id...)
		for i := n - 1; i > 0; i-- {
			j := r.Intn(i + 1)
			p[i], p[j] = p[j], p[i]
		}
		ps = append(ps, p)
	}
	return ps
}

func allPerms(n int) [][]int {
	var out [][]int
	p := make([]int, n)
	for i := range p {
		p[i] = i
	}
	var rec func(k int)
	rec = func(k int) {
		if k == n {
			out = append(out, append([]int(nil), p...))
			return
		}
		for i := k; i < n; i++ {
			p[k], p[i] = p[i], p[k]
			rec(k + 1)
			p[k], p[i] = p[i], p[k]
		}
	}
	rec(0)
	return out
}

func emitIdxSer(c *Ctx, r *RNG, codec uint64, rs []idxRec, perms [][]int, f recFeatures) {
	qs := genQueries(r, rs)
	var trailer []byte
	if r.Chance(40) {
		trailer = r.Bytes(1 + r.Intn(20))
	}
	in := VL{VN(codec), recsVal(rs), permsVal(perms), cidsVal(qs), VB(trailer)}
	obs := runIdxSerImpl(codec, rs, perms, qs, trailer, r.Bool())
	c.Emit("idxser", in, obs, len(rs) >= 3 && (f.ties || f.widths || f.codes))
	if f.ties {
		c.Count("records:with-equal-digests")
	}
	if f.widths {
		c.Count("records:multi-width")
	}
	if f.codes {
		c.Count("records:multi-code")
	}
	c.Count("codec:" + map[uint64]string{0x400: "sorted", 0x401: "mh-sorted"}[codec])
}

// ---- malformed stream ---------------------------------------------------------------------------

var hostileU32 = []uint32{0, 1, 7, 8, 9, 40, 1 << 25, 1<<25 + 1, 1<<31 - 1, 1 << 31, 1<<32 - 1}

// dataLen values: the band (2^28, 2^48] is left out on purpose -- there the unpatched
// singleWidthIndex.Unmarshal really attempts the allocation (finding #9, property C09).
var hostileU64 = []uint64{0, 1, 7, 8, 39, 40, 41, 1 << 20, 1<<48 + 1, 1 << 62, 1<<63 - 1, 1 << 63, 1<<64 - 1}

// fieldOffsets walks a well-formed serialized index and returns the positions of its count,
// width, length and code fields.
type idxFields struct{ counts, widths, dlens, codes []int }

func walkIndexFields(b []byte) (f idxFields) {
	codec, n, err := varint.FromUvarint(b)
	if err != nil {
		return
	}
	pos := n
	buckets := func() bool {
		if pos+4 > len(b) {
			return false
		}
		cnt := int(int32(binary.LittleEndian.Uint32(b[pos:])))
		f.counts = append(f.counts, pos)
		pos += 4
		for i := 0; i < cnt; i++ {
			if pos+12 > len(b) {
				return false
			}
			f.widths = append(f.widths, pos)
			f.dlens = append(f.dlens, pos+4)
			dl := binary.LittleEndian.Uint64(b[pos+4:])
			pos += 12
			if dl > uint64(len(b)-pos) {
				return false
			}
			pos += int(dl)
		}
		return true
	}
	if codec == 0x0400 {
		buckets()
		return
	}
	if pos+4 > len(b) {
		return
	}
	cnt := int(int32(binary.LittleEndian.Uint32(b[pos:])))
	f.counts = append(f.counts, pos)
	pos += 4
	for i := 0; i < cnt; i++ {
		if pos+8 > len(b) {
			return
		}
		f.codes = append(f.codes, pos)
		pos += 8
		if !buckets() {
			return
		}
	}
	return
}

// reachesAllocBand simulates ReadFrom's control flow far enough to tell whether it would reach
// make([]byte, dataLen) with 64 MiB < dataLen <= 2^48: the unpatched code then really attempts
// the allocation and the process dies (fatal, not a panic) -- finding #9 / property C09.  Such
// inputs are skipped here and counted.
func reachesAllocBand(b []byte) bool {
	codec, n, err := varint.FromUvarint(b)
	if err != nil {
		return false
	}
	p := b[n:]
	buckets := func() (cont bool, band bool) {
		if len(p) < 4 {
			return false, false
		}
		cnt := int32(binary.LittleEndian.Uint32(p))
		p = p[4:]
		for i := int32(0); i < cnt; i++ {
			if len(p) < 12 {
				return false, false
			}
			w := binary.LittleEndian.Uint32(p)
			dl := binary.LittleEndian.Uint64(p[4:])
			p = p[12:]
			if w < 8 || w > 32<<20 || dl >= 1<<63 || dl > 1<<48 {
				return false, false
			}
			if dl > 64<<20 {
				return false, true
			}
			if dl > uint64(len(p)) {
				return false, false
			}
			p = p[dl:]
		}
		return true, false
	}
	switch codec {
	case 0x0400:
		_, band := buckets()
		return band
	case 0x0401:
		if len(p) < 4 {
			return false
		}
		cnt := int32(binary.LittleEndian.Uint32(p))
		p = p[4:]
		for i := int32(0); i < cnt; i++ {
			if len(p) < 8 {
				return false
			}
			p = p[8:]
			cont, band := buckets()
			if band {
				return true
			}
			if !cont {
				return false
			}
		}
	}
	return false
}

func emitIdxRead(c *Ctx, r *RNG, b []byte, qs []cid.Cid, what string) {
	if reachesAllocBand(b) {
		c.Count("malformed-skipped:allocation-band(C09)")
		return
	}
	in := VL{VB(b), cidsVal(qs)}
	obs := runIdxReadImpl(b, qs, r.Bool())
	c.Emit("idxread", in, obs, true)
	c.Count("malformed:" + what)
	if l, ok := obs.(VL); ok && len(l) > 0 {
		if t, ok := l[0].(VT); ok && t == "ok" {
			c.Count("malformed-outcome:accepted")
		} else if len(l) > 1 {
			c.Count("malformed-outcome:" + string(l[1].(VT)))
		}
	}
}

func malformedIndexCases(c *Ctx, r *RNG, codec uint64, rs []idxRec, qs []cid.Cid, budget int) {
	idx, err := newIndex(codec, rs)
	if err != nil {
		return
	}
	good, _, _ := writeIndex(idx)
	f := walkIndexFields(good)
	mut := func(pos int, val []byte) []byte {
		g := append([]byte(nil), good...)
		copy(g[pos:], val)
		return g
	}
	le32 := func(v uint32) []byte { var x [4]byte; binary.LittleEndian.PutUint32(x[:], v); return x[:] }
	le64 := func(v uint64) []byte { var x [8]byte; binary.LittleEndian.PutUint64(x[:], v); return x[:] }
	emitIdxRead(c, r, good, qs, "intact")
	n := 0
	// every truncation of a small index, sampled for larger ones
	for k := 0; k < len(good); k++ {
		if len(good) > 60 && !(c.Thorough && len(good) <= 300) && r.Intn(len(good)/30+1) != 0 {
			continue
		}
		emitIdxRead(c, r, good[:k], qs, "truncated")
	}
	for n < budget {
		n++
		switch r.Intn(8) {
		case 0:
			if len(f.counts) > 0 {
				v := pick(r, []uint32{0, 1, 2, 3, 1<<31 - 1, 1 << 31, 1<<32 - 1})
				emitIdxRead(c, r, mut(pick(r, f.counts), le32(v)), qs, "count")
			}
		case 1:
			if len(f.widths) > 0 {
				emitIdxRead(c, r, mut(pick(r, f.widths), le32(pick(r, hostileU32))), qs, "width")
			}
		case 2:
			if len(f.dlens) > 0 {
				emitIdxRead(c, r, mut(pick(r, f.dlens), le64(pick(r, hostileU64))), qs, "datalen")
			}
		case 3:
			if len(f.dlens) > 0 { // dataLen off by a little: not a multiple of the width / eats the next bucket
				p := pick(r, f.dlens)
				v := binary.LittleEndian.Uint64(good[p:])
				d := uint64(1 + r.Intn(13))
				if r.Bool() && v >= d {
					v -= d
				} else {
					v += d
				}
				emitIdxRead(c, r, mut(p, le64(v)), qs, "datalen-near")
			}
		case 4:
			if len(f.codes) > 0 {
				v := pick(r, []uint64{0, 0x12, 0x13, 1<<63 - 1, 1 << 63, 1<<64 - 1})
				emitIdxRead(c, r, mut(pick(r, f.codes), le64(v)), qs, "code")
			}
		case 5: // codec varint
			v := pick(r, [][]byte{{0x80, 0x08}, {0x81, 0x08}, {0x82, 0x08}, {0x80, 0x88, 0x00}, {0x00}, {0x80}, {0xff, 0xff, 0xff, 0xff, 0xff, 0xff, 0xff, 0xff, 0xff, 0x01}, {0x80, 0x80, 0xc0, 0x01}})
			g := append(append([]byte(nil), v...), good[2:]...)
			emitIdxRead(c, r, g, qs, "codec")
		case 6: // byte flips anywhere (breaks the digest order: lookups on unsorted data)
			g := append([]byte(nil), good...)
			for k := 0; k < 1+r.Intn(3) && len(g) > 0; k++ {
				g[r.Intn(len(g))] ^= pick(r, []byte{0x01, 0x80, 0xff})
			}
			emitIdxRead(c, r, g, qs, "byteflip")
		case 7: // the same index twice in a row / buckets repeated: duplicate widths overwrite
			if len(f.counts) > 0 && len(good) > f.counts[len(f.counts)-1]+4 {
				p := f.counts[len(f.counts)-1]
				cnt := binary.LittleEndian.Uint32(good[p:])
				body := good[p+4:]
				g := append([]byte(nil), good[:p]...)
				g = append(g, le32(cnt*2)...)
				g = append(g, body...)
				// second copy with the entries of each bucket reversed would be unsorted; keep it simple: flipped last byte
				b2 := append([]byte(nil), body...)
				if len(b2) > 0 {
					b2[len(b2)-1] ^= 0x01
				}
				g = append(g, b2...)
				emitIdxRead(c, r, g, qs, "duplicate-width")
			}
		}
	}
}

func init() {
	register("c11", func(c *Ctx) {
		nSets := 400 * c.Scale
		for a := 0; a < nSets; a++ {
			r := c.R.Fork()
			n := pick(r, []int{0, 1, 2, 3, 3, 4, 5, 6, 8, 12, 20})
			if c.Thorough && r.Chance(5) {
				n = 60 + r.Intn(200)
			}
			rs, f := genRecordSet(r, n)
			perms := genPerms(r, len(rs), 4)
			if n > 40 {
				perms = perms[:2]
				c.Count("records:large-set")
			}
			for _, codec := range []uint64{0x0400, 0x0401} {
				emitIdxSer(c, r, codec, rs, perms, f)
			}
			if a%5 == 0 && n <= 40 {
				qs := genQueries(r, rs)
				for _, codec := range []uint64{0x0400, 0x0401} {
					malformedIndexCases(c, r, codec, rs, qs, 12)
				}
			}
		}
		// exhaustive small scope: every load order of small multisets (thorough: up to 6 records)
		maxN, reps := 4, 6
		if c.Thorough {
			maxN, reps = 6, 4*c.Scale
		}
		for n := 2; n <= maxN; n++ {
			for k := 0; k < reps; k++ {
				r := c.R.Fork()
				rs, f := genRecordSet(r, n)
				ps := allPerms(n)
				for _, codec := range []uint64{0x0400, 0x0401} {
					emitIdxSer(c, r, codec, rs, ps, f)
					c.Count("perms:exhaustive")
				}
			}
		}
		// large buckets: above the 1 MiB chunk in which singleWidthIndex.Unmarshal reads a bucket
		// (kind idxbig; the extracted code evaluates only the layer-B expectation for these)
		// quick: one 2.4 MB bucket -- the chunked read of Unmarshal (1 MiB, then doubling) grows its buffer
		// twice, so both growth steps are exercised
		// ... and more than 65 536 records in all (a batch size a Load / Flatten path might be tempted to use)
		bigs := []c11BigDesc{{c11BigBucket{0x12, 32, 66000}, c11BigBucket{0x11, 20, 500}, 40}}
		if c.Thorough {
			bigs = append(bigs,
				c11BigDesc{c11BigBucket{0x12, 32, 30000}, c11BigBucket{0x11, 20, 500}, 40},   // 1.2 MB bucket: one growth step
				c11BigDesc{c11BigBucket{0x12, 32, 110000}, c11BigBucket{0x13, 64, 3}, 0},     // 4.4 MB bucket: three growth steps
				c11BigDesc{c11BigBucket{0x12, 32, 26214}, c11BigBucket{0x11, 20, 1}, 0},      // last bucket below 1 MiB
				c11BigDesc{c11BigBucket{0x12, 32, 26215}, c11BigBucket{0x11, 20, 1}, 0},      // first above
				c11BigDesc{c11BigBucket{0x1b, 8, 65535}, c11BigBucket{0x11, 20, 2}, 0},       // 1 MiB - 16 bytes
				c11BigDesc{c11BigBucket{0x1b, 8, 65536}, c11BigBucket{0x11, 20, 2}, 0},       // exactly 1 MiB
				c11BigDesc{c11BigBucket{0x1b, 8, 65536}, c11BigBucket{0x11, 20, 2}, 1},       // 1 MiB + 16
				c11BigDesc{c11BigBucket{0x1b, 8, 131071}, c11BigBucket{0x11, 20, 2}, 0},      // 2 MiB - 16
				c11BigDesc{c11BigBucket{0x1b, 8, 131072}, c11BigBucket{0x11, 20, 2}, 0},      // exactly 2 MiB
				c11BigDesc{c11BigBucket{0x1b, 8, 131072}, c11BigBucket{0x11, 20, 2}, 1},      // 2 MiB + 16
				c11BigDesc{c11BigBucket{0x12, 32, 30000}, c11BigBucket{0x11, 20, 60000}, 100}, // two buckets above 1 MiB
			)
		}
		for _, d := range bigs {
			for _, codec := range []uint64{0x0400, 0x0401} {
				r := c.R.Fork()
				var samples [][2]uint64
				sv := VL{}
				for k := 0; k < 24; k++ {
					s := [2]uint64{uint64(r.Intn(2)), uint64(r.Intn(d.a.n + d.a.n/8 + 2))}
					if k < d.ndup && k < 6 {
						s = [2]uint64{0, uint64((7 * k) % d.a.n)} // a key that also has a duplicate record
					}
					samples = append(samples, s)
					sv = append(sv, VL{VN(s[0]), VN(s[1])})
				}
				var trailer []byte
				if r.Bool() {
					trailer = r.Bytes(1 + r.Intn(9))
				}
				in := VL{VN(codec), d.val(), sv, VB(trailer)}
				c.Emit("idxbig", in, runIdxBigImpl(codec, d, samples, trailer, r.Bool()), true)
				c.Count("records:bucket-above-1MiB")
			}
		}
		// the constants the model hard-codes (incl. InsertionIndex.Codec), once per run
		c.Emit("consts", VL{}, constsObs(), false)
		// index.GetFirst on the three index kinds and InsertionIndex.Get (kind idxfirst)
		for a := 0; a < 80*c.Scale; a++ {
			r := c.R.Fork()
			rs, f := genRecordSet(r, pick(r, []int{0, 1, 2, 3, 4, 6, 9, 14}))
			qs := genQueries(r, rs)
			for _, codec := range []uint64{0x0400, 0x0401, codecInsertion} {
				c.Emit("idxfirst", VL{VN(codec), recsVal(rs), cidsVal(qs)}, runIdxFirstImpl(codec, rs, qs), len(rs) >= 2 && f.ties)
				c.Count("get-first")
			}
		}
		// Load called twice on one sorted index (kind idxload2, correspondence only)
		for a := 0; a < 60*c.Scale; a++ {
			r := c.R.Fork()
			rs1, _ := genRecordSet(r, pick(r, []int{0, 1, 2, 3, 5, 8}))
			var rs2 []idxRec
			switch r.Intn(3) {
			case 0: // unrelated second batch
				rs2, _ = genRecordSet(r, pick(r, []int{0, 1, 2, 4, 7}))
			case 1: // same widths / codes: other offsets for some of the same CIDs
				for _, x := range rs1 {
					if r.Bool() {
						rs2 = append(rs2, idxRec{x.C, genOffset(r)})
					}
				}
			case 2: // one record of a width / code already present
				if len(rs1) > 0 {
					x := pick(r, rs1)
					dm, _ := mh.Decode(x.C.Hash())
					rs2 = []idxRec{{c11RawCid(0x55, dm.Code, r.Bytes(len(dm.Digest))), genOffset(r)}}
				}
			}
			qs := genQueries(r, append(append([]idxRec(nil), rs1...), rs2...))
			for _, codec := range []uint64{0x0400, 0x0401} {
				c.Emit("idxload2", VL{VN(codec), recsVal(rs1), recsVal(rs2), cidsVal(qs)}, runIdxLoad2Impl(codec, rs1, rs2, qs), len(rs1) > 0 && len(rs2) > 0)
				c.Count("load-twice")
			}
		}
		// InsertionIndex.Marshal / Unmarshal (kinds iiser, iiread)
		c11InsertionCborCases(c)
		// raw random bytes through ReadFrom
		for k := 0; k < 40*c.Scale; k++ {
			r := c.R.Fork()
			b := r.Bytes(r.Intn(60))
			if len(b) >= 2 && r.Chance(70) {
				b[0], b[1] = 0x80|byte(r.Intn(2)), 0x08
			}
			emitIdxRead(c, r, b, []cid.Cid{c11RawCid(0x55, 0x12, r.Bytes(32))}, "random")
		}
	})
}

var _ = sort.Ints
var _ = bytes.Equal

// c11InsertionCborCases: record sets through InsertionIndex.Marshal/Unmarshal, each in the three modes
// of prop_iiser (reported length, round trip, different indexes => different bytes), and a malformed
// stream through Unmarshal.
func c11InsertionCborCases(c *Ctx) {
	n := 40 * c.Scale
	for a := 0; a < n; a++ {
		r := c.R.Fork()
		rs, _ := genRecordSet(r, pick(r, []int{0, 0, 1, 1, 2, 3, 5, 9}))
		// records2: the same offsets under other CIDs (what Marshal cannot tell apart), or another set
		var rs2 []idxRec
		if r.Chance(70) {
			for _, x := range rs {
				rs2 = append(rs2, idxRec{c11RawCid(0x71, 0x12, r.Bytes(32)), x.Off})
			}
		} else {
			rs2, _ = genRecordSet(r, len(rs))
		}
		var trailer []byte
		if r.Chance(40) {
			trailer = r.Bytes(1 + r.Intn(12))
		}
		plain := r.Bool()
		obs, full := runIISerImpl(rs, rs2, trailer, plain)
		tab := c11RecDecTable(full)
		for mode := uint64(0); mode < 3; mode++ {
			c.Emit("iiser", VL{VN(mode), recsVal(rs), recsVal(rs2), VB(trailer), tab}, obs, len(rs) > 0)
		}
		if len(rs) == 0 {
			c.Count("insertion-cbor:empty-index")
		} else {
			c.Count("insertion-cbor:non-empty-index")
		}
		// malformed: truncations, count field, bytes of the first record
		good := full
		emit := func(b []byte, what string) {
			c.Emit("iiread", VL{VB(b), c11RecDecTable(b)}, c11IIUnmarshal(b, r.Bool()), true)
			c.Count("insertion-cbor-malformed:" + what)
		}
		for k := 0; k <= len(good) && k < 40; k++ {
			emit(good[:k], "truncated")
		}
		for t := 0; t < 12; t++ {
			g := append([]byte(nil), good...)
			switch r.Intn(4) {
			case 0:
				v := pick(r, []uint64{0, 1, 2, 1<<63 - 1, 1 << 63, 1<<64 - 1})
				for len(g) < 8 {
					g = append(g, 0)
				}
				binary.LittleEndian.PutUint64(g, v)
				emit(g, "count")
			case 1:
				if len(g) > 8 {
					g[8+r.Intn(len(g)-8)] ^= pick(r, []byte{0x01, 0x20, 0x80, 0xff})
					emit(g, "byteflip")
				}
			case 2: // a count followed by arbitrary CBOR-looking bytes
				g = append(g[:0], 1, 0, 0, 0, 0, 0, 0, 0)
				g = append(g, pick(r, [][]byte{{0xa0}, {0x00}, {0xf6}, {0x80}, {0xa1, 0x66, 0x4f, 0x66, 0x66, 0x73, 0x65, 0x74, 0x01}, {0xa1, 0x63, 0x43, 0x69, 0x64, 0x41, 0x00}, {0xbf, 0xff}, {0x5f, 0xff}, {0xa1}, {0x1b, 0xff}, {0xc0, 0x00}, {0xfb, 0, 0, 0, 0, 0, 0, 0, 0}})...)
				g = append(g, r.Bytes(r.Intn(4))...)
				emit(g, "cbor-shapes")
			case 3:
				emit(r.Bytes(r.Intn(30)), "random")
			}
		}
	}
}

func runIdxLoad2Impl(codec uint64, rs1, rs2 []idxRec, qs []cid.Cid) (obs Val) {
	defer func() {
		if r := recover(); r != nil {
			obs = VL{VT("PANIC")}
		}
	}()
	idx, err := newIndex(codec, rs1)
	if err != nil {
		return VL{VT("badcodec")}
	}
	if err := idx.Load(toRecords(rs2)); err != nil {
		return VL{VT("loaderr")}
	}
	return VL{canonOf(idx), getAllsVal(idx, qs, true)}
}

func init() {
	registerReplay("idxload2", func(c *Ctx, in Val) Val {
		l := in.(VL)
		return runIdxLoad2Impl(uint64(l[0].(VN)), c11RecsOfVal(l[1]), c11RecsOfVal(l[2]), cidsOfVal(l[3]))
	})
}

// c11FirstVal projects a "first offset" answer: not found / the offset when GetAll reports exactly one
// (or the answer is specified exactly) / one of several / BAD when it is not among GetAll's offsets.
func c11FirstVal(exact bool, all []uint64, off uint64, err error) Val {
	if err != nil {
		if errors.Is(err, index.ErrNotFound) {
			return VL{VT("notfound")}
		}
		return VL{VT("BAD")}
	}
	found := false
	for _, x := range all {
		if x == off {
			found = true
		}
	}
	switch {
	case !found:
		return VL{VT("BAD")}
	case exact || len(all) == 1:
		return VL{VT("ok"), VN(off)}
	default:
		return VL{VT("among")}
	}
}

func runIdxFirstImpl(codec uint64, rs []idxRec, qs []cid.Cid) (obs Val) {
	defer func() {
		if r := recover(); r != nil {
			obs = VL{VT("PANIC")}
		}
	}()
	out := VL{}
	if codec == codecInsertion {
		ii := c11InsertionIndex(rs)
		for _, q := range qs {
			all, _ := getAll(ii, q)
			fo, ferr := index.GetFirst(ii, q)
			go_, gerr := ii.Get(q)
			out = append(out, VL{c11FirstVal(true, all, fo, ferr), c11FirstVal(false, all, go_, gerr)})
		}
		return out
	}
	idx, err := newIndex(codec, rs)
	if err != nil {
		return VL{VT("badcodec")}
	}
	for _, q := range qs {
		all, _ := getAll(idx, q)
		fo, ferr := index.GetFirst(idx, q)
		out = append(out, VL{c11FirstVal(false, all, fo, ferr), VL{}})
	}
	return out
}

func init() {
	registerReplay("idxfirst", func(c *Ctx, in Val) Val {
		l := in.(VL)
		return runIdxFirstImpl(uint64(l[0].(VN)), c11RecsOfVal(l[1]), cidsOfVal(l[2]))
	})
}
