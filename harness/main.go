package main

import (
	"bufio"
	"crypto/sha256"
	"encoding/json"
	"flag"
	"fmt"
	"os"
	"sort"
	"strings"
)

// Ctx is handed to every case producer.
type Ctx struct {
	R       *RNG
	Tier    string
	Thorough bool
	Scale   int // multiplier for case counts (source-pin escalation / thorough)
	Work    string // scratch directory (removed by the caller)
	CarBin  string

	out      *bufio.Writer
	n        int
	kindN    map[string]int
	stats    map[string]int
	distinct map[[32]byte]bool
	nontriv  int
	samples  []string
}

func (c *Ctx) Count(key string) { c.stats[key]++ }
func (c *Ctx) CountN(key string, n int) { c.stats[key] += n }

// Emit writes one case: what was fed to the implementation and what it did.
// nontrivial: the per-property rule (documented in the producer) for counting this case.
func (c *Ctx) Emit(kind string, input Val, obs Val, nontrivial bool) {
	c.n++
	c.kindN[kind]++
	is := valString(input)
	os_ := valString(obs)
	id := fmt.Sprintf("%s-%06d", kind, c.n)
	fmt.Fprintf(c.out, "%s\t%s\t%s\t%s\n", id, kind, is, os_)
	h := sha256.Sum256([]byte(kind + "\x00" + is))
	if !c.distinct[h] {
		c.distinct[h] = true
		if nontrivial {
			c.nontriv++
		}
	}
	if len(c.samples) < 3 && nontrivial {
		line := id + " " + kind + " " + is + " => " + os_
		if len(line) > 600 {
			line = line[:600] + "..."
		}
		c.samples = append(c.samples, line)
	}
}

type producer func(c *Ctx)

var producers = map[string]producer{}

func register(name string, p producer) { producers[name] = p }

func main() {
	prop := flag.String("prop", "", "producer to run (e.g. c01)")
	seed := flag.Uint64("seed", 1, "PRNG seed")
	tier := flag.String("tier", "quick", "quick|thorough")
	out := flag.String("out", "cases.tsv", "case file")
	stats := flag.String("stats", "stats.json", "stats file")
	work := flag.String("work", "", "scratch dir")
	carbin := flag.String("car", "", "path of the car binary built from the working tree")
	scale := flag.Int("scale", 1, "case count multiplier")
	replay := flag.String("replay", "", "replay file: re-run the implementation on the recorded inputs")
	flag.Parse()

	f, err := os.Create(*out)
	if err != nil {
		fmt.Fprintln(os.Stderr, err)
		os.Exit(2)
	}
	w := bufio.NewWriterSize(f, 1<<20)
	c := &Ctx{R: NewRNG(*seed), Tier: *tier, Thorough: *tier == "thorough", Scale: *scale, Work: *work, CarBin: *carbin,
		out: w, kindN: map[string]int{}, stats: map[string]int{}, distinct: map[[32]byte]bool{}}
	if *replay != "" {
		if err := runReplay(c, *replay); err != nil {
			fmt.Fprintln(os.Stderr, "replay:", err)
			os.Exit(2)
		}
	} else {
		p, ok := producers[*prop]
		if !ok {
			var names []string
			for k := range producers {
				names = append(names, k)
			}
			sort.Strings(names)
			fmt.Fprintln(os.Stderr, "unknown producer; have:", strings.Join(names, " "))
			os.Exit(2)
		}
		p(c)
	}
	w.Flush()
	f.Close()
	st := map[string]interface{}{
		"evaluations":         c.n,
		"distinct":            len(c.distinct),
		"distinct_nontrivial": c.nontriv,
		"by_kind":             c.kindN,
		"generator":           c.stats,
		"samples":             c.samples,
	}
	b, _ := json.MarshalIndent(st, "", " ")
	os.WriteFile(*stats, b, 0o644)
}

// replayers re-run the implementation on a recorded input of a kind and return the new observation.
type replayer func(c *Ctx, input Val) Val

var replayers = map[string]replayer{}

func registerReplay(kind string, r replayer) { replayers[kind] = r }

// rerunners are replayers for kinds whose recorded input contains schedule-dependent
// observations (e.g. a concurrent history): they re-run the workload part of the recorded
// input and return the fresh (input, observation) pair to emit.
type rerunner func(c *Ctx, input Val) (Val, Val)

var rerunners = map[string]rerunner{}

func registerReplayRerun(kind string, r rerunner) { rerunners[kind] = r }

func runReplay(c *Ctx, path string) error {
	data, err := os.ReadFile(path)
	if err != nil {
		return err
	}
	for _, line := range strings.Split(string(data), "\n") {
		if line == "" || line[0] == '#' {
			continue
		}
		parts := strings.Split(line, "\t")
		if len(parts) < 3 {
			continue
		}
		kind := parts[1]
		if rr, ok := rerunners[kind]; ok {
			in, err := parseVal(parts[2])
			if err != nil {
				return err
			}
			nin, nobs := rr(c, in)
			c.Emit(kind, nin, nobs, true)
			continue
		}
		rp, ok := replayers[kind]
		if !ok {
			return fmt.Errorf("no replayer for kind %s", kind)
		}
		in, err := parseVal(parts[2])
		if err != nil {
			return err
		}
		c.Emit(kind, in, rp(c, in), true)
	}
	return nil
}
