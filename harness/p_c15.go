package main

// C15 producer: random DAGs (dag-cbor / dag-pb / raw, shared subtrees, repeated links,
// same bytes under two codecs, identity leaves, depth <= 5) x selectors x option matrices,
// driven through the five traversal-writer entry points (k_trav.go).

import (
	"bytes"

	"github.com/ipfs/go-cid"
	format "github.com/ipfs/go-ipld-format"
	"github.com/ipfs/go-merkledag"
	"github.com/ipld/go-ipld-prime/codec/dagcbor"
	"github.com/ipld/go-ipld-prime/datamodel"
	"github.com/ipld/go-ipld-prime/fluent/qp"
	cidlink "github.com/ipld/go-ipld-prime/linking/cid"
	"github.com/ipld/go-ipld-prime/node/basicnode"
	mh "github.com/multiformats/go-multihash"
)

type dedge struct {
	segs  []string // path segments from the parent node to the link
	child *dnode
}
type dnode struct {
	c     cid.Cid
	data  []byte
	level int
	edges []dedge
}

type gdag struct {
	nodes []*dnode
	tops  []*dnode
	big   bool
}

var travHashes = []hashKind{{mh.SHA2_256, -1}, {mh.SHA2_256, -1}, {mh.SHA2_512, -1}, {mh.SHA1, -1}, {mh.SHA2_256, 20}, {mh.DBL_SHA2_256, -1}}

func travCid(r *RNG, codec uint64, data []byte) cid.Cid {
	if codec == cid.DagProtobuf && r.Chance(40) {
		return mkCid(0, codec, mh.SHA2_256, -1, data)
	}
	hk := pick(r, travHashes)
	return mkCid(1, codec, hk.code, hk.len, data)
}

func leafLen(r *RNG, big bool) int {
	switch r.Intn(8) {
	case 0:
		return 0
	case 1:
		return pick(r, []int{88, 89, 90, 91, 92, 93}) // section length around the 1->2 byte varint step
	case 2:
		if big {
			return pick(r, []int{16340, 16346, 16347, 16348, 16350})
		}
		return r.Intn(64)
	default:
		return r.Intn(200)
	}
}

func encCbor(n datamodel.Node) []byte {
	var buf bytes.Buffer
	if err := dagcbor.Encode(n, &buf); err != nil {
		panic(err)
	}
	return buf.Bytes()
}

// boundaryLeaf: a raw block whose section length |cid|+|data| is exactly t
func boundaryLeaf(r *RNG, t int) *dnode {
	hk := pick(r, travHashes)
	cl := mkCid(1, cid.Raw, hk.code, hk.len, nil).ByteLen()
	d := r.Bytes(t - cl)
	return &dnode{c: mkCid(1, cid.Raw, hk.code, hk.len, d), data: d}
}

// section lengths on both sides of every varint width step, and inside the 3-byte range
var boundaryLens = []int{127, 128, 129, 16383, 16384, 16385, 20000, 32767}

func genLeaf(r *RNG, big bool) *dnode {
	if big {
		return boundaryLeaf(r, pick(r, boundaryLens))
	}
	switch r.Intn(6) {
	case 0, 1: // raw
		d := r.Bytes(leafLen(r, big))
		return &dnode{c: travCid(r, cid.Raw, d), data: d}
	case 2: // identity raw
		d := r.Bytes(pick(r, []int{0, 1, 5, 32}))
		return &dnode{c: mkCid(1, cid.Raw, mh.IDENTITY, -1, d), data: d}
	case 3: // dag-pb without links
		nd := merkledag.NodeWithData(r.Bytes(r.Intn(60)))
		d := nd.RawData()
		return &dnode{c: travCid(r, cid.DagProtobuf, d), data: d}
	default: // dag-cbor scalar map
		n, err := qp.BuildMap(basicnode.Prototype.Any, 2, func(ma datamodel.MapAssembler) {
			qp.MapEntry(ma, "v", qp.Int(int64(r.Intn(1000))))
			qp.MapEntry(ma, "s", qp.Bytes(r.Bytes(leafLen(r, big))))
		})
		if err != nil {
			panic(err)
		}
		d := encCbor(n)
		return &dnode{c: travCid(r, cid.DagCBOR, d), data: d}
	}
}

func genInner(r *RNG, level int, kids []*dnode) *dnode {
	nd := &dnode{level: level}
	if r.Chance(35) { // dag-pb
		pn := merkledag.NodeWithData(r.Bytes(r.Intn(20)))
		for i, k := range kids {
			name := string(rune('a'+i)) + "l"
			if err := pn.AddRawLink(name, &format.Link{Cid: k.c, Size: uint64(len(k.data))}); err != nil {
				panic(err)
			}
			nd.edges = append(nd.edges, dedge{[]string{"Links", string(rune('0' + i)), "Hash"}, k})
		}
		nd.data = pn.RawData()
		nd.c = travCid(r, cid.DagProtobuf, nd.data)
		return nd
	}
	// dag-cbor: first links as fields l0.., then some in a list "ls", possibly one in a nested map
	nField := 1 + r.Intn(len(kids))
	fields := kids[:nField]
	rest := kids[nField:]
	var nested *dnode
	if len(rest) > 0 && r.Chance(40) {
		nested = rest[0]
		rest = rest[1:]
	}
	n, err := qp.BuildMap(basicnode.Prototype.Any, -1, func(ma datamodel.MapAssembler) {
		for i, k := range fields {
			name := "l" + string(rune('0'+i))
			qp.MapEntry(ma, name, qp.Link(cidlink.Link{Cid: k.c}))
			nd.edges = append(nd.edges, dedge{[]string{name}, k})
		}
		if len(rest) > 0 {
			qp.MapEntry(ma, "ls", qp.List(int64(len(rest)), func(la datamodel.ListAssembler) {
				for i, k := range rest {
					qp.ListEntry(la, qp.Link(cidlink.Link{Cid: k.c}))
					nd.edges = append(nd.edges, dedge{[]string{"ls", string(rune('0' + i))}, k})
				}
			}))
		}
		if nested != nil {
			qp.MapEntry(ma, "m", qp.Map(1, func(ma2 datamodel.MapAssembler) {
				qp.MapEntry(ma2, "x", qp.Link(cidlink.Link{Cid: nested.c}))
			}))
			nd.edges = append(nd.edges, dedge{[]string{"m", "x"}, nested})
		}
		qp.MapEntry(ma, "v", qp.Int(int64(r.Intn(100))))
	})
	if err != nil {
		panic(err)
	}
	nd.data = encCbor(n)
	nd.c = travCid(r, cid.DagCBOR, nd.data)
	return nd
}

func genDag(r *RNG, depth, nTop int, big bool) *gdag {
	g := &gdag{big: big}
	levels := make([][]*dnode, depth+1)
	for i, n := 0, 2+r.Intn(4); i < n; i++ {
		l := genLeaf(r, big && i == 0) // at most one boundary-size leaf per DAG keeps cases small
		levels[0] = append(levels[0], l)
		g.nodes = append(g.nodes, l)
	}
	for lvl := 1; lvl <= depth; lvl++ {
		cnt := 1 + r.Intn(3)
		if lvl == depth {
			cnt = nTop
		}
		for i := 0; i < cnt; i++ {
			var lower []*dnode
			for _, l := range levels[:lvl] {
				lower = append(lower, l...)
			}
			k := 1 + r.Intn(4)
			var kids []*dnode
			for j := 0; j < k; j++ {
				switch {
				case j == 0:
					kids = append(kids, pick(r, levels[lvl-1]))
				case r.Chance(25):
					kids = append(kids, pick(r, kids)) // the same link twice in one node
				case r.Chance(60):
					kids = append(kids, pick(r, levels[lvl-1]))
				default:
					kids = append(kids, pick(r, lower)) // shared subtree across levels
				}
			}
			nd := genInner(r, lvl, kids)
			levels[lvl] = append(levels[lvl], nd)
			g.nodes = append(g.nodes, nd)
		}
		// the same bytes under another codec: a raw view of a block of this level (same
		// multihash, different CID) becomes a leaf candidate for the levels above
		if r.Chance(12) {
			src := pick(r, levels[lvl])
			tw := &dnode{c: cid.NewCidV1(cid.Raw, src.c.Hash()), data: src.data}
			levels[0] = append(levels[0], tw)
			g.nodes = append(g.nodes, tw)
		}
	}
	g.tops = levels[depth]
	return g
}

// a random descent from n: path segments to some link below it
func descend(r *RNG, n *dnode, steps int) []string {
	var segs []string
	for i := 0; i < steps && len(n.edges) > 0; i++ {
		e := pick(r, n.edges)
		segs = append(segs, e.segs...)
		n = e.child
	}
	return segs
}

func genSel(r *RNG, top *dnode, depth int) selSpec {
	switch r.Intn(10) {
	case 0, 1, 2, 3:
		return selSpec{kind: 0}
	case 4, 5:
		return selSpec{kind: 1, depth: uint64(r.Intn(2*depth + 2))}
	case 6, 7:
		return selSpec{kind: 2, path: descend(r, top, 1+r.Intn(2))}
	case 8:
		return selSpec{kind: 3}
	default:
		return selSpec{kind: 4, path: descend(r, top, 1+r.Intn(2)), path2: descend(r, top, 1+r.Intn(2))}
	}
}

// a selector that stops early: root only, depth 0/1, or one field path without what is below it
func narrowSel(r *RNG, n *dnode) selSpec {
	switch r.Intn(4) {
	case 0:
		return selSpec{kind: 3}
	case 1:
		return selSpec{kind: 1, depth: uint64(r.Intn(2))}
	case 2:
		return selSpec{kind: 5, path: descend(r, n, 1)}
	default:
		return selSpec{kind: 5, path: descend(r, n, 2)}
	}
}

// genDags fills tc.roots / tc.sels with 0..3 Dag entries (root, selector) for the root-module
// SelectiveCar: independent roots, the same root under two selectors, a later root that lies inside
// an earlier Dag (reached by it or not), each combined with link-visit-once on and off by the caller.
func genDags(c *Ctx, r *RNG, tc *travCase, g *gdag, depth int) {
	top := g.tops[0]
	add := func(n *dnode, s selSpec) {
		tc.roots = append(tc.roots, n.c)
		tc.sels = append(tc.sels, s)
	}
	below := func(n *dnode) *dnode { // some node reachable from n (n itself for a leaf)
		for i := r.Intn(3); i >= 0 && len(n.edges) > 0; i-- {
			n = pick(r, n.edges).child
		}
		return n
	}
	shape := r.Intn(8)
	switch shape {
	case 0: // independent roots, each with its own selector
		n := 1 + r.Intn(len(g.tops))
		for i := 0; i < n; i++ {
			add(g.tops[i], genSel(r, g.tops[i], depth))
		}
		c.Count("dags:independent-roots")
	case 1: // no Dag at all, or the same Dag twice
		if r.Bool() {
			s := genSel(r, top, depth)
			add(top, s)
			add(top, s)
		}
		c.Count("dags:none-or-duplicate")
	case 2, 3: // the same root, narrow selector first, wider one later
		add(top, narrowSel(r, top))
		add(top, genSel(r, top, depth))
		if r.Chance(30) {
			add(top, selSpec{kind: 0})
		}
		c.Count("dags:same-root-two-selectors")
	case 4, 5: // a later root lies inside an earlier Dag that stopped early
		child := below(top)
		add(top, narrowSel(r, top))
		add(child, genSel(r, child, depth))
		if r.Chance(30) {
			add(top, selSpec{kind: 0})
		}
		c.Count("dags:later-root-inside-narrow-earlier")
	case 6: // a later root lies inside an earlier Dag that was fully explored
		add(top, selSpec{kind: 0})
		add(below(top), genSel(r, top, depth))
		c.Count("dags:later-root-inside-full-earlier")
	default: // inner root first, enclosing root later
		child := below(top)
		add(child, genSel(r, child, depth))
		add(top, genSel(r, top, depth))
		c.Count("dags:inner-root-first")
	}
}

func genTravOpts(r *RNG, api uint64) travOpts {
	o := travOpts{}
	o.dups = r.Chance(55)
	if r.Chance(12) {
		o.budget = uint64(1 + r.Intn(6))
	}
	if api <= 2 {
		o.chooser = r.Chance(30)
	}
	if api <= 2 { // TraverseV1 takes the same options (and must ignore the paddings)
		// boundary set: around the 4 KiB chunk a padding writer might use, plus one large value
		o.dpad = pick(r, []uint64{0, 0, 0, 0, 1, 7, 1413, 4095, 4096, 4097, 8192})
		o.ipad = pick(r, []uint64{0, 0, 0, 0, 1, 512, 4095, 4096, 4097, 8192})
		if r.Chance(1) { // the hand-made padding matrix always has it; keep random cases small
			o.dpad = 65536
		}
		if r.Chance(1) {
			o.ipad = 65536
		}
	}
	if api == 1 && r.Chance(6) { // only where the destination is the harness's capped buffer, never a file
		// paddings no allocation can satisfy: make([]byte, n) panics above 2^48; the data offset still
		// fits in 64 bits (unlike the wrap-around values below) while the index offset may wrap
		if r.Bool() {
			o.dpad = pick(r, []uint64{1<<48 + 1, 1 << 63, ^uint64(0) - 51})
		} else {
			o.ipad = pick(r, []uint64{1<<48 + 1, 1 << 63, ^uint64(0) - 99})
		}
	}
	if api == 1 || api == 2 {
		o.codec = pick(r, []uint64{0, 0, 0x0400, 0x0401, 0x300000, 0x300000})
		if r.Chance(3) {
			o.codec = pick(r, []uint64{0x55, 0x0402, 0x0300}) // unknown index codec
		}
		if r.Chance(3) {
			o.dpad = pick(r, []uint64{^uint64(0), ^uint64(0) - 49, ^uint64(0) - 50}) // DataOffset wraps around
		}
	}
	if api == 3 || api == 5 {
		o.ncbW = uint64(r.Intn(4))
		o.ncbD = uint64(r.Intn(4))
	}
	if api == 4 || api == 6 {
		o.nilRoots = r.Bool()
		o.plain = r.Bool()
	}
	if api >= 5 { // the first write's destination fails at this Write call (beyond the last: no fault)
		o.fk = uint64(r.Intn(14))
		o.fshort = r.Bool()
	}
	return o
}

func traceStats(traces Val) (distinct int, repeats bool, ok bool) {
	ok = true
	for _, t := range traces.(VL) {
		tl := t.(VL)
		if tl[1].(VN) == 0 {
			ok = false
		}
		seen := map[string]bool{}
		for _, l := range tl[0].(VL) {
			k := string(l.(VL)[0].(VB))
			if seen[k] {
				repeats = true
			}
			seen[k] = true
		}
		if len(seen) > distinct {
			distinct = len(seen)
		}
	}
	return
}

// fixedCases: small hand-made DAGs that run first on every seed.
//
//	diamond: root{l0->a, l1->b}, a{l0->leaf}, b{l0->leaf}; twice: root{l0->leaf, l1->leaf}
func fixedCases(c *Ctx) {
	r := NewRNG(15)
	cborNode := func(kids ...*dnode) *dnode {
		n, err := qp.BuildMap(basicnode.Prototype.Any, -1, func(ma datamodel.MapAssembler) {
			for i, k := range kids {
				qp.MapEntry(ma, "l"+string(rune('0'+i)), qp.Link(cidlink.Link{Cid: k.c}))
			}
		})
		if err != nil {
			panic(err)
		}
		d := encCbor(n)
		return &dnode{c: mkCid(1, cid.DagCBOR, mh.SHA2_256, -1, d), data: d}
	}
	leafData := []byte("leaf block shared by two parents")
	leaf := &dnode{c: mkCid(1, cid.Raw, mh.SHA2_256, -1, leafData), data: leafData}
	a := cborNode(leaf)
	b := cborNode(leaf, leaf)
	diamond := cborNode(a, b)
	twice := cborNode(leaf, leaf)
	for _, g := range []struct {
		name  string
		top   *dnode
		nodes []*dnode
	}{{"diamond", diamond, []*dnode{diamond, a, b, leaf}}, {"twice", twice, []*dnode{twice, leaf}}} {
		var store []Blk
		for _, n := range g.nodes {
			store = append(store, Blk{n.c, n.data})
		}
		for api := uint64(0); api <= 4; api++ {
			for _, dups := range []bool{true, false} {
				ncbs := [][2]uint64{{1, 1}}
				if api == 3 { // 0..3 registered callbacks for Write and for Prepare/Dump
					ncbs = [][2]uint64{{0, 0}, {1, 1}, {2, 2}, {3, 3}, {2, 3}, {3, 1}}
				}
				for _, nc := range ncbs {
					tc := &travCase{api: api, roots: []cid.Cid{g.top.c}, sel: selSpec{kind: 0}, opts: travOpts{dups: dups, plain: dups, ncbW: nc[0], ncbD: nc[1]}, store: store}
					emitTrav(c, tc, func(Val) bool { return true })
					c.Count("fixed:" + g.name)
				}
			}
		}
	}
	// several Dag entries over the diamond (root{l0->a, l1->b}, a{l0->leaf}, b{l0->leaf, l1->leaf}):
	// the later entry's root has already been written by an earlier, narrower entry
	all := selSpec{kind: 0}
	var dstore []Blk
	for _, n := range []*dnode{diamond, a, b, leaf} {
		dstore = append(dstore, Blk{n.c, n.data})
	}
	for _, d := range []struct {
		roots []*dnode
		sels  []selSpec
	}{
		{[]*dnode{diamond, a}, []selSpec{{kind: 1, depth: 1}, all}},
		{[]*dnode{diamond, diamond}, []selSpec{{kind: 3}, all}},
		{[]*dnode{diamond, b}, []selSpec{{kind: 5, path: []string{"l0"}}, all}},
		{[]*dnode{diamond, a, diamond}, []selSpec{{kind: 5, path: []string{"l0"}}, {kind: 3}, all}},
		{[]*dnode{diamond, a}, []selSpec{all, all}},
		{[]*dnode{a, diamond}, []selSpec{all, all}},
	} {
		for _, dups := range []bool{true, false} {
			for _, nc := range [][2]uint64{{1, 1}, {2, 3}} {
				tc := &travCase{api: 3, sel: all, sels: d.sels, opts: travOpts{dups: dups, ncbW: nc[0], ncbD: nc[1]}, store: dstore}
				for _, n := range d.roots {
					tc.roots = append(tc.roots, n.c)
				}
				emitTrav(c, tc, func(Val) bool { return true })
				c.Count("fixed:multi-dag")
			}
		}
	}
	// every varint width step of the section length in one DAG: root{l0..l7 -> raw leaves whose
	// |cid|+|data| is 127, 128, 129, 16383, 16384, 16385, 20000, 32767}; thorough adds 2 MiB -1 / +0
	type bcase struct {
		lens []int
		apis []uint64
	}
	bcases := []bcase{{boundaryLens, []uint64{0, 1, 2, 3, 4}}}
	if c.Thorough { // the 4-byte varint step; only where the legacy LdSize / the v2 loader count it
		bcases = append(bcases, bcase{[]int{2097151, 2097152}, []uint64{0, 3}})
	}
	for _, bc := range bcases {
		var bl []*dnode
		for i, t := range bc.lens {
			d := bytes.Repeat([]byte{byte(i + 1)}, t-36)
			bl = append(bl, &dnode{c: mkCid(1, cid.Raw, mh.SHA2_256, -1, d), data: d})
		}
		broot := cborNode(bl...)
		bstore := []Blk{{broot.c, broot.data}}
		for _, n := range bl {
			bstore = append(bstore, Blk{n.c, n.data})
		}
		for _, api := range bc.apis {
			ncbs := [][2]uint64{{1, 1}}
			if api == 3 && len(bc.lens) > 2 {
				ncbs = [][2]uint64{{1, 1}, {2, 3}}
			}
			for _, nc := range ncbs {
				tc := &travCase{api: api, roots: []cid.Cid{broot.c}, sel: all, opts: travOpts{dups: api%2 == 0, ncbW: nc[0], ncbD: nc[1]}, store: bstore}
				emitTrav(c, tc, func(Val) bool { return true })
				c.Count("fixed:varint-boundary-blocks")
			}
		}
	}
	// the padding boundary set on every v2 entry point (TraverseV1 must ignore paddings)
	pads := []uint64{0, 1, 4095, 4096, 4097, 8192, 65536}
	var tstore []Blk
	for _, n := range []*dnode{twice, leaf} {
		tstore = append(tstore, Blk{n.c, n.data})
	}
	for _, dp := range pads {
		for _, ip := range pads {
			for api := uint64(0); api <= 2; api++ {
				if api == 0 && dp != ip {
					continue
				}
				codec := uint64(0)
				if dp == 1 && api == 2 {
					codec = 0x300000 // no index: the index padding must not be written
				}
				tc := &travCase{api: api, roots: []cid.Cid{twice.c}, sel: all, opts: travOpts{dpad: dp, ipad: ip, codec: codec, dups: dp%2 == 0}, store: tstore}
				emitTrav(c, tc, func(Val) bool { return true })
				c.Count("fixed:padding-boundaries")
			}
		}
	}
	// write-fault histories over the diamond: the destination of a first SelectiveCar.Write / WriteCar
	// fails at EVERY one of its Write calls in turn (error, and short write), then the fault-free run
	for fk := uint64(0); fk <= 15; fk++ {
		for _, short := range []bool{false, true} {
			for api := uint64(5); api <= 6; api++ {
				tc := &travCase{api: api, roots: []cid.Cid{diamond.c}, sel: all, opts: travOpts{dups: fk%2 == 0, ncbW: 1, ncbD: 2, fk: fk, fshort: short, plain: true}, store: dstore}
				emitTrav(c, tc, func(Val) bool { return true })
				c.Count("fixed:write-fault-history")
			}
		}
	}
	// paddings above the allocation limit, with and without an index
	for _, hp := range [][3]uint64{{1<<48 + 1, 0, 0}, {^uint64(0) - 51, 7, 0}, {0, 1<<48 + 1, 0}, {7, ^uint64(0) - 99, 0x0400}, {0, 1 << 63, 0x300000}} {
		for api := uint64(1); api <= 1; api++ { // NewSelectiveWriter only: its destination is a capped buffer
			tc := &travCase{api: api, roots: []cid.Cid{twice.c}, sel: all, opts: travOpts{dpad: hp[0], ipad: hp[1], codec: hp[2]}, store: tstore}
			emitTrav(c, tc, func(Val) bool { return true })
			c.Count("fixed:padding-above-alloc-limit")
		}
	}
	_ = r
}

// smallScope: every DAG on four nodes n0 > n1 > n2 > n3 where each node links each later node
// 0, 1 or 2 times (3^6 shapes), through every entry point, link-visit-once on and off.
func smallScope(c *Ctx) {
	leafData := []byte("n3")
	for code := 0; code < 729; code++ {
		m := [4][4]int{}
		x := code
		for i := 0; i < 4; i++ {
			for j := i + 1; j < 4; j++ {
				m[i][j] = x % 3
				x /= 3
			}
		}
		nodes := make([]*dnode, 4)
		nodes[3] = &dnode{c: mkCid(1, cid.Raw, mh.SHA2_256, -1, leafData), data: leafData}
		for i := 2; i >= 0; i-- {
			var kids []*dnode
			for j := i + 1; j < 4; j++ {
				for k := 0; k < m[i][j]; k++ {
					kids = append(kids, nodes[j])
				}
			}
			n, err := qp.BuildMap(basicnode.Prototype.Any, -1, func(ma datamodel.MapAssembler) {
				qp.MapEntry(ma, "id", qp.Int(int64(i)))
				for k, kid := range kids {
					qp.MapEntry(ma, "l"+string(rune('0'+k)), qp.Link(cidlink.Link{Cid: kid.c}))
				}
			})
			if err != nil {
				panic(err)
			}
			d := encCbor(n)
			nodes[i] = &dnode{c: mkCid(1, cid.DagCBOR, mh.SHA2_256, -1, d), data: d}
		}
		var store []Blk
		for _, n := range nodes {
			store = append(store, Blk{n.c, n.data})
		}
		for api := uint64(0); api <= 4; api++ {
			for _, dups := range []bool{true, false} {
				tc := &travCase{api: api, roots: []cid.Cid{nodes[0].c}, sel: selSpec{kind: 0}, opts: travOpts{dups: dups, plain: dups, ncbW: uint64(code % 4), ncbD: uint64((code / 4) % 4)}, store: store}
				emitTrav(c, tc, func(traces Val) bool { d, _, ok := traceStats(traces); return ok && d >= 3 })
				c.Count("small-scope:4-node-dag")
			}
		}
	}
}

func init() {
	register("c15", func(c *Ctx) {
		fixedCases(c)
		if c.Thorough {
			smallScope(c)
		}
		nDag := 30 * c.Scale
		apiNames := []string{"TraverseV1", "SelectiveWriter", "TraverseToFile", "SelectiveCar", "WriteCar", "history:faulty-SelectiveCar.Write-then-SelectiveCar", "history:faulty-WriteCar-then-WriteCar"}
		for a := 0; a < nDag; a++ {
			r := c.R.Fork()
			depth := 1 + r.Intn(5)
			nTop := 1
			if r.Chance(40) {
				nTop = 2 + r.Intn(2)
			}
			bigChance := 3
			if c.Thorough {
				bigChance = 8
			}
			g := genDag(r, depth, nTop, r.Chance(bigChance))
			if g.big {
				c.Count("dag:has-boundary-size-block")
			}
			var store []Blk
			for _, n := range g.nodes {
				store = append(store, Blk{n.c, n.data})
			}
			// distractors the walk must not pick up
			for i := r.Intn(3); i > 0; i-- {
				l := genLeaf(r, false)
				store = append(store, Blk{l.c, l.data})
			}
			for i := len(store) - 1; i > 0; i-- {
				j := r.Intn(i + 1)
				store[i], store[j] = store[j], store[i]
			}
			for api := uint64(0); api <= 6; api++ {
				for rep := 0; rep < 2; rep++ {
					if api >= 5 && rep > 0 {
						continue
					}
					tc := &travCase{api: api, opts: genTravOpts(r, api), store: store}
					top := g.tops[0]
					tc.sel = genSel(r, top, depth)
					switch api {
					case 0, 1, 2:
						tc.roots = []cid.Cid{top.c}
					case 3, 5:
						genDags(c, r, tc, g, depth)
					default:
						n := 1 + r.Intn(len(g.tops))
						if r.Chance(8) {
							n = 0
						}
						for i := 0; i < n; i++ {
							tc.roots = append(tc.roots, g.tops[i].c)
						}
						if n > 0 && r.Chance(15) {
							tc.roots = append(tc.roots, tc.roots[0]) // duplicate root
						}
					}
					if r.Chance(8) && len(store) > 1 { // a block is missing from the store
						var st2 []Blk
						drop := pick(r, g.nodes)
						for _, b := range store {
							if !b.Cid.Equals(drop.c) {
								st2 = append(st2, b)
							}
						}
						tc.store = st2
						c.Count("store:block-missing")
					}
					if r.Chance(8) && len(g.nodes) > 1 { // malformed stream: a block whose bytes are not what its CID names
						victim := pick(r, g.nodes)
						st2 := append([]Blk(nil), tc.store...)
						for i := range st2 {
							if st2[i].Cid.Equals(victim.c) {
								switch r.Intn(3) {
								case 0:
									st2[i].Data = r.Bytes(1 + r.Intn(40))
								case 1:
									st2[i].Data = st2[i].Data[:len(st2[i].Data)/2]
								default:
									st2[i].Data = append(append([]byte(nil), st2[i].Data...), 0)
								}
							}
						}
						tc.store = st2
						c.Count("store:block-corrupt")
					}
					emitTrav(c, tc, func(traces Val) bool {
						d, rp, ok := traceStats(traces)
						c.Count("api:" + apiNames[api])
						selNames := []string{"all-recursive", "depth-limited", "field-path", "match-root", "union-of-paths", "field-path-only"}
						if api == 3 || api == 5 {
							for _, x := range tc.sels {
								c.Count("sel:" + selNames[x.kind])
							}
							c.Count("dags:entries=" + string(rune('0'+len(tc.roots))))
						} else {
							c.Count("sel:" + selNames[tc.sel.kind])
						}
						if rp {
							c.Count("trace:repeated-loads")
						}
						if !ok {
							c.Count("trace:walk-failed")
						}
						if tc.ties() {
							c.Count("store:same-digest-two-cids")
						}
						if tc.opts.dups {
							c.Count("opt:link-visit-once-off")
						} else {
							c.Count("opt:link-visit-once-on")
						}
						if tc.opts.budget != 0 {
							c.Count("opt:link-budget")
						}
						if api == 3 || api == 5 {
							c.Count("callbacks:write=" + string(rune('0'+tc.opts.ncbW)))
							c.Count("callbacks:dump=" + string(rune('0'+tc.opts.ncbD)))
						}
						return ok && d >= 3
					})
				}
			}
		}
	})
}
