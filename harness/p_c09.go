package main

// C09 producer: the malformed-stream generator of DESIGN.md 3.5 (structure-aware mutation of valid
// CARv1 / CARv2 / index files, every truncation offset, byte corruptions, raw random) x option rows
// (default, limits exactly at / one below the real sizes, ZeroLengthSectionAsEOF) x every parsing
// entry point, each run in a child process (k_total.go).
//
// A case is NON-TRIVIAL when its input is not a pristine valid file under default options, i.e. it
// is a mutated / truncated / random input or a limit-derived option row.

import (
	"bytes"
	"encoding/binary"
	"strings"

	"github.com/ipfs/go-cid"
	carv2 "github.com/ipld/go-car/v2"
	"github.com/ipld/go-car/v2/index"
	"github.com/multiformats/go-multicodec"
	mh "github.com/multiformats/go-multihash"
)

type c09Row struct {
	zeof       bool
	maxH, maxS uint64
	hdr, sec   string // "", "exact", "over": how maxH / maxS relate to the base archive's real sizes
}

type c09Input struct {
	data  []byte
	class string // generator class (statistics)
	v2    bool
	valid bool // a pristine valid archive (limit expectations apply)
	dpad  uint64
	roots [][]byte
	keys  [][]byte
	isIdx bool // an index file rather than a CAR
	hasIndex bool // a CARv2 carrying an index
	allIdx bool // run every front end of the index generator, not a random one
	claim string // "hdr" | "inner-hdr" | "sec": a length prefix over the row's limit whose body is cut off or absent
	pre bool // (claim sec) a valid section precedes the claiming one
	implOnly bool // too costly for the extracted model: judged at implementation level only
	maxIsIdentity bool
}

type c09Base struct {
	blks    []Blk
	roots   []cid.Cid
	payload []byte
	lay     layout
	hdrLen  int // payload length of the header (without its varint)
	maxSec  int // largest section payload (cid + data)
	maxKey  []byte
	maxIsIdentity bool // the largest section carries an identity CID: the stores answer Get without reading it
}

func c09PutUvarint(v uint64) []byte {
	b := make([]byte, binary.MaxVarintLen64)
	return b[:binary.PutUvarint(b, v)]
}

// c09Splice replaces data[p:p+w] by repl.
func c09Splice(data []byte, p, w int, repl []byte) []byte {
	out := make([]byte, 0, len(data)-w+len(repl))
	out = append(out, data[:p]...)
	out = append(out, repl...)
	return append(out, data[p+w:]...)
}

func c09MakeBase(r *RNG) c09Base {
	nb := 1 + r.Intn(4)
	blks := genBlocks(r, nb, genOpts{identity: true, maxData: 40})
	roots := genRoots(r, blks, false)
	payload := refPayload(roots, blks)
	hdrTotal := len(refPayload(roots, nil))
	lay := payloadLayout(nil, payload, blks, hdrTotal)
	b := c09Base{blks: blks, roots: roots, payload: payload, lay: lay}
	hl, _ := binary.Uvarint(payload)
	b.hdrLen = int(hl)
	for _, x := range blks {
		if s := x.Cid.ByteLen() + len(x.Data); s > b.maxSec {
			b.maxSec = s
			b.maxKey = x.Cid.Bytes()
			b.maxIsIdentity = x.Cid.Prefix().MhType == mh.IDENTITY
		}
	}
	{
		// the stores look a key up by multihash and read the FIRST section carrying it: if another block
		// shares the largest block's multihash (same data under another codec: a shorter CID), Get may
		// legitimately never touch the largest section
		n := 0
		for _, x := range b.blks {
			if bytes.Equal(x.Cid.Hash(), mustCast(b.maxKey).Hash()) {
				n++
			}
		}
		if n > 1 {
			b.maxIsIdentity = true
		}
	}
	return b
}

func mustCast(b []byte) cid.Cid {
	c, err := cid.Cast(b)
	if err != nil {
		panic(err)
	}
	return c
}

func (b *c09Base) rootBytes() [][]byte {
	var out [][]byte
	for _, c := range b.roots {
		out = append(out, c.Bytes())
	}
	return out
}

func (b *c09Base) keys(r *RNG) [][]byte {
	out := [][]byte{b.maxKey} // first: the largest block (the stores' Get on it is what the section limit is about)
	for _, x := range b.blks {
		if !bytes.Equal(x.Cid.Bytes(), b.maxKey) {
			out = append(out, x.Cid.Bytes())
		}
	}
	absent := genBlock(r, genOpts{maxData: 8})
	out = append(out, absent.Cid.Bytes())
	out = append(out, mkCid(1, 0x55, mh.IDENTITY, -1, []byte("id")).Bytes())
	return out
}

// c09Wrap puts a payload into a CARv2 container; with an index when codec != 0.
func c09Wrap(payload []byte, dpad, ipad uint64, codec uint64) (file []byte, idxOff int) {
	var idx []byte
	if codec != 0 {
		if ix, err := carv2.GenerateIndex(bytes.NewReader(payload), carv2.UseIndexCodec(multicodec.Code(codec))); err == nil {
			var ib bytes.Buffer
			if _, err := index.WriteTo(ix, &ib); err == nil {
				idx = ib.Bytes()
			}
		}
	}
	var buf bytes.Buffer
	buf.Write(carv2.Pragma)
	h := carv2.NewHeader(uint64(len(payload))).WithDataPadding(dpad).WithIndexPadding(ipad)
	if idx == nil {
		h.IndexOffset = 0
	}
	h.WriteTo(&buf)
	buf.Write(make([]byte, dpad))
	buf.Write(payload)
	if idx != nil {
		buf.Write(make([]byte, ipad))
		idxOff = buf.Len()
		buf.Write(idx)
	}
	return buf.Bytes(), idxOff
}

// c09AmplifyPayload: the worst case of overlapping sections.  Every section is "length 6, identity CID
// whose digest is everything that follows" and starts on the first digest byte of the one before, so
// a walker that seeks by (length - cidLength) re-reads the rest of the file once per 7 bytes:
// cumulative allocation and time are quadratic in the input (known finding
// "section-shorter-than-its-cid"; theories/Alloc.v resume_sections_ok is the guard).
func c09AmplifyPayload(hdr []byte, total int) []byte {
	out := make([]byte, total)
	copy(out, hdr)
	const tail = 1 << 14 // keeps every digest length a minimal 3-byte varint
	for p := len(hdr); p+7+tail <= total; p += 7 {
		rem := total - (p + 7)
		out[p], out[p+1], out[p+2], out[p+3] = 6, 1, 0x55, 0
		out[p+4] = byte(rem&0x7f) | 0x80
		out[p+5] = byte((rem>>7)&0x7f) | 0x80
		out[p+6] = byte((rem >> 14) & 0x7f)
	}
	return out
}

// field offsets inside a marshalled index (after the codec varint)
type c09IdxFields struct{ counts, widths, dataLens []int }

func c09WalkIndex(ix []byte) (f c09IdxFields) {
	if len(ix) < 6 {
		return
	}
	mhIdx := ix[0] == 0x81
	pos := 2
	buckets := func(n int) {
		for i := 0; i < n && pos+12 <= len(ix); i++ {
			f.widths = append(f.widths, pos)
			f.dataLens = append(f.dataLens, pos+4)
			dl := binary.LittleEndian.Uint64(ix[pos+4:])
			pos += 12
			if dl > uint64(len(ix)-pos) {
				pos = len(ix)
				return
			}
			pos += int(dl)
		}
	}
	f.counts = append(f.counts, pos)
	n := int(int32(binary.LittleEndian.Uint32(ix[pos:])))
	pos += 4
	if !mhIdx {
		buckets(n)
		return
	}
	for i := 0; i < n && pos+12 <= len(ix); i++ {
		pos += 8
		f.counts = append(f.counts, pos)
		m := int(int32(binary.LittleEndian.Uint32(ix[pos:])))
		pos += 4
		buckets(m)
	}
	return
}

func c09LE(width int, v uint64) []byte {
	b := make([]byte, 8)
	binary.LittleEndian.PutUint64(b, v)
	return b[:width]
}

// c09IndexMutations: count in {-1,0,2^31-1}, width in {0,7,8,2^25,2^25+1}, dataLen in
// {0, +-1 (not a multiple of width), 2^31, 2^40, 2^62, 2^63-1, 2^63}, for every such field.
func c09IndexMutations(ix []byte) (out [][]byte) {
	f := c09WalkIndex(ix)
	for _, p := range f.counts {
		for _, v := range []uint64{0xffffffff, 0, 0x7fffffff, 2} {
			out = append(out, c09Splice(ix, p, 4, c09LE(4, v)))
		}
	}
	for _, p := range f.widths {
		for _, v := range []uint64{0, 7, 8, 1 << 25, 1<<25 + 1} {
			out = append(out, c09Splice(ix, p, 4, c09LE(4, v)))
		}
	}
	for _, p := range f.dataLens {
		cur := binary.LittleEndian.Uint64(ix[p:])
		for _, v := range []uint64{0, cur + 1, cur - 1, 1 << 31, 1 << 40, 1 << 62, 1<<63 - 1, 1 << 63} {
			out = append(out, c09Splice(ix, p, 8, c09LE(8, v)))
		}
	}
	return
}

// incl. the values only a 64-bit decoder accepts (go-varint stops at 63 bits): read as int64 they are small
// negative numbers, -10 being exactly "seek back over the ten-byte prefix"
var c09VarintValues = []uint64{0, 1 << 31, 1<<63 - 1, 1 << 63, 1 << 62, 1<<25 + 1, 1<<63 + 5, 1<<64 - 11, 1<<64 - 10, 1<<64 - 1}

// c09PayloadMutations: every length varint (header and sections) set to the hostile values, plus
// len-1, len+1 and a non-minimal encoding; digest-length varints of section CIDs set to go-cid's
// limit and beyond.
func c09PayloadMutations(b *c09Base) (out [][]byte, classes []string) {
	type site struct{ pos, width int; cur uint64 }
	sites := []site{{0, uvarintLen(uint64(b.hdrLen)), uint64(b.hdrLen)}}
	for i := range b.blks {
		cur := uint64(b.lay.secEnd[i] - b.lay.cidStart[i])
		sites = append(sites, site{b.lay.secStart[i], b.lay.cidStart[i] - b.lay.secStart[i], cur})
	}
	for _, s := range sites {
		vals := append([]uint64{s.cur - 1, s.cur + 1}, c09VarintValues...)
		for _, v := range vals {
			out = append(out, c09Splice(b.payload, s.pos, s.width, c09PutUvarint(v)))
			classes = append(classes, "mut:length-varint")
		}
		// non-minimal: same value with a padding continuation byte
		enc := c09PutUvarint(s.cur)
		enc[len(enc)-1] |= 0x80
		enc = append(enc, 0x00)
		out = append(out, c09Splice(b.payload, s.pos, s.width, enc))
		classes = append(classes, "mut:length-varint-nonminimal")
		// the same value padded to the full ten bytes
		enc10 := c09PutUvarint(s.cur)
		enc10[len(enc10)-1] |= 0x80
		for len(enc10) < 9 {
			enc10 = append(enc10, 0x80)
		}
		enc10 = append(enc10, 0x00)
		out = append(out, c09Splice(b.payload, s.pos, s.width, enc10))
		classes = append(classes, "mut:length-varint-nonminimal")
	}
	// the CBOR header: the roots array head (a2 65 "roots" <head>) replaced by heads declaring 2^31-1, 2^32,
	// 2^62, 2^64-1 elements and an indefinite-length array; the frame length is kept consistent
	hv := uvarintLen(uint64(b.hdrLen))
	if b.hdrLen > 8 && b.payload[hv+7]&0xe0 == 0x80 && b.payload[hv+7]&0x1f < 24 {
		for _, head := range [][]byte{{0x9a, 0x7f, 0xff, 0xff, 0xff}, {0x9b, 0, 0, 0, 1, 0, 0, 0, 0},
			{0x9b, 0x3f, 0xff, 0xff, 0xff, 0xff, 0xff, 0xff, 0xff}, {0x9b, 0xff, 0xff, 0xff, 0xff, 0xff, 0xff, 0xff, 0xff}, {0x9f}} {
			hb := c09Splice(b.payload[hv:hv+b.hdrLen], 7, 1, head)
			m := append(c09PutUvarint(uint64(len(hb))), hb...)
			m = append(m, b.payload[hv+b.hdrLen:]...)
			out = append(out, m)
			classes = append(classes, "mut:cbor-array-length")
		}
	}
	for i, x := range b.blks {
		if x.Cid.Version() == 0 {
			continue
		}
		p := b.lay.digStart[i] - 1 // single-byte digest length (all generated digests are < 128 bytes)
		if b.payload[p] >= 0x80 {
			continue
		}
		for _, v := range []uint64{1 << 25, 1<<25 + 1, 1 << 31, 1 << 62, 127} {
			out = append(out, c09Splice(b.payload, p, 1, c09PutUvarint(v)))
			classes = append(classes, "mut:cid-digest-length")
		}
	}
	return
}

var c09V2FieldValues = []uint64{0, 50, 51, 1 << 31, 1<<63 - 1, 1 << 63, 1<<64 - 1}

// c09OverlapPayload: sections whose declared length is shorter than their CID, so that walkers that
// seek by (length - cidLength) move BACKWARDS and re-read the same bytes (LoadIndex, Resume).
func c09OverlapPayload(r *RNG, b *c09Base, n int) []byte {
	out := append([]byte(nil), b.payload[:b.lay.hdrEnd]...)
	for i := 0; i < n; i++ {
		// length 2, then an identity CID with a long digest: 01 55 00 <len> <digest...>
		dl := 40 + r.Intn(60)
		out = append(out, 0x02, 0x01, 0x55, 0x00, byte(dl))
		out = append(out, r.Bytes(dl)...)
	}
	return out
}

func c09Rows(r *RNG, b *c09Base) []c09Row {
	h, s := uint64(b.hdrLen), uint64(b.maxSec)
	return []c09Row{
		{false, h, s, "exact", "exact"},
		{true, h, s, "exact", "exact"},
		{r.Bool(), h - 1, s, "over", "exact"},
		{r.Bool(), h, s - 1, "exact", "over"},
		{r.Bool(), h + 1, s + 1, "", ""},
		// both limits small but above every real size: nothing may be refused
		{r.Bool(), 1 << 10, 4 << 10, "exact", "exact"},
	}
}

var c09DefaultRow = c09Row{false, 32 << 20, 8 << 20, "", ""}

// which too-large answer the property demands from entry e for a VALID archive under row (none: no
// expectation for this entry)
func c09ExpectFor(j *c09Job, in *c09Input, row c09Row) c09Expect {
	e := j.Entry
	if in.claim != "" {
		hdr := false
		switch in.claim {
		case "hdr": // the very first length prefix of the file
			switch e {
			case c09EBr, c09ECarv1, c09EVersion, c09EBrSkip, c09EReader, c09ELoadIndex, c09ERobs, c09EStorage, c09EInspect,
				c09EReplaceRoots, c09EExtract, c09EResume, c09EResumeHuge:
				hdr = true
			}
		case "inner-hdr": // the payload header of a CARv2
			switch e {
			case c09EBr, c09EBrSkip, c09EReader, c09ELoadIndex, c09ERobs, c09EStorage, c09EInspect, c09EReplaceRoots,
				c09EResume, c09EResumeHuge:
				hdr = true
			}
		case "sec":
			switch e {
			case c09EBr, c09EInspect:
				return c09Expect{"over", "sec2big"}
			case c09ECarv1:
				if !in.v2 {
					return c09Expect{"over", "sec2big"}
				}
			case c09EBrSkip:
				if !(j.Flavour == 2 && !in.v2 && in.pre) {
					return c09Expect{"over", "sec2big"}
				}
			}
		}
		if hdr {
			return c09Expect{"over", "hdr2big"}
		}
		return c09Expect{kind: "none"}
	}
	if e == c09ELoadIndex && in.v2 && j.Flavour == 1 {
		// LoadIndex over a plain io.Reader mis-positions itself on a CARv2 (DESIGN.md section 6 #2, property C03):
		// what it then parses is not the header, so no limit expectation is attached
		return c09Expect{kind: "none"}
	}
	if e == c09ELoadIndex && in.v2 && len(j.Choice) > 0 && j.Choice[0]%4 == 2 {
		// ReadOrGenerateIndex on a CARv2 that carries an index decodes that index and never parses the payload
		return c09Expect{kind: "none"}
	}
	if e == c09ERobs && in.v2 && in.hasIndex && row.hdr == "over" {
		// NewReadOnly decodes the embedded index and never parses the payload header; Get goes by offset
		return c09Expect{kind: "none"}
	}
	if e == c09EBrSkip && !in.v2 && j.Flavour == 2 {
		// Reader.DataReader() of a CARv1 cannot report its size: SkipNext answers with an error (it used to
		// panic, notes/fixes/C09-offset-reader-seekend.patch) before it gets to the section in question
		return c09Expect{kind: "none"}
	}
	if !in.valid || (row.hdr == "" && row.sec == "") {
		return c09Expect{kind: "none"}
	}
	readsHdr := false
	switch e {
	case c09EBr, c09EBrSkip, c09EReader, c09ELoadIndex, c09ERobs, c09EStorage, c09EInspect, c09EReplaceRoots, c09EResume, c09EResumeHuge:
		readsHdr = true
	case c09ECarv1, c09EVersion, c09EExtract:
		readsHdr = !in.v2 // on a CARv2 these only see the 10-byte pragma
	}
	buffersSec := false
	switch e {
	case c09EBr, c09ECarv1, c09EBrSkip, c09EInspect, c09ERobs, c09EStorage:
		buffersSec = true
	}
	if e == c09ECarv1 && in.v2 {
		buffersSec = false
	}
	if (e == c09ERobs || e == c09EStorage) && in.maxIsIdentity {
		buffersSec = false
	}
	switch {
	case row.hdr == "over" && readsHdr:
		return c09Expect{"over", "hdr2big"}
	case row.hdr == "over":
		return c09Expect{kind: "none"}
	case row.sec == "over" && buffersSec:
		return c09Expect{"over", "sec2big"}
	case row.sec == "over":
		return c09Expect{kind: "none"}
	}
	if e == c09ERoot || e == c09ERootLoad || e == c09EV2Hdr || e == c09EIdxRead {
		return c09Expect{kind: "none"}
	}
	return c09Expect{kind: "exact"}
}

var c09CarEntries = []int{c09EBr, c09ECarv1, c09ERoot, c09ERootLoad, c09EVersion, c09EResume, c09EBrSkip, c09EReader,
	c09ELoadIndex, c09ERobs, c09EStorage, c09EInspect, c09EReplaceRoots, c09EExtract}

type c09Planned struct {
	job    c09Job
	expect c09Expect
	class  string
	trivial bool
}

// c09ResumeTruncTarget: where Resume would truncate the file to (CARv2 with a readable header whose
// data offset matches); the model materialises the zero fill, so far targets go to the
// implementation-level entry.
func c09ResumeHuge(in []byte, dpad uint64) bool {
	if len(in) < 51 {
		return false
	}
	doff := binary.LittleEndian.Uint64(in[27:])
	dsize := binary.LittleEndian.Uint64(in[35:])
	if doff != 51+dpad {
		return false
	}
	return doff+dsize > uint64(len(in))+65536
}

// largest offset Seek accepts: files of the scratch file system (probed once), bytes.Reader
var c09FileMaxSeek uint64

func c09Plan(r *RNG, plan *[]c09Planned, in *c09Input, row c09Row, entries []int) {
	for _, e := range entries {
		j := c09Job{Entry: e, Zeof: row.zeof, MaxH: row.maxH, MaxS: row.maxS, In: in.data, MaxSeek: memMaxSeek, ImplOnly: in.implOnly}
		if e == c09EReplaceRoots || e == c09EExtract {
			j.MaxSeek = c09FileMaxSeek
		}
		switch e {
		case c09EBr:
			j.Trusted = r.Chance(60)
			j.Flavour = r.Intn(2)
		case c09ECarv1, c09ERoot, c09ERootLoad, c09EVersion, c09ELoadIndex, c09EIdxRead, c09EIdxReadBig, c09EV2Hdr:
			j.Flavour = r.Intn(2)
		case c09EBrSkip:
			j.Flavour = r.Intn(3)
			j.Choice = r.Bytes(1 + r.Intn(4))
		}
		switch e {
		case c09ERoot, c09ERootLoad:
			j.MaxH, j.MaxS, j.Zeof = c09RootLimit, c09RootLimit, false
		case c09EInspect, c09ELoadIndex, c09EExtract:
			j.Choice = []byte{byte(r.Intn(4))}
		case c09ERobs, c09EStorage:
			j.Keys = in.keys
		case c09EReplaceRoots:
			j.Roots = in.roots
		case c09EResume, c09EResumeHuge:
			if len(in.data) == 0 {
				continue
			}
			v1 := uint64(0)
			if !in.v2 {
				v1 = 1
			}
			d := defaultWOpts
			z := uint64(0)
			if row.zeof {
				z = 1
			}
			j.W = []uint64{in.dpad, 0, d.codec, z, d.maxCid, 0, 0, 0, v1, row.maxH, row.maxS}
			j.Roots = in.roots
			if e == c09EResume && v1 == 0 && c09ResumeHuge(in.data, in.dpad) {
				j.Entry = c09EResumeHuge
			}
		}
		ex := c09ExpectFor(&j, in, row)
		triv := in.valid && row.hdr == "" && row.sec == ""
		*plan = append(*plan, c09Planned{job: j, expect: ex, class: in.class, trivial: triv})
		if (in.claim != "" || in.allIdx) && j.Entry == c09ELoadIndex {
			// every front end of the index generator: GenerateIndex, LoadIndex, ReadOrGenerateIndex, GenerateIndex+options
			for v := byte(1); v < 4; v++ {
				j2 := j
				j2.Choice = []byte{(j.Choice[0] + v) % 4}
				*plan = append(*plan, c09Planned{job: j2, expect: c09ExpectFor(&j2, in, row), class: in.class, trivial: triv})
			}
		}
	}
}

func c09Produce(c *Ctx) {
	var plan []c09Planned
	c09FileMaxSeek = probeMaxSeek(c.Work)
	nBase := 2 * c.Scale
	truncStride := 1
	corrupt := 48
	for a := 0; a < nBase; a++ {
		r := c.R.Fork()
		b := c09MakeBase(r)
		keys := b.keys(r)
		roots := b.rootBytes()
		dpad := uint64(pick(r, []int{0, 0, 1, 7}))
		codec := uint64(pick(r, []int{0x0400, 0x0401, 0x0401, 0}))
		ipad := uint64(pick(r, []int{0, 0, 3}))
		v2file, idxOff := c09Wrap(b.payload, dpad, ipad, codec)
		mk := func(data []byte, class string, v2, valid bool) *c09Input {
			return &c09Input{data: data, class: class, v2: v2, valid: valid, dpad: dpad, roots: roots, keys: keys, maxIsIdentity: b.maxIsIdentity}
		}
		v1in := mk(b.payload, "valid-v1", false, true)
		v2in := mk(v2file, "valid-v2", true, true)
		v2in.hasIndex = idxOff > 0
		v1in.dpad = 0

		// pristine archives: default row and the limit-derived rows
		for _, in := range []*c09Input{v1in, v2in} {
			c09Plan(r, &plan, in, c09DefaultRow, c09CarEntries)
			for _, row := range c09Rows(r, &b) {
				c09Plan(r, &plan, in, row, c09CarEntries)
			}
		}
		rowFor := func() c09Row {
			switch r.Intn(10) {
			case 0:
				return c09Row{r.Bool(), uint64(b.hdrLen), uint64(b.maxSec), "", ""}
			case 1:
				return c09Row{r.Bool(), uint64(b.hdrLen) - 1, uint64(b.maxSec) - 1, "", ""}
			case 2, 3:
				return c09Row{true, 32 << 20, 8 << 20, "", ""}
			case 4, 5:
				return c09Row{r.Bool(), 1 << 10, 4 << 10, "", ""}
			}
			return c09DefaultRow
		}
		// every truncation offset
		for k := 0; k < len(b.payload); k += truncStride {
			in := mk(b.payload[:k], "trunc-v1", false, false)
			in.dpad = 0
			c09Plan(r, &plan, in, rowFor(), c09CarEntries)
		}
		for k := 0; k < len(v2file); k += truncStride {
			c09Plan(r, &plan, mk(v2file[:k], "trunc-v2", true, false), rowFor(), c09CarEntries)
		}
		// length varints and CID digest lengths, bare and re-wrapped in a consistent CARv2 container
		muts, classes := c09PayloadMutations(&b)
		for i, m := range muts {
			in := mk(m, classes[i], false, false)
			in.dpad = 0
			in.allIdx = strings.HasPrefix(classes[i], "mut:length-varint")
			c09Plan(r, &plan, in, rowFor(), c09CarEntries)
			if r.Chance(50) {
				w, _ := c09Wrap(m, dpad, 0, 0)
				c09Plan(r, &plan, mk(w, classes[i]+"-in-v2", true, false), rowFor(), c09CarEntries)
			}
		}
		// CARv2 header fields
		for _, off := range []int{11, 19, 27, 35, 43} {
			for _, v := range c09V2FieldValues {
				if off < 27 && r.Intn(3) != 0 {
					continue // characteristics: uninterpreted bits, sampled
				}
				m := c09Splice(v2file, off, 8, c09LE(8, v))
				c09Plan(r, &plan, mk(m, "mut:v2-header-field", true, false), rowFor(), c09CarEntries)
				c09Plan(r, &plan, mk(m[11:], "mut:v2-header-field", true, false), c09DefaultRow, []int{c09EV2Hdr})
			}
		}
		for k := 0; k <= 41; k++ {
			c09Plan(r, &plan, mk(v2file[11:11+k], "trunc-v2-header", true, false), c09DefaultRow, []int{c09EV2Hdr})
		}
		// the index: stand-alone through index.ReadFrom, embedded through everything that loads it
		if idxOff > 0 {
			ix := v2file[idxOff:]
			ixIn := mk(ix, "valid-index", false, false)
			ixIn.isIdx = true
			c09Plan(r, &plan, ixIn, c09DefaultRow, []int{c09EIdxRead})
			for k := 0; k < len(ix); k++ {
				c09Plan(r, &plan, mk(ix[:k], "trunc-index", false, false), c09DefaultRow, []int{c09EIdxRead})
			}
			for _, m := range c09IndexMutations(ix) {
				c09Plan(r, &plan, mk(m, "mut:index-field", false, false), c09DefaultRow, []int{c09EIdxRead})
				emb := append(append([]byte(nil), v2file[:idxOff]...), m...)
				c09Plan(r, &plan, mk(emb, "mut:index-field-in-v2", true, false), rowFor(),
					[]int{c09EReader, c09ELoadIndex, c09ERobs, c09EStorage, c09EInspect})
			}
			for t := 0; t < corrupt; t++ {
				m := append([]byte(nil), ix...)
				m[r.Intn(len(m))] ^= pick(r, []byte{0x01, 0x80, 0xff, 0x7f})
				c09Plan(r, &plan, mk(m, "corrupt-index", false, false), c09DefaultRow, []int{c09EIdxRead})
			}
		}
		// index buckets larger than the reader's first chunk (1 MiB): the growth path of readBucket
		if a == 0 {
			bigIx := func(declared, present int) []byte {
				b := []byte{0x80, 0x08}
				b = append(b, c09LE(4, 1)...)
				b = append(b, c09LE(4, 40)...)
				b = append(b, c09LE(8, uint64(declared))...)
				return append(b, r.Bytes(present)...)
			}
			mib := 1 << 20
			for i, dp := range [][2]int{{mib + 40, mib + 40}, {mib + 40, mib + 1}, {mib, mib}, {3*mib + 80, 3*mib + 80},
				{5 * mib, 3 * mib}, {1 << 40, 2*mib + 7}} {
				e := c09EIdxReadBig
				if i < 2 || c.Thorough {
					e = c09EIdxRead // also replayed through the model
				}
				c09Plan(r, &plan, mk(bigIx(dp[0], dp[1]), "big-index-bucket", false, false), c09DefaultRow, []int{e})
			}
		}
		// hostile (record width, bucket length) pairs around the bucket reader's 1 MiB chunk, with little or no
		// data behind them: stand-alone and as the index of a CARv2
		if a == 0 {
			mib := uint64(1 << 20)
			for _, width := range []uint64{mib - 1, mib, mib + 1, 2 * mib, 1<<25 - 1, 1 << 25} {
				for _, dlen := range []uint64{mib + 1, width, 2 * width, 3*mib + 5} {
					if dlen <= mib {
						continue
					}
					for _, present := range []int{0, 50} {
						for _, codec := range []byte{0x80, 0x81} {
							ix := []byte{codec, 0x08}
							ix = append(ix, c09LE(4, 1)...)
							if codec == 0x81 {
								ix = append(ix, c09LE(8, 0x12)...)
								ix = append(ix, c09LE(4, 1)...)
							}
							ix = append(ix, c09LE(4, width)...)
							ix = append(ix, c09LE(8, dlen)...)
							ix = append(ix, r.Bytes(present)...)
							c09Plan(r, &plan, mk(ix, "index-width-around-chunk", false, false), c09DefaultRow, []int{c09EIdxRead})
							if idxOff > 0 && present == 50 && codec == 0x81 && dlen == 2*width {
								emb := append(append([]byte(nil), v2file[:idxOff]...), ix...)
								c09Plan(r, &plan, mk(emb, "index-width-around-chunk-in-v2", true, false), c09DefaultRow,
									[]int{c09EReader, c09ELoadIndex, c09ERobs, c09EStorage})
							}
						}
					}
				}
			}
		}
		// byte corruptions anywhere
		for t := 0; t < corrupt; t++ {
			src, v2 := b.payload, false
			if r.Bool() {
				src, v2 = v2file, true
			}
			m := append([]byte(nil), src...)
			m[r.Intn(len(m))] ^= pick(r, []byte{0x01, 0x80, 0xff, 0x7f})
			in := mk(m, "corrupt-byte", v2, false)
			if !v2 {
				in.dpad = 0
			}
			c09Plan(r, &plan, in, rowFor(), c09CarEntries)
		}
		// a section shorter than the (hashed, hence looked-up) CID it starts with, and that CID is the key the
		// stores are asked for: the size-only lookup derives a negative block length
		for _, sl := range []uint64{1, 2, 35} {
			for _, follow := range []bool{false, true} {
				data := r.Bytes(4 + r.Intn(6))
				kc := mkCid(1, 0x55, mh.SHA2_256, -1, data)
				body := append([]byte(nil), b.payload[:b.lay.hdrEnd]...)
				body = append(body, c09PutUvarint(sl)...)
				body = append(body, kc.Bytes()...)
				body = append(body, data...)
				if follow {
					body = append(body, b.payload[b.lay.hdrEnd:]...)
				}
				in := mk(body, "short-section-keyed", false, false)
				in.dpad, in.allIdx = 0, true
				in.keys = append([][]byte{kc.Bytes()}, keys...)
				c09Plan(r, &plan, in, rowFor(), c09CarEntries)
				w, _ := c09Wrap(body, dpad, 0, 0)
				in2 := mk(w, "short-section-keyed-in-v2", true, false)
				in2.keys = in.keys
				c09Plan(r, &plan, in2, rowFor(), c09CarEntries)
			}
		}
		// sections that overlap (declared length shorter than the CID)
		ov := c09OverlapPayload(r, &b, 3+r.Intn(6))
		ovIn := mk(ov, "overlap-sections", false, false)
		ovIn.dpad = 0
		c09Plan(r, &plan, ovIn, rowFor(), c09CarEntries)
		w, _ := c09Wrap(ov, dpad, 0, 0)
		c09Plan(r, &plan, mk(w, "overlap-sections-in-v2", true, false), rowFor(), c09CarEntries)
		// the quadratic case of the same shape (one per run: 64 KiB cost the walkers ~0.5 GiB)
		if a == 0 {
			amp := mk(c09AmplifyPayload(b.payload[:b.lay.hdrEnd], 64<<10), "overlap-amplification", false, false)
			amp.dpad = 0
			amp.implOnly = true
			c09Plan(r, &plan, amp, c09DefaultRow, []int{c09EBr, c09ERoot, c09EBrSkip, c09EReader, c09ELoadIndex, c09ERobs,
				c09EStorage, c09EInspect, c09EResumeHuge})
		}
		// length prefixes that claim more than the limit while the body is cut off or absent: the answer must
		// be the too-large error, with nothing allocated for the claim
		for _, lim := range [][2]uint64{{32 << 20, 8 << 20}, {1 << 10, 4 << 10}, {uint64(b.hdrLen), uint64(b.maxSec)}} {
			row := c09Row{r.Bool(), lim[0], lim[1], "", ""}
			claims := func(limit uint64) []uint64 {
				var out []uint64
				for _, l := range []uint64{limit + 1, 2 * limit, 24 << 20, 1 << 31} {
					if l > limit {
						out = append(out, l)
					}
				}
				return out
			}
			tails := [][]byte{nil, r.Bytes(3)}
			first := b.payload[:b.lay.secEnd[0]] // header and the first section
			for _, l := range claims(lim[0]) {
				for _, tail := range tails {
					body := append(c09PutUvarint(l), tail...)
					in := mk(body, "claim:header", false, false)
					in.dpad, in.claim = 0, "hdr"
					c09Plan(r, &plan, in, row, c09CarEntries)
					w, _ := c09Wrap(body, dpad, 0, 0)
					in2 := mk(w, "claim:inner-header", true, false)
					in2.claim = "inner-hdr"
					c09Plan(r, &plan, in2, row, c09CarEntries)
				}
			}
			for _, l := range claims(lim[1]) {
				for _, tail := range tails {
					for _, pre := range []bool{false, true} {
						base := b.payload[:b.lay.hdrEnd]
						if pre {
							base = first
						}
						if uint64(b.hdrLen) > lim[0] || (pre && uint64(b.lay.secEnd[0]-b.lay.cidStart[0]) > lim[1]) {
							continue // the honest part must fit the limits
						}
						body := append(append(append([]byte(nil), base...), c09PutUvarint(l)...), tail...)
						in := mk(body, "claim:section", false, false)
						in.dpad, in.claim, in.pre = 0, "sec", pre
						c09Plan(r, &plan, in, row, c09CarEntries)
						w, _ := c09Wrap(body, dpad, 0, 0)
						in2 := mk(w, "claim:section-in-v2", true, false)
						in2.claim, in2.pre = "sec", pre
						c09Plan(r, &plan, in2, row, c09CarEntries)
					}
				}
			}
		}
		// raw random, with and without a plausible start
		for t := 0; t < 12; t++ {
			raw := r.Bytes(r.Intn(120))
			switch r.Intn(4) {
			case 0:
				raw = append(append([]byte(nil), carv2.Pragma...), raw...)
			case 1:
				raw = append(append([]byte(nil), b.payload[:b.lay.hdrEnd]...), raw...)
			}
			in := mk(raw, "raw-random", false, false)
			in.dpad = 0
			c09Plan(r, &plan, in, rowFor(), c09CarEntries)
			c09Plan(r, &plan, in, c09DefaultRow, []int{c09EIdxRead, c09EV2Hdr})
			ix := append([]byte{byte(0x80 + r.Intn(2)), 0x08}, r.Bytes(r.Intn(60))...)
			c09Plan(r, &plan, mk(ix, "raw-random-index", false, false), c09DefaultRow, []int{c09EIdxRead})
		}
	}
	c09SmallScope(c, &plan)
	c09Execute(c, plan)
}

// c09SmallScope: EVERY string of up to 2 (thorough: 3) bytes over a 16-letter alphabet of structurally
// meaningful bytes, on its own, behind a valid header, behind the CARv2 pragma and behind each index codec.
func c09SmallScope(c *Ctx, plan *[]c09Planned) {
	r := c.R.Fork()
	alphabet := []byte{0x00, 0x01, 0x02, 0x04, 0x08, 0x0a, 0x12, 0x20, 0x55, 0x70, 0x7f, 0x80, 0x81, 0xa1, 0xa2, 0xff}
	maxLen := 2
	if c.Thorough {
		maxLen = 3
	}
	var strs [][]byte
	var gen func(prefix []byte)
	gen = func(prefix []byte) {
		strs = append(strs, append([]byte(nil), prefix...))
		if len(prefix) == maxLen {
			return
		}
		for _, a := range alphabet {
			gen(append(prefix, a))
		}
	}
	gen(nil)
	b := c09MakeBase(r)
	hdr := b.payload[:b.lay.hdrEnd]
	mk := func(data []byte, class string, v2 bool) *c09Input {
		return &c09Input{data: data, class: class, v2: v2, roots: b.rootBytes(), keys: b.keys(r)}
	}
	cat := func(a, b []byte) []byte { return append(append([]byte(nil), a...), b...) }
	for _, t := range strs {
		c09Plan(r, plan, mk(t, "small-scope:bare", false), c09DefaultRow, append([]int{c09EV2Hdr, c09EIdxRead}, c09CarEntries...))
		row := c09DefaultRow
		row.zeof = len(t)%2 == 1
		c09Plan(r, plan, mk(cat(hdr, t), "small-scope:after-header", false), row, c09CarEntries)
		c09Plan(r, plan, mk(cat(carv2.Pragma, t), "small-scope:after-pragma", true), row, c09CarEntries)
		c09Plan(r, plan, mk(cat([]byte{0x80, 0x08}, t), "small-scope:index-sorted", false), c09DefaultRow, []int{c09EIdxRead})
		c09Plan(r, plan, mk(cat([]byte{0x81, 0x08}, t), "small-scope:index-mh-sorted", false), c09DefaultRow, []int{c09EIdxRead})
	}
}

func c09Execute(c *Ctx, plan []c09Planned) {
	jobs := make([]c09Job, len(plan))
	for i := range plan {
		plan[i].job.ID = i
		jobs[i] = plan[i].job
	}
	res := c09RunAll(c, jobs)
	for i := range plan {
		p := &plan[i]
		c.Count("input:" + p.class)
		c.Count("entry:" + c09EntryNames[p.job.Entry])
		out := res[i].Out
		c.Count("outcome:" + out)
		if out == "PANIC" || out == "KILLED" || out == "TIMEOUT" {
			c.Count("detail:" + c09EntryNames[p.job.Entry] + ":" + res[i].Detail)
		}
		if p.expect.kind != "none" && p.expect.kind != "" {
			c.Count("limit-row:" + p.expect.kind + p.expect.cls)
		}
		c.Emit("total", c09InputVal(&p.job, p.expect, res[i].Alloc), c09ObsVal(&p.job, p.expect, res[i]), !p.trivial)
	}
}

func init() {
	register("c09", c09Produce)
}

// ---- corpus: theorem Examples, witnesses of the repaired defects, the known finding ---------------
// `harness -prop c09corpus` prints them; corpus/C09/*.case are those lines (re-run on every check).
func c09Corpus(c *Ctx) {
	var plan []c09Planned
	c09FileMaxSeek = probeMaxSeek(c.Work)
	add := func(class string, j c09Job, e c09Expect) {
		plan = append(plan, c09Planned{job: j, expect: e, class: class})
	}
	idAB := mkCid(1, 0x55, mh.IDENTITY, -1, []byte("ab"))
	idC := mkCid(1, 0x71, mh.IDENTITY, -1, []byte("c"))
	exBlks := []Blk{{idAB, []byte("ab")}, {idC, []byte("c")}}
	exFile := refPayload([]cid.Cid{idAB}, exBlks) // = TotalMain.c09_file: header 27 bytes, sections 8 and 6
	hdrOnly := refPayload([]cid.Cid{idAB}, nil)
	def := c09DefaultRow
	// proofs/TotalMain.v c09_ex_exact / c09_ex_over_h / c09_ex_over_s
	add("example:exact", c09Job{Entry: c09EBr, MaxH: 27, MaxS: 8, In: exFile}, c09Expect{kind: "exact"})
	add("example:over-h", c09Job{Entry: c09EBr, MaxH: 26, MaxS: 8, In: exFile}, c09Expect{"over", "hdr2big"})
	add("example:over-s", c09Job{Entry: c09EBr, MaxH: 27, MaxS: 7, In: exFile}, c09Expect{"over", "sec2big"})
	// c09_ex_hostile_section
	add("example:hostile-section", c09Job{Entry: c09EBr, MaxH: def.maxH, MaxS: def.maxS,
		In: append(append([]byte(nil), hdrOnly...), c09PutUvarint(1<<62)...)}, c09Expect{kind: "none"})
	add("example:hostile-header", c09Job{Entry: c09EBr, MaxH: def.maxH, MaxS: def.maxS, In: c09PutUvarint(1 << 31)}, c09Expect{kind: "none"})
	// c09_ex_index
	ixHead := func(dlen uint64) []byte {
		b := []byte{0x80, 0x08}
		b = append(b, c09LE(4, 1)...)
		b = append(b, c09LE(4, 9)...)
		return append(b, c09LE(8, dlen)...)
	}
	add("example:index-declares-2^40", c09Job{Entry: c09EIdxRead, MaxH: def.maxH, MaxS: def.maxS, In: append(ixHead(1<<40), 1, 2, 3)}, c09Expect{kind: "none"})
	add("example:index-wellformed", c09Job{Entry: c09EIdxRead, MaxH: def.maxH, MaxS: def.maxS, In: append(ixHead(9), make([]byte, 9)...)}, c09Expect{kind: "none"})
	// the 18-byte witness of the index pre-allocation defect (TotalIndex.idx_prealloc_witness), and 2^31
	add("witness:index-prealloc-18-bytes", c09Job{Entry: c09EIdxRead, MaxH: def.maxH, MaxS: def.maxS,
		In: []byte{0x80, 0x08, 1, 0, 0, 0, 8, 0, 0, 0, 0xff, 0xff, 0xff, 0xff, 0xff, 0xff, 0xff, 0x7f}}, c09Expect{kind: "none"})
	add("witness:index-prealloc-2GiB", c09Job{Entry: c09EIdxRead, MaxH: def.maxH, MaxS: def.maxS, In: append(ixHead(1<<31), 7)}, c09Expect{kind: "none"})
	// SkipNext on a BlockReader over Reader.DataReader() of a CARv1 (offsetReadSeeker.Seek(SeekEnd))
	add("witness:skipnext-on-datareader-v1", c09Job{Entry: c09EBrSkip, MaxH: def.maxH, MaxS: def.maxS, Flavour: 2, Choice: []byte{1}, In: exFile}, c09Expect{kind: "none"})
	// StorageCar.Get of a section over MaxAllowedSectionSize
	add("witness:storage-get-over-limit", c09Job{Entry: c09EStorage, MaxH: 27, MaxS: 7, In: exFile,
		Keys: [][]byte{idAB.Bytes(), idC.Bytes()}}, c09Expect{kind: "none"})
	shaData := []byte("0123456789")
	sha := Blk{mkCid(1, 0x55, mh.SHA2_256, -1, shaData), shaData}
	shaFile := refPayload([]cid.Cid{sha.Cid}, []Blk{sha})
	hl, _ := binary.Uvarint(shaFile)
	add("witness:storage-get-over-limit", c09Job{Entry: c09EStorage, MaxH: hl, MaxS: uint64(sha.Cid.ByteLen()+len(shaData)) - 1, In: shaFile,
		Keys: [][]byte{sha.Cid.Bytes()}}, c09Expect{"over", "sec2big"})
	// known finding: sections shorter than their CID, 64 KiB (implementation level: the extracted model would
	// need minutes for 7000 overlapping CIDs)
	add("known:section-shorter-than-its-cid", c09Job{Entry: c09ERobs, MaxH: def.maxH, MaxS: def.maxS, ImplOnly: true,
		In: c09AmplifyPayload(hdrOnly, 64<<10), Keys: [][]byte{idAB.Bytes()}}, c09Expect{kind: "none"})
	// regression: Resume's version probe used to read the first header under the default limit (TotalMain.probe_file;
	// repaired: notes/fixes/C09-resume-version-probe-limit.patch)
	add("fixed:resume-first-header-over-limit", c09Job{Entry: c09EResume, MaxH: 1 << 10, MaxS: 8 << 20, In: c09PutUvarint(24 << 20),
		W: []uint64{0, 0, 0x0401, 0, 2048, 0, 0, 0, 0, 1 << 10, 8 << 20}}, c09Expect{"over", "hdr2big"})
	// the same claim through the entry points that do honour the limit (the seeded ReadOrGenerateIndex change)
	for v := byte(0); v < 4; v++ {
		add("example:claim-header-24MiB-limit-1KiB", c09Job{Entry: c09ELoadIndex, MaxH: 1 << 10, MaxS: 4 << 10, Choice: []byte{v},
			In: append(c09PutUvarint(24<<20), 0xa2, 0x65, 0x72, 0x6f, 0x6f, 0x74, 0x73, 0x80, 0x67, 0x76, 0x65, 0x72), MaxSeek: memMaxSeek}, c09Expect{"over", "hdr2big"})
	}
	// known finding: a section limit above the runtime's maximum allocation (TotalMain.huge_limit_file)
	noRoots := refPayload(nil, nil)
	add("known:limit-above-runtime-max", c09Job{Entry: c09EBr, MaxH: 32 << 20, MaxS: 1 << 62, Trusted: true,
		In: append(append([]byte(nil), noRoots...), 0xff, 0xff, 0xff, 0xff, 0xff, 0xff, 0xff, 0xff, 0x1f)}, c09Expect{kind: "none"})
	c09Execute(c, plan)
}

func init() {
	register("c09corpus", c09Corpus)
}
