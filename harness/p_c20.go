package main

import (
	"fmt"

	"github.com/ipfs/go-cid"
	mh "github.com/multiformats/go-multihash"
)

// C20 producer: histories of OnPut / Has / Put / Close on deferred.DeferredCarWriter for path and
// stream targets x CARv1/CARv2 (WriteAsCarV1 given or left to the constructor's default) x option rows.

type dOp struct {
	v   Val
	put bool
}

// op alphabet: 2 callback kinds (persistent, once), 3 keys (a block, the same multihash under another
// codec -- skipped by de-duplication --, an unrelated block) + a key that is not a CID
func c20OpSet(r *RNG, withBadKey bool) []Val {
	d1 := r.Bytes(1 + r.Intn(20))
	a := Blk{mkCid(1, 0x55, mh.SHA2_256, -1, d1), d1}
	a2 := Blk{cid.NewCidV1(0x70, a.Cid.Hash()), d1}
	d2 := r.Bytes(r.Intn(40))
	b := Blk{mkCid(1, 0x71, mh.SHA2_256, -1, d2), d2}
	k := func(x Blk) Val { return VB(x.Cid.Bytes()) }
	ops := []Val{
		VL{VT("onput"), VN(1), VN(0)}, VL{VT("onput"), VN(2), VN(1)},
		VL{VT("has"), k(a)}, VL{VT("has"), k(b)},
		VL{VT("put"), k(a), VB(a.Data)}, VL{VT("put"), k(a2), VB(a2.Data)}, VL{VT("put"), k(b), VB(b.Data)},
		VL{VT("close")},
	}
	if withBadKey {
		ops = append(ops, VL{VT("put"), VB([]byte{0x00, 0x01}), VB([]byte("x"))}, VL{VT("has"), k(a2)})
	}
	return ops
}

// the BlockWriteOpener path: two writers; writer 1 is written in two parts and committed under key a (the
// bytes are a's data), writer 2 gets other bytes and is committed under key b; plus the plain ops that
// make the interleavings interesting (a callback, a Has, a plain Put of a, Close)
func c20OpenerOpSet(r *RNG) []Val {
	d1 := r.Bytes(2 + r.Intn(20))
	a := Blk{mkCid(1, 0x55, mh.SHA2_256, -1, d1), d1}
	d2 := r.Bytes(1 + r.Intn(30))
	b := Blk{mkCid(1, 0x71, mh.SHA2_256, -1, d2), d2}
	k := func(x Blk) Val { return VB(x.Cid.Bytes()) }
	return []Val{
		VL{VT("open"), VN(1)}, VL{VT("write"), VN(1), VB(d1[:1])}, VL{VT("write"), VN(1), VB(d1[1:])}, VL{VT("commit"), VN(1), k(a)},
		VL{VT("open"), VN(2)}, VL{VT("write"), VN(2), VB(d2)}, VL{VT("commit"), VN(2), k(b)},
		VL{VT("onput"), VN(1), VN(1)}, VL{VT("has"), k(a)}, VL{VT("put"), k(a), VB(a.Data)}, VL{VT("close")},
	}
}

// a history over the opener op set is usable when every write/commit follows an open of its writer
func c20OpenerValid(ops VL) bool {
	open := map[uint64]bool{}
	for _, opv := range ops {
		op := opv.(VL)
		switch string(op[0].(VT)) {
		case "open":
			open[uint64(op[1].(VN))] = true
		case "write", "commit":
			if !open[uint64(op[1].(VN))] {
				return false
			}
		}
	}
	return true
}

type c20Cfg struct {
	target  uint64
	v1Given bool
	o       wOpts
}

func (c c20Cfg) name() string {
	return fmt.Sprintf("cfg:target=%d,v1given=%v,v1=%v", c.target, c.v1Given, c.o.v1)
}

// path/stream x {default, WriteAsCarV1(true), WriteAsCarV1(false)}; stream + explicit false is the
// configuration in which NewWritable refuses (CARv2 to a non-seekable writer): every Put fails
func c20Cfgs() []c20Cfg {
	var out []c20Cfg
	for _, target := range []uint64{0, 1} {
		for _, m := range []int{0, 1, 2} {
			o := defaultWOpts
			c := c20Cfg{target: target, o: o}
			switch m {
			case 1:
				c.v1Given, c.o.v1 = true, true
			case 2:
				c.v1Given, c.o.v1 = true, false
			}
			out = append(out, c)
		}
	}
	return out
}

// what sits at the output path before the writer is used (path targets): nothing, an empty file, a
// short file, a file longer than anything the history writes
var c20PreKinds = []string{"absent", "empty", "shorter", "longer"}

func c20Pre(r *RNG, kind string, longLen int) []byte {
	switch kind {
	case "empty":
		return []byte{}
	case "shorter":
		return r.Bytes(1 + r.Intn(40))
	case "longer":
		return r.Bytes(longLen)
	}
	return nil
}

// fault scripts for a CARv1 stream: the two write calls of the constructor (header varint, header) never
// fail (a failed constructor is retried by the next Put on the same half-written stream, which the
// model does not describe); call 2,3,4 = varint, CID, data of the first accepted block, 5.. = the next
func c20FaultScripts() [][]int {
	at := func(i, k int) []int {
		f := make([]int, i+1)
		for j := range f {
			f[j] = -1
		}
		f[i] = k
		return f
	}
	return [][]int{at(2, 0), at(3, 5), at(4, 0), at(7, 1)}
}

func emitC20(c *Ctx, cfg c20Cfg, roots []cid.Cid, ops VL, preKind string, pre []byte) {
	emitC20F(c, cfg, roots, ops, preKind, pre, nil)
}

func emitC20F(c *Ctx, cfg c20Cfg, roots []cid.Cid, ops VL, preKind string, pre []byte, faults []int) {
	if cfg.target != 0 {
		preKind, pre = "n/a-stream", nil
	} else {
		faults = nil
	}
	c.Count("path-before:" + preKind)
	if len(faults) > 0 {
		c.Count("faults:script")
	}
	in := deferredInput(cfg.target, cfg.v1Given, cfg.o, roots, ops, pre, faults)
	obs := runDeferredImpl(c.Work, cfg.target, cfg.v1Given, cfg.o, roots, ops, pre, faults)
	// did a Close return an error other than "closed" (= its Finalize failed)?
	for i, opv := range ops {
		if string(opv.(VL)[0].(VT)) == "close" {
			out := obs.(VL)[i].(VL)[0].(VL)
			if string(out[0].(VT)) == "err" && string(out[1].(VT)) != "closed" {
				c.Count("faults:close-whose-finalize-failed")
				break
			}
		}
	}
	// non-trivial: a callback was registered, a Put ran before a Close and something came after it
	nOn, nPut, closeAt, firstPut := 0, 0, -1, -1
	for i, opv := range ops {
		switch string(opv.(VL)[0].(VT)) {
		case "onput":
			nOn++
		case "put", "commit":
			if closeAt < 0 {
				nPut++
				if firstPut < 0 {
					firstPut = i
				}
			}
		case "close":
			if closeAt < 0 {
				closeAt = i
			}
		}
		out := obs.(VL)[i].(VL)[0].(VL)
		res := string(out[0].(VT))
		if res == "err" {
			res = "err-" + string(out[1].(VT))
		}
		c.Count("result:" + string(opv.(VL)[0].(VT)) + ":" + res)
	}
	c.Count(cfg.name())
	c.Emit("deferred", in, obs, nOn > 0 && nPut > 0 && firstPut > 0 && len(ops) >= 4)
}

// preMode: -1 = rotate through the four kinds of pre-existing file history by history, otherwise the
// index of the kind to use for every history
func c20Exhaustive(c *Ctx, r *RNG, cfg c20Cfg, roots []cid.Cid, opset []Val, n int, preMode int) {
	c20ExhaustiveF(c, r, cfg, roots, opset, n, preMode, nil)
}

func c20ExhaustiveF(c *Ctx, r *RNG, cfg c20Cfg, roots []cid.Cid, opset []Val, n int, preMode int, faults []int) {
	idx := make([]int, n)
	count := 0
	for {
		ops := make(VL, n)
		for i, j := range idx {
			ops[i] = opset[j]
		}
		kind := c20PreKinds[count%len(c20PreKinds)]
		if preMode >= 0 {
			kind = c20PreKinds[preMode]
		}
		if c20OpenerValid(ops) {
			count++
			emitC20F(c, cfg, roots, ops, kind, c20Pre(r, kind, 1200), faults)
		}
		c.Count(fmt.Sprintf("exhaustive:len%d", n))
		i := n - 1
		for i >= 0 {
			idx[i]++
			if idx[i] < len(opset) {
				break
			}
			idx[i] = 0
			i--
		}
		if i < 0 {
			return
		}
	}
}

func c20Example(c *Ctx) {
	digest := make([]byte, 32)
	rev := make([]byte, 32)
	for i := range digest {
		digest[i] = byte(i + 1)
		rev[31-i] = byte(i + 1)
	}
	h1, _ := mh.Encode(digest, 0x12)
	h3, _ := mh.Encode(rev, 0x12)
	k1, k2, k3 := cid.NewCidV1(0x55, h1), cid.NewCidV1(0x70, h1), cid.NewCidV1(0x71, h3)
	k := func(x cid.Cid) Val { return VB(x.Bytes()) }
	ops := VL{
		VL{VT("onput"), VN(1), VN(0)}, VL{VT("has"), k(k1)}, VL{VT("onput"), VN(2), VN(1)},
		VL{VT("put"), k(k1), VB([]byte{1, 2})}, VL{VT("onput"), VN(3), VN(1)}, VL{VT("put"), k(k2), VB([]byte{1, 2})},
		VL{VT("put"), k(k3), VB([]byte{3})}, VL{VT("has"), k(k3)}, VL{VT("close")},
		VL{VT("put"), k(k1), VB([]byte{1})}, VL{VT("has"), k(k1)}, VL{VT("close")},
	}
	c.Count("history:coq-example")
	emitC20(c, c20Cfg{target: 1, o: defaultWOpts}, []cid.Cid{k1}, ops, "absent", nil)
	// Example C20_example_opener: two writers, partial writes, commit, commit again, a writer committed after Close
	oops := VL{
		VL{VT("open"), VN(1)}, VL{VT("write"), VN(1), VB([]byte{1})}, VL{VT("onput"), VN(7), VN(0)}, VL{VT("open"), VN(2)},
		VL{VT("write"), VN(2), VB([]byte{9, 9, 9})}, VL{VT("has"), k(k1)}, VL{VT("write"), VN(1), VB([]byte{2})},
		VL{VT("commit"), VN(1), k(k1)}, VL{VT("commit"), VN(1), k(k1)}, VL{VT("put"), k(k3), VB([]byte{3})}, VL{VT("close")},
		VL{VT("commit"), VN(2), k(k3)},
	}
	emitC20(c, c20Cfg{target: 1, o: defaultWOpts}, []cid.Cid{k1}, oops, "absent", nil)
	// a stream that breaks 5 bytes into the CID of the first block: Put fails, Close's Finalize fails, and
	// the writer is closed all the same (Example C20_example_failed_finalize)
	fops := VL{
		VL{VT("onput"), VN(1), VN(0)}, VL{VT("put"), k(k1), VB([]byte{1, 2})}, VL{VT("put"), k(k3), VB([]byte{3})},
		VL{VT("close")}, VL{VT("close")}, VL{VT("put"), k(k1), VB([]byte{1})}, VL{VT("has"), k(k1)},
	}
	emitC20F(c, c20Cfg{target: 1, o: defaultWOpts}, []cid.Cid{k1}, fops, "absent", nil, []int{-1, -1, -1, 5})
	// the same history on a path where a 500-byte file already sits (Example C20_example_overwrites_longer_file)
	emitC20(c, c20Cfg{target: 0, o: defaultWOpts}, []cid.Cid{k1}, ops, "longer", make([]byte, 500))
}

func init() {
	register("c20", func(c *Ctx) {
		cfgs := c20Cfgs()
		// (1) exhaustive: every history of length 4 (quick) / 5 (thorough) over the 8-op alphabet for the
		// six target/format configurations (shorter histories are prefixes: every step is observed)
		{
			r := c.R.Fork()
			opset := c20OpSet(r, false)
			roots := []cid.Cid{mkCid(1, 0x55, mh.SHA2_256, -1, []byte("root"))}
			n := 4
			if c.Thorough {
				n = 5
			}
			for _, cfg := range cfgs {
				// the kind of pre-existing file rotates history by history ...
				c20Exhaustive(c, r, cfg, roots, opset, n, -1)
				// ... and every history of length 2 (3 in the thorough tier) meets all four kinds
				if cfg.target == 0 {
					for pm := range c20PreKinds {
						c20Exhaustive(c, r, cfg, roots, opset, n-2, pm)
					}
				}
				// ... and, on the CARv1 stream configurations, every history one step shorter runs against
				// four fault scripts (a write of the first or second block fails: nothing / part / all of
				// the call's bytes get out), so that Puts and Close's Finalize fail
				if cfg.target == 1 && !(cfg.v1Given && !cfg.o.v1) {
					for _, fs := range c20FaultScripts() {
						c20ExhaustiveF(c, r, cfg, roots, opset, n-1, -1, fs)
					}
				}
			}
		}
		// (1a) the BlockWriteOpener path: every well-formed history of length 4 (5 in the thorough tier) over the
		// opener op set (two writers, partial writes, commits, repeated commits, abandoned writers, a callback,
		// Has, a plain Put, Close) on the default path and stream configurations
		{
			r := c.R.Fork()
			opset := c20OpenerOpSet(r)
			roots := []cid.Cid{mkCid(1, 0x55, mh.SHA2_256, -1, []byte("root"))}
			n := 4
			if c.Thorough {
				n = 5
			}
			for _, cfg := range []c20Cfg{cfgs[0], cfgs[3]} {
				c20Exhaustive(c, r, cfg, roots, opset, n, -1)
			}
			c.Count("opener:exhaustive-pass")
		}
		// (1a') re-entrant registration: callbacks that call OnPut while they fire (a once-only first-Put hook that
		// installs a persistent counter and another once hook; the counter installs a further once hook; a
		// persistent callback that installs a once hook on every Put): every history of length 4 (5 thorough) over
		// the 8-op alphabet on the default stream configuration, for two registration tables
		{
			r := c.R.Fork()
			opset := c20OpSet(r, false)
			roots := []cid.Cid{mkCid(1, 0x55, mh.SHA2_256, -1, []byte("root"))}
			n := 4
			if c.Thorough {
				n = 5
			}
			for _, tab := range []map[uint64][]dKid{
				{2: {{8, false}, {9, true}}, 8: {{10, true}}},
				{1: {{5, true}}, 2: {{8, false}}, 5: {{11, false}}},
			} {
				dKids = tab
				c20Exhaustive(c, r, cfgs[3], roots, opset, n, -1)
				c.Count("reentrant:exhaustive-pass")
			}
			dKids = nil
		}
		// (1b) the history of the Coq Examples C20_example_* (proofs/DeferredFacts.v)
		c20Example(c)
		// (2) random longer histories: more callbacks, bad keys, option rows, nil / empty / several roots
		n := 600 * c.Scale
		for i := 0; i < n; i++ {
			r := c.R.Fork()
			cfg := pick(r, cfgs)
			o := genWOpts(r)
			o.v1 = cfg.o.v1
			cfg.o = o
			opset := c20OpSet(r, true)
			alpha := storeAlphabet(r, 2)
			roots := genRoots(r, alpha, true)
			if len(roots) == 0 && r.Bool() {
				roots = []cid.Cid{}
			}
			var ops VL
			nextID := uint64(1)
			for j := 0; j < 4+r.Intn(20); j++ {
				switch x := r.Intn(100); {
				case x < 22:
					ops = append(ops, VL{VT("onput"), VN(nextID), vbool(r.Chance(45))})
					nextID++
				case x < 92:
					ops = append(ops, pick(r, opset[2:7]))
					if r.Chance(12) {
						ops = append(ops, opset[8])
					}
				case x < 96:
					ops = append(ops, opset[9])
				default:
					ops = append(ops, VL{VT("close")})
				}
			}
			if r.Chance(40) {
				// blocks written through the opener: open, one to three writes, then (mostly) a commit, the
				// steps spread over the history
				oo := c20OpenerOpSet(r)
				var extra VL
				for h := uint64(1); h <= uint64(1+r.Intn(2)); h++ {
					base := 0
					if h == 2 {
						base = 4
					}
					extra = append(extra, oo[base])
					extra = append(extra, oo[base+1])
					if h == 1 {
						extra = append(extra, oo[2])
					}
					if r.Chance(80) {
						extra = append(extra, oo[base+len(oo[:4])-1-int(h-1)])
						if r.Chance(20) {
							extra = append(extra, oo[base+len(oo[:4])-1-int(h-1)])
						}
					}
				}
				// merge keeping the relative order of the opener steps
				var merged VL
				i, j := 0, 0
				for i < len(ops) || j < len(extra) {
					if j < len(extra) && (i >= len(ops) || r.Chance(35)) {
						merged = append(merged, extra[j])
						j++
					} else {
						merged = append(merged, ops[i])
						i++
					}
				}
				ops = merged
				c.Count("history:with-opener")
			}
			c.Count("history:random")
			kind := pick(r, c20PreKinds)
			var faults []int
			if cfg.target == 1 && cfg.o.v1 || cfg.target == 1 && !cfg.v1Given {
				if r.Chance(50) {
					faults = []int{-1, -1}
					for j := 0; j < 3+r.Intn(25); j++ {
						if r.Chance(15) {
							faults = append(faults, r.Intn(12))
						} else {
							faults = append(faults, -1)
						}
					}
				}
			}
			emitC20F(c, cfg, roots, ops, kind, c20Pre(r, kind, 2500+int(o.dpad)+int(o.ipad)), faults)
		}
	})
}
