package main

import (
	"bytes"
	"fmt"

	"github.com/ipfs/go-cid"
	mh "github.com/multiformats/go-multihash"
)

// C06 producer: kind "crash".
// Per session: one "writes" case (observed write order of the crashing process, contiguous writes
// merged per operation, against the model's log) and one "image" case for EVERY crash point (every
// unit of the observed write stream: each byte of each write, each truncation).

func c06Rows() []wOpts {
	d := defaultWOpts
	r2 := d
	r2.dpad, r2.ipad, r2.codec = 7, 3, 0x0400
	r3 := d
	r3.storeID, r3.dups = true, true
	r4 := d
	r4.v1 = true
	r5 := d
	r5.dpad, r5.whole = 1413, true
	r6 := d
	r6.zeof, r6.ipad = true, 1
	return []wOpts{d, r2, r3, r4, r5, r6}
}

// small blocks: the number of crash points is the number of bytes written
func c06Blocks(r *RNG, n int) []Blk {
	var out []Blk
	for len(out) < n {
		switch r.Intn(8) {
		case 0:
			out = append(out, Blk{mkCid(1, 0x55, mh.SHA2_256, -1, nil), nil}) // empty data
		case 1:
			d := r.Bytes(1 + r.Intn(4))
			out = append(out, Blk{mkCid(1, 0x55, mh.IDENTITY, -1, d), d})
		case 2:
			d := r.Bytes(r.Intn(30))
			out = append(out, Blk{mkCid(0, 0x70, mh.SHA2_256, -1, d), d})
		case 3:
			if len(out) > 0 {
				out = append(out, pick(r, out)) // duplicate put
				continue
			}
			fallthrough
		default:
			d := r.Bytes(1 + r.Intn(40))
			out = append(out, Blk{mkCid(1, pick(r, codecs), pick(r, []uint64{mh.SHA2_256, mh.SHA2_256, mh.SHA1, mh.SHA2_512}), -1, d), d})
		}
	}
	return out
}

func c06RunSession(c *Ctx, s c06Sess, step int, what string) {
	f0, log, err := c06ObserveWrites(c.Work, s)
	if err != nil {
		// the model must agree that this session cannot be run (open or an earlier process's
		// reopen fails): a session the model runs and the library refuses is a difference
		c.Emit("crash", c06WritesCase(s), VL{VT("sesserr")}, false)
		c.Count("session:does-not-open")
		return
	}
	c.Emit("crash", c06WritesCase(s), c06MergedOps(s, log), len(s.puts) > 0)
	c.Count("session:" + what)
	total := c06TotalUnits(log)
	xd := []byte("verif-c06-continuation")
	x := Blk{mkCid(1, 0x55, mh.SHA2_256, -1, xd), xd}
	for u := 0; u <= total; u += step {
		img := c06Image(f0, log, u)
		out, insp := c06ReopenImage(c.Work, s, img, x)
		c.Emit("crash", c06ImageCase(s, u, img, x, insp), c06Obs(out), len(s.puts) > 0 && u > 0 && u < total)
		c.Count("image")
		if crTagOf(out.(VL)[0]) == "err" {
			c.Count("image:reopen-refused")
		} else {
			c.Count("image:reopen-ok")
		}
	}
}

func init() {
	register("c06", func(c *Ctx) {
		rows := c06Rows()
		witd1 := []byte("verif-c06-a")
		wit1 := []Blk{{mkCid(1, 0x55, mh.SHA2_256, -1, witd1), witd1}}
		{
			// the fixed session of the C06 refutation witnesses (coq/proofs/CrashRefuted.v)
			d0, d1, d2 := []byte("verif-c06-root"), []byte("verif-c06-a"), bytes.Repeat([]byte("verif-c06-bb"), 20)
			root := mkCid(1, 0x55, mh.SHA2_256, -1, d0)
			s := c06Sess{kind: 0, o: defaultWOpts, roots: []cid.Cid{root}, fin: true,
				puts: []Blk{{mkCid(1, 0x55, mh.SHA2_256, -1, d1), d1}, {mkCid(1, 0x55, mh.SHA2_256, -1, d2), d2}}}
			c06RunSession(c, s, 1, "witness")
			// the resumed session of the resume-phase example (coq/proofs/CrashAbs.v, c6r_sess): the
			// first process put d1 and finalized; the crashing one resumes (Truncate 158, zeroed
			// header in two writes: class resume-phase), puts d2, finalizes
			sr := s
			sr.pre = []crSeg{{cut: "finalize", blks: s.puts[:1]}}
			sr.puts = s.puts[1:]
			c06RunSession(c, sr, 1, "witness-resumed-after-finalize")
			// MaxAllowedSectionSize below the sections written (Put does not check it; Resume's
			// re-index loop must not either): a fresh process, and one that resumes over such a section
			lo := defaultWOpts
			lo.maxS = 64
			bigd := bytes.Repeat([]byte("over-the-section-limit "), 5) // 115 bytes of data
			big := Blk{mkCid(1, 0x55, mh.SHA2_256, -1, bigd), bigd}
			sl := c06Sess{kind: 1, o: lo, roots: []cid.Cid{root}, fin: true, puts: []Blk{big, s.puts[0]}}
			c06RunSession(c, sl, 1, "section-limit-below-block")
			sl2 := c06Sess{kind: 0, o: lo, roots: []cid.Cid{root}, fin: true,
				pre: []crSeg{{cut: "discard", blks: []Blk{big}}}, puts: []Blk{s.puts[0]}}
			c06RunSession(c, sl2, 1, "section-limit-below-block-resumed")
		}
		nSess := 11 * c.Scale
		for i := 0; i < nSess; i++ {
			r := c.R.Fork()
			o := rows[i%len(rows)]
			if c.Thorough && i >= 2*len(rows) {
				o = genWOpts(r)
				if o.maxCid < 36 {
					o.maxCid = 36 // the continuation block's CID (36 bytes) must be acceptable
				}
			}
			s := c06Sess{kind: uint64((i/len(rows) + i) % 2), o: o, fin: !(i%5 == 4)}
			nb := 2 + r.Intn(2)
			s.puts = c06Blocks(r, nb)
			switch r.Intn(3) {
			case 0:
				s.roots = []cid.Cid{s.puts[0].Cid}
			case 1:
				s.roots = []cid.Cid{s.puts[0].Cid, mkCid(1, 0x71, mh.SHA2_256, -1, []byte("absent"))}
			default:
				s.roots = []cid.Cid{}
			}
			what := "fresh"
			if i%3 == 2 {
				// the crashing process itself started by resuming
				cut := pick(r, []string{"discard", "finalize"})
				if i < 6 {
					cut = []string{"finalize", "discard"}[(i/3)%2] // both kinds of resume in every run
				}
				s.pre = []crSeg{{cut: cut, blks: c06Blocks(r, 1+r.Intn(2))}}
				what = "resumed-after-" + s.pre[0].cut
			}
			c06RunSession(c, s, 1, what)
		}
		{
			// a root list whose header payload is exactly 16384 bytes (length varint 3 bytes wide):
			// every reopen of an image locates the first section through carv1.HeaderSize.  The
			// crashing process resumes a finalized file (the 16 KiB header is not among its writes)
			tiny := []byte("tiny")
			hs := c06Sess{kind: 0, o: defaultWOpts, roots: crRootsForHeaderLen(c.R.Fork(), 16384), fin: true,
				pre: []crSeg{{cut: "finalize", blks: wit1}}, puts: []Blk{{mkCid(1, 0x55, mh.SHA2_256, -1, tiny), tiny}}}
			c06RunSession(c, hs, 23, "header-length=16384-resumed") // every 23rd crash point: the extracted model needs ~0.3 s per image with a 16 KiB header
			if c.Thorough {
				for i, target := range []int{127, 128, 16383, 16385} {
					h2 := hs
					h2.roots = crRootsForHeaderLen(c.R.Fork(), target)
					h2.kind = uint64(i % 2)
					h2.o.v1 = i%2 == 1
					h2.pre = []crSeg{{cut: []string{"discard", "finalize"}[i/2%2], blks: wit1}}
					c06RunSession(c, h2, 3, fmt.Sprintf("header-length=%d-resumed", target))
				}
			}
		}
	})
}
