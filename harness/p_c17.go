package main

// C17: `car extract` never writes outside the chosen output directory.
//
// Every case: a sandbox directory is populated (output directory, sentinel files and directories
// next to it, optional pre-existing entries and symlinks inside the output directory), a hostile
// UnixFS DAG is assembled by hand, written as a CAR and extracted by the real binary; the whole
// sandbox (the output directory's parents included) is snapshotted afterwards.

import (
	"bytes"
)

// layout (model paths): /SB/q/p/w = working directory, /SB/q/p/w/out = usual output directory,
// /SB/q/p/outside/... = sentinels.
func c17p(parts ...string) Val {
	out := VL{VB(sbName)}
	for _, p := range parts {
		out = append(out, VB([]byte(p)))
	}
	return out
}
func fsDir(parts ...string) Val { return VL{c17p(parts...), VL{VT("d")}} }
func fsFile(data string, parts ...string) Val {
	return VL{c17p(parts...), VL{VT("f"), VB([]byte(data))}}
}
func fsDirM(mode uint64, parts ...string) Val { return VL{c17p(parts...), VL{VT("d"), VN(mode)}} }
func fsFileM(mode uint64, data string, parts ...string) Val {
	return VL{c17p(parts...), VL{VT("f"), VB([]byte(data)), VN(mode)}}
}
func fsLink(target string, parts ...string) Val {
	return VL{c17p(parts...), VL{VT("l"), VB([]byte(target))}}
}

const c17Out = "/SB/q/p/w/out"
const c17Outside = "/SB/q/p/outside"

func fileV(data []byte, form, chunks int) Val {
	return VL{VT("f"), VB(data), VN(form), VN(chunks)}
}
func fileErrV(full []byte, form, chunks, missing int) Val {
	parts := splitChunks(full, chunks)
	var pre []byte
	for i := 0; i < missing && i < len(parts); i++ {
		pre = append(pre, parts[i]...)
	}
	return VL{VT("fe"), VB(pre), VN(form), VN(chunks), VN(missing), VB(full)}
}
func linkV(t string) Val { return VL{VT("l"), VB([]byte(t))} }

// withMode adds the optional UnixFS mode (and an mtime) to a file / link / directory build value
func withMode(v Val, mode uint64) Val {
	l := append(VL{}, vl(v)...)
	switch vt(vnth(v, 0)) {
	case "f":
		for len(l) < 4 {
			l = append(l, VN(0))
		}
		return append(l[:4], VN(mode+1))
	case "l":
		return append(l[:2], VN(mode+1))
	case "d":
		return append(l[:3], VN(mode+1))
	}
	return v
}
func missV(salt []byte) Val { return VL{VT("m"), VB(salt)} }
func badV(form int, salt []byte) Val { return VL{VT("b"), VN(form), VB(salt)} }

type dent struct {
	name    []byte
	t       Val
	hasName bool
}

func dirV(form int, ents ...dent) Val {
	l := VL{}
	for _, e := range ents {
		hn := VN(1)
		if !e.hasName {
			hn = 0
		}
		l = append(l, VL{VB(e.name), e.t, hn})
	}
	return VL{VT("d"), l, VN(form)}
}
func de(name string, t Val) dent { return dent{[]byte(name), t, true} }

var c17Benign = []string{"a", "b", "c", "d", "e", "x", "ld", "rel", "dang", "loop", "in", "unknown", "inner", "keep", "sib", "out", "target"}
var c17Hostile = []string{"..", ".", "", "a/b", "d/inner", "d/x", "d/new", "x/y", "ld/keep", "ld/new", "/abs", c17Outside + "/target",
	c17Outside + "/new2", "../sib", "../new3", "../../outside/target", "../../outside/new4", "d/../../sib", "a//b", "a/", "/", "./a", "a/.",
	"a/..", "d/..", "a\x00b", "\xc3\xbc", "a b", "-r", "a\nb", "..a", "...", "in/inner", "in/new5", "dd/sib", "dd/new6", "ld/n1/n2", "x/n1/n2", "dd/w/new7/new8", "d/n1/n2",
	"ld/n1/evil", "ld/n1/n2/evil", "ld/n1/n2/n3/evil", "ld/n1/n2/n3/victim", "ld/logs/evil.txt", "dd/out2/evil", "dd/out2/t",
	"in/../ld/n1/evil", "e/x", "ld/n1", "ld/n1/n2/n3",
	// a backslash is an ordinary character of a POSIX file name
	"..\\sib", "..\\new9", "a\\..\\..\\sib", "..\\..\\outside\\target", "\\abs", "a/..\\..\\b", "d\\x", "d/..\\..\\sib", "\\",
	"..\\", "a\\b\\c", ".\\a", "..\\..\\..\\..\\etc"}

var c17Targets = []string{c17Outside + "/target", c17Outside + "/dir", c17Outside + "/newfile", c17Outside + "/dir/newfile",
	"../sib", "../new7", "../../outside/target", "../../outside/dir", "../../outside/new8", "d", "a", ".", "..", "", c17Out, c17Out + "/d", "x", "loop",
	"/nonexistent-verif-c17/x", "a/b", c17Outside + "/target/", c17Outside + "/dir/", "//SB//q/p/outside/./dir/../target",
	"/SB/q/p/w/lnk/a", "d/", "./d/../a", "unknown", "../out/a", c17Out + "2", c17Out + "2/t", "../out2/t", "../out2"}

func longName(n int) string { return string(bytes.Repeat([]byte("n"), n)) }

type c17gen struct {
	r       *RNG
	c       *Ctx
	p       int // hostility, percent per decision
	uniq    int
}

// entry names: mostly fresh plain names when hostility is low, so that the walk gets deep before
// it meets the hostile entry
func (g *c17gen) name() []byte {
	r := g.r
	switch {
	case r.Chance(g.p):
		if r.Chance(8) {
			return []byte(longName(pick(r, []int{255, 256, 300})))
		}
		return []byte(pick(r, c17Hostile))
	case r.Chance(2 * g.p):
		return []byte(pick(r, c17Benign)) // collides with siblings / pre-existing entries
	default:
		g.uniq++
		return []byte("u" + string(rune('a'+g.uniq%26)) + string(rune('0'+(g.uniq/26)%10)))
	}
}

func (g *c17gen) fileData() []byte {
	n := pick(g.r, []int{0, 1, 3, 7, 12, 20})
	b := g.r.Bytes(n)
	for i := range b {
		b[i] = 'A' + b[i]%26
	}
	return b
}

func (g *c17gen) leafFile() Val {
	r := g.r
	d := g.fileData()
	form := pick(r, []int{0, 0, 1, 1, 2, 3, 4})
	chunks := 1
	if form >= 3 {
		chunks = 1 + r.Intn(3)
	}
	return fileV(d, form, chunks)
}

func (g *c17gen) tree(depth int) Val {
	v := g.tree0(depth)
	if g.r.Chance(25) {
		g.c.Count("node:with-unixfs-mode")
		return withMode(v, pick(g.r, []uint64{0o777, 0o700, 0, 0o644, 0o755, 0o4755, 0o1777, 0o400}))
	}
	return v
}

func (g *c17gen) tree0(depth int) Val {
	r := g.r
	switch {
	case r.Chance(2 * g.p):
		t := pick(r, c17Targets)
		if r.Chance(3) {
			t = string(bytes.Repeat([]byte("t"), 5000))
		}
		return linkV(t)
	case r.Chance(g.p / 2):
		g.c.Count("node:missing")
		return missV(r.Bytes(4))
	case r.Chance(g.p / 2):
		g.c.Count("node:bad")
		return badV(r.Intn(5), r.Bytes(4))
	case r.Chance(g.p / 2):
		g.c.Count("node:file-missing-chunk")
		chunks := 2 + r.Intn(2)
		d := r.Bytes(6*chunks + r.Intn(6))
		for i := range d {
			d[i] = 'a' + d[i]%26
		}
		return fileErrV(d, 3+r.Intn(2), chunks, r.Intn(chunks))
	}
	k := r.Intn(100)
	switch {
	case k < 55 || depth >= 3:
		return g.leafFile()
	case k < 88:
		return g.dir(depth)
	default:
		return linkV(pick(r, []string{"ua0", "../ub0", ".", "uc0/ud0", "nothing"}))
	}
}

func (g *c17gen) dir(depth int) Val {
	r := g.r
	n := r.Intn(6)
	if depth == 0 {
		n = 2 + r.Intn(6)
	}
	var ents []dent
	emptyName := false
	for i := 0; i < n; i++ {
		nm := g.name()
		e := dent{nm, g.tree(depth + 1), true}
		if len(nm) == 0 {
			emptyName = true
			if r.Bool() {
				e.hasName = false
			}
		}
		ents = append(ents, e)
	}
	form := 0
	if !emptyName {
		form = pick(r, []int{0, 0, 0, 1, 2, 4})
	}
	if form != 0 {
		g.c.Count("dir:sharded")
	}
	return dirV(form, ents...)
}

func c17Skeleton() VL {
	return VL{
		fsDir(), fsDir("q"), fsDir("q", "p"), fsDir("q", "p", "w"),
		fsDir("q", "p", "outside"), fsFileM(0o600, "SENTINEL", "q", "p", "outside", "target"),
		fsDirM(0o700, "q", "p", "outside", "dir"), fsFileM(0o640, "KEEP", "q", "p", "outside", "dir", "keep"),
		// real sub-directories of the outside victim directory, for entry names with separators whose
		// first component is a symlink to it (depths 1..3)
		fsDir("q", "p", "outside", "dir", "n1"), fsDir("q", "p", "outside", "dir", "n1", "n2"),
		fsDir("q", "p", "outside", "dir", "n1", "n2", "n3"), fsFile("DEEP", "q", "p", "outside", "dir", "n1", "n2", "n3", "victim"),
		fsDir("q", "p", "outside", "dir", "logs"),
		fsFile("sibling", "q", "p", "w", "sib"), fsFile("plain", "q", "p", "w", "afile"),
		fsLink("out", "q", "p", "w", "lnk"), fsLink(c17Out, "q", "p", "w", "alnk"),
		// a sibling whose path has the output directory's path as a string prefix
		fsDirM(0o750, "q", "p", "w", "out2"), fsFile("S2", "q", "p", "w", "out2", "t"),
	}
}

type prepop struct {
	parts []string
	kind  byte
	data  string
	needs string // a prepop entry that must be present as a directory
}

var c17Prepop = []prepop{
	{[]string{"a"}, 'f', "old-a", ""}, {[]string{"b"}, 'f', "old-b", ""}, {[]string{"d"}, 'd', "", ""},
	{[]string{"d", "inner"}, 'f', "old-inner", "d"}, {[]string{"x"}, 'l', c17Outside + "/target", ""},
	{[]string{"ld"}, 'l', c17Outside + "/dir", ""}, {[]string{"rel"}, 'l', "../../outside/target", ""},
	{[]string{"dang"}, 'l', c17Outside + "/newfile", ""}, {[]string{"loop"}, 'l', "loop", ""},
	{[]string{"in"}, 'l', "d", ""}, {[]string{"unknown"}, 'l', c17Outside + "/target", ""},
	{[]string{"dd"}, 'l', "..", ""}, {[]string{"c"}, 'd', "", ""}, {[]string{"e"}, 'l', c17Outside + "/dir/keep", ""},
	{[]string{"d", "x"}, 'l', "../../sib", "d"},
}

func c17OutAt() []string { return []string{"q", "p", "w", "out"} }

// prepopulate: entries inside the output directory
func c17Populate(r *RNG, pct int, stats *int) VL {
	out := VL{fsDir(c17OutAt()...)}
	have := map[string]bool{}
	for _, p := range c17Prepop {
		if !r.Chance(pct) {
			continue
		}
		if p.needs != "" && !have[p.needs] {
			continue
		}
		parts := append(c17OutAt(), p.parts...)
		switch p.kind {
		case 'f':
			out = append(out, fsFile(p.data, parts...))
		case 'd':
			out = append(out, fsDir(parts...))
			have[p.parts[0]] = true
		case 'l':
			out = append(out, fsLink(p.data, parts...))
			*stats++
		}
	}
	return out
}

var c17Outdirs = []string{c17Out, c17Out, "out", "out", "out", "./out", "out/", "out//", "../w/out", "out/.", "lnk", "alnk",
	"/SB/q/p/w/lnk", "lnk/", "/SB/q/p/w/../w/out", "out/d/..", "out/in/..", "out/dd/out"}
var c17OddOutdirs = []string{"nope", "afile", ".", "..", "out/nope/..", "out/loop", "out/x", "out/a", "", "lnk/d", "out/ld"}

func c17Cwd() Val { return c17p("q", "p", "w") }

func hostileName(n []byte) bool {
	s := string(n)
	return s == "" || s == "." || s == ".." || bytes.ContainsAny(n, "/\x00") || len(n) > 255
}

// features of a build tree that make a case count as hostile
func c17Features(v Val, f map[string]int) {
	switch vt(vnth(v, 0)) {
	case "d":
		seen := map[string]bool{}
		for _, e := range vl(vnth(v, 1)) {
			nm := vb(vnth(e, 0))
			if hostileName(nm) {
				f["hostile-name"]++
			}
			if seen[string(nm)] {
				f["repeated-name"]++
			}
			seen[string(nm)] = true
			c17Features(vnth(e, 1), f)
		}
	case "l":
		f["symlink-entry"]++
	case "m", "fe":
		f["missing-block"]++
	}
}

func c17Emit(c *Ctx, label string, fs VL, outdir, pathflag string, buildroots VL, opts Val, preLinks int) {
	cwd := c17Cwd()
	if vn(vnth(opts, 2)) != 0 {
		// no output argument: the process runs in (the logical spelling of) the output directory
		cwd = c17p("q", "p", "w", "out")
	}
	in := extractInput(fs, cwd, []byte(outdir), []byte(pathflag), buildroots, opts)
	obs := runExtractCase(c, in)
	if vt(vnth(obs, 0)) == "generator-collision" {
		c.Count("skipped:missing-block-present-elsewhere")
		return
	}
	f := map[string]int{}
	for _, r := range buildroots {
		if vt(vnth(r, 0)) == "n" {
			c17Features(vnth(r, 1), f)
		}
	}
	if len(buildroots) > 1 {
		f["several-roots"]++
	}
	if preLinks > 0 {
		f["prepopulated-symlink"]++
	}
	for k := range f {
		c.Count("feature:" + k)
	}
	c.Count("kind:" + label)
	c.Count("status:" + vt(vnth(vnth(obs, 0), 0)))
	switch n := fsChanges(fs, vnth(obs, 2)); {
	case n == 0:
		c.Count("fs-changes:0")
	case n <= 2:
		c.Count("fs-changes:1-2")
	case n <= 6:
		c.Count("fs-changes:3-6")
	default:
		c.Count("fs-changes:7+")
	}
	c.Emit("extract", in, obs, len(f) > 0)
}

// number of paths whose binding differs between two fs values
func fsChanges(before, after Val) int {
	m := map[string]string{}
	for _, e := range vl(before) {
		m[valString(vnth(e, 0))] = valString(vnth(e, 1))
	}
	n := 0
	seen := map[string]bool{}
	for _, e := range vl(after) {
		k := valString(vnth(e, 0))
		seen[k] = true
		if m[k] != valString(vnth(e, 1)) {
			n++
		}
	}
	for k := range m {
		if !seen[k] {
			n++
		}
	}
	return n
}

// unshard turns every hand-built sharded directory of a build tree into a basic one
func unshard(v Val) Val {
	if vt(vnth(v, 0)) != "d" {
		return v
	}
	ents := VL{}
	for _, e := range vl(vnth(v, 1)) {
		ents = append(ents, VL{vnth(e, 0), unshard(vnth(e, 1)), vnth(e, 2)})
	}
	form := vn(vnth(v, 2))
	if form == 1 || form == 2 || form == 4 {
		form = 0
	}
	out := VL{VT("d"), ents, VN(form)}
	if m, ok := vnth(v, 3).(VN); ok {
		out = append(out, m)
	}
	return out
}

func itoa(i int) string {
	if i == 0 {
		return "0"
	}
	s := ""
	for i > 0 {
		s = string(rune('0'+i%10)) + s
		i /= 10
	}
	return s
}

func vn0() Val { return VN(0) }

func rootN(t Val) Val { return VL{VT("n"), t} }

var optFile = VL{VN(0), VN(0)}

func init() {
	register("c17", func(c *Ctx) {
		r := c.R
		sk := c17Skeleton()
		with := func(extra ...Val) VL {
			out := append(VL{}, sk...)
			out = append(out, fsDir(c17OutAt()...))
			return append(out, extra...)
		}
		outp := func(parts ...string) []string { return append(c17OutAt(), parts...) }
		f1 := func(s string) Val { return fileV([]byte(s), pick(r, []int{0, 1, 2}), 1) }
		tgt := c17Outside + "/target"

		// ---- directed scenarios (each with a few variations of the output directory argument)
		type scen struct {
			name  string
			fs    VL
			roots VL
			pre   int
		}
		scens := []scen{
			{"symlink-then-file", with(), VL{rootN(dirV(0, de("x", linkV(tgt)), de("x", f1("PWNED"))))}, 0},
			{"symlink-then-file-sharded", with(), VL{rootN(dirV(1, de("x", linkV(tgt)), de("x", f1("PWNED"))))}, 0},
			{"dangling-symlink-then-file", with(), VL{rootN(dirV(0, de("x", linkV(c17Outside+"/created")), de("x", f1("NEW"))))}, 0},
			{"relative-symlink-then-file", with(), VL{rootN(dirV(0, de("x", linkV("../../outside/target")), de("x", f1("PWNED"))))}, 0},
			{"prepopulated-symlink-file", with(fsLink(tgt, outp("x")...)), VL{rootN(dirV(0, de("x", f1("PWNED"))))}, 1},
			{"unknown-symlink-then-file-root", with(), VL{rootN(dirV(0, de("unknown", linkV(tgt)))), rootN(fileV([]byte("PWNED"), 1, 1))}, 0},
			{"prepopulated-unknown-symlink", with(fsLink(tgt, outp("unknown")...)), VL{rootN(fileV([]byte("PWNED"), 2, 1))}, 1},
			{"symlink-dir-then-dir", with(), VL{rootN(dirV(0, de("d", linkV(c17Outside+"/dir")), de("d", dirV(0, de("f", f1("IN"))))))}, 0},
			{"symlink-dir-then-nested-name", with(), VL{rootN(dirV(0, de("d", linkV(c17Outside+"/dir")), de("d/f", f1("IN"))))}, 0},
			{"prepopulated-symlink-dir", with(fsLink(c17Outside+"/dir", outp("ld")...)), VL{rootN(dirV(0, de("ld", dirV(0, de("keep", f1("PWNED"))))))}, 1},
			{"dotdot-names", with(), VL{rootN(dirV(0, de("..", f1("A")), de("../sib", f1("B")), de("../../outside/target", f1("C"))))}, 0},
			{"dotdot-dir", with(), VL{rootN(dirV(0, de("..", dirV(0, de("sib", f1("B"))))))}, 0},
			{"absolute-names", with(), VL{rootN(dirV(0, de(tgt, f1("A")), de("/abs", f1("B"))))}, 0},
			{"empty-name-file", with(), VL{rootN(dirV(0, dent{nil, f1("A"), false}, de("a", f1("B"))))}, 0},
			{"empty-name-dir", with(), VL{rootN(dirV(0, de("", dirV(0, de("a", f1("B"))))))}, 0},
			{"nested-through-own-dir", with(), VL{rootN(dirV(0, de("d", dirV(0, de("a", f1("A")))), de("d/b", f1("B")), de("d/../../sib", f1("C"))))}, 0},
			{"file-then-dir-same-name", with(), VL{rootN(dirV(0, de("a", f1("A")), de("a", dirV(0, de("b", f1("B"))))))}, 0},
			{"dir-then-file-same-name", with(), VL{rootN(dirV(0, de("a", dirV(0, de("b", f1("B")))), de("a", f1("A"))))}, 0},
			{"symlink-twice", with(), VL{rootN(dirV(0, de("x", linkV(tgt)), de("x", linkV("a"))))}, 0},
			{"symlink-to-self-dir-then-entries", with(), VL{rootN(dirV(0, de("s", linkV(".")), de("s", dirV(0, de("a", f1("A"))))))}, 0},
			{"symlink-dotdot-then-dir", with(), VL{rootN(dirV(0, de("s", linkV("..")), de("s", dirV(0, de("sib", f1("PWNED"))))))}, 0},
			{"symlink-to-prefix-sibling-then-file", with(), VL{rootN(dirV(0, de("x", linkV(c17Out+"2/t")), de("x", f1("PWNED"))))}, 0},
			{"symlink-to-prefix-sibling-dir", with(), VL{rootN(dirV(0, de("d", linkV(c17Out+"2")), de("d", dirV(0, de("t", f1("PWNED"))))))}, 0},
			{"mode-dir-over-symlink-to-outside-dir", with(), VL{rootN(dirV(0, de("d", linkV(c17Outside+"/dir")), de("d", withMode(dirV(0), 0o777))))}, 0},
			{"mode-dir-over-symlink-children-missing", with(), VL{rootN(dirV(0, de("d", linkV(c17Outside+"/dir")), de("d", withMode(dirV(0, de("m1", missV([]byte("m1"))), de("m2", missV([]byte("m2")))), 0o777)), de("after", f1("A"))))}, 0},
			{"mode-sharded-dir-over-symlink", with(), VL{rootN(dirV(0, de("d", linkV(c17Out+"2")), de("d", withMode(dirV(1), 0o707))))}, 0},
			{"mode-dir-over-prepopulated-symlink", with(fsLink(c17Outside+"/dir", outp("ld")...)), VL{rootN(dirV(0, de("ld", withMode(dirV(0), 0o777))))}, 1},
			{"mode-dir-over-symlink-from-earlier-root", with(), VL{rootN(dirV(0, de("d", linkV(c17Outside+"/dir")))), rootN(dirV(0, de("d", withMode(dirV(0), 0o755))))}, 0},
			{"mode-dir-over-symlink-dotdot", with(), VL{rootN(dirV(0, de("s", linkV("..")), de("s", withMode(dirV(0), 0o700))))}, 0},
			{"mode-on-benign-entries", with(fsFileM(0o600, "old", outp("keep")...)), VL{rootN(withMode(dirV(0, de("f", withMode(f1("F"), 0o755)), de("keep", withMode(f1("NEW"), 0o777)), de("d", withMode(dirV(0, de("g", withMode(fileV([]byte("0123456789abcdefghij"), 3, 2), 0o400))), 0o500)), de("l", withMode(linkV("f"), 0o700))), 0o711))}, 0},
			{"dotdot-symlink-entry-then-second-root", with(), VL{rootN(dirV(0, de("..", linkV(c17Outside+"/dir")))), rootN(dirV(0, de("pwn", f1("PWNED"))))}, 0},
			{"dot-symlink-entry-then-second-root", with(), VL{rootN(dirV(0, de(".", linkV(c17Outside+"/dir")))), rootN(dirV(0, de("pwn", f1("PWNED"))))}, 0},
			{"empty-name-symlink-entry-then-second-root", with(), VL{rootN(dirV(0, dent{nil, linkV("../../outside/dir"), false})), rootN(dirV(0, de("keep", f1("PWNED"))))}, 0},
			{"name-with-separators-below-symlink-entry", with(), VL{rootN(dirV(0, de("a", linkV(c17Outside+"/dir")), de("a/b/c", f1("PWNED")), de("after", f1("A"))))}, 0},
			{"name-with-separators-below-prepopulated-symlink", with(fsLink(c17Outside+"/dir", outp("ld")...)), VL{rootN(dirV(0, de("ld/n1/n2", missV([]byte("n"))), de("ld/n3/n4/n5", dirV(0))))}, 1},
			{"separators-below-symlink-entry-existing-subdir-1", with(), VL{rootN(dirV(0, de("cache", linkV(c17Outside+"/dir")), de("cache/logs/evil.txt", f1("PWNED")), de("after", f1("A"))))}, 0},
			{"separators-below-symlink-entry-existing-subdir-2", with(), VL{rootN(dirV(0, de("a", linkV(c17Outside+"/dir")), de("a/n1/n2/evil", f1("PWNED")), de("a/n1/n2/n3/victim", f1("PWNED"))))}, 0},
			{"separators-below-symlink-entry-existing-subdir-3", with(), VL{rootN(dirV(1, de("a", linkV("../../outside/dir")), de("a/n1/n2/n3/evil", linkV("/etc")), de("a/n1/n2/n3/newdir", dirV(0, de("f", f1("PWNED"))))))}, 0},
			{"separators-below-prepopulated-symlink-existing-subdir", with(fsLink(c17Outside+"/dir", outp("ld")...)), VL{rootN(dirV(0, de("ld/n1/evil", f1("PWNED")), de("ld/n1/n2/evil", f1("PWNED"))))}, 1},
			{"separators-below-prepopulated-symlink-existing-subdir-deep", with(fsLink(c17Outside+"/dir", outp("ld")...)), VL{rootN(dirV(0, de("ld/n1/n2/n3/evil", f1("PWNED"))))}, 1},
			{"separators-below-symlink-from-earlier-root", with(), VL{rootN(dirV(0, de("a", linkV(c17Outside+"/dir")))), rootN(dirV(0, de("a/logs/evil.txt", f1("PWNED")), de("a/n1/x", dirV(0))))}, 0},
			{"separators-below-dotdot-symlink-existing-sibling", with(), VL{rootN(dirV(0, de("up", linkV("..")), de("up/out2/evil", f1("PWNED")), de("up/out2/t", f1("PWNED"))))}, 0},
			{"backslash-dotdot-names", with(), VL{rootN(dirV(0, de("..\\sib", f1("PWNED")), de("..\\..\\outside\\target", f1("PWNED")), de("a\\..\\..\\sib", f1("PWNED")), de("\\abs", f1("A")), de("plain", f1("P"))))}, 0},
			{"backslash-dotdot-dir-and-link", with(), VL{rootN(dirV(0, de("..\\out2", dirV(0, de("t", f1("PWNED")))), de("..\\newlink", linkV("x")), de("a/..\\..\\b", f1("B"))))}, 0},
			{"backslash-names-nested-and-sharded", with(), VL{rootN(dirV(0, de("d", dirV(1, de("..\\..\\sib", f1("PWNED")), de("..\\x", f1("X")), de("in\\side", f1("I"))))))}, 0},
			{"backslash-names-prepopulated", with(fsDir(outp("d")...)), VL{rootN(dirV(0, de("d\\..\\..\\sib", f1("PWNED")), de("d/..\\..\\..\\outside\\dir\\keep", f1("PWNED"))))}, 0},
			{"metadata-on-symlink-to-outside-file", with(), VL{rootN(dirV(0, de("l", withMode(linkV(tgt), 0o777)), de("after", f1("A"))))}, 0},
			{"metadata-on-symlink-to-outside-dir", with(), VL{rootN(dirV(0, de("l", withMode(linkV(c17Outside+"/dir"), 0o700)), de("r", withMode(linkV("../sib"), 0o644)), de("dang", withMode(linkV(c17Outside+"/nothing"), 0o600))))}, 0},
			{"metadata-on-symlink-sharded-and-second-root", with(), VL{rootN(dirV(1, de("l", withMode(linkV(c17Outside+"/dir/keep"), 0o400)))), rootN(dirV(0, de("m", withMode(linkV("../../outside/dir/n1"), 0o755))))}, 0},
			{"metadata-on-file-over-prepopulated-symlink", with(fsLink(tgt, outp("x")...)), VL{rootN(dirV(0, de("x", withMode(f1("PWNED"), 0o644))))}, 1},
			{"symlink-chain-then-file", with(), VL{rootN(dirV(0, de("y", linkV(tgt)), de("x", linkV("y")), de("x", f1("PWNED"))))}, 0},
			{"missing-blocks", with(), VL{rootN(dirV(0, de("a", missV([]byte("1"))), de("b", f1("B")), de("c", fileErrV([]byte("0123456789"), 3, 2, 1))))}, 0},
			{"missing-root", with(), VL{rootN(dirV(0, de("a", f1("A")))), rootN(missV([]byte("2")))}, 0},
			{"raw-root-and-dir", with(), VL{VL{VT("raw"), VN(1)}, rootN(dirV(0, de("a", f1("A"))))}, 0},
			{"symlink-root", with(), VL{rootN(linkV(tgt)), rootN(dirV(0, de("a", f1("A"))))}, 0},
			{"plain-pbnode-root", with(), VL{rootN(dirV(3, de("a", f1("A")), de("x", linkV(tgt)), de("x", f1("PWNED"))))}, 0},
			{"benign", with(), VL{rootN(dirV(0, de("a", f1("A")), de("d", dirV(0, de("b", f1("B")), de("l", linkV("../a")))), de("e", dirV(2, de("p", f1("P")), de("q", f1("Q")), de("r", f1("R"))))))}, 0},
			{"benign-file-root", with(), VL{rootN(fileV([]byte("hello"), 1, 1))}, 0},
			{"benign-chunked", with(), VL{rootN(dirV(0, de("big", fileV([]byte("0123456789abcdefghij"), 3, 3)), de("big2", fileV([]byte("0123456789abcdefghij"), 4, 2))))}, 0},
			{"overwrite-existing", with(fsFile("old", outp("a")...), fsDir(outp("d")...)), VL{rootN(dirV(0, de("a", f1("NEW")), de("d", dirV(0, de("n", f1("N"))))))}, 0},
			{"long-names", with(), VL{rootN(dirV(0, de(longName(255), f1("A")), de(longName(256), f1("B")), de("after", f1("C"))))}, 0},
			{"nul-name", with(), VL{rootN(dirV(0, de("a\x00b", f1("A"))))}, 0},
			{"long-target", with(), VL{rootN(dirV(0, de("l", linkV(string(bytes.Repeat([]byte("t"), 5000))))))}, 0},
			{"empty-target", with(), VL{rootN(dirV(0, de("l", linkV(""))))}, 0},
		}
		for _, s := range scens {
			ods := []string{c17Out, "out"}
			if c.Thorough {
				ods = []string{c17Out, "out", "./out", "lnk", "alnk", "../w/out"}
			} else {
				ods = append(ods, pick(r, c17Outdirs))
			}
			for _, od := range ods {
				opts := VL{vbool(r.Chance(25)), VN(0)}
				c17Emit(c, "directed:"+s.name, s.fs, od, "", s.roots, opts, s.pre)
			}
		}
		// link budgets: the kernel follows at most 40 links per resolution, EvalSymlinks at most 255
		chain := func(n int, at []string, final string) VL {
			out := VL{}
			for i := 0; i < n; i++ {
				t := final
				if i+1 < n {
					t = "k" + itoa(i+1)
				}
				out = append(out, fsLink(t, append(append([]string{}, at...), "k"+itoa(i))...))
			}
			return out
		}
		for _, n := range []int{39, 40, 41} {
			fs := with(chain(n, c17OutAt(), c17Outside+"/dir")...)
			roots := VL{rootN(dirV(0, de("k0", dirV(0)), de("after", f1("A"))))}
			c17Emit(c, "directed:kernel-link-budget", fs, c17Out, "", roots, optFile, 1)
		}
		for _, n := range []int{254, 255, 256} {
			fs := with(chain(n, []string{"q", "p", "w"}, "out")...)
			roots := VL{rootN(dirV(0, de("a", f1("A"))))}
			c17Emit(c, "directed:evalsymlinks-link-budget", fs, "k0", "", roots, optFile, 0)
		}
		// no output directory argument: extraction into the working directory, which the process entered
		// through a symlink (its logical $PWD spelling is what os.Getwd returns)
		for _, od := range []string{"/SB/q/p/w/lnk", "/SB/q/p/w/alnk", c17Out} {
			for _, sc := range scens {
				if sc.name != "symlink-then-file" && sc.name != "symlink-dir-then-dir" && sc.name != "benign" && sc.name != "dotdot-names" {
					continue
				}
				c17Emit(c, "directed:cwd-no-argument:"+sc.name, sc.fs, od, "", sc.roots, VL{VN(0), VN(0), VN(1)}, sc.pre)
			}
		}
		// output directory "-": contents go to standard output, nothing may be touched anywhere
		for _, sc := range scens {
			switch sc.name {
			case "benign", "benign-chunked", "benign-file-root", "symlink-then-file", "missing-blocks", "dotdot-names",
				"raw-root-and-dir", "symlink-root", "file-then-dir-same-name", "mode-on-benign-entries", "absolute-names":
				c17Emit(c, "directed:stdout:"+sc.name, sc.fs, "-", "", sc.roots, VL{vbool(r.Chance(30)), VN(0), VN(0)}, sc.pre)
			}
		}
		// --path on directed trees
		ptree := VL{rootN(dirV(0, de("a", f1("A")), de("d", dirV(0, de("b", f1("B")), de("x", linkV(tgt)), de("x", f1("PWNED")))), de("d", f1("second"))))}
		for _, pf := range []string{"a", "d", "d/b", "d/x", "/d/b/", "nosuch", "d/nosuch", "a/b", "d//b", "./a", "..", "d/..", "/"} {
			c17Emit(c, "directed:path-flag", with(), pick(r, []string{c17Out, "out"}), pf, ptree, optFile, 0)
			c17Emit(c, "directed:stdout:path-flag", with(), "-", pf, ptree, optFile, 0)
		}

		// ---- thorough: every ordered pair of entries over a small alphabet of (name, node) in one
		// directory, into an empty and two pre-populated output directories
		if c.Thorough {
			names := []string{"x", "d", "..", "a/b", "", c17Outside + "/target", "../sib", "unknown"}
			nodes := []func() Val{
				func() Val { return f1("F") },
				func() Val { return linkV(tgt) },
				func() Val { return linkV(c17Outside + "/dir") },
				func() Val { return linkV("../../outside/new9") },
				func() Val { return dirV(0, de("keep", f1("K"))) },
			}
			pres := []VL{with(), with(fsLink(tgt, outp("x")...), fsLink(c17Outside+"/dir", outp("d")...)),
				with(fsDir(outp("d")...), fsFile("old", outp("x")...), fsLink("..", outp("a")...))}
			for _, n1 := range names {
				for _, n2 := range names {
					for i1 := range nodes {
						for i2 := range nodes {
							for pi, pre := range pres {
								e1 := dent{[]byte(n1), nodes[i1](), true}
								e2 := dent{[]byte(n2), nodes[i2](), true}
								pl := 0
								if pi > 0 {
									pl = 1
								}
								c17Emit(c, "exhaustive-pairs", pre, pick(r, []string{c17Out, "out"}), "", VL{rootN(dirV(0, e1, e2))}, optFile, pl)
							}
						}
					}
				}
			}
		}

		// ---- random hostile DAGs
		n := 110 * c.Scale
		for i := 0; i < n; i++ {
			g := &c17gen{r: r.Fork(), c: c}
			gr := g.r
			g.p = pick(gr, []int{2, 4, 8, 8, 15, 30})
			pre := 0
			fs := append(VL{}, sk...)
			pct := pick(gr, []int{0, 0, 10, 25, 60})
			oddOut := gr.Chance(8)
			fs = append(fs, c17Populate(gr, pct, &pre)...)
			od := pick(gr, c17Outdirs)
			if oddOut {
				od = pick(gr, c17OddOutdirs)
			}
			if gr.Chance(6) {
				od = "-"
				oddOut = true
				g.c.Count("outdir:stdout")
			}
			nroots := pick(gr, []int{1, 1, 1, 2, 2, 3})
			roots := VL{}
			for k := 0; k < nroots; k++ {
				x := gr.Intn(100)
				switch {
				case x < 72:
					d := g.dir(0)
					if gr.Chance(10) {
						// the default map view of a dag-pb node without UnixFS Data (roots only)
						dl := vl(d)
						ok := true
						for _, e := range vl(dl[1]) {
							if len(vb(vnth(e, 0))) == 0 {
								ok = ok && true
							}
						}
						if ok {
							d = VL{dl[0], dl[1], VN(3)}
						}
					}
					roots = append(roots, rootN(d))
				case x < 82:
					roots = append(roots, rootN(fileV(g.fileData(), pick(gr, []int{1, 2, 3, 4}), 1+gr.Intn(2))))
				case x < 87:
					roots = append(roots, VL{VT("raw"), vbool(gr.Bool())})
				case x < 91:
					roots = append(roots, rootN(missV(gr.Bytes(4))))
				case x < 94:
					roots = append(roots, rootN(badV(4, gr.Bytes(4))))
				case x < 97:
					roots = append(roots, rootN(fileErrV([]byte("0123456789abcdef"), 3+gr.Intn(2), 2, gr.Intn(2))))
				default:
					roots = append(roots, rootN(linkV(pick(gr, c17Targets))))
				}
			}
			pf := ""
			if gr.Chance(8) {
				pf = pick(gr, []string{"a", "d", "d/a", "x", "b/c", "nosuch", "ld/keep", "in", "ua0", "ub0/uc0"})
				// LookupByString on a sharded directory goes by the hash of the name; the hand-built
				// shards here do not place entries by hash, so --path is exercised on basic
				// directories only (library-built shards: C18)
				for k := range roots {
					if vt(vnth(roots[k], 0)) == "n" {
						roots[k] = rootN(unshard(vnth(roots[k], 1)))
					}
				}
			}
			// (a CARv2 on a stdin pipe fails before anything is extracted: C18 looks at that)
			useStdin := gr.Chance(20)
			opts := VL{vbool(useStdin), vbool(!useStdin && gr.Chance(12)), VN(0)}
			if !oddOut && gr.Chance(10) {
				od = pick(gr, []string{"/SB/q/p/w/lnk", "/SB/q/p/w/alnk", c17Out})
				opts = VL{vbool(useStdin), vn0(), VN(1)}
			}
			c17Emit(c, "random", fs, od, pf, roots, opts, pre)
		}
	})
}
