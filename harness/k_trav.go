package main

// kind "trav": traversal writers (C15).
//
// input  = (api cfg store traces fixed)
//   api     0 TraverseV1 | 1 NewSelectiveWriter+WriteTo | 2 TraverseToFile
//           3 root SelectiveCar Write / Prepare / Dump  | 4 root WriteCar
//           5 / 6: a history in one process: SelectiveCar.Write / WriteCar into a destination that
//                  fails at its fk-th Write call, then the fault-free api 3 / api 4 run
//   cfg     (roots sel opts ties sels)        -- everything needed to re-run the implementation
//     roots (cid ...)                     (api 0..2: exactly one)
//     sel   (kind depth (path ...))       selector description (selSpec)
//     opts  (dpad ipad codec dups budget chooser nilroots plain ncbw ncbd fk fshort)
//     ties  1 when two distinct CIDs of the store share a digest (index byte order unspecified)
//   store   ((cid data) ...)             the blocks the link system / block store holds
//     sels  api 3: one selector description per Dag entry (roots[i], sels[i])
//   traces  (((cid data nread touched) ...) ok) ...   the ORACLE: what the traversal library
//           opened, in order, per walk (recorded by a logging link system / store / node getter);
//           api 0..2: the walk(s) as seen through go-car's loaders, then (last) a REFERENCE run of
//           the same (root, selector, options) walk directly on ipld-prime (refWalkV2);
//           api 3: one trace per Dag entry from a reference run (refWalkDags); api 4: the CIDs a
//           reference merkledag.Walk presents to its visit function (refVisits); what go-car's own
//           runs fetched is an observable
//   fixed   1: model the repaired counting loader
//
// observation: see travObs* below; the extracted model prints the same shapes (RunTrav.v).

import (
	"bytes"
	"context"
	"errors"
	"fmt"
	"io"
	"math"
	"os"
	"path/filepath"
	"sort"

	blocks "github.com/ipfs/go-block-format"
	"github.com/ipfs/go-cid"
	cbornode "github.com/ipfs/go-ipld-cbor"
	format "github.com/ipfs/go-ipld-format"
	"github.com/ipfs/go-merkledag"
	carv1 "github.com/ipld/go-car"
	carv2 "github.com/ipld/go-car/v2"
	"github.com/ipld/go-car/v2/index"
	dagpb "github.com/ipld/go-codec-dagpb"
	"github.com/ipld/go-ipld-prime/codec"
	_ "github.com/ipld/go-ipld-prime/codec/dagcbor"
	_ "github.com/ipld/go-ipld-prime/codec/raw"
	"github.com/ipld/go-ipld-prime/datamodel"
	"github.com/ipld/go-ipld-prime/linking"
	cidlink "github.com/ipld/go-ipld-prime/linking/cid"
	"github.com/ipld/go-ipld-prime/node/basicnode"
	"github.com/ipld/go-ipld-prime/traversal"
	"github.com/ipld/go-ipld-prime/traversal/selector"
	selb "github.com/ipld/go-ipld-prime/traversal/selector/builder"
	"github.com/multiformats/go-multicodec"
)

// ---- case description -------------------------------------------------------------------

type selSpec struct {
	kind  uint64 // 0 explore-all-recursive, 1 depth-limited explore-all, 2 field path then explore-all below, 3 match root only, 4 union of two field paths, 5 field path only (match its target)
	depth uint64
	path  []string
	path2 []string
}

func (s selSpec) val() Val {
	p := VL{}
	for _, x := range s.path {
		p = append(p, VB([]byte(x)))
	}
	p2 := VL{}
	for _, x := range s.path2 {
		p2 = append(p2, VB([]byte(x)))
	}
	return VL{VN(s.kind), VN(s.depth), p, p2}
}

func selFromVal(v Val) selSpec {
	l := v.(VL)
	s := selSpec{kind: uint64(l[0].(VN)), depth: uint64(l[1].(VN))}
	for _, x := range l[2].(VL) {
		s.path = append(s.path, string(x.(VB)))
	}
	for _, x := range l[3].(VL) {
		s.path2 = append(s.path2, string(x.(VB)))
	}
	return s
}

func (s selSpec) node() datamodel.Node {
	ssb := selb.NewSelectorSpecBuilder(basicnode.Prototype.Any)
	all := ssb.ExploreRecursive(selector.RecursionLimitNone(), ssb.ExploreAll(ssb.ExploreRecursiveEdge()))
	pathTo := func(path []string, tail selb.SelectorSpec) selb.SelectorSpec {
		cur := tail
		for i := len(path) - 1; i >= 0; i-- {
			name := path[i]
			inner := cur
			cur = ssb.ExploreFields(func(b selb.ExploreFieldsSpecBuilder) { b.Insert(name, inner) })
		}
		return cur
	}
	switch s.kind {
	case 0:
		return all.Node()
	case 1:
		return ssb.ExploreRecursive(selector.RecursionLimitDepth(int64(s.depth)), ssb.ExploreAll(ssb.ExploreRecursiveEdge())).Node()
	case 2:
		return pathTo(s.path, all).Node()
	case 3:
		return ssb.Matcher().Node()
	case 5:
		return pathTo(s.path, ssb.Matcher()).Node()
	default:
		return ssb.ExploreUnion(pathTo(s.path, all), pathTo(s.path2, all)).Node()
	}
}

type travOpts struct {
	dpad, ipad uint64
	codec      uint64 // 0 = not given
	dups       bool   // v2: AllowDuplicatePuts(true) (= link-visit-once off); root: !TraverseLinksOnlyOnce
	budget     uint64 // 0 = not given, else MaxTraversalLinks(budget-1)
	chooser    bool   // v2: WithTraversalPrototypeChooser(dagpb-aware)
	nilRoots   bool   // api 4: pass a nil root slice when there are no roots
	plain      bool   // api 4: WriteCar (DefaultWalkFunc) instead of WriteCarWithWalker
	ncbW, ncbD uint64 // api 3: number of OnNewCarBlock callbacks given to Write / to Prepare (used by Dump)
	fk         uint64 // api 5/6: the destination of the first write fails at its fk-th Write call
	fshort     bool   // api 5/6: ... after accepting half of that call (short write) instead of nothing
}

func (o travOpts) val() Val {
	return VL{VN(o.dpad), VN(o.ipad), VN(o.codec), vbool(o.dups), VN(o.budget), vbool(o.chooser), vbool(o.nilRoots), vbool(o.plain), VN(o.ncbW), VN(o.ncbD), VN(o.fk), vbool(o.fshort)}
}
func travOptsFromVal(v Val) travOpts {
	l := v.(VL)
	o := travOpts{uint64(l[0].(VN)), uint64(l[1].(VN)), uint64(l[2].(VN)), l[3].(VN) != 0, uint64(l[4].(VN)), l[5].(VN) != 0, l[6].(VN) != 0, false, 0, 0, 0, false}
	if len(l) > 7 {
		o.plain = l[7].(VN) != 0
	}
	if len(l) > 9 {
		o.ncbW, o.ncbD = uint64(l[8].(VN)), uint64(l[9].(VN))
	}
	if len(l) > 11 {
		o.fk, o.fshort = uint64(l[10].(VN)), l[11].(VN) != 0
	}
	return o
}
func (o travOpts) v2() []carv2.Option {
	var out []carv2.Option
	if o.dpad != 0 {
		out = append(out, carv2.UseDataPadding(o.dpad))
	}
	if o.ipad != 0 {
		out = append(out, carv2.UseIndexPadding(o.ipad))
	}
	if o.codec != 0 {
		out = append(out, carv2.UseIndexCodec(multicodec.Code(o.codec)))
	}
	if o.dups {
		out = append(out, carv2.AllowDuplicatePuts(true))
	}
	if o.budget != 0 {
		out = append(out, carv2.MaxTraversalLinks(o.budget-1))
	}
	if o.chooser {
		out = append(out, carv2.WithTraversalPrototypeChooser(dagpb.AddSupportToChooser(func(datamodel.Link, linking.LinkContext) (datamodel.NodePrototype, error) {
			return basicnode.Prototype.Any, nil
		})))
	}
	return out
}
func (o travOpts) root() []carv1.Option {
	var out []carv1.Option
	if !o.dups {
		out = append(out, carv1.TraverseLinksOnlyOnce())
	}
	if o.budget != 0 {
		out = append(out, carv1.MaxTraversalLinks(o.budget-1))
	}
	return out
}

type travCase struct {
	api   uint64
	roots []cid.Cid
	sel   selSpec
	sels  []selSpec // api 3: one selector per Dag entry (roots[i], sels[i]); empty = sel for all
	opts  travOpts
	store []Blk // ordered table; lookups by CID key
}

func (tc *travCase) dagSel(i int) selSpec {
	if i < len(tc.sels) {
		return tc.sels[i]
	}
	return tc.sel
}

func (tc *travCase) storeMap() map[string][]byte {
	m := map[string][]byte{}
	for _, b := range tc.store {
		if _, ok := m[b.Cid.KeyString()]; !ok {
			m[b.Cid.KeyString()] = b.Data
		}
	}
	return m
}

func (tc *travCase) ties() bool {
	seen := map[string]string{}
	for _, b := range tc.store {
		d := string(digestOf(b.Cid))
		if k, ok := seen[d]; ok && k != b.Cid.KeyString() {
			return true
		}
		seen[d] = b.Cid.KeyString()
	}
	return false
}

func digestOf(c cid.Cid) []byte {
	h := []byte(c.Hash())
	return h[len(h)-digestLen(h):]
}

// ---- the oracle recorders ------------------------------------------------------------------

type loadRec struct {
	cid     []byte
	data    []byte
	nread   uint64
	touched bool
}
type walkLog struct {
	loads []*loadRec
}

func (w *walkLog) val(ok bool) Val {
	ls := VL{}
	for _, l := range w.loads {
		ls = append(ls, VL{VB(l.cid), VB(l.data), VN(l.nread), vbool(l.touched)})
	}
	return VL{ls, vbool(ok)}
}

func (w *walkLog) cids() Val {
	out := VL{}
	for _, l := range w.loads {
		out = append(out, VB(l.cid))
	}
	return out
}

type cntReader struct {
	r   io.Reader
	rec *loadRec
}

func (c *cntReader) Read(p []byte) (int, error) {
	n, err := c.r.Read(p)
	if c.rec != nil {
		c.rec.touched = true
		c.rec.nread += uint64(n)
	}
	return n, err
}

type errNotFound struct{ c cid.Cid }

func (e errNotFound) Error() string  { return "block not found: " + e.c.String() }
func (e errNotFound) NotFound() bool { return true }

// loggingLinkSystem: storage = the case's block table; every successful open is appended to
// *cur; the decoder it hands out measures how much of the reader the codec consumed.
func loggingLinkSystem(store map[string][]byte, cur **walkLog) linking.LinkSystem {
	ls := cidlink.DefaultLinkSystem()
	var last *loadRec
	ls.StorageReadOpener = func(_ linking.LinkContext, l datamodel.Link) (io.Reader, error) {
		cl, ok := l.(cidlink.Link)
		if !ok {
			return nil, fmt.Errorf("not a cid link")
		}
		d, ok := store[cl.Cid.KeyString()]
		if !ok {
			return nil, errNotFound{cl.Cid}
		}
		last = &loadRec{cid: cl.Cid.Bytes(), data: d}
		(*cur).loads = append((*cur).loads, last)
		return bytes.NewReader(d), nil
	}
	inner := ls.DecoderChooser
	ls.DecoderChooser = func(l datamodel.Link) (codec.Decoder, error) {
		dec, err := inner(l)
		if err != nil {
			return nil, err
		}
		return func(na datamodel.NodeAssembler, r io.Reader) error {
			rec := last
			last = nil
			return dec(na, &cntReader{r, rec})
		}, nil
	}
	return ls
}

// loggingStore: ReadStore for the root-module SelectiveCar
type loggingStore struct {
	store map[string][]byte
	cur   **walkLog
}

func (s loggingStore) Get(_ context.Context, c cid.Cid) (blocks.Block, error) {
	d, ok := s.store[c.KeyString()]
	if !ok {
		return nil, errNotFound{c}
	}
	(*s.cur).loads = append((*s.cur).loads, &loadRec{cid: c.Bytes(), data: d, nread: uint64(len(d)), touched: true})
	return blocks.NewBlockWithCid(d, c)
}

// refWalkDags is the reference for the root-module SelectiveCar: for every Dag entry in order, the
// selector walk the API promises -- Load(root) with the dag-pb-aware prototype chooser, then
// WalkAdv of the Dag's selector with LinkVisitOnlyOnce = TraverseLinksOnlyOnce and a fresh link
// budget of MaxTraversalLinks -- run directly on ipld-prime over a logging link system backed by
// the same block table (hashes verified, as cidlink.DefaultLinkSystem does).  One trace per Dag;
// the first failing walk ends the list (SelectiveCar aborts there).
func refWalkDags(store map[string][]byte, tc *travCase) Val {
	out := VL{}
	nsc := func(lnk datamodel.Link, _ linking.LinkContext) (datamodel.NodePrototype, error) {
		if cl, ok := lnk.(cidlink.Link); ok && cl.Cid.Prefix().Codec == cid.DagProtobuf {
			return dagpb.Type.PBNode, nil
		}
		return basicnode.Prototype.Any, nil
	}
	for i, r := range tc.roots {
		cur := &walkLog{}
		ls := loggingLinkSystem(store, &cur)
		err := func() error {
			parsed, err := selector.ParseSelector(tc.dagSel(i).node())
			if err != nil {
				return err
			}
			lnk := cidlink.Link{Cid: r}
			ns, _ := nsc(lnk, linking.LinkContext{})
			nd, err := ls.Load(linking.LinkContext{Ctx: context.Background()}, lnk, ns)
			if err != nil {
				return err
			}
			prog := traversal.Progress{Cfg: &traversal.Config{
				Ctx:                            context.Background(),
				LinkSystem:                     ls,
				LinkTargetNodePrototypeChooser: nsc,
				LinkVisitOnlyOnce:              !tc.opts.dups,
			}}
			if tc.opts.budget != 0 {
				prog.Budget = &traversal.Budget{NodeBudget: math.MaxInt64, LinkBudget: int64(tc.opts.budget - 1)}
			}
			return prog.WalkAdv(nd, parsed, func(traversal.Progress, datamodel.Node, traversal.VisitReason) error { return nil })
		}()
		out = append(out, cur.val(err == nil))
		if err != nil {
			break
		}
	}
	return out
}

// refWalkV2 is the reference for the v2 writers: the walk v2's options promise for (root, selector)
// -- trusted storage, basicnode.Any (or the caller's dag-pb-aware chooser), LinkVisitOnlyOnce =
// !AllowDuplicatePuts, link budget MaxTraversalLinks, WalkMatching -- run directly on ipld-prime.
func refWalkV2(store map[string][]byte, tc *travCase) Val {
	cur := &walkLog{}
	ls := loggingLinkSystem(store, &cur)
	ls.TrustedStorage = true
	chooser := func(datamodel.Link, linking.LinkContext) (datamodel.NodePrototype, error) {
		return basicnode.Prototype.Any, nil
	}
	if tc.opts.chooser {
		chooser = dagpb.AddSupportToChooser(chooser)
	}
	err := func() error {
		sel, err := selector.CompileSelector(tc.sel.node())
		if err != nil {
			return err
		}
		lnk := cidlink.Link{Cid: tc.roots[0]}
		rp, err := chooser(lnk, linking.LinkContext{})
		if err != nil {
			return err
		}
		nd, err := ls.Load(linking.LinkContext{}, lnk, rp)
		if err != nil {
			return err
		}
		prog := traversal.Progress{Cfg: &traversal.Config{
			Ctx:                            context.Background(),
			LinkSystem:                     ls,
			LinkTargetNodePrototypeChooser: chooser,
			LinkVisitOnlyOnce:              !tc.opts.dups,
		}}
		if tc.opts.budget != 0 {
			prog.Budget = &traversal.Budget{NodeBudget: math.MaxInt64, LinkBudget: int64(tc.opts.budget - 1)}
		}
		return prog.WalkMatching(nd, sel, func(traversal.Progress, datamodel.Node) error { return nil })
	}()
	return cur.val(err == nil)
}

// refVisits is the reference for WriteCar: merkledag.Walk over the same block table with the
// harness's own visit function (one seen set shared by all roots, every presented CID logged) and a
// getLinks that only fetches.  A presented CID whose fetch fails ends the walk and is not part of the
// sequence (nothing is written for it).
func refVisits(store map[string][]byte, roots []cid.Cid) Val {
	out := &walkLog{}
	seen := cid.NewSet()
	visit := func(c cid.Cid) bool {
		d := store[c.KeyString()]
		out.loads = append(out.loads, &loadRec{cid: c.Bytes(), data: d, nread: uint64(len(d)), touched: true})
		return seen.Visit(c)
	}
	getLinks := func(_ context.Context, c cid.Cid) ([]*format.Link, error) {
		d, ok := store[c.KeyString()]
		if !ok {
			return nil, errNotFound{c}
		}
		nd, err := decodeFormatNode(c, d)
		if err != nil {
			return nil, err
		}
		return nd.Links(), nil
	}
	var err error
	for _, r := range roots {
		if err = merkledag.Walk(context.Background(), getLinks, r, visit); err != nil {
			out.loads = out.loads[:len(out.loads)-1]
			break
		}
	}
	return out.val(err == nil)
}

// loggingGetter: format.NodeGetter for WriteCar; records Get calls and (through the walk
// function) the links each fetched node reports.
type getEvent struct {
	c      cid.Cid
	data   []byte
	links  []cid.Cid
	failed bool
}
type loggingGetter struct {
	store  map[string][]byte
	events []*getEvent
}

// detNode fixes the order of Links(): go-ipld-cbor decodes maps into Go maps and lists their
// links in map-iteration order, which would make the recorded oracle differ from run to run
// (and a replay differ from its recording).  The node getter is the caller's; any format.Node
// implementation is legitimate.
type detNode struct {
	format.Node
	links []*format.Link
}

func (d detNode) Links() []*format.Link { return d.links }

func decodeFormatNode(c cid.Cid, d []byte) (format.Node, error) {
	b, err := blocks.NewBlockWithCid(d, c)
	if err != nil {
		return nil, err
	}
	switch c.Prefix().Codec {
	case cid.DagProtobuf:
		return merkledag.DecodeProtobufBlock(b)
	case cid.DagCBOR:
		nd, err := cbornode.DecodeBlock(b)
		if err != nil {
			return nil, err
		}
		ls := append([]*format.Link(nil), nd.Links()...)
		sort.SliceStable(ls, func(i, j int) bool { return bytes.Compare(ls[i].Cid.Bytes(), ls[j].Cid.Bytes()) < 0 })
		return detNode{nd, ls}, nil
	default:
		return merkledag.DecodeRawBlock(b)
	}
}

func (g *loggingGetter) Get(_ context.Context, c cid.Cid) (format.Node, error) {
	d, ok := g.store[c.KeyString()]
	if !ok {
		g.events = append(g.events, &getEvent{c: c, failed: true})
		return nil, errNotFound{c}
	}
	nd, err := decodeFormatNode(c, d)
	if err != nil {
		g.events = append(g.events, &getEvent{c: c, failed: true})
		return nil, err
	}
	ev := &getEvent{c: c, data: d}
	for _, l := range nd.Links() { // what DefaultWalkFunc will return for this node
		ev.links = append(ev.links, l.Cid)
	}
	g.events = append(g.events, ev)
	return nd, nil
}
func (g *loggingGetter) GetMany(ctx context.Context, cs []cid.Cid) <-chan *format.NodeOption {
	ch := make(chan *format.NodeOption, len(cs))
	for _, c := range cs {
		nd, err := g.Get(ctx, c)
		ch <- &format.NodeOption{Node: nd, Err: err}
	}
	close(ch)
	return ch
}

// walk is the WalkFunc handed to WriteCarWithWalker: the node's links, logged for the node just fetched
func (g *loggingGetter) walk(nd format.Node) ([]*format.Link, error) {
	ls := nd.Links()
	if len(g.events) > 0 {
		ev := g.events[len(g.events)-1]
		if ev.c.Equals(nd.Cid()) {
			ev.links = nil
			for _, l := range ls {
				ev.links = append(ev.links, l.Cid)
			}
		}
	}
	return ls, nil
}

// (kept for other producers; C15 itself now uses refVisits)
// visitSequence rebuilds the sequence of CIDs merkledag's sequential walk presented to the
// visit function from the logged Get / walk events: a presented CID was "first visit" exactly
// when the next logged Get is for it.
func (g *loggingGetter) visitSequence(roots []cid.Cid) *walkLog {
	out := &walkLog{}
	gi := 0
	stop := false
	var visit func(c cid.Cid)
	visit = func(c cid.Cid) {
		if stop {
			return
		}
		d := g.store[c.KeyString()]
		if gi < len(g.events) && g.events[gi].c.Equals(c) {
			ev := g.events[gi]
			gi++
			if ev.failed { // the fetch failed: the walk stops here, nothing was written for c
				stop = true
				return
			}
			out.loads = append(out.loads, &loadRec{cid: c.Bytes(), data: ev.data, nread: uint64(len(ev.data)), touched: true})
			for _, l := range ev.links {
				visit(l)
			}
			return
		}
		out.loads = append(out.loads, &loadRec{cid: c.Bytes(), data: d, nread: uint64(len(d)), touched: true})
	}
	for _, r := range roots {
		visit(r)
	}
	return out
}

// ---- error classes -------------------------------------------------------------------------

type cappedBuffer struct {
	bytes.Buffer
	max  int
	full bool
}

func (b *cappedBuffer) Write(p []byte) (int, error) {
	if b.Len()+len(p) > b.max {
		b.full = true
		return 0, errors.New("destination full")
	}
	return b.Buffer.Write(p)
}

// faultWriter fails at its k-th Write call (0-based): it accepts nothing (or, short, the first half)
// of that call and returns an error; what it accepted before is kept.
type faultWriter struct {
	bytes.Buffer
	k, calls uint64
	short    bool
}

func (f *faultWriter) Write(p []byte) (int, error) {
	if f.calls == f.k {
		f.calls++
		if f.short {
			n := len(p) / 2
			f.Buffer.Write(p[:n])
			return n, io.ErrShortWrite
		}
		return 0, errors.New("destination failed")
	}
	f.calls++
	return f.Buffer.Write(p)
}

// errPanicked stands for a runtime panic recovered around a go-car call
var errPanicked = errors.New("panicked")

func travErr(err error) Val {
	switch {
	case err == errPanicked:
		return VT("panic")
	case err == nil:
		return VT("nil")
	case errors.Is(err, carv2.ErrSizeMismatch):
		return VT("sizemismatch")
	case errors.Is(err, carv2.ErrOffsetImpossible):
		return VT("offsetimpossible")
	}
	return VT("other")
}

// ---- observation helpers (functions of the OUTPUT BYTES only) ---------------------------------

// splitIndex cuts a CARv2 byte string at the index offset its own header declares.
func splitIndex(out []byte) (pre, idx []byte) {
	if len(out) < 51 || !bytes.Equal(out[:11], carv2.Pragma) {
		return out, nil
	}
	var h carv2.Header
	if _, err := h.ReadFrom(bytes.NewReader(out[11:51])); err != nil {
		return out, nil
	}
	if h.IndexOffset == 0 || h.IndexOffset > uint64(len(out)) {
		return out, nil
	}
	return out[:h.IndexOffset], out[h.IndexOffset:]
}

// idxObs = (len exact lookups): lookups[i] = sorted offsets index.GetAll reports for store[i]
func idxObs(idx []byte, store []Blk, ties bool) Val {
	if idx == nil {
		return VL{VN(0), VB(nil), VL{}}
	}
	exact := VB(idx)
	if ties {
		exact = VB(nil)
	}
	lookups := VL{}
	ix, err := index.ReadFrom(bytes.NewReader(idx))
	if err != nil {
		return VL{VN(uint64(len(idx))), exact, VT("unreadable")}
	}
	for _, b := range store {
		var offs []uint64
		_ = ix.GetAll(b.Cid, func(o uint64) bool { offs = append(offs, o); return true })
		sort.Slice(offs, func(i, j int) bool { return offs[i] < offs[j] })
		l := VL{}
		for _, o := range offs {
			l = append(l, VN(o))
		}
		lookups = append(lookups, l)
	}
	return VL{VN(uint64(len(idx))), exact, lookups}
}

// cbLog is the event log shared by the k registered OnNewCarBlock callbacks of one run:
// (callback index, Block) in call order.
type cbLog struct{ evs VL }

func (l *cbLog) callbacks(k uint64) []carv1.OnNewCarBlockFunc {
	var out []carv1.OnNewCarBlockFunc
	for i := uint64(0); i < k; i++ {
		i := i
		out = append(out, func(b carv1.Block) error {
			l.evs = append(l.evs, VL{VN(i), VB(b.BlockCID.Bytes()), VB(append([]byte(nil), b.Data...)), VN(b.Offset), VN(b.Size)})
			return nil
		})
	}
	return out
}
func (l *cbLog) val() Val {
	if l.evs == nil {
		return VL{}
	}
	return l.evs
}

// ---- running the implementation -----------------------------------------------------------------

// runTrav drives the implementation; returns the recorded traces and the observation.
func runTrav(c *Ctx, tc *travCase) (traces Val, obs Val) {
	ctx := context.Background()
	store := tc.storeMap()
	ties := tc.ties()
	cur := &walkLog{}
	switch tc.api {
	case 5, 6:
		// first a write into a failing destination, then -- same process -- the fault-free run
		fw := &faultWriter{k: tc.opts.fk, short: tc.opts.fshort}
		var ferr error
		if tc.api == 5 {
			var dags []carv1.Dag
			for i, r := range tc.roots {
				dags = append(dags, carv1.Dag{Root: r, Selector: tc.dagSel(i).node()})
			}
			ferr = carv1.NewSelectiveCar(ctx, loggingStore{store, &cur}, dags, tc.opts.root()...).Write(fw)
		} else {
			roots := tc.roots
			if len(roots) == 0 && !tc.opts.nilRoots {
				roots = []cid.Cid{}
			}
			ferr = carv1.WriteCar(ctx, &loggingGetter{store: store}, roots, fw)
		}
		ph1 := VL{VB(fw.Bytes()), travErr(ferr)}
		second := *tc
		second.api = tc.api - 2
		traces, obs := runTrav(c, &second)
		return traces, append(VL{ph1}, obs.(VL)...)
	case 0:
		ls := loggingLinkSystem(store, &cur)
		var buf bytes.Buffer
		n, err := carv2.TraverseV1(ctx, &ls, tc.roots[0], tc.sel.node(), &buf, tc.opts.v2()...)
		return VL{cur.val(err == nil), refWalkV2(store, tc)}, VL{VB(buf.Bytes()), VN(n), travErr(err)}
	case 1:
		ls := loggingLinkSystem(store, &cur)
		w, err := carv2.NewSelectiveWriter(ctx, &ls, tc.roots[0], tc.sel.node(), tc.opts.v2()...)
		t1 := cur.val(err == nil)
		if err != nil {
			return VL{t1, (&walkLog{}).val(true), refWalkV2(store, tc)}, VL{VT("ctor"), travErr(err)}
		}
		cur = &walkLog{}
		// the destination refuses to grow past 64 MiB: a padding above the allocation limit makes
		// today's code panic before writing; a writer that streams it instead must not exhaust memory
		buf := cappedBuffer{max: 16 << 20}
		var n int64
		var werr error
		func() {
			defer func() {
				if r := recover(); r != nil {
					n, werr = 0, errPanicked
				}
			}()
			n, werr = w.WriteTo(&buf)
		}()
		// any error other than the two sentinels is reported as class "other"; the model prints
		// the same class for a failed walk and for index.New rejecting the codec, and produces
		// the same bytes in both cases, so ok=false is a safe reading of "other"
		walkOK := werr == nil || werr == errPanicked || errors.Is(werr, carv2.ErrSizeMismatch) || errors.Is(werr, carv2.ErrOffsetImpossible)
		if buf.full { // never reached by the model (it panics first): report a short prefix only
			buf.Truncate(64)
		}
		pre, idx := splitIndex(buf.Bytes())
		return VL{t1, cur.val(walkOK), refWalkV2(store, tc)}, VL{VT("ok"), VB(pre), idxObs(idx, tc.store, ties), VN(uint64(n)), travErr(werr)}
	case 2:
		ls := loggingLinkSystem(store, &cur)
		path := filepath.Join(c.Work, "ttf.car")
		os.Remove(path)
		var err error
		func() {
			defer func() {
				if r := recover(); r != nil {
					err = errPanicked
				}
			}()
			err = carv2.TraverseToFile(ctx, &ls, tc.roots[0], tc.sel.node(), path, tc.opts.v2()...)
		}()
		walkOK := err == nil || err == errPanicked || errors.Is(err, carv2.ErrSizeMismatch) || errors.Is(err, carv2.ErrOffsetImpossible)
		data, _ := os.ReadFile(path)
		os.Remove(path)
		pre, idx := splitIndex(data)
		return VL{cur.val(walkOK), refWalkV2(store, tc)}, VL{VB(pre), idxObs(idx, tc.store, ties), travErr(err)}
	case 3:
		st := loggingStore{store, &cur}
		var dags []carv1.Dag
		for i, r := range tc.roots {
			dags = append(dags, carv1.Dag{Root: r, Selector: tc.dagSel(i).node()})
		}
		sc := carv1.NewSelectiveCar(ctx, st, dags, tc.opts.root()...)
		var wbuf bytes.Buffer
		wlog := &cbLog{}
		werr := sc.Write(&wbuf, wlog.callbacks(tc.opts.ncbW)...)
		wobs := VL{VB(wbuf.Bytes()), travErr(werr), wlog.val(), cur.cids()}
		cur = &walkLog{}
		dlog := &cbLog{}
		prep, perr := sc.Prepare(dlog.callbacks(tc.opts.ncbD)...)
		pgets := cur.cids()
		// the oracle: what each (root, selector) walk opens, from a reference run of the
		// traversal library that does not go through go-car
		ref := refWalkDags(store, tc)
		if perr != nil {
			return ref, VL{wobs, VL{travErr(perr), VN(0), VL{}, VL{}, pgets}, VL{VT("skipped")}}
		}
		pobs := VL{travErr(nil), VN(prep.Size()), cidsVal(prep.Cids()), cidsVal(prep.Header().Roots), pgets}
		cur = &walkLog{}
		var dbuf bytes.Buffer
		derr := prep.Dump(ctx, &dbuf)
		dobs := VL{VB(dbuf.Bytes()), travErr(derr), dlog.val()}
		return ref, VL{wobs, pobs, dobs}
	default:
		g := &loggingGetter{store: store}
		var buf bytes.Buffer
		roots := tc.roots
		if len(roots) == 0 && !tc.opts.nilRoots {
			roots = []cid.Cid{}
		}
		var err error
		if tc.opts.plain {
			err = carv1.WriteCar(ctx, g, roots, &buf)
		} else {
			err = carv1.WriteCarWithWalker(ctx, g, roots, &buf, g.walk)
		}
		gets := VL{}
		for _, ev := range g.events {
			if !ev.failed {
				gets = append(gets, VB(ev.c.Bytes()))
			}
		}
		return VL{refVisits(store, tc.roots)}, VL{VB(buf.Bytes()), travErr(err), gets}
	}
}

func (tc *travCase) cfgVal() Val {
	sels := VL{}
	for _, x := range tc.sels {
		sels = append(sels, x.val())
	}
	return VL{cidsVal(tc.roots), tc.sel.val(), tc.opts.val(), vbool(tc.ties()), sels}
}

const travFixed = 1 // the counting loader de-duplicates (notes/fixes/C15-*.patch)

func emitTrav(c *Ctx, tc *travCase, nontrivial func(traces Val) bool) {
	traces, obs := runTrav(c, tc)
	in := VL{VN(tc.api), tc.cfgVal(), blksVal(tc.store), traces, VN(travFixed)}
	c.Emit("trav", in, obs, nontrivial(traces))
}

func travCaseFromVal(in Val) *travCase {
	l := in.(VL)
	cfg := l[1].(VL)
	tc := &travCase{api: uint64(l[0].(VN)), sel: selFromVal(cfg[1]), opts: travOptsFromVal(cfg[2])}
	if len(cfg) > 4 {
		for _, x := range cfg[4].(VL) {
			tc.sels = append(tc.sels, selFromVal(x))
		}
	}
	for _, r := range cfg[0].(VL) {
		c, err := cid.Cast([]byte(r.(VB)))
		if err != nil {
			panic(err)
		}
		tc.roots = append(tc.roots, c)
	}
	for _, b := range l[2].(VL) {
		bl := b.(VL)
		c, err := cid.Cast([]byte(bl[0].(VB)))
		if err != nil {
			panic(err)
		}
		tc.store = append(tc.store, Blk{c, []byte(bl[1].(VB))})
	}
	return tc
}

func init() {
	registerReplay("trav", func(c *Ctx, in Val) Val {
		_, obs := runTrav(c, travCaseFromVal(in))
		return obs
	})
}

var _ = math.MaxInt64
