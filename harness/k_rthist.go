package main

import (
	"bytes"
	"io"
	"os"
	"path/filepath"

	blocks "github.com/ipfs/go-block-format"
	"github.com/ipfs/go-cid"
	carv1 "github.com/ipld/go-car"
	carv2 "github.com/ipld/go-car/v2"
	"github.com/ipld/go-car/v2/index"
)

// kinds "rthist" (several sequential readers of one kind alive at once, interleaved, Next again after
// io.EOF) and "rtpos" (a seekable source positioned at the CAR behind a preamble); see RunRt.v.

type c01Stepper interface {
	Next() (blocks.Block, error)
}

func c01RunHist(kind uint64, o rOpts, files [][]byte, sched VL) Val {
	readers := make([]c01Stepper, len(files))
	out := VL{}
	for _, op := range sched {
		i := int(op.(VL)[0].(VN))
		if op.(VL)[1].(VT) == "open" {
			var roots []cid.Cid
			var err error
			var st c01Stepper
			src := bytes.NewReader(files[i])
			switch kind {
			case 0:
				var cr *carv1.CarReader
				if cr, err = carv1.NewCarReader(src); err == nil {
					st, roots = cr, cr.Header.Roots
				}
			case 1:
				var v *carv2.VerifC01CarV1Reader
				if v, roots, err = carv2.VerifC01NewCarV1Reader(src, o.zeof, o.maxH, o.maxS); err == nil {
					st = v
				}
			default:
				var br *carv2.BlockReader
				if br, err = carv2.NewBlockReader(src, o.v2()...); err == nil {
					st, roots = br, br.Roots
				}
			}
			if err != nil {
				readers[i] = nil
				out = append(out, VL{VT("err"), verr(err)})
			} else {
				readers[i] = st
				out = append(out, VL{VT("roots"), cidsVal(roots)})
			}
			continue
		}
		if readers[i] == nil {
			out = append(out, VL{VT("err"), VT("other")})
			continue
		}
		b, err := readers[i].Next()
		if err != nil {
			out = append(out, VL{VT("err"), verr(err)})
		} else {
			out = append(out, VL{VT("block"), VB(b.Cid().Bytes()), VB(b.RawData())})
		}
	}
	return out
}

// c01Positioned presents preamble ++ file through a seekable source standing at the first byte of the CAR.
// kinds: 0 *bytes.Reader after Seek, 1 *os.File after Seek, 2 io.SectionReader over the whole after Seek,
// 3 io.SectionReader starting at the CAR
func c01Positioned(c *Ctx, kind int, preamble, file []byte) (io.Reader, func()) {
	all := append(append([]byte(nil), preamble...), file...)
	n := int64(len(preamble))
	switch kind {
	case 1:
		p := filepath.Join(c.Work, "pos.car")
		if err := os.WriteFile(p, all, 0o644); err != nil {
			panic(err)
		}
		f, err := os.Open(p)
		if err != nil {
			panic(err)
		}
		f.Seek(n, io.SeekStart)
		return f, func() { f.Close(); os.Remove(p) }
	case 2:
		s := io.NewSectionReader(bytes.NewReader(all), 0, int64(len(all)))
		s.Seek(n, io.SeekStart)
		return s, func() {}
	case 3:
		return io.NewSectionReader(bytes.NewReader(all), n, int64(len(file))), func() {}
	default:
		r := bytes.NewReader(all)
		r.Seek(n, io.SeekStart)
		return r, func() {}
	}
}

func c01RunPos(c *Ctx, entry uint64, o rOpts, file, preamble []byte, srckind int) Val {
	r, done := c01Positioned(c, srckind, preamble, file)
	defer done()
	if entry == 0 {
		br, err := carv2.NewBlockReader(r, o.v2()...)
		if err != nil {
			return VL{VT("openerr"), verr(err)}
		}
		var bs []blocks.Block
		for {
			b, err := br.Next()
			if err != nil {
				return VL{VT("ok"), VN(br.Version), cidsVal(br.Roots), blocksObs(bs, err)}
			}
			bs = append(bs, b)
		}
	}
	if entry == 2 {
		idx, err := carv2.GenerateIndex(r)
		if err != nil {
			return VL{VT("err"), verr(err)}
		}
		var buf bytes.Buffer
		if _, err := index.WriteTo(idx, &buf); err != nil {
			return VL{VT("err"), verr(err)}
		}
		return VL{VT("ok"), VB(buf.Bytes())}
	}
	v, err := carv2.ReadVersion(r, o.v2()...)
	if err != nil {
		return VL{VT("err"), verr(err)}
	}
	return VL{VT("ok"), VN(v)}
}

func init() {
	registerReplay("rthist", func(c *Ctx, in Val) Val {
		l := in.(VL)
		ol := l[1].(VL)
		o := rOpts{ol[0].(VN) != 0, uint64(ol[1].(VN)), uint64(ol[2].(VN)), ol[3].(VN) != 0}
		var files [][]byte
		for _, f := range l[2].(VL) {
			files = append(files, []byte(f.(VB)))
		}
		return c01RunHist(uint64(l[0].(VN)), o, files, l[3].(VL))
	})
	registerReplay("rtpos", func(c *Ctx, in Val) Val {
		l := in.(VL)
		ol := l[2].(VL)
		o := rOpts{ol[0].(VN) != 0, uint64(ol[1].(VN)), uint64(ol[2].(VN)), ol[3].(VN) != 0}
		return c01RunPos(c, uint64(l[0].(VN)), o, []byte(l[1].(VB)), []byte(l[6].(VB)), int(l[7].(VN)))
	})
}
