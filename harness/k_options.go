package main

import (
	carv2 "github.com/ipld/go-car/v2"
	"github.com/multiformats/go-multicodec"
)

// kind applyopts (theories/RunOptions.v): carv2.ApplyOptions on an option list.

type c03Opt struct {
	tag string
	n   uint64
}

func (o c03Opt) val() Val { return VL{VT(o.tag), VN(o.n)} }

func (o c03Opt) option() carv2.Option {
	b := o.n != 0
	switch o.tag {
	case "zeof":
		return carv2.ZeroLengthSectionAsEOF(b)
	case "dpad":
		return carv2.UseDataPadding(o.n)
	case "ipad":
		return carv2.UseIndexPadding(o.n)
	case "codec":
		return carv2.UseIndexCodec(multicodec.Code(o.n))
	case "noindex":
		return carv2.WithoutIndex()
	case "storeid":
		return carv2.StoreIdentityCIDs(b)
	case "maxcid":
		return carv2.MaxIndexCidSize(o.n)
	case "trusted":
		return carv2.WithTrustedCAR(b)
	case "maxh":
		return carv2.MaxAllowedHeaderSize(o.n)
	case "maxs":
		return carv2.MaxAllowedSectionSize(o.n)
	case "wholecids":
		return carv2.UseWholeCIDs(b)
	case "asv1":
		return carv2.WriteAsCarV1(b)
	case "allowdup":
		return carv2.AllowDuplicatePuts(b)
	}
	panic("unknown option tag " + o.tag)
}

func c03ApplyOptionsObs(l []c03Opt) Val {
	var opts []carv2.Option
	for _, o := range l {
		opts = append(opts, o.option())
	}
	r := carv2.ApplyOptions(opts...)
	return VL{VN(r.DataPadding), VN(r.IndexPadding), VN(uint64(r.IndexCodec)), vbool(r.ZeroLengthSectionAsEOF),
		VN(r.MaxIndexCidSize), vbool(r.StoreIdentityCIDs), vbool(r.BlockstoreAllowDuplicatePuts),
		vbool(r.BlockstoreUseWholeCIDs), VN(r.MaxTraversalLinks), vbool(r.WriteAsCarV1), vbool(r.TrustedCAR),
		VN(r.MaxAllowedHeaderSize), VN(r.MaxAllowedSectionSize)}
}

var c03OptTags = []string{"zeof", "dpad", "ipad", "codec", "noindex", "storeid", "maxcid", "trusted", "maxh", "maxs", "wholecids", "asv1", "allowdup"}

func c03GenOpt(r *RNG) c03Opt {
	t := pick(r, c03OptTags)
	var n uint64
	switch t {
	case "codec":
		n = pick(r, []uint64{0, 0, 0x0400, 0x0401, 0x300000, 0x300003, 0x55, 1<<63 - 1})
	case "maxcid":
		n = pick(r, []uint64{0, 0, 1, 36, 2048, 2049, 32<<20 - 9, 32<<20 - 8, 32<<20 - 7, 32 << 20, 1 << 40, 1<<64 - 1})
	case "maxh", "maxs":
		n = pick(r, []uint64{0, 0, 1, 17, 8 << 20, 32 << 20, 1 << 40, 1<<64 - 1})
	case "dpad", "ipad":
		n = pick(r, []uint64{0, 1, 7, 1413, 1 << 40})
	case "noindex":
		n = 0
	default:
		n = uint64(r.Intn(2))
	}
	return c03Opt{t, n}
}

func c03OptsVal(l []c03Opt) Val {
	out := VL{}
	for _, o := range l {
		out = append(out, o.val())
	}
	return out
}

func init() {
	registerReplay("applyopts", func(c *Ctx, in Val) Val {
		var l []c03Opt
		for _, x := range in.(VL) {
			p := x.(VL)
			l = append(l, c03Opt{string(p[0].(VT)), uint64(p[1].(VN))})
		}
		return c03ApplyOptionsObs(l)
	})
}
