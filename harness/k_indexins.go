package main

import (
	"bytes"

	"github.com/ipfs/go-cid"
	"github.com/ipld/go-car/v2/index"
	cbor "github.com/whyrusleeping/cbor/go"
)

// kinds iiser / iiread (theories/RunIndex.v): InsertionIndex.Marshal / Unmarshal.

// c11RecDecVerdict: what whyrusleeping/cbor makes of the first Record on the stream.
func c11RecDecVerdict(stream []byte) (verdict string, consumed int) {
	defer func() {
		if r := recover(); r != nil {
			verdict, consumed = "PANIC", 0
		}
	}()
	cr := &countingReader{r: bytes.NewReader(stream)}
	var rec index.Record
	err := cbor.NewDecoder(cr).Decode(&rec)
	if err != nil {
		return errClass(err), cr.n
	}
	return "ok", cr.n
}

func c11RecDecTable(b []byte) Val {
	if len(b) < 8 {
		return VL{}
	}
	v, n := c11RecDecVerdict(b[8:])
	return VL{VL{VB(b[8:]), VT(v), VN(uint64(n))}}
}

func c11InsertionIndex(rs []idxRec) *index.InsertionIndex {
	ii := index.NewInsertionIndex()
	for _, r := range rs {
		ii.InsertNoReplace(r.C, r.Off)
	}
	return ii
}

func c11IIUnmarshal(b []byte, plain bool) (obs Val) {
	defer func() {
		if r := recover(); r != nil {
			obs = VL{VT("err"), VT("PANIC")}
		}
	}()
	ii := index.NewInsertionIndex()
	var err error
	rest := 0
	if plain {
		cr := &countingReader{r: bytes.NewReader(b)}
		err = ii.Unmarshal(cr)
		rest = len(b) - cr.n
	} else {
		br := bytes.NewReader(b)
		err = ii.Unmarshal(br)
		rest = br.Len()
	}
	if err != nil {
		return VL{VT("err"), verr(err)}
	}
	list := VL{}
	ii.ForEachCid(func(c cid.Cid, off uint64) error {
		list = append(list, VL{VB(c.Bytes()), VN(off)})
		return nil
	})
	return VL{VT("ok"), VN(uint64(rest)), list}
}

func c11IIMarshal(rs []idxRec) ([]byte, uint64) {
	var buf bytes.Buffer
	n, err := c11InsertionIndex(rs).Marshal(&buf)
	if err != nil {
		panic(err)
	}
	return buf.Bytes(), n
}

func runIISerImpl(rs, rs2 []idxRec, trailer []byte, plain bool) (Val, []byte) {
	b, n := c11IIMarshal(rs)
	b2, _ := c11IIMarshal(rs2)
	full := append(append([]byte(nil), b...), trailer...)
	return VL{VB(b), VN(n), c11IIUnmarshal(full, plain), VB(b2)}, full
}

func c11RecsOfVal(v Val) []idxRec {
	var rs []idxRec
	for _, x := range v.(VL) {
		p := x.(VL)
		cc, err := cid.Cast([]byte(p[0].(VB)))
		if err != nil {
			panic(err)
		}
		rs = append(rs, idxRec{cc, uint64(p[1].(VN))})
	}
	return rs
}

func init() {
	registerReplay("iiser", func(c *Ctx, in Val) Val {
		l := in.(VL)
		obs, _ := runIISerImpl(c11RecsOfVal(l[1]), c11RecsOfVal(l[2]), []byte(l[3].(VB)), false)
		return obs
	})
	registerReplay("iiread", func(c *Ctx, in Val) Val {
		return c11IIUnmarshal([]byte(in.(VL)[0].(VB)), false)
	})
}
