package main

import (
	"bytes"
	"context"
	"encoding/binary"
	"io"

	blocks "github.com/ipfs/go-block-format"
	"github.com/ipfs/go-cid"
	carv1 "github.com/ipld/go-car"
	carv2 "github.com/ipld/go-car/v2"
	"github.com/ipld/go-car/v2/blockstore"
	"github.com/ipld/go-car/v2/storage"
)

// C01 producer, kind "rt": one writer's output through every reader (coq/theories/RunRt.v).
// Logical archives: (F1) flat block lists over the collision alphabet (empty data, sizes straddling
// 2^7 / 2^14 (/ 2^21 thorough), duplicates, same multihash under another codec, identity CIDs, several
// hash functions incl. truncated digests) with 0..4 roots (duplicates, v0/v1, absent from the blocks,
// nil vs empty), written by blockstore.ReadWrite, storage (file, stream), the deferred writer (path,
// stream) as CARv1 and CARv2 with paddings / codecs / de-duplication options; (F2) DAGs with >= 2
// overlapping roots written by root car.WriteCar / WriteCarWithWalker and, as the merkledag visit
// sequence, by the store writers under UseWholeCIDs + StoreIdentityCIDs.  Every file then goes through
// the v2 BlockReader, Reader.DataReader, root NewCarReader+Next, root LoadCar (slow and batch store),
// the read-only blockstore (Roots, AllKeysChan, Get of each key) and the readable storage.

// c01LogStore records the store calls LoadCar makes.
type c01LogStore struct{ batches VL }

func (s *c01LogStore) Put(_ context.Context, b blocks.Block) error {
	s.batches = append(s.batches, VL{VL{VB(b.Cid().Bytes()), VB(b.RawData())}})
	return nil
}

type c01BatchStore struct{ c01LogStore }

func (s *c01BatchStore) PutMany(_ context.Context, bs []blocks.Block) error {
	out := VL{}
	for _, b := range bs {
		out = append(out, VL{VB(b.Cid().Bytes()), VB(b.RawData())})
	}
	s.batches = append(s.batches, out)
	return nil
}

func c01Load(win []byte, fast bool) Val {
	var st carv1.Store
	var log *c01LogStore
	if fast {
		b := &c01BatchStore{}
		st, log = b, &b.c01LogStore
	} else {
		log = &c01LogStore{}
		st = log
	}
	h, err := carv1.LoadCar(context.Background(), st, bytes.NewReader(win))
	res := Val(nil)
	if err != nil {
		res = VL{VT("err"), verr(err)}
	} else {
		res = VL{VT("ok"), cidsVal(h.Roots)}
	}
	if log.batches == nil {
		log.batches = VL{}
	}
	return VL{res, log.batches}
}

// c01ReadAll runs the six readers over file and prints what RunRt.run_rt prints after the file.
func c01ReadAll(c *Ctx, file []byte, whole, storeID bool, plain bool) VL {
	ctx := context.Background()
	// Reader.DataReader
	var win []byte
	var winV Val
	if r, err := carv2.NewReader(bytes.NewReader(file)); err != nil {
		winV = VL{VT("err"), verr(err)}
	} else if dr, err := r.DataReader(); err != nil {
		winV = VL{VT("err"), verr(err)}
	} else if b, err := io.ReadAll(dr); err != nil {
		winV = VL{VT("err"), verr(err)}
	} else {
		win = b
		winV = VB(b)
	}
	br := runScanImpl(0, defaultROpts, file, plain)
	var cids [][]byte
	if l := br.(VL); len(l) == 4 {
		for _, b := range l[3].(VL)[0].(VL) {
			cids = append(cids, []byte(b.(VL)[0].(VB)))
		}
	}
	rr := runScanImpl(2, defaultROpts, win, plain)
	q := c07Opts{whole: whole, storeID: storeID, maxH: 32 << 20, maxS: 8 << 20, maxCid: 2048, codec: 0x0401}
	// read-only blockstore: Roots, AllKeysChan, Get of each listed key
	var ro Val
	if bs, err := blockstore.NewReadOnly(bytes.NewReader(file), nil, q.v2()...); err != nil {
		ro = VL{VT("openerr"), verr(err)}
	} else {
		var rootsV Val
		if rs, err := bs.Roots(); err != nil {
			rootsV = outErr(err)
		} else {
			rootsV = VL{VT("keys"), cidsVal(rs)}
		}
		var asyncErr error
		reported := false
		kctx := blockstore.WithAsyncErrorHandler(ctx, func(e error) { asyncErr = e; reported = true })
		var keysV Val
		gets := VL{}
		if ch, err := bs.AllKeysChan(kctx); err != nil {
			keysV = VL{VT("keyserr"), verr(err)}
		} else {
			var keys []cid.Cid
			ks := VL{}
			for k := range ch {
				keys = append(keys, k)
				ks = append(ks, VB(k.Bytes()))
			}
			end := Val(VT("nil"))
			if reported {
				end = verr(asyncErr)
			}
			keysV = VL{VT("keys"), ks, end}
			for _, k := range keys {
				if b, err := bs.Get(ctx, k); err != nil {
					gets = append(gets, outErr(err))
				} else {
					gets = append(gets, VL{VT("bytes"), VB(b.RawData())})
				}
			}
		}
		ro = VL{VT("ok"), rootsV, keysV, gets}
	}
	// readable storage: Roots, Get of each CID the block reader returned
	var st Val
	if sc, err := storage.OpenReadable(bytes.NewReader(file), q.v2()...); err != nil {
		st = VL{VT("openerr"), verr(err)}
	} else {
		gets := VL{}
		for i, k := range cids {
			var data []byte
			var err error
			if i%2 == 0 {
				data, err = sc.Get(ctx, string(k))
			} else {
				var rc io.ReadCloser
				if rc, err = sc.GetStream(ctx, string(k)); err == nil {
					data, err = io.ReadAll(rc)
				}
			}
			if err != nil {
				gets = append(gets, outErr(err))
			} else {
				gets = append(gets, VL{VT("bytes"), VB(data)})
			}
		}
		st = VL{VT("ok"), VL{VT("keys"), cidsVal(sc.Roots())}, gets}
	}
	return VL{winV, br, rr, c01Load(win, false), c01Load(win, true), ro, st}
}

// c01LoadObs: what RunRt.run_rtload prints -- DataReader length, a summary of the BlockReader's scan, and
// root LoadCar into a Put-only and a PutMany store.
func c01LoadObs(file []byte) Val {
	var win []byte
	if r, err := carv2.NewReader(bytes.NewReader(file)); err == nil {
		if dr, err := r.DataReader(); err == nil {
			win, _ = io.ReadAll(dr)
		}
	}
	br := runScanImpl(0, defaultROpts, file, false).(VL)
	var sum Val
	if len(br) == 4 {
		bl := br[3].(VL)[0].(VL)
		first, last := Val(VL{}), Val(VL{VB(nil), VB(nil)})
		if len(bl) > 0 {
			first, last = bl[0], bl[len(bl)-1]
		}
		sum = VL{VN(uint64(len(bl))), first, last, br[3].(VL)[1]}
	} else {
		sum = br
	}
	return VL{VN(uint64(len(win))), sum, c01Load(win, false), c01Load(win, true)}
}

// c01ReadInput: input of kind rtread -- the file, the read options and the oracle tables for everything a
// reader can meet in it (the file itself and its DataReader window).
func c01ReadInput(file []byte, whole, storeID bool, blks []Blk) Val {
	hok := c01HokTable(blks).(VL)
	hdrs := VL{}
	add := func(b []byte) {
		h, d := scanTables(b)
		hok = append(hok, h.(VL)...)
		hdrs = append(hdrs, d.(VL)...)
	}
	add(file)
	if r, err := carv2.NewReader(bytes.NewReader(file)); err == nil {
		if dr, err := r.DataReader(); err == nil {
			if win, err := io.ReadAll(dr); err == nil {
				add(win)
			}
		}
	}
	return VL{VB(file), vbool(whole), vbool(storeID), hok, hdrs}
}

type c01Visits struct {
	blks []Blk
	ok   bool
}

func (v c01Visits) val() Val { return VL{blksVal(v.blks), vbool(v.ok)} }

// c01Write runs one writer; returns the file or an error class.
func c01Write(c *Ctx, wk uint64, o wOpts, roots []cid.Cid, h [][]Blk, dag *gdag, plainWalk bool) ([]byte, string, c01Visits) {
	if wk == 7 {
		store := map[string][]byte{}
		for _, n := range dag.nodes {
			if _, ok := store[n.c.KeyString()]; !ok {
				store[n.c.KeyString()] = n.data
			}
		}
		g := &loggingGetter{store: store}
		var buf bytes.Buffer
		var err error
		if plainWalk {
			err = carv1.WriteCar(context.Background(), g, roots, &buf)
		} else {
			err = carv1.WriteCarWithWalker(context.Background(), g, roots, &buf, g.walk)
		}
		var vs c01Visits
		for _, l := range g.visitSequence(roots).loads {
			_, cc, _ := cid.CidFromBytes(l.cid)
			vs.blks = append(vs.blks, Blk{cc, l.data})
		}
		vs.ok = err == nil
		if err != nil {
			return nil, errClass(err), vs
		}
		return buf.Bytes(), "", vs
	}
	res := c05RunFinalImpl(c, wk, o, roots, h).(VL)
	if e, ok := res[0].(VL); ok && len(e) == 2 {
		return nil, string(e[1].(VT)), c01Visits{}
	}
	if e, ok := res[2].(VL); ok && len(e) == 2 {
		return nil, string(e[1].(VT)), c01Visits{}
	}
	return []byte(res[3].(VB)), "", c01Visits{}
}

func c01HokTable(bs []Blk) Val {
	tab := VL{}
	seen := map[string]bool{}
	for _, b := range bs {
		k := string(b.Cid.Bytes()) + "|" + string(b.Data)
		if !seen[k] {
			seen[k] = true
			tab = append(tab, VL{VB(b.Cid.Bytes()), VB(b.Data), vbool(hashOK(b.Cid, b.Data))})
		}
	}
	return tab
}

func c01Input(wk uint64, o wOpts, roots []cid.Cid, h [][]Blk, vs c01Visits, all []Blk) Val {
	var rv Val = cidsVal(roots)
	if roots == nil {
		rv = VT("nil")
	}
	return VL{VN(wk), o.val(), rv, c05BatchesVal(h), vs.val(), c01HokTable(all), VL{}}
}

func c01RunImpl(c *Ctx, wk uint64, o wOpts, roots []cid.Cid, h [][]Blk, dag *gdag, plain bool) (Val, c01Visits) {
	file, class, vs := c01Write(c, wk, o, roots, h, dag, plain)
	if class != "" {
		return VL{VL{VT("err"), VT(class)}}, vs
	}
	return append(VL{VB(file)}, c01ReadAll(c, file, o.whole, o.storeID, plain)...), vs
}

// split a block list into put batches (PutMany on the blockstore, consecutive Puts elsewhere)
func c01Batches(r *RNG, blks []Blk) [][]Blk {
	var h [][]Blk
	for i := 0; i < len(blks); {
		n := 1 + r.Intn(3)
		if i+n > len(blks) {
			n = len(blks) - i
		}
		h = append(h, blks[i:i+n])
		i += n
	}
	return h
}

func c01Roots(r *RNG, blks []Blk) []cid.Cid {
	n := r.Intn(5)
	if n == 0 {
		if r.Bool() {
			return nil // nil slice: header carries CBOR null
		}
		return []cid.Cid{}
	}
	var roots []cid.Cid
	for i := 0; i < n; i++ {
		switch {
		case len(blks) > 0 && r.Chance(60):
			roots = append(roots, pick(r, blks).Cid)
		case len(roots) > 0 && r.Chance(30):
			roots = append(roots, roots[0])
		default:
			roots = append(roots, genBlock(r, genOpts{maxData: 8}).Cid)
		}
	}
	return roots
}

var c01WriterNames = map[uint64]string{0: "blockstore", 1: "storage-rw-file", 2: "storage-file", 3: "storage-stream", 4: "deferred-path", 5: "deferred-stream", 7: "root-WriteCar"}

func init() {
	register("c01", func(c *Ctx) {
		nArch := 25 * c.Scale
		emit := func(wk uint64, o wOpts, roots []cid.Cid, h [][]Blk, dag *gdag, plain bool, all []Blk, nontrivial bool) {
			obs, vs := c01RunImpl(c, wk, o, roots, h, dag, plain)
			c.Emit("rt", c01Input(wk, o, roots, h, vs, all), obs, nontrivial)
			c.Count("writer:" + c01WriterNames[wk])
			if wk != 7 {
				if o.v1 {
					c.Count("format:carv1")
				} else {
					c.Count("format:carv2")
				}
			}
		}
		// many tiny blocks (kind rtload): more than one PutMany batch of root LoadCar's batching path (it
		// flushes when more than 1000 blocks are buffered, i.e. at blocks 1001, 2002, ...)
		for i, n := range []int{1003, 2005} {
			r := c.R.Fork()
			var blks []Blk
			for j := 0; j < n; j++ {
				data := []byte{byte(j), byte(j >> 8), byte(i)}
				if i == 1 {
					// 2005 identity-CID blocks (9-byte sections): the model's framing is quadratic in the
					// payload length, keep it short
					data = data[:2]
					blks = append(blks, Blk{mkCid(1, 0x55, 0x00, -1, data), data})
					continue
				}
				blks = append(blks, Blk{mkCid(1, 0x55, 0x12, -1, data), data})
			}
			roots := []cid.Cid{blks[0].Cid, blks[n-1].Cid}
			o := defaultWOpts
			o.codec = pick(r, []uint64{0x0400, 0x0401})
			o.storeID = true
			wk := []uint64{0, 3}[i] // blockstore (CARv2, PutMany of 1..3 blocks); storage on a stream (CARv1)
			o.v1 = wk == 3
			file, class, _ := c01Write(c, wk, o, roots, c01Batches(r, blks), nil, false)
			if class != "" {
				panic("c01: many-block writer failed: " + class)
			}
			for _, b := range blks {
				if !hashOK(b.Cid, b.Data) {
					panic("c01: generated block does not hash to its CID")
				}
			}
			in := VL{cidsVal(roots), blksVal(blks), VB(file)}
			c.Emit("rtload", in, c01LoadObs(file), true)
			c.Count("many-blocks:" + c01WriterNames[wk])
		}
		// ---- reader histories (kind rthist) and positioned sources (kind rtpos), on freshly written archives
		for a := 0; a < 4*c.Scale; a++ {
			r := c.R.Fork()
			kind := uint64(a % 3)
			nr := 2 + r.Intn(3)
			var files [][]byte
			expect := VL{}
			var all []Blk
			for i := 0; i < nr; i++ {
				blks := genBlocks(r, r.Intn(6), genOpts{identity: true, maxData: 120})
				roots := c01Roots(r, blks)
				if len(roots) == 0 {
					roots = []cid.Cid{genBlock(r, genOpts{maxData: 8}).Cid} // root and carv1 readers reject empty roots
				}
				o := defaultWOpts
				o.storeID, o.dups = true, true
				o.v1 = kind != 2 || r.Bool()
				o.dpad = uint64(pick(r, []int{0, 7}))
				file, class, _ := c01Write(c, pick(r, []uint64{0, 2}), o, roots, c01Batches(r, blks), nil, false)
				if class != "" {
					panic("c01: writer failed: " + class)
				}
				files = append(files, file)
				expect = append(expect, VL{cidsVal(roots), blksVal(blks)})
				all = append(all, blks...)
			}
			// schedule: every reader is opened once; Next calls interleave at random; each reader gets
			// enough Next calls to pass its end twice; readers are opened late on purpose (a reader created
			// after another one is exhausted is handed that one's pooled bufio.Reader)
			remaining := make([]int, nr)
			opened := make([]bool, nr)
			for i := range remaining {
				remaining[i] = len(expect[i].(VL)[1].(VL)) + 2 + r.Intn(2)
			}
			sched := VL{}
			for {
				var cand []int
				for i := 0; i < nr; i++ {
					if !opened[i] || remaining[i] > 0 {
						cand = append(cand, i)
					}
				}
				if len(cand) == 0 {
					break
				}
				i := cand[0]
				if r.Chance(35) {
					i = pick(r, cand)
				}
				if !opened[i] {
					opened[i] = true
					sched = append(sched, VL{VN(uint64(i)), VT("open")})
				} else {
					remaining[i]--
					sched = append(sched, VL{VN(uint64(i)), VT("next")})
				}
			}
			// and every exhausted reader is asked once more at the very end
			for i := 0; i < nr; i++ {
				sched = append(sched, VL{VN(uint64(i)), VT("next")})
			}
			fv := VL{}
			for _, f := range files {
				fv = append(fv, VB(f))
			}
			in := VL{VN(kind), defaultROpts.val(), fv, sched, c01HokTable(all), VL{}, expect}
			c.Emit("rthist", in, c01RunHist(kind, defaultROpts, files, sched), true)
			c.Count("history:" + []string{"root-reader", "carv1-reader", "block-reader"}[kind])

			// positioned sources: the last archive behind a random preamble, every seekable source kind
			file := files[len(files)-1]
			ex := expect[len(expect)-1].(VL)
			ver := uint64(1)
			if len(file) > 11 && bytes.Equal(file[:11], carv2.Pragma) {
				ver = 2
			}
			pre := r.Bytes(1 + r.Intn(200))
			for sk := 0; sk < 4; sk++ {
				for entry := uint64(0); entry < 3; entry++ {
					in := VL{VN(entry), VB(file), defaultROpts.val(), c01HokTable(all), VL{}, VL{VT("valid"), VN(ver), ex[0], ex[1]}, VB(pre), VN(uint64(sk))}
					c.Emit("rtpos", in, c01RunPos(c, entry, defaultROpts, file, pre, sk), true)
					c.Count("positioned:" + []string{"bytes.Reader", "os.File", "SectionReader-seeked", "SectionReader-at-car"}[sk])
				}
			}
		}
		if c.Thorough {
			// the 2^21 varint-width boundary: one block with |cid|+|data| in {2^21-2 .. 2^21+1} next to a small one
			for i, t := range []int{2097150, 2097151, 2097152, 2097153} {
				r := c.R.Fork()
				probe := mkCid(1, 0x55, 0x12, -1, nil)
				data := r.Bytes(t - probe.ByteLen())
				blks := []Blk{{mkCid(1, 0x55, 0x12, -1, data), data}, genBlock(r, genOpts{maxData: 40})}
				roots := []cid.Cid{blks[0].Cid}
				o := defaultWOpts
				o.dpad = 7
				wk := []uint64{0, 3, 4, 2}[i]
				o.v1 = wk == 3
				emit(wk, o, roots, [][]Blk{blks}, nil, false, blks, true)
				c.Count("boundary:2^21")
			}
		}
		// ---- power-of-two section sizes: |cid|+|data| in {2^k-2 .. 2^k+2} for 2^12, 2^13, 2^16 (buffer sizes a
		// writer may coalesce or chunk by), next to the varint-width boundaries; every writer kind.  The five
		// sizes around 2^12 go into one archive per writer; of the five around 2^13 every writer gets two and of
		// the five around 2^16 one per run (quick, rotating over the writers) or all (thorough).
		{
			r := c.R.Fork()
			probeLen := mkCid(1, 0x55, 0x12, -1, nil).ByteLen()
			mk := func(t int) Blk {
				data := r.Bytes(t - probeLen)
				return Blk{mkCid(1, 0x55, 0x12, -1, data), data}
			}
			type wv struct {
				wk uint64
				v1 bool
			}
			variants := []wv{{0, true}, {0, false}, {1, false}, {2, true}, {2, false}, {3, true}, {4, true}, {4, false}, {5, true}, {7, true}}
			for vi, v := range variants {
				var groups [][]Blk
				for _, k := range []int{4096, 8192} {
					var g []Blk
					for d := -2; d <= 2; d++ {
						if k == 8192 && !c.Thorough && (d+2+vi)%5 > 1 {
							continue // quick: two of the five sizes around 2^13 per writer, rotating
						}
						g = append(g, mk(k+d))
					}
					groups = append(groups, g)
				}
				if c.Thorough {
					var g []Blk
					for d := -2; d <= 2; d++ {
						g = append(g, mk(65536+d))
					}
					groups = append(groups, g)
				} else {
					groups = append(groups, []Blk{mk(65536 - 2 + (vi+int(r.Intn(5)))%5), genBlock(r, genOpts{maxData: 40})})
				}
				for gi, blks := range groups {
					roots := []cid.Cid{blks[0].Cid}
					o := defaultWOpts
					o.dpad = uint64(pick(r, []int{0, 7}))
					o.v1 = v.v1
					if v.wk == 7 {
						// root WriteCar: every block a raw leaf and a root of its own
						dag := &gdag{}
						var droots []cid.Cid
						for _, b := range blks {
							n := &dnode{c: b.Cid, data: b.Data}
							dag.nodes = append(dag.nodes, n)
							dag.tops = append(dag.tops, n)
							droots = append(droots, b.Cid)
						}
						od := defaultWOpts
						od.whole, od.storeID, od.v1 = true, true, true
						obs, vs := c01RunImpl(c, 7, od, droots, nil, dag, r.Bool())
						c.Emit("rt", c01Input(7, od, droots, nil, vs, blks), obs, true)
						c.Count("writer:root-WriteCar")
					} else {
						emit(v.wk, o, roots, c01Batches(r, blks), nil, false, blks, true)
					}
					c.Count("boundary:" + []string{"2^12", "2^13", "2^16"}[gi])
				}
			}
		}
		for a := 0; a < nArch; a++ {
			r := c.R.Fork()
			// ---- F1: flat archives through the store writers
			nb := r.Intn(9)
			g := genOpts{identity: true, maxData: 300}
			if r.Chance(25) {
				g.maxData = 0 // allow the 2^14 boundary sizes
			}
			blks := genBlocks(r, nb, g)
			roots := c01Roots(r, blks)
			h := c01Batches(r, blks)
			o := defaultWOpts
			o.storeID = r.Bool()
			o.whole = r.Chance(40)
			o.dups = r.Chance(15)
			o.dpad = uint64(pick(r, []int{0, 0, 1, 7, 1413}))
			o.ipad = uint64(pick(r, []int{0, 0, 1, 512}))
			o.codec = pick(r, []uint64{0x0400, 0x0401})
			c.CountN("blocks", len(blks))
			nontriv := len(blks) >= 2
			for _, wk := range []uint64{0, 2, 3, 4, 5} {
				for _, v1 := range []bool{true, false} {
					if !v1 && (wk == 3 || wk == 5) {
						continue // a CARv2 cannot go to a plain io.Writer (C05_stream_v2_refused)
					}
					ow := o
					ow.v1 = v1
					emit(wk, ow, roots, h, nil, false, blks, nontriv)
				}
			}
			if r.Chance(30) {
				ow := o
				ow.v1 = r.Bool()
				emit(1, ow, roots, h, nil, false, blks, nontriv)
			}
			// ---- malformed stream (kind rtread, model = code only): a writer's output cut short or with a
			// flipped byte (outside an embedded index: a damaged bucket length is C09's subject) through
			// every reader
			if a%3 == 0 {
				ow := o
				ow.v1 = r.Bool()
				if file, class, _ := c01Write(c, pick(r, []uint64{0, 2}), ow, roots, h, nil, false); class == "" && len(file) > 0 {
					for t := 0; t < 4; t++ {
						f := append([]byte(nil), file...)
						lim := len(f)
						if !ow.v1 && len(f) >= 51 {
							if io := binary.LittleEndian.Uint64(f[43:51]); io > 0 && io < uint64(len(f)) {
								lim = int(io)
							}
						}
						if r.Bool() {
							f = f[:r.Intn(lim+1)]
							c.Count("malformed:truncated")
						} else {
							f[r.Intn(lim)] ^= pick(r, []byte{0x01, 0x80, 0xff, 0x7f})
							c.Count("malformed:byteflip")
						}
						c.Emit("rtread", c01ReadInput(f, ow.whole, ow.storeID, blks), c01ReadAll(c, f, ow.whole, ow.storeID, false), false)
					}
				}
			}
			// ---- F2: a DAG with overlapping roots through root WriteCar, and its visit sequence through
			// the store writers (whole CIDs, identity stored): the same payload
			if a%2 == 0 {
				dag := genDag(r, 1+r.Intn(3), 2+r.Intn(2), false)
				var droots []cid.Cid
				for _, t := range dag.tops {
					droots = append(droots, t.c)
				}
				if r.Chance(30) {
					droots = append(droots, droots[0]) // the same root twice
				}
				var all []Blk
				for _, n := range dag.nodes {
					all = append(all, Blk{n.c, n.data})
				}
				od := defaultWOpts
				od.whole, od.storeID, od.v1 = true, true, true
				plain := r.Bool()
				obs, vs := c01RunImpl(c, 7, od, droots, nil, dag, plain)
				c.Emit("rt", c01Input(7, od, droots, nil, vs, all), obs, len(vs.blks) >= 3)
				c.Count("writer:root-WriteCar")
				c.CountN("visits", len(vs.blks))
				if vs.ok {
					hv := c01Batches(r, vs.blks)
					for _, wk := range []uint64{0, 2, 5} {
						ow := od
						ow.v1 = wk == 5 || r.Bool()
						ow.dpad, ow.ipad = o.dpad, o.ipad
						emit(wk, ow, droots, hv, nil, false, all, true)
						c.Count("dag-visits-through-store-writer")
					}
				}
			}
		}
	})
	registerReplay("rtread", func(c *Ctx, in Val) Val {
		l := in.(VL)
		return c01ReadAll(c, []byte(l[0].(VB)), l[1].(VN) != 0, l[2].(VN) != 0, false)
	})
	registerReplay("rtload", func(c *Ctx, in Val) Val { return c01LoadObs([]byte(in.(VL)[2].(VB))) })
	registerReplay("rt", func(c *Ctx, in Val) Val {
		l := in.(VL)
		wk := uint64(l[0].(VN))
		o := wOptsFromVal(l[1])
		roots := cidsFromVal(l[2])
		if wk != 7 {
			obs, _ := c01RunImpl(c, wk, o, roots, c05BatchesFromVal(l[3]), nil, false)
			return obs
		}
		// root WriteCar: rebuild a store from the recorded visits (every visited CID with its bytes)
		dag := &gdag{}
		for _, b := range c05BatchesFromVal(VL{l[4].(VL)[0]})[0] {
			dag.nodes = append(dag.nodes, &dnode{c: b.Cid, data: b.Data})
		}
		obs, _ := c01RunImpl(c, wk, o, roots, nil, dag, false)
		return obs
	})
}
