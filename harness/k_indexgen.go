package main

import (
	"bufio"
	"bytes"
	"fmt"
	"io"
	"os"
	"path/filepath"
	"sort"
	"testing/iotest"

	"github.com/ipfs/go-cid"
	carv2 "github.com/ipld/go-car/v2"
	"github.com/ipld/go-car/v2/index"
	"github.com/multiformats/go-multicodec"
)

// kind idxgen (theories/RunIndex.v): LoadIndex / GenerateIndex over a source kind.
//   source kind: 0 *bytes.Reader | 1 Read+Seek only | 2 plain io.Reader | 3 *os.File
//                | 4 io.ReaderAt through NewReader(..).DataReader()
//                | 5 *bufio.Reader (16-byte buffer) over a plain reader | 6 *bytes.Buffer
//                | 7 iotest.DataErrReader | 8 iotest.HalfReader | 9 iotest.OneByteReader (plain streams
//                  that deliver the last data together with io.EOF / short reads)
//                | 10 ReadOrGenerateIndex(*bytes.Reader) | 11 ReadOrGenerateIndex(Read+Seek only)
//                | 12 GenerateIndexFromFile(path) | 13 GenerateIndexFromFile(missing path)
//   5 and 6 are non-seekable streams that ALSO implement io.ByteReader: ToByteReadSeeker still
//   wraps them in the discarding wrapper (no Seek), so they must behave exactly like kind 2.

type gOpts struct {
	zeof    bool
	maxH    uint64
	storeID bool
	maxCid  uint64
}

func (o gOpts) val() Val { return VL{vbool(o.zeof), VN(o.maxH), vbool(o.storeID), VN(o.maxCid)} }
func (o gOpts) v2() []carv2.Option {
	return []carv2.Option{carv2.ZeroLengthSectionAsEOF(o.zeof), carv2.MaxAllowedHeaderSize(o.maxH),
		carv2.StoreIdentityCIDs(o.storeID), carv2.MaxIndexCidSize(o.maxCid)}
}

var defaultGOpts = gOpts{false, 32 << 20, false, 2 << 10}

// seekOnly exposes Read and Seek of a bytes.Reader and nothing else (no ReadByte, no ReadAt).
type seekOnly struct{ r *bytes.Reader }

func (s seekOnly) Read(p []byte) (int, error)                { return s.r.Read(p) }
func (s seekOnly) Seek(off int64, whence int) (int64, error) { return s.r.Seek(off, whence) }

// readerAtOnly exposes ReadAt only.
type readerAtOnly struct{ r *bytes.Reader }

func (s readerAtOnly) ReadAt(p []byte, off int64) (int, error) { return s.r.ReadAt(p, off) }

const codecInsertion = 0x300003

var idxgenSeq int

// c03Source builds the reader of a source kind over file; cleanup must be called when done.
// A non-nil errObs means opening the source itself failed (kind 4: NewReader / DataReader).
func c03Source(c *Ctx, kind uint64, o gOpts, file []byte) (src io.Reader, cleanup func(), errObs Val) {
	cleanup = func() {}
	switch kind {
	case 0:
		src = bytes.NewReader(file)
	case 1:
		src = seekOnly{bytes.NewReader(file)}
	case 2:
		src = plainReader{bytes.NewReader(file)}
	case 3:
		idxgenSeq++
		p := filepath.Join(c.Work, fmt.Sprintf("idxgen-%d.car", idxgenSeq))
		if err := os.WriteFile(p, file, 0o644); err != nil {
			panic(err)
		}
		f, err := os.Open(p)
		if err != nil {
			panic(err)
		}
		cleanup = func() { f.Close(); os.Remove(p) }
		src = f
	case 4:
		rd, err := carv2.NewReader(readerAtOnly{bytes.NewReader(file)}, o.v2()...)
		if err != nil {
			return nil, cleanup, VL{VT("err"), verr(err)}
		}
		dr, err := rd.DataReader()
		if err != nil {
			return nil, cleanup, VL{VT("err"), verr(err)}
		}
		src = dr
	case 5:
		src = bufio.NewReaderSize(plainReader{bytes.NewReader(file)}, 16)
	case 6:
		src = bytes.NewBuffer(append([]byte(nil), file...))
	case 7: // the final data arrive TOGETHER with io.EOF
		src = iotest.DataErrReader(plainReader{bytes.NewReader(file)})
	case 8: // every Read delivers half of what was asked for
		src = iotest.HalfReader(plainReader{bytes.NewReader(file)})
	case 9: // every Read delivers one byte
		src = iotest.OneByteReader(plainReader{bytes.NewReader(file)})
	}
	return src, cleanup, nil
}

func runIdxGenImpl(c *Ctx, kind uint64, o gOpts, file []byte, codec uint64, qs []cid.Cid) (obs Val) {
	defer func() {
		if r := recover(); r != nil {
			obs = VL{VT("err"), VT("PANIC")}
		}
	}()
	if kind == 12 || kind == 13 { // GenerateIndexFromFile: the file written to disk (12), a missing path (13)
		idxgenSeq++
		p := filepath.Join(c.Work, fmt.Sprintf("idxgen-fromfile-%d.car", idxgenSeq))
		if kind == 12 {
			if err := os.WriteFile(p, file, 0o644); err != nil {
				panic(err)
			}
			defer os.Remove(p)
		}
		idx, err := carv2.GenerateIndexFromFile(p, append(o.v2(), carv2.UseIndexCodec(multicodec.Code(codec)))...)
		if err != nil {
			return VL{VT("err"), verr(err)}
		}
		return VL{VT("ok"), canonOf(idx), getAllsVal(idx, qs, true)}
	}
	if kind >= 10 { // ReadOrGenerateIndex over a *bytes.Reader (10) or a Read+Seek-only source (11)
		var rs io.ReadSeeker = bytes.NewReader(file)
		if kind == 11 {
			rs = seekOnly{bytes.NewReader(file)}
		}
		idx, err := carv2.ReadOrGenerateIndex(rs, append(o.v2(), carv2.UseIndexCodec(multicodec.Code(codec)))...)
		if err != nil {
			return VL{VT("err"), verr(err)}
		}
		raw, _, err := writeIndex(idx)
		if err != nil {
			return VL{VT("err"), VT("writeerr")}
		}
		return VL{VT("ok"), VN(uint64(len(raw))), getAllsVal(idx, qs, true)}
	}
	src, cleanup, errObs := c03Source(c, kind, o, file)
	defer cleanup()
	if errObs != nil {
		return errObs
	}
	if codec == codecInsertion {
		ii := index.NewInsertionIndex()
		if err := carv2.LoadIndex(ii, src, o.v2()...); err != nil {
			return VL{VT("err"), verr(err)}
		}
		list := VL{}
		ii.ForEachCid(func(cc cid.Cid, off uint64) error {
			list = append(list, VL{VB(cc.Bytes()), VN(off)})
			return nil
		})
		return VL{VT("ok"), list, getAllsVal(ii, qs, false)}
	}
	idx, err := carv2.GenerateIndex(src, append(o.v2(), carv2.UseIndexCodec(multicodec.Code(codec)))...)
	if err != nil {
		return VL{VT("err"), verr(err)}
	}
	return VL{VT("ok"), canonOf(idx), getAllsVal(idx, qs, true)}
}

func init() {
	registerReplay("idxgen", func(c *Ctx, in Val) Val {
		l := in.(VL)
		ol := l[1].(VL)
		o := gOpts{ol[0].(VN) != 0, uint64(ol[1].(VN)), ol[2].(VN) != 0, uint64(ol[3].(VN))}
		return runIdxGenImpl(c, uint64(l[0].(VN)), o, []byte(l[2].(VB)), uint64(l[4].(VN)), cidsOfVal(l[5]))
	})
}

var _ = sort.Ints
