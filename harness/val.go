package main

import (
	"encoding/hex"
	"strconv"
	"strings"
)

// Val is the tree value shared with the Coq model (theories/Val.v):
// n<hex> | b<hex> | t<word> | ( v ... )
type Val interface{ write(sb *strings.Builder) }

type VN uint64
type VB []byte
type VT string
type VL []Val

func (v VN) write(sb *strings.Builder) { sb.WriteByte('n'); sb.WriteString(strconv.FormatUint(uint64(v), 16)) }
func (v VB) write(sb *strings.Builder) { sb.WriteByte('b'); sb.WriteString(hex.EncodeToString(v)) }
func (v VT) write(sb *strings.Builder) { sb.WriteByte('t'); sb.WriteString(string(v)) }
func (v VL) write(sb *strings.Builder) {
	sb.WriteByte('(')
	for i, x := range v {
		if i > 0 {
			sb.WriteByte(' ')
		}
		x.write(sb)
	}
	sb.WriteByte(')')
}

func valString(v Val) string {
	var sb strings.Builder
	v.write(&sb)
	return sb.String()
}

func vbool(b bool) Val {
	if b {
		return VN(1)
	}
	return VN(0)
}

// ---- parsing (for replay files) ----
func parseVal(s string) (Val, error) {
	p := &vparser{s: s}
	v, err := p.value()
	return v, err
}

type vparser struct {
	s   string
	pos int
}

func (p *vparser) skip() {
	for p.pos < len(p.s) && p.s[p.pos] == ' ' {
		p.pos++
	}
}
func (p *vparser) tokEnd() int {
	e := p.pos
	for e < len(p.s) && p.s[e] != ' ' && p.s[e] != '(' && p.s[e] != ')' {
		e++
	}
	return e
}
func (p *vparser) value() (Val, error) {
	p.skip()
	if p.pos >= len(p.s) {
		return nil, strconv.ErrSyntax
	}
	switch p.s[p.pos] {
	case '(':
		p.pos++
		out := VL{}
		for {
			p.skip()
			if p.pos >= len(p.s) {
				return nil, strconv.ErrSyntax
			}
			if p.s[p.pos] == ')' {
				p.pos++
				return out, nil
			}
			v, err := p.value()
			if err != nil {
				return nil, err
			}
			out = append(out, v)
		}
	case 'n':
		e := p.tokEnd()
		n, err := strconv.ParseUint(p.s[p.pos+1:e], 16, 64)
		p.pos = e
		return VN(n), err
	case 'b':
		e := p.tokEnd()
		b, err := hex.DecodeString(p.s[p.pos+1 : e])
		p.pos = e
		return VB(b), err
	case 't':
		e := p.tokEnd()
		t := p.s[p.pos+1 : e]
		p.pos = e
		return VT(t), nil
	}
	return nil, strconv.ErrSyntax
}
