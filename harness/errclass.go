package main

import (
	"errors"
	"io"
	"strings"

	carv2 "github.com/ipld/go-car/v2"
	"github.com/ipld/go-car/v2/index"
)

// errClass maps a Go error to the small enum the model uses (theories/Val.v v_err).
// Messages are never compared except for the two internal sentinel errors that cannot be
// imported (internal package) and the closed/finalized sentinels.
func errClass(err error) string {
	if err == nil {
		return "nil"
	}
	if err == io.EOF {
		return "eof"
	}
	var tooLarge *carv2.ErrCidTooLarge
	if errors.As(err, &tooLarge) {
		return "cid2big"
	}
	if errors.Is(err, index.ErrNotFound) {
		return "notfound"
	}
	if nf, ok := err.(interface{ NotFound() bool }); ok && nf.NotFound() {
		return "notfound"
	}
	var nfi interface{ NotFound() bool }
	if errors.As(err, &nfi) && nfi.NotFound() {
		return "notfound"
	}
	msg := err.Error()
	switch {
	case strings.Contains(msg, "invalid header data, length of read beyond allowable maximum"):
		return "hdr2big"
	case strings.Contains(msg, "invalid section data, length of read beyond allowable maximum"):
		return "sec2big"
	case strings.Contains(msg, "cannot use a carv2 blockstore after closing"),
		strings.Contains(msg, "cannot use a CAR storage after closing"):
		return "closed"
	case strings.Contains(msg, "cannot write in a carv2 blockstore after finalize"):
		return "finalized"
	}
	return "other"
}

func verr(err error) Val { return VT(errClass(err)) }
