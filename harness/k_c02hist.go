package main

import (
	"bufio"
	"bytes"
	"io"

	carv1 "github.com/ipld/go-car"
)

// kind "c02hist": (slot-sizes ops hok hdrs) -> per op what the legacy root-module reader did.
//   ops: (topen rid slot file expect) | (tnext rid n)
// slot 0: NewCarReader over a plain reader; slot s > 0: over the caller's own bufio.Reader number s
// (bufio.NewReaderSize(nil, slot-sizes[s-1])), Reset onto the file first.  The generator reuses a slot
// only after the reader it was given to has reported its end; readers over other sources are opened
// and advanced in between.  No call is made on a reader after its first error.

func c02xHistImpl(sizes []int, ops VL) Val {
	slots := make([]*bufio.Reader, len(sizes))
	readers := map[uint64]*carv1.CarReader{}
	out := VL{}
	for _, opv := range ops {
		op := opv.(VL)
		rid := uint64(op[1].(VN))
		switch string(op[0].(VT)) {
		case "open":
			slot := int(op[2].(VN))
			var src io.Reader = plainReader{bytes.NewReader([]byte(op[3].(VB)))}
			if slot > 0 {
				if slots[slot-1] == nil {
					slots[slot-1] = bufio.NewReaderSize(nil, sizes[slot-1])
				}
				slots[slot-1].Reset(src)
				src = slots[slot-1]
			}
			delete(readers, rid)
			cr, err := carv1.NewCarReader(src)
			if err != nil {
				out = append(out, VL{VT("openerr"), verr(err)})
				continue
			}
			readers[rid] = cr
			out = append(out, VL{VT("opened"), cidsVal(cr.Header.Roots)})
		default:
			cr := readers[rid]
			if cr == nil {
				out = append(out, VL{VT("dead")})
				continue
			}
			n := int(op[2].(VN))
			bl := VL{}
			var end Val = VL{VT("more")}
			for i := 0; i < n; i++ {
				b, err := cr.Next()
				if err != nil {
					end = VL{VT("end"), verr(err)}
					delete(readers, rid)
					break
				}
				bl = append(bl, VL{VB(b.Cid().Bytes()), VB(b.RawData())})
			}
			out = append(out, VL{VT("blocks"), bl, end})
		}
	}
	return out
}

func c02xHistSizes(in VL) []int {
	var sizes []int
	for _, s := range in[0].(VL) {
		sizes = append(sizes, int(s.(VN)))
	}
	return sizes
}

func init() {
	registerReplay("c02hist", func(c *Ctx, in Val) Val {
		l := in.(VL)
		return c02xHistImpl(c02xHistSizes(l), l[1].(VL))
	})
}
