package main

import (
	"bytes"

	"github.com/ipfs/go-cid"
	carv1 "github.com/ipld/go-car"
	v1util "github.com/ipld/go-car/util"
	carv2 "github.com/ipld/go-car/v2"
	"github.com/ipld/go-car/v2/index"
	"github.com/multiformats/go-multicodec"
	"github.com/multiformats/go-varint"
)

// kind "consts": what the library exports today for the constants the model hard-codes
// (see coq/theories/RunConsts.v for the order).
func constsObs() Val {
	var hb bytes.Buffer
	carv2.NewHeader(9).WithDataPadding(5).WriteTo(&hb)
	var h1 bytes.Buffer
	carv1.WriteHeader(&carv1.CarHeader{Roots: []cid.Cid{}, Version: 1}, &h1)
	fh := carv2.NewHeader(9)
	fh.Characteristics.SetFullyIndexed(true)
	var fib bytes.Buffer
	fh.WriteTo(&fib)
	fi1 := fh.Characteristics.IsFullyIndexed()
	fh.Characteristics.SetFullyIndexed(false)
	fi2 := fh.Characteristics.IsFullyIndexed()
	return VL{
		VB(carv2.Pragma), VN(carv2.PragmaSize), VN(carv2.HeaderSize), VN(carv2.CharacteristicsSize),
		VN(carv2.DefaultMaxAllowedHeaderSize), VN(carv2.DefaultMaxAllowedSectionSize),
		VN(carv2.DefaultMaxIndexCidSize), VN(v1util.MaxAllowedSectionSize),
		VN(uint64(multicodec.CarIndexSorted)), VN(uint64(multicodec.CarMultihashIndexSorted)),
		VN(uint64(index.CarIndexNone)),
		VN(carv2.NewHeader(0).DataOffset), VN(carv2.NewHeader(7).IndexOffset),
		VB(hb.Bytes()), VB(h1.Bytes()),
		VN(uint64(varint.UvarintSize(127))), VN(uint64(varint.UvarintSize(128))), VN(uint64(varint.UvarintSize(16384))),
		VN(uint64(index.NewInsertionIndex().Codec())),
		VB(fib.Bytes()), VN(b2n(fi1)), VN(b2n(fi2)),
	}
}

func b2n(b bool) uint64 {
	if b {
		return 1
	}
	return 0
}

func init() {
	registerReplay("consts", func(c *Ctx, in Val) Val { return constsObs() })
}
