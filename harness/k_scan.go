package main

import (
	"bytes"
	"io"
	"testing/iotest"

	blocks "github.com/ipfs/go-block-format"
	"github.com/ipfs/go-cid"
	carv1 "github.com/ipld/go-car"
	carv2 "github.com/ipld/go-car/v2"
)

// kind "scan": (reader kind, opts, file, hok table, hdr table) -> what the reader returned.
// reader kinds: 0 = v2 BlockReader, 1 = internal carv1 reader (verif hook), 2 = root-module reader

type rOpts struct {
	zeof    bool
	maxH    uint64
	maxS    uint64
	trusted bool
}

func (o rOpts) val() Val { return VL{vbool(o.zeof), VN(o.maxH), VN(o.maxS), vbool(o.trusted)} }
func (o rOpts) v2() []carv2.Option {
	opts := []carv2.Option{carv2.MaxAllowedHeaderSize(o.maxH), carv2.MaxAllowedSectionSize(o.maxS)}
	if o.zeof {
		opts = append(opts, carv2.ZeroLengthSectionAsEOF(true))
	}
	if o.trusted {
		opts = append(opts, carv2.WithTrustedCAR(true))
	}
	return opts
}

var defaultROpts = rOpts{false, 32 << 20, 8 << 20, false}

// plainReader hides every optional interface of the underlying reader.
type plainReader struct{ r io.Reader }

func (p plainReader) Read(b []byte) (int, error) { return p.r.Read(b) }

func blocksObs(bs []blocks.Block, end error) Val {
	out := VL{}
	for _, b := range bs {
		out = append(out, VL{VB(b.Cid().Bytes()), VB(b.RawData())})
	}
	return VL{out, verr(end)}
}

// Delivery patterns of the byte source handed to a reader.  The model reads byte strings: how a source
// slices its bytes into Read calls, and whether it reports io.EOF together with the last bytes or on a
// separate call (both allowed by the io.Reader contract), is a harness dimension the model abstracts --
// every pattern must give the observation the model computes from the bytes alone.
const (
	srcModeBytes   = 0 // *bytes.Reader (Read, ReadByte, Seek, ReadAt, ...)
	srcModePlain   = 1 // Read only, whole requests
	srcModeDataErr = 2 // Read only; the final bytes come together with io.EOF (iotest.DataErrReader)
	srcModeHalf    = 3 // Read only; half of each request (iotest.HalfReader)
	srcModeOneByte = 4 // Read only; one byte per call (iotest.OneByteReader)
)

func c02xSource(file []byte, mode int) io.Reader {
	var r io.Reader = bytes.NewReader(file)
	switch mode {
	case srcModePlain:
		return plainReader{r}
	case srcModeDataErr:
		return iotest.DataErrReader(plainReader{r})
	case srcModeHalf:
		return iotest.HalfReader(plainReader{r})
	case srcModeOneByte:
		return iotest.OneByteReader(plainReader{r})
	}
	return r
}

// c02xMode draws a delivery pattern.
func c02xMode(r *RNG) int {
	return pick(r, []int{srcModeBytes, srcModePlain, srcModePlain, srcModeDataErr, srcModeDataErr, srcModeHalf, srcModeOneByte})
}

func runScanImpl(kind uint64, o rOpts, file []byte, plain bool) Val {
	mode := srcModeBytes
	if plain {
		mode = srcModePlain
	}
	return runScanImplSrc(kind, o, c02xSource(file, mode))
}

func runScanImplSrc(kind uint64, o rOpts, r io.Reader) Val {
	switch kind {
	case 0:
		br, err := carv2.NewBlockReader(r, o.v2()...)
		if err != nil {
			return VL{VT("openerr"), verr(err)}
		}
		var bs []blocks.Block
		for {
			b, err := br.Next()
			if err != nil {
				return VL{VT("ok"), VN(br.Version), cidsVal(br.Roots), blocksObs(bs, err)}
			}
			bs = append(bs, b)
		}
	case 1:
		var roots []cid.Cid
		var bs []blocks.Block
		var openErr, endErr error
		if o.zeof && o.maxH == defaultROpts.maxH && o.maxS == defaultROpts.maxS {
			// exactly the options of carv1.NewCarReaderWithZeroLengthSectionAsEOF: go through it
			roots, bs, openErr, endErr = carv2.VerifC02yCarV1ReadAllZeroLenAsEOF(r)
		} else {
			roots, bs, openErr, endErr = carv2.VerifCarV1ReadAll(r, o.zeof, o.maxH, o.maxS)
		}
		if openErr != nil {
			return VL{VT("openerr"), verr(openErr)}
		}
		return VL{VT("ok"), VN(1), cidsVal(roots), blocksObs(bs, endErr)}
	default:
		cr, err := carv1.NewCarReader(r)
		if err != nil {
			return VL{VT("openerr"), verr(err)}
		}
		var bs []blocks.Block
		for {
			b, err := cr.Next()
			if err != nil {
				return VL{VT("ok"), VN(1), cidsVal(cr.Header.Roots), blocksObs(bs, err)}
			}
			bs = append(bs, b)
		}
	}
}

func scanTables(file []byte) (Val, Val) {
	// payload candidates for the hash table: the whole file after its first header, and for a
	// CARv2 the declared payload window
	hdrs := VL{}
	var payloads [][]byte
	if e, rest, ok := hdrEntry(file); ok {
		hdrs = append(hdrs, e)
		payloads = append(payloads, rest)
		if len(rest) >= 40 {
			var h carv2.Header
			if _, err := h.ReadFrom(bytes.NewReader(rest[:40])); err == nil {
				start := h.DataOffset
				if start <= uint64(len(file)) {
					win := file[start:]
					if h.DataSize < uint64(len(win)) {
						win = win[:h.DataSize]
					}
					if e2, rest2, ok2 := hdrEntry(win); ok2 {
						hdrs = append(hdrs, e2)
						payloads = append(payloads, rest2)
					}
				}
			}
		}
	}
	return hokTable(payloads...), hdrs
}

func emitScan(c *Ctx, kind uint64, o rOpts, file []byte, withHdrTable bool, nontrivial bool) {
	hok, hdrs := scanTables(file)
	if !withHdrTable {
		hdrs = VL{}
	}
	in := VL{VN(kind), o.val(), VB(file), hok, hdrs}
	obs := runScanImpl(kind, o, file, c.R.Bool())
	c.Emit("scan", in, obs, nontrivial)
}

func init() {
	registerReplay("scan", func(c *Ctx, in Val) Val {
		l := in.(VL)
		ol := l[1].(VL)
		o := rOpts{ol[0].(VN) != 0, uint64(ol[1].(VN)), uint64(ol[2].(VN)), ol[3].(VN) != 0}
		mode := srcModeBytes
		if len(l) > 6 {
			mode = int(l[6].(VN))
		}
		return runScanImplSrc(uint64(l[0].(VN)), o, c02xSource([]byte(l[2].(VB)), mode))
	})
}

var _ = cid.Undef
