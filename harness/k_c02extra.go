package main

import (
	"bytes"
	"io"

	"github.com/ipfs/go-cid"
	v1util "github.com/ipld/go-car/util"
	carv2 "github.com/ipld/go-car/v2"
)

// Kinds of the C02 producer beyond scan / c02load / c02skip:
//   c02inspect: C13's kind "inspect" (k_inspect.go) with C02's expectation in input field 5
//   c02readcid: (buf expect) -> legacy util.ReadCid: (tok cid n) | (terr class)
//   c02hdrat:   (is_reader pos maxh file hdrs) -> carv1.ReadHeaderAt (verif hook)
//   c02ors:     (data base ops) -> internal io.offsetReadSeeker (verif hook): per op (bytes err Offset Position)

func c02xEmitInspect(c *Ctx, o iOpts, file []byte, expect Val, nontrivial bool) {
	hok, hdrs := inspectTables(file)
	in := VL{o.val(), VB(file), hok, hdrs, vbool(true), expect, VL{}}
	c.Emit("c02inspect", in, runInspectImpl(o, file, true, nil), nontrivial)
}

func c02xReadCidImpl(buf []byte) Val {
	c, n, err := v1util.ReadCid(buf)
	if err != nil {
		return VL{VT("err"), verr(err)}
	}
	return VL{VT("ok"), VB(c.Bytes()), VN(uint64(n))}
}

// pureReaderAt hides everything but ReadAt.
type pureReaderAt struct{ r io.ReaderAt }

func (p pureReaderAt) ReadAt(b []byte, off int64) (int, error) { return p.r.ReadAt(b, off) }

func c02xHdrAtImpl(isReader bool, pos uint64, maxH uint64, file []byte) Val {
	br := bytes.NewReader(file)
	var at io.ReaderAt = pureReaderAt{br}
	if isReader {
		br.Seek(int64(pos), io.SeekStart)
		at = br
	}
	roots, v, err := carv2.VerifC02yReadHeaderAt(at, maxH)
	if err != nil {
		return VL{VT("err"), verr(err)}
	}
	return VL{VT("ok"), cidsVal(roots), VN(v)}
}

func c02xOrsImpl(data []byte, base uint64, ops VL) Val {
	rs, err := carv2.VerifC02yNewOffsetReadSeeker(pureReaderAt{bytes.NewReader(data)}, int64(base))
	if err != nil {
		return VL{VL{VB(nil), verr(err), VN(0), VN(0), VN(0)}}
	}
	out := VL{}
	for _, opv := range ops {
		op := opv.(VL)
		var got []byte
		var err error
		switch string(op[0].(VT)) {
		case "read":
			buf := make([]byte, int(op[1].(VN)))
			var n int
			n, err = rs.Read(buf)
			got = buf[:n]
		case "byte":
			var b byte
			b, err = rs.ReadByte()
			if err == nil {
				got = []byte{b}
			}
		case "at":
			buf := make([]byte, int(op[1].(VN)))
			var n int
			n, err = rs.ReadAt(buf, int64(op[2].(VN)))
			got = buf[:n]
		case "start":
			_, err = rs.Seek(int64(op[1].(VN)), io.SeekStart)
		case "fwd":
			_, err = rs.Seek(int64(op[1].(VN)), io.SeekCurrent)
		case "back":
			_, err = rs.Seek(-int64(op[1].(VN)), io.SeekCurrent)
		default:
			_, err = rs.Seek(0, io.SeekEnd)
		}
		pos, sign := rs.Position(), uint64(0)
		if pos < 0 {
			pos, sign = -pos, 1
		}
		out = append(out, VL{VB(got), verr(err), VN(uint64(rs.Offset())), VN(sign), VN(uint64(pos))})
	}
	return out
}

func init() {
	registerReplay("c02inspect", func(c *Ctx, in Val) Val {
		l := in.(VL)
		ol := l[0].(VL)
		o := iOpts{ol[0].(VN) != 0, uint64(ol[1].(VN)), uint64(ol[2].(VN))}
		return runInspectImpl(o, []byte(l[1].(VB)), true, nil)
	})
	registerReplay("c02readcid", func(c *Ctx, in Val) Val { return c02xReadCidImpl([]byte(in.(VL)[0].(VB))) })
	registerReplay("c02hdrat", func(c *Ctx, in Val) Val {
		l := in.(VL)
		return c02xHdrAtImpl(l[0].(VN) != 0, uint64(l[1].(VN)), uint64(l[2].(VN)), []byte(l[3].(VB)))
	})
	registerReplay("c02ors", func(c *Ctx, in Val) Val {
		l := in.(VL)
		return c02xOrsImpl([]byte(l[0].(VB)), uint64(l[1].(VN)), l[2].(VL))
	})
}

var _ = cid.Undef
