package main

import (
	"fmt"
	"sort"
)

// Sequential specification of the writable stores (property C08) and a linearizability
// checker for recorded concurrent histories.  The Coq side (theories/RunConc.v) has the same
// specification; this copy only searches for the witness that the Coq checker then validates.

// operation kinds of kind "conc"
const (
	cPut = iota
	cPutMany
	cHas
	cGet
	cGetSize
	cAllKeys
	cRoots
	cFinalize
	cFinalizeRO
	cNumKinds
)

const cUnknownID = 0xffffffff

type cOp struct {
	Tid   int
	Kind  int
	Ids   []int
	Phase int
}

// result tags
const (
	rOK    = iota // (tok)
	rOKN          // (tok n<x>)
	rOKL          // (tok ( n<id> ... ))
	rErr          // (terr t<class>)
	rPanic        // (tpanic)
)

type cResult struct {
	Tag   int
	N     uint64
	L     []uint64
	Class string
}

func (r cResult) val() Val {
	switch r.Tag {
	case rOK:
		return VL{VT("ok")}
	case rOKN:
		return VL{VT("ok"), VN(r.N)}
	case rOKL:
		l := VL{}
		for _, x := range r.L {
			l = append(l, VN(x))
		}
		return VL{VT("ok"), l}
	case rErr:
		return VL{VT("err"), VT(r.Class)}
	}
	return VL{VT("panic")}
}

func (r cResult) equal(o cResult) bool {
	if r.Tag != o.Tag {
		return false
	}
	switch r.Tag {
	case rOKN:
		return r.N == o.N
	case rOKL:
		if len(r.L) != len(o.L) {
			return false
		}
		for i := range r.L {
			if r.L[i] != o.L[i] {
				return false
			}
		}
	case rErr:
		return r.Class == o.Class
	}
	return true
}

// statName is the key used for the result/<...> generator statistics.
func (r cResult) statName() string {
	switch r.Tag {
	case rErr:
		return "err-" + r.Class
	case rPanic:
		return "panic"
	}
	return "ok"
}

func cErr(class string) cResult { return cResult{Tag: rErr, Class: class} }

// cBlockSize is the size of block id i as the model computes it.
func cBlockSize(i int) uint64 {
	return uint64(len(fmt.Sprintf("c08-block-%d-", i)) + (i*7)%40)
}

// Key families (ids >= 100): id = 100 + 10*g + v.  All members of family g carry the SAME 32 digest
// bytes; the variants differ in CID version, codec and multihash code:
//
//	v0 CIDv1 raw sha2-256 | v1 CIDv1 dag-pb sha2-256 | v2 CIDv0 (dag-pb sha2-256)   -- one multihash
//	v3 CIDv1 raw sha3-256 | v4 CIDv1 dag-cbor sha3-256                               -- another multihash
//	v5 CIDv1 raw blake2b-256                                                         -- a third one
//
// The stores de-duplicate by multihash (default options): cMhKey(id) is the smallest id with the same
// multihash (ids below 100 are one-member classes).
func cMhKey(id int) int {
	if id < 100 {
		return id
	}
	switch v := id % 10; {
	case v <= 2:
		return id - v
	case v <= 4:
		return id - v + 3
	default:
		return id - v + 5
	}
}

// cState is the abstract state of a store.  keys is never modified in place.
type cState struct {
	keys      []int // insertion order, at most one per multihash
	finalized bool
	closed    bool
	created   bool // store 2 only
}

// has: some stored block has the multihash of id
func (s cState) has(id int) bool { return s.first(id) >= 0 }

// first: the first stored block with the multihash of id (what a lookup returns), or -1
func (s cState) first(id int) int {
	for _, k := range s.keys {
		if cMhKey(k) == cMhKey(id) {
			return k
		}
	}
	return -1
}

// put appends the ids that are not yet present, in order (copy on write).
func (s cState) put(ids []int) cState {
	var fresh []int
	for _, id := range ids {
		dup := s.has(id)
		for _, f := range fresh {
			if cMhKey(f) == cMhKey(id) {
				dup = true
			}
		}
		if !dup {
			fresh = append(fresh, id)
		}
	}
	if len(fresh) > 0 {
		nk := make([]int, 0, len(s.keys)+len(fresh))
		nk = append(nk, s.keys...)
		s.keys = append(nk, fresh...)
	}
	return s
}

func (s cState) sortedKeys() []uint64 {
	out := make([]uint64, 0, len(s.keys))
	for _, k := range s.keys {
		out = append(out, uint64(cMhKey(k))) // listings carry the multihash only
	}
	sort.Slice(out, func(i, j int) bool { return out[i] < out[j] })
	return out
}

func cFirstID(op cOp) int {
	if len(op.Ids) > 0 {
		return op.Ids[0]
	}
	return 0
}

// specFinalizeRO is the FinalizeReadOnly step of store 0 (with its state change).
func specFinalizeRO(v1 int, st cState) (cState, cResult) {
	if v1 == 1 {
		st.finalized = true
		return st, cResult{Tag: rOK}
	}
	if st.closed {
		return st, cErr("other")
	}
	if st.finalized {
		return st, cErr("other")
	}
	st.finalized = true
	return st, cResult{Tag: rOK}
}

// specStep: what the unchanged library does when op runs alone in state st.
// Kinds a store does not support are answered with (terr tunsupported), which no
// observation ever equals.
func specStep(store, v1 int, st cState, op cOp) (cState, cResult) {
	id := cFirstID(op)
	ok := cResult{Tag: rOK}
	okb := func(b bool) cResult {
		if b {
			return cResult{Tag: rOKN, N: 1}
		}
		return cResult{Tag: rOKN, N: 0}
	}
	unsupported := cErr("unsupported")
	switch store {
	case 0:
		switch op.Kind {
		case cPut, cPutMany:
			if st.closed {
				return st, cErr("closed")
			}
			if st.finalized {
				return st, cErr("finalized")
			}
			return st.put(op.Ids), ok
		case cHas:
			if st.closed {
				return st, cErr("closed")
			}
			return st, okb(st.has(id))
		case cGet, cGetSize:
			if st.closed {
				return st, cErr("closed")
			}
			if !st.has(id) {
				return st, cErr("notfound")
			}
			if op.Kind == cGet {
				return st, cResult{Tag: rOKN, N: uint64(st.first(id))}
			}
			return st, cResult{Tag: rOKN, N: cBlockSize(st.first(id))}
		case cAllKeys:
			if st.closed {
				return st, cErr("closed")
			}
			return st, cResult{Tag: rOKL, L: st.sortedKeys()}
		case cRoots:
			if st.closed {
				return st, cErr("other")
			}
			return st, cResult{Tag: rOKN, N: 1}
		case cFinalizeRO:
			return specFinalizeRO(v1, st)
		case cFinalize:
			st, e1 := specFinalizeRO(v1, st)
			var e2 cResult
			switch {
			case v1 != 1 && !st.finalized:
				e2 = cErr("other")
			case st.closed:
				e2 = cErr("other")
			default:
				st.closed = true
				e2 = ok
			}
			if e1.Tag == rErr {
				return st, e1
			}
			return st, e2
		}
	case 1:
		switch op.Kind {
		case cPut:
			if st.closed {
				return st, cErr("closed")
			}
			return st.put(op.Ids), ok
		case cHas:
			if st.closed {
				return st, cErr("closed")
			}
			return st, okb(st.has(id))
		case cGet:
			if st.closed {
				return st, cErr("closed")
			}
			if !st.has(id) {
				return st, cErr("notfound")
			}
			return st, cResult{Tag: rOKN, N: uint64(st.first(id))}
		case cRoots:
			return st, cResult{Tag: rOKN, N: 1}
		case cFinalize:
			if st.closed {
				return st, cErr("other")
			}
			st.closed = true
			return st, ok
		}
	case 2:
		switch op.Kind {
		case cPut:
			if st.closed {
				return st, cErr("closed")
			}
			st.created = true
			return st.put(op.Ids), ok
		case cHas:
			if st.closed {
				return st, cErr("closed")
			}
			return st, okb(st.has(id))
		case cFinalize:
			if st.closed {
				return st, cErr("closed")
			}
			st.closed = true
			return st, ok
		}
	}
	return st, unsupported
}

// cSupported lists the op kinds each store supports.
var cSupported = [3][]int{
	{cPut, cPutMany, cHas, cGet, cGetSize, cAllKeys, cRoots, cFinalize, cFinalizeRO},
	{cPut, cHas, cGet, cRoots, cFinalize},
	{cPut, cHas, cFinalize},
}

// ---- linearizability checker ----

const cMaxOps = 256

type cBits [cMaxOps / 64]uint64

func (b *cBits) set(i int)      { b[i/64] |= 1 << (uint(i) % 64) }
func (b *cBits) clear(i int)    { b[i/64] &^= 1 << (uint(i) % 64) }
func (b *cBits) has(i int) bool { return b[i/64]&(1<<(uint(i)%64)) != 0 }

// memo key: the set of linearized ops and the state.  Because the search only keeps
// states whose keys are a prefix of the final file, (len(keys), flags) determines the state.
type cMemoKey struct {
	done  cBits
	nkeys int
	flags uint8
}

type cLin struct {
	store, v1 int
	ops       []cOp
	hist      [][2]uint64
	results   []cResult
	final     []uint64
	order     []int // op indices sorted by ret (candidate order)
	done      cBits
	ndone     int
	witness   []int
	memo      map[cMemoKey]struct{}
	budget    int
	exhausted bool
}

func isKeyPrefix(keys []int, final []uint64) bool {
	if len(keys) > len(final) {
		return false
	}
	for i, k := range keys {
		if uint64(k) != final[i] {
			return false
		}
	}
	return true
}

func (l *cLin) search(st cState) bool {
	n := len(l.ops)
	if l.ndone == n {
		return len(st.keys) == len(l.final) // prefix + same length = equal
	}
	var fl uint8
	if st.finalized {
		fl |= 1
	}
	if st.closed {
		fl |= 2
	}
	if st.created {
		fl |= 4
	}
	key := cMemoKey{done: l.done, nkeys: len(st.keys), flags: fl}
	if _, seen := l.memo[key]; seen {
		return false
	}
	if l.budget <= 0 {
		l.exhausted = true
		return false
	}
	l.budget--
	// an op may be linearized next only if no other pending op returned before it was invoked
	minRet := ^uint64(0)
	for i := 0; i < n; i++ {
		if !l.done.has(i) && l.hist[i][1] < minRet {
			minRet = l.hist[i][1]
		}
	}
	for _, i := range l.order {
		if l.done.has(i) || l.hist[i][0] > minRet {
			continue
		}
		nst, r := specStep(l.store, l.v1, st, l.ops[i])
		if !r.equal(l.results[i]) || !isKeyPrefix(nst.keys, l.final) {
			continue
		}
		l.done.set(i)
		l.ndone++
		l.witness = append(l.witness, i)
		if l.search(nst) {
			return true
		}
		l.witness = l.witness[:len(l.witness)-1]
		l.ndone--
		l.done.clear(i)
		if l.exhausted {
			return false
		}
	}
	l.memo[key] = struct{}{}
	return false
}

// linearize looks for a total order of the ops that respects the recorded intervals, makes
// specStep reproduce every observed result and ends with keys == final.  It returns the
// witness (op indices) or nil, and whether the search gave up (budget exhausted).
func linearize(store, v1 int, ops []cOp, hist [][2]uint64, results []cResult, final []uint64) (witness []int, found bool, gaveUp bool) {
	n := len(ops)
	if n > cMaxOps || len(hist) != n || len(results) != n {
		return nil, false, false
	}
	for _, r := range results {
		if r.Tag == rPanic {
			return nil, false, false
		}
	}
	l := &cLin{store: store, v1: v1, ops: ops, hist: hist, results: results, final: final,
		memo: map[cMemoKey]struct{}{}, budget: 6000000}
	l.order = make([]int, n)
	for i := range l.order {
		l.order[i] = i
	}
	sort.SliceStable(l.order, func(a, b int) bool { return hist[l.order[a]][1] < hist[l.order[b]][1] })
	if l.search(cState{}) {
		return append([]int{}, l.witness...), true, false
	}
	return nil, false, l.exhausted
}

// cOverlap: do two ops of different goroutines overlap in time?
func cOverlap(ops []cOp, hist [][2]uint64) bool {
	for i := range ops {
		if ops[i].Phase != 1 {
			continue
		}
		for j := i + 1; j < len(ops); j++ {
			if ops[j].Phase != 1 || ops[j].Tid == ops[i].Tid {
				continue
			}
			if hist[i][0] < hist[j][1] && hist[j][0] < hist[i][1] {
				return true
			}
		}
	}
	return false
}
