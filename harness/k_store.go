package main

import (
	"bytes"
	"context"
	"io"
	"os"
	"os/signal"
	"path/filepath"
	"syscall"

	blocks "github.com/ipfs/go-block-format"
	"github.com/ipfs/go-cid"
	carv2 "github.com/ipld/go-car/v2"
	"github.com/ipld/go-car/v2/blockstore"
	"github.com/ipld/go-car/v2/index"
	"github.com/ipld/go-car/v2/storage"
	"github.com/multiformats/go-multicodec"
	"github.com/multiformats/go-multihash"
)

// kind "store": histories of operations on a writable store (see coq/theories/RunStore.v for the
// wire format).  kinds: 0 blockstore.ReadWrite, 1 storage readable+writable on a file,
// 2 storage NewWritable on a file (WriterAt, write-only), 3 storage NewWritable on a stream.

type wOpts struct {
	dpad, ipad uint64
	codec      uint64
	zeof       bool
	maxCid     uint64
	storeID    bool
	dups       bool
	whole      bool
	v1         bool
	maxH, maxS uint64
}

var defaultWOpts = wOpts{codec: 0x0401, maxCid: 2048, maxH: 32 << 20, maxS: 8 << 20}

func (o wOpts) val() Val {
	return VL{VN(o.dpad), VN(o.ipad), VN(o.codec), vbool(o.zeof), VN(o.maxCid), vbool(o.storeID),
		vbool(o.dups), vbool(o.whole), vbool(o.v1), VN(o.maxH), VN(o.maxS)}
}
func wOptsFromVal(v Val) wOpts {
	l := v.(VL)
	n := func(i int) uint64 { return uint64(l[i].(VN)) }
	return wOpts{n(0), n(1), n(2), n(3) != 0, n(4), n(5) != 0, n(6) != 0, n(7) != 0, n(8) != 0, n(9), n(10)}
}
func (o wOpts) v2() []carv2.Option {
	opts := []carv2.Option{
		carv2.UseDataPadding(o.dpad), carv2.UseIndexPadding(o.ipad),
		carv2.UseIndexCodec(multicodec.Code(o.codec)),
		carv2.ZeroLengthSectionAsEOF(o.zeof), carv2.MaxIndexCidSize(o.maxCid),
		carv2.StoreIdentityCIDs(o.storeID), carv2.AllowDuplicatePuts(o.dups),
		carv2.UseWholeCIDs(o.whole), carv2.WriteAsCarV1(o.v1),
		carv2.MaxAllowedHeaderSize(o.maxH), carv2.MaxAllowedSectionSize(o.maxS),
	}
	return opts
}

// faultFile wraps an *os.File: every Write/WriteAt call consumes one entry of the fault script
// (-1 = no fault; k >= 0 = only the first min(k,len) bytes are written and an error is returned).
type faultFile struct {
	f        *os.File
	faults   []int
	seq      int64   // cursor for sequential Write
	borrowed bool    // f belongs to the blockstore (verif hook): not ours to close
	lens     []int   // length of the buffer of every call so far (0 for a Truncate call)
	offs     []int64 // offset of every call so far (the new length for a Truncate call)
	hits     int     // injected faults so far
	inOpen   bool    // inside Open/Resume: Truncate is not part of the script there
}

var errInjected = io.ErrShortWrite

func (ff *faultFile) next() int {
	if len(ff.faults) == 0 {
		return -1
	}
	k := ff.faults[0]
	ff.faults = ff.faults[1:]
	return k
}
func (ff *faultFile) ReadAt(p []byte, off int64) (int, error) { return ff.f.ReadAt(p, off) }
func (ff *faultFile) WriteAt(p []byte, off int64) (int, error) {
	k := ff.next()
	ff.lens = append(ff.lens, len(p))
	ff.offs = append(ff.offs, off)
	if k < 0 {
		return ff.f.WriteAt(p, off)
	}
	ff.hits++
	if k > len(p) {
		k = len(p)
	}
	if k > 0 {
		ff.f.WriteAt(p[:k], off)
	}
	return k, errInjected
}
func (ff *faultFile) Write(p []byte) (int, error) {
	n, err := ff.WriteAt(p, ff.seq)
	ff.seq += int64(n)
	return n, err
}

// Truncate outside the open phase (the rewind after a failed section write) consumes one entry of
// the script too: any fault value = the call fails and nothing is truncated.
func (ff *faultFile) Truncate(n int64) error {
	if ff.inOpen {
		return ff.f.Truncate(n)
	}
	k := ff.next()
	ff.lens = append(ff.lens, 0)
	ff.offs = append(ff.offs, n)
	if k < 0 {
		return ff.f.Truncate(n)
	}
	ff.hits++
	return errInjected
}

// writeOnlyFile hides ReadAt (storage kind 2)
type writeOnlyFile struct{ ff *faultFile }

func (w writeOnlyFile) Write(p []byte) (int, error)              { return w.ff.Write(p) }
func (w writeOnlyFile) WriteAt(p []byte, off int64) (int, error) { return w.ff.WriteAt(p, off) }
func (w writeOnlyFile) Truncate(n int64) error                   { return w.ff.Truncate(n) }

// noTruncFile is a WriterAt that can neither be read nor truncated (kind 4, CARv1 only: a failed
// partial write cannot be taken back, as on a plain io.Writer)
type noTruncFile struct{ ff *faultFile }

func (w noTruncFile) Write(p []byte) (int, error)              { return w.ff.Write(p) }
func (w noTruncFile) WriteAt(p []byte, off int64) (int, error) { return w.ff.WriteAt(p, off) }

// faultStream is a plain io.Writer (kind 3)
type faultStream struct {
	buf    bytes.Buffer
	faults []int
	lens   []int
	hits   int
}

func (fs *faultStream) Write(p []byte) (int, error) {
	k := -1
	if len(fs.faults) > 0 {
		k = fs.faults[0]
		fs.faults = fs.faults[1:]
	}
	fs.lens = append(fs.lens, len(p))
	if k < 0 {
		return fs.buf.Write(p)
	}
	fs.hits++
	if k > len(p) {
		k = len(p)
	}
	fs.buf.Write(p[:k])
	return k, errInjected
}

func outNil() Val          { return VL{VT("nil")} }
// lastOutErr: the error of the most recent outErr call (single-threaded drivers only); a producer's
// afterStep hook can classify it further (C04: storage.IsNotFound) and must reset it
var lastOutErr error

func outErr(err error) Val { lastOutErr = err; return VL{VT("err"), verr(err)} }
func outOf(err error) Val {
	if err != nil {
		return outErr(err)
	}
	return outNil()
}
func outSize(n int) Val {
	if n < 0 {
		return VL{VT("size"), VN(1), VN(uint64(-n))}
	}
	return VL{VT("size"), VN(0), VN(uint64(n))}
}

type storeSession struct {
	kind   uint64
	path   string
	bs     *blockstore.ReadWrite
	sc     *storage.StorageCar
	wc     storage.WritableCar
	ff     *faultFile
	stream *faultStream
	prev   []byte
	own    *os.File // kind 5/6: the caller-owned file handed to blockstore.OpenReadWriteFile (stays open)
	ownSeeks bool   // kind 6: the caller moves the cursor of its file before every reopen
	nReopen  int

	finalizeAt []int // number of intercepted calls when each blockstore finalize operation started
	fsizeLimit int64 // > 0: RLIMIT_FSIZE during the next blockstore finalize operation
}

func (s *storeSession) fileBytes() []byte {
	if s.kind == 3 {
		return append([]byte(nil), s.stream.buf.Bytes()...)
	}
	b, err := os.ReadFile(s.path)
	if err != nil {
		return nil
	}
	return b
}

func (s *storeSession) closeHandles() {
	if s.bs != nil {
		s.bs.Discard()
		s.bs = nil
	}
	if s.own != nil {
		s.own.Close()
		s.own = nil
	}
	if s.ff != nil {
		if !s.ff.borrowed {
			s.ff.f.Close()
		}
		s.ff = nil
	}
	s.sc = nil
	s.wc = nil
}

func cidsFromVal(v Val) []cid.Cid {
	if _, isNil := v.(VT); isNil {
		return nil
	}
	out := []cid.Cid{}
	for _, x := range v.(VL) {
		_, c, err := cid.CidFromBytes([]byte(x.(VB)))
		if err != nil {
			panic(err)
		}
		out = append(out, c)
	}
	return out
}

func faultsFromVal(v Val) []int {
	var out []int
	for _, x := range v.(VL) {
		if l, ok := x.(VL); ok && len(l) == 1 {
			out = append(out, int(l[0].(VN)))
		} else {
			out = append(out, -1)
		}
	}
	return out
}

// dataWriterInterposer is the add-only verif hook of the blockstore front-end
// (v2/blockstore/verif_hooks.go, notes/hooks/c16-blockstore-writer.patch).  Asserted dynamically
// so that the harness still builds against a tree that does not carry the hook.
type dataWriterInterposer interface {
	VerifInterposeDataWriter(func(io.WriterAt) io.WriterAt)
}

// blockstoreOpenCalls: write calls of OpenReadWrite on an empty file (pragma for CARv2, then the
// header's length varint and body).  They happen before the hook can be installed, so the
// corresponding entries of a blockstore fault script must be "no fault".
func blockstoreOpenCalls(o wOpts) int {
	if o.v1 {
		return 2
	}
	return 3
}

// interposeFaults routes the blockstore's data writer through a faultFile consuming the given
// script.  Finalize writes pragma/index/header through the *os.File directly: those calls are
// out of the hook's reach and consume no entry (see notes/design/C16.md).
func (s *storeSession) interposeFaults(faults []int) {
	if len(faults) == 0 {
		return
	}
	h, ok := interface{}(s.bs).(dataWriterInterposer)
	if !ok {
		panic("blockstore fault injection needs the verif hook VerifInterposeDataWriter (notes/hooks/c16-blockstore-writer.patch)")
	}
	h.VerifInterposeDataWriter(func(w io.WriterAt) io.WriterAt {
		s.ff = &faultFile{f: w.(*os.File), faults: faults, borrowed: true}
		return s.ff
	})
}

// storeExtra lets a producer observe more of a session without changing runStoreImpl:
// afterStep (if set) returns extra values appended to each step's observation.
// finalizeVia is the second verif hook of the blockstore (notes/hooks/c16-blockstore-finalize.patch):
// Finalize / FinalizeReadOnly with the index and header writes going through a wrapped writer.
type finalizeVia interface {
	VerifFinalizeVia(func(io.WriterAt) io.WriterAt) error
	VerifFinalizeReadOnlyVia(func(io.WriterAt) io.WriterAt) error
}

// bsFinalize: while the script still holds a fault, the finalize writes go through the wrapper as
// well (same script, same cursor) by way of the hook's copy of the method; otherwise -- no wrapper,
// or only "no fault" entries left -- the library's own Finalize / FinalizeReadOnly run (nothing is
// written after them, so the entries they would have consumed do not matter).
func (s *storeSession) bsFinalize(readOnly bool) error {
	if s.ff != nil {
		s.finalizeAt = append(s.finalizeAt, len(s.ff.lens))
	}
	if s.fsizeLimit > 0 {
		// make the *os.File itself fail: RLIMIT_FSIZE cuts the write that crosses the limit short and
		// fails it (EFBIG; SIGXFSZ is ignored), only while this one call runs
		limit := s.fsizeLimit
		s.fsizeLimit = 0
		signal.Ignore(syscall.SIGXFSZ)
		var old syscall.Rlimit
		if err := syscall.Getrlimit(syscall.RLIMIT_FSIZE, &old); err != nil {
			panic(err)
		}
		if err := syscall.Setrlimit(syscall.RLIMIT_FSIZE, &syscall.Rlimit{Cur: uint64(limit), Max: old.Max}); err != nil {
			panic(err)
		}
		defer func() {
			if err := syscall.Setrlimit(syscall.RLIMIT_FSIZE, &old); err != nil {
				panic(err)
			}
		}()
	}
	faultAhead := false
	if s.ff != nil {
		for _, k := range s.ff.faults {
			if k >= 0 {
				faultAhead = true
			}
		}
	}
	if faultAhead {
		h, ok := interface{}(s.bs).(finalizeVia)
		if !ok {
			panic("blockstore fault injection needs the verif hook VerifFinalizeVia (notes/hooks/c16-blockstore-finalize.patch)")
		}
		wrap := func(io.WriterAt) io.WriterAt { return s.ff }
		if readOnly {
			return h.VerifFinalizeReadOnlyVia(wrap)
		}
		return h.VerifFinalizeVia(wrap)
	}
	if readOnly {
		return s.bs.FinalizeReadOnly()
	}
	return s.bs.Finalize()
}

type storeExtra struct {
	afterStep  func(s *storeSession) []Val
	afterStep2 func(s *storeSession, tag string, out Val, changed bool) // optional observer
	fsizeLimit int64                                                    // in: file size limit during the first blockstore finalize operation (0 = none)
	callOffs   []int64                                                  // out: offset of every intercepted call
	finalizeAt []int                                                    // out: number of intercepted calls at the start of each blockstore finalize operation
	callLens   []int                                                    // out: buffer length of every intercepted write call of the session
	hits       int                                                      // out: injected faults that were actually consumed
}

// indexCount: number of records in the store's in-memory insertion index
func (s *storeSession) indexCount() uint64 {
	var idx index.Index
	switch {
	case s.bs != nil:
		idx = s.bs.Index()
	case s.wc != nil:
		idx = s.wc.Index()
	default:
		return 0
	}
	ii, ok := idx.(*index.InsertionIndex)
	if !ok {
		return 0
	}
	var n uint64
	ii.ForEach(func(multihash.Multihash, uint64) error { n++; return nil })
	return n
}

// runStoreImpl executes a history on the real library.  Blockstore sessions honour the fault
// script through the verif hook (data-writer calls only; the entries of the open phase must be
// "no fault").
func runStoreImpl(work string, kind uint64, o wOpts, roots []cid.Cid, faults []int, ops VL) Val {
	return runStoreImplX(work, kind, o, roots, faults, ops, nil)
}

func runStoreImplX(work string, kind uint64, o wOpts, roots []cid.Cid, faults []int, ops VL, x *storeExtra) Val {
	ctx := context.Background()
	dir, err := os.MkdirTemp(work, "st")
	if err != nil {
		panic(err)
	}
	defer os.RemoveAll(dir)
	s := &storeSession{kind: kind, path: filepath.Join(dir, "a.car")}
	if x != nil {
		s.fsizeLimit = x.fsizeLimit
	}
	defer s.closeHandles()
	var openErr error
	switch kind {
	case 0:
		s.bs, openErr = blockstore.OpenReadWrite(s.path, roots, o.v2()...)
		if openErr == nil && len(faults) > 0 {
			nOpen := blockstoreOpenCalls(o)
			for i := 0; i < nOpen && i < len(faults); i++ {
				if faults[i] >= 0 {
					panic("blockstore fault script: open-phase entries cannot be injected")
				}
			}
			if len(faults) > nOpen {
				s.interposeFaults(faults[nOpen:])
			}
		}
	case 1, 2:
		f, err := os.OpenFile(s.path, os.O_RDWR|os.O_CREATE, 0o666)
		if err != nil {
			panic(err)
		}
		s.ff = &faultFile{f: f, faults: faults}
		if kind == 1 {
			s.sc, openErr = storage.NewReadableWritable(s.ff, roots, o.v2()...)
			if openErr == nil {
				s.wc = s.sc
			}
		} else {
			s.wc, openErr = storage.NewWritable(writeOnlyFile{s.ff}, roots, o.v2()...)
		}
	case 3:
		s.stream = &faultStream{faults: faults}
		s.wc, openErr = storage.NewWritable(s.stream, roots, o.v2()...)
	case 4:
		f, err := os.OpenFile(s.path, os.O_RDWR|os.O_CREATE, 0o666)
		if err != nil {
			panic(err)
		}
		s.ff = &faultFile{f: f, faults: faults}
		s.wc, openErr = storage.NewWritable(noTruncFile{s.ff}, roots, o.v2()...)
	case 5, 6:
		// blockstore.OpenReadWriteFile: the CALLER owns the *os.File; Close/Discard leave it open (it is
		// closed when the session ends).  From here on the session is driven like kind 0, except that a
		// "reopen" goes through OpenReadWriteFile on the SAME handle; kind 6: the caller moves the
		// handle's cursor before every reopen (the cursor is not part of the model)
		f, err := os.OpenFile(s.path, os.O_RDWR|os.O_CREATE, 0o666)
		if err != nil {
			panic(err)
		}
		s.own = f
		s.ownSeeks = kind == 6
		s.bs, openErr = blockstore.OpenReadWriteFile(f, roots, o.v2()...)
		kind = 0
	}
	if openErr != nil {
		return VL{outErr(openErr), VL{}, VB(nil)}
	}
	s.prev = s.fileBytes()
	obs := VL{}
	for _, opv := range ops {
		op := opv.(VL)
		tag := string(op[0].(VT))
		var out Val
		stop := false
		keyOf := func(i int) (cid.Cid, string) {
			kb := []byte(op[i].(VB))
			_, c, _ := cid.CidFromBytes(kb)
			return c, string(kb)
		}
		switch tag {
		case "put":
			c, ks := keyOf(1)
			data := []byte(op[2].(VB))
			if kind == 0 {
				blk, _ := blocks.NewBlockWithCid(data, c)
				out = outOf(s.bs.Put(ctx, blk))
			} else {
				out = outOf(s.wc.Put(ctx, ks, data))
			}
		case "putmany":
			var blks []blocks.Block
			for _, e := range op[1:] {
				el := e.(VL)
				_, c, _ := cid.CidFromBytes([]byte(el[0].(VB)))
				blk, _ := blocks.NewBlockWithCid([]byte(el[1].(VB)), c)
				blks = append(blks, blk)
			}
			out = outOf(s.bs.PutMany(ctx, blks))
		case "has":
			c, ks := keyOf(1)
			var has bool
			var err error
			if kind == 0 {
				has, err = s.bs.Has(ctx, c)
			} else {
				has, err = s.wc.(interface {
					Has(context.Context, string) (bool, error)
				}).Has(ctx, ks)
			}
			if err != nil {
				out = outErr(err)
			} else {
				out = VL{VT("bool"), vbool(has)}
			}
		case "get":
			c, ks := keyOf(1)
			if kind == 0 {
				blk, err := s.bs.Get(ctx, c)
				if err != nil {
					out = outErr(err)
				} else {
					out = VL{VT("bytes"), VB(blk.RawData())}
				}
			} else {
				d, err := s.wc.(interface {
					Get(context.Context, string) ([]byte, error)
				}).Get(ctx, ks)
				if err != nil {
					out = outErr(err)
				} else {
					out = VL{VT("bytes"), VB(d)}
				}
			}
		case "getsize":
			c, _ := keyOf(1)
			n, err := s.bs.GetSize(ctx, c)
			if err != nil {
				out = outErr(err)
			} else {
				out = outSize(n)
			}
		case "keys":
			ch, err := s.bs.AllKeysChan(ctx)
			if err != nil {
				out = outErr(err)
			} else {
				var ks []cid.Cid
				for c := range ch {
					ks = append(ks, c)
				}
				out = VL{VT("keys"), cidsVal(ks)}
			}
		case "roots":
			if kind == 0 {
				rs, err := s.bs.Roots()
				if err != nil {
					out = outErr(err)
				} else {
					out = VL{VT("keys"), cidsVal(rs)}
				}
			} else {
				out = VL{VT("keys"), cidsVal(s.wc.Roots())}
			}
		case "finalize":
			if kind == 0 {
				out = outOf(s.bsFinalize(false))
			} else {
				out = outOf(s.wc.Finalize())
			}
		case "finalizero":
			out = outOf(s.bsFinalize(true))
		case "close":
			out = outOf(s.bs.Close())
		case "discard":
			s.bs.Discard()
			out = outNil()
		case "delete": // ReadWrite.DeleteBlock: unsupported, always an error
			c, _ := keyOf(1)
			out = outOf(s.bs.DeleteBlock(ctx, c))
		case "hashonread": // ReadWrite.HashOnRead: a no-op
			s.bs.HashOnRead(uint64(op[1].(VN)) != 0)
			out = outNil()
		case "reopen":
			o2 := wOptsFromVal(op[1])
			roots2 := cidsFromVal(op[2])
			var rest []int
			if s.ff != nil {
				rest = s.ff.faults
			}
			own := s.own
			s.own = nil // closeHandles must not close the caller's file
			s.closeHandles()
			s.own = own
			var err error
			if own != nil {
				// the same *os.File again; wherever its cursor stands
				if s.ownSeeks {
					s.nReopen++
					if s.nReopen%2 == 1 {
						_, err = own.Seek(0, io.SeekEnd)
					} else {
						st, _ := own.Stat()
						_, err = own.Seek((st.Size()*int64(s.nReopen*7+3)/23)%(st.Size()+1), io.SeekStart)
					}
					if err != nil {
						panic(err)
					}
				}
				s.bs, err = blockstore.OpenReadWriteFile(own, roots2, o2.v2()...)
			} else if kind == 0 {
				s.bs, err = blockstore.OpenReadWrite(s.path, roots2, o2.v2()...)
				if err == nil {
					s.interposeFaults(rest)
				}
			} else {
				f, ferr := os.OpenFile(s.path, os.O_RDWR, 0o666)
				if ferr != nil {
					panic(ferr)
				}
				s.ff = &faultFile{f: f, faults: rest, inOpen: true}
				s.sc, err = storage.OpenReadableWritable(s.ff, roots2, o2.v2()...)
				s.ff.inOpen = false
				if err == nil {
					s.wc = s.sc
				}
			}
			out = outOf(err)
			if err != nil {
				stop = true
			}
		default:
			panic("unknown op " + tag)
		}
		cur := s.fileBytes()
		so := VL{out, vbool(!bytes.Equal(cur, s.prev))}
		if x != nil && x.afterStep != nil {
			so = append(so, x.afterStep(s)...)
		}
		if x != nil && x.afterStep2 != nil {
			x.afterStep2(s, tag, out, !bytes.Equal(cur, s.prev))
		}
		obs = append(obs, so)
		s.prev = cur
		if stop {
			break
		}
	}
	if x != nil {
		x.finalizeAt = s.finalizeAt
		if s.ff != nil {
			x.callOffs = s.ff.offs
			x.callLens, x.hits = s.ff.lens, s.ff.hits
		} else if s.stream != nil {
			x.callLens, x.hits = s.stream.lens, s.stream.hits
		}
	}
	return VL{outNil(), obs, VB(s.prev)}
}

// storeHdrTable: header-oracle entries for what Roots()/resume can read back: the canonical
// header of every root list used is decoded by the model's own decoder, so the table stays
// empty unless a producer feeds non-canonical files.
func storeInput(kind uint64, o wOpts, roots []cid.Cid, faults []int, ops VL) Val {
	fv := VL{}
	for _, k := range faults {
		if k < 0 {
			fv = append(fv, VN(0))
		} else {
			fv = append(fv, VL{VN(uint64(k))})
		}
	}
	var rv Val = cidsVal(roots)
	if roots == nil {
		rv = VT("nil")
	}
	return VL{VN(kind), o.val(), rv, fv, ops, VL{}}
}

// ---- shared history generator -----------------------------------------------------------------

// storeAlphabet: a small block alphabet with the collision cases (equal multihash / other codec,
// equal digest / other hash code via identity, exact duplicates, identity, long CID).
func storeAlphabet(r *RNG, n int) []Blk {
	blks := genBlocks(r, n, genOpts{identity: true, maxData: 60})
	if r.Chance(50) {
		// identity CID with a long digest: longer than a small MaxIndexCidSize
		d := r.Bytes(80)
		blks = append(blks, Blk{mkCid(1, 0x55, 0x00, -1, d), d})
	}
	return blks
}

func genWOpts(r *RNG) wOpts {
	o := defaultWOpts
	o.dpad = uint64(pick(r, []int{0, 0, 0, 1, 7, 1413}))
	o.ipad = uint64(pick(r, []int{0, 0, 0, 1, 512}))
	if r.Chance(30) {
		o.codec = 0x0400
	}
	o.storeID = r.Chance(35)
	o.dups = r.Chance(25)
	o.whole = r.Chance(35)
	o.v1 = r.Chance(30)
	if r.Chance(20) {
		o.maxCid = uint64(pick(r, []int{35, 36, 37, 40}))
	}
	return o
}

func genStoreOps(r *RNG, kind uint64, o wOpts, roots []cid.Cid, alpha []Blk, n int, allowReopen bool) VL {
	ops := VL{}
	for i := 0; i < n; i++ {
		b := pick(r, alpha)
		x := r.Intn(100)
		switch {
		case x < 40:
			ops = append(ops, VL{VT("put"), VB(b.Cid.Bytes()), VB(b.Data)})
		case x < 46 && kind == 0:
			m := VL{VT("putmany")}
			for j := 0; j < 1+r.Intn(3); j++ {
				bb := pick(r, alpha)
				m = append(m, VL{VB(bb.Cid.Bytes()), VB(bb.Data)})
			}
			ops = append(ops, m)
		case x < 60:
			ops = append(ops, VL{VT("has"), VB(b.Cid.Bytes())})
		case x < 74:
			ops = append(ops, VL{VT("get"), VB(b.Cid.Bytes())})
		case x < 80 && kind == 0:
			ops = append(ops, VL{VT("getsize"), VB(b.Cid.Bytes())})
		case x < 84 && kind == 0:
			ops = append(ops, VL{VT("keys")})
		case x < 87:
			ops = append(ops, VL{VT("roots")})
		case x < 90:
			ops = append(ops, VL{VT("finalize")})
		case x < 92 && kind == 0:
			ops = append(ops, VL{VT(pick(r, []string{"finalizero", "close", "discard"}))})
		case x < 96 && allowReopen && (kind == 0 || kind == 1):
			ops = append(ops, VL{VT("reopen"), o.val(), cidsVal(roots)})
		default:
			ops = append(ops, VL{VT("has"), VB(b.Cid.Bytes())})
		}
	}
	return ops
}

func init() {
	registerReplay("store", func(c *Ctx, in Val) Val {
		l := in.(VL)
		return runStoreImpl(c.Work, uint64(l[0].(VN)), wOptsFromVal(l[1]), cidsFromVal(l[2]), faultsFromVal(l[3]), l[4].(VL))
	})
	// smoke producer: validates the store model against the library (no property predicate)
	register("store", func(c *Ctx) {
		n := 60 * c.Scale
		for i := 0; i < n; i++ {
			r := c.R.Fork()
			kind := uint64(pick(r, []int{0, 0, 1, 1, 2, 3}))
			o := genWOpts(r)
			if kind == 3 {
				o.v1 = true
			}
			alpha := storeAlphabet(r, 3+r.Intn(4))
			roots := genRoots(r, alpha, true)
			if len(roots) == 0 && r.Bool() {
				roots = []cid.Cid{} // empty but non-nil: encoded as 0x80 instead of null
			}
			ops := genStoreOps(r, kind, o, roots, alpha, 4+r.Intn(20), true)
			var faults []int
			if kind != 0 && r.Chance(40) {
				// a few injected write faults (storage front-ends only; the blockstore needs the hook)
				nf := 3 + r.Intn(30)
				for j := 0; j < nf; j++ {
					if r.Chance(12) {
						faults = append(faults, r.Intn(12))
					} else {
						faults = append(faults, -1)
					}
				}
				c.Count("history:with-faults")
			}
			in := storeInput(kind, o, roots, faults, ops)
			obs := runStoreImpl(c.Work, kind, o, roots, faults, ops)
			c.Emit("store", in, obs, len(ops) > 3)
		}
	})
}
