package main

import "fmt"

// Producer c08: concurrent workloads on the writable stores, run under the race detector by
// the helper (k_conc.go), each emitted as one case of kind "conc" together with the recorded
// history and the linearization found by concspec.go.
//
// Non-trivial rule: at least two ops of different goroutines overlap in time (their [inv,ret]
// intervals intersect) and at least one Put/PutMany succeeded.

type concGen struct {
	r     *RNG
	store int
	v1    int
	g     int // goroutines of the concurrent phase
	k     int // block ids 1..k
	ops   []cOp
	cbs   []int // store 2: OnPut callbacks registered before the goroutines start (1 = once-only)
	fam   int   // > 0: some keys are drawn from fam key families (equal digest bytes, see cMhKey)
}

// famID: a member of a key family: same digest bytes under different CID versions, codecs and
// multihash codes
func (g *concGen) famID() int { return 100 + 10*g.r.Intn(g.fam) + g.r.Intn(6) }

func (g *concGen) add(tid, phase, kind int, ids ...int) {
	if ids == nil {
		ids = []int{}
	}
	g.ops = append(g.ops, cOp{Tid: tid, Kind: kind, Ids: ids, Phase: phase})
}

func (g *concGen) id() int {
	if g.fam > 0 && g.r.Chance(30) {
		return g.famID()
	}
	return 1 + g.r.Intn(g.k)
}

func (g *concGen) ids(n int) []int {
	out := make([]int, 0, n)
	for i := 0; i < n; i++ {
		out = append(out, g.id())
	}
	return out
}

// readKinds: the per-id query kinds the store supports.
func (g *concGen) readKinds() []int {
	switch g.store {
	case 0:
		return []int{cHas, cGet, cGetSize}
	case 1:
		return []int{cHas, cGet}
	}
	return []int{cHas}
}

func (g *concGen) read(tid, phase, id int) { g.add(tid, phase, pick(g.r, g.readKinds()), id) }

// put adds a Put, or on store 0 sometimes a PutMany of 0..4 ids drawn by draw.
func (g *concGen) put(tid, phase int, draw func() int) {
	if g.store == 0 && g.r.Chance(40) {
		n := g.r.Intn(5)
		ids := make([]int, 0, n)
		for i := 0; i < n; i++ {
			ids = append(ids, draw())
		}
		g.add(tid, phase, cPutMany, ids...)
		return
	}
	g.add(tid, phase, cPut, draw())
}

// anyOp adds a uniformly chosen op among kinds.
func (g *concGen) anyOp(tid, phase int, kinds []int) {
	k := pick(g.r, kinds)
	switch k {
	case cPut, cHas, cGet, cGetSize:
		g.add(tid, phase, k, g.id())
	case cPutMany:
		g.add(tid, phase, k, g.ids(g.r.Intn(5))...)
	default:
		g.add(tid, phase, k)
	}
}

func (g *concGen) kinds(withFinalize bool) []int {
	var out []int
	for _, k := range cSupported[g.store] {
		if (k == cFinalize || k == cFinalizeRO) && !withFinalize {
			continue
		}
		out = append(out, k)
	}
	return out
}

// tail adds 1..5 phase-2 ops drawn from kinds and the final Finalize/Close.
func (g *concGen) tail(kinds []int) {
	n := 1 + g.r.Intn(5)
	for i := 0; i < n; i++ {
		g.anyOp(0, 2, kinds)
	}
	g.add(0, 2, cFinalize)
}

func concScenarios(store int) []string {
	if store == 0 {
		return []string{"dup-puts", "keys-while-putting", "keys-while-putting", "finalize-vs-readers", "read-your-writes", "mixed", "shared-digest"}
	}
	if store == 2 {
		return []string{"dup-puts", "finalize-vs-readers", "read-your-writes", "mixed", "shared-digest", "deferred-callbacks", "deferred-callbacks"}
	}
	return []string{"dup-puts", "finalize-vs-readers", "read-your-writes", "mixed", "shared-digest"}
}

// callbacks draws n OnPut callbacks; with mixed, at least one once-only and one persistent one.
func (g *concGen) callbacks(n int, mixed bool) {
	for i := 0; i < n; i++ {
		once := 0
		if g.r.Bool() {
			once = 1
		}
		g.cbs = append(g.cbs, once)
	}
	if mixed && n >= 2 {
		i := g.r.Intn(n)
		g.cbs[i] = 1
		g.cbs[(i+1+g.r.Intn(n-1))%n] = 0
	}
}

func genConcWorkload(r *RNG, thorough bool) (concWork, string, int) {
	g := &concGen{r: r}
	switch x := r.Intn(100); {
	case x < 50:
		g.store = 0
		if r.Intn(3) == 0 {
			g.v1 = 1
		}
	case x < 80:
		g.store = 1
	default:
		g.store = 2
	}
	g.g = 2 + r.Intn(15)
	if thorough && r.Bool() {
		g.g = 8 + r.Intn(9)
	}
	g.k = 2 + r.Intn(23)
	opsPer := func() int {
		if thorough && r.Bool() {
			return 4 + r.Intn(5)
		}
		return 1 + r.Intn(8)
	}
	scen := pick(r, concScenarios(g.store))
	if scen != "keys-while-putting" && scen != "read-your-writes" && r.Chance(35) {
		g.fam = 1 + r.Intn(2)
	}
	switch scen {
	case "shared-digest":
		// every key is a member of one or two families: blocks whose CIDs carry the same digest bytes
		// under different multihash codes are distinct keys, the same multihash under different codecs /
		// CID versions is one key; each goroutine puts members and asks for what it has put
		g.fam = 1 + r.Intn(2)
		for i, n := 0, r.Intn(3); i < n; i++ {
			g.add(0, 0, cPut, g.famID())
		}
		for t := 1; t <= g.g; t++ {
			for i, n := 0, opsPer(); i < n; i++ {
				id := g.famID()
				if g.store == 0 && r.Chance(20) {
					g.add(t, 1, cPutMany, id, g.famID())
				} else {
					g.add(t, 1, cPut, id)
				}
				if r.Chance(70) {
					g.read(t, 1, id)
					i++
				}
				if g.store == 0 && r.Chance(10) {
					g.add(t, 1, cAllKeys)
				}
			}
		}
		for f := 0; f < g.fam; f++ {
			for v := 0; v < 6; v++ {
				g.read(0, 2, 100+10*f+v)
			}
		}
		g.add(0, 2, cFinalize)
	case "dup-puts":
		// few ids, many writers: most puts meet an id somebody else is putting
		g.k = 2 + r.Intn(11)
		for i, n := 0, r.Intn(3); i < n; i++ {
			g.put(0, 0, g.id)
		}
		for t := 1; t <= g.g; t++ {
			for i, n := 0, opsPer(); i < n; i++ {
				g.put(t, 1, g.id)
			}
		}
		for id := 1; id <= g.k; id++ {
			g.read(0, 2, id)
		}
		g.add(0, 2, cFinalize)
	case "keys-while-putting":
		// store 0 only: ids 1..p are put up front, the concurrent phase lists the keys while
		// other goroutines put new ids
		g.k = 24
		p := 0
		for i, n := 0, 3+r.Intn(4); i < n; i++ {
			if r.Bool() {
				m := 1 + r.Intn(4)
				var ids []int
				for j := 0; j < m && p < 16; j++ {
					p++
					ids = append(ids, p)
				}
				g.add(0, 0, cPutMany, ids...)
			} else {
				p++
				g.add(0, 0, cPut, p)
			}
		}
		fresh := func() int { return p + 1 + r.Intn(g.k-p) }
		listers := 1 + r.Intn((g.g+2)/3)
		for t := 1; t <= g.g; t++ {
			n := opsPer()
			for i := 0; i < n; i++ {
				if t <= listers {
					if r.Chance(85) {
						g.add(t, 1, cAllKeys)
					} else {
						g.read(t, 1, g.id())
					}
				} else {
					g.put(t, 1, fresh)
				}
			}
		}
		g.tail([]int{cAllKeys, cHas, cGet, cGetSize})
	case "finalize-vs-readers":
		for i, n := 0, 1+r.Intn(6); i < n; i++ {
			g.put(0, 0, g.id)
		}
		others := []int{cHas, cPut}
		switch g.store {
		case 0:
			others = []int{cHas, cGet, cGetSize, cRoots, cPut}
		case 1:
			others = []int{cHas, cGet, cRoots, cPut}
		}
		for t := 1; t <= g.g; t++ {
			n := opsPer()
			fin := -1
			if t == 1 {
				fin = r.Intn(n)
			}
			for i := 0; i < n; i++ {
				if i == fin {
					if g.store == 0 && r.Bool() {
						g.add(t, 1, cFinalizeRO)
					} else {
						g.add(t, 1, cFinalize)
					}
					continue
				}
				g.anyOp(t, 1, others)
			}
		}
		g.tail(others)
	case "read-your-writes":
		// goroutine t owns id t (and id g+t when it exists)
		if g.k < g.g {
			g.k = g.g
		}
		for i, n := 0, r.Intn(3); i < n; i++ {
			g.put(0, 0, g.id)
		}
		for t := 1; t <= g.g; t++ {
			n := opsPer()
			g.add(t, 1, cPut, t)
			for i := 1; i < n; i++ {
				switch x := r.Intn(10); {
				case x < 4:
					g.read(t, 1, t)
				case x < 8:
					g.read(t, 1, g.id())
				case g.g+t <= g.k:
					g.add(t, 1, cPut, g.g+t)
					if i+1 < n {
						i++
						g.read(t, 1, g.g+t)
					}
				default:
					g.read(t, 1, t)
				}
			}
		}
		g.tail(g.readKinds())
	case "deferred-callbacks":
		// store 2 only: once-only and persistent OnPut callbacks are registered up front; the
		// first Puts (while the once-only ones are still registered) run concurrently
		g.callbacks(2+r.Intn(4), true)
		if r.Chance(25) {
			g.add(0, 0, cPut, g.id())
		}
		closer := 0
		if r.Chance(20) {
			closer = 1 + r.Intn(g.g)
		}
		for t := 1; t <= g.g; t++ {
			n := 1 + r.Intn(4)
			for i := 0; i < n; i++ {
				switch {
				case t == closer && i == n-1:
					g.add(t, 1, cFinalize)
				case r.Chance(85):
					g.add(t, 1, cPut, g.id())
				default:
					g.add(t, 1, cHas, g.id())
				}
			}
		}
		g.tail([]int{cHas, cPut})
	default: // mixed
		// uniform over the kinds the store supports; the finalizing kinds take part in about
		// a third of the workloads only (otherwise nearly every op would hit a closed store)
		kinds := g.kinds(r.Chance(35))
		for i, n := 0, r.Intn(7); i < n; i++ {
			g.anyOp(0, 0, g.kinds(false))
		}
		for t := 1; t <= g.g; t++ {
			for i, n := 0, opsPer(); i < n; i++ {
				g.anyOp(t, 1, kinds)
			}
		}
		g.tail(g.kinds(false))
	}
	if g.store == 2 && scen != "deferred-callbacks" && r.Chance(30) {
		g.callbacks(1+r.Intn(3), false)
	}
	return concWork{Store: g.store, V1: g.v1, Ops: g.ops, Cbs: g.cbs}, scen, g.g
}

func init() {
	register("c08", func(c *Ctx) {
		n := 120 * c.Scale
		ws := make([]concWork, n)
		// one extra fork level: the top-level streams of adjacent seeds are shifted copies of
		// each other (splitmix64 with state seed*gamma), the forked ones are not
		root := c.R.Fork()
		for i := range ws {
			w, scen, g := genConcWorkload(root.Fork(), c.Thorough)
			ws[i] = w
			c.Count("scenario/" + scen)
			c.Count(fmt.Sprintf("store/%d", w.Store))
			if w.V1 == 1 {
				c.Count("option/write-as-carv1")
			}
			c.Count(fmt.Sprintf("goroutines/%d", g))
			for _, o := range w.Ops {
				c.Count(fmt.Sprintf("ops/%d", o.Kind))
			}
		}
		runs := concRunBatch(c.Work, ws)
		if len(runs) < len(ws) {
			c.CountN("observed/not-run-after-repeated-hangs", len(ws)-len(runs))
		}
		for i := range runs {
			w, r := ws[i], &runs[i]
			concJudge(w, r)
			overlap := r.Crashed == 0 && cOverlap(w.Ops, r.Hist)
			if overlap {
				c.Count("overlap/yes")
			} else {
				c.Count("overlap/no")
			}
			putOK := false
			for j, x := range r.Results {
				c.Count("result/" + x.statName())
				if x.Tag == rOK && (w.Ops[j].Kind == cPut || w.Ops[j].Kind == cPutMany) {
					putOK = true
				}
			}
			if r.Race != 0 {
				c.Count("observed/race")
			}
			if r.Crashed != 0 {
				c.Count("observed/crashed")
			}
			if !r.Found {
				c.Count("observed/no-witness")
			}
			if r.GaveUp {
				c.Count("observed/search-gave-up")
			}
			if r.IndexOK != 1 {
				c.Count("observed/index-bad")
			}
			for _, o := range w.Ops {
				if len(o.Ids) > 0 && o.Ids[0] >= 100 {
					c.Count("option/key-families")
					break
				}
			}
			if len(w.Cbs) > 0 {
				c.Count("option/onput-callbacks")
				if r.CbBad && r.Crashed == 0 {
					c.Count("observed/callback-count-wrong")
				}
			}
			c.Emit("conc", concInputVal(w, r), concObsVal(r), overlap && putOK)
		}
	})
}
