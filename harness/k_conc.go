package main

import (
	"bytes"
	"context"
	"encoding/json"
	"fmt"
	"os"
	"os/exec"
	"path/filepath"
	"strconv"
	"strings"
	"sync"
	"time"
)

// kind "conc": a concurrent workload on one of the writable stores, run by the
// race-instrumented helper (harness/concrace), with the recorded history and the
// linearization found by concspec.go.
//
// input = ( n<store> ( n<v1> ) ( op ... ) ( ( n<inv> n<ret> ) ... ) ( n<opidx> ... ) )
//    op = ( n<tid> n<kind> ( n<id> ... ) n<phase> )
// obs   = ( ( result ... ) ( n<id> ... ) n<indexok> n<race> n<crashed> b<report> ( n<cbcount> ... ) )
// opts  = ( n<v1> [ ( n<once> ... ) ] )   -- the OnPut callbacks of a deferred-writer workload

type concWork struct {
	Store int
	V1    int
	Ops   []cOp
	Cbs   []int // deferred writer: OnPut callbacks registered up front (1 once-only, 0 persistent)
}

// concRun is what one execution of a workload showed.
type concRun struct {
	Results []cResult
	Hist    [][2]uint64
	Final   []uint64
	IndexOK int
	Race    int
	Crashed int
	Report  []byte
	Cb      []uint64 // invocations of the OnPut callbacks of the workload
	// filled in by concJudge
	Witness []int
	Found   bool
	GaveUp  bool
	CbBad   bool
}

const concReportMax = 3000

// ---- line protocol with the helper (mirrors harness/concrace/main.go) ----

type concOpJ struct {
	T   int   `json:"t"`
	K   int   `json:"k"`
	Ids []int `json:"ids"`
	P   int   `json:"p"`
}

type concWorkJ struct {
	N     int       `json:"n"`
	Store int       `json:"store"`
	V1    int       `json:"v1"`
	Path  string    `json:"path"`
	Ops   []concOpJ `json:"ops"`
	Cbs   []int     `json:"cbs,omitempty"`
}

type concResJ struct {
	K string   `json:"k"`
	N uint64   `json:"n"`
	L []uint64 `json:"l"`
	C string   `json:"c"`
}

type concOutJ struct {
	N       int         `json:"n"`
	Res     []concResJ  `json:"res"`
	Hist    [][2]uint64 `json:"hist"`
	Final   []uint64    `json:"final"`
	IndexOK int         `json:"indexok"`
	Crashed int         `json:"crashed"`
	Msg     string      `json:"msg"`
	Cb      []uint64    `json:"cb"`
}

func (r concResJ) result() cResult {
	switch r.K {
	case "ok":
		return cResult{Tag: rOK}
	case "okn":
		return cResult{Tag: rOKN, N: r.N}
	case "okl":
		l := r.L
		if l == nil {
			l = []uint64{}
		}
		return cResult{Tag: rOKL, L: l}
	case "err":
		return cResult{Tag: rErr, Class: r.C}
	}
	return cResult{Tag: rPanic}
}

// ---- building the helper ----

var (
	concHelperOnce sync.Once
	concHelperPath string
)

func concGoEnv() []string {
	drop := map[string]bool{"CGO_ENABLED": true, "GOFLAGS": true, "GOPROXY": true, "GOSUMDB": true, "GOTOOLCHAIN": true, "GOTMPDIR": true}
	var env []string
	for _, kv := range os.Environ() {
		k := kv
		if i := strings.IndexByte(kv, '='); i >= 0 {
			k = kv[:i]
		}
		if !drop[k] {
			env = append(env, kv)
		}
	}
	return append(env, "CGO_ENABLED=1", "GOFLAGS=-mod=mod", "GOPROXY=off", "GOSUMDB=off", "GOTOOLCHAIN=local")
}

// concHelper builds the race-instrumented helper (once per process) and returns its path.
// The sources are the copy bin/build-harness left next to the harness binary.
func concHelper() string {
	concHelperOnce.Do(func() {
		exe, err := os.Executable()
		if err != nil {
			fmt.Fprintln(os.Stderr, "conc: cannot locate the harness binary:", err)
			os.Exit(2)
		}
		dir := filepath.Dir(exe)
		src := filepath.Join(dir, "harness-src")
		out := filepath.Join(dir, "conc-race")
		tmp := out + ".tmp." + strconv.Itoa(os.Getpid())
		// the go tool's own scratch space stays next to the binaries (nothing under /tmp)
		gotmp := filepath.Join(dir, "conc-gotmp-"+strconv.Itoa(os.Getpid()))
		if err := os.MkdirAll(gotmp, 0o755); err != nil {
			fmt.Fprintln(os.Stderr, "conc: scratch dir for the helper build:", err)
			os.Exit(2)
		}
		defer os.RemoveAll(gotmp)
		cmd := exec.Command("go", "build", "-race", "-tags", "verif", "-o", tmp, "./concrace")
		cmd.Dir = src
		cmd.Env = append(concGoEnv(), "GOTMPDIR="+gotmp)
		if b, err := cmd.CombinedOutput(); err != nil {
			os.RemoveAll(gotmp)
			os.Remove(tmp)
			fmt.Fprintf(os.Stderr, "conc: building the race helper failed: %v\n%s\n", err, b)
			os.Exit(2)
		}
		if err := os.Rename(tmp, out); err != nil {
			os.RemoveAll(gotmp)
			os.Remove(tmp)
			fmt.Fprintln(os.Stderr, "conc: installing the race helper failed:", err)
			os.Exit(2)
		}
		concHelperPath = out
	})
	return concHelperPath
}

// ---- running a batch ----

type concSegment struct {
	began  bool
	ended  bool
	hang   bool
	hangAt int // index in text of the @@HANG line
	text   []string
}

// concSplitStderr attributes the helper's stderr lines to workloads using the markers.
func concSplitStderr(stderr []byte) map[int]*concSegment {
	segs := map[int]*concSegment{}
	var cur *concSegment
	for _, line := range strings.Split(string(stderr), "\n") {
		if strings.HasPrefix(line, "@@") {
			f := strings.Fields(line)
			if len(f) == 2 {
				if n, err := strconv.Atoi(f[1]); err == nil {
					switch f[0] {
					case "@@BEGIN":
						cur = &concSegment{began: true}
						segs[n] = cur
						continue
					case "@@END":
						if s := segs[n]; s != nil {
							s.ended = true
						}
						cur = nil
						continue
					case "@@HANG":
						if s := segs[n]; s != nil {
							s.hang = true
							s.hangAt = len(s.text)
							cur = s
						}
					}
				}
			}
		}
		if cur != nil {
			cur.text = append(cur.text, line)
		}
	}
	return segs
}

func concTrunc(s string) []byte {
	if len(s) > concReportMax {
		s = s[:concReportMax]
	}
	return []byte(s)
}

// concFirstRace extracts the first race report of a segment: from "WARNING: DATA RACE" up to
// the closing "==================" line.
func concFirstRace(lines []string) (string, bool) {
	for i, l := range lines {
		if strings.HasPrefix(l, "WARNING: DATA RACE") {
			var sb strings.Builder
			for _, m := range lines[i:] {
				if strings.HasPrefix(m, "==================") {
					break
				}
				sb.WriteString(m)
				sb.WriteByte('\n')
			}
			return sb.String(), true
		}
	}
	return "", false
}

func concDeadRun(w concWork, seg *concSegment, why string) concRun {
	r := concRun{Crashed: 1, Final: []uint64{}, Cb: make([]uint64, len(w.Cbs))}
	for range w.Ops {
		r.Results = append(r.Results, cResult{Tag: rPanic})
		r.Hist = append(r.Hist, [2]uint64{})
	}
	text := why
	if seg != nil {
		if _, race := concFirstRace(seg.text); race {
			r.Race = 1
		}
		// the interesting part: the goroutine stacks of a hang, the panic / fatal error of a
		// death; race reports printed earlier in the segment come first otherwise
		from := 0
		if seg.hang {
			from = seg.hangAt
		} else {
			for i, l := range seg.text {
				if strings.HasPrefix(l, "panic: ") || strings.HasPrefix(l, "fatal error: ") || strings.HasPrefix(l, "unexpected fault address") {
					from = i
					break
				}
			}
		}
		text = why + "\n" + strings.Join(seg.text[from:], "\n")
	}
	r.Report = concTrunc(text)
	return r
}

const concMaxDeaths = 3

// concRunBatch runs the workloads, in order, through one helper process (restarted for the
// remaining workloads if it dies).  Files live under work and are removed per workload.
func concRunBatch(work string, ws []concWork) []concRun {
	helper := concHelper()
	cleanup := false
	if work == "" {
		exe, _ := os.Executable()
		work = filepath.Join(filepath.Dir(exe), "conc-work-"+strconv.Itoa(os.Getpid()))
		cleanup = true
	}
	if err := os.MkdirAll(work, 0o755); err != nil {
		fmt.Fprintln(os.Stderr, "conc: scratch dir:", err)
		os.Exit(2)
	}
	if cleanup {
		defer os.RemoveAll(work)
	}
	runs := make([]concRun, len(ws))
	path := func(n int) string { return filepath.Join(work, fmt.Sprintf("conc-%d-%d.car", os.Getpid(), n)) }
	next := 0
	deaths := 0
	for next < len(ws) {
		// a library that hangs or kills the helper again and again has been shown broken: the
		// remaining workloads would only cost 10 s each (watchdog)
		if deaths >= concMaxDeaths {
			fmt.Fprintf(os.Stderr, "conc: the helper died or hung %d times; %d workloads not run\n", deaths, len(ws)-next)
			return runs[:next]
		}
		var stdin bytes.Buffer
		for n := next; n < len(ws); n++ {
			wj := concWorkJ{N: n, Store: ws[n].Store, V1: ws[n].V1, Path: path(n), Cbs: ws[n].Cbs}
			for _, o := range ws[n].Ops {
				ids := o.Ids
				if ids == nil {
					ids = []int{}
				}
				wj.Ops = append(wj.Ops, concOpJ{T: o.Tid, K: o.Kind, Ids: ids, P: o.Phase})
			}
			b, _ := json.Marshal(wj)
			stdin.Write(b)
			stdin.WriteByte('\n')
		}
		ctx, cancel := context.WithTimeout(context.Background(), time.Duration(len(ws)-next)*12*time.Second+30*time.Second)
		cmd := exec.CommandContext(ctx, helper)
		cmd.Stdin = &stdin
		var stdout, stderr bytes.Buffer
		cmd.Stdout, cmd.Stderr = &stdout, &stderr
		// every report of every workload must be printed: the runtime would otherwise print a
		// given race (same stacks / same address) only once per process
		cmd.Env = append(os.Environ(), "GORACE=atexit_sleep_ms=0 suppress_equal_stacks=0 suppress_equal_addresses=0")
		runErr := cmd.Run()
		cancel()

		outs := map[int]*concOutJ{}
		for _, line := range bytes.Split(stdout.Bytes(), []byte{'\n'}) {
			if len(line) == 0 {
				continue
			}
			var o concOutJ
			if err := json.Unmarshal(line, &o); err != nil {
				continue // a torn last line of a dying helper
			}
			outs[o.N] = &o
		}
		segs := concSplitStderr(stderr.Bytes())

		progressed := false
		for next < len(ws) {
			w := ws[next]
			o, seg := outs[next], segs[next]
			if o != nil && seg != nil && seg.ended && len(o.Res) == len(w.Ops) && len(o.Hist) == len(w.Ops) {
				r := concRun{Hist: o.Hist, Final: o.Final, IndexOK: o.IndexOK, Crashed: o.Crashed, Report: []byte{}, Cb: o.Cb}
				if r.Final == nil {
					r.Final = []uint64{}
				}
				for _, x := range o.Res {
					r.Results = append(r.Results, x.result())
				}
				rep, race := concFirstRace(seg.text)
				if race {
					r.Race = 1
					r.Report = concTrunc(rep)
				}
				if r.Crashed != 0 {
					r.Crashed = 1
					r.Report = concTrunc(o.Msg)
				}
				runs[next] = r
				next++
				progressed = true
				continue
			}
			if seg != nil && seg.began {
				// the helper died (or was killed by its watchdog) during this workload
				why := fmt.Sprintf("helper died during the workload (%v)", runErr)
				if seg.hang {
					why = "watchdog: workload did not finish in time"
				}
				runs[next] = concDeadRun(w, seg, why)
				os.Remove(path(next)) // the helper could not remove it itself
				next++
				deaths++
				progressed = true
			}
			break // restart the helper for the remaining workloads
		}
		if !progressed {
			// the helper cannot even start a workload: not an observation about the library
			fmt.Fprintf(os.Stderr, "conc: the race helper made no progress (%v)\n%s\n", runErr, concTrunc(stderr.String()))
			os.Exit(2)
		}
	}
	return runs
}

// concJudge runs the linearizability checker on a run.
func concJudge(w concWork, r *concRun) {
	if r.Crashed != 0 {
		r.Witness, r.Found = nil, false
		return
	}
	r.Witness, r.Found, r.GaveUp = linearize(w.Store, w.V1, w.Ops, r.Hist, r.Results, r.Final)
	r.CbBad = !cbCountsOK(w, r)
}

// cbCountsOK: a once-only OnPut callback fired exactly once if any Put succeeded (else never), a
// persistent one exactly once per successful Put (same rule as RunConc.cb_expected).
func cbCountsOK(w concWork, r *concRun) bool {
	if len(r.Cb) != len(w.Cbs) {
		return false
	}
	var oks uint64
	for i, o := range w.Ops {
		if o.Kind == cPut && i < len(r.Results) && r.Results[i].Tag == rOK {
			oks++
		}
	}
	for i, once := range w.Cbs {
		want := oks
		if once != 0 && want > 1 {
			want = 1
		}
		if r.Cb[i] != want {
			return false
		}
	}
	return true
}

// concFailed: does the run show a violation (race, crash, no witness, bad final file)?
func concFailed(r *concRun) bool {
	return r.Race != 0 || r.Crashed != 0 || !r.Found || r.IndexOK != 1 || r.CbBad
}

// ---- Val conversion ----

func concInputVal(w concWork, r *concRun) Val {
	ops := VL{}
	for _, o := range w.Ops {
		ids := VL{}
		for _, id := range o.Ids {
			ids = append(ids, VN(id))
		}
		ops = append(ops, VL{VN(o.Tid), VN(o.Kind), ids, VN(o.Phase)})
	}
	hist := VL{}
	for _, h := range r.Hist {
		hist = append(hist, VL{VN(h[0]), VN(h[1])})
	}
	wit := VL{}
	if r.Found {
		for _, i := range r.Witness {
			wit = append(wit, VN(i))
		}
	}
	opts := VL{VN(w.V1)}
	if len(w.Cbs) > 0 {
		cbs := VL{}
		for _, once := range w.Cbs {
			cbs = append(cbs, VN(once))
		}
		opts = append(opts, cbs)
	}
	return VL{VN(w.Store), opts, ops, hist, wit}
}

func concObsVal(r *concRun) Val {
	res := VL{}
	for _, x := range r.Results {
		res = append(res, x.val())
	}
	fin := VL{}
	for _, id := range r.Final {
		fin = append(fin, VN(id))
	}
	rep := r.Report
	if rep == nil {
		rep = []byte{}
	}
	cb := VL{}
	for _, n := range r.Cb {
		cb = append(cb, VN(n))
	}
	return VL{res, fin, VN(r.IndexOK), VN(r.Race), VN(r.Crashed), VB(rep), cb}
}

// concParseInput recovers the workload part (store, options, ops) of a recorded input.
func concParseInput(in Val) (w concWork, err error) {
	defer func() {
		if e := recover(); e != nil {
			err = fmt.Errorf("malformed conc input: %v", e)
		}
	}()
	l := in.(VL)
	w.Store = int(l[0].(VN))
	if o := l[1].(VL); len(o) > 0 {
		w.V1 = int(o[0].(VN))
		if len(o) > 1 {
			for _, once := range o[1].(VL) {
				w.Cbs = append(w.Cbs, int(once.(VN)))
			}
		}
	}
	for _, ov := range l[2].(VL) {
		ol := ov.(VL)
		op := cOp{Tid: int(ol[0].(VN)), Kind: int(ol[1].(VN)), Phase: int(ol[3].(VN))}
		for _, id := range ol[2].(VL) {
			op.Ids = append(op.Ids, int(id.(VN)))
		}
		if op.Kind < 0 || op.Kind >= cNumKinds || op.Phase < 0 || op.Phase > 2 {
			return w, fmt.Errorf("malformed conc input: op %v", ol)
		}
		w.Ops = append(w.Ops, op)
	}
	if w.Store < 0 || w.Store > 2 {
		return w, fmt.Errorf("malformed conc input: store %d", w.Store)
	}
	return w, nil
}

const concReplayAttempts = 30

func init() {
	registerReplayRerun("conc", func(c *Ctx, in Val) (Val, Val) {
		w, err := concParseInput(in)
		if err != nil {
			fmt.Fprintln(os.Stderr, "replay:", err)
			os.Exit(2)
		}
		// all attempts of one recorded workload go through one helper process
		batch := make([]concWork, concReplayAttempts)
		for i := range batch {
			batch[i] = w
		}
		runs := concRunBatch(c.Work, batch)
		pick, failed := len(runs)-1, false
		for i := range runs {
			concJudge(w, &runs[i])
			if concFailed(&runs[i]) {
				pick, failed = i, true
				break
			}
		}
		if failed {
			c.Count(fmt.Sprintf("replay/failed-at-attempt/%d", pick+1))
		} else {
			c.Count("replay/clean")
		}
		return concInputVal(w, &runs[pick]), concObsVal(&runs[pick])
	})
}
