package main

import (
	"context"
	"errors"

	blocks "github.com/ipfs/go-block-format"
	"github.com/ipfs/go-cid"
	carv1 "github.com/ipld/go-car"
	carv2 "github.com/ipld/go-car/v2"
)

// kind "c02load": (loader kind, fast, fail, file, hok table, hdr table, expect) -> the store calls the
// loader made (each with the blocks it carried, the failing call included) and its result.
// loader kinds: 1 = internal carv1.LoadCar (verif hooks), 2 = root-module car.LoadCar
// fast: the store also has a PutMany method (loadCarFast); fail: -1 = the store never fails,
// k >= 0 = store call number k (Put or PutMany, counted together) returns an error.
// An optional 8th input field is the delivery pattern of the source (k_scan.go srcMode*; the model
// ignores it).

var errC02xStore = errors.New("c02x: injected store failure")

// c02xStore records every call; it has only Put (the loaders take their slow path).
type c02xStore struct {
	calls  [][]blocks.Block
	failAt int
}

func (s *c02xStore) record(bs []blocks.Block) error {
	idx := len(s.calls)
	s.calls = append(s.calls, append([]blocks.Block(nil), bs...)) // the loader reuses its buffer
	if idx == s.failAt {
		return errC02xStore
	}
	return nil
}
func (s *c02xStore) Put(_ context.Context, b blocks.Block) error { return s.record([]blocks.Block{b}) }

// c02xBatchStore adds PutMany (the loaders take their fast path).
type c02xBatchStore struct{ c02xStore }

func (s *c02xBatchStore) PutMany(_ context.Context, bs []blocks.Block) error { return s.record(bs) }

func c02xLoadObs(calls [][]blocks.Block, roots []cid.Cid, err error) Val {
	cv := VL{}
	for _, call := range calls {
		bv := VL{}
		for _, b := range call {
			bv = append(bv, VL{VB(b.Cid().Bytes()), VB(b.RawData())})
		}
		cv = append(cv, bv)
	}
	if err != nil {
		return VL{cv, VL{VT("err"), verr(err)}}
	}
	return VL{cv, VL{VT("ok"), cidsVal(roots)}}
}

func c02xRunLoadImpl(kind uint64, fast bool, failAt int, file []byte, mode int) Val {
	r := c02xSource(file, mode)
	st := &c02xBatchStore{c02xStore{failAt: failAt}}
	switch kind {
	case 1:
		var roots []cid.Cid
		var err error
		if fast {
			roots, err = carv2.VerifC02xCarV1LoadCarBatch(
				func(b blocks.Block) error { return st.Put(context.Background(), b) },
				func(bs []blocks.Block) error { return st.PutMany(context.Background(), bs) }, r)
		} else {
			roots, err = carv2.VerifCarV1LoadCar(func(b blocks.Block) error { return st.Put(context.Background(), b) }, r)
		}
		return c02xLoadObs(st.calls, roots, err)
	default:
		var h *carv1.CarHeader
		var err error
		if fast {
			h, err = carv1.LoadCar(context.Background(), st, r)
		} else {
			h, err = carv1.LoadCar(context.Background(), &st.c02xStore, r)
		}
		var roots []cid.Cid
		if h != nil {
			roots = h.Roots
		}
		return c02xLoadObs(st.calls, roots, err)
	}
}

func c02xFailVal(failAt int) Val {
	if failAt < 0 {
		return VL{}
	}
	return VL{VN(uint64(failAt))}
}

func init() {
	registerReplay("c02load", func(c *Ctx, in Val) Val {
		l := in.(VL)
		failAt := -1
		if fl := l[2].(VL); len(fl) > 0 {
			failAt = int(fl[0].(VN))
		}
		mode := srcModeBytes
		if len(l) > 7 {
			mode = int(l[7].(VN))
		}
		return c02xRunLoadImpl(uint64(l[0].(VN)), l[1].(VN) != 0, failAt, []byte(l[3].(VB)), mode)
	})
}
