package main

import (
	"github.com/ipfs/go-cid"
	mbase "github.com/multiformats/go-multibase"
	mh "github.com/multiformats/go-multihash"
)

// C19 producer: generated valid archives (CARv1; CARv2 with data/index padding, with and without an
// embedded index, identity and duplicate blocks, nil / empty / absent roots) x the car sub-commands
// x their version / codec / inverse / append flags, plus a separately counted malformed stream
// (truncations, a block that does not hash to its CID) on which only model = implementation is
// compared.  A case is non-trivial when the property predicate applies to it (the inputs are
// constructed valid archives, so the expected output is known) and the archive has >= 2 blocks.

func genArch(c *Ctx, r *RNG, maxBlocks int, bigOK bool) Arch {
	nb := r.Intn(maxBlocks + 1)
	if r.Chance(70) && nb < 2 {
		nb = 2 + r.Intn(4)
	}
	g := genOpts{identity: true, maxData: 300}
	if bigOK && r.Chance(12) {
		g.maxData = 0 // varint-width boundary sizes (16 KiB)
	}
	blks := genBlocks(r, nb, g)
	if maxBlocks > 12 {
		// large archives (thorough tier): index buckets beyond sort.Sort's insertion-sort threshold, where
		// the order of equal digests is unspecified -- so no two blocks share a digest here
		c.Count("archive:large-distinct-digests")
		if r.Chance(30) {
			g.big = true // one section around the 2^21 varint boundary
		}
		nb = 13 + r.Intn(maxBlocks-12)
		blks = nil
		seenD := map[string]bool{}
		for len(blks) < nb {
			b := genBlock(r, g)
			g.big = false
			dm, _ := mh.Decode(b.Cid.Hash())
			if seenD[string(dm.Digest)] {
				continue
			}
			seenD[string(dm.Digest)] = true
			blks = append(blks, b)
		}
	}
	var a Arch
	a.blks = blks
	a.roots = genRoots(r, blks, true)
	if len(a.roots) == 0 {
		if r.Bool() {
			a.nilRoots = true
			a.roots = nil
		} else {
			a.roots = []cid.Cid{}
		}
	}
	a.payload = refPayload(a.roots, blks)
	switch r.Intn(10) {
	case 0, 1, 2:
		a.ver = 1
		a.file = a.payload
		c.Count("archive:v1")
	case 3, 4:
		a.ver = 2
		a.dpad = uint64(pick(r, []int{0, 0, 1, 7, 1413}))
		a.file = buildV2(a.payload, a.dpad, 0, 0, false)
		c.Count("archive:v2-indexless")
	default:
		a.ver = 2
		a.dpad = uint64(pick(r, []int{0, 0, 0, 1, 7, 1413}))
		a.ipad = uint64(pick(r, []int{0, 0, 1, 512}))
		a.idxKind = uint64(pick(r, []int{2, 3, 3}))
		a.storeID = r.Chance(25)
		a.file = buildV2(a.payload, a.dpad, a.ipad, a.idxKind, a.storeID)
		c.Count("archive:v2-indexed")
	}
	if a.dpad > 0 || a.ipad > 0 {
		c.Count("archive:padded")
	}
	for _, b := range blks {
		if b.Cid.Prefix().MhType == 0 {
			c.Count("archive:has-identity-block")
			break
		}
	}
	seen := map[string]bool{}
	for _, b := range blks {
		if seen[string(b.Cid.Hash())] {
			c.Count("archive:has-duplicate-multihash")
			break
		}
		seen[string(b.Cid.Hash())] = true
	}
	switch {
	case len(a.roots) == 0:
		c.Count("archive:no-roots")
	default:
		c.Count("archive:roots")
	}
	return a
}

func fvals(as ...Arch) VL {
	l := VL{}
	for _, a := range as {
		l = append(l, VB(a.file))
	}
	return l
}

// c19CidList renders a CID selection as the text `car filter` reads (parseCIDS): one CID per line in
// one of the text forms cid.Parse accepts, optional white space around it, LF or CRLF line ends, blank
// lines, repeated lines, and -- half of the time -- no terminator after the last line; fed through
// --cid-file or stdin.  Value: (text, cid.Parse table, mode, intended CIDs).
func c19CidList(c *Ctx, r *RNG, cids []cid.Cid) VL {
	var text []byte
	table := VL{}
	intended := VL{}
	ws := []string{"", "", "", " ", "\t", "  ", " \t"}
	blank := func() {
		text = append(text, pick(r, []string{"\n", "\r\n", "  \n", "\t\r\n"})...)
		c.Count("cidlist:blank-line")
	}
	lines := append([]cid.Cid(nil), cids...)
	if len(cids) > 0 && r.Chance(20) {
		lines = append(lines, pick(r, cids)) // a repeated CID ("duplicate cid" warning)
		c.Count("cidlist:repeated-line")
	}
	if r.Chance(15) {
		blank()
	}
	for i, k := range lines {
		var t string
		switch {
		case r.Chance(15):
			t = "/ipfs/" + k.String()
			c.Count("cidlist:ipfs-path-form")
		case k.Version() == 1 && r.Chance(20):
			t, _ = k.StringOfBase(pick(r, []mbase.Encoding{mbase.Base58BTC, mbase.Base16, mbase.Base64url, mbase.Base32Upper}))
			c.Count("cidlist:other-multibase")
		default:
			t = k.String()
		}
		table = append(table, VL{VB([]byte(t)), VB(k.Bytes())})
		text = append(text, pick(r, ws)...)
		text = append(text, t...)
		text = append(text, pick(r, ws)...)
		last := i == len(lines)-1
		switch {
		case last && r.Chance(50):
			c.Count("cidlist:last-line-unterminated")
		case r.Chance(25):
			text = append(text, "\r\n"...)
			c.Count("cidlist:crlf")
		default:
			text = append(text, '\n')
		}
		if !last && r.Chance(10) {
			blank()
		}
	}
	if len(lines) > 0 && r.Chance(10) {
		blank() // trailing blank lines
	}
	for _, k := range cids {
		intended = append(intended, VB(k.Bytes()))
	}
	return VL{VB(text), table, VN(uint64(r.Intn(2))), intended}
}

func c19GenSel(c *Ctx, r *RNG, a Arch, other Arch) VL {
	var sel []cid.Cid
	seen := map[string]bool{}
	add := func(c cid.Cid) {
		if !seen[string(c.Bytes())] {
			seen[string(c.Bytes())] = true
			sel = append(sel, c)
		}
	}
	for _, b := range a.blks {
		if r.Chance(45) {
			add(b.Cid)
		}
	}
	for _, rt := range a.roots {
		if r.Chance(50) {
			add(rt)
		}
	}
	if r.Chance(30) && len(other.blks) > 0 {
		add(pick(r, other.blks).Cid) // usually absent from a
	}
	return c19CidList(c, r, sel)
}

func c19Archive(c *Ctx, r *RNG, a, b, d Arch) {
	nt := len(a.blks) >= 2
	one := fvals(a)
	ex := VL{a.desc()}
	// readers
	emitCli(c, "list", VL{}, one, ex, nt)
	emitCli(c, "root", VL{}, one, ex, nt)
	emitCli(c, "inspect", VL{VN(1)}, one, VL{}, false)
	emitCli(c, "inspect", VL{VN(0)}, one, VL{}, false)
	emitCli(c, "verify", VL{}, one, VL{}, false)
	// car index
	for _, k := range []uint64{1, 2, 3} {
		emitCli(c, "index", VL{VN(k), VN(2)}, one, ex, nt)
	}
	if r.Chance(30) {
		emitCli(c, "index", VL{VN(0), VN(2)}, one, ex, nt)
	}
	emitCli(c, "index", VL{VN(uint64(r.Intn(2))), VN(1)}, one, ex, nt)
	if r.Chance(25) {
		bad := pick(r, []VL{{VN(2), VN(1)}, {VN(4), VN(2)}, {VN(5), VN(2)}, {VN(0), VN(3)}, {VN(3), VN(0)}, {VN(4), VN(1)}})
		emitCli(c, "index", bad, one, VL{}, false)
		c.Count("flags:index-rejected-combination")
	}
	// car index create, detach-index, detach-index list
	o := emitCli(c, "indexcreate", VL{VN(uint64(pick(r, []int{0, 3})))}, one, ex, nt)
	emitCli(c, "indexcreate", VL{VN(2)}, one, ex, nt)
	if r.Chance(10) {
		emitCli(c, "indexcreate", VL{VN(uint64(pick(r, []int{4, 5})))}, one, VL{}, false)
	}
	if idx, ok := o.(VL)[1].(VB); ok {
		emitCli(c, "detachlist", VL{}, VL{idx}, VL{a.desc(), VN(0)}, nt)
	}
	if a.idxKind != 0 {
		od := emitCli(c, "detach", VL{}, one, VL{a.desc(), VN(a.idxKind), vbool(a.storeID)}, nt)
		if idx, ok := od.(VL)[1].(VB); ok {
			exl := VL{}
			if a.idxKind == 3 {
				exl = VL{a.desc(), vbool(a.storeID)}
			}
			emitCli(c, "detachlist", VL{}, VL{idx}, exl, nt)
		}
	} else if r.Chance(40) {
		emitCli(c, "detach", VL{}, one, VL{}, false)
	}
	// car get-block
	if len(a.blks) > 0 {
		for i := 0; i < 2; i++ {
			emitCli(c, "getblock", VL{VB(pick(r, a.blks).Cid.Bytes())}, one, ex, nt)
		}
		for _, bl := range a.blks {
			if bl.Cid.Prefix().MhType == 0 {
				emitCli(c, "getblock", VL{VB(bl.Cid.Bytes())}, one, ex, nt)
				break
			}
		}
	}
	emitCli(c, "getblock", VL{VB(genBlock(r, genOpts{maxData: 16}).Cid.Bytes())}, one, ex, nt)
	// car filter
	none := VT("none")
	emitCli(c, "filter", VL{c19GenSel(c, r, a, b), VN(0), VN(2), VN(0)}, VL{VB(a.file), none}, ex, nt)
	emitCli(c, "filter", VL{c19GenSel(c, r, a, b), VN(0), VN(1), VN(0)}, VL{VB(a.file), none}, ex, nt)
	emitCli(c, "filter", VL{c19GenSel(c, r, a, b), VN(1), VN(uint64(1 + r.Intn(2))), VN(0)}, VL{VB(a.file), VB(b.file)}, ex, nt)
	if r.Chance(10) {
		emitCli(c, "filter", VL{c19GenSel(c, r, a, b), VN(0), VN(3), VN(0)}, VL{VB(a.file), none}, VL{}, false)
	}
	if r.Chance(12) {
		// a line cid.Parse refuses: the command stops before the output is touched
		cl := c19GenSel(c, r, a, b)
		bad := pick(r, []string{"not-a-cid", "bafy", "Qm0000", "/ipfs/"})
		txt := append([]byte(bad+pick(r, []string{"\n", "\r\n", ""})), []byte(cl[0].(VB))...)
		if r.Bool() {
			txt = append(append([]byte(cl[0].(VB)), '\n'), bad...)
		}
		cl[0] = VB(txt)
		emitCli(c, "filter", VL{cl, VN(uint64(r.Intn(2))), VN(2), VN(0)}, VL{VB(a.file), VB(b.file)}, VL{}, false)
		c.Count("cidlist:unparsable-line")
	}
	// --append onto an existing archive b (resumable only when b is a CARv2 without data padding)
	if b.ver == 2 && b.dpad == 0 {
		emitCli(c, "filter", VL{c19GenSel(c, r, a, d), VN(uint64(r.Intn(2))), VN(2), VN(1)}, VL{VB(a.file), VB(b.file)}, VL{a.desc(), b.desc()}, nt)
		c.Count("flags:filter-append-resumable")
	} else if r.Chance(50) {
		emitCli(c, "filter", VL{c19GenSel(c, r, a, d), VN(0), VN(2), VN(1)}, VL{VB(a.file), VB(b.file)}, VL{}, false)
		c.Count("flags:filter-append-refused")
	}
	if r.Chance(10) {
		emitCli(c, "filter", VL{c19GenSel(c, r, a, d), VN(0), VN(uint64(1 + r.Intn(2))), VN(1)}, VL{VB(a.file), none}, VL{}, false)
	}
	// car concat
	concat := func(ver uint64, as ...Arch) {
		exc := VL{}
		for _, x := range as {
			if len(x.roots) == 0 {
				exc = VL{} // an input without roots is refused (legacy NewCarReader): no claim
				break
			}
			exc = append(exc, x.desc())
		}
		emitCli(c, "concat", VL{VN(ver)}, fvals(as...), exc, nt && len(exc) > 0)
	}
	concat(1, a, b)
	concat(2, a, b)
	if r.Chance(30) {
		concat(1, a, b, d)
	}
	if r.Chance(20) {
		concat(uint64(1+r.Intn(2)), a)
	}
}

// malformed stream: only model = implementation is compared (expect is empty)
func c19Malformed(c *Ctx, r *RNG, a Arch) {
	if len(a.blks) == 0 {
		return
	}
	var f []byte
	switch r.Intn(3) {
	case 0: // cut somewhere after the CARv1 header
		base := len(a.file) - len(a.payload)
		if a.idxKind != 0 {
			base = 51 + int(a.dpad)
		}
		hdr := len(refPayload(a.roots, nil))
		lo := base + hdr
		hi := base + len(a.payload)
		if hi <= lo {
			return
		}
		f = append([]byte(nil), a.file[:lo+r.Intn(hi-lo)]...)
		c.Count("malformed:truncated")
	case 1: // a data byte flipped: the block no longer hashes to its CID
		g := append([]byte(nil), a.file...)
		base := 0
		if a.ver == 2 {
			base = 51 + int(a.dpad)
		}
		lay := payloadLayout(nil, a.payload, a.blks, len(refPayload(a.roots, nil)))
		i := r.Intn(len(a.blks))
		if lay.secEnd[i] == lay.dataStart[i] {
			return
		}
		g[base+lay.dataStart[i]+r.Intn(lay.secEnd[i]-lay.dataStart[i])] ^= 0x01
		f = g
		c.Count("malformed:hash-mismatch")
	default: // null padding after the payload of a CARv1
		if a.ver != 1 {
			return
		}
		f = append(append([]byte(nil), a.file...), make([]byte, 1+r.Intn(3))...)
		c.Count("malformed:null-padded-v1")
	}
	files := VL{VB(f)}
	emitCli(c, "list", VL{}, files, VL{}, false)
	emitCli(c, "root", VL{}, files, VL{}, false)
	emitCli(c, "inspect", VL{VN(1)}, files, VL{}, false)
	emitCli(c, "inspect", VL{VN(0)}, files, VL{}, false)
	emitCli(c, "verify", VL{}, files, VL{}, false)
	emitCli(c, "index", VL{VN(3), VN(2)}, files, VL{}, false)
	emitCli(c, "index", VL{VN(1), VN(2)}, files, VL{}, false)
	emitCli(c, "indexcreate", VL{VN(0)}, files, VL{}, false)
	emitCli(c, "getblock", VL{VB(pick(r, a.blks).Cid.Bytes())}, files, VL{}, false)
	emitCli(c, "filter", VL{c19GenSel(c, r, a, a), VN(0), VN(2), VN(0)}, VL{VB(f), VT("none")}, VL{}, false)
	emitCli(c, "concat", VL{VN(1)}, VL{VB(f), VB(a.file)}, VL{}, false)
}

// c19Examples replays the instance of coq/proofs/CliExamples.v (blocks "a" (raw, sha2-256), "id" (raw,
// identity), "bc" (dag-cbor, sha2-256), "a" again; root = the first CID; as a CARv1 and as an
// index-less CARv2 with 7 bytes of data padding) through the commands the Examples are about.
func c19Examples(c *Ctx) {
	b1 := Blk{mkCid(1, 0x55, mh.SHA2_256, -1, []byte("a")), []byte("a")}
	bi := Blk{mkCid(1, 0x55, mh.IDENTITY, -1, []byte("id")), []byte("id")}
	b2 := Blk{mkCid(1, 0x71, mh.SHA2_256, -1, []byte("bc")), []byte("bc")}
	mk := func(roots []cid.Cid, v2 bool) Arch {
		a := Arch{roots: roots, blks: []Blk{b1, bi, b2, b1}, ver: 1}
		a.payload = refPayload(a.roots, a.blks)
		a.file = a.payload
		if v2 {
			a.ver, a.dpad = 2, 7
			a.file = buildV2(a.payload, 7, 0, 0, false)
		}
		return a
	}
	v1 := mk([]cid.Cid{b1.Cid}, false)
	v2 := mk([]cid.Cid{b1.Cid}, true)
	rootless := mk([]cid.Cid{}, false)
	ex := VL{v1.desc()}
	sel := VL{VB(b1.Cid.Bytes()), VB(bi.Cid.Bytes())}
	none := VT("none")
	emitCli(c, "list", VL{}, fvals(v2), ex, true)
	emitCli(c, "root", VL{}, fvals(v2), ex, true)
	emitCli(c, "filter", VL{sel, VN(0), VN(1), VN(0)}, VL{VB(v2.file), none}, ex, true)
	emitCli(c, "filter", VL{sel, VN(0), VN(2), VN(0)}, VL{VB(v1.file), VB(v2.file)}, ex, true)
	o := emitCli(c, "index", VL{VN(0), VN(2)}, fvals(v1), ex, true)
	emitCli(c, "indexcreate", VL{VN(0)}, fvals(v1), ex, true)
	if f, ok := o.(VL)[1].(VB); ok {
		emitCli(c, "indexcreate", VL{VN(0)}, VL{f}, ex, true)
		emitCli(c, "detach", VL{}, VL{f}, VL{v1.desc(), VN(3), VN(0)}, true)
	}
	emitCli(c, "index", VL{VN(2), VN(2)}, fvals(v2), ex, true)
	emitCli(c, "index", VL{VN(1), VN(2)}, fvals(v2), ex, true)
	emitCli(c, "index", VL{VN(0), VN(1)}, fvals(v2), ex, true)
	emitCli(c, "index", VL{VN(2), VN(1)}, fvals(v2), VL{}, false)
	emitCli(c, "detach", VL{}, fvals(v1), VL{}, false)
	emitCli(c, "detach", VL{}, fvals(v2), VL{}, false)
	emitCli(c, "concat", VL{VN(1)}, fvals(v2, v1), VL{v2.desc(), v1.desc()}, true)
	emitCli(c, "concat", VL{VN(2)}, fvals(v2, v1), VL{v2.desc(), v1.desc()}, true)
	emitCli(c, "concat", VL{VN(1)}, fvals(v1, rootless), VL{}, false)
	emitCli(c, "verify", VL{}, fvals(rootless), VL{}, false)
	emitCli(c, "getblock", VL{VB(b2.Cid.Bytes())}, fvals(v2), ex, true)
	emitCli(c, "getblock", VL{VB(bi.Cid.Bytes())}, fvals(v2), ex, true)
	emitCli(c, "getblock", VL{VB(mkCid(1, 0x55, mh.SHA2_256, -1, []byte("absent")).Bytes())}, fvals(v2), ex, true)
	out0 := buildV2(v1.payload, 0, 0, 0, false)
	emitCli(c, "filter", VL{VL{VB(b2.Cid.Bytes()), VB(bi.Cid.Bytes())}, VN(0), VN(2), VN(1)}, VL{VB(v2.file), VB(out0)}, VL{v2.desc(), v1.desc()}, true)
	c.Count("examples:theorem-instance")
}

func init() {
	register("c19", func(c *Ctx) {
		c19Examples(c)
		n := 32 * c.Scale
		maxBlocks := 9 // buckets stay below sort.Sort's insertion-sort threshold (stable), see notes/design/C19.md
		archs := make([]Arch, n)
		for i := range archs {
			archs[i] = genArch(c, c.R.Fork(), maxBlocks, true)
		}
		for i, a := range archs {
			r := c.R.Fork()
			c19Archive(c, r, a, archs[(i+1)%n], archs[(i+2)%n])
			if i%5 == 0 {
				c19Malformed(c, r, a)
			}
		}
		if c.Thorough {
			m := 12
			large := make([]Arch, m)
			for i := range large {
				large[i] = genArch(c, c.R.Fork(), 40, true)
			}
			for i, a := range large {
				c19Archive(c, c.R.Fork(), a, large[(i+1)%m], archs[i%n])
			}
		}
	})
}
