package main

import (
	"bytes"
	"context"
	"io"

	"github.com/ipfs/go-cid"
	dagpb "github.com/ipld/go-codec-dagpb"
	"github.com/ipld/go-ipld-prime/codec/dagjson"
	"github.com/ipld/go-ipld-prime/datamodel"
	"github.com/ipld/go-ipld-prime/fluent/qp"
	"github.com/ipld/go-ipld-prime/linking"
	cidlink "github.com/ipld/go-ipld-prime/linking/cid"
	"github.com/ipld/go-ipld-prime/node/basicnode"
	"github.com/ipld/go-ipld-prime/traversal"
	"github.com/ipld/go-ipld-prime/traversal/selector"
	mbase "github.com/multiformats/go-multibase"
	mh "github.com/multiformats/go-multihash"
)

// C19 producer: generated valid archives (CARv1; CARv2 with data/index padding, with and without an
// embedded index, identity and duplicate blocks, nil / empty / absent roots) x the car sub-commands
// x their version / codec / inverse / append flags, plus a separately counted malformed stream
// (truncations, a block that does not hash to its CID) on which only model = implementation is
// compared.  A case is non-trivial when the property predicate applies to it (the inputs are
// constructed valid archives, so the expected output is known) and the archive has >= 2 blocks.

var c19BigBudget int

func genArch(c *Ctx, r *RNG, maxBlocks int, bigOK bool) Arch {
	nb := r.Intn(maxBlocks + 1)
	if r.Chance(70) && nb < 2 {
		nb = 2 + r.Intn(4)
	}
	g := genOpts{identity: true, maxData: 300}
	if bigOK && r.Chance(12) {
		g.maxData = 0 // varint-width boundary sizes (16 KiB)
	}
	blks := genBlocks(r, nb, g)
	if maxBlocks > 12 {
		// large archives (thorough tier): index buckets beyond sort.Sort's insertion-sort threshold, where
		// the order of equal digests is unspecified -- so no two blocks share a digest here
		c.Count("archive:large-distinct-digests")
		if c19BigBudget > 0 && r.Chance(50) {
			g.big = true // one section around the 2^21 varint boundary (few: the model is slow on them)
			c19BigBudget--
			c.Count("archive:section-at-2^21")
		}
		nb = 13 + r.Intn(maxBlocks-12)
		blks = nil
		seenD := map[string]bool{}
		for len(blks) < nb {
			b := genBlock(r, g)
			g.big = false
			dm, _ := mh.Decode(b.Cid.Hash())
			if seenD[string(dm.Digest)] {
				continue
			}
			seenD[string(dm.Digest)] = true
			blks = append(blks, b)
		}
	}
	var a Arch
	a.blks = blks
	a.roots = genRoots(r, blks, true)
	if len(a.roots) == 0 {
		if r.Bool() {
			a.nilRoots = true
			a.roots = nil
		} else {
			a.roots = []cid.Cid{}
		}
	}
	a.payload = refPayload(a.roots, blks)
	switch r.Intn(10) {
	case 0, 1, 2:
		a.ver = 1
		a.file = a.payload
		c.Count("archive:v1")
	case 3, 4:
		a.ver = 2
		a.dpad = uint64(pick(r, []int{0, 0, 1, 7, 1413}))
		a.file = buildV2(a.payload, a.dpad, 0, 0, false)
		c.Count("archive:v2-indexless")
	default:
		a.ver = 2
		a.dpad = uint64(pick(r, []int{0, 0, 0, 1, 7, 1413}))
		a.ipad = uint64(pick(r, []int{0, 0, 1, 512}))
		a.idxKind = uint64(pick(r, []int{2, 3, 3}))
		a.storeID = r.Chance(25)
		a.file = buildV2(a.payload, a.dpad, a.ipad, a.idxKind, a.storeID)
		c.Count("archive:v2-indexed")
	}
	if a.dpad > 0 || a.ipad > 0 {
		c.Count("archive:padded")
	}
	for _, b := range blks {
		if b.Cid.Prefix().MhType == 0 {
			c.Count("archive:has-identity-block")
			break
		}
	}
	seen := map[string]bool{}
	for _, b := range blks {
		if seen[string(b.Cid.Hash())] {
			c.Count("archive:has-duplicate-multihash")
			break
		}
		seen[string(b.Cid.Hash())] = true
	}
	switch {
	case len(a.roots) == 0:
		c.Count("archive:no-roots")
	default:
		c.Count("archive:roots")
	}
	return a
}

// c19Pre: what sits at the output path before the command runs -- nothing, a file LONGER than anything the
// command writes (a recognisable pattern), or a short one.  Appended to the file list as (tpre b..).
func c19Pre(c *Ctx, r *RNG, files VL, ref int) VL {
	out := append(VL{}, files...)
	switch r.Intn(5) {
	case 0, 1:
		c.Count("output-path:absent")
	case 2, 3:
		out = append(out, VL{VT("pre"), VB(bytes.Repeat([]byte{0xA5, 0x5A, 'P', 'R', 'E'}, (ref+1500)/5))})
		c.Count("output-path:preexisting-longer")
	default:
		out = append(out, VL{VT("pre"), VB([]byte{0xA5, 0x5A, 'P'}[:1+r.Intn(3)])})
		c.Count("output-path:preexisting-shorter")
	}
	return out
}

// what sits at the output path of filter / get-dag (their file list carries it as files[1])
func c19PreOut(c *Ctx, r *RNG, ref int, other []byte) Val {
	switch r.Intn(6) {
	case 0, 1:
		c.Count("output-path:absent")
		return VT("none")
	case 2, 3:
		c.Count("output-path:preexisting-longer")
		return VB(bytes.Repeat([]byte{0xA5, 0x5A, 'P', 'R', 'E'}, (ref+1500)/5))
	case 4:
		c.Count("output-path:preexisting-shorter")
		return VB([]byte{0xA5, 0x5A})
	default:
		c.Count("output-path:preexisting-archive")
		return VB(other)
	}
}

func fvals(as ...Arch) VL {
	l := VL{}
	for _, a := range as {
		l = append(l, VB(a.file))
	}
	return l
}

// c19CidList renders a CID selection as the text `car filter` reads (parseCIDS): one CID per line in
// one of the text forms cid.Parse accepts, optional white space around it, LF or CRLF line ends, blank
// lines, repeated lines, and -- half of the time -- no terminator after the last line; fed through
// --cid-file or stdin.  Value: (text, cid.Parse table, mode, intended CIDs).
func c19CidList(c *Ctx, r *RNG, cids []cid.Cid) VL {
	var text []byte
	table := VL{}
	intended := VL{}
	ws := []string{"", "", "", " ", "\t", "  ", " \t"}
	blank := func() {
		text = append(text, pick(r, []string{"\n", "\r\n", "  \n", "\t\r\n"})...)
		c.Count("cidlist:blank-line")
	}
	lines := append([]cid.Cid(nil), cids...)
	if len(cids) > 0 && r.Chance(20) {
		lines = append(lines, pick(r, cids)) // a repeated CID ("duplicate cid" warning)
		c.Count("cidlist:repeated-line")
	}
	if r.Chance(15) {
		blank()
	}
	for i, k := range lines {
		var t string
		switch {
		case r.Chance(15):
			t = "/ipfs/" + k.String()
			c.Count("cidlist:ipfs-path-form")
		case k.Version() == 1 && r.Chance(20):
			t, _ = k.StringOfBase(pick(r, []mbase.Encoding{mbase.Base58BTC, mbase.Base16, mbase.Base64url, mbase.Base32Upper}))
			c.Count("cidlist:other-multibase")
		default:
			t = k.String()
		}
		table = append(table, VL{VB([]byte(t)), VB(k.Bytes())})
		text = append(text, pick(r, ws)...)
		text = append(text, t...)
		text = append(text, pick(r, ws)...)
		last := i == len(lines)-1
		switch {
		case last && r.Chance(50):
			c.Count("cidlist:last-line-unterminated")
		case r.Chance(25):
			text = append(text, "\r\n"...)
			c.Count("cidlist:crlf")
		default:
			text = append(text, '\n')
		}
		if !last && r.Chance(10) {
			blank()
		}
	}
	if len(lines) > 0 && r.Chance(10) {
		blank() // trailing blank lines
	}
	for _, k := range cids {
		intended = append(intended, VB(k.Bytes()))
	}
	return VL{VB(text), table, VN(uint64(r.Intn(2))), intended}
}

func c19GenSel(c *Ctx, r *RNG, a Arch, other Arch) VL {
	var sel []cid.Cid
	seen := map[string]bool{}
	add := func(c cid.Cid) {
		if !seen[string(c.Bytes())] {
			seen[string(c.Bytes())] = true
			sel = append(sel, c)
		}
	}
	for _, b := range a.blks {
		if r.Chance(45) {
			add(b.Cid)
		}
	}
	for _, rt := range a.roots {
		if r.Chance(50) {
			add(rt)
		}
	}
	if r.Chance(30) && len(other.blks) > 0 {
		add(pick(r, other.blks).Cid) // usually absent from a
	}
	return c19CidList(c, r, sel)
}

func c19Archive(c *Ctx, r *RNG, a, b, d Arch) {
	nt := len(a.blks) >= 2
	one := fvals(a)
	ex := VL{a.desc()}
	// readers
	emitCli(c, "list", VL{}, one, ex, nt)
	emitCli(c, "listfile", VL{}, c19Pre(c, r, one, len(a.file)), ex, nt)
	emitCli(c, "root", VL{}, one, ex, nt)
	emitCli(c, "inspect", VL{VN(1)}, one, VL{}, false)
	emitCli(c, "inspect", VL{VN(0)}, one, VL{}, false)
	emitCli(c, "verify", VL{}, one, VL{}, false)
	// the same archive through a pipe on standard input
	emitCli(c, "list", VL{VN(1), VN(uint64(r.Intn(2)))}, one, ex, nt)
	if r.Chance(30) {
		emitCli(c, "list", VL{VN(0), VN(1)}, one, ex, nt) // --verbose from a file
	}
	if r.Chance(50) {
		emitCli(c, "root", VL{VN(1)}, one, ex, nt)
	}
	if r.Chance(30) {
		emitCli(c, "inspect", VL{VN(uint64(r.Intn(2))), VN(1)}, one, VL{}, false)
	}
	// car index
	for _, k := range []uint64{1, 2, 3} {
		emitCli(c, "index", VL{VN(k), VN(2)}, c19Pre(c, r, one, len(a.file)), ex, nt)
	}
	if r.Chance(30) {
		emitCli(c, "index", VL{VN(0), VN(2)}, c19Pre(c, r, one, len(a.file)), ex, nt)
	}
	emitCli(c, "index", VL{VN(uint64(r.Intn(2))), VN(1)}, c19Pre(c, r, one, len(a.file)), ex, nt)
	if r.Chance(25) {
		bad := pick(r, []VL{{VN(2), VN(1)}, {VN(4), VN(2)}, {VN(5), VN(2)}, {VN(0), VN(3)}, {VN(3), VN(0)}, {VN(4), VN(1)}})
		emitCli(c, "index", bad, c19Pre(c, r, one, len(a.file)), VL{}, false)
		c.Count("flags:index-rejected-combination")
	}
	// car index create, detach-index, detach-index list
	o := emitCli(c, "indexcreate", VL{VN(uint64(pick(r, []int{0, 3})))}, c19Pre(c, r, one, len(a.file)), ex, nt)
	emitCli(c, "indexcreate", VL{VN(2)}, c19Pre(c, r, one, len(a.file)), ex, nt)
	if r.Chance(10) {
		emitCli(c, "indexcreate", VL{VN(uint64(pick(r, []int{4, 5})))}, one, VL{}, false)
	}
	if idx, ok := o.(VL)[1].(VB); ok {
		emitCli(c, "detachlist", VL{VN(uint64(r.Intn(2)))}, VL{idx}, VL{a.desc(), VN(0)}, nt)
	}
	if a.idxKind != 0 {
		od := emitCli(c, "detach", VL{}, c19Pre(c, r, one, len(a.file)), VL{a.desc(), VN(a.idxKind), vbool(a.storeID)}, nt)
		if idx, ok := od.(VL)[1].(VB); ok {
			exl := VL{}
			if a.idxKind == 3 {
				exl = VL{a.desc(), vbool(a.storeID)}
			}
			emitCli(c, "detachlist", VL{}, VL{idx}, exl, nt)
		}
	} else if r.Chance(40) {
		emitCli(c, "detach", VL{}, c19Pre(c, r, one, len(a.file)), VL{}, false)
	}
	// car get-block
	if len(a.blks) > 0 {
		for i := 0; i < 2; i++ {
			emitCli(c, "getblock", VL{VB(pick(r, a.blks).Cid.Bytes())}, c19Pre(c, r, one, len(a.file)), ex, nt)
		}
		for _, bl := range a.blks {
			if bl.Cid.Prefix().MhType == 0 {
				emitCli(c, "getblock", VL{VB(bl.Cid.Bytes())}, one, ex, nt)
				break
			}
		}
	}
	emitCli(c, "getblock", VL{VB(genBlock(r, genOpts{maxData: 16}).Cid.Bytes())}, c19Pre(c, r, one, len(a.file)), ex, nt)
	// car filter
	none := VT("none")
	emitCli(c, "filter", VL{c19GenSel(c, r, a, b), VN(0), VN(2), VN(0)}, VL{VB(a.file), c19PreOut(c, r, len(a.file), b.file)}, ex, nt)
	emitCli(c, "filter", VL{c19GenSel(c, r, a, b), VN(0), VN(1), VN(0)}, VL{VB(a.file), c19PreOut(c, r, len(a.file), b.file)}, ex, nt)
	emitCli(c, "filter", VL{c19GenSel(c, r, a, b), VN(1), VN(uint64(1 + r.Intn(2))), VN(0)}, VL{VB(a.file), c19PreOut(c, r, len(a.file), b.file)}, ex, nt)
	if r.Chance(10) {
		emitCli(c, "filter", VL{c19GenSel(c, r, a, b), VN(0), VN(3), VN(0)}, VL{VB(a.file), none}, VL{}, false)
	}
	if r.Chance(12) {
		// a line cid.Parse refuses: the command stops before the output is touched
		cl := c19GenSel(c, r, a, b)
		bad := pick(r, []string{"not-a-cid", "bafy", "Qm0000", "/ipfs/"})
		txt := append([]byte(bad+pick(r, []string{"\n", "\r\n"})), []byte(cl[0].(VB))...)
		if r.Bool() {
			txt = append(append([]byte(cl[0].(VB)), '\n'), bad...)
		}
		cl[0] = VB(txt)
		emitCli(c, "filter", VL{cl, VN(uint64(r.Intn(2))), VN(2), VN(0)}, VL{VB(a.file), VB(b.file)}, VL{}, false)
		c.Count("cidlist:unparsable-line")
	}
	// --append onto an existing archive b (resumable only when b is a CARv2 without data padding)
	if b.ver == 2 && b.dpad == 0 {
		emitCli(c, "filter", VL{c19GenSel(c, r, a, d), VN(uint64(r.Intn(2))), VN(2), VN(1)}, VL{VB(a.file), VB(b.file)}, VL{a.desc(), b.desc()}, nt)
		c.Count("flags:filter-append-resumable")
	} else if r.Chance(50) {
		emitCli(c, "filter", VL{c19GenSel(c, r, a, d), VN(0), VN(2), VN(1)}, VL{VB(a.file), VB(b.file)}, VL{}, false)
		c.Count("flags:filter-append-refused")
	}
	if r.Chance(10) {
		emitCli(c, "filter", VL{c19GenSel(c, r, a, d), VN(0), VN(uint64(1 + r.Intn(2))), VN(1)}, VL{VB(a.file), none}, VL{}, false)
	}
	// car concat
	concat := func(ver uint64, as ...Arch) {
		exc := VL{}
		for _, x := range as {
			if len(x.roots) == 0 {
				exc = VL{} // an input without roots is refused (legacy NewCarReader): no claim
				break
			}
			exc = append(exc, x.desc())
		}
		tot := 0
		for _, x := range as {
			tot += len(x.file)
		}
		emitCli(c, "concat", VL{VN(ver)}, c19Pre(c, r, fvals(as...), tot), exc, nt && len(exc) > 0)
	}
	concat(1, a, b)
	concat(2, a, b)
	if r.Chance(30) {
		concat(1, a, b, d)
	}
	if r.Chance(20) {
		concat(uint64(1+r.Intn(2)), a)
	}
}

// ---- car get-dag ------------------------------------------------------------------------------------
// refGetDagV2 is the reference for `car get-dag --version 2`: the walk the command's options promise --
// trusted storage, dag-pb prototype for codec 0x70 (basicnode otherwise), a missing block skipped
// (traversal.SkipMe) unless --strict, LinkVisitOnlyOnce exactly when no --selector was given,
// Load(root) then WalkMatching reading large-bytes nodes to the end -- run directly on ipld-prime
// over a logging link system backed by what the read-only blockstore answers.
func refGetDagV2(store map[string][]byte, root cid.Cid, sel datamodel.Node, visitOnce, strict bool) (*walkLog, bool) {
	cur := &walkLog{}
	ls := loggingLinkSystem(store, &cur)
	ls.TrustedStorage = true
	inner := ls.StorageReadOpener
	ls.StorageReadOpener = func(lc linking.LinkContext, l datamodel.Link) (io.Reader, error) {
		r, err := inner(lc, l)
		if err != nil {
			if _, nf := err.(errNotFound); nf && !strict {
				return nil, traversal.SkipMe{}
			}
			return nil, err
		}
		return r, nil
	}
	nsc := func(lnk datamodel.Link, _ linking.LinkContext) (datamodel.NodePrototype, error) {
		if cl, ok := lnk.(cidlink.Link); ok && cl.Cid.Prefix().Codec == cid.DagProtobuf {
			return dagpb.Type.PBNode, nil
		}
		return basicnode.Prototype.Any, nil
	}
	err := func() error {
		lnk := cidlink.Link{Cid: root}
		ns, _ := nsc(lnk, linking.LinkContext{})
		nd, err := ls.Load(linking.LinkContext{}, lnk, ns)
		if err != nil {
			return err
		}
		s, err := selector.CompileSelector(sel)
		if err != nil {
			return err
		}
		prog := traversal.Progress{Cfg: &traversal.Config{LinkSystem: ls, LinkTargetNodePrototypeChooser: nsc, LinkVisitOnlyOnce: visitOnce}}
		return prog.WalkMatching(nd, s, func(_ traversal.Progress, n datamodel.Node) error {
			if lb, ok := n.(datamodel.LargeBytesNode); ok {
				if rs, err := lb.AsLargeBytes(); err == nil {
					if _, err := io.Copy(io.Discard, rs); err != nil {
						return err
					}
				}
			}
			return nil
		})
	}()
	return cur, err == nil
}

func traceVal(w *walkLog, ok bool) Val {
	ls := VL{}
	for _, l := range w.loads {
		ls = append(ls, VL{VB(l.cid), VB(l.data)})
	}
	return VL{ls, vbool(ok)}
}

// c19GetDag: a generated DAG (dag-cbor / dag-pb / raw, shared subtrees, repeated links, the same
// bytes under two codecs, identity leaves) stored in a CARv1 / CARv2 archive -- complete, or with
// one block missing -- and `car get-dag` over it: --version 1|2, no selector / explore-all /
// depth-limited / field paths / match-only, --strict, root given or taken from the archive.
func c19GetDag(c *Ctx, r *RNG) {
	depth := 2 + r.Intn(3)
	g := genDag(r, depth, 1, false)
	root := g.tops[0]
	// one block may be missing from the archive (never one whose multihash another block shares:
	// the read-only blockstore answers by multihash)
	mhCount := map[string]int{}
	for _, n := range g.nodes {
		mhCount[string(n.c.Hash())]++
	}
	var missing *dnode
	if r.Chance(25) {
		n := pick(r, g.nodes)
		if mhCount[string(n.c.Hash())] == 1 && n.c.Prefix().MhType != mh.IDENTITY && (n != root || r.Chance(20)) {
			missing = n
			c.Count("getdag:block-missing")
		}
	}
	var blks []Blk
	store := map[string][]byte{}
	seen := map[string]bool{}
	for _, i := range permIdx(r, len(g.nodes)) {
		n := g.nodes[i]
		if n.c.Prefix().MhType == mh.IDENTITY {
			store[n.c.KeyString()] = n.data // ReadOnly.Get answers identity CIDs from the CID itself
		}
		if n == missing || seen[n.c.KeyString()] {
			continue
		}
		seen[n.c.KeyString()] = true
		if n.c.Prefix().MhType == mh.IDENTITY && r.Bool() {
			continue
		}
		blks = append(blks, Blk{n.c, n.data})
		store[n.c.KeyString()] = n.data
	}
	var a Arch
	a.blks = blks
	a.roots = []cid.Cid{root.c}
	switch r.Intn(8) {
	case 0:
		a.roots = []cid.Cid{}
	case 1:
		a.roots = []cid.Cid{root.c, g.nodes[0].c}
	}
	a.payload = refPayload(a.roots, blks)
	switch r.Intn(3) {
	case 0:
		a.ver, a.file = 1, a.payload
	case 1:
		a.ver, a.dpad = 2, uint64(pick(r, []int{0, 7}))
		a.file = buildV2(a.payload, a.dpad, 0, 0, false)
	default:
		a.ver, a.dpad, a.ipad, a.idxKind = 2, uint64(pick(r, []int{0, 1})), uint64(pick(r, []int{0, 512})), uint64(pick(r, []int{2, 3}))
		a.file = buildV2(a.payload, a.dpad, a.ipad, a.idxKind, false)
	}
	nInv := 3
	for k := 0; k < nInv; k++ {
		ver := uint64(1 + r.Intn(2))
		if k == 0 {
			ver = 2
		} else if k == 1 {
			ver = 1
		}
		strict := ver == 2 && r.Chance(30)
		// selector
		var selJSON Val = VT("none")
		spec := selSpec{kind: 0}
		hasSel := r.Chance(70)
		if hasSel {
			spec = genSel(r, root, depth)
			if r.Chance(35) {
				spec = selSpec{kind: 1, depth: uint64(1 + r.Intn(depth+2))} // depth-limited: path dependent
				for try := 0; try < 6 && !visitOnceSensitive(store, root.c, spec); try++ {
					spec = selSpec{kind: 1, depth: uint64(1 + r.Intn(2*depth+3))}
				}
				if visitOnceSensitive(store, root.c, spec) {
					c.Count("getdag:visit-once-sensitive")
				}
			}
			var buf bytes.Buffer
			if err := dagjson.Encode(spec.node(), &buf); err != nil {
				panic(err)
			}
			selJSON = VB(buf.Bytes())
			c.Count("getdag:selector-kind-" + string(rune('0'+spec.kind)))
		} else {
			c.Count("getdag:no-selector")
		}
		// root argument
		var rootArg Val = VB(root.c.Bytes())
		effRoot, rootKnown := root.c, true
		if r.Chance(25) {
			rootArg = VT("none")
			rootKnown = len(a.roots) == 1
			c.Count("getdag:root-from-archive")
		} else if r.Chance(15) && len(root.edges) > 0 {
			ch := pick(r, root.edges).child
			rootArg, effRoot = VB(ch.c.Bytes()), ch.c
			if hasSel && (spec.kind == 2 || spec.kind == 4 || spec.kind == 5) {
				spec = selSpec{kind: 0}
				var buf bytes.Buffer
				dagjson.Encode(spec.node(), &buf)
				selJSON = VB(buf.Bytes())
			}
		}
		// the oracle: what a reference walk with the command's configuration loads
		var trace Val = VL{VL{}, VN(0)}
		if rootKnown {
			if ver == 2 {
				w, ok := refGetDagV2(store, effRoot, spec.node(), !hasSel, strict)
				trace = traceVal(w, ok)
			} else {
				tc := &travCase{roots: []cid.Cid{effRoot}, sels: []selSpec{spec}, opts: travOpts{dups: hasSel}}
				tr := refWalkDags(store, tc).(VL)[0].(VL)
				ls := VL{}
				for _, l := range tr[0].(VL) {
					ls = append(ls, VL{l.(VL)[0], l.(VL)[1]})
				}
				trace = VL{ls, tr[1]}
			}
		}
		expect := VL{}
		if rootKnown {
			expect = VL{VB(effRoot.Bytes())}
		}
		outOld := c19PreOut(c, r, len(a.file), a.file)
		nloads := len(trace.(VL)[0].(VL))
		emitCli(c, "getdag", VL{VN(ver), rootArg, selJSON, vbool(strict), trace}, VL{VB(a.file), outOld}, expect, rootKnown && nloads >= 2)
		c.Count("getdag:version-" + string(rune('0'+ver)))
	}
	if r.Chance(15) { // an unsupported version: refused before the output is touched
		emitCli(c, "getdag", VL{VN(3), VB(root.c.Bytes()), VT("none"), VN(0), VL{VL{}, VN(0)}}, VL{VB(a.file), VT("none")}, VL{}, false)
	}
	_ = context.Background
}

// visitOnceSensitive: does the set of blocks the --version 2 walk loads depend on LinkVisitOnlyOnce?
// (a block linked twice, reached first where the selector stops at it and later where its children
// are still selected)
func visitOnceSensitive(store map[string][]byte, root cid.Cid, spec selSpec) bool {
	set := func(w *walkLog) map[string]bool {
		m := map[string]bool{}
		for _, l := range w.loads {
			m[string(l.cid)] = true
		}
		return m
	}
	w1, _ := refGetDagV2(store, root, spec.node(), true, false)
	w2, _ := refGetDagV2(store, root, spec.node(), false, false)
	return len(set(w1)) != len(set(w2))
}

// cborLinks: a dag-cbor list of links, in the given order
func cborLinks(r *RNG, level int, kids []*dnode) *dnode {
	nd := &dnode{level: level}
	n, err := qp.BuildList(basicnode.Prototype.Any, int64(len(kids)), func(la datamodel.ListAssembler) {
		for i, k := range kids {
			qp.ListEntry(la, qp.Link(cidlink.Link{Cid: k.c}))
			nd.edges = append(nd.edges, dedge{[]string{string(rune('0' + i))}, k})
		}
	})
	if err != nil {
		panic(err)
	}
	nd.data = encCbor(n)
	nd.c = travCid(r, cid.DagCBOR, nd.data)
	return nd
}

// c19GetDagShared: a DAG whose root links first to a long path down to a block M and then directly to
// M, with a subtree below M; depth-limited selectors chosen (when one exists) so that the deep visit of
// M stops at M while the shallow one still selects M's children -- `car get-dag` must then load M twice.
func c19GetDagShared(c *Ctx, r *RNG) {
	hops := 1 + r.Intn(3)
	height := 1 + r.Intn(3)
	var nodes []*dnode
	cur := genLeaf(r, false)
	for cur.c.Prefix().MhType == mh.IDENTITY {
		cur = genLeaf(r, false)
	}
	nodes = append(nodes, cur)
	for i := 1; i <= height; i++ {
		kids := []*dnode{cur}
		if r.Chance(40) {
			l := genLeaf(r, false)
			nodes = append(nodes, l)
			kids = append(kids, l)
		}
		cur = cborLinks(r, i, kids)
		nodes = append(nodes, cur)
	}
	m := cur
	deep := m
	for i := 0; i < hops; i++ {
		deep = cborLinks(r, height+1+i, []*dnode{deep})
		nodes = append(nodes, deep)
	}
	kids := []*dnode{deep, m}
	if r.Chance(25) {
		kids = []*dnode{m, deep} // shallow first: visit-once is harmless here
	}
	root := cborLinks(r, height+hops+1, kids)
	nodes = append(nodes, root)
	store := map[string][]byte{}
	var blks []Blk
	seen := map[string]bool{}
	for _, i := range permIdx(r, len(nodes)) {
		n := nodes[i]
		if n.c.Prefix().MhType == mh.IDENTITY {
			store[n.c.KeyString()] = n.data
			continue
		}
		if seen[n.c.KeyString()] {
			continue
		}
		seen[n.c.KeyString()] = true
		blks = append(blks, Blk{n.c, n.data})
		store[n.c.KeyString()] = n.data
	}
	var a Arch
	a.blks, a.roots = blks, []cid.Cid{root.c}
	a.payload = refPayload(a.roots, blks)
	a.ver, a.file = 1, a.payload
	if r.Bool() {
		a.ver = 2
		a.file = buildV2(a.payload, 0, 0, uint64(pick(r, []int{0, 3})), false)
	}
	var cand []selSpec
	for d := 1; d <= 2*(hops+height)+4; d++ {
		sp := selSpec{kind: 1, depth: uint64(d)}
		if visitOnceSensitive(store, root.c, sp) {
			cand = append(cand, sp)
		}
	}
	spec := selSpec{kind: 1, depth: uint64(1 + r.Intn(2*(hops+height)+4))}
	if len(cand) > 0 {
		spec = pick(r, cand)
		c.Count("getdag:visit-once-sensitive")
	}
	var buf bytes.Buffer
	if err := dagjson.Encode(spec.node(), &buf); err != nil {
		panic(err)
	}
	for _, ver := range []uint64{2, 1} {
		var trace Val
		if ver == 2 {
			w, ok := refGetDagV2(store, root.c, spec.node(), false, false)
			trace = traceVal(w, ok)
		} else {
			tc := &travCase{roots: []cid.Cid{root.c}, sels: []selSpec{spec}, opts: travOpts{dups: true}}
			tr := refWalkDags(store, tc).(VL)[0].(VL)
			ls := VL{}
			for _, l := range tr[0].(VL) {
				ls = append(ls, VL{l.(VL)[0], l.(VL)[1]})
			}
			trace = VL{ls, tr[1]}
		}
		emitCli(c, "getdag", VL{VN(ver), VB(root.c.Bytes()), VB(buf.Bytes()), VN(0), trace}, VL{VB(a.file), VT("none")}, VL{VB(root.c.Bytes())}, true)
		c.Count("getdag:version-" + string(rune('0'+ver)))
		c.Count("getdag:shared-block-two-depths")
	}
}

// c19OutIndep: the commands the C19 model does not cover (create, extract: C17/C18; debug, compile), only
// for "the result does not depend on what was at the output path" (see runOutIndep)
func c19OutIndep(c *Ctx, r *RNG, a Arch) {
	tree := VL{}
	for i, n := 0, 1+r.Intn(3); i < n; i++ {
		tree = append(tree, VL{VB([]byte("f" + string(rune('a'+i)) + ".bin")), VB(r.Bytes(r.Intn(600)))})
	}
	emitCli(c, "outindep", VL{VT("create"), VN(uint64(1 + r.Intn(2))), tree}, VL{}, VL{VN(1)}, true)
	emitCli(c, "outindep", VL{VT("extract"), tree}, VL{}, VL{VN(1)}, true)
	// debug / compile need decodable blocks: a small dag-cbor / raw archive
	g := genDag(r, 2, 1, false)
	var blks []Blk
	seen := map[string]bool{}
	for _, nd := range g.nodes {
		if !seen[nd.c.KeyString()] && nd.c.Prefix().MhType != mh.IDENTITY {
			seen[nd.c.KeyString()] = true
			blks = append(blks, Blk{nd.c, nd.data})
		}
	}
	car := refPayload([]cid.Cid{g.tops[0].c}, blks)
	emitCli(c, "outindep", VL{VT("debug"), VB(car)}, VL{}, VL{VN(1)}, true)
	emitCli(c, "outindep", VL{VT("compile"), VB(car)}, VL{}, VL{VN(1)}, true)
	_ = a
}

// c19ListUnixfs: a generated UnixFS tree (files as raw leaves / dag-pb files / chunked files, symlinks,
// basic and HAMT directories, nesting, optionally a missing block), built into a CARv1 by the C17/C18
// DAG assembler (k_cli.go dagStore), listed with `car list --unixfs` / `--unixfs-blocks`.
func c19ListUnixfs(c *Ctx, r *RNG) {
	var gen func(depth int) Val
	nameOf := func(i int) []byte {
		return []byte(pick(r, []string{"a", "file", "x.txt", "Dir", "ünï", "z_9"}) + string(rune('0'+i)))
	}
	gen = func(depth int) Val {
		switch k := r.Intn(10); {
		case depth > 0 && k < 4:
			n := r.Intn(4)
			ents := VL{}
			for i := 0; i < n; i++ {
				ents = append(ents, VL{VB(nameOf(i)), gen(depth - 1), VN(1)})
			}
			form := uint64(0)
			if r.Chance(30) && n > 0 {
				form = 1
			}
			return VL{VT("d"), ents, VN(form), VN(0)}
		case k == 4:
			return VL{VT("l"), VB([]byte("target/" + string(rune('a'+r.Intn(26))))), VN(0)}
		case k == 5 && r.Chance(25):
			c.Count("listunixfs:missing-block")
			return VL{VT("m"), VB(r.Bytes(4))}
		default:
			form := pick(r, []int{0, 0, 1, 2, 3, 4})
			return VL{VT("f"), VB(r.Bytes(r.Intn(120))), VN(uint64(form)), VN(uint64(1 + r.Intn(3))), VN(0)}
		}
	}
	nroots := 1
	if r.Chance(20) {
		nroots = 2
	}
	vals, views := VL{}, VL{}
	for i := 0; i < nroots; i++ {
		n := 1 + r.Intn(4)
		ents := VL{}
		for j := 0; j < n; j++ {
			ents = append(ents, VL{VB(nameOf(j)), gen(2), VN(1)})
		}
		var v Val = VL{VT("d"), ents, VN(uint64(pick(r, []int{0, 0, 1}))), VN(0)}
		if r.Chance(12) {
			v = VL{VT("f"), VB(r.Bytes(20)), VN(0), VN(1), VN(0)} // a raw root: nothing is listed
			views = append(views, VL{VT("raw")})
		} else {
			views = append(views, VL{VT("node"), modelView(v)})
		}
		vals = append(vals, v)
	}
	obs := emitCli(c, "listunixfs", VL{VN(uint64(r.Intn(2))), vals, views}, VL{}, VL{VN(1)}, true)
	_ = obs
	c.Count("listunixfs:trees")
}

// c19DebugCompile: car debug then car compile over a CARv1 of decodable blocks (a generated DAG)
func c19DebugCompile(c *Ctx, r *RNG) {
	g := genDag(r, 1+r.Intn(3), 1, false)
	var blks []Blk
	seen := map[string]bool{}
	for _, i := range permIdx(r, len(g.nodes)) {
		nd := g.nodes[i]
		if seen[nd.c.KeyString()] && !r.Chance(30) { // sometimes the same section twice
			continue
		}
		seen[nd.c.KeyString()] = true
		blks = append(blks, Blk{nd.c, nd.data})
	}
	var a Arch
	a.blks, a.roots, a.ver = blks, []cid.Cid{g.tops[0].c}, 1
	if r.Chance(25) {
		a.roots = append(a.roots, g.nodes[0].c)
	}
	a.payload = refPayload(a.roots, blks)
	a.file = a.payload
	emitCli(c, "debugcompile", VL{VN(uint64(r.Intn(2)))}, fvals(a), VL{a.desc()}, true)
	c.Count("debugcompile:archives")
	for k := 0; k < 2; k++ { // the same archive through a damaged patch: robustness only
		emitCli(c, "compilebad", VL{VN(uint64(r.Intn(6))), VN(uint64(r.Intn(1 << 20)))}, fvals(a), VL{VN(1)}, true)
	}
}

func permIdx(r *RNG, n int) []int {
	p := make([]int, n)
	for i := range p {
		p[i] = i
	}
	for i := n - 1; i > 0; i-- {
		j := r.Intn(i + 1)
		p[i], p[j] = p[j], p[i]
	}
	return p
}

// malformed stream: only model = implementation is compared (expect is empty)
func c19Malformed(c *Ctx, r *RNG, a Arch, kind int) {
	if len(a.blks) == 0 {
		return
	}
	var f []byte
	corrupt := false
	switch kind % 3 {
	case 0: // cut somewhere after the CARv1 header
		base := len(a.file) - len(a.payload)
		if a.idxKind != 0 {
			base = 51 + int(a.dpad)
		}
		hdr := len(refPayload(a.roots, nil))
		lo := base + hdr
		hi := base + len(a.payload)
		if hi <= lo {
			return
		}
		f = append([]byte(nil), a.file[:lo+r.Intn(hi-lo)]...)
		c.Count("malformed:truncated")
	case 1: // a data byte flipped: the block no longer hashes to its CID
		g := append([]byte(nil), a.file...)
		base := 0
		if a.ver == 2 {
			base = 51 + int(a.dpad)
		}
		lay := payloadLayout(nil, a.payload, a.blks, len(refPayload(a.roots, nil)))
		i := r.Intn(len(a.blks))
		if lay.secEnd[i] == lay.dataStart[i] {
			return
		}
		g[base+lay.dataStart[i]+r.Intn(lay.secEnd[i]-lay.dataStart[i])] ^= 0x01
		f = g
		corrupt = true
		c.Count("malformed:hash-mismatch")
	default: // null padding after the payload of a CARv1
		if a.ver != 1 {
			return
		}
		f = append(append([]byte(nil), a.file...), make([]byte, 1+r.Intn(3))...)
		c.Count("malformed:null-padded-v1")
	}
	files := VL{VB(f)}
	if corrupt {
		emitCli(c, "list", VL{VN(0), VN(0), VN(1)}, files, VL{a.desc()}, true)
		emitCli(c, "list", VL{VN(1), VN(0), VN(1)}, files, VL{a.desc()}, true)
	}
	emitCli(c, "list", VL{}, files, VL{}, false)
	emitCli(c, "root", VL{}, files, VL{}, false)
	emitCli(c, "inspect", VL{VN(1)}, files, VL{}, false)
	emitCli(c, "inspect", VL{VN(0)}, files, VL{}, false)
	emitCli(c, "verify", VL{}, files, VL{}, false)
	emitCli(c, "index", VL{VN(3), VN(2)}, files, VL{}, false)
	emitCli(c, "index", VL{VN(1), VN(2)}, files, VL{}, false)
	emitCli(c, "indexcreate", VL{VN(0)}, files, VL{}, false)
	emitCli(c, "getblock", VL{VB(pick(r, a.blks).Cid.Bytes())}, files, VL{}, false)
	emitCli(c, "filter", VL{c19GenSel(c, r, a, a), VN(0), VN(2), VN(0)}, VL{VB(f), VT("none")}, VL{}, false)
	emitCli(c, "concat", VL{VN(1)}, VL{VB(f), VB(a.file)}, VL{}, false)
}

// c19Examples replays the instance of coq/proofs/CliExamples.v (blocks "a" (raw, sha2-256), "id" (raw,
// identity), "bc" (dag-cbor, sha2-256), "a" again; root = the first CID; as a CARv1 and as an
// index-less CARv2 with 7 bytes of data padding) through the commands the Examples are about.
func c19Examples(c *Ctx) {
	b1 := Blk{mkCid(1, 0x55, mh.SHA2_256, -1, []byte("a")), []byte("a")}
	bi := Blk{mkCid(1, 0x55, mh.IDENTITY, -1, []byte("id")), []byte("id")}
	b2 := Blk{mkCid(1, 0x71, mh.SHA2_256, -1, []byte("bc")), []byte("bc")}
	mk := func(roots []cid.Cid, v2 bool) Arch {
		a := Arch{roots: roots, blks: []Blk{b1, bi, b2, b1}, ver: 1}
		a.payload = refPayload(a.roots, a.blks)
		a.file = a.payload
		if v2 {
			a.ver, a.dpad = 2, 7
			a.file = buildV2(a.payload, 7, 0, 0, false)
		}
		return a
	}
	v1 := mk([]cid.Cid{b1.Cid}, false)
	v2 := mk([]cid.Cid{b1.Cid}, true)
	rootless := mk([]cid.Cid{}, false)
	ex := VL{v1.desc()}
	sel := VL{VB(b1.Cid.Bytes()), VB(bi.Cid.Bytes())}
	none := VT("none")
	emitCli(c, "list", VL{}, fvals(v2), ex, true)
	emitCli(c, "root", VL{}, fvals(v2), ex, true)
	emitCli(c, "filter", VL{sel, VN(0), VN(1), VN(0)}, VL{VB(v2.file), none}, ex, true)
	emitCli(c, "filter", VL{sel, VN(0), VN(2), VN(0)}, VL{VB(v1.file), VB(v2.file)}, ex, true)
	o := emitCli(c, "index", VL{VN(0), VN(2)}, fvals(v1), ex, true)
	emitCli(c, "indexcreate", VL{VN(0)}, fvals(v1), ex, true)
	if f, ok := o.(VL)[1].(VB); ok {
		emitCli(c, "indexcreate", VL{VN(0)}, VL{f}, ex, true)
		emitCli(c, "detach", VL{}, VL{f}, VL{v1.desc(), VN(3), VN(0)}, true)
	}
	emitCli(c, "index", VL{VN(2), VN(2)}, fvals(v2), ex, true)
	emitCli(c, "index", VL{VN(1), VN(2)}, fvals(v2), ex, true)
	emitCli(c, "index", VL{VN(0), VN(1)}, fvals(v2), ex, true)
	emitCli(c, "index", VL{VN(2), VN(1)}, fvals(v2), VL{}, false)
	emitCli(c, "detach", VL{}, fvals(v1), VL{}, false)
	emitCli(c, "detach", VL{}, fvals(v2), VL{}, false)
	emitCli(c, "concat", VL{VN(1)}, fvals(v2, v1), VL{v2.desc(), v1.desc()}, true)
	emitCli(c, "concat", VL{VN(2)}, fvals(v2, v1), VL{v2.desc(), v1.desc()}, true)
	emitCli(c, "concat", VL{VN(1)}, fvals(v1, rootless), VL{}, false)
	emitCli(c, "verify", VL{}, fvals(rootless), VL{}, false)
	emitCli(c, "getblock", VL{VB(b2.Cid.Bytes())}, fvals(v2), ex, true)
	emitCli(c, "getblock", VL{VB(bi.Cid.Bytes())}, fvals(v2), ex, true)
	emitCli(c, "getblock", VL{VB(mkCid(1, 0x55, mh.SHA2_256, -1, []byte("absent")).Bytes())}, fvals(v2), ex, true)
	out0 := buildV2(v1.payload, 0, 0, 0, false)
	emitCli(c, "filter", VL{VL{VB(b2.Cid.Bytes()), VB(bi.Cid.Bytes())}, VN(0), VN(2), VN(1)}, VL{VB(v2.file), VB(out0)}, VL{v2.desc(), v1.desc()}, true)
	c.Count("examples:theorem-instance")
	c19ExampleDag(c)
	// round 6 (CliExamples.v ex_list_stdin_v1, ex_list_stdin_v2_refused, ex_ulist, ex_ulist_missing)
	emitCli(c, "list", VL{VN(1), VN(0)}, fvals(v1), ex, true)
	emitCli(c, "list", VL{VN(1), VN(0)}, fvals(v2), VL{v2.desc()}, true)
	emitCli(c, "root", VL{VN(1)}, fvals(v1), ex, true)
	emitCli(c, "root", VL{VN(1)}, fvals(v2), VL{v2.desc()}, true)
	file := func(d string) Val { return VL{VT("f"), VB([]byte(d)), VN(0), VN(1), VN(0)} }
	dir := func(ents ...Val) Val { return VL{VT("d"), VL(ents), VN(0), VN(0)} }
	ent := func(n string, v Val) Val { return VL{VB([]byte(n)), v, VN(1)} }
	t1 := dir(ent("a", file("1")), ent("d", dir(ent("b", VL{VT("l"), VB([]byte("a")), VN(0)}), ent("c", file("")))), ent("e", dir()))
	rawRoot := file("raw root")
	emitCli(c, "listunixfs", VL{VN(0), VL{rawRoot, t1}, VL{VL{VT("raw")}, VL{VT("node"), modelView(t1)}}}, VL{}, VL{VN(1)}, true)
	t2 := dir(ent("a", file("")), ent("b", VL{VT("m"), VB([]byte("gone"))}), ent("c", file("")))
	emitCli(c, "listunixfs", VL{VN(0), VL{t2}, VL{VL{VT("node"), modelView(t2)}}}, VL{}, VL{VN(1)}, true)
	// the two defects fixed in round 6: an empty raw block through debug | compile (C19-compile-empty-raw-block),
	// list --verbose over a dag-pb node without a Data field (C19-list-verbose-no-data-panic)
	e0 := Blk{mkCid(1, 0x55, mh.SHA2_256, -1, []byte{}), []byte{}}
	pb0 := Blk{mkCid(1, 0x70, mh.SHA2_256, -1, []byte{}), []byte{}}
	w := Arch{roots: []cid.Cid{b1.Cid}, blks: []Blk{e0, b1, pb0}, ver: 1}
	w.payload = refPayload(w.roots, w.blks)
	w.file = w.payload
	emitCli(c, "debugcompile", VL{}, fvals(w), VL{w.desc()}, true)
	emitCli(c, "list", VL{VN(0), VN(1)}, fvals(w), VL{w.desc()}, true)
}

// c19ExampleDag: R = [X, M], X = [M], M = [L] (dag-cbor lists of links, sha2-256) with the depth-limited
// selector of depth 3: the walk reaches M first through X, where the limit stops it, and then directly,
// from where L is still selected -- both versions of `car get-dag` must deliver R X M L.
func c19ExampleDag(c *Ctx) {
	mk := func(n datamodel.Node) *dnode {
		d := encCbor(n)
		return &dnode{c: mkCid(1, cid.DagCBOR, mh.SHA2_256, -1, d), data: d}
	}
	list := func(kids ...*dnode) *dnode {
		n, err := qp.BuildList(basicnode.Prototype.Any, int64(len(kids)), func(la datamodel.ListAssembler) {
			for _, k := range kids {
				qp.ListEntry(la, qp.Link(cidlink.Link{Cid: k.c}))
			}
		})
		if err != nil {
			panic(err)
		}
		return mk(n)
	}
	leaf := mk(basicnode.NewString("leaf"))
	mid := list(leaf)
	deep := list(mid)
	root := list(deep, mid)
	store := map[string][]byte{}
	var blks []Blk
	for _, n := range []*dnode{root, deep, mid, leaf} {
		blks = append(blks, Blk{n.c, n.data})
		store[n.c.KeyString()] = n.data
	}
	payload := refPayload([]cid.Cid{root.c}, blks)
	file := buildV2(payload, 0, 0, 3, false)
	spec := selSpec{kind: 1, depth: 3}
	var buf bytes.Buffer
	if err := dagjson.Encode(spec.node(), &buf); err != nil {
		panic(err)
	}
	w, ok := refGetDagV2(store, root.c, spec.node(), false, false)
	emitCli(c, "getdag", VL{VN(2), VT("none"), VB(buf.Bytes()), VN(0), traceVal(w, ok)}, VL{VB(file), VT("none")}, VL{VB(root.c.Bytes())}, true)
	tc := &travCase{roots: []cid.Cid{root.c}, sels: []selSpec{spec}, opts: travOpts{dups: true}}
	tr := refWalkDags(store, tc).(VL)[0].(VL)
	ls := VL{}
	for _, l := range tr[0].(VL) {
		ls = append(ls, VL{l.(VL)[0], l.(VL)[1]})
	}
	emitCli(c, "getdag", VL{VN(1), VB(root.c.Bytes()), VB(buf.Bytes()), VN(0), VL{ls, tr[1]}}, VL{VB(file), VT("none")}, VL{VB(root.c.Bytes())}, true)
	c.Count("examples:get-dag-shared-block")
}

func init() {
	register("c19", func(c *Ctx) {
		c19Examples(c)
		n := 28 * c.Scale
		maxBlocks := 9 // buckets stay below sort.Sort's insertion-sort threshold (stable), see notes/design/C19.md
		archs := make([]Arch, n)
		for i := range archs {
			archs[i] = genArch(c, c.R.Fork(), maxBlocks, true)
		}
		for i, a := range archs {
			r := c.R.Fork()
			c19Archive(c, r, a, archs[(i+1)%n], archs[(i+2)%n])
			if i%5 == 0 {
				c19Malformed(c, r, a, 1+i/5) // every kind in turn, the hash mismatch first
			}
		}
		for i := 0; i < 12*c.Scale; i++ {
			c19GetDag(c, c.R.Fork())
		}
		for i := 0; i < 5*c.Scale; i++ {
			c19GetDagShared(c, c.R.Fork())
		}
		for i := 0; i < 2*c.Scale; i++ {
			c19OutIndep(c, c.R.Fork(), archs[i%n])
		}
		for i := 0; i < 8*c.Scale; i++ {
			c19ListUnixfs(c, c.R.Fork())
		}
		for i := 0; i < 5*c.Scale; i++ {
			c19DebugCompile(c, c.R.Fork())
		}
		if c.Thorough {
			m := 12
			c19BigBudget = 1
			large := make([]Arch, m)
			for i := range large {
				large[i] = genArch(c, c.R.Fork(), 40, true)
			}
			for i, a := range large {
				c19Archive(c, c.R.Fork(), a, large[(i+1)%m], archs[i%n])
			}
		}
	})
}
