package main

import (
	"context"
	"io"
	"os"
	"path/filepath"

	"github.com/ipfs/go-cid"
	carv2 "github.com/ipld/go-car/v2"
	"github.com/ipld/go-car/v2/storage"
	"github.com/ipld/go-car/v2/storage/deferred"
	"github.com/ipld/go-ipld-prime/linking"
	cidlink "github.com/ipld/go-ipld-prime/linking/cid"

)

// an open writer + committer obtained from DeferredCarWriter.BlockWriteOpener(); buf mirrors what was
// written so that the direct writer can be fed the same block when the commit performs its Put
type openerHandle struct {
	w      io.Writer
	commit linking.BlockWriteCommitter
	buf    []byte
	used   bool
}

// kind "deferred": histories on a deferred.DeferredCarWriter (wire format: coq/theories/RunMap.v).
// target 0 = NewDeferredCarWriterForPath, 1 = NewDeferredCarWriterForStream.  Next to it runs a DIRECT
// storage.NewWritable writer on a target of the same kind (file opened with the flags the deferred
// writer uses / a bytes.Buffer), created at the first Put that is not refused as closed and fed the same
// Puts; Finalize at Close.

// v2NoV1: the option list without WriteAsCarV1 (so that the constructors' defaults apply)
func (o wOpts) v2Given(v1Given bool) []carv2.Option {
	all := o.v2()
	if v1Given {
		return all
	}
	out := []carv2.Option{}
	for i, op := range all {
		if i == 8 { // WriteAsCarV1 is the 9th option in wOpts.v2()
			continue
		}
		out = append(out, op)
	}
	return out
}

type directWriter struct {
	target uint64
	path   string
	f      *os.File
	buf    *faultStream
	w      storage.WritableCar
}

func (d *directWriter) bytes() []byte {
	if d == nil {
		return nil
	}
	if d.target == 1 {
		return append([]byte(nil), d.buf.buf.Bytes()...)
	}
	b, _ := os.ReadFile(d.path)
	return b
}

// pre: nil = nothing at the output path; otherwise a file with these bytes (possibly none) is there
// before the writer is constructed (path target only)
// faults: write-fault script of the output target (stream targets only: the path target opens its own
// *os.File, which cannot be interposed without a library hook); the direct writer's stream gets a copy
// dKids: re-entrant registration: the callback with id k, when it fires, calls dcw.OnPut for each listed
// (id, once) callback -- from inside the running Put
type dKid struct {
	id   uint64
	once bool
}

var dKids map[uint64][]dKid // set by the producer / replayer around runDeferredImpl (single-threaded)

func runDeferredImpl(work string, target uint64, v1Given bool, o wOpts, roots []cid.Cid, ops VL, pre []byte, faults []int) Val {
	ctx := context.Background()
	dir, err := os.MkdirTemp(work, "df")
	if err != nil {
		panic(err)
	}
	defer os.RemoveAll(dir)
	path := filepath.Join(dir, "out.car")
	dpath := filepath.Join(dir, "direct.car")
	stream := &faultStream{faults: append([]int(nil), faults...)}
	if target == 0 && pre != nil {
		if err := os.WriteFile(path, pre, 0o644); err != nil {
			panic(err)
		}
	}
	opts := o.v2Given(v1Given)
	var dcw *deferred.DeferredCarWriter
	if target == 0 {
		dcw = deferred.NewDeferredCarWriterForPath(path, roots, opts...)
	} else {
		dcw = deferred.NewDeferredCarWriterForStream(stream, roots, opts...)
	}
	// the direct writer gets exactly the effective option list of the deferred constructors
	dopts := opts
	if target == 1 {
		dopts = append([]carv2.Option{carv2.WriteAsCarV1(true)}, opts...)
	}
	var direct *directWriter
	handles := map[uint64]*openerHandle{}
	sharedOpener := dcw.BlockWriteOpener()
	closed := false
	var log VL
	obs := VL{}
	for _, opv := range ops {
		op := opv.(VL)
		tag := string(op[0].(VT))
		log = VL{}
		var out Val
		switch tag {
		case "onput":
			id := uint64(op[1].(VN))
			var mk func(id uint64) func(int)
			mk = func(id uint64) func(int) {
				return func(n int) {
					log = append(log, VL{VN(id), VN(uint64(n))})
					for _, kd := range dKids[id] {
						dcw.OnPut(mk(kd.id), kd.once)
					}
				}
			}
			dcw.OnPut(mk(id), uint64(op[2].(VN)) != 0)
			out = outNil()
		case "has":
			has, err := dcw.Has(ctx, string([]byte(op[1].(VB))))
			if err != nil {
				out = outErr(err)
			} else {
				out = VL{VT("bool"), vbool(has)}
			}
		case "open":
			// writers named below 100 come from ONE opener value obtained once per deferred writer (what
			// LinkSystem.StorageWriteOpener = dcw.BlockWriteOpener() does: several blocks can be in flight
			// through it); names from 100 on obtain a fresh opener for each open
			op1 := sharedOpener
			if uint64(op[1].(VN)) >= 100 {
				op1 = dcw.BlockWriteOpener()
			}
			w, commit, err := op1(linking.LinkContext{Ctx: ctx})
			if err == nil {
				handles[uint64(op[1].(VN))] = &openerHandle{w: w, commit: commit}
			}
			out = outOf(err)
		case "write":
			h := handles[uint64(op[1].(VN))]
			data := []byte(op[2].(VB))
			_, err := h.w.Write(data)
			h.buf = append(h.buf, data...)
			out = outOf(err)
		case "put", "commit":
			var key string
			var data []byte
			if tag == "put" {
				key, data = string([]byte(op[1].(VB))), []byte(op[2].(VB))
				out = outOf(dcw.Put(ctx, key, data))
			} else {
				h := handles[uint64(op[1].(VN))]
				_, c, err := cid.CidFromBytes([]byte(op[2].(VB)))
				if err != nil {
					panic(err)
				}
				key, data = string(c.Bytes()), append([]byte(nil), h.buf...)
				out = outOf(h.commit(cidlink.Link{Cid: c}))
				if h.used {
					break // a used committer performs no Put
				}
				h.used = true
			}
			if !closed {
				if direct == nil {
					d := &directWriter{target: target, path: dpath, buf: &faultStream{faults: append([]int(nil), faults...)}}
					var w storage.WritableCar
					var err error
					if target == 0 {
						d.f, err = os.OpenFile(dpath, os.O_CREATE|os.O_TRUNC|os.O_WRONLY, 0o644)
						if err != nil {
							panic(err)
						}
						w, err = storage.NewWritable(d.f, roots, dopts...)
					} else {
						w, err = storage.NewWritable(d.buf, roots, dopts...)
					}
					if err == nil {
						d.w = w
						direct = d
					} else if d.f != nil {
						d.f.Close()
					}
				}
				if direct != nil {
					direct.w.Put(ctx, key, data)
				}
			}
		case "close":
			out = outOf(dcw.Close())
			if !closed && direct != nil {
				direct.w.Finalize()
			}
			closed = true
		default:
			panic("unknown deferred op " + tag)
		}
		var cur []byte
		exists := false
		if target == 0 {
			if b, err := os.ReadFile(path); err == nil {
				cur, exists = b, true
			}
		} else {
			cur = append([]byte(nil), stream.buf.Bytes()...)
		}
		obs = append(obs, VL{out, log, VB(cur), vbool(exists), VB(direct.bytes())})
	}
	if direct != nil && direct.f != nil {
		direct.f.Close()
	}
	if !closed {
		dcw.Close()
	}
	return obs
}

func deferredInput(target uint64, v1Given bool, o wOpts, roots []cid.Cid, ops VL, pre []byte, faults []int) Val {
	var rv Val = cidsVal(roots)
	if roots == nil {
		rv = VT("nil")
	}
	var pv Val = VT("none")
	if pre != nil {
		pv = VB(pre)
	}
	fv := VL{}
	for _, k := range faults {
		if k < 0 {
			fv = append(fv, VN(0))
		} else {
			fv = append(fv, VL{VN(uint64(k))})
		}
	}
	kv := VL{}
	for _, id := range []uint64{1, 2, 5, 8} { // fixed order
		if l, ok := dKids[id]; ok {
			e := VL{}
			for _, kd := range l {
				e = append(e, VL{VN(kd.id), vbool(kd.once)})
			}
			kv = append(kv, VL{VN(id), e})
		}
	}
	return VL{VN(target), vbool(v1Given), o.val(), rv, ops, pv, fv, kv}
}

func init() {
	registerReplay("deferred", func(c *Ctx, in Val) Val {
		l := in.(VL)
		var pre []byte
		if len(l) > 5 {
			if b, ok := l[5].(VB); ok {
				pre = append([]byte{}, b...)
			}
		}
		var faults []int
		if len(l) > 6 {
			faults = faultsFromVal(l[6])
		}
		dKids = nil
		if len(l) > 7 {
			dKids = map[uint64][]dKid{}
			for _, e := range l[7].(VL) {
				el := e.(VL)
				for _, x := range el[1].(VL) {
					xl := x.(VL)
					dKids[uint64(el[0].(VN))] = append(dKids[uint64(el[0].(VN))], dKid{uint64(xl[0].(VN)), uint64(xl[1].(VN)) != 0})
				}
			}
		}
		defer func() { dKids = nil }()
		return runDeferredImpl(c.Work, uint64(l[0].(VN)), uint64(l[1].(VN)) != 0, wOptsFromVal(l[2]), cidsFromVal(l[3]), l[4].(VL), pre, faults)
	})
}
