package main

import (
	"bytes"
	"encoding/binary"
	"errors"
	"fmt"
	"io"
	"sort"

	"github.com/ipfs/go-cid"
	"github.com/ipld/go-car/v2/index"
	"github.com/multiformats/go-multicodec"
	mh "github.com/multiformats/go-multihash"
	"github.com/multiformats/go-varint"
)

// Implementation drivers for the index kinds (theories/RunIndex.v):
//   idxser : (codec, records, permutations, queries, trailer)
//   idxread: (bytes, queries)

type idxRec struct {
	C   cid.Cid
	Off uint64
}

func recsVal(rs []idxRec) Val {
	out := VL{}
	for _, r := range rs {
		out = append(out, VL{VB(r.C.Bytes()), VN(r.Off)})
	}
	return out
}

func toRecords(rs []idxRec) []index.Record {
	out := make([]index.Record, len(rs))
	for i, r := range rs {
		out[i] = index.Record{Cid: r.C, Offset: r.Off}
	}
	return out
}

func offsVal(l []uint64) Val {
	out := VL{}
	for _, o := range l {
		out = append(out, VN(o))
	}
	return out
}

// getAll collects every offset GetAll reports; ErrNotFound is the empty list.
func getAll(idx index.Index, c cid.Cid) ([]uint64, error) {
	var out []uint64
	err := idx.GetAll(c, func(o uint64) bool { out = append(out, o); return true })
	if err != nil && errors.Is(err, index.ErrNotFound) {
		if len(out) != 0 {
			return out, fmt.Errorf("ErrNotFound after %d callbacks", len(out))
		}
		return nil, nil
	}
	if err == nil && len(out) == 0 {
		return nil, fmt.Errorf("nil error without callbacks")
	}
	return out, err
}

func getAllsVal(idx index.Index, qs []cid.Cid, sorted bool) Val {
	out := VL{}
	for _, q := range qs {
		l, err := getAll(idx, q)
		if err != nil {
			out = append(out, VL{VT("geterr"), VT(err.Error())})
			continue
		}
		if sorted {
			sort.Slice(l, func(i, j int) bool { return l[i] < l[j] })
		}
		out = append(out, offsVal(l))
	}
	return out
}

type mhEntry struct {
	mh  []byte
	off uint64
}

// foreachVal lists an iterable index; canon sorts every run of equal multihashes by offset
// (the order inside such a run is whatever sort.Sort left).
func foreachVal(idx index.Index, canon bool) Val {
	it, ok := idx.(index.IterableIndex)
	if !ok {
		return VL{}
	}
	var es []mhEntry
	err := it.ForEach(func(m mh.Multihash, off uint64) error {
		es = append(es, mhEntry{append([]byte(nil), m...), off})
		return nil
	})
	if err != nil {
		return VL{VT("foreacherr")}
	}
	if canon {
		for i := 0; i < len(es); {
			j := i
			for j < len(es) && bytes.Equal(es[j].mh, es[i].mh) {
				j++
			}
			run := es[i:j]
			sort.Slice(run, func(a, b int) bool { return run[a].off < run[b].off })
			i = j
		}
	}
	out := VL{}
	for _, e := range es {
		out = append(out, VL{VB(e.mh), VN(e.off)})
	}
	return out
}

func writeIndex(idx index.Index) ([]byte, uint64, error) {
	var buf bytes.Buffer
	n, err := index.WriteTo(idx, &buf)
	return buf.Bytes(), n, err
}

// ---- byte-level canonicalisation of a serialized index (independent of the library) ----------

func canonBuckets(p []byte, out *bytes.Buffer) ([]byte, error) {
	if len(p) < 4 {
		return nil, io.ErrUnexpectedEOF
	}
	count := int32(binary.LittleEndian.Uint32(p))
	out.Write(p[:4])
	p = p[4:]
	for i := int32(0); i < count; i++ {
		if len(p) < 12 {
			return nil, io.ErrUnexpectedEOF
		}
		width := int(binary.LittleEndian.Uint32(p))
		dlen := binary.LittleEndian.Uint64(p[4:])
		out.Write(p[:12])
		p = p[12:]
		if width < 8 || dlen > uint64(len(p)) || dlen%uint64(width) != 0 {
			return nil, fmt.Errorf("canon: bad bucket width=%d dlen=%d", width, dlen)
		}
		data := p[:dlen]
		p = p[dlen:]
		n := int(dlen) / width
		recs := make([][]byte, n)
		for k := 0; k < n; k++ {
			recs[k] = data[k*width : (k+1)*width]
		}
		sort.SliceStable(recs, func(a, b int) bool {
			c := bytes.Compare(recs[a][:width-8], recs[b][:width-8])
			if c != 0 {
				return c < 0
			}
			return binary.LittleEndian.Uint64(recs[a][width-8:]) < binary.LittleEndian.Uint64(recs[b][width-8:])
		})
		for _, r := range recs {
			out.Write(r)
		}
	}
	return p, nil
}

func canonIndexBytes(b []byte) ([]byte, error) {
	codec, n, err := varint.FromUvarint(b)
	if err != nil {
		return nil, err
	}
	var out bytes.Buffer
	out.Write(b[:n])
	p := b[n:]
	switch codec {
	case 0x0400:
		p, err = canonBuckets(p, &out)
		if err != nil {
			return nil, err
		}
	case 0x0401:
		if len(p) < 4 {
			return nil, io.ErrUnexpectedEOF
		}
		count := int32(binary.LittleEndian.Uint32(p))
		out.Write(p[:4])
		p = p[4:]
		for i := int32(0); i < count; i++ {
			if len(p) < 8 {
				return nil, io.ErrUnexpectedEOF
			}
			out.Write(p[:8])
			p, err = canonBuckets(p[8:], &out)
			if err != nil {
				return nil, err
			}
		}
	default:
		return nil, fmt.Errorf("canon: codec %x", codec)
	}
	if len(p) != 0 {
		return nil, fmt.Errorf("canon: %d trailing bytes", len(p))
	}
	return out.Bytes(), nil
}

// hasTies: do two records fall into one bucket with one digest?
func hasTies(codec uint64, rs []idxRec) bool {
	seen := map[string]bool{}
	for _, r := range rs {
		d, err := mh.Decode(r.C.Hash())
		if err != nil {
			panic(err)
		}
		k := string(d.Digest)
		if codec == 0x0401 {
			k = fmt.Sprintf("%x|", d.Code) + k
		}
		if seen[k] {
			return true
		}
		seen[k] = true
	}
	return false
}

// countingReader hides every optional interface and counts what was consumed.
type countingReader struct {
	r io.Reader
	n int
}

func (c *countingReader) Read(p []byte) (int, error) {
	n, err := c.r.Read(p)
	c.n += n
	return n, err
}

// readIndex = index.ReadFrom over either a *bytes.Reader or a plain reader; returns bytes left.
func readIndex(b []byte, plain bool) (idx index.Index, rest int, err error) {
	if plain {
		cr := &countingReader{r: bytes.NewReader(b)}
		idx, err = index.ReadFrom(cr)
		return idx, len(b) - cr.n, err
	}
	br := bytes.NewReader(b)
	idx, err = index.ReadFrom(br)
	return idx, br.Len(), err
}

func newIndex(codec uint64, rs []idxRec) (index.Index, error) {
	idx, err := index.New(multicodec.Code(codec))
	if err != nil {
		return nil, err
	}
	if err := idx.Load(toRecords(rs)); err != nil {
		return nil, err
	}
	return idx, nil
}

func canonOf(idx index.Index) Val {
	raw, _, err := writeIndex(idx)
	if err != nil {
		return VT("writeerr")
	}
	cb, err := canonIndexBytes(raw)
	if err != nil {
		return VL{VT("canonerr"), VT(err.Error())}
	}
	return VB(cb)
}

func runIdxSerImpl(codec uint64, rs []idxRec, perms [][]int, qs []cid.Cid, trailer []byte, plain bool) (obs Val) {
	defer func() {
		if r := recover(); r != nil {
			obs = VL{VT("PANIC")}
		}
	}()
	idx, err := newIndex(codec, rs)
	if err != nil {
		return VL{VT("badcodec")}
	}
	raw, reported, err := writeIndex(idx)
	if err != nil {
		return VL{VT("writeerr")}
	}
	canon := canonOf(idx)
	rawOut := VB(raw)
	if hasTies(codec, rs) {
		rawOut = VB(nil)
	}
	// read back what was written (+ trailer)
	var reread Val
	idx2, rest, err := readIndex(append(append([]byte(nil), raw...), trailer...), plain)
	if err != nil {
		reread = VL{VT("err"), verr(err)}
	} else {
		raw2, _, _ := writeIndex(idx2)
		same := VT("diff")
		if bytes.Equal(raw2, raw) {
			same = VT("same")
		}
		reread = VL{VT("ok"), VN(rest), same, foreachVal(idx2, true), getAllsVal(idx2, qs, true)}
	}
	// the same records loaded in other orders
	permOut := VL{}
	for _, p := range perms {
		prs := make([]idxRec, len(p))
		for i, k := range p {
			prs[i] = rs[k]
		}
		pi, err := newIndex(codec, prs)
		if err != nil {
			permOut = append(permOut, VT("badcodec"))
			continue
		}
		permOut = append(permOut, canonOf(pi))
	}
	// insertion index (what a writing session keeps) and its flattened form
	ii := index.NewInsertionIndex()
	for _, r := range rs {
		ii.InsertNoReplace(r.C, r.Off)
	}
	var flat Val
	fi, err := ii.Flatten(multicodec.Code(codec))
	if err != nil {
		flat = VT("badcodec")
	} else {
		flat = canonOf(fi)
	}
	iiList := VL{}
	ii.ForEachCid(func(c cid.Cid, off uint64) error {
		iiList = append(iiList, VL{VB(c.Bytes()), VN(off)})
		return nil
	})
	return VL{canon, rawOut, VN(reported), foreachVal(idx, true), getAllsVal(idx, qs, true), reread, permOut,
		VL{flat, getAllsVal(ii, qs, false), iiList}}
}

func runIdxReadImpl(b []byte, qs []cid.Cid, plain bool) (obs Val) {
	defer func() {
		if r := recover(); r != nil {
			obs = VL{VT("err"), VT("PANIC")}
		}
	}()
	idx, rest, err := readIndex(b, plain)
	if err != nil {
		return VL{VT("err"), verr(err)}
	}
	raw, reported, err := writeIndex(idx)
	if err != nil {
		return VL{VT("writeerr")}
	}
	return VL{VT("ok"), VN(rest), VB(raw), VN(reported), foreachVal(idx, false), getAllsVal(idx, qs, false)}
}

func cidsOfVal(v Val) []cid.Cid {
	var out []cid.Cid
	for _, x := range v.(VL) {
		c, err := cid.Cast([]byte(x.(VB)))
		if err != nil {
			panic(err)
		}
		out = append(out, c)
	}
	return out
}

func init() {
	registerReplay("idxser", func(c *Ctx, in Val) Val {
		l := in.(VL)
		var rs []idxRec
		for _, x := range l[1].(VL) {
			p := x.(VL)
			cc, err := cid.Cast([]byte(p[0].(VB)))
			if err != nil {
				panic(err)
			}
			rs = append(rs, idxRec{cc, uint64(p[1].(VN))})
		}
		var perms [][]int
		for _, x := range l[2].(VL) {
			var p []int
			for _, k := range x.(VL) {
				p = append(p, int(k.(VN)))
			}
			perms = append(perms, p)
		}
		return runIdxSerImpl(uint64(l[0].(VN)), rs, perms, cidsOfVal(l[3]), []byte(l[4].(VB)), false)
	})
	registerReplay("idxread", func(c *Ctx, in Val) Val {
		l := in.(VL)
		return runIdxReadImpl([]byte(l[0].(VB)), cidsOfVal(l[1]), false)
	})
}
