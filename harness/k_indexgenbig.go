package main

import (
	"sort"

	"github.com/ipfs/go-cid"
	carv2 "github.com/ipld/go-car/v2"
	"github.com/ipld/go-car/v2/index"
	"github.com/multiformats/go-multicodec"
)

// kind idxgenbig (theories/RunIndex.v): GenerateIndex / LoadIndex over an archive with tens of
// thousands of tiny sections.  Blocks follow a rule shared with the Coq side (gbig_blocks); the
// extracted code evaluates only the layer-B expectation for this kind.

type c03BigDesc struct {
	code uint64
	dl   int
	n    int
	ndup int
}

func (d c03BigDesc) val() Val {
	return VL{VN(d.code), VN(uint64(d.dl)), VN(uint64(d.n)), VN(uint64(d.ndup))}
}

func c03BigBlock(d c03BigDesc, i int) Blk {
	code := d.code
	if i%16 == 15 {
		code = 0
	}
	return Blk{c11RawCid(0x55, code, c11BigDigest(d.dl, uint64(i))), []byte{byte(i % 251)}}
}

func c03BigBlocks(d c03BigDesc) []Blk {
	bs := make([]Blk, 0, d.n+d.ndup)
	for i := 0; i < d.n; i++ {
		bs = append(bs, c03BigBlock(d, i))
	}
	for j := 0; j < d.ndup; j++ {
		bs = append(bs, c03BigBlock(d, (7*j)%d.n))
	}
	return bs
}

func runIdxGenBigImpl(c *Ctx, kind uint64, o gOpts, d c03BigDesc, codec uint64, samples []uint64, v2 bool) (obs Val) {
	defer func() {
		if r := recover(); r != nil {
			obs = VL{VT("err"), VT("PANIC")}
		}
	}()
	blks := c03BigBlocks(d)
	payload := refPayload(nil, blks)
	hlen := len(refPayload(nil, nil))
	file := payload
	if v2 {
		file = v2File(payload, make([]byte, 9), []byte{0x81, 0x08, 0, 0, 0, 0}, true)
	}
	src, cleanup, errObs := c03Source(c, kind, o, file)
	defer cleanup()
	if errObs != nil {
		return errObs
	}
	var idx index.Index
	entries := 0
	if codec == codecInsertion {
		ii := index.NewInsertionIndex()
		if err := carv2.LoadIndex(ii, src, o.v2()...); err != nil {
			return VL{VT("err"), verr(err)}
		}
		ii.ForEachCid(func(cid.Cid, uint64) error { entries++; return nil })
		idx = ii
	} else {
		gi, err := carv2.GenerateIndex(src, append(o.v2(), carv2.UseIndexCodec(multicodec.Code(codec)))...)
		if err != nil {
			return VL{VT("err"), verr(err)}
		}
		raw, _, err := writeIndex(gi)
		if err != nil {
			return VL{VT("err"), VT("writeerr")}
		}
		es, _ := c11BigStructure(raw)
		entries = len(es)
		idx = gi
	}
	// every indexed section must be found at its own offset under its own CID
	resolved := 0
	pos := hlen
	for _, b := range blks {
		off := uint64(pos)
		pos += uvarintLen(uint64(b.Cid.ByteLen()+len(b.Data))) + b.Cid.ByteLen() + len(b.Data)
		if !o.storeID && b.Cid.Prefix().MhType == 0 {
			continue
		}
		l, err := getAll(idx, b.Cid)
		if err != nil {
			continue
		}
		for _, x := range l {
			if x == off {
				resolved++
				break
			}
		}
	}
	var qs []cid.Cid
	for _, s := range samples {
		qs = append(qs, c03BigBlock(d, int(s)).Cid)
	}
	return VL{VT("ok"), VN(uint64(entries)), VN(uint64(resolved)), getAllsVal(idx, qs, true)}
}

func init() {
	registerReplay("idxgenbig", func(c *Ctx, in Val) Val {
		l := in.(VL)
		ol := l[1].(VL)
		o := gOpts{ol[0].(VN) != 0, uint64(ol[1].(VN)), ol[2].(VN) != 0, uint64(ol[3].(VN))}
		dl := l[2].(VL)
		d := c03BigDesc{uint64(dl[0].(VN)), int(dl[1].(VN)), int(dl[2].(VN)), int(dl[3].(VN))}
		var samples []uint64
		for _, s := range l[5].(VL) {
			samples = append(samples, uint64(s.(VN)))
		}
		return runIdxGenBigImpl(c, uint64(l[0].(VN)), o, d, uint64(l[4].(VN)), samples, l[6].(VN) != 0)
	})
}

var _ = sort.Ints
