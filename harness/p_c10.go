package main

import (
	"bytes"
	"encoding/binary"

	"github.com/ipfs/go-cid"
	carv2 "github.com/ipld/go-car/v2"
	mh "github.com/multiformats/go-multihash"
	"github.com/multiformats/go-varint"
)

// C10 producer: container transforms on real files.
//
// Per generated logical archive (roots, blocks):
//   xwrap     the CARv1 payload through WrapV1 (memory, options) and WrapV1File (absent
//             destination, existing destination, destination = source)
//   xextract  CARv2 containers around the payload (data padding, index padding, with and
//             without index, characteristics) x destination {absent, larger file, smaller
//             file, same path}
//   xrtrip    wrap then extract, three destination states
//   xreplace  CARv1 file and CARv2 container x replacement root lists of equal and different
//             encoded size
// plus a separately counted malformed stream (truncations, byte corruptions, hostile header
// fields, wrong versions, CARv2 as wrap source, null padding, lengths past the end of file).
//
// Non-trivial: a valid-input case with at least one block (wrap / rtrip), a container with
// padding or an existing destination or in-place (extract), a replacement that differs from
// the current roots (replace).

type xContainer struct {
	file  []byte
	doff  uint64
	dsize uint64
	label string
}

func buildContainer(r *RNG, payload, index []byte, dpad, ipad int, randomPad bool, hi uint64) xContainer {
	var buf bytes.Buffer
	buf.Write(carv2.Pragma)
	h := carv2.NewHeader(uint64(len(payload))).WithDataPadding(uint64(dpad)).WithIndexPadding(uint64(ipad))
	if index == nil {
		h.IndexOffset = 0
	}
	h.Characteristics.Hi = hi
	h.WriteTo(&buf)
	pad := make([]byte, dpad)
	if randomPad {
		pad = r.Bytes(dpad)
	}
	buf.Write(pad)
	buf.Write(payload)
	if index != nil {
		ip := make([]byte, ipad)
		if randomPad {
			ip = r.Bytes(ipad)
		}
		buf.Write(ip)
		buf.Write(index)
	}
	return xContainer{file: buf.Bytes(), doff: h.DataOffset, dsize: h.DataSize}
}

func setHdrField(file []byte, field int, v uint64) []byte {
	g := append([]byte{}, file...)
	if len(g) >= 51 {
		binary.LittleEndian.PutUint64(g[11+8*field:], v) // 0 hi, 1 lo, 2 doff, 3 dsize, 4 ioff
	}
	return g
}

func sameLenCid(r *RNG, c cid.Cid) cid.Cid {
	// another CID with the same prefix (hence the same byte length)
	p := c.Prefix()
	if p.MhType == mh.IDENTITY {
		dm, _ := mh.Decode(c.Hash())
		d := r.Bytes(len(dm.Digest))
		out, _ := p.Sum(d)
		return out
	}
	out, err := p.Sum(r.Bytes(8))
	if err != nil {
		return c
	}
	return out
}

func init() {
	register("c10", func(c *Ctx) {
		fileSeek := probeMaxSeek(c.Work)
		if fileSeek == memMaxSeek {
			c.Count("env:fs-maxseek=2^63-1")
		} else {
			c.Count("env:fs-maxseek<2^63-1")
		}
		// chunk size handed to the model's copy loop (the result is proved independent of it);
		// tiny chunks only on small files: the model rewrites the whole file per chunk
		chunkFor := func(r *RNG, n int) uint64 {
			c := pick(r, []uint64{1, 2, 7, 64, 4096, 32768, 1 << 40})
			lim := uint64(48)
			if n > 100000 {
				lim = 2
			}
			for uint64(n)/c > lim {
				c *= 8
			}
			return c
		}
		nArch := 20 * c.Scale
		// one archive with more sections than any batching inside LoadIndex could hold (> 2^14, and in
		// the thorough tier > 2^16), judged by layer B: every section resolvable through the index
		{
			r := c.R.Fork()
			ns := []int{16384 + 1 + r.Intn(700), 16384 + 1 + r.Intn(700)}
			if c.Thorough {
				ns = append(ns, 16384, 32768+r.Intn(50), 65536+1+r.Intn(500))
			}
			for k, n := range ns {
				o := defaultXOpts
				o.maxSeek = fileSeek
				o.storeID = r.Chance(30)
				o.codec = pick(r, []uint64{0, 0x0400, 0x0401})
				if k < 2 {
					o.codec = []uint64{0x0400, pick(r, []uint64{0, 0x0401})}[k] // both index kinds in every run
				}
				seed := r.U64() >> 1
				idEvery := pick(r, []int{0, 9, 50})
				in := VL{o.val(), VN(uint64(n)), VN(seed), VN(uint64(idEvery))}
				obs := runWrapManyImpl(c, o, n, seed, idEvery)
				c.Emit("xwrapmany", in, obs, true)
				c.Count("wrapmany:archives")
				c.CountN("wrapmany:sections", n)
			}
		}
		for a := 0; a < nArch && !c10Stuck; a++ {
			r := c.R.Fork()
			nb := r.Intn(6)
			g := genOpts{identity: true, maxData: 300}
			switch {
			case r.Chance(15):
				g.maxData = 0 // varint-width boundary sizes (127/128, 16383/16384)
				if nb > 2 {
					nb = 2
				}
				g.big = c.Thorough && r.Chance(35)
				c.Count("archive:boundary-sizes")
			case r.Chance(30):
				g.maxData = 20
			}
			blks := genBlocks(r, nb, g)
			roots := genRoots(r, blks, true)
			if roots == nil {
				roots = []cid.Cid{}
			}
			payload := refPayload(roots, blks)
			hdrLen := len(refPayload(roots, nil)) // framed: length varint + CBOR body
			_, hvn, _ := varint.FromUvarint(payload)
			hdrBody := hdrLen - hvn
			nt := len(blks) > 0
			// 2^21-boundary archives (thorough tier only) get the valid-input families once each and
			// no malformed stream: a case line carries the file several times in hex
			huge := len(payload) > 100000
			if huge {
				c.Count("archive:huge")
			}
			c.Count("archive:blocks=" + string(rune('0'+len(blks))))
			valid := VL{VT("valid"), cidsVal(roots), blksVal(blks)}
			none := VL{VT("none")}
			maxCidLen := 0
			for _, b := range blks {
				if b.Cid.ByteLen() > maxCidLen {
					maxCidLen = b.Cid.ByteLen()
				}
			}
			randOpts := func(maxSeek uint64) xOpts {
				o := defaultXOpts
				o.maxSeek = maxSeek
				switch r.Intn(8) {
				case 0:
					o.maxH = uint64(hdrBody) // exactly the header's size: accepted
				case 1:
					o.maxH = uint64(hdrBody - 1)
				case 2:
					o.maxH = uint64(hdrBody + 1)
				}
				switch r.Intn(6) {
				case 0:
					o.codec = 0x0400
				case 1:
					o.codec = 0x0401
				case 2:
					o.codec = pick(r, []uint64{0x0402, 0x55, 0x0300})
				}
				o.storeID = r.Chance(30)
				o.zeof = r.Chance(25)
				if r.Chance(20) {
					o.dataPad = pick(r, []uint64{0, 1, 4095, 4096})
					o.indexPad = pick(r, []uint64{0, 1, 4095, 4096})
				}
				switch r.Intn(6) {
				case 0:
					o.maxCid = uint64(maxCidLen)
				case 1:
					if maxCidLen > 1 {
						o.maxCid = uint64(maxCidLen - 1)
					}
				case 2:
					o.maxCid = 34
				}
				return o
			}
			fileOpts := defaultXOpts
			fileOpts.maxSeek = fileSeek
			// header-oracle table; on valid files it is sometimes withheld so that the model's own
			// canonical header decoder has to answer
			tabFor := func(f []byte, valid bool) Val {
				if valid && r.Chance(25) {
					return VL{}
				}
				return xTables(f)
			}

			// ---------------- wrap ----------------
			var c10Existing []byte // content of the file already at the destination path (mode 2)
			emitWrap := func(o xOpts, mode uint64, x []byte, expect Val, nontrivial bool) Val {
				if c10Stuck {
					return VL{VT("timeout")}
				}
				in := VL{o.val(), VN(mode), VB(x), tabFor(x, string(expect.(VL)[0].(VT)) != "none"), expect}
				var existing []byte
				if mode == 2 {
					existing = c10Existing
					if existing == nil {
						existing = r.Bytes(r.Intn(2*len(x) + 200))
					}
					in = append(in, VB(existing))
				}
				obs := runWrapImpl(c, o, mode, x, existing)
				c.Emit("xwrap", in, obs, nontrivial)
				c.Count("wrap:mode=" + string(rune('0'+mode)))
				c.Count("wrap:result=" + string(obs.(VL)[0].(VT)))
				return obs
			}
			obs0 := emitWrap(func() xOpts { o := defaultXOpts; o.maxSeek = memMaxSeek; return o }(), 0, payload, valid, nt)
			var index []byte
			if string(obs0.(VL)[0].(VT)) == "nil" {
				index = []byte(obs0.(VL)[2].(VL)[1].(VB))[51+len(payload):]
			}
			emitWrap(fileOpts, 1, payload, valid, nt)
			if !huge {
				emitWrap(randOpts(memMaxSeek), 0, payload, valid, nt)
				// option rows: every Option the API accepts, one at a time, on WrapV1 over a
				// bytes.Reader and over files (the padding options are ignored by WrapV1 at HEAD)
				{
					rows := []func(o *xOpts){
						func(o *xOpts) { o.dataPad = 1 }, func(o *xOpts) { o.dataPad = 4095 }, func(o *xOpts) { o.dataPad = 4096 },
						func(o *xOpts) { o.indexPad = 1 }, func(o *xOpts) { o.indexPad = 4095 }, func(o *xOpts) { o.indexPad = 4096 },
						func(o *xOpts) { o.dataPad, o.indexPad = pick(r, []uint64{1, 4095, 4096}), pick(r, []uint64{1, 4095, 4096}) },
						func(o *xOpts) { o.storeID = true }, func(o *xOpts) { o.zeof = true },
						func(o *xOpts) { o.maxCid = uint64(maxCidLen) }, func(o *xOpts) { o.maxCid = 1 << 40 },
						func(o *xOpts) { o.codec = 0x0400 }, func(o *xOpts) { o.codec = 0x0401 }, func(o *xOpts) { o.codec = 0x300000 },
					}
					// four rows per archive (all rows are covered across archives), plus always one padding row
					picks := []int{r.Intn(7), r.Intn(len(rows)), r.Intn(len(rows)), r.Intn(len(rows))}
					for _, k := range picks {
						for _, mode := range []uint64{0, 4} {
							o := defaultXOpts
							o.maxSeek = memMaxSeek
							if mode == 4 {
								o.maxSeek = fileSeek
							}
							rows[k](&o)
							emitWrap(o, mode, payload, valid, nt)
						}
						c.Count("wrap:option-row=" + []string{"datapad1", "datapad4095", "datapad4096", "indexpad1", "indexpad4095", "indexpad4096", "bothpad",
							"storeid", "zeof", "maxcid-exact", "maxcid-huge", "codec-sorted", "codec-mh-sorted", "codec-none"}[k])
					}
				}
				// destination state: a file is already there -- shorter than, exactly as long as, one
				// byte longer than, much longer than what is about to be written (os.Create truncates)
				wl := 51 + len(payload) + len(index)
				for _, n := range []int{r.Intn(wl), wl, wl + 1, wl + 2 + r.Intn(wl+300)} {
					c10Existing = r.Bytes(n)
					emitWrap(fileOpts, 2, payload, valid, nt)
					switch {
					case n < wl:
						c.Count("wrap:dest=existing-shorter")
					case n == wl:
						c.Count("wrap:dest=existing-same-length")
					default:
						c.Count("wrap:dest=existing-longer")
					}
				}
				c10Existing = nil
				emitWrap(fileOpts, pick(r, []uint64{3, 3, 5, 6}), payload, valid, false)
				c.Count("wrap:dest=same-file")
				emitWrap(randOpts(fileSeek), 4, payload, valid, nt)
			}

			// ---------------- containers / extract ----------------
			dests := func(dsize int) []Val {
				return []Val{
					VL{VT("absent")},
					VL{VT("file"), VB(r.Bytes(dsize + 1 + pick(r, []int{0, 0, 1, r.Intn(dsize + 64)})))}, // larger (often by exactly one byte)
					VL{VT("file"), VB(r.Bytes(pick(r, []int{dsize, dsize - 1, 0, r.Intn(dsize + 1)})))},  // not larger (often exactly as long)
					VL{VT(pick(r, []string{"same", "same", "symlink", "hardlink", "unclean", "relative"}))},
				}
			}
			emitExtract := func(o xOpts, f []byte, dest Val, expect Val, nontrivial bool) {
				if c10Stuck {
					return
				}
				in := VL{o.val(), VB(f), dest, tabFor(f, string(expect.(VL)[0].(VT)) == "window"), expect, VN(chunkFor(r, len(f)))}
				obs := runExtractImpl(c, o, f, dest)
				c.Emit("xextract", in, obs, nontrivial)
				c.Count("extract:dest=" + string(dest.(VL)[0].(VT)))
				c.Count("extract:result=" + string(obs.(VL)[0].(VT)))
			}
			var conts []xContainer
			for k := 0; k < 2; k++ {
				dpad := pick(r, []int{0, 0, 1, 7, 1413})
				ipad := pick(r, []int{0, 0, 1, 512})
				idx := index
				if r.Chance(35) {
					idx = nil
				}
				hi := uint64(0)
				if r.Chance(30) {
					hi = pick(r, []uint64{0x80, 0xff, 1 << 63})
				}
				ct := buildContainer(r, payload, idx, dpad, ipad, r.Bool(), hi)
				conts = append(conts, ct)
				if dpad > 0 {
					c.Count("container:data-padding")
				}
				if idx == nil {
					c.Count("container:no-index")
				} else {
					c.Count("container:index")
				}
				ds := dests(len(payload))
				if huge {
					ds = []Val{ds[1], ds[3]}
				}
				for _, d := range ds {
					o := fileOpts
					if r.Chance(15) {
						o.maxH = pick(r, []uint64{10, 9, 11})
					}
					exp := Val(VL{VT("window"), VN(ct.doff), VN(ct.dsize)})
					if o.maxH < 10 {
						exp = none
					}
					emitExtract(o, ct.file, d, exp, dpad > 0 || string(d.(VL)[0].(VT)) != "absent")
				}
			}

			// headers Header.ReadFrom accepts although they are odd: index offset anywhere (inside the
			// payload, before it, past the end of the file, huge), arbitrary characteristics, a window
			// that swallows the embedded index, a window shifted by one -- extraction must still give
			// exactly the declared window; and a window claiming one byte more than the file holds
			// must fail with io.EOF
			if !huge {
				ct := conts[0]
				flen := uint64(len(ct.file))
				ioffs := []uint64{ct.doff, ct.doff + ct.dsize/2, ct.doff + ct.dsize - 1, 51, 1, flen, flen + 1000, 1 << 62, 1<<63 - 1}
				for t := 0; t < 3; t++ {
					f := setHdrField(ct.file, 4, pick(r, ioffs))
					if r.Chance(40) {
						f = setHdrField(setHdrField(f, 0, r.U64()), 1, r.U64())
					}
					d := pick(r, dests(len(payload)))
					emitExtract(fileOpts, f, d, VL{VT("window"), VN(ct.doff), VN(ct.dsize)}, true)
					c.Count("c10hdr:index-offset-anywhere")
				}
				{
					f := setHdrField(ct.file, 3, flen-ct.doff) // payload window runs to the end of the file
					emitExtract(fileOpts, f, pick(r, dests(len(payload))), VL{VT("window"), VN(ct.doff), VN(flen - ct.doff)}, true)
					f = setHdrField(ct.file, 3, flen-ct.doff+1) // one byte more than the file holds
					emitExtract(fileOpts, f, pick(r, dests(len(payload))), VL{VT("short")}, true)
					f = setHdrField(ct.file, 3, 1<<63-1)
					emitExtract(fileOpts, f, pick(r, dests(len(payload))), VL{VT("short")}, true)
					f = setHdrField(setHdrField(ct.file, 2, ct.doff+1), 3, ct.dsize-1) // window shifted by one
					emitExtract(fileOpts, f, pick(r, dests(len(payload))), VL{VT("window"), VN(ct.doff + 1), VN(ct.dsize - 1)}, true)
					f = setHdrField(setHdrField(ct.file, 2, flen-1), 3, 1) // the last byte of the file
					emitExtract(fileOpts, f, pick(r, dests(len(payload))), VL{VT("window"), VN(flen - 1), VN(1)}, true)
					c.CountN("c10hdr:window-variants", 5)
				}
			}

			// ---------------- round trip ----------------
			for di, d := range []Val{VL{VT(pick(r, []string{"same", "symlink", "hardlink", "unclean", "relative"}))}, VL{VT("absent")}, VL{VT("file"), VB(r.Bytes(len(payload) + 1 + pick(r, []int{0, 59, r.Intn(3000)})))}} {
				if huge && di > 0 {
					break
				}
				o := fileOpts
				if r.Chance(30) {
					o = randOpts(fileSeek) // may make the wrap fail: then nothing is claimed
				} else {
					o.storeID = r.Chance(30)
					o.codec = pick(r, []uint64{0, 0x0400, 0x0401})
					if r.Chance(35) {
						o.dataPad = pick(r, []uint64{0, 1, 4095, 4096})
						o.indexPad = pick(r, []uint64{0, 1, 4095, 4096})
					}
				}
				in := VL{o.val(), VB(payload), d, tabFor(payload, true), VN(chunkFor(r, len(payload)))}
				obs := runRtripImpl(c, o, payload, d)
				c.Emit("xrtrip", in, obs, nt && string(obs.(VL)[0].(VT)) == "nil")
				c.Count("rtrip:dest=" + string(d.(VL)[0].(VT)))
				c.Count("rtrip:wrap=" + string(obs.(VL)[0].(VT)))
			}

			// ---------------- replace roots ----------------
			emitReplace := func(o xOpts, f []byte, nr []cid.Cid, expect Val, nontrivial bool) {
				if c10Stuck {
					return
				}
				in := VL{o.val(), VB(f), rootsVal(nr), tabFor(f, string(expect.(VL)[0].(VT)) == "hdr"), expect}
				obs := runReplaceImpl(c, o, f, nr)
				c.Emit("xreplace", in, obs, nontrivial)
				c.Count("replace:result=" + string(obs.(VL)[0].(VT)))
			}
			var repl [][]cid.Cid
			repl = append(repl, append([]cid.Cid{}, roots...)) // same roots
			if len(roots) > 1 {
				rev := []cid.Cid{}
				for i := len(roots) - 1; i >= 0; i-- {
					rev = append(rev, roots[i])
				}
				repl = append(repl, rev)
			}
			if len(roots) > 0 {
				sl := append([]cid.Cid{}, roots...)
				i := r.Intn(len(sl))
				sl[i] = sameLenCid(r, sl[i])
				repl = append(repl, sl)                                       // same size, other CID
				repl = append(repl, append([]cid.Cid{}, roots[1:]...))        // one root fewer
				lg := append([]cid.Cid{}, roots...)
				lg[i] = mkCid(1, pick(r, codecs), pick(r, []uint64{mh.SHA2_512, mh.SHA1, mh.IDENTITY}), -1, r.Bytes(5))
				repl = append(repl, lg) // a root of another length
			} else {
				repl = append(repl, nil) // nil instead of empty: f6 instead of 80, same size
			}
			repl = append(repl, append(append([]cid.Cid{}, roots...), genBlock(r, genOpts{maxData: 8}).Cid)) // one more
			if len(blks) > 0 {
				// as many roots as before, taken from the blocks: equal size only by luck of lengths
				alt := []cid.Cid{}
				for range roots {
					alt = append(alt, pick(r, blks).Cid)
				}
				repl = append(repl, alt)
			}
			if huge {
				repl = repl[:2]
			}
			for _, nr := range repl {
				differs := len(nr) != len(roots)
				for i := range nr {
					if !differs && !nr[i].Equals(roots[i]) {
						differs = true
					}
				}
				o := fileOpts
				if r.Chance(15) {
					o.maxH = uint64(hdrBody - r.Intn(2))
				}
				exp := Val(VL{VT("hdr"), VN(0), VN(uint64(hdrLen))})
				if o.maxH < uint64(hdrBody) {
					exp = none
				}
				emitReplace(o, payload, nr, exp, differs)
				c.Count("replace:v1")
				ct := pick(r, conts)
				exp2 := Val(VL{VT("hdr"), VN(ct.doff), VN(uint64(hdrLen))})
				if o.maxH < 10 || o.maxH < uint64(hdrBody) {
					exp2 = none
				}
				emitReplace(o, ct.file, nr, exp2, differs)
				c.Count("replace:v2")
			}

			// ---------------- attach index ----------------
			if !huge && index != nil && !c10Stuck {
				ct := conts[0]
				flen := uint64(len(ct.file))
				end := ct.doff + ct.dsize
				emitAttach := func(f Val, off uint64, expect Val, nontrivial bool) {
					if c10Stuck {
						return
					}
					in := VL{f, VB(index), VN(off), expect}
					obs := runAttachImpl(c, f, index, off)
					c.Emit("xattach", in, obs, nontrivial)
					c.Count("attach:result=" + string(obs.(VL)[0].(VT)))
				}
				win := VL{VT("window"), VN(ct.doff), VN(ct.dsize)}
				cf := VL{VT("file"), VB(ct.file)}
				for _, off := range []uint64{end, flen, flen + uint64(1+r.Intn(40)), end + uint64(r.Intn(int(flen-end)+1))} {
					emitAttach(cf, off, win, true)
				}
				emitAttach(cf, ct.doff+uint64(r.Intn(int(ct.dsize))), none, false)  // into the payload: the caller's mistake
				emitAttach(cf, pick(r, []uint64{1 << 63, 1<<64 - 1}), none, false)   // negative as int64
				emitAttach(VL{VT("file"), VB(payload)}, uint64(len(payload)), none, false)
				emitAttach(VL{VT("absent")}, uint64(r.Intn(30)), none, false)
				c.CountN("attach:cases", 8)
			}

			// ---------------- sequences of transforms on one file ----------------
			if !huge && !c10Stuck {
				farOff := uint64(len(payload) + 6*(51+len(index)) + 64)
				for q := 0; q < 3; q++ {
					n := 1 + r.Intn(5)
					ops := VL{}
					for k := 0; k < n; k++ {
						o := fileOpts
						switch r.Intn(7) {
						case 0, 1:
							o.storeID = r.Chance(30)
							o.codec = pick(r, []uint64{0, 0x0400, 0x0401})
							ops = append(ops, VL{VT("wrap"), o.val()})
							c.Count("seq:op=wrap")
						case 2, 3:
							ops = append(ops, VL{VT("extract"), o.val()})
							c.Count("seq:op=extract")
						case 4, 5:
							nr := pick(r, repl)
							ops = append(ops, VL{VT("replace"), o.val(), rootsVal(nr)})
							c.Count("seq:op=replace")
						default:
							if index == nil {
								continue
							}
							off := farOff
							if r.Chance(15) {
								off = uint64(r.Intn(len(payload) + 100))
							}
							ops = append(ops, VL{VT("attach"), VB(index), VN(off)})
							c.Count("seq:op=attach")
						}
					}
					in := VL{VB(payload), ops, tabFor(payload, true), VN(chunkFor(r, 4*len(payload))), VL{VT("blocks"), blksVal(blks)}}
					obs := runSeqImpl(c, payload, ops)
					c.Emit("xseq", in, obs, nt && len(ops) > 1)
					c.Count("seq:length=" + string(rune('0'+len(ops))))
				}
			}

			// ---------------- malformed stream ----------------
			if huge {
				continue
			}
			ct := conts[0]
			// extract: file shorter than the declared window (partial overwrite, then an error)
			for _, d := range dests(len(payload)) {
				if len(ct.file) > int(ct.doff)+1 {
					cut := int(ct.doff) + r.Intn(len(payload))
					if r.Chance(20) {
						cut = r.Intn(int(ct.doff) + 1)
					}
					emitExtract(fileOpts, ct.file[:cut], d, none, false)
					c.Count("malformed:extract-truncated")
				}
			}
			// extract: hostile header fields
			vals := []uint64{0, 1, 50, 51, 52, uint64(len(ct.file)), uint64(len(ct.file)) + 1, ct.dsize - 1, ct.dsize + 1,
				1 << 31, 1 << 40, 1 << 62, 1<<63 - 1, 1 << 63, 1<<64 - 1}
			for t := 0; t < 6; t++ {
				f := setHdrField(ct.file, 2+r.Intn(3), pick(r, vals))
				emitExtract(fileOpts, f, pick(r, dests(len(payload))), none, false)
				c.Count("malformed:extract-header-field")
			}
			// extract: a CARv1, an unknown version, an empty file, random bytes, corrupted pragma
			emitExtract(fileOpts, payload, pick(r, dests(len(payload))), none, false)
			v3 := append([]byte{0x0a, 0xa1, 0x67, 'v', 'e', 'r', 's', 'i', 'o', 'n', 0x03}, ct.file[11:]...)
			emitExtract(fileOpts, v3, pick(r, dests(len(payload))), none, false)
			emitExtract(fileOpts, []byte{}, pick(r, dests(len(payload))), none, false)
			emitExtract(fileOpts, r.Bytes(r.Intn(80)), pick(r, dests(len(payload))), none, false)
			for t := 0; t < 3; t++ {
				f := append([]byte{}, ct.file...)
				f[r.Intn(51)] ^= pick(r, []byte{0x01, 0x80, 0xff})
				emitExtract(fileOpts, f, pick(r, dests(len(payload))), none, false)
			}
			c.CountN("malformed:extract-other", 7)

			// wrap: prefixes, byte corruptions, null padding, lengths past the end, CARv2 source
			nPre := 8
			if c.Thorough || len(payload) < 120 {
				nPre = len(payload)
				if nPre > 160 {
					nPre = 160
				}
			}

			for t := 0; t < nPre; t++ {
				cut := r.Intn(len(payload))
				if nPre == len(payload) {
					cut = t // every prefix of a small payload
				}
				mode := uint64(0)
				o := randOpts(memMaxSeek)
				if r.Chance(30) {
					mode = 4
					o = randOpts(fileSeek)
				}
				emitWrap(o, mode, payload[:cut], none, false)
				c.Count("malformed:wrap-prefix")
			}
			for t := 0; t < 10; t++ {
				f := append([]byte{}, payload...)
				f[r.Intn(len(f))] ^= pick(r, []byte{0x01, 0x80, 0xff, 0x7f})
				emitWrap(randOpts(memMaxSeek), 0, f, none, false)
				c.Count("malformed:wrap-corrupt")
			}
			{
				// trailing null padding (accepted only with ZeroLengthSectionAsEOF)
				f := append(append([]byte{}, payload...), make([]byte, 1+r.Intn(5))...)
				o := randOpts(memMaxSeek)
				emitWrap(o, 0, f, none, false)
				o.zeof = !o.zeof
				emitWrap(o, 0, f, none, false)
				c.CountN("malformed:wrap-null-padding", 2)
				// a last section whose length points past the end of the file / beyond any offset
				for _, l := range []uint64{200, 1 << 31, 1 << 45, 1 << 62, 1<<63 - 1} {
					tail := varint.ToUvarint(l)
					var body []byte
					if len(blks) > 0 && r.Bool() {
						b := pick(r, blks)
						body = append(b.Cid.Bytes(), b.Data...)
					} else {
						body = r.Bytes(r.Intn(50))
					}
					f := append(append(append([]byte{}, payload...), tail...), body...)
					emitWrap(randOpts(memMaxSeek), 0, f, none, false)
					emitWrap(randOpts(fileSeek), 4, f, none, false)
					c.CountN("malformed:wrap-length-past-eof", 2)
				}
				// a CID that overruns its section (CidFromReader reads on, Seek goes backwards)
				if len(blks) > 0 {
					b := blks[len(blks)-1]
					short := uint64(1 + r.Intn(b.Cid.ByteLen()-1))
					f := append(append([]byte{}, payload...), varint.ToUvarint(short)...)
					f = append(f, b.Cid.Bytes()...)
					f = append(f, b.Data...)
					emitWrap(randOpts(memMaxSeek), 0, f, none, false)
					c.Count("malformed:wrap-cid-overruns-section")
				}
				// CARv2 as the source of WrapV1 (misuse the code does not refuse)
				c10v2 := VL{VT("carv2"), cidsVal(roots), blksVal(blks)}
				for _, ct := range conts {
					emitWrap(randOpts(memMaxSeek), 0, ct.file, c10v2, nt)
					emitWrap(randOpts(fileSeek), 4, ct.file, c10v2, nt)
					g := setHdrField(ct.file, 2+r.Intn(2), pick(r, vals))
					emitWrap(randOpts(memMaxSeek), 0, g, none, false)
					c.CountN("malformed:wrap-carv2-source", 3)
				}
				emitWrap(randOpts(memMaxSeek), 0, []byte{}, none, false)
				emitWrap(randOpts(memMaxSeek), 0, r.Bytes(r.Intn(60)), none, false)
			}

			// replace: truncated / corrupted files, inner header of version 2, hostile fields
			nr := repl[r.Intn(len(repl))]
			for t := 0; t < 4; t++ {
				f := payload[:r.Intn(hdrLen+1)]
				emitReplace(fileOpts, f, nr, none, false)
				g := ct.file[:r.Intn(int(ct.doff)+hdrLen+1)]
				emitReplace(fileOpts, g, nr, none, false)
				c.CountN("malformed:replace-truncated", 2)
			}
			for t := 0; t < 6; t++ {
				f := append([]byte{}, payload...)
				f[r.Intn(hdrLen)] ^= pick(r, []byte{0x01, 0x80, 0xff})
				emitReplace(fileOpts, f, nr, none, false)
				g := append([]byte{}, ct.file...)
				g[r.Intn(int(ct.doff)+hdrLen)] ^= pick(r, []byte{0x01, 0x80, 0xff})
				emitReplace(fileOpts, g, nr, none, false)
				c.CountN("malformed:replace-corrupt", 2)
			}
			for t := 0; t < 3; t++ {
				g := setHdrField(ct.file, 2+r.Intn(3), pick(r, vals))
				emitReplace(fileOpts, g, nr, none, false)
				c.Count("malformed:replace-header-field")
			}
			{
				// inner header says version 2 (ends ... "version" 02): the error is lost, the
				// header is rewritten as version 1 when the sizes agree
				g := append([]byte{}, ct.file...)
				g[int(ct.doff)+hdrLen-1] = 0x02
				for _, nr := range repl[:2] {
					emitReplace(fileOpts, g, nr, none, false)
				}
				// a CARv1 file whose header says version 3
				f := append([]byte{}, payload...)
				f[hdrLen-1] = 0x03
				emitReplace(fileOpts, f, nr, none, false)
				c.CountN("malformed:replace-version", 3)
			}
		}
	})
}


// c10-examples: the fixed instances used as non-vacuity Examples in coq/proofs/TransformExamples.v
// (same bytes) and kept as corpus/C10/examples.case.  Not used by any check directly.
func init() {
	register("c10-examples", func(c *Ctx) {
		dig := bytes.Repeat([]byte{0x11}, 32)
		m1, _ := mh.Encode(dig, mh.SHA2_256)
		c1 := cid.NewCidV1(cid.Raw, m1)
		dig2 := bytes.Repeat([]byte{0x22}, 32)
		m2, _ := mh.Encode(dig2, mh.SHA2_256)
		c2 := cid.NewCidV1(cid.DagCBOR, m2) // same length as c1
		mi, _ := mh.Encode([]byte("ab"), mh.IDENTITY)
		ci := cid.NewCidV1(cid.Raw, mi)
		blks := []Blk{{c1, []byte("hi")}, {ci, []byte("ab")}, {c1, []byte("hi")}}
		roots := []cid.Cid{c1}
		payload := refPayload(roots, blks)
		hdrLen := len(refPayload(roots, nil))
		o := defaultXOpts
		o.maxSeek = memMaxSeek
		valid := VL{VT("valid"), cidsVal(roots), blksVal(blks)}
		// wrap
		in := VL{o.val(), VN(1), VB(payload), VL{}, valid}
		obs := runWrapImpl(c, o, 1, payload, nil)
		c.Emit("xwrap", in, obs, true)
		index := []byte(obs.(VL)[2].(VL)[1].(VB))[51+len(payload):]
		// container with data padding 3 and index padding 2
		r := NewRNG(7)
		ct := buildContainer(r, payload, index, 3, 2, true, 0x80)
		win := VL{VT("window"), VN(ct.doff), VN(ct.dsize)}
		larger := VL{VT("file"), VB(bytes.Repeat([]byte{0xee}, len(payload)+9))}
		for _, d := range []Val{VL{VT("same")}, larger, VL{VT("absent")}} {
			in := VL{o.val(), VB(ct.file), d, VL{}, win, VN(7)}
			c.Emit("xextract", in, runExtractImpl(c, o, ct.file, d), true)
		}
		// the same container cut inside the payload: partial overwrite, io.EOF
		cut := ct.file[:int(ct.doff)+20]
		c.Emit("xextract", VL{o.val(), VB(cut), VL{VT("same")}, VL{}, VL{VT("none")}, VN(7)}, runExtractImpl(c, o, cut, VL{VT("same")}), true)
		// the same container with its index offset pointing into the payload and other characteristics:
		// still accepted, same window; and with a window one byte longer than the file: io.EOF
		odd := setHdrField(setHdrField(ct.file, 4, ct.doff+ct.dsize/2), 0, 0xdeadbeef)
		c.Emit("xextract", VL{o.val(), VB(odd), VL{VT("same")}, VL{}, win, VN(3)}, runExtractImpl(c, o, odd, VL{VT("same")}), true)
		over := setHdrField(ct.file, 3, uint64(len(ct.file))-ct.doff+1)
		c.Emit("xextract", VL{o.val(), VB(over), larger, VL{}, VL{VT("short")}, VN(3)}, runExtractImpl(c, o, over, larger), true)
		// the CARv2 as the SOURCE of WrapV1: the whole file is wrapped, the index is the inner payload's
		c.Emit("xwrap", VL{o.val(), VN(0), VB(ct.file), VL{}, VL{VT("carv2"), cidsVal(roots), blksVal(blks)}}, runWrapImpl(c, o, 0, ct.file, nil), true)
		// in place through an alias of the source
		c.Emit("xextract", VL{o.val(), VB(ct.file), VL{VT("hardlink")}, VL{}, win, VN(7)}, runExtractImpl(c, o, ct.file, VL{VT("hardlink")}), true)
		// AttachIndex at the end of the container
		c.Emit("xattach", VL{VL{VT("file"), VB(ct.file)}, VB(index), VN(uint64(len(ct.file))), win}, runAttachImpl(c, VL{VT("file"), VB(ct.file)}, index, uint64(len(ct.file))), true)
		// a sequence: wrap, replace roots (same size), attach far behind, wrap again, extract twice
		{
			ops := VL{VL{VT("wrap"), o.val()}, VL{VT("replace"), o.val(), rootsVal([]cid.Cid{c2})},
				VL{VT("attach"), VB(index), VN(600)}, VL{VT("wrap"), o.val()}, VL{VT("extract"), o.val()}, VL{VT("extract"), o.val()}}
			c.Emit("xseq", VL{VB(payload), ops, VL{}, VN(7), VL{VT("blocks"), blksVal(blks)}}, runSeqImpl(c, payload, ops), true)
		}
		// round trip
		for _, d := range []Val{VL{VT("same")}, larger} {
			in := VL{o.val(), VB(payload), d, VL{}, VN(5)}
			c.Emit("xrtrip", in, runRtripImpl(c, o, payload, d), true)
		}
		// replace roots: same size (accepted), different size (refused), on the CARv1 and the CARv2
		for _, nr := range [][]cid.Cid{{c2}, {c1, c2}, {}} {
			in := VL{o.val(), VB(payload), rootsVal(nr), VL{}, VL{VT("hdr"), VN(0), VN(uint64(hdrLen))}}
			c.Emit("xreplace", in, runReplaceImpl(c, o, payload, nr), true)
			in2 := VL{o.val(), VB(ct.file), rootsVal(nr), VL{}, VL{VT("hdr"), VN(ct.doff), VN(uint64(hdrLen))}}
			c.Emit("xreplace", in2, runReplaceImpl(c, o, ct.file, nr), true)
		}
	})
}
