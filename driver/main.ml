(* Generic driver: reads "caseid \t kind \t input \t implobs" lines, evaluates the
   extracted model (Model.run_<kind>) and the layer-B predicate (Model.prop_<kind>) and
   prints "caseid \t modelobs \t verdict".  Trusted glue: parsing/printing only. *)
type ostring = string
module OS = String
module OL = List
module OB = Buffer
open Model

let byte_of_int (i : int) : byte = Obj.magic i      (* 256 constant constructors, in order *)
let int_of_byte (b : byte) : int = Obj.magic b

let hexval c = match c with
  | '0'..'9' -> Char.code c - 48
  | 'a'..'f' -> Char.code c - 87
  | 'A'..'F' -> Char.code c - 55
  | _ -> failwith "bad hex"

let bytes_of_hex (s : ostring) (pos : int) (len : int) : byte list =
  if len land 1 <> 0 then failwith "odd hex";
  let r = ref [] in
  let i = ref (pos + len - 2) in
  while !i >= pos do
    r := byte_of_int (hexval s.[!i] * 16 + hexval s.[!i + 1]) :: !r;
    i := !i - 2
  done; !r

let n_of_hex (s : ostring) (pos : int) (len : int) : n =
  (* bits, most significant first *)
  let p = ref None in
  for i = pos to pos + len - 1 do
    let d = hexval s.[i] in
    for k = 3 downto 0 do
      let bit = (d lsr k) land 1 = 1 in
      p := (match !p with
            | None -> if bit then Some XH else None
            | Some q -> Some (if bit then XI q else XO q))
    done
  done;
  match !p with None -> N0 | Some q -> Npos q

let rec pos_bits (p : positive) (acc : bool list) : bool list =
  match p with XH -> true :: acc | XO q -> pos_bits q (false :: acc) | XI q -> pos_bits q (true :: acc)

let hex_of_n (x : n) : ostring =
  match x with
  | N0 -> "0"
  | Npos p ->
    let bits = pos_bits p [] in      (* most significant first *)
    let len = OL.length bits in
    let pad = (4 - len mod 4) mod 4 in
    let bits = OL.init pad (fun _ -> false) @ bits in
    let b = Buffer.create 16 in
    let rec go l = match l with
      | a :: b1 :: c :: d :: t ->
        let v = (if a then 8 else 0) + (if b1 then 4 else 0) + (if c then 2 else 0) + (if d then 1 else 0) in
        Buffer.add_char b "0123456789abcdef".[v]; go t
      | _ -> () in
    go bits; Buffer.contents b

let char_of_ascii (a : ascii) : char =
  match a with Ascii (b0,b1,b2,b3,b4,b5,b6,b7) ->
    let f b k = if b then 1 lsl k else 0 in
    Char.chr (f b0 0 + f b1 1 + f b2 2 + f b3 3 + f b4 4 + f b5 5 + f b6 6 + f b7 7)
let ascii_of_char (c : char) : ascii =
  let v = Char.code c in let g k = (v lsr k) land 1 = 1 in
  Ascii (g 0, g 1, g 2, g 3, g 4, g 5, g 6, g 7)
let rec coqstr_to_buf b (s : Model.string) = match s with
  | EmptyString -> () | String (a, t) -> Buffer.add_char b (char_of_ascii a); coqstr_to_buf b t
let coqstr_of_sub (s : ostring) pos len : Model.string =
  let r = ref EmptyString in
  for i = pos + len - 1 downto pos do r := String (ascii_of_char s.[i], !r) done; !r

(* parser *)
let parse_val (s : ostring) : val0 =
  let n = OS.length s in
  let pos = ref 0 in
  let skip () = while !pos < n && s.[!pos] = ' ' do incr pos done in
  let tok_end () = let e = ref !pos in
    while !e < n && s.[!e] <> ' ' && s.[!e] <> '(' && s.[!e] <> ')' do incr e done; !e in
  let rec value () : val0 =
    skip ();
    if !pos >= n then failwith "unexpected end";
    match s.[!pos] with
    | '(' -> incr pos; let items = ref [] in
      let rec loop () = skip ();
        if !pos >= n then failwith "unclosed";
        if s.[!pos] = ')' then incr pos else (items := value () :: !items; loop ()) in
      loop (); VL (OL.rev !items)
    | 'n' -> let e = tok_end () in let v = n_of_hex s (!pos + 1) (e - !pos - 1) in pos := e; VN v
    | 'b' -> let e = tok_end () in let v = bytes_of_hex s (!pos + 1) (e - !pos - 1) in pos := e; VB v
    | 't' -> let e = tok_end () in let v = coqstr_of_sub s (!pos + 1) (e - !pos - 1) in pos := e; VT v
    | c -> failwith (Printf.sprintf "bad token start %c at %d" c !pos)
  in value ()

let rec print_val b (v : val0) = match v with
  | VN x -> Buffer.add_char b 'n'; Buffer.add_string b (hex_of_n x)
  | VB l -> Buffer.add_char b 'b';
    OL.iter (fun x -> let i = int_of_byte x in
      Buffer.add_char b "0123456789abcdef".[i lsr 4]; Buffer.add_char b "0123456789abcdef".[i land 15]) l
  | VT s -> Buffer.add_char b 't'; coqstr_to_buf b s
  | VL l -> Buffer.add_char b '(';
    OL.iteri (fun i x -> if i > 0 then Buffer.add_char b ' '; print_val b x) l;
    Buffer.add_char b ')'

let split_tabs (s : ostring) : ostring list = OS.split_on_char '\t' s

let () =
  let out = Buffer.create 65536 in
  (try
    while true do
      let line = input_line stdin in
      if OS.length line > 0 && line.[0] <> '#' then begin
        match split_tabs line with
        | [id; kind; input; obs] ->
          let (run, prop) =
            try let (_, r, p) = OL.find (fun (k, _, _) -> k = kind) Dispatch.table in (r, p)
            with Not_found -> failwith ("unknown kind " ^ kind) in
          let iv = parse_val input in
          let ov = parse_val obs in
          let m = run iv in
          let p = prop iv ov in
          Buffer.clear out;
          Buffer.add_string out id; Buffer.add_char out '\t';
          print_val out m; Buffer.add_char out '\t';
          print_val out p; Buffer.add_char out '\n';
          print_string (Buffer.contents out)
        | _ -> failwith "bad case line"
      end
    done
  with End_of_file -> ());
  flush stdout
