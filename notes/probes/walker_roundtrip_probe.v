(* Design probe (throw-away sketch, not part of the framework): position-based walker round trip. *)
(* Probe: position-based walker over (all, pos) and its round-trip proof. *)
From Coq Require Import List NArith ZArith Lia ZifyN ZifyNat ZifyBool Bool.
From Coq.Strings Require Import Byte.
Import ListNotations.
Local Open Scope N_scope.
Local Open Scope bool_scope.
Ltac Zify.zify_post_hook ::= Z.div_mod_to_equations.

Definition bytes := list byte.
Definition b2n (b:byte) : N := Byte.to_N b.
Definition n2b (n:N) : byte := match Byte.of_N (n mod 256) with Some b => b | None => x00 end.
Lemma b2n_n2b n : n < 256 -> b2n (n2b n) = n.
Proof. intros Hn. unfold b2n, n2b. rewrite N.mod_small by lia.
 destruct (Byte.of_N n) eqn:E. - apply Byte.to_of_N in E. exact E.
 - apply Byte.of_N_None_iff in E. lia. Qed.

Definition blen (bs:bytes) : N := N.of_nat (length bs).

(* --- varint over suffixes (as in the earlier probe) --- *)
Fixpoint put_uv (fuel:nat) (n:N) : bytes :=
  match fuel with O => [] | S f =>
    if n <? 128 then [n2b n] else n2b (128 + n mod 128) :: put_uv f (n / 128) end.
Definition uv (n:N) := put_uv 10 n.

Inductive vres := VOk (v:N) (used:N) | VEof | VUnexp | VBad.
Fixpoint read_uv (fuel:nat) (i:N) (x:N) (bs:bytes) : vres :=
  match fuel with O => VBad | S f =>
    match bs with
    | [] => if i =? 0 then VEof else VUnexp
    | b :: rest => let v := b2n b in
      if ((i =? 8) && (128 <=? v)) || (9 <=? i) then VBad
      else if v <? 128 then (if (v =? 0) && (0 <? i) then VBad else VOk (x + v * 2^(7*i)) (i+1))
      else read_uv f (i+1) (x + (v - 128) * 2^(7*i)) rest end end.
Definition ruv bs := read_uv 10 0 0 bs.

(* assumed here (proved in the earlier probe in the general form) *)
Section Walk.
Hypothesis ruv_uv : forall n rest, n < 2^63 -> ruv (uv n ++ rest) = VOk n (blen (uv n)).
Hypothesis uv_nonempty : forall n, 0 < blen (uv n).

(* --- reader = whole data + position --- *)
Definition view (all:bytes) (pos:N) : bytes := skipn (N.to_nat pos) all.
Definition take (n:N) (bs:bytes) : bytes := firstn (N.to_nat n) bs.

(* abstract CID splitter: returns length of the cid prefix of a section payload *)
Variable cidlen : bytes -> option N.
Hypothesis cidlen_le : forall p n, cidlen p = Some n -> n <= blen p.

Inductive wres := WDone (blocks : list (N * bytes * bytes)) | WErr (blocks : list (N * bytes * bytes)) | WFuel.

(* BlockReader.Next-like walker: ReadNode = LdRead then split *)
Fixpoint walk (fuel:nat) (maxsec:N) (all:bytes) (pos:N) (acc:list (N*bytes*bytes)) : wres :=
  match fuel with O => WFuel | S f =>
    match ruv (view all pos) with
    | VEof => WDone (rev acc)
    | VOk l used =>
        if maxsec <? l then WErr (rev acc) else
        let body := take l (view all (pos+used)) in
        if blen body <? l then WErr (rev acc) (* truncated *) else
        match cidlen body with
        | None => WErr (rev acc)
        | Some cl => walk f maxsec all (pos+used+l) ((pos, take cl body, skipn (N.to_nat cl) body) :: acc)
        end
    | _ => WErr (rev acc)
    end end.

Definition enc_section (c d:bytes) : bytes := uv (blen c + blen d) ++ c ++ d.
Fixpoint offsets (start:N) (bs:list (bytes*bytes)) : list (N*bytes*bytes) :=
  match bs with [] => [] | (c,d)::t => (start,c,d) :: offsets (start + blen (enc_section c d)) t end.
Definition enc_all (bs:list (bytes*bytes)) : bytes := concat (map (fun cd => enc_section (fst cd) (snd cd)) bs).

Definition block_ok maxsec (cd:bytes*bytes) : Prop :=
  let '(c,d) := cd in blen c + blen d <= maxsec /\ blen c + blen d < 2^63 /\
  cidlen (c ++ d) = Some (blen c).

Lemma blen_app a b : blen (a ++ b) = blen a + blen b.
Proof. unfold blen. rewrite app_length. lia. Qed.
Lemma view_app pre rest : view (pre ++ rest) (blen pre) = rest.
Proof. unfold view, blen. rewrite Nnat.Nat2N.id. rewrite skipn_app, skipn_all, Nat.sub_diag. reflexivity. Qed.
Lemma take_app a b : take (blen a) (a ++ b) = a.
Proof. unfold take, blen. rewrite Nnat.Nat2N.id, firstn_app, firstn_all, Nat.sub_diag. simpl. apply app_nil_r. Qed.
Lemma skip_app a b : skipn (N.to_nat (blen a)) (a ++ b) = b.
Proof. unfold blen. rewrite Nnat.Nat2N.id, skipn_app, skipn_all, Nat.sub_diag. reflexivity. Qed.

Lemma view_at all a b : all = a ++ b -> view all (blen a) = b.
Proof. intros ->. apply view_app. Qed.

Theorem walk_roundtrip : forall maxsec bs all pre acc fuel,
  all = pre ++ enc_all bs ->
  Forall (block_ok maxsec) bs ->
  (length bs < fuel)%nat ->
  walk fuel maxsec all (blen pre) acc = WDone (rev acc ++ offsets (blen pre) bs).
Proof.
  intros maxsec bs. induction bs as [|[c d] t IH]; intros all pre acc fuel Hall Hok Hf.
  - destruct fuel; [simpl in Hf; lia|]. cbn [walk].
    rewrite (view_at all pre []) by (rewrite Hall; reflexivity).
    cbn. rewrite app_nil_r. reflexivity.
  - destruct fuel; [simpl in Hf; lia|].
    inversion Hok as [|? ? Hb Hok']; subst. cbn in Hb. destruct Hb as (Hmax & H63 & Hcid).
    set (u := uv (blen c + blen d)).
    set (all := pre ++ enc_all ((c, d) :: t)).
    assert (H1 : all = pre ++ (u ++ (c ++ d) ++ enc_all t)).
    { unfold all, enc_all; cbn [map concat fst snd]. unfold enc_section. fold u.
      rewrite <- !app_assoc. reflexivity. }
    assert (H2 : all = (pre ++ u) ++ ((c ++ d) ++ enc_all t)).
    { rewrite H1. rewrite <- !app_assoc. reflexivity. }
    assert (H3 : all = (pre ++ u ++ c ++ d) ++ enc_all t).
    { rewrite H1. rewrite <- !app_assoc. reflexivity. }
    cbn [walk].
    rewrite (view_at _ _ _ H1). unfold u at 1. rewrite ruv_uv by lia. fold u.
    replace (maxsec <? blen c + blen d) with false by lia.
    replace (blen pre + blen u) with (blen (pre ++ u)) by apply blen_app.
    rewrite (view_at _ _ _ H2).
    replace (blen c + blen d) with (blen (c ++ d)) by apply blen_app.
    rewrite take_app.
    replace (blen (c ++ d) <? blen (c ++ d)) with false by lia.
    rewrite Hcid. rewrite take_app, skip_app.
    replace (blen (pre ++ u) + blen (c ++ d)) with (blen (pre ++ u ++ c ++ d)) by (rewrite !blen_app; lia).
    rewrite (IH all (pre ++ u ++ c ++ d)); [| exact H3 | assumption | simpl in Hf; lia].
    cbn [rev offsets]. rewrite <- app_assoc. cbn [app]. do 4 f_equal.
    unfold enc_section. fold u. rewrite !blen_app. lia.
Qed.
End Walk.
Print Assumptions walk_roundtrip.
