(* Design probe (throw-away sketch, not part of the framework): go-varint round trip over list byte. *)
From Coq Require Import List NArith ZArith Lia ZifyN ZifyNat ZifyBool Bool.
From Coq.Strings Require Import Byte.
Import ListNotations.
Local Open Scope N_scope.
Local Open Scope bool_scope.
Ltac Zify.zify_post_hook ::= Z.div_mod_to_equations.

Definition bytes := list byte.
Definition b2n (b:byte) : N := Byte.to_N b.
Definition n2b (n:N) : byte := match Byte.of_N (n mod 256) with Some b => b | None => x00 end.

Lemma b2n_lt b : b2n b < 256.
Proof. unfold b2n. pose proof (Byte.to_N_bounded b). lia. Qed.
Lemma b2n_n2b n : n < 256 -> b2n (n2b n) = n.
Proof. intros Hn. unfold b2n, n2b. rewrite N.mod_small by lia.
 destruct (Byte.of_N n) eqn:E. - apply Byte.to_of_N in E. exact E.
 - apply Byte.of_N_None_iff in E. lia. Qed.

(* binary.PutUvarint *)
Fixpoint put_uv (fuel:nat) (n:N) : bytes :=
  match fuel with
  | O => []
  | S f => if n <? 128 then [n2b n] else n2b (128 + n mod 128) :: put_uv f (n / 128)
  end.

Inductive vres := VOk (v:N) (rest:bytes) | VEof | VUnexpEof | VOverflow | VNotMinimal.

(* go-varint ReadUvarint: i = index of byte (s = 7*i), x accumulator *)
Fixpoint read_uv (fuel:nat) (i:N) (x:N) (bs:bytes) : vres :=
  match fuel with
  | O => VOverflow
  | S f =>
    match bs with
    | [] => if i =? 0 then VEof else VUnexpEof
    | b :: rest =>
      let v := b2n b in
      if ((i =? 8) && (128 <=? v)) || (9 <=? i) then VOverflow
      else if v <? 128 then
        if (v =? 0) && (0 <? i) then VNotMinimal
        else VOk (x + v * 2^(7*i)) rest
      else read_uv f (i+1) (x + (v - 128) * 2^(7*i)) rest
    end
  end.

Lemma read_put_gen : forall fuel rf n i x rest,
  (S fuel <= rf)%nat -> n < 128 ^ (N.of_nat (S fuel)) -> (0 < i -> 0 < n) -> (N.of_nat (S fuel) + i <= 9) ->
  read_uv rf i x (put_uv (S fuel) n ++ rest) = VOk (x + n * 2^(7*i)) rest.
Proof.
  induction fuel as [|f IH]; intros rf n i x rest Hrf Hn Hpos Hi;
    (destruct rf as [|rf']; [lia|]); cbn [put_uv]; destruct (n <? 128) eqn:E.
  - cbn [app read_uv]. rewrite b2n_n2b by lia.
    replace ((i =? 8) && (128 <=? n)) with false by lia.
    replace (9 <=? i) with false by lia. cbn [orb].
    rewrite E. replace ((n =? 0) && (0 <? i)) with false by lia. reflexivity.
  - change (128 ^ N.of_nat 1) with 128 in Hn. lia.
  - cbn [app read_uv]. rewrite b2n_n2b by lia.
    replace ((i =? 8) && (128 <=? n)) with false by lia.
    replace (9 <=? i) with false by lia. cbn [orb].
    rewrite E. replace ((n =? 0) && (0 <? i)) with false by lia. reflexivity.
  - cbn [app read_uv].
    assert (Hm : n mod 128 < 128) by (apply N.mod_lt; lia).
    rewrite b2n_n2b by lia.
    replace ((i =? 8) && (128 <=? 128 + n mod 128)) with false by lia.
    replace (9 <=? i) with false by lia. cbn [orb].
    replace (128 + n mod 128 <? 128) with false by lia.
    assert (Hdiv: n / 128 < 128 ^ N.of_nat (S f)).
    { rewrite (Nnat.Nat2N.inj_succ (S f)) in Hn. rewrite N.pow_succ_r' in Hn.
      apply N.div_lt_upper_bound; lia. }
    rewrite (IH rf' (n/128) (i+1) _ rest); try lia.
    { f_equal.
      replace (7 * (i+1)) with (7*i + 7) by lia. rewrite N.pow_add_r.
      change (2^7) with 128.
      pose proof (N.div_mod n 128).
      replace (128 + n mod 128 - 128) with (n mod 128) by lia. nia. }
Qed.
Print Assumptions read_put_gen.
