(* Design probe (throw-away sketch, not part of the framework): RW-mutex discipline => no data race,
   any interleaving, goroutine spawn with and without lock hand-off. *)
From Coq Require Import List Arith Lia Bool.
Import ListNotations.

Inductive mode := MR | MW.
Definition mode_eqb a b := match a, b with MR, MR | MW, MW => true | _, _ => false end.

Inductive act :=
| Acq (m:mode) | Rel (m:mode)
| Rd (f:nat) | Wr (f:nat)
| Spawn (i : nat)      (* go func(){...}() : body i of the table; child starts without the lock *)
| Handoff (i : nat).   (* child (body i) inherits the caller's lock, caller loses it *)

Definition held := option mode.
Definition holdsW (h:held) := match h with Some MW => true | _ => false end.
Definition holdsAny (h:held) := match h with Some _ => true | None => false end.

Definition held_eqb (a b:held) := match a, b with
  | None, None => true | Some x, Some y => mode_eqb x y | _, _ => false end.
Lemma held_eqb_eq a b : held_eqb a b = true -> a = b.
Proof. destruct a as [[|]|], b as [[|]|]; cbn; congruence. Qed.

Section Prog.
(* spawned bodies, each with the lock state it starts in (emitted by the translator) *)
Variable tbl : list (held * list act).
Definition entry i := nth i tbl (None, []).

(* static discipline of one straight-line body *)
Fixpoint ok (h:held) (code:list act) {struct code} : bool :=
  match code with
  | [] => negb (holdsAny h)
  | Acq m :: k => negb (holdsAny h) && ok (Some m) k
  | Rel m :: k => match h with Some m' => mode_eqb m m' && ok None k | None => false end
  | Rd _ :: k => holdsAny h && ok h k
  | Wr _ :: k => holdsW h && ok h k
  | Spawn i :: k => held_eqb (fst (entry i)) None && ok h k
  | Handoff i :: k => held_eqb (fst (entry i)) h && ok None k
  end.
Definition tbl_ok := forallb (fun e => ok (fst e) (snd e)) tbl.

Record thread := { th : held; code : list act }.
Record cfg := { wlock : bool; rcount : nat; ts : list thread }.

Definition cntW (l:list thread) := length (filter (fun t => holdsW (th t)) l).
Definition isR (h:held) := match h with Some MR => true | _ => false end.
Definition cntR (l:list thread) := length (filter (fun t => isR (th t)) l).

Inductive step : cfg -> cfg -> Prop :=
| SAcqW l r h k c : ts c = l ++ {|th:=h; code:=Acq MW :: k|} :: r -> wlock c = false -> rcount c = 0 ->
    step c {| wlock := true; rcount := 0; ts := l ++ {|th:=Some MW; code:=k|} :: r |}
| SAcqR l r h k c : ts c = l ++ {|th:=h; code:=Acq MR :: k|} :: r -> wlock c = false ->
    step c {| wlock := false; rcount := S (rcount c); ts := l ++ {|th:=Some MR; code:=k|} :: r |}
| SRelW l r h k c : ts c = l ++ {|th:=h; code:=Rel MW :: k|} :: r ->
    step c {| wlock := false; rcount := rcount c; ts := l ++ {|th:=None; code:=k|} :: r |}
| SRelR l r h k c : ts c = l ++ {|th:=h; code:=Rel MR :: k|} :: r ->
    step c {| wlock := wlock c; rcount := pred (rcount c); ts := l ++ {|th:=None; code:=k|} :: r |}
| SRd l r h k f c : ts c = l ++ {|th:=h; code:=Rd f :: k|} :: r ->
    step c {| wlock := wlock c; rcount := rcount c; ts := l ++ {|th:=h; code:=k|} :: r |}
| SWr l r h k f c : ts c = l ++ {|th:=h; code:=Wr f :: k|} :: r ->
    step c {| wlock := wlock c; rcount := rcount c; ts := l ++ {|th:=h; code:=k|} :: r |}
| SSpawn l r h k b c : ts c = l ++ {|th:=h; code:=Spawn b :: k|} :: r ->
    step c {| wlock := wlock c; rcount := rcount c; ts := l ++ {|th:=h; code:=k|} :: r ++ [{|th:=None; code:=snd (entry b)|}] |}
| SHandoff l r h k b c : ts c = l ++ {|th:=h; code:=Handoff b :: k|} :: r ->
    step c {| wlock := wlock c; rcount := rcount c; ts := l ++ {|th:=None; code:=k|} :: r ++ [{|th:=h; code:=snd (entry b)|}] |}.

Inductive steps : cfg -> cfg -> Prop :=
| steps_refl c : steps c c
| steps_trans a b c : steps a b -> step b c -> steps a c.

Definition Inv (c:cfg) : Prop :=
  Forall (fun t => ok (th t) (code t) = true) (ts c) /\
  cntW (ts c) = (if wlock c then 1 else 0) /\
  cntR (ts c) = rcount c /\
  (wlock c = true -> rcount c = 0).

Lemma cntW_app a b : cntW (a ++ b) = cntW a + cntW b.
Proof. unfold cntW. rewrite filter_app, app_length. reflexivity. Qed.
Lemma cntR_app a b : cntR (a ++ b) = cntR a + cntR b.
Proof. unfold cntR. rewrite filter_app, app_length. reflexivity. Qed.
Lemma cntW_cons t l : cntW (t :: l) = (if holdsW (th t) then 1 else 0) + cntW l.
Proof. unfold cntW. simpl. destruct (holdsW (th t)); reflexivity. Qed.
Lemma cntR_cons t l : cntR (t :: l) = (if isR (th t) then 1 else 0) + cntR l.
Proof. unfold cntR. simpl. destruct (isR (th t)); reflexivity. Qed.

Lemma cntW_nil : cntW [] = 0. Proof. reflexivity. Qed.
Lemma cntR_nil : cntR [] = 0. Proof. reflexivity. Qed.
Ltac norm := repeat (progress (rewrite ?cntW_app, ?cntR_app, ?cntW_cons, ?cntR_cons, ?cntW_nil, ?cntR_nil in * ));
  cbn [th code holdsW isR holdsAny] in *.

Lemma Forall_mid {A} (P:A->Prop) l x r : Forall P (l ++ x :: r) <-> Forall P l /\ P x /\ Forall P r.
Proof. rewrite Forall_app. split; intros [H1 H2]; [inversion H2; subst; auto | destruct H2; auto]. Qed.

Hypothesis Htbl : tbl_ok = true.
Lemma entry_ok i : ok (fst (entry i)) (snd (entry i)) = true.
Proof. unfold entry. destruct (nth_in_or_default i tbl (None, [])) as [Hin | Hd]; [|rewrite Hd; reflexivity].
  unfold tbl_ok in Htbl. rewrite forallb_forall in Htbl. auto. Qed.

Ltac fin Hex := repeat split; try lia; try discriminate;
  try (let H := fresh in intro H; try discriminate H; try (specialize (Hex H)); lia).

Lemma step_inv c c' : Inv c -> step c c' -> Inv c'.
Proof.
  intros (Hok & HW & HR & Hex) Hs.
  destruct Hs as [l r h k c E Hw Hr | l r h k c E Hw | l r h k c E | l r h k c E
                 | l r h k f c E | l r h k f c E | l r h k b c E | l r h k b c E];
  rewrite E in *; apply Forall_mid in Hok; destruct Hok as (Hl & Hx & Hrr);
  cbn [th code ok] in Hx; unfold Inv; cbn [wlock rcount ts].
  - (* AcqW *) apply andb_prop in Hx as [Hh Hk]. destruct h; [discriminate|].
    split; [apply Forall_mid; auto|]. norm. rewrite Hw in HW. fin Hex.
  - (* AcqR *) apply andb_prop in Hx as [Hh Hk]. destruct h; [discriminate|].
    split; [apply Forall_mid; auto|]. norm. rewrite Hw in *. fin Hex.
  - (* RelW *) destruct h as [[|]|]; try discriminate. cbn in Hx.
    split; [apply Forall_mid; auto|]. norm.
    destruct (wlock c) eqn:Ew; [|lia]. specialize (Hex eq_refl). fin Hex.
  - (* RelR *) destruct h as [[|]|]; try discriminate. cbn in Hx.
    split; [apply Forall_mid; auto|]. norm. fin Hex.
  - (* Rd *) apply andb_prop in Hx as [Hh Hk].
    split; [apply Forall_mid; auto|]. norm. fin Hex.
  - (* Wr *) apply andb_prop in Hx as [Hh Hk].
    split; [apply Forall_mid; auto|]. norm. fin Hex.
  - (* Spawn *) apply andb_prop in Hx as [Hb Hk]. apply held_eqb_eq in Hb.
    split.
    + apply Forall_mid. repeat split; auto. apply Forall_app. split; auto.
      constructor; [|constructor]. cbn. rewrite <- Hb. apply entry_ok.
    + norm. cbn. fin Hex.
  - (* Handoff *) apply andb_prop in Hx as [Hb Hk]. apply held_eqb_eq in Hb.
    split.
    + apply Forall_mid. repeat split; auto. apply Forall_app. split; auto.
      constructor; [|constructor]. cbn. rewrite <- Hb. apply entry_ok.
    + norm. cbn. destruct h as [[|]|]; cbn in *; fin Hex.
Qed.

Lemma steps_inv c c' : Inv c -> steps c c' -> Inv c'.
Proof. intros Hi Hs. induction Hs as [|a b c0 Hab IH Hbc]; [assumption|]. eapply step_inv; [apply IH; assumption | exact Hbc]. Qed.

(* a race: two distinct threads are about to access the same field, one of them writing *)
Definition accesses (t:thread) (f:nat) (w:bool) : Prop :=
  match code t with
  | Wr g :: _ => g = f
  | Rd g :: _ => g = f /\ w = false
  | _ => False
  end.
Definition race (c:cfg) : Prop :=
  exists l m r t1 t2 f w, ts c = l ++ t1 :: m ++ t2 :: r /\
    ((accesses t1 f true /\ accesses t2 f w) \/ (accesses t1 f w /\ accesses t2 f true)).

Lemma writer_needs_W t f : ok (th t) (code t) = true -> accesses t f true -> holdsW (th t) = true.
Proof. unfold accesses. destruct (code t) as [|[]]; try tauto; cbn; intros H A.
  - destruct A; discriminate. - apply andb_prop in H; tauto. Qed.
Lemma access_needs_lock t f w : ok (th t) (code t) = true -> accesses t f w -> holdsAny (th t) = true.
Proof. unfold accesses. destruct (code t) as [|[]]; try tauto; cbn; intros H A; apply andb_prop in H as [H _]; auto.
  destruct (th t) as [[|]|]; auto; discriminate. Qed.

Theorem inv_no_race c : Inv c -> ~ race c.
Proof.
  intros (Hok & HW & HR & Hex) (l & m & r & t1 & t2 & f & w & E & Hacc).
  rewrite E in *.
  apply Forall_app in Hok as [_ Hok]. inversion Hok as [|? ? H1 Hok']; subst.
  apply Forall_app in Hok' as [_ Hok']. inversion Hok' as [|? ? H2 _]; subst.
  norm.
  assert (Hany1 : holdsAny (th t1) = true) by (destruct Hacc as [[A _]|[A _]]; eapply access_needs_lock; eauto).
  assert (Hany2 : holdsAny (th t2) = true) by (destruct Hacc as [[_ A]|[_ A]]; eapply access_needs_lock; eauto).
  assert (HWx : holdsW (th t1) = true \/ holdsW (th t2) = true)
    by (destruct Hacc as [[A _]|[_ A]]; [left|right]; eapply writer_needs_W; eauto).
  destruct (th t1) as [[|]|], (th t2) as [[|]|]; cbn in *; try discriminate;
    destruct HWx; try discriminate; destruct (wlock c); try lia;
    try (specialize (Hex eq_refl); lia).
Qed.

Theorem discipline_implies_race_free_sec (progs : list (list act)) c :
  forallb (ok None) progs = true ->
  steps {| wlock := false; rcount := 0; ts := map (fun p => {| th := None; code := p |}) progs |} c ->
  ~ race c.
Proof.
  intros Hd Hs. apply inv_no_race. eapply steps_inv; [|exact Hs].
  unfold Inv; cbn. repeat split; try discriminate.
  - apply Forall_forall. intros t Ht. apply in_map_iff in Ht as (p & <- & Hp). cbn.
    rewrite forallb_forall in Hd. auto.
  - clear. induction progs as [|p ps IH]; cbn; auto.
  - clear. induction progs as [|p ps IH]; cbn; auto.
Qed.
End Prog.
Theorem discipline_implies_race_free tbl progs c :
  tbl_ok tbl = true -> forallb (ok tbl None) progs = true ->
  steps tbl {| wlock := false; rcount := 0; ts := map (fun p => {| th := None; code := p |}) progs |} c ->
  ~ race c.
Proof. intros. eapply discipline_implies_race_free_sec; eauto. Qed.
Print Assumptions discipline_implies_race_free.

(* non-vacuity: a writer method, a reader method with hand-off to a goroutine, and a bad method *)
Definition put := [Acq MW; Rd 0; Wr 1; Wr 0; Rel MW].
Definition allkeys_ro := [Acq MR; Rd 0; Handoff 0].          (* ReadOnly.AllKeysChan shape *)
Definition allkeys_rw_bad := [Acq MW; Rd 0; Spawn 1; Rel MW]. (* ReadWrite.AllKeysChan shape *)
Definition good_table := [ (Some MR, [Rd 1; Rd 1; Rel MR]) ].
Definition bad_table := good_table ++ [ (None, [Rd 1]) ].     (* goroutine reads idx with no lock *)
Example good : tbl_ok good_table && forallb (ok good_table None) [put; allkeys_ro; put] = true.
Proof. reflexivity. Qed.
Example bad_detected : tbl_ok bad_table = false.
Proof. reflexivity. Qed.
