(* C15, layer B: what "each block once, in first-visit order" and "the section's position"
   mean -- first_occ and place characterised without reference to any go-car code. *)
From GoCar Require Import Bytes Varint Cid Header Frame V2Header Scan Traversal.
From GoCarProofs Require Import BytesFacts VarintFacts ScanFacts.

Lemma mem_In c s : mem c s = true <-> In c s.
Proof.
  induction s as [|x s IH]; cbn [mem In]; [split; [discriminate|tauto]|].
  rewrite orb_true_iff, IH, bytes_eqb_eq. split; intros [H|H]; auto.
Qed.
Lemma mem_false c s : mem c s = false <-> ~ In c s.
Proof. rewrite <- mem_In. destruct (mem c s); split; congruence. Qed.

(* order-preserving sub-sequence *)
Inductive subseq {A} : list A -> list A -> Prop :=
| ss_nil : subseq [] []
| ss_skip x l1 l2 : subseq l1 l2 -> subseq l1 (x :: l2)
| ss_take x l1 l2 : subseq l1 l2 -> subseq (x :: l1) (x :: l2).

Lemma first_occ_from_subseq seen bs : subseq (first_occ_from seen bs) bs.
Proof.
  revert seen. induction bs as [|b t IH]; intros seen; cbn [first_occ_from]; [constructor|].
  destruct (mem (fst b) seen); [apply ss_skip|apply ss_take]; apply IH.
Qed.

Lemma first_occ_from_In seen bs c :
  In c (map fst (first_occ_from seen bs)) <-> In c (map fst bs) /\ ~ In c seen.
Proof.
  revert seen. induction bs as [|b t IH]; intros seen; cbn [first_occ_from map In]; [tauto|].
  destruct (mem (fst b) seen) eqn:E.
  - apply mem_In in E. rewrite IH. split.
    + intros [H1 H2]. auto.
    + intros [[H1|H1] H2]; [subst; contradiction|auto].
  - apply mem_false in E. cbn [map In]. rewrite IH. cbn [In]. split.
    + intros [H|[H1 H2]]; [subst; auto|]. split; [auto|]. intros H3. apply H2. auto.
    + intros [[H1|H1] H2]; [auto|].
      destruct (bytes_eqb (fst b) c) eqn:E2.
      * apply bytes_eqb_eq in E2. auto.
      * right. split; [exact H1|]. intros [H3|H3]; [|contradiction].
        rewrite H3, bytes_eqb_refl in E2. discriminate.
Qed.

Lemma first_occ_from_NoDup seen bs : NoDup (map fst (first_occ_from seen bs)).
Proof.
  revert seen. induction bs as [|b t IH]; intros seen; cbn [first_occ_from map]; [constructor|].
  destruct (mem (fst b) seen); [apply IH|]. cbn [map]. constructor; [|apply IH].
  rewrite first_occ_from_In. cbn [In]. tauto.
Qed.

(* the copy that is kept is the FIRST one: nothing with that cid comes before it *)
Lemma first_occ_from_first seen bs b :
  In b (first_occ_from seen bs) ->
  exists pre post, bs = pre ++ b :: post /\ ~ In (fst b) (map fst pre) /\ ~ In (fst b) seen.
Proof.
  revert seen. induction bs as [|x t IH]; intros seen; cbn [first_occ_from]; [intros []|].
  destruct (mem (fst x) seen) eqn:E.
  - intros H. destruct (IH _ H) as (pre & post & -> & H1 & H2).
    exists (x :: pre), post. split; [reflexivity|]. split; [|exact H2].
    cbn [map In]. intros [H3|H3]; [|contradiction]. apply mem_In in E. rewrite H3 in E. contradiction.
  - intros [H|H].
    + subst. exists [], t. split; [reflexivity|]. split; [intros []|]. apply mem_false. exact E.
    + destruct (IH _ H) as (pre & post & -> & H1 & H2).
      exists (x :: pre), post. split; [reflexivity|]. cbn [In] in H2. split; [|tauto].
      cbn [map In]. intros [H3|H3]; [|contradiction]. apply H2. left. exact H3.
Qed.

(* without repeats nothing is dropped *)
Lemma first_occ_from_nodup_id seen bs :
  NoDup (map fst bs) -> (forall c, In c (map fst bs) -> ~ In c seen) -> first_occ_from seen bs = bs.
Proof.
  revert seen. induction bs as [|b t IH]; intros seen Hnd Hdis; cbn [first_occ_from]; [reflexivity|].
  cbn [map] in Hnd. inversion Hnd as [|? ? Hni Hnd']; subst.
  replace (mem (fst b) seen) with false
    by (symmetry; apply mem_false; apply Hdis; left; reflexivity).
  f_equal. apply IH; [exact Hnd'|].
  intros c Hc [H|H]; [subst; contradiction|]. eapply Hdis; [right; exact Hc|exact H].
Qed.

Lemma has_repeat_false_NoDup seen bs :
  has_repeat seen bs = false -> NoDup (map fst bs) /\ (forall c, In c (map fst bs) -> ~ In c seen).
Proof.
  revert seen. induction bs as [|b t IH]; intros seen; cbn [has_repeat map].
  - intros _. split; [constructor|intros c []].
  - intros H. apply orb_false_iff in H. destruct H as [H1 H2].
    apply mem_false in H1. destruct (IH _ H2) as [Hnd Hdis]. split.
    + constructor; [|exact Hnd]. intros Hin. apply (Hdis _ Hin). left. reflexivity.
    + intros c [Hc|Hc]; [subst; exact H1|]. intros Hs. apply (Hdis _ Hc). right. exact Hs.
Qed.

Theorem first_occ_spec bs :
  NoDup (map fst (first_occ bs))
  /\ (forall c, In c (map fst (first_occ bs)) <-> In c (map fst bs))
  /\ subseq (first_occ bs) bs
  /\ (forall b, In b (first_occ bs) ->
        exists pre post, bs = pre ++ b :: post /\ ~ In (fst b) (map fst pre)).
Proof.
  unfold first_occ. split; [apply first_occ_from_NoDup|]. split.
  - intros c. rewrite first_occ_from_In. cbn [In]. tauto.
  - split; [apply first_occ_from_subseq|].
    intros b H. destruct (first_occ_from_first _ _ _ H) as (pre & post & H1 & H2 & _). eauto.
Qed.

(* ---- place: running offsets are the true positions ------------------------------------------ *)
Lemma enc_sections_cons b bs : enc_sections (b :: bs) = enc_section (fst b) (snd b) ++ enc_sections bs.
Proof. reflexivity. Qed.
Lemma enc_sections_app a b : enc_sections (a ++ b) = enc_sections a ++ enc_sections b.
Proof. unfold enc_sections. rewrite map_app, concat_app. reflexivity. Qed.

Definition sections_len (bs : list block) : N := blen (enc_sections bs).

Lemma sections_len_cons b bs : sections_len (b :: bs) = section_size (fst b) (snd b) + sections_len bs.
Proof. unfold sections_len. rewrite enc_sections_cons, blen_app, blen_enc_section. reflexivity. Qed.

Lemma place_locates : forall bs hd tl b off sz,
  In (b, off, sz) (place (blen hd) bs) ->
  take sz (drop off (hd ++ enc_sections bs ++ tl)) = enc_section (fst b) (snd b)
  /\ sz = blen (enc_section (fst b) (snd b))
  /\ off + sz <= blen (hd ++ enc_sections bs)
  /\ blen hd <= off.
Proof.
  induction bs as [|x t IH]; intros hd tl b off sz; cbn [place In]; [intros []|].
  intros [H|H].
  - inversion H; subst. rewrite enc_sections_cons.
    rewrite drop_app. rewrite <- !app_assoc. rewrite <- blen_enc_section.
    rewrite take_app. rewrite !blen_app. repeat split; lia.
  - rewrite <- blen_enc_section in H. rewrite <- blen_app in H.
    specialize (IH (hd ++ enc_section (fst x) (snd x)) tl b off sz H).
    rewrite enc_sections_cons. rewrite <- !app_assoc in *.
    destruct IH as (H1 & H2 & H3 & H4). rewrite !blen_app in *. repeat split; try assumption; lia.
Qed.

Lemma place_blocks off bs : map (fun e => fst (fst e)) (place off bs) = bs.
Proof. revert off. induction bs as [|b t IH]; intros off; cbn [place map fst]; [reflexivity|]. rewrite IH. reflexivity. Qed.
