(* C14: NewBlockReader on constructed CARv1 / CARv2 files, facts about the expected walk,
   and the end-to-end statements used by props/C14.v. *)
From GoCar Require Import Bytes Varint Cid Header Frame V2Header Scan BlockReaderPos.
From GoCarProofs Require Import BytesFacts VarintFacts CidFacts HeaderFacts ScanFacts BlockReaderPosFacts.

(* ---- the 40-byte CARv2 header round-trips ---------------------------------------------- *)
Lemma blen_le_enc8 n : blen (le_enc 8 n) = 8.
Proof. unfold blen. rewrite le_enc_length. reflexivity. Qed.

Lemma take8_le n r : take 8 (le_enc 8 n ++ r) = le_enc 8 n.
Proof. rewrite <- (blen_le_enc8 n) at 1. apply take_app. Qed.
Lemma drop8_le n r : drop 8 (le_enc 8 n ++ r) = r.
Proof. rewrite <- (blen_le_enc8 n) at 1. apply drop_app. Qed.

Lemma le_dec_enc8 n : n < two64 -> le_dec (le_enc 8 n) = n.
Proof. intros H. apply le_dec_enc. exact H. Qed.

Lemma blen_enc_v2hdr h : blen (enc_v2hdr h) = 40.
Proof. unfold enc_v2hdr. rewrite !blen_app, !blen_le_enc8. reflexivity. Qed.

Lemma as_int64_small n : n < two63 -> as_int64 n = Z.of_N n.
Proof. intros H. unfold as_int64. replace (n <? two63) with true by lia. reflexivity. Qed.

Lemma read_v2hdr_enc h rest :
  h_hi h < two64 -> h_lo h < two64 -> 51 <= h_doff h -> h_doff h < two63 ->
  0 < h_dsize h -> h_dsize h < two63 -> h_ioff h < two63 ->
  read_v2hdr (enc_v2hdr h ++ rest) = Ok (h, rest).
Proof.
  intros Hhi Hlo Hd1 Hd2 Hs1 Hs2 Hi.
  assert (T63 : two63 < two64) by (unfold two63, two64; lia).
  unfold read_v2hdr.
  replace (blen (enc_v2hdr h ++ rest) <? 16) with false by (rewrite blen_app, blen_enc_v2hdr; lia).
  replace (blen (enc_v2hdr h ++ rest) <? 40) with false by (rewrite blen_app, blen_enc_v2hdr; lia).
  assert (D40 : drop 40 (enc_v2hdr h ++ rest) = rest).
  { rewrite <- (blen_enc_v2hdr h). apply drop_app. }
  rewrite D40.
  unfold enc_v2hdr. rewrite <- !app_assoc.
  change 16 with (8 + 8). change 24 with (8 + 8 + 8). change 32 with (8 + 8 + 8 + 8).
  rewrite <- !drop_drop. rewrite !drop8_le, !take8_le.
  rewrite !le_dec_enc8 by lia.
  rewrite !as_int64_small by assumption.
  replace (Z.of_N (h_doff h) <? 51)%Z with false by lia.
  replace (Z.of_N (h_dsize h) <=? 0)%Z with false by lia.
  replace (Z.of_N (h_ioff h) <? 0)%Z with false by lia.
  destruct h; reflexivity.
Qed.

Lemma pragma_is_ld : pragma = ld pragma_body.
Proof. reflexivity. Qed.
Lemma blen_pragma : blen pragma = 11.
Proof. reflexivity. Qed.

(* ---- facts about the expected walk (pure list reasoning) ------------------------------- *)
Lemma enc_sections_cons c d bs : enc_sections ((c, d) :: bs) = enc_section c d ++ enc_sections bs.
Proof. reflexivity. Qed.

Lemma enc_sections_app a b : enc_sections (a ++ b) = enc_sections a ++ enc_sections b.
Proof. unfold enc_sections. rewrite map_app, concat_app. reflexivity. Qed.

Lemma enc_sections_split bs i c d : nth_error bs i = Some (c, d) ->
  enc_sections bs = enc_sections (firstn i bs) ++ enc_section c d ++ enc_sections (skipn (S i) bs).
Proof.
  revert i. induction bs as [|[c0 d0] bs IH]; intros [|i] H; cbn [nth_error] in H; try discriminate.
  - inversion H; subst. reflexivity.
  - cbn [firstn skipn]. rewrite !enc_sections_cons, (IH i H), <- !app_assoc. reflexivity.
Qed.

Lemma exp_walk_cids sp base : forall w bs off hw,
  map step_cid (fst (exp_walk sp base w bs off hw)) = firstn (length w) (map fst bs).
Proof.
  induction w as [|ch w IH]; intros bs off hw; [reflexivity|].
  destruct bs as [|[c d] bs]; [reflexivity|].
  cbn [exp_walk fst map length firstn]. rewrite IH. destruct ch; reflexivity.
Qed.

Lemma exp_walk_end sp base : forall w bs off hw,
  snd (exp_walk sp base w bs off hw) = if (length bs <? length w)%nat then Some EEof else None.
Proof.
  induction w as [|ch w IH]; intros bs off hw.
  - cbn [exp_walk snd length]. destruct (length bs <? 0)%nat eqn:E; [apply Nat.ltb_lt in E; lia|reflexivity].
  - destruct bs as [|[c d] bs]; [reflexivity|].
    cbn [exp_walk snd length]. rewrite IH. reflexivity.
Qed.

Lemma exp_walk_length sp base : forall w bs off hw,
  length (fst (exp_walk sp base w bs off hw)) = Nat.min (length w) (length bs).
Proof.
  induction w as [|ch w IH]; intros bs off hw; [reflexivity|].
  destruct bs as [|[c d] bs]; [reflexivity|].
  cbn [exp_walk fst length]. rewrite IH. reflexivity.
Qed.

Lemma exp_walk_nth sp base : forall w bs off hw i s,
  nth_error (fst (exp_walk sp base w bs off hw)) i = Some s ->
  exists c d ch hw', nth_error bs i = Some (c, d) /\ nth_error w i = Some ch /\
    let soff := off + blen (enc_sections (firstn i bs)) in
    let eoff := off + blen (enc_sections (firstn (S i) bs)) in
    s = if ch : bool then StN c d eoff hw'
        else StS (mkmeta c (soff - base) soff (blen d)) eoff hw'.
Proof.
  induction w as [|ch w IH]; intros bs off hw i s H.
  - destruct i; discriminate.
  - destruct bs as [|[c d] bs]; [destruct i; discriminate|].
    cbn [exp_walk fst] in H.
    assert (Hss : uv_size (blen c + blen d) + (blen c + blen d) = blen (enc_section c d))
      by (rewrite blen_enc_section; unfold section_size, ld_size; lia).
    destruct i as [|i]; cbn [nth_error] in H.
    + inversion H; subst s. exists c, d, ch. eexists. split; [reflexivity|split; [reflexivity|]].
      cbn [firstn]. rewrite enc_sections_cons. change (enc_sections []) with (@nil byte).
      rewrite app_nil_r, blen_nil, N.add_0_r, Hss. destruct ch; reflexivity.
    + destruct (IH _ _ _ _ _ H) as (c' & d' & ch' & hw' & Hb & Hw & Hs).
      exists c', d', ch', hw'. split; [exact Hb|split; [exact Hw|]].
      cbn zeta in *. rewrite Hs.
      change (firstn (S i) ((c, d) :: bs)) with ((c, d) :: firstn i bs).
      change (firstn (S (S i)) ((c, d) :: bs)) with ((c, d) :: firstn (S i) bs).
      rewrite !enc_sections_cons, !blen_app, Hss, !N.add_assoc. reflexivity.
Qed.

Lemma exp_walk_bounds sp base : forall w bs off hw s,
  hw <= off -> In s (fst (exp_walk sp base w bs off hw)) ->
  step_hw s <= step_pos s /\ step_pos s <= off + blen (enc_sections bs).
Proof.
  induction w as [|ch w IH]; intros bs off hw s Hhw Hin; [destruct Hin|].
  destruct bs as [|[c d] bs]; [destruct Hin|].
  cbn [exp_walk fst] in Hin.
  assert (Hss : uv_size (blen c + blen d) + (blen c + blen d) = blen (enc_section c d))
    by (rewrite blen_enc_section; unfold section_size, ld_size; lia).
  rewrite enc_sections_cons, blen_app.
  set (off' := off + (uv_size (blen c + blen d) + (blen c + blen d))) in *.
  set (hw' := if ch || negb sp then N.max hw off'
              else N.max hw (off + uv_size (blen c + blen d) + blen c)) in *.
  assert (Hhw' : hw' <= off') by (unfold hw', off'; destruct (ch || negb sp); lia).
  destruct Hin as [<-|Hin].
  - destruct ch; cbn [step_hw step_pos]; unfold off' in *; lia.
  - destruct (IH bs off' hw' s Hhw' Hin) as (H1 & H2). split; [exact H1|]. unfold off' in *. lia.
Qed.

Section Oracles.
  Variable hok : bytes -> bytes -> option bool.
  Variable hdrdec : bytes -> option (list bytes * N).

  (* "valid archive": what archive_ok says (header decodable and within limits, blocks
     within limits and -- unless trusted -- hashing to their CIDs) plus CIDs the stream
     parser accepts *)
  Definition walk_ok (o : ropts) (roots : list bytes) (bs : list block) : Prop :=
    archive_ok hok hdrdec o roots bs /\ Forall (fun b => cid_stream_ok (fst b)) bs.

  Lemma walk_ok_blocks o roots bs : walk_ok o roots bs -> blocks_ok hok o bs.
  Proof. intros ((_ & _ & _ & H1 & H2) & H3). split; [exact H1|split; [exact H3|exact H2]]. Qed.

  (* ---- CARv1 ---------------------------------------------------------------------------- *)
  Lemma brp_open_v1 o seek roots bs : walk_ok o roots bs ->
    let h := sec_start roots bs 0 in
    brp_open hdrdec o seek (enc_payload roots bs)
    = Ok (1, roots, mkbrp (enc_payload roots bs) seek h h None h 0 None).
  Proof.
    intros ((Hg & Hmax & H63 & _) & _). cbn zeta. unfold brp_open, enc_payload.
    rewrite (read_header_payload hdrdec) by assumption. cbn [N.eqb Pos.eqb].
    unfold sec_start, header_size. cbn [firstn]. change (enc_sections []) with (@nil byte).
    rewrite app_nil_r, blen_ld. reflexivity.
  Qed.

  Theorem brp_run_v1 o seek roots bs w : walk_ok o roots bs ->
    let h := sec_start roots bs 0 in
    exists st0 fin,
      brp_run hok hdrdec o seek (enc_payload roots bs) w
      = Ok (1, roots, st0, (fst (exp_walk seek 0 w bs h h), (snd (exp_walk seek 0 w bs h h), fin))) /\
      p_hw st0 = h /\ p_pos st0 = h /\
      p_hw fin = last (map step_hw (fst (exp_walk seek 0 w bs h h))) h /\
      (p_off st0 = h /\ p_all st0 = enc_payload roots bs /\ p_rsize st0 = None).
  Proof.
    intros Hok. cbn zeta. unfold brp_run. rewrite (brp_open_v1 o seek roots bs Hok). cbn zeta.
    set (h := sec_start roots bs 0).
    set (st0 := mkbrp (enc_payload roots bs) seek h h None h 0 None).
    assert (Hh : h = blen (ld (enc_header (Some roots) 1))).
    { unfold h, sec_start. cbn [firstn]. change (enc_sections []) with (@nil byte). rewrite app_nil_r. reflexivity. }
    assert (Hat : at_bytes st0 (ld (enc_header (Some roots) 1)) (enc_sections bs) []).
    { unfold at_bytes, st0. cbn [p_all p_pos p_lim]. rewrite app_nil_r. split; [reflexivity|split; [exact Hh|reflexivity]]. }
    destruct (brp_walk_sections hok o w bs st0 _ [] (walk_ok_blocks _ _ _ Hok) Hat Hh I) as (Hw & Hfin).
    rewrite <- Hh in Hw. change (seekpath st0) with (seek && true) in Hw. rewrite andb_true_r in Hw.
    change (p_v1off st0) with 0 in Hw. change (p_hw st0) with h in Hw.
    exists st0, (snd (snd (brp_walk hok o w st0))).
    split; [|split; [reflexivity|split; [reflexivity|split; [|repeat split]]]].
    - rewrite <- Hw. cbn [fst snd].
      destruct (brp_walk hok o w st0) as [steps [e fin]]. reflexivity.
    - rewrite Hfin. rewrite <- Hw. reflexivity.
  Qed.

  (* ---- CARv2 ---------------------------------------------------------------------------- *)
  Definition v2_params_ok (o : ropts) (hi lo ioff : N) (pad payload : bytes) : Prop :=
    hdrdec pragma_body = Some ([], 2) /\ 10 <= o_maxh o /\
    hi < two64 /\ lo < two64 /\ ioff < two63 /\ 51 + blen pad < two63 /\ blen payload < two63.

  Lemma blen_enc_payload_pos roots bs : 0 < blen (enc_payload roots bs).
  Proof.
    unfold enc_payload, ld. rewrite !blen_app, blen_put_uv.
    pose proof (uv_size_pos (blen (enc_header (Some roots) 1))). lia.
  Qed.

  Theorem brp_run_v2 o seek roots bs w hi lo ioff pad trailer :
    walk_ok o roots bs -> v2_params_ok o hi lo ioff pad (enc_payload roots bs) ->
    let base := 51 + blen pad in
    let h := base + sec_start roots bs 0 in
    exists st0 fin,
      brp_run hok hdrdec o seek (v2_file hi lo ioff pad (enc_payload roots bs) trailer) w
      = Ok (2, roots, st0, (fst (exp_walk false base w bs h h), (snd (exp_walk false base w bs h h), fin))) /\
      p_hw st0 = h /\ p_pos st0 = h /\
      p_hw fin = last (map step_hw (fst (exp_walk false base w bs h h))) h /\
      (p_off st0 = h /\ p_all st0 = v2_file hi lo ioff pad (enc_payload roots bs) trailer /\ p_lim st0 <> None).
  Proof.
    intros Hok (Hpr & Hmaxh & Hhi & Hlo & Hio & Hdo & Hds). cbn zeta.
    pose proof Hok as ((Hg & Hmax & H63 & _) & _).
    set (payload := enc_payload roots bs) in *.
    set (hd := mkv2 hi lo (51 + blen pad) (blen payload) ioff).
    unfold brp_run, brp_open, v2_file. fold hd. change pragma with (ld pragma_body).
    set (file := ld pragma_body ++ enc_v2hdr hd ++ pad ++ payload ++ trailer).
    assert (Hfile : file = ld pragma_body ++ enc_v2hdr hd ++ pad ++ payload ++ trailer) by reflexivity.
    unfold read_header at 1. unfold file at 1.
    rewrite ld_read_ld; [|cbn; unfold two63; lia|exact Hmaxh|discriminate].
    rewrite Hpr. cbn [N.eqb Pos.eqb].
    rewrite read_v2hdr_enc; cbn [h_hi h_lo h_doff h_dsize h_ioff hd]; try assumption; try lia;
      [|apply blen_enc_payload_pos].
    replace (51 + blen pad - 51) with (blen pad) by lia.
    replace (blen (pad ++ payload ++ trailer) <? blen pad) with false by (rewrite blen_app; lia).
    rewrite andb_false_r.
    change (ld_size (blen pragma_body)) with 11.
    set (st00 := mkbrp file seek (11 + 40 + blen pad) (if seek then 11 + 40 else 11 + 40 + blen pad)
                       (Some (blen payload)) (51 + blen pad) (51 + blen pad)
                       (Some (wrap64 (51 + blen pad + blen payload)))).
    set (P := ld pragma_body ++ enc_v2hdr hd ++ pad).
    assert (HP : blen P = 51 + blen pad).
    { unfold P. rewrite !blen_app, blen_enc_v2hdr. change (blen (ld pragma_body)) with 11. lia. }
    assert (Hat0 : at_bytes st00 P (ld (enc_header (Some roots) 1) ++ enc_sections bs) trailer).
    { unfold at_bytes, st00. cbn [p_all p_pos p_lim]. split; [|split].
      - rewrite Hfile. unfold P, payload, enc_payload. rewrite <- !app_assoc. reflexivity.
      - rewrite HP. lia.
      - left. reflexivity. }
    rewrite (vis_at _ _ _ _ Hat0).
    rewrite (read_header_payload hdrdec) by assumption. cbn [N.eqb Pos.eqb].
    set (hl := ld_size (blen (enc_header (Some roots) 1))).
    assert (Hhl : hl = blen (ld (enc_header (Some roots) 1))) by (unfold hl; rewrite blen_ld; reflexivity).
    assert (Hs0 : sec_start roots bs 0 = hl).
    { unfold sec_start. cbn [firstn]. change (enc_sections []) with (@nil byte). rewrite app_nil_r. symmetry. exact Hhl. }
    rewrite Hs0.
    set (st0 := set_off (51 + blen pad + header_size roots 1) (adv hl st00)).
    assert (Hat : at_bytes st0 (P ++ ld (enc_header (Some roots) 1)) (enc_sections bs) trailer).
    { unfold st0. apply at_set_off. rewrite Hhl. apply at_adv. exact Hat0. }
    assert (Hoff : p_off st0 = blen (P ++ ld (enc_header (Some roots) 1))).
    { unfold st0. cbn [set_off p_off]. rewrite blen_app, HP, <- Hhl. reflexivity. }
    assert (Hlen : blen (P ++ ld (enc_header (Some roots) 1)) = 51 + blen pad + hl)
      by (rewrite blen_app, HP, <- Hhl; reflexivity).
    assert (Hhl1 : 1 <= hl) by (unfold hl, ld_size; pose proof (uv_size_pos (blen (enc_header (Some roots) 1))); lia).
    assert (Hhw0 : p_hw st0 = 51 + blen pad + hl).
    { unfold st0, st00. cbn [set_off adv p_hw p_pos]. replace (hl =? 0) with false by lia. destruct seek; lia. }
    assert (Hrs : rsize_inv st0) by (unfold rsize_inv, st0, st00; cbn; discriminate).
    destruct (brp_walk_sections hok o w bs st0 _ trailer (walk_ok_blocks _ _ _ Hok) Hat Hoff Hrs) as (Hw & Hfin).
    rewrite Hlen, Hhw0 in Hw.
    assert (Hsp : seekpath st0 = false) by (unfold seekpath, st0, st00; cbn; apply andb_false_r).
    rewrite Hsp in Hw. change (p_v1off st0) with (51 + blen pad) in Hw.
    exists st0, (snd (snd (brp_walk hok o w st0))).
    split; [|split; [exact Hhw0|split]].
    - rewrite <- Hw. cbn [fst snd]. destruct (brp_walk hok o w st0) as [steps [e fin]]. reflexivity.
    - destruct Hat as (_ & Hpos & _). rewrite Hpos. exact Hlen.
    - split; [rewrite Hfin; rewrite <- Hw, Hhw0; reflexivity|].
      split; [rewrite Hoff; exact Hlen|]. split; [reflexivity|]. unfold st0, st00. cbn. discriminate.
  Qed.
End Oracles.
