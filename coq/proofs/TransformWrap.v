(* LoadIndex over constructed payloads, WrapV1's layout, termination (fuel) of the section loop,
   and extract (wrap x) = x. *)
From GoCar Require Import Bytes Varint Cid Header Frame V2Header Scan Index Transform.
From GoCarProofs Require Import BytesFacts VarintFacts CidFacts HeaderFacts ScanFacts TransformFacts.

(* ---- the fixed CARv2 header round-trips -------------------------------------------------------- *)
Lemma blen_le_enc w n : blen (le_enc w n) = N.of_nat w.
Proof. unfold blen. rewrite le_enc_length. reflexivity. Qed.

Lemma blen_enc_v2hdr h : blen (enc_v2hdr h) = 40.
Proof. unfold enc_v2hdr. rewrite !blen_app, !blen_le_enc. reflexivity. Qed.

Lemma take8_app (a r : bytes) : blen a = 8 -> take 8 (a ++ r) = a.
Proof. intros H. rewrite <- H. apply take_app. Qed.
Lemma drop8_app (a r : bytes) : blen a = 8 -> drop 8 (a ++ r) = r.
Proof. intros H. rewrite <- H. apply drop_app. Qed.

Definition v2hdr_ok (h : v2hdr) : Prop :=
  h_hi h < two64 /\ h_lo h < two64 /\ 51 <= h_doff h < two63 /\ 0 < h_dsize h < two63 /\
  h_ioff h < two63.

Lemma read_v2hdr_enc h rest : v2hdr_ok h -> read_v2hdr (enc_v2hdr h ++ rest) = Ok (h, rest).
Proof.
  intros (Hhi & Hlo & Hdo & Hds & Hio). destruct h as [hi lo doff dsize ioff]. cbn [h_hi h_lo h_doff h_dsize h_ioff] in *.
  unfold read_v2hdr.
  assert (Hl : blen (enc_v2hdr (mkv2 hi lo doff dsize ioff) ++ rest) = 40 + blen rest)
    by (rewrite blen_app, blen_enc_v2hdr; reflexivity).
  rewrite Hl.
  replace (40 + blen rest <? 16) with false by lia.
  replace (40 + blen rest <? 40) with false by lia.
  unfold enc_v2hdr. cbn [h_hi h_lo h_doff h_dsize h_ioff]. rewrite <- !app_assoc.
  set (a1 := le_enc 8 hi). set (a2 := le_enc 8 lo). set (a3 := le_enc 8 doff).
  set (a4 := le_enc 8 dsize). set (a5 := le_enc 8 ioff).
  assert (L1 : blen a1 = 8) by apply blen_le_enc. assert (L2 : blen a2 = 8) by apply blen_le_enc.
  assert (L3 : blen a3 = 8) by apply blen_le_enc. assert (L4 : blen a4 = 8) by apply blen_le_enc.
  assert (L5 : blen a5 = 8) by apply blen_le_enc.
  assert (D8 : drop 8 (a1 ++ a2 ++ a3 ++ a4 ++ a5 ++ rest) = a2 ++ a3 ++ a4 ++ a5 ++ rest) by (apply drop8_app; exact L1).
  assert (D16 : drop 16 (a1 ++ a2 ++ a3 ++ a4 ++ a5 ++ rest) = a3 ++ a4 ++ a5 ++ rest).
  { change 16 with (8 + 8). rewrite <- drop_drop, D8. apply drop8_app; exact L2. }
  assert (D24 : drop 24 (a1 ++ a2 ++ a3 ++ a4 ++ a5 ++ rest) = a4 ++ a5 ++ rest).
  { change 24 with (16 + 8). rewrite <- drop_drop, D16. apply drop8_app; exact L3. }
  assert (D32 : drop 32 (a1 ++ a2 ++ a3 ++ a4 ++ a5 ++ rest) = a5 ++ rest).
  { change 32 with (24 + 8). rewrite <- drop_drop, D24. apply drop8_app; exact L4. }
  assert (D40 : drop 40 (a1 ++ a2 ++ a3 ++ a4 ++ a5 ++ rest) = rest).
  { change 40 with (32 + 8). rewrite <- drop_drop, D32. apply drop8_app; exact L5. }
  rewrite D8, D16, D24, D32, D40.
  rewrite !take8_app by assumption.
  unfold a1, a2, a3, a4, a5.
  assert (P : 256 ^ N.of_nat 8 = two64) by reflexivity.
  rewrite !le_dec_enc by (rewrite P; unfold two63, two64 in *; lia).
  unfold as_int64.
  replace (doff <? two63) with true by lia. replace (dsize <? two63) with true by lia.
  replace (ioff <? two63) with true by lia.
  replace (Z.of_N doff <? 51)%Z with false by lia.
  replace (Z.of_N dsize <=? 0)%Z with false by lia.
  replace (Z.of_N ioff <? 0)%Z with false by lia.
  reflexivity.
Qed.

Lemma pragma_is_ld : pragma = ld pragma_body.
Proof. reflexivity. Qed.

(* ---- blocks LoadIndex accepts ---------------------------------------------------------------- *)
(* a section LoadIndex walks over: a well-formed CID (digest within go-cid's allocation cap),
   section length representable, and - if the CID is to be indexed - within MaxIndexCidSize *)
Definition lblock_ok (o : xopts) (b : block) : Prop :=
  exists p, cid_ok p /\ fst b = cid_enc p /\ blen (c_digest p) <= max_digest_alloc /\
            blen (fst b) + blen (snd b) < two63 /\
            (x_storeid o || negb (is_identity p) = true -> blen (fst b) <= x_maxcid o).

Lemma spec_records_cons storeid off c d t p : cid_ok p -> c = cid_enc p ->
  spec_records storeid off ((c, d) :: t)
  = (if storeid || negb (is_identity p) then [mkrec c (c_mhcode p) (c_digest p) off] else [])
    ++ spec_records storeid (off + section_size c d) t.
Proof.
  intros Hp ->. cbn [spec_records]. unfold keep_cid, rec_of_cid. rewrite cid_parse_enc by exact Hp.
  destruct (storeid || negb (is_identity p)); reflexivity.
Qed.

Lemma blen_enc_sections_cons c d t :
  blen (enc_sections ((c, d) :: t)) = section_size c d + blen (enc_sections t).
Proof.
  unfold enc_sections. cbn [map concat fst snd]. rewrite blen_app, blen_enc_section. reflexivity.
Qed.

Section Wrap.
  Variable hdrdec : bytes -> option (list bytes * N).

  (* the section loop on a constructed CARv1: all = pre ++ sections, reader positioned at |pre| *)
  Lemma li_loop_sections o all : blen all <= x_maxseek o -> blen all < two63 ->
    forall bs pre acc fuel,
      all = pre ++ enc_sections bs -> Forall (lblock_ok o) bs -> (length bs < fuel)%nat ->
      li_loop fuel o all (blen pre) 0 0 acc
      = Ok (rev acc ++ spec_records (x_storeid o) (blen pre) bs).
  Proof.
    intros Hseek H63. induction bs as [|[c d] bs IH]; intros pre acc fuel Hall Hok Hfuel.
    - destruct fuel; [cbn in Hfuel; lia|]. cbn [li_loop].
      rewrite (view_at all pre [] ) by (rewrite Hall; reflexivity).
      cbn. rewrite app_nil_r. reflexivity.
    - destruct fuel; [cbn in Hfuel; lia|]. cbn [li_loop].
      inversion Hok as [|? ? Hb Hok']; subst x l.
      destruct Hb as (p & Hp & Hc & Hdig & Hlen & Hcid). cbn [fst snd] in Hc, Hlen, Hcid.
      set (slen := blen c + blen d) in *.
      set (rest := enc_sections bs).
      assert (Hall2 : all = pre ++ put_uv slen ++ c ++ d ++ rest).
      { rewrite Hall. unfold enc_sections. cbn [map concat fst snd]. unfold enc_section.
        fold slen. rewrite <- !app_assoc. reflexivity. }
      rewrite (view_at all pre _ Hall2).
      rewrite read_uv_put_uv by exact Hlen.
      assert (Hc2 : 2 <= blen c) by (rewrite Hc; apply cid_enc_nonempty; exact Hp).
      replace (slen =? 0) with false by lia.
      assert (Hv : drop (blen pre + uv_size slen) all = c ++ d ++ rest).
      { rewrite <- blen_put_uv, <- blen_app. apply view_at. rewrite Hall2, <- app_assoc. reflexivity. }
      rewrite Hv. rewrite Hc at 1.
      rewrite cid_from_reader_enc by assumption. rewrite <- Hc.
      set (keep := x_storeid o || negb (is_identity p)) in *.
      assert (Hk : keep && (x_maxcid o <? blen c) = false).
      { destruct keep; [|reflexivity]. cbn [andb]. specialize (Hcid eq_refl). lia. }
      rewrite Hk.
      assert (Hnpos : blen pre + uv_size slen + slen = blen (pre ++ enc_section c d)).
      { rewrite blen_app, blen_enc_section. unfold section_size, ld_size. fold slen. lia. }
      assert (Hle : blen (pre ++ enc_section c d) <= blen all).
      { rewrite Hall. unfold enc_sections. cbn [map concat fst snd]. rewrite !blen_app. lia. }
      rewrite Hnpos.
      assert (Hs : seek_ok o (blen (pre ++ enc_section c d)) = true).
      { unfold seek_ok. apply andb_true_iff. split; lia. }
      rewrite Hs. cbn [negb N.eqb andb].
      rewrite IH; [| |exact Hok'|cbn in Hfuel; lia].
      + rewrite (spec_records_cons _ _ c d bs p Hp Hc). rewrite N.sub_0_r.
        rewrite blen_app, blen_enc_section. fold keep.
        destruct keep; cbn [rev app]; rewrite <- ?app_assoc; reflexivity.
      + rewrite Hall. unfold enc_sections. cbn [map concat fst snd]. rewrite <- app_assoc. reflexivity.
  Qed.

  (* the archives WrapV1 is specified on *)
  Definition wrap_ok (o : xopts) (roots : list bytes) (bs : list block) : Prop :=
    hdr_good hdrdec roots /\
    blen (enc_header (Some roots) 1) <= x_maxh o /\
    Forall (lblock_ok o) bs /\
    blen (enc_payload roots bs) <= x_maxseek o /\ blen (enc_payload roots bs) < two63.

  Theorem load_index_payload o roots bs : wrap_ok o roots bs ->
    load_index hdrdec o (enc_payload roots bs)
    = Ok (spec_records (x_storeid o) (blen (ld (enc_header (Some roots) 1))) bs).
  Proof.
    intros (Hg & Hmax & Hok & Hseek & H63). unfold load_index.
    assert (Hh63 : blen (enc_header (Some roots) 1) < two63).
    { unfold enc_payload in H63. rewrite blen_app, blen_ld in H63. unfold ld_size in H63. lia. }
    unfold enc_payload at 1. rewrite read_header_payload by assumption.
    cbn [N.eqb Pos.eqb].
    assert (Hcons : consumed (enc_payload roots bs) (enc_sections bs)
                    = blen (ld (enc_header (Some roots) 1))).
    { unfold consumed, enc_payload. rewrite blen_app. lia. }
    rewrite Hcons.
    rewrite (li_loop_sections o (enc_payload roots bs) Hseek H63 bs (ld (enc_header (Some roots) 1)) []);
      [reflexivity|reflexivity|exact Hok|].
    pose proof (enc_sections_length (fun _ _ => None) hdrdec bs). unfold enc_payload. rewrite app_length. lia.
  Qed.

  (* C10 wrap layout, general half: whatever the source, a successful WrapV1 wrote pragma,
     NewHeader(|x|), x verbatim, and the serialized index of the records LoadIndex produced *)
  Theorem wrap_layout_any o x w : wrap_bytes hdrdec o x = Ok w ->
    exists i0 recs, idx_new (x_codec o) = Some i0 /\ load_index hdrdec o x = Ok recs /\
      w = pragma ++ enc_v2hdr (new_header (blen x)) ++ x ++ idx_write (idx_load recs i0).
  Proof.
    unfold wrap_bytes. destruct (idx_new (x_codec o)) as [i0|]; [|discriminate].
    destruct (load_index hdrdec o x) as [recs|e]; [|discriminate].
    intros H. inversion H. exists i0, recs. auto.
  Qed.

  (* constructed half: on every valid CARv1 the options accept, WrapV1 succeeds and the index holds
     exactly one record per indexed section at the offset of its length varint *)
  Theorem wrap_layout_payload o roots bs i0 : wrap_ok o roots bs -> idx_new (x_codec o) = Some i0 ->
    let x := enc_payload roots bs in
    wrap_bytes hdrdec o x
    = Ok (pragma ++ enc_v2hdr (new_header (blen x)) ++ x ++
          idx_write (idx_load (spec_records (x_storeid o) (blen (ld (enc_header (Some roots) 1))) bs) i0)).
  Proof.
    intros Hok Hi x. unfold wrap_bytes. rewrite Hi. unfold x. rewrite load_index_payload by exact Hok.
    reflexivity.
  Qed.

  Theorem wrap_unknown_codec o x : idx_new (x_codec o) = None -> wrap_bytes hdrdec o x = Err EOther.
  Proof. intros H. unfold wrap_bytes. rewrite H. reflexivity. Qed.

  (* WrapV1File: the source is never modified (when it is not the destination) and on failure
     the destination exists and is empty *)
  Theorem wrap_file_other o x d :
    wrap_file hdrdec o (mkfs (Some x) (DOther d))
    = match wrap_bytes hdrdec o x with
      | Ok w => (Ok tt, mkfs (Some x) (DOther (Some w)))
      | Err e => (Err e, mkfs (Some x) (DOther (Some [])))
      end.
  Proof. unfold wrap_file. cbn. destruct (wrap_bytes hdrdec o x); reflexivity. Qed.

  (* ---- termination of the section loop ----------------------------------------------------- *)
  Lemma read_uv_f_ok_used : forall fuel i x bs v r n,
    read_uv_f fuel i x bs = VOk v r n -> i + 1 <= n /\ bs <> [].
  Proof.
    induction fuel as [|f IH]; intros i x bs v r n H; [discriminate|].
    cbn [read_uv_f] in H. destruct bs as [|b t]; [destruct (i =? 0); discriminate|].
    split; [|discriminate].
    destruct (((i =? 8) && (128 <=? b2n b)) || (9 <=? i)); [discriminate|].
    destruct (b2n b <? 128).
    - destruct ((b2n b =? 0) && (0 <? i)); [discriminate|]. inversion H. lia.
    - apply IH in H. lia.
  Qed.

  Lemma li_loop_fuel_enough : forall fuel o all pos doff dsize acc,
    blen all - pos < N.of_nat fuel -> li_loop fuel o all pos doff dsize acc <> Err EFuel.
  Proof.
    induction fuel as [|f IH]; intros o all pos doff dsize acc Hf; [lia|].
    cbn [li_loop]. destruct (negb (dsize =? 0) && (dsize <=? pos - doff)); [discriminate|].
    destruct (read_uv (drop pos all)) as [slen r n| | | |] eqn:Eu; try discriminate.
    destruct (slen =? 0); [destruct (x_zeof o); discriminate|].
    destruct (cid_from_reader (drop (pos + n) all)) as [cn c p r2| |k]; try discriminate.
    destruct (_ && (x_maxcid o <? cn)); [discriminate|].
    destruct (negb (seek_ok o (pos + n + slen))); [discriminate|].
    apply IH. unfold read_uv in Eu. apply read_uv_f_ok_used in Eu. destruct Eu as [Hn Hne].
    assert (pos < blen all).
    { destruct (N.lt_ge_cases pos (blen all)) as [H|H]; [exact H|].
      exfalso. apply Hne. apply drop_ge. exact H. }
    lia.
  Qed.

  Theorem load_index_fuel_enough o all : load_index hdrdec o all <> Err EFuel.
  Proof.
    unfold load_index.
    pose proof (read_header_not_fuel hdrdec (x_maxh o) all) as Hrh.
    destruct (read_header hdrdec (x_maxh o) all) as [[[[roots v] rest] used]|e].
    - destruct (v =? 1).
      + apply li_loop_fuel_enough. unfold blen. lia.
      + destruct (v =? 2); [|discriminate].
        pose proof (read_v2hdr_not_fuel rest) as Hv2.
        destruct (read_v2hdr rest) as [[h rest2]|e]; [|congruence].
        destruct (negb (seek_ok o (h_doff h))); [discriminate|].
        pose proof (read_header_not_fuel hdrdec (x_maxh o) (drop (h_doff h) all)) as Hrh2.
        destruct (read_header hdrdec (x_maxh o) (drop (h_doff h) all)) as [[[[roots1 v1] rest1] used1]|e] eqn:Erh2; [|congruence].
        destruct (negb (v1 =? 1)); [discriminate|].
        apply li_loop_fuel_enough. unfold blen. lia.
    - destruct e; discriminate.
  Qed.

  Corollary wrap_bytes_fuel_enough o x : wrap_bytes hdrdec o x <> Err EFuel.
  Proof.
    unfold wrap_bytes. destruct (idx_new (x_codec o)); [|discriminate].
    pose proof (load_index_fuel_enough o x). destruct (load_index hdrdec o x); [discriminate|congruence].
  Qed.

  (* ---- extract (wrap x) = x ------------------------------------------------------------------ *)
  (* the pragma WrapV1 writes is read back as version 2 by the header decoder *)
  Definition pragma_good : Prop := exists rs, hdrdec pragma_body = Some (rs, 2).

  Lemma read_header_pragma maxh rest : pragma_good -> 10 <= maxh ->
    exists rs, read_header hdrdec maxh (pragma ++ rest) = Ok (rs, 2, rest, 11).
  Proof.
    intros (rs & Hp) Hmax. exists rs. rewrite pragma_is_ld. unfold read_header.
    rewrite ld_read_ld; [|cbn; unfold two63; lia|cbn; lia|discriminate].
    rewrite Hp. reflexivity.
  Qed.

  Lemma load_index_nonempty o x recs : load_index hdrdec o x = Ok recs -> 0 < blen x.
  Proof.
    unfold load_index, read_header, ld_read, ld_read_size. destruct x as [|b t]; [discriminate|].
    intros _. rewrite blen_cons. lia.
  Qed.

  Theorem extract_wrap csz ow oe x w dst : csz_pos csz ->
    wrap_bytes hdrdec ow x = Ok w ->
    blen x + 51 < two63 ->           (* int64 file offsets: NewHeader's IndexOffset must not wrap *)
    pragma_good -> 10 <= x_maxh oe -> seek_ok oe 51 = true ->
    let '(r, s') := extract_file hdrdec csz oe (mkfs (Some w) dst) in
    r = XOk /\ dst_content s' = Some x /\ (dst <> DSame -> f_src s' = Some w).
  Proof.
    intros Hcsz Hw H63 Hpg Hmax Hseek.
    destruct (wrap_layout_any ow x w Hw) as (i0 & recs & Hi & Hli & ->).
    pose proof (load_index_nonempty ow x recs Hli) as Hpos.
    set (h := new_header (blen x)).
    set (tail := idx_write (idx_load recs i0)).
    destruct (read_header_pragma (x_maxh oe) (enc_v2hdr h ++ x ++ tail) Hpg Hmax) as (rs & Hrh).
    assert (Hhok : v2hdr_ok h).
    { unfold v2hdr_ok, h, new_header, wrap64. cbn [h_hi h_lo h_doff h_dsize h_ioff].
      rewrite N.mod_small by (unfold two63, two64 in *; lia). unfold two63, two64 in *. lia. }
    pose proof (read_v2hdr_enc h (x ++ tail) Hhok) as Hv2.
    assert (Hwin : take (h_dsize h) (drop (h_doff h) (pragma ++ enc_v2hdr h ++ x ++ tail)) = x).
    { unfold h, new_header. cbn [h_doff h_dsize].
      replace (pragma ++ enc_v2hdr (mkv2 0 0 51 (blen x) (wrap64 (51 + blen x))) ++ x ++ tail)
        with ((pragma ++ enc_v2hdr (mkv2 0 0 51 (blen x) (wrap64 (51 + blen x)))) ++ x ++ tail)
        by (rewrite <- app_assoc; reflexivity).
      replace 51 with (blen (pragma ++ enc_v2hdr (mkv2 0 0 51 (blen x) (wrap64 (51 + blen x)))))
        by (rewrite blen_app, blen_enc_v2hdr; reflexivity).
      rewrite drop_app. apply take_app. }
    pose proof (extract_exact hdrdec csz oe (pragma ++ enc_v2hdr h ++ x ++ tail) dst rs _ 11 h (x ++ tail)
                  Hcsz Hrh Hv2) as Hex.
    cbn [h_doff h_dsize h new_header] in Hex. fold h in Hex.
    assert (Hlen : 51 + blen x <= blen (pragma ++ enc_v2hdr h ++ x ++ tail)).
    { rewrite !blen_app, blen_enc_v2hdr. change (blen pragma) with 11. lia. }
    generalize (Hex Hseek Hlen); clear Hex; intros Hex.
    revert Hex.
    match goal with |- context [extract_file ?a ?b ?c ?d] => destruct (extract_file a b c d) as [r s'] end.
    intros Hex.
    destruct Hex as (Hr & Hd & Hs). split; [exact Hr|]. split; [|exact Hs].
    rewrite Hd. f_equal. exact Hwin.
  Qed.
End Wrap.

(* with the model's own canonical header decoder the oracle hypotheses are theorems *)
Lemma pragma_good_canon : pragma_good dec_header_canon.
Proof. exists []. apply dec_header_pragma. Qed.
