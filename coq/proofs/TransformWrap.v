(* LoadIndex over constructed payloads, WrapV1's layout, termination (fuel) of the section loop,
   and extract (wrap x) = x. *)
From GoCar Require Import Bytes Varint Cid Header Frame V2Header Scan Index Transform.
From GoCarProofs Require Import BytesFacts VarintFacts CidFacts HeaderFacts ScanFacts TransformFacts.

(* ---- the fixed CARv2 header round-trips -------------------------------------------------------- *)
Lemma blen_le_enc w n : blen (le_enc w n) = N.of_nat w.
Proof. unfold blen. rewrite le_enc_length. reflexivity. Qed.

Lemma blen_enc_v2hdr h : blen (enc_v2hdr h) = 40.
Proof. unfold enc_v2hdr. rewrite !blen_app, !blen_le_enc. reflexivity. Qed.

Lemma take8_app (a r : bytes) : blen a = 8 -> take 8 (a ++ r) = a.
Proof. intros H. rewrite <- H. apply take_app. Qed.
Lemma drop8_app (a r : bytes) : blen a = 8 -> drop 8 (a ++ r) = r.
Proof. intros H. rewrite <- H. apply drop_app. Qed.

Definition v2hdr_ok (h : v2hdr) : Prop :=
  h_hi h < two64 /\ h_lo h < two64 /\ 51 <= h_doff h < two63 /\ 0 < h_dsize h < two63 /\
  h_ioff h < two63.

(* Header.ReadFrom on an encoded header: accepted exactly when [v2hdr_accepted] *)
Lemma read_v2hdr_enc_exact h rest :
  h_hi h < two64 -> h_lo h < two64 -> h_doff h < two64 -> h_dsize h < two64 -> h_ioff h < two64 ->
  read_v2hdr (enc_v2hdr h ++ rest) = if v2hdr_accepted h then Ok (h, rest) else Err EOther.
Proof.
  intros Hhi Hlo Hdo Hds Hio. destruct h as [hi lo doff dsize ioff]. cbn [h_hi h_lo h_doff h_dsize h_ioff] in *.
  unfold read_v2hdr.
  assert (Hl : blen (enc_v2hdr (mkv2 hi lo doff dsize ioff) ++ rest) = 40 + blen rest)
    by (rewrite blen_app, blen_enc_v2hdr; reflexivity).
  rewrite Hl.
  replace (40 + blen rest <? 16) with false by lia.
  replace (40 + blen rest <? 40) with false by lia.
  unfold enc_v2hdr. cbn [h_hi h_lo h_doff h_dsize h_ioff]. rewrite <- !app_assoc.
  set (a1 := le_enc 8 hi). set (a2 := le_enc 8 lo). set (a3 := le_enc 8 doff).
  set (a4 := le_enc 8 dsize). set (a5 := le_enc 8 ioff).
  assert (L1 : blen a1 = 8) by apply blen_le_enc. assert (L2 : blen a2 = 8) by apply blen_le_enc.
  assert (L3 : blen a3 = 8) by apply blen_le_enc. assert (L4 : blen a4 = 8) by apply blen_le_enc.
  assert (L5 : blen a5 = 8) by apply blen_le_enc.
  assert (D8 : drop 8 (a1 ++ a2 ++ a3 ++ a4 ++ a5 ++ rest) = a2 ++ a3 ++ a4 ++ a5 ++ rest) by (apply drop8_app; exact L1).
  assert (D16 : drop 16 (a1 ++ a2 ++ a3 ++ a4 ++ a5 ++ rest) = a3 ++ a4 ++ a5 ++ rest).
  { change 16 with (8 + 8). rewrite <- drop_drop, D8. apply drop8_app; exact L2. }
  assert (D24 : drop 24 (a1 ++ a2 ++ a3 ++ a4 ++ a5 ++ rest) = a4 ++ a5 ++ rest).
  { change 24 with (16 + 8). rewrite <- drop_drop, D16. apply drop8_app; exact L3. }
  assert (D32 : drop 32 (a1 ++ a2 ++ a3 ++ a4 ++ a5 ++ rest) = a5 ++ rest).
  { change 32 with (24 + 8). rewrite <- drop_drop, D24. apply drop8_app; exact L4. }
  assert (D40 : drop 40 (a1 ++ a2 ++ a3 ++ a4 ++ a5 ++ rest) = rest).
  { change 40 with (32 + 8). rewrite <- drop_drop, D32. apply drop8_app; exact L5. }
  rewrite D8, D16, D24, D32, D40.
  rewrite !take8_app by assumption.
  unfold a1, a2, a3, a4, a5.
  assert (P : 256 ^ N.of_nat 8 = two64) by reflexivity.
  rewrite !le_dec_enc by (rewrite P; assumption).
  unfold as_int64, v2hdr_accepted. cbn [h_doff h_dsize h_ioff].
  destruct (doff <? two63) eqn:E1; destruct (dsize <? two63) eqn:E2; destruct (ioff <? two63) eqn:E3;
    destruct (51 <=? doff) eqn:E4; destruct (0 <? dsize) eqn:E5; cbn [andb];
    repeat match goal with |- context [if ?c then _ else _] => let E := fresh "E" in destruct c eqn:E end;
    try reflexivity; exfalso; unfold two63, two64 in *; lia.
Qed.

Lemma read_v2hdr_enc h rest : v2hdr_ok h -> read_v2hdr (enc_v2hdr h ++ rest) = Ok (h, rest).
Proof.
  intros (Hhi & Hlo & Hdo & Hds & Hio).
  rewrite read_v2hdr_enc_exact by (try assumption; unfold two63, two64 in *; lia).
  unfold v2hdr_accepted.
  replace (51 <=? h_doff h) with true by lia. replace (h_doff h <? two63) with true by lia.
  replace (0 <? h_dsize h) with true by lia. replace (h_dsize h <? two63) with true by lia.
  replace (h_ioff h <? two63) with true by lia. reflexivity.
Qed.

Lemma pragma_is_ld : pragma = ld pragma_body.
Proof. reflexivity. Qed.

(* ---- blocks LoadIndex accepts ---------------------------------------------------------------- *)
(* a section LoadIndex walks over: a well-formed CID whose digest fits an index bucket (32 MiB - 8,
   below go-cid's 32 MiB allocation cap; the same condition as C03's), section length representable,
   and - if the CID is to be indexed - within MaxIndexCidSize *)
Definition lblock_ok (o : xopts) (b : block) : Prop :=
  exists p, cid_ok p /\ fst b = cid_enc p /\ blen (c_digest p) + 8 <= max_width /\
            blen (fst b) + blen (snd b) < two63 /\
            (x_storeid o || negb (is_identity p) = true -> blen (fst b) <= x_maxcid o).

Lemma spec_records_cons storeid off c d t p : cid_ok p -> c = cid_enc p ->
  spec_records storeid off ((c, d) :: t)
  = (if storeid || negb (is_identity p) then [mkrec c (c_mhcode p) (c_digest p) off] else [])
    ++ spec_records storeid (off + section_size c d) t.
Proof.
  intros Hp ->. cbn [spec_records]. unfold keep_cid, rec_of_cid. rewrite cid_parse_enc by exact Hp.
  destruct (storeid || negb (is_identity p)); reflexivity.
Qed.

Lemma blen_enc_sections_cons c d t :
  blen (enc_sections ((c, d) :: t)) = section_size c d + blen (enc_sections t).
Proof.
  unfold enc_sections. cbn [map concat fst snd]. rewrite blen_app, blen_enc_section. reflexivity.
Qed.
Lemma enc_sections_cons c d t : enc_sections ((c, d) :: t) = enc_section c d ++ enc_sections t.
Proof. reflexivity. Qed.
Lemma section_size_pos c d : 1 <= section_size c d.
Proof. unfold section_size, ld_size. pose proof (uv_size_pos (blen c + blen d)). lia. Qed.

Lemma let_pair_fst_snd {A B : Type} (p : A * B) (P : A -> B -> Prop) :
  (let '(x, y) := p in P x y) -> P (fst p) (snd p).
Proof. destruct p. auto. Qed.

Section Wrap.
  Variable hdrdec : bytes -> option (list bytes * N).

  (* walking the sections of a constructed payload that sits anywhere in a file: all = pre ++
     sections ++ post, reader at |pre|; [doff]/[dsize] = 0/0 (CARv1 source) or the CARv2 window,
     which must not end before the sections do; every position up to the end of the sections is
     seekable.  The loop arrives at the end of the sections with one record per indexed section. *)
  Lemma li_loop_through o all : blen all < two63 ->
    forall bs pre post acc f doff dsize,
      all = pre ++ enc_sections bs ++ post -> Forall (lblock_ok o) bs -> doff <= blen pre ->
      (dsize = 0 \/ blen pre + blen (enc_sections bs) <= dsize + doff) ->
      blen pre + blen (enc_sections bs) <= x_maxseek o ->
      li_loop (length bs + f) o all (blen pre) doff dsize acc
      = li_loop f o all (blen pre + blen (enc_sections bs)) doff dsize
          (rev (spec_records (x_storeid o) (blen pre - doff) bs) ++ acc).
  Proof.
    intros H63. induction bs as [|[c d] bs IH]; intros pre post acc f doff dsize Hall Hok Hdoff Hend Hseek.
    - cbn [length Nat.add spec_records rev app]. change (enc_sections []) with (@nil byte).
      rewrite blen_nil, N.add_0_r. reflexivity.
    - cbn [length Nat.add li_loop].
      inversion Hok as [|? ? Hb Hok']; subst x l.
      destruct Hb as (p & Hp & Hc & Hdig & Hlen & Hcid). cbn [fst snd] in Hc, Hlen, Hcid.
      rewrite blen_enc_sections_cons in Hend, Hseek. pose proof (section_size_pos c d) as Hsp.
      assert (Htop : negb (dsize =? 0) && (dsize <=? blen pre - doff) = false).
      { destruct Hend as [->|Hle]; [reflexivity|]. replace (dsize <=? blen pre - doff) with false by lia.
        apply andb_false_r. }
      rewrite Htop.
      set (slen := blen c + blen d) in *.
      set (rest := enc_sections bs ++ post).
      assert (Hall2 : all = pre ++ put_uv slen ++ c ++ d ++ rest).
      { rewrite Hall, enc_sections_cons. unfold enc_section, rest. fold slen. rewrite <- !app_assoc. reflexivity. }
      rewrite (view_at all pre _ Hall2).
      rewrite read_uv_put_uv by exact Hlen.
      assert (Hc2 : 2 <= blen c) by (rewrite Hc; apply cid_enc_nonempty; exact Hp).
      replace (slen =? 0) with false by lia.
      assert (Hv : drop (blen pre + uv_size slen) all = c ++ d ++ rest).
      { rewrite <- blen_put_uv, <- blen_app. apply view_at. rewrite Hall2, <- app_assoc. reflexivity. }
      rewrite Hv. rewrite Hc at 1.
      rewrite cid_from_reader_enc by (try assumption; unfold max_width, max_digest_alloc in *; lia).
      rewrite <- Hc.
      set (keep := x_storeid o || negb (is_identity p)) in *.
      assert (Hk : keep && (x_maxcid o <? blen c) = false).
      { destruct keep; [|reflexivity]. cbn [andb]. specialize (Hcid eq_refl). lia. }
      rewrite Hk.
      assert (Hnpos : blen pre + uv_size slen + slen = blen (pre ++ enc_section c d)).
      { rewrite blen_app, blen_enc_section. unfold section_size, ld_size. fold slen. lia. }
      assert (Hle : blen (pre ++ enc_section c d) <= blen all).
      { rewrite Hall, enc_sections_cons, !blen_app. lia. }
      rewrite Hnpos.
      assert (Hs : seek_ok o (blen (pre ++ enc_section c d)) = true).
      { unfold seek_ok. rewrite blen_app, blen_enc_section. apply andb_true_iff.
        rewrite blen_app, blen_enc_section in Hle. split; lia. }
      rewrite Hs. cbn [negb].
      rewrite (IH (pre ++ enc_section c d) post); [| |exact Hok'| | |].
      + rewrite (spec_records_cons _ _ c d bs p Hp Hc). fold keep.
        rewrite blen_app, blen_enc_section.
        replace (blen pre + section_size c d - doff) with (blen pre - doff + section_size c d) by lia.
        f_equal; [rewrite blen_enc_sections_cons; lia|].
        destruct keep; cbn [app rev]; rewrite ?rev_app_distr; cbn [rev app]; rewrite <- ?app_assoc; reflexivity.
      + rewrite Hall, enc_sections_cons, <- !app_assoc. reflexivity.
      + rewrite blen_app. lia.
      + destruct Hend as [Hz|Hle2]; [left; exact Hz|right]. rewrite blen_app, blen_enc_section. lia.
      + rewrite blen_app, blen_enc_section. lia.
  Qed.

  (* how the loop ends *)
  Lemma li_loop_end_eof o all e doff dsize acc f : blen all <= e ->
    li_loop (S f) o all e doff dsize acc = Ok (rev acc).
  Proof.
    intros H. cbn [li_loop]. destruct (negb (dsize =? 0) && (dsize <=? e - doff)); [reflexivity|].
    rewrite drop_ge by exact H. reflexivity.
  Qed.
  Lemma li_loop_end_payload o all e doff dsize acc f : dsize <> 0 -> dsize + doff <= e ->
    li_loop (S f) o all e doff dsize acc = Ok (rev acc).
  Proof.
    intros Hnz Hle. cbn [li_loop]. replace (dsize =? 0) with false by lia.
    replace (dsize <=? e - doff) with true by lia. reflexivity.
  Qed.

  Lemma length_enc_sections bs : (length bs <= length (enc_sections bs))%nat.
  Proof. exact (enc_sections_length (fun _ _ => None) hdrdec bs). Qed.

  (* the archives WrapV1 is specified on *)
  Definition wrap_ok (o : xopts) (roots : list bytes) (bs : list block) : Prop :=
    hdr_good hdrdec roots /\
    blen (enc_header (Some roots) 1) <= x_maxh o /\
    Forall (lblock_ok o) bs /\
    blen (enc_payload roots bs) <= x_maxseek o /\ blen (enc_payload roots bs) < two63.

  Theorem load_index_payload o roots bs : wrap_ok o roots bs ->
    load_index hdrdec o (enc_payload roots bs)
    = Ok (spec_records (x_storeid o) (blen (ld (enc_header (Some roots) 1))) bs).
  Proof.
    intros (Hg & Hmax & Hok & Hseek & H63). unfold load_index.
    assert (Hh63 : blen (enc_header (Some roots) 1) < two63).
    { unfold enc_payload in H63. rewrite blen_app, blen_ld in H63. unfold ld_size in H63. lia. }
    unfold enc_payload at 1. rewrite read_header_payload by assumption.
    cbn [N.eqb Pos.eqb].
    assert (Hcons : consumed (enc_payload roots bs) (enc_sections bs)
                    = blen (ld (enc_header (Some roots) 1))).
    { unfold consumed, enc_payload. rewrite blen_app. lia. }
    rewrite Hcons.
    pose proof (length_enc_sections bs) as Hl.
    assert (Hlen : (length bs <= length (enc_payload roots bs))%nat) by (unfold enc_payload; rewrite app_length; lia).
    replace (S (length (enc_payload roots bs)))
      with (length bs + S (length (enc_payload roots bs) - length bs))%nat by lia.
    assert (Hall : enc_payload roots bs = ld (enc_header (Some roots) 1) ++ enc_sections bs ++ [])
      by (rewrite app_nil_r; reflexivity).
    assert (Hend : blen (ld (enc_header (Some roots) 1)) + blen (enc_sections bs) = blen (enc_payload roots bs))
      by (unfold enc_payload; rewrite blen_app; reflexivity).
    rewrite (li_loop_through o (enc_payload roots bs) H63 bs _ [] [] _ 0 0 Hall Hok); [|lia|left; reflexivity|lia].
    rewrite Hend, li_loop_end_eof by lia.
    rewrite app_nil_r, rev_involutive, N.sub_0_r. reflexivity.
  Qed.

  (* a CARv2 as the SOURCE of WrapV1 (misuse the code does not refuse): LoadIndex walks the inner
     payload; any characteristics, index offset, padding bytes and trailer *)
  Definition pragma_good : Prop := exists rs, hdrdec pragma_body = Some (rs, 2).

  Lemma read_header_pragma maxh rest : pragma_good -> 10 <= maxh ->
    exists rs, read_header hdrdec maxh (pragma ++ rest) = Ok (rs, 2, rest, 11).
  Proof.
    intros (rs & Hp) Hmax. exists rs. rewrite pragma_is_ld. unfold read_header.
    rewrite ld_read_ld; [|cbn; unfold two63; lia|cbn; lia|discriminate].
    rewrite Hp. reflexivity.
  Qed.

  Definition container_of (hi lo ioff : N) (pad payload trailer : bytes) : bytes :=
    v2_container (mkv2 hi lo (51 + blen pad) (blen payload) ioff) pad payload trailer.

  Theorem load_index_container o hi lo ioff pad roots bs trailer :
    pragma_good -> 10 <= x_maxh o -> hdr_good hdrdec roots ->
    blen (enc_header (Some roots) 1) <= x_maxh o -> Forall (lblock_ok o) bs ->
    hi < two64 -> lo < two64 -> ioff < two63 ->
    blen (container_of hi lo ioff pad (enc_payload roots bs) trailer) <= x_maxseek o ->
    blen (container_of hi lo ioff pad (enc_payload roots bs) trailer) < two63 ->
    load_index hdrdec o (container_of hi lo ioff pad (enc_payload roots bs) trailer)
    = Ok (spec_records (x_storeid o) (blen (ld (enc_header (Some roots) 1))) bs).
  Proof.
    intros Hpg Hmax10 Hg Hmax Hok Hhi Hlo Hio Hseek H63.
    set (payload := enc_payload roots bs) in *.
    set (h := mkv2 hi lo (51 + blen pad) (blen payload) ioff).
    set (all := container_of hi lo ioff pad payload trailer) in *.
    assert (Eall : all = pragma ++ enc_v2hdr h ++ pad ++ payload ++ trailer) by reflexivity.
    assert (Hlen : blen all = 51 + blen pad + blen payload + blen trailer).
    { rewrite Eall, !blen_app, blen_enc_v2hdr. change (blen pragma) with 11. lia. }
    assert (Hpl : blen payload = blen (ld (enc_header (Some roots) 1)) + blen (enc_sections bs))
      by (unfold payload, enc_payload; rewrite blen_app; reflexivity).
    assert (Hhpos : 1 <= blen (ld (enc_header (Some roots) 1))).
    { rewrite blen_ld. unfold ld_size. pose proof (uv_size_pos (blen (enc_header (Some roots) 1))). lia. }
    assert (Hh63 : blen (enc_header (Some roots) 1) < two63).
    { rewrite blen_ld in Hpl. unfold ld_size in Hpl. lia. }
    assert (Hhok : v2hdr_ok h).
    { unfold v2hdr_ok, h. cbn [h_hi h_lo h_doff h_dsize h_ioff]. unfold two63, two64 in *. lia. }
    unfold load_index.
    destruct (read_header_pragma (x_maxh o) (enc_v2hdr h ++ pad ++ payload ++ trailer) Hpg Hmax10) as (rs & Hrh).
    rewrite Eall at 1. rewrite Hrh. cbn [N.eqb Pos.eqb].
    rewrite read_v2hdr_enc by exact Hhok.
    assert (Hso : seek_ok o (h_doff h) = true).
    { unfold seek_ok, h. cbn [h_doff]. apply andb_true_iff. split; lia. }
    rewrite Hso. cbn [negb].
    set (A := pragma ++ enc_v2hdr h ++ pad).
    assert (HA : blen A = h_doff h).
    { unfold A, h. cbn [h_doff]. rewrite !blen_app, blen_enc_v2hdr. change (blen pragma) with 11. lia. }
    assert (Eall2 : all = A ++ payload ++ trailer) by (rewrite Eall; unfold A; rewrite <- !app_assoc; reflexivity).
    rewrite <- HA.
    assert (Hdrop : drop (blen A) all = ld (enc_header (Some roots) 1) ++ enc_sections bs ++ trailer).
    { rewrite Eall2, drop_app. unfold payload, enc_payload. rewrite <- app_assoc. reflexivity. }
    rewrite !Hdrop.
    rewrite read_header_payload by assumption. cbn [N.eqb Pos.eqb negb].
    assert (Hcons : consumed (ld (enc_header (Some roots) 1) ++ enc_sections bs ++ trailer) (enc_sections bs ++ trailer)
                    = blen (ld (enc_header (Some roots) 1))) by (unfold consumed; rewrite blen_app; lia).
    rewrite Hcons.
    set (pre := A ++ ld (enc_header (Some roots) 1)).
    assert (Hpre : blen A + blen (ld (enc_header (Some roots) 1)) = blen pre) by (unfold pre; rewrite blen_app; reflexivity).
    rewrite Hpre.
    assert (Eall3 : all = pre ++ enc_sections bs ++ trailer).
    { rewrite Eall2. unfold pre, payload, enc_payload. rewrite <- !app_assoc. reflexivity. }
    pose proof (length_enc_sections bs) as Hl.
    assert (Hlb : (length bs <= length all)%nat).
    { rewrite Eall3, !app_length. lia. }
    replace (S (length all)) with (length bs + S (length all - length bs))%nat by lia.
    assert (HA' : blen A = 51 + blen pad) by (rewrite HA; reflexivity).
    cbn [h_dsize h].
    rewrite (li_loop_through o all H63 bs pre trailer [] _ (blen A) (blen payload) Eall3 Hok); [|lia|right; lia|lia].
    rewrite li_loop_end_payload by lia.
    rewrite app_nil_r, rev_involutive. f_equal. f_equal. lia.
  Qed.

  (* ---- termination of the section loop ----------------------------------------------------- *)
  Lemma read_uv_f_ok_used : forall fuel i x bs v r n,
    read_uv_f fuel i x bs = VOk v r n -> i + 1 <= n /\ bs <> [].
  Proof.
    induction fuel as [|f IH]; intros i x bs v r n H; [discriminate|].
    cbn [read_uv_f] in H. destruct bs as [|b t]; [destruct (i =? 0); discriminate|].
    split; [|discriminate].
    destruct (((i =? 8) && (128 <=? b2n b)) || (9 <=? i)); [discriminate|].
    destruct (b2n b <? 128).
    - destruct ((b2n b =? 0) && (0 <? i)); [discriminate|]. inversion H. lia.
    - apply IH in H. lia.
  Qed.

  Lemma li_loop_fuel_enough : forall fuel o all pos doff dsize acc,
    blen all - pos < N.of_nat fuel -> li_loop fuel o all pos doff dsize acc <> Err EFuel.
  Proof.
    induction fuel as [|f IH]; intros o all pos doff dsize acc Hf; [lia|].
    cbn [li_loop]. destruct (negb (dsize =? 0) && (dsize <=? pos - doff)); [discriminate|].
    destruct (read_uv (drop pos all)) as [slen r n| | | |] eqn:Eu; try discriminate.
    destruct (slen =? 0); [destruct (x_zeof o); discriminate|].
    destruct (cid_from_reader (drop (pos + n) all)) as [cn c p r2| |k]; try discriminate.
    destruct (_ && (x_maxcid o <? cn)); [discriminate|].
    destruct (negb (seek_ok o (pos + n + slen))); [discriminate|].
    apply IH. unfold read_uv in Eu. apply read_uv_f_ok_used in Eu. destruct Eu as [Hn Hne].
    assert (pos < blen all).
    { destruct (N.lt_ge_cases pos (blen all)) as [H|H]; [exact H|].
      exfalso. apply Hne. apply drop_ge. exact H. }
    lia.
  Qed.

  Theorem load_index_fuel_enough o all : load_index hdrdec o all <> Err EFuel.
  Proof.
    unfold load_index.
    pose proof (read_header_not_fuel hdrdec (x_maxh o) all) as Hrh.
    destruct (read_header hdrdec (x_maxh o) all) as [[[[roots v] rest] used]|e].
    - destruct (v =? 1).
      + apply li_loop_fuel_enough. unfold blen. lia.
      + destruct (v =? 2); [|discriminate].
        pose proof (read_v2hdr_not_fuel rest) as Hv2.
        destruct (read_v2hdr rest) as [[h rest2]|e]; [|congruence].
        destruct (negb (seek_ok o (h_doff h))); [discriminate|].
        pose proof (read_header_not_fuel hdrdec (x_maxh o) (drop (h_doff h) all)) as Hrh2.
        destruct (read_header hdrdec (x_maxh o) (drop (h_doff h) all)) as [[[[roots1 v1] rest1] used1]|e] eqn:Erh2; [|congruence].
        destruct (negb (v1 =? 1)); [discriminate|].
        apply li_loop_fuel_enough. unfold blen. lia.
    - destruct e; discriminate.
  Qed.

  (* ---- WrapV1's layout ---------------------------------------------------------------------- *)
  Variable srt : list irec -> list irec.   (* what sort.Sort does; no property of it is needed here *)

  (* general half: whatever the source, a successful WrapV1 wrote pragma, NewHeader(|x|), x verbatim,
     and the serialized index of the records LoadIndex produced *)
  Theorem wrap_layout_any o x w : wrap_bytes_with hdrdec srt o x = Ok w ->
    exists i0 recs, idx_new (x_codec o) = Some i0 /\ load_index hdrdec o x = Ok recs /\
      w = pragma ++ enc_v2hdr (new_header (blen x)) ++ x ++ idx_write (idx_load_with srt recs i0).
  Proof.
    unfold wrap_bytes_with. destruct (idx_new (x_codec o)) as [i0|]; [|discriminate].
    destruct (load_index hdrdec o x) as [recs|e]; [|discriminate].
    intros H. inversion H. exists i0, recs. auto.
  Qed.

  (* constructed half: on every valid CARv1 the options accept, WrapV1 succeeds and the index holds
     exactly one record per indexed section at the offset of its length varint *)
  Theorem wrap_layout_payload o roots bs i0 : wrap_ok o roots bs -> idx_new (x_codec o) = Some i0 ->
    let x := enc_payload roots bs in
    wrap_bytes_with hdrdec srt o x
    = Ok (pragma ++ enc_v2hdr (new_header (blen x)) ++ x ++
          idx_write (idx_load_with srt (spec_records (x_storeid o) (blen (ld (enc_header (Some roots) 1))) bs) i0)).
  Proof.
    intros Hok Hi x. unfold wrap_bytes_with. rewrite Hi. unfold x. rewrite load_index_payload by exact Hok.
    reflexivity.
  Qed.

  (* a CARv2 source: the WHOLE file is wrapped as the new payload, and the appended index is that
     of the inner CARv1, with offsets relative to the inner payload *)
  Theorem wrap_layout_container o hi lo ioff pad roots bs trailer i0 :
    pragma_good -> 10 <= x_maxh o -> hdr_good hdrdec roots ->
    blen (enc_header (Some roots) 1) <= x_maxh o -> Forall (lblock_ok o) bs ->
    hi < two64 -> lo < two64 -> ioff < two63 ->
    blen (container_of hi lo ioff pad (enc_payload roots bs) trailer) <= x_maxseek o ->
    blen (container_of hi lo ioff pad (enc_payload roots bs) trailer) < two63 ->
    idx_new (x_codec o) = Some i0 ->
    let x := container_of hi lo ioff pad (enc_payload roots bs) trailer in
    wrap_bytes_with hdrdec srt o x
    = Ok (pragma ++ enc_v2hdr (new_header (blen x)) ++ x ++
          idx_write (idx_load_with srt (spec_records (x_storeid o) (blen (ld (enc_header (Some roots) 1))) bs) i0)).
  Proof.
    intros Hpg H10 Hg Hmax Hok Hhi Hlo Hio Hseek H63 Hi x. unfold wrap_bytes_with. rewrite Hi. unfold x.
    rewrite load_index_container by assumption. reflexivity.
  Qed.

  Theorem wrap_unknown_codec o x : idx_new (x_codec o) = None -> wrap_bytes_with hdrdec srt o x = Err EOther.
  Proof. intros H. unfold wrap_bytes_with. rewrite H. reflexivity. Qed.

  (* WrapV1File: the source is never modified (when it is not the destination) and on failure
     the destination exists and is empty *)
  Theorem wrap_file_other o x d :
    wrap_file_with hdrdec srt o (mkfs (Some x) (DOther d))
    = match wrap_bytes_with hdrdec srt o x with
      | Ok w => (Ok tt, mkfs (Some x) (DOther (Some w)))
      | Err e => (Err e, mkfs (Some x) (DOther (Some [])))
      end.
  Proof. unfold wrap_file_with. cbn. destruct (wrap_bytes_with hdrdec srt o x); reflexivity. Qed.

  (* WrapV1File onto its own source path: os.Create has emptied the source before it is read, so
     the call fails and leaves an empty file -- for every source and all options *)
  Theorem wrap_file_same o x :
    wrap_file_with hdrdec srt o (mkfs (Some x) DSame) = (Err EOther, mkfs (Some []) DSame).
  Proof.
    unfold wrap_file_with. cbn [f_src set_dst f_dst]. unfold wrap_bytes_with.
    destruct (idx_new (x_codec o)); reflexivity.
  Qed.

  (* what was at the destination path before does not matter (absent, shorter, longer) *)
  Corollary wrap_file_dest_irrelevant o x d d' :
    wrap_file_with hdrdec srt o (mkfs (Some x) (DOther d)) = wrap_file_with hdrdec srt o (mkfs (Some x) (DOther d')).
  Proof. rewrite !wrap_file_other. reflexivity. Qed.

  (* the padding options are accepted by WrapV1's signature and have no effect at all *)
  Theorem wrap_ignores_padding o dpad ipad x :
    wrap_bytes_opts hdrdec srt (mkwrapopts o dpad ipad) x = wrap_bytes_opts hdrdec srt (mkwrapopts o 0 0) x
    /\ wrap_bytes_opts hdrdec srt (mkwrapopts o dpad ipad) x = wrap_bytes_with hdrdec srt o x.
  Proof. split; reflexivity. Qed.

  Corollary wrap_bytes_fuel_enough o x : wrap_bytes_with hdrdec srt o x <> Err EFuel.
  Proof.
    unfold wrap_bytes_with. destruct (idx_new (x_codec o)); [|discriminate].
    pose proof (load_index_fuel_enough o x). destruct (load_index hdrdec o x); [discriminate|congruence].
  Qed.

  (* ---- extract (wrap x) = x ------------------------------------------------------------------ *)
  Lemma load_index_nonempty o x recs : load_index hdrdec o x = Ok recs -> 0 < blen x.
  Proof.
    unfold load_index, read_header, ld_read, ld_read_size. destruct x as [|b t]; [discriminate|].
    intros _. rewrite blen_cons. lia.
  Qed.

  Theorem extract_wrap csz ow oe x w dst : csz_pos csz ->
    wrap_bytes_with hdrdec srt ow x = Ok w ->
    blen x + 51 < two63 ->           (* int64 file offsets: NewHeader's IndexOffset must not wrap *)
    pragma_good -> 10 <= x_maxh oe -> seek_ok oe 51 = true ->
    let '(r, s') := extract_file hdrdec csz oe (mkfs (Some w) dst) in
    r = XOk /\ dst_content s' = Some x /\ (dst <> DSame -> f_src s' = Some w).
  Proof.
    intros Hcsz Hw H63 Hpg Hmax Hseek.
    destruct (wrap_layout_any ow x w Hw) as (i0 & recs & Hi & Hli & ->).
    pose proof (load_index_nonempty ow x recs Hli) as Hpos.
    set (h := new_header (blen x)).
    set (tail := idx_write (idx_load_with srt recs i0)).
    destruct (read_header_pragma (x_maxh oe) (enc_v2hdr h ++ x ++ tail) Hpg Hmax) as (rs & Hrh).
    assert (Hhok : v2hdr_ok h).
    { unfold v2hdr_ok, h, new_header, wrap64. cbn [h_hi h_lo h_doff h_dsize h_ioff].
      rewrite N.mod_small by (unfold two63, two64 in *; lia). unfold two63, two64 in *. lia. }
    pose proof (read_v2hdr_enc h (x ++ tail) Hhok) as Hv2.
    assert (Hwin : take (h_dsize h) (drop (h_doff h) (pragma ++ enc_v2hdr h ++ x ++ tail)) = x).
    { unfold h, new_header. cbn [h_doff h_dsize].
      replace (pragma ++ enc_v2hdr (mkv2 0 0 51 (blen x) (wrap64 (51 + blen x))) ++ x ++ tail)
        with ((pragma ++ enc_v2hdr (mkv2 0 0 51 (blen x) (wrap64 (51 + blen x)))) ++ x ++ tail)
        by (rewrite <- app_assoc; reflexivity).
      replace 51 with (blen (pragma ++ enc_v2hdr (mkv2 0 0 51 (blen x) (wrap64 (51 + blen x)))))
        by (rewrite blen_app, blen_enc_v2hdr; reflexivity).
      rewrite drop_app. apply take_app. }
    pose proof (extract_exact hdrdec csz oe (pragma ++ enc_v2hdr h ++ x ++ tail) dst rs _ 11 h (x ++ tail)
                  Hcsz Hrh Hv2) as Hex.
    cbn [h_doff h_dsize h new_header] in Hex. fold h in Hex.
    assert (Hlen : 51 + blen x <= blen (pragma ++ enc_v2hdr h ++ x ++ tail)).
    { rewrite !blen_app, blen_enc_v2hdr. change (blen pragma) with 11. lia. }
    generalize (Hex Hseek Hlen); clear Hex; intros Hex.
    revert Hex.
    match goal with |- context [extract_file ?a ?b ?c ?d] => destruct (extract_file a b c d) as [r s'] end.
    intros Hex.
    destruct Hex as (Hr & Hd & Hs). split; [exact Hr|]. split; [|exact Hs].
    rewrite Hd. f_equal. exact Hwin.
  Qed.

  (* ---- extraction from a constructed CARv2, every header ---------------------------------------- *)
  (* a = pragma ++ header h ++ body, ANY header fields (uint64): if Header.ReadFrom accepts h (exactly
     [v2hdr_accepted h]; the index offset and the characteristics play no role -- the offset may point
     into the payload, before it, or past the end of the file) and the body holds the declared
     window, the destination becomes exactly that window; if the window runs past the end of the file,
     io.EOF after a partial copy; if h is not accepted, an error and nothing is created or modified *)
  Theorem extract_container csz o h body dst : csz_pos csz ->
    pragma_good -> 10 <= x_maxh o ->
    h_hi h < two64 -> h_lo h < two64 -> h_doff h < two64 -> h_dsize h < two64 -> h_ioff h < two64 ->
    let a := pragma ++ enc_v2hdr h ++ body in
    let s := mkfs (Some a) dst in
    if v2hdr_accepted h && seek_ok o (h_doff h) then
      if h_doff h + h_dsize h <=? blen a then
        fst (extract_file hdrdec csz o s) = XOk /\
        dst_content (snd (extract_file hdrdec csz o s)) = Some (take (h_dsize h) (drop (h_doff h) a)) /\
        (dst <> DSame -> f_src (snd (extract_file hdrdec csz o s)) = Some a)
      else
        extract_file hdrdec csz o s
        = (XErr EEof, set_dst s (drop (h_doff h) a ++
                                 drop (blen a - h_doff h) (match dst_content s with Some d => d | None => [] end)))
    else extract_file hdrdec csz o s = (XErr EOther, s).
  Proof.
    intros Hcsz Hpg Hmax Hhi Hlo Hdo Hds Hio a s.
    destruct (read_header_pragma (x_maxh o) (enc_v2hdr h ++ body) Hpg Hmax) as (rs & Hrh).
    pose proof (read_v2hdr_enc_exact h body Hhi Hlo Hdo Hds Hio) as Hv2.
    destruct (v2hdr_accepted h) eqn:Eacc; cbn [andb].
    - destruct (seek_ok o (h_doff h)) eqn:Eseek.
      + destruct (h_doff h + h_dsize h <=? blen a) eqn:Elen.
        * pose proof (extract_exact hdrdec csz o a dst rs _ 11 h body Hcsz Hrh Hv2 Eseek ltac:(lia)) as Hex.
          exact (let_pair_fst_snd (extract_file hdrdec csz o s)
                   (fun r s' => r = XOk /\ dst_content s' = Some (take (h_dsize h) (drop (h_doff h) a)) /\
                                (dst <> DSame -> f_src s' = Some a)) Hex).
        * apply (extract_short hdrdec csz o a dst rs _ 11 h body Hcsz Hrh Hv2 Eseek). lia.
      + rewrite extract_file_closed by exact Hcsz. unfold extract_spec, s. cbn [f_src].
        fold a. unfold a at 1. rewrite Hrh. cbn [N.eqb Pos.eqb negb]. rewrite Hv2, Eseek. reflexivity.
    - rewrite extract_file_closed by exact Hcsz. unfold extract_spec, s. cbn [f_src].
      fold a. unfold a at 1. rewrite Hrh. cbn [N.eqb Pos.eqb negb]. rewrite Hv2. reflexivity.
  Qed.
End Wrap.

(* with the model's own canonical header decoder the oracle hypotheses are theorems *)
Lemma pragma_good_canon : pragma_good dec_header_canon.
Proof. exists []. apply dec_header_pragma. Qed.
