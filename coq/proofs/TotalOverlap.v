(* C09: cumulative allocation of store.Resume's rescan.  It is NOT proportional to the input when a
   section declares a length shorter than its CID (the walker then seeks backwards into the CID it
   has just read): refuted by a 758-byte file at the end.  With the executable guard
   [resume_sections_ok] the digest buffers together are covered by the bytes of the payload. *)
From GoCar Require Import Bytes Varint Cid Header Frame V2Header Scan Index Store Alloc.
From GoCarProofs Require Import BytesFacts VarintFacts Termination TotalAlloc.

(* a CID that parses: its digest buffer is no larger than the CID, which is present in the input *)
Lemma cfr_allocs_ok_n s n c p rest :
  cid_from_reader s = CfrOk n c p rest -> sumN (cfr_allocs s) <= n /\ n <= blen s.
Proof.
  unfold cid_from_reader, cfr_allocs. intros H.
  destruct (read_uv s) as [vers r1 n1| | | |] eqn:E1; try discriminate.
  apply read_uv_consumes in E1.
  destruct (vers =? 18).
  { cbn [sumN]. destruct (blen r1 <? 33) eqn:E33; [discriminate|].
    destruct (take 34 s) as [|b0 [|b1 t]]; try discriminate.
    destruct (b2n b1 =? 32); [|discriminate]. inversion H; subst. lia. }
  destruct (negb (vers =? 1)); [discriminate|].
  destruct (read_uv r1) as [codec r2 n2| | | |] eqn:E2; try discriminate.
  apply read_uv_consumes in E2.
  destruct (read_uv r2) as [code r3 n3| | | |] eqn:E3; try discriminate.
  apply read_uv_consumes in E3.
  destruct (read_uv r3) as [mhl r4 n4| | | |] eqn:E4; try discriminate.
  apply read_uv_consumes in E4.
  destruct (max_digest_alloc <? mhl); [discriminate|].
  destruct (blen r4 <? mhl) eqn:E5; [discriminate|]. inversion H; subst.
  destruct (n1 + n2 + n3 + n4 + mhl <=? cid_scratch); cbn [sumN]; lia.
Qed.

(* partial: under the guard, the digest buffers of the rescan are backed by distinct payload bytes *)
Theorem resume_scan_allocs_sum_guarded zeof base view : forall fuel pos,
  resume_sections_ok fuel zeof base view pos = true ->
  sumN (resume_scan_allocs fuel zeof base view pos) <= (blen view - pos) + max_digest_alloc.
Proof.
  induction fuel as [|f IH]; intros pos G; cbn [resume_scan_allocs resume_sections_ok sumN] in *; [lia|].
  destruct (read_uv (drop pos view)) as [len r1 n1| | | |] eqn:E; cbn [sumN]; try lia.
  apply read_uv_consumes in E. rewrite blen_drop in E.
  destruct (len =? 0); [cbn [sumN]; lia|]. rewrite sumN_app.
  destruct (cid_from_reader r1) as [n c p rest| |] eqn:Ec.
  - destruct (cfr_allocs_ok_n _ _ _ _ _ Ec) as (Ha & Hn).
    destruct (len <? n) eqn:El; [discriminate|].
    destruct ((n <=? len) && (two63 <=? base + pos + n1 + len)); [cbn [sumN]; lia|].
    specialize (IH _ G). lia.
  - pose proof (cfr_allocs_sum r1). cbn [sumN]. lia.
  - pose proof (cfr_allocs_sum r1). cbn [sumN]. lia.
Qed.

(* ---- refutation without the guard --------------------------------------------------------------------- *)
(* k sections "length 5, identity CID whose digest is everything that follows", each starting on the
   first digest byte of the one before; then [tail] filler bytes *)
Fixpoint overlap_sections (k : nat) (tail : nat) : bytes :=
  match k with
  | O => zeros tail
  | S k' => let rest := overlap_sections k' tail in
            [x05; x01; x55; x00] ++ put_uv (blen rest) ++ rest
  end.
Definition overlap_cid : bytes := cid_enc (mkcid 1 85 0 [x61; x62]).
Definition overlap_file : bytes := ld (enc_header (Some [overlap_cid]) 1) ++ overlap_sections 100 130.
Definition overlap_wopts : wopts := mkwopts 0 0 1025 true 2048 false false false true 33554432 8388608.

Lemma overlap_file_resume_refuted :
  blen overlap_file = 758 /\
  resume_sections_ok (S (length overlap_file)) true 0 overlap_file 28 = false /\
  16 * blen overlap_file
    < sumN (resume_allocs dec_header_canon KBlockstore true overlap_wopts [overlap_cid] overlap_file []) /\
  (exists st, resume dec_header_canon KBlockstore true overlap_wopts [overlap_cid] overlap_file [] = inl st).
Proof. vm_compute. repeat split; try reflexivity. eexists. reflexivity. Qed.
