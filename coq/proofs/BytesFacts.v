From GoCar Require Import Bytes.

Lemma b2n_lt b : b2n b < 256.
Proof. unfold b2n. pose proof (Byte.to_N_bounded b). lia. Qed.

Lemma b2n_n2b n : n < 256 -> b2n (n2b n) = n.
Proof.
  intros Hn. unfold b2n, n2b. rewrite N.mod_small by lia.
  destruct (Byte.of_N n) eqn:E.
  - apply Byte.to_of_N in E. exact E.
  - apply Byte.of_N_None_iff in E. lia.
Qed.

Lemma n2b_b2n b : n2b (b2n b) = b.
Proof.
  unfold n2b, b2n. rewrite N.mod_small by (pose proof (Byte.to_N_bounded b); lia).
  rewrite Byte.of_to_N. reflexivity.
Qed.

Lemma take_firstn n bs : take n bs = firstn (N.to_nat n) bs.
Proof.
  revert n. induction bs as [|b t IH]; intros n; cbn [take].
  - destruct (N.to_nat n); reflexivity.
  - destruct (n =? 0) eqn:E.
    + assert (n = 0) by lia. subst. reflexivity.
    + replace (N.to_nat n) with (S (N.to_nat (N.pred n))) by lia.
      cbn [firstn]. rewrite IH. reflexivity.
Qed.

Lemma drop_skipn n bs : drop n bs = skipn (N.to_nat n) bs.
Proof.
  revert n. induction bs as [|b t IH]; intros n; cbn [drop].
  - destruct (N.to_nat n); reflexivity.
  - destruct (n =? 0) eqn:E.
    + assert (n = 0) by lia. subst. reflexivity.
    + replace (N.to_nat n) with (S (N.to_nat (N.pred n))) by lia.
      cbn [skipn]. rewrite IH. reflexivity.
Qed.

Lemma blen_nil : blen [] = 0.
Proof. reflexivity. Qed.
Lemma blen_cons b t : blen (b :: t) = 1 + blen t.
Proof. unfold blen. cbn [length]. lia. Qed.
Lemma blen_app a b : blen (a ++ b) = blen a + blen b.
Proof. unfold blen. rewrite app_length. lia. Qed.

Lemma take_app a b : take (blen a) (a ++ b) = a.
Proof.
  rewrite take_firstn. unfold blen. rewrite Nnat.Nat2N.id, firstn_app, firstn_all, Nat.sub_diag.
  cbn. apply app_nil_r.
Qed.
Lemma drop_app a b : drop (blen a) (a ++ b) = b.
Proof.
  rewrite drop_skipn. unfold blen. rewrite Nnat.Nat2N.id, skipn_app, skipn_all, Nat.sub_diag.
  reflexivity.
Qed.
Lemma take_all a : take (blen a) a = a.
Proof. rewrite <- (app_nil_r a) at 2. apply take_app. Qed.
Lemma drop_all a : drop (blen a) a = [].
Proof. rewrite <- (app_nil_r a) at 2. apply drop_app. Qed.
Lemma take_0 a : take 0 a = [].
Proof. destruct a; reflexivity. Qed.
Lemma drop_0 a : drop 0 a = a.
Proof. destruct a; reflexivity. Qed.

Lemma blen_take n a : blen (take n a) = N.min n (blen a).
Proof. rewrite take_firstn. unfold blen. rewrite firstn_length. lia. Qed.
Lemma blen_drop n a : blen (drop n a) = blen a - n.
Proof. rewrite drop_skipn. unfold blen. rewrite skipn_length. lia. Qed.
Lemma take_drop_id n a : take n a ++ drop n a = a.
Proof. rewrite take_firstn, drop_skipn. apply firstn_skipn. Qed.

Lemma take_app_le n a b : n <= blen a -> take n (a ++ b) = take n a.
Proof.
  intros H. rewrite !take_firstn, firstn_app.
  replace (N.to_nat n - length a)%nat with 0%nat by (unfold blen in H; lia).
  cbn. apply app_nil_r.
Qed.
Lemma drop_app_le n a b : n <= blen a -> drop n (a ++ b) = drop n a ++ b.
Proof.
  intros H. rewrite !drop_skipn, skipn_app.
  replace (N.to_nat n - length a)%nat with 0%nat by (unfold blen in H; lia).
  reflexivity.
Qed.
Lemma take_app_ge n a b : blen a <= n -> take n (a ++ b) = a ++ take (n - blen a) b.
Proof.
  intros H. rewrite !take_firstn, firstn_app.
  rewrite firstn_all2 by (unfold blen in H; lia).
  f_equal. f_equal. unfold blen in *. lia.
Qed.
Lemma drop_app_ge n a b : blen a <= n -> drop n (a ++ b) = drop (n - blen a) b.
Proof.
  intros H. rewrite !drop_skipn, skipn_app.
  rewrite skipn_all2 by (unfold blen in H; lia).
  cbn. f_equal. unfold blen in *. lia.
Qed.
Lemma take_ge n a : blen a <= n -> take n a = a.
Proof. intros H. rewrite take_firstn. apply firstn_all2. unfold blen in H. lia. Qed.
Lemma drop_ge n a : blen a <= n -> drop n a = [].
Proof. intros H. rewrite drop_skipn. apply skipn_all2. unfold blen in H. lia. Qed.

Lemma drop_drop n m a : drop n (drop m a) = drop (m + n) a.
Proof.
  rewrite !drop_skipn. 
  replace (N.to_nat (m + n)) with (N.to_nat m + N.to_nat n)%nat by lia.
  revert a. induction (N.to_nat m) as [|k IH]; intros a; cbn [skipn Nat.add].
  - reflexivity.
  - destruct a as [|x t]; [destruct (N.to_nat n); reflexivity|]. apply IH.
Qed.

Lemma byte_eqb_refl a : byte_eqb a a = true.
Proof. unfold byte_eqb. apply Byte.byte_dec_lb. reflexivity. Qed.
Lemma byte_eqb_eq a b : byte_eqb a b = true <-> a = b.
Proof.
  unfold byte_eqb. split.
  - apply Byte.byte_dec_bl.
  - intros ->. apply Byte.byte_dec_lb. reflexivity.
Qed.
Lemma bytes_eqb_eq a b : bytes_eqb a b = true <-> a = b.
Proof.
  revert b. induction a as [|x a IH]; intros [|y b]; cbn [bytes_eqb]; split; intros H; try discriminate; try reflexivity.
  - apply andb_true_iff in H. destruct H as [H1 H2]. apply byte_eqb_eq in H1. apply IH in H2. subst. reflexivity.
  - inversion H; subst. apply andb_true_iff. split; [apply byte_eqb_eq; reflexivity|apply IH; reflexivity].
Qed.
Lemma bytes_eqb_refl a : bytes_eqb a a = true.
Proof. apply bytes_eqb_eq. reflexivity. Qed.

Lemma zeros_length n : length (zeros n) = n.
Proof. induction n; cbn; congruence. Qed.
Lemma blen_zerosN n : blen (zerosN n) = n.
Proof. unfold blen, zerosN. rewrite zeros_length. lia. Qed.

(* little-endian words *)
Lemma le_enc_length w n : length (le_enc w n) = w.
Proof. revert n. induction w; intros; cbn; [reflexivity|rewrite IHw; reflexivity]. Qed.
Lemma le_dec_enc w n : n < 256 ^ N.of_nat w -> le_dec (le_enc w n) = n.
Proof.
  revert n. induction w as [|w IH]; intros n Hn.
  - cbn in *. lia.
  - cbn [le_enc le_dec]. rewrite b2n_n2b by (apply N.mod_lt; lia).
    rewrite IH.
    + pose proof (N.div_mod n 256). lia.
    + rewrite Nnat.Nat2N.inj_succ, N.pow_succ_r' in Hn. apply N.div_lt_upper_bound; lia.
Qed.
