(* C02 (a): every block a verifying reader returns hashes to its CID -- for ALL byte strings. *)
From GoCar Require Import Bytes Varint Cid Header Frame V2Header Scan.

Section Sound.
  Variable hok : bytes -> bytes -> option bool.
  Variable hdrdec : bytes -> option (list bytes * N).

  (* "the block (c,d) is intact": c parses as a CID at the front of the section and d hashes to it *)
  Definition intact (b : block) : Prop :=
    exists p, (exists buf n, cid_from_bytes buf = Some (n, p) /\ fst b = take n buf /\ snd b = drop n buf)
              /\ hash_matches hok (fst b) p (snd b) = Some true.

  Lemma next_block_intact o s b rest :
    o_trusted o = false -> next_block hok o s = Ok (b, rest) -> intact b.
  Proof.
    unfold next_block, read_node. intros Ht H.
    destruct (ld_read (o_zeof o) (o_maxs o) s) as [[buf r]|e] eqn:E1; [|discriminate].
    destruct (cid_from_bytes buf) as [[n p]|] eqn:E2; [|discriminate].
    rewrite Ht in H. unfold verify in H.
    destruct (hash_matches hok (take n buf) p (drop n buf)) as [[|]|] eqn:E3; try discriminate.
    inversion H; subst. exists p. split; [exists buf, n; auto|exact E3].
  Qed.

  Lemma scan_blocks_intact fuel o : o_trusted o = false ->
    forall s acc, Forall intact acc -> Forall intact (s_blocks (scan_blocks hok fuel o s acc)).
  Proof.
    intros Ht. induction fuel as [|f IH]; intros s acc Hacc; cbn [scan_blocks].
    - cbn. apply Forall_rev. exact Hacc.
    - destruct (next_block hok o s) as [[b rest]|e] eqn:E.
      + apply IH. constructor; [eapply next_block_intact; eauto|exact Hacc].
      + cbn. apply Forall_rev. exact Hacc.
  Qed.

  Theorem scan_all_intact o s : o_trusted o = false ->
    Forall intact (s_blocks (scan_all hok o s)).
  Proof. intros Ht. apply scan_blocks_intact; [exact Ht|constructor]. Qed.

  Theorem br_read_all_intact o file v roots out :
    o_trusted o = false -> br_read_all hok hdrdec o file = Ok (v, roots, out) ->
    Forall intact (s_blocks out).
  Proof.
    unfold br_read_all. intros Ht H.
    destruct (br_open hdrdec o file) as [[[[[v' r'] s] a] b]|e]; [|discriminate].
    inversion H; subst. apply scan_all_intact. exact Ht.
  Qed.

  Theorem carv1_read_all_intact o file roots out :
    carv1_read_all hok hdrdec o file = Ok (roots, out) -> Forall intact (s_blocks out).
  Proof.
    unfold carv1_read_all. intros H.
    destruct (read_header hdrdec (o_maxh o) file) as [[[[r v] rest] u]|e]; [|discriminate].
    destruct (negb (v =? 1)); [discriminate|]. destruct r; [discriminate|].
    inversion H; subst. apply scan_all_intact. reflexivity.
  Qed.

  (* root module reader *)
  Definition intact_root (b : block) : Prop :=
    exists p, hash_matches hok (fst b) p (snd b) = Some true.

  Lemma scan_blocks_root_intact fuel :
    forall s acc, Forall intact_root acc -> Forall intact_root (s_blocks (scan_blocks_root hok fuel s acc)).
  Proof.
    induction fuel as [|f IH]; intros s acc Hacc; cbn [scan_blocks_root].
    - cbn. apply Forall_rev. exact Hacc.
    - destruct (next_block_root hok s) as [[b rest]|e] eqn:E.
      + apply IH. constructor; [|exact Hacc].
        unfold next_block_root in E.
        destruct (read_node_root s) as [[[[c p] d] r]|e']; [|discriminate].
        unfold verify in E.
        destruct (hash_matches hok c p d) as [[|]|] eqn:E3; try discriminate.
        inversion E; subst. exists p. exact E3.
      + cbn. apply Forall_rev. exact Hacc.
  Qed.

  Theorem root_read_all_intact file roots out :
    root_read_all hok hdrdec file = Ok (roots, out) -> Forall intact_root (s_blocks out).
  Proof.
    unfold root_read_all. intros H.
    destruct (read_header_root hdrdec file) as [[[r v] rest]|e]; [|discriminate].
    destruct (negb (v =? 1)); [discriminate|]. destruct r; [discriminate|].
    inversion H; subst. unfold scan_all_root. apply scan_blocks_root_intact. constructor.
  Qed.
End Sound.
