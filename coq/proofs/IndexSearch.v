(* L6: on a digest-sorted bucket, Go's sort.Search loop followed by the forward scan returns
   exactly the offsets of the records carrying the digest (the linear specification). *)
From Coq Require Import Permutation Sorting.Sorted.
From GoCar Require Import Bytes Varint Cid Index.
From GoCarProofs Require Import BytesFacts VarintFacts IndexKv IndexSort IndexCompact.
Ltac Zify.zify_post_hook ::= Z.div_mod_to_equations.

(* ---- sort.Search ------------------------------------------------------------------------ *)
(* 2^70: the 70 iterations of the model's loop suffice for every n below it (Go: n is an int) *)
Definition search_cap : N := 1180591620717411303424.
Section Search.
  Variable f : N -> bool.
  Variable n : N.
  Hypothesis f_mono : forall a b, a <= b -> b < n -> f a = true -> f b = true.

  Lemma search_f_spec : forall fuel i j,
    i <= j -> j <= n -> j - i < 2 ^ N.of_nat fuel ->
    (forall k, k < i -> f k = false) -> (forall k, j <= k -> k < n -> f k = true) ->
    i <= search_f fuel f i j <= j /\
    (forall k, k < search_f fuel f i j -> f k = false) /\
    (forall k, search_f fuel f i j <= k -> k < n -> f k = true).
  Proof.
    induction fuel as [|fuel IH]; intros i j Hij Hjn Hsz Hlo Hhi.
    - cbn [search_f]. change (2 ^ N.of_nat 0) with 1 in Hsz. assert (i = j) by lia. subst j.
      split; [lia|]. split; assumption.
    - cbn [search_f]. destruct (i <? j) eqn:E.
      + assert (Hpow : 2 ^ N.of_nat (S fuel) = 2 * 2 ^ N.of_nat fuel).
        { rewrite Nnat.Nat2N.inj_succ, N.pow_succ_r'. reflexivity. }
        rewrite Hpow in Hsz.
        set (h := (i + j) / 2). assert (Hh : i <= h /\ h < j) by (unfold h; lia).
        destruct (f h) eqn:Fh.
        * assert (Hsz' : h - i < 2 ^ N.of_nat fuel) by (unfold h in *; lia).
          destruct (IH i h ltac:(lia) ltac:(lia) Hsz' Hlo) as (R1 & R2 & R3).
          { intros k Hk1 Hk2. apply (f_mono h k); [lia|exact Hk2|exact Fh]. }
          split; [lia|]. split; assumption.
        * assert (Hsz' : j - (h + 1) < 2 ^ N.of_nat fuel) by (unfold h in *; lia).
          destruct (IH (h + 1) j ltac:(lia) ltac:(lia) Hsz') as (R1 & R2 & R3).
          { intros k Hk. destruct (f k) eqn:Fk; [|reflexivity].
            rewrite (f_mono k h) in Fh; [discriminate|lia|lia|exact Fk]. }
          { exact Hhi. }
          split; [lia|]. split; assumption.
      + assert (i = j) by lia. subst j. split; [lia|]. split; assumption.
  Qed.

  Lemma sort_search_spec : n < search_cap ->
    sort_search n f <= n /\
    (forall k, k < sort_search n f -> f k = false) /\
    (forall k, sort_search n f <= k -> k < n -> f k = true).
  Proof.
    intros Hn. unfold sort_search.
    assert (Hsz : n - 0 < 2 ^ N.of_nat 70).
    { change (2 ^ N.of_nat 70) with search_cap. rewrite N.sub_0_r. exact Hn. }
    destruct (search_f_spec 70 0 n (N.le_0_l n) (N.le_refl n) Hsz) as (R1 & R2 & R3).
    - intros k Hk. lia.
    - intros k Hk1 Hk2. lia.
    - split; [lia|]. split; assumption.
  Qed.
End Search.

(* ---- the forward scan over a sorted suffix whose elements are all >= d ---------------------- *)
Definition has_digest (d : bytes) (r : irec) : bool := bytes_eqb (r_digest r) d.

Lemma filter_none_above d x t :
  bytes_leb d (r_digest x) = true -> r_digest x <> d ->
  Forall (digest_le x) t -> filter (has_digest d) t = [].
Proof.
  intros Hdx Hne Hlb. induction t as [|y t IH]; [reflexivity|].
  inversion Hlb as [|? ? Hxy Hlb']; subst. cbn [filter]. unfold has_digest at 1.
  destruct (bytes_eqb (r_digest y) d) eqn:E.
  - apply bytes_eqb_eq in E. exfalso. apply Hne. unfold digest_le in Hxy. rewrite E in Hxy.
    apply bytes_leb_antisym; assumption.
  - apply IH. exact Hlb'.
Qed.

Lemma swi_scan_eq_suffix w l d : 8 <= w -> all_width w l -> offs_ok l ->
  forall t i fuel, skipn i l = t -> (length t < fuel)%nat ->
  digest_sorted t -> Forall (fun r => bytes_leb d (r_digest r) = true) t ->
  swi_scan_eq fuel (w, compact l) d (N.of_nat i) = map r_off (filter (has_digest d) t).
Proof.
  intros Hw Hl Ho. induction t as [|r t IH]; intros i fuel Hs Hf Hsorted Hge.
  - destruct fuel; [cbn in Hf; lia|]. cbn [swi_scan_eq]. rewrite swi_count_compact by assumption.
    apply skipn_length_nil in Hs. replace (N.of_nat i <? N.of_nat (length l)) with false by lia. reflexivity.
  - destruct fuel; [cbn in Hf; lia|]. cbn [swi_scan_eq]. rewrite swi_count_compact by assumption.
    pose proof (skipn_cons_length _ _ _ _ Hs) as Hi.
    replace (N.of_nat i <? N.of_nat (length l)) with true by lia.
    rewrite (swi_digest_at_compact w l i r t Hl Hs).
    inversion Hsorted as [|? ? Hst Hlb]; subst. inversion Hge as [|? ? Hdr Hge']; subst.
    cbn [filter]. unfold has_digest at 1.
    destruct (bytes_eqb d (r_digest r)) eqn:E.
    + apply bytes_eqb_eq in E. subst d. rewrite bytes_eqb_refl. cbn [map].
      rewrite (swi_off_at_compact w l i r t Hl Hs).
      * f_equal. replace (N.of_nat i + 1) with (N.of_nat (S i)) by lia.
        apply IH; [eapply skipn_S_cons; exact Hs|cbn in Hf; lia|exact Hst|exact Hge'].
      * unfold offs_ok in Ho. rewrite Forall_forall in Ho. apply Ho.
        rewrite <- (firstn_skipn i l), Hs. apply in_or_app. right. left. reflexivity.
    + assert (Hne : r_digest r <> d).
      { intros X. subst d. rewrite bytes_eqb_refl in E. discriminate. }
      replace (bytes_eqb (r_digest r) d) with false by (symmetry; apply bytes_eqb_false_ne; exact Hne).
      rewrite (filter_none_above d r t Hdr Hne Hlb). reflexivity.
Qed.

Lemma sorted_nth_le l : digest_sorted l -> forall i j x y t u,
  (i <= j)%nat -> skipn i l = x :: t -> skipn j l = y :: u -> digest_le x y.
Proof.
  intros Hs. induction Hs as [|a l Hs IH Hlb]; intros i j x y t u Hij Hi Hj.
  - destruct i; discriminate.
  - destruct i as [|i]; cbn [skipn] in Hi.
    + inversion Hi; subst. destruct j as [|j]; cbn [skipn] in Hj.
      * inversion Hj; subst. unfold digest_le. apply bytes_leb_refl.
      * rewrite Forall_forall in Hlb. apply Hlb. rewrite <- (firstn_skipn j t), Hj.
        apply in_or_app. right. left. reflexivity.
    + destruct j as [|j]; [lia|]. cbn [skipn] in Hj. eapply (IH i j); eauto. lia.
Qed.

Lemma skipn_exists {A} (l : list A) i : (i < length l)%nat -> exists x t, skipn i l = x :: t.
Proof.
  intros H. destruct (skipn i l) as [|x t] eqn:E.
  - apply skipn_length_nil in E. lia.
  - eauto.
Qed.

Lemma digest_sorted_skipn l i : digest_sorted l -> digest_sorted (skipn i l).
Proof.
  intros H. revert i. induction H as [|a l Hs IH Hlb]; intros i.
  - destruct i; constructor.
  - destruct i; cbn [skipn]; [constructor; assumption|apply IH].
Qed.

Lemma in_firstn_skipn {A} n : forall (l : list A) x,
  In x (firstn n l) -> exists k t, (k < n)%nat /\ skipn k l = x :: t.
Proof.
  induction n as [|n IH]; intros l x H; [destruct H|]. destruct l as [|a l]; [destruct H|].
  cbn [firstn] in H. destruct H as [->|H].
  - exists 0%nat, l. split; [lia|reflexivity].
  - destruct (IH l x H) as (k & t & Hk & Hs). exists (S k), t. split; [lia|exact Hs].
Qed.

Lemma in_skipn_skipn {A} n : forall (l : list A) x,
  In x (skipn n l) -> exists k t, (n <= k)%nat /\ skipn k l = x :: t.
Proof.
  induction n as [|n IH]; intros l x H.
  - cbn [skipn] in H. apply in_split in H. destruct H as (u & v & ->).
    exists (length u), v. split; [lia|]. rewrite skipn_app, skipn_all, Nat.sub_diag. reflexivity.
  - destruct l as [|a l]; [destruct H|]. cbn [skipn] in H.
    destruct (IH l x H) as (k & t & Hk & Hs). exists (S k), t. split; [lia|exact Hs].
Qed.

Lemma filter_all_false {A} (p : A -> bool) (l : list A) :
  (forall x, In x l -> p x = false) -> filter p l = [].
Proof.
  induction l as [|x t IH]; intros H; [reflexivity|]. cbn [filter].
  rewrite (H x) by (left; reflexivity). apply IH. intros y Hy. apply H. right. exact Hy.
Qed.

(* L6 *)
Lemma swi_getall_sorted_aux w l d b f :
  b = (w, compact l) -> f = (fun i => bytes_leb d (swi_digest_at b i)) ->
  8 <= w -> all_width w l -> offs_ok l -> digest_sorted l -> N.of_nat (length l) < search_cap ->
  swi_scan_eq (S (length (compact l))) b d (sort_search (swi_count b) f)
  = map r_off (filter (has_digest d) l).
Proof.
  intros Eb Ef Hw Hl Ho Hs Hn.
  assert (Hcount : swi_count b = N.of_nat (length l)) by (rewrite Eb; apply swi_count_compact; assumption).
  assert (Hf : forall i x t, skipn i l = x :: t -> f (N.of_nat i) = bytes_leb d (r_digest x)).
  { intros i x t Hi. rewrite Ef, Eb. rewrite (swi_digest_at_compact w l i x t Hl Hi). reflexivity. }
  assert (Hmono : forall a c, a <= c -> c < swi_count b -> f a = true -> f c = true).
  { intros a c Hac Hc Fa. rewrite Hcount in Hc.
    destruct (skipn_exists l (N.to_nat a) ltac:(lia)) as (x & t & Hx).
    destruct (skipn_exists l (N.to_nat c) ltac:(lia)) as (y & u & Hy).
    rewrite <- (Nnat.N2Nat.id a) in Fa. rewrite (Hf _ _ _ Hx) in Fa.
    rewrite <- (Nnat.N2Nat.id c). rewrite (Hf _ _ _ Hy).
    pose proof (sorted_nth_le l Hs (N.to_nat a) (N.to_nat c) x y t u ltac:(lia) Hx Hy) as Hxy.
    unfold digest_le in Hxy. eapply bytes_leb_trans; eauto. }
  destruct (sort_search_spec f (swi_count b) Hmono ltac:(rewrite Hcount; exact Hn)) as (R1 & R2 & R3).
  remember (sort_search (swi_count b) f) as idx eqn:Eidx. clear Eidx.
  rewrite Hcount in R1.
  rewrite <- (Nnat.N2Nat.id idx). rewrite Eb.
  rewrite (swi_scan_eq_suffix w l d Hw Hl Ho (skipn (N.to_nat idx) l) (N.to_nat idx) (S (length (compact l))) eq_refl).
  - (* the prefix contributes nothing *)
    assert (Hpre : forall x, In x (firstn (N.to_nat idx) l) -> has_digest d x = false).
    { intros x Hx. destruct (in_firstn_skipn _ _ _ Hx) as (k & t & Hk & Hy).
      specialize (R2 (N.of_nat k) ltac:(lia)). rewrite (Hf _ _ _ Hy) in R2.
      unfold has_digest. apply bytes_eqb_false_ne. intros X. rewrite X, bytes_leb_refl in R2. discriminate. }
    pose proof (filter_all_false (has_digest d) (firstn (N.to_nat idx) l) Hpre) as Hnil.
    transitivity (map r_off (filter (has_digest d) (firstn (N.to_nat idx) l ++ skipn (N.to_nat idx) l))).
    + rewrite filter_app, Hnil. cbn [app]. reflexivity.
    + rewrite firstn_skipn. reflexivity.
  - rewrite skipn_length. pose proof (length_compact_ge w l Hw Hl). lia.
  - apply digest_sorted_skipn. exact Hs.
  - apply Forall_forall. intros x Hx. destruct (in_skipn_skipn _ _ _ Hx) as (k & t & Hk & Hy).
    pose proof (skipn_cons_length _ _ _ _ Hy) as Hkl.
    specialize (R3 (N.of_nat k) ltac:(lia) ltac:(rewrite Hcount; lia)).
    rewrite (Hf _ _ _ Hy) in R3. exact R3.
Qed.

Theorem swi_getall_sorted w l d :
  8 <= w -> all_width w l -> offs_ok l -> digest_sorted l -> N.of_nat (length l) < search_cap ->
  swi_getall (w, compact l) d = map r_off (filter (has_digest d) l).
Proof.
  intros Hw Hl Ho Hs Hn.
  exact (swi_getall_sorted_aux w l d (w, compact l) _ eq_refl eq_refl Hw Hl Ho Hs Hn).
Qed.

