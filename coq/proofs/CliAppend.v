(* C19: car filter --append.  The existing output (a CARv2 without data padding, finalized or not
   index-less) is resumed: its index is dropped, its header zeroed, every section re-indexed
   (identity CIDs included); the selected blocks of the input that the output does not hold yet are
   appended; Finalize writes a fresh index and header.  Roots stay those of the existing output. *)
From GoCar Require Import Bytes Varint Cid Header Frame V2Header Scan Index Store CliCmds.
From GoCarProofs Require Import BytesFacts VarintFacts CidFacts HeaderFacts ScanFacts ScanTrunc ScanTruncV2 StoreInv
  CliBase CliWalk CliProducers CliConcat CliFilter CliClosure CliTheorems.

Lemma ii_load_cons r rs ii : ii_load (r :: rs) ii = ii_load rs (ii_insert r ii).
Proof. reflexivity. Qed.

(* store.Resume's section loop on a constructed payload *)
Lemma resume_scan_sections base : forall bs view pre ii fuel,
  view = pre ++ enc_sections bs -> Forall (blk_ok default_maxs) bs ->
  base + blen view < two63 -> (length bs < fuel)%nat ->
  resume_scan fuel false base view (blen pre) ii = Ok (ii_load (records_from (blen pre) bs) ii, blen view).
Proof.
  induction bs as [|[c d] t IH]; intros view pre ii fuel Hv Hok Hb63 Hf;
    (destruct fuel as [|f]; [cbn in Hf; lia|]); cbn [resume_scan]; subst view.
  - cbn [enc_sections map concat]. rewrite app_nil_r, drop_all, read_uv_nil. reflexivity.
  - inversion Hok as [|? ? Hb Hok']; subst.
    destruct (section_front c d (enc_sections t) Hb) as (p & Hp & Hsplit & Hru & Hcr & Hc2 & Hmax & H63).
    pose proof Hb63 as Hb63'. rewrite enc_sections_cons, !blen_app, blen_enc_section in Hb63'.
    unfold section_size, ld_size in Hb63'.
    rewrite drop_app. rewrite enc_sections_cons, Hsplit, Hru.
    replace (blen c + blen d =? 0) with false by lia.
    rewrite Hcr.
    replace (two63 <=? base + blen pre + uv_size (blen c + blen d) + (blen c + blen d)) with false by lia.
    rewrite andb_false_r.
    replace (blen pre + uv_size (blen c + blen d) + (blen c + blen d)) with (blen (pre ++ enc_section c d))
      by (rewrite blen_app, blen_enc_section; unfold section_size, ld_size; lia).
    rewrite (IH _ (pre ++ enc_section c d)).
    + cbn [records_from]. rewrite Hp, ii_load_cons. rewrite blen_app, blen_enc_section. reflexivity.
    + rewrite <- app_assoc, Hsplit. reflexivity.
    + exact Hok'.
    + rewrite <- Hsplit, <- enc_sections_cons. exact Hb63.
    + cbn in Hf. lia.
Qed.

Lemma roots_contains_self rs : forallb (roots_contains rs) rs = true.
Proof.
  apply forallb_forall. intros r Hin. unfold roots_contains. apply existsb_exists.
  exists r. split; [exact Hin|apply bytes_eqb_refl].
Qed.

Lemma header_matches_self rs : header_matches rs 1 rs = true.
Proof.
  unfold header_matches. cbn [N.eqb Pos.eqb andb]. rewrite N.eqb_refl. cbn [andb].
  assert (H : forallb (fun r => roots_count rs r =? roots_count rs r) rs = true)
    by (apply forallb_forall; intros x _; apply N.eqb_refl).
  destruct rs as [|a [|b t]]; [reflexivity|apply bytes_eqb_refl|exact H].
Qed.

Lemma zero_hdr_chunks : concat (v2hdr_chunks (mkv2 0 0 0 0 0)) = zerosN 40.
Proof. reflexivity. Qed.

Set Default Proof Using "All".
Section Append.
  Variable hok : bytes -> bytes -> option bool.
  Variable hdrdec : bytes -> option (list bytes * N).
  Hypothesis pragma_ok : hdrdec pragma_body = Some ([], 2).

  (* OpenReadWrite on an existing CARv2 (no data padding): the session state Resume leaves *)
  Lemma resume_existing hb roots st hi lo ioff trailer :
    hdr_ok hdrdec hb roots -> blen (enc_header (Some roots) 1) = blen hb ->
    Forall (blk_ok default_maxs) st ->
    hi < two64 -> lo < two64 -> ioff < two63 ->
    51 + blen (payload_hb hb st) + blen trailer < two63 ->
    exists s, resume hdrdec KBlockstore true (filter_opts 2) roots
                     (v2file hi lo 0 ioff (payload_hb hb st) trailer) [] = inl s /\
              XInv s 2 hb st.
  Proof.
    intros Hh Hlen Hok H1 H2 H3 H63. pose proof (payload_nonempty hb st) as Hp.
    set (P := payload_hb hb st) in *.
    set (h := mkv2 hi lo (51 + 0) (blen P) ioff).
    assert (Hhok : v2hdr_ok h).
    { apply (v2file_hdr_ok hi lo 0 ioff P trailer); try assumption; try lia. }
    unfold resume, v2file. fold h.
    rewrite (read_header_pragma hok hdrdec pragma_ok) by (cbn [w_maxh filter_opts]; unfold default_maxh; lia).
    cbn [N.eqb Pos.eqb filter_opts w_v1 andb orb negb].
    change (data_base (filter_opts 2)) with 51.
    change pragma_size with (blen pragma). rewrite drop_app.
    rewrite read_v2hdr_enc by exact Hhok.
    assert (Hdo : h_doff h = 51) by reflexivity. assert (Hds : h_dsize h = blen P) by reflexivity.
    rewrite ?Hdo, ?Hds. cbn [N.eqb Pos.eqb negb].
    assert (Hd51 : drop 51 (pragma ++ enc_v2hdr h ++ zerosN 0 ++ P ++ trailer) = P ++ trailer).
    { cbn [zerosN N.to_nat zeros app]. rewrite app_assoc. apply drop_app_eq.
      rewrite blen_app, blen_enc_v2hdr. reflexivity. }
    rewrite Hd51. cbn [w_maxh].
    unfold P at 1, payload_hb at 1. rewrite <- app_assoc.
    rewrite (read_header_hb hok hdrdec pragma_ok hb roots 1)
      by (try apply Hh; eapply (hdr_ok_63 hok hdrdec pragma_ok); exact Hh).
    rewrite header_matches_self. cbn [negb].
    (* truncate to DataOffset + DataSize, zero the header *)
    rewrite ?Hdo, ?Hds. rewrite wrap64_small by (unfold two63, two64 in *; lia).
    unfold dev_truncate, truncate_to. cbn [d_file d_log d_faults].
    assert (Hbl : blen (pragma ++ enc_v2hdr h ++ zerosN 0 ++ P ++ trailer) = 51 + blen P + blen trailer).
    { cbn [zerosN N.to_nat zeros app]. rewrite !blen_app, blen_enc_v2hdr. change (blen pragma) with 11. lia. }
    rewrite Hbl. replace (51 + blen P <=? 51 + blen P + blen trailer) with true by lia.
    assert (Htk : take (51 + blen P) (pragma ++ enc_v2hdr h ++ zerosN 0 ++ P ++ trailer)
                  = pragma ++ enc_v2hdr h ++ P).
    { cbn [zerosN N.to_nat zeros app].
      replace (pragma ++ enc_v2hdr h ++ P ++ trailer) with ((pragma ++ enc_v2hdr h ++ P) ++ trailer)
        by (rewrite <- !app_assoc; reflexivity).
      apply take_app_eq. rewrite !blen_app, blen_enc_v2hdr. change (blen pragma) with 11. lia. }
    rewrite Htk.
    destruct (write_chunks_nofault (v2hdr_chunks (mkv2 0 0 0 0 0))
                (mkdev (pragma ++ enc_v2hdr h ++ P) [Trunc (51 + blen P)] []) (blen pragma) eq_refl)
      as (dv2 & Hw & Hf & Hfile).
    rewrite Hw. cbn [negb].
    rewrite zero_hdr_chunks in Hfile. cbn [d_file] in Hfile. rewrite write_at_mid in Hfile.
    rewrite (drop_app_eq (enc_v2hdr h) P (blen (zerosN 40))) in Hfile
      by (rewrite blen_enc_v2hdr; reflexivity).
    rewrite Hfile.
    assert (Hv2 : drop 51 (pragma ++ zerosN 40 ++ P) = P).
    { rewrite app_assoc. apply drop_app_eq. reflexivity. }
    rewrite Hv2.
    rewrite Hlen, <- blen_ld.
    rewrite (resume_scan_sections 51 st P (ld hb) [] _ eq_refl Hok).
    - eexists. split; [reflexivity|].
      constructor; unfold ws_file; cbn [ws_dev ws_pos ws_idx ws_opts ws_closed ws_finalized xprefix N.eqb Pos.eqb];
        try reflexivity; try assumption.
    - lia.
    - pose proof (length_payload_ge hok hdrdec pragma_ok hb st). fold P in H. lia.
  Qed.

  (* car filter --version 2 --append in out *)
  Theorem filter_car_append sel inv hb roots bs file ohb oroots st hi lo ioff trailer :
    hdr_ok hdrdec hb roots -> blocks_ok bs -> hashes_ok hok bs -> cids_indexable bs ->
    valid_input hb bs file ->
    hdr_ok hdrdec ohb oroots -> blen (enc_header (Some oroots) 1) = blen ohb ->
    Forall (blk_ok default_maxs) st ->
    hi < two64 -> lo < two64 -> ioff < two63 ->
    51 + blen (payload_hb ohb st) + blen trailer < two63 ->
    let st' := st ++ dedup_from (map fst st) (filter (fun b => match_filter sel inv (fst b)) bs) in
    51 + blen (payload_hb ohb st') < two64 ->
    filter_car hok hdrdec sel inv 2 true file (Some (v2file hi lo 0 ioff (payload_hb ohb st) trailer))
    = (true, Some (v2file 0 0 0 (51 + blen (payload_hb ohb st')) (payload_hb ohb st')
                          (idx_write (filter_index ohb st')))).
  Proof.
    intros Hh Hb Hg Hix Hv Hoh Hlen Hst H1 H2 H3 H63 st' Hfit.
    destruct (br_open_valid hok hdrdec pragma_ok hb roots bs file Hh Hv) as (v & a & b & Ho & _).
    unfold filter_car. rewrite Ho. cbn [N.eqb Pos.eqb orb negb].
    pose proof (payload_nonempty ohb st) as Hp.
    assert (Hvo : valid_input ohb st (v2file hi lo 0 ioff (payload_hb ohb st) trailer))
      by (apply VI_v2; try assumption; try lia).
    destruct (valid_reader hok hdrdec pragma_ok ohb oroots st _ Hoh Hvo) as (r & Hr).
    rewrite (proj1 Hr).
    assert (Hrv : cr_ver r = 2).
    { pose proof (proj1 Hr) as Hn. rewrite (new_reader_v2 hok hdrdec pragma_ok) in Hn.
      - inversion Hn. reflexivity.
      - apply (v2file_hdr_ok hi lo 0 ioff _ trailer); try assumption; try lia. }
    rewrite Hrv. cbn [N.eqb Pos.eqb negb].
    rewrite (reader_roots_valid hok hdrdec pragma_ok ohb oroots st _ r Hoh Hr).
    destruct (resume_existing ohb oroots st hi lo ioff trailer Hoh Hlen Hst H1 H2 H3 H63) as (s0 & Hres & X0).
    rewrite Hres.
    rewrite (scan_all_valid hok hdrdec pragma_ok bs Hb Hg). cbn [s_blocks s_end].
    destruct (chosen_ok hok hdrdec pragma_ok sel inv bs Hb Hix) as (Hcb & Hcx).
    destruct (put_each_spec hok hdrdec pragma_ok 2 ohb (or_intror eq_refl) _ s0 st (map fst st) X0 (fun _ => eq_refl) Hcb Hcx)
      as (s1 & Hpe & X1).
    rewrite Hpe. fold st' in X1.
    destruct (finalize_v2 hok hdrdec pragma_ok s1 _ _ X1 Hfit) as (s2 & Hfin & Hfile). rewrite Hfin, Hfile. reflexivity.
  Qed.

  (* C19_filter for --append: the output reads back as the existing blocks followed by the selected
     input blocks it did not hold yet, under the existing roots; inspect --full accepts it *)
  Theorem filter_append_reads_back sel inv hb roots bs file ohb oroots st hi lo ioff trailer :
    hdr_ok hdrdec hb roots -> blocks_ok bs -> hashes_ok hok bs -> cids_indexable bs ->
    valid_input hb bs file ->
    hdr_ok hdrdec ohb oroots -> blen (enc_header (Some oroots) 1) = blen ohb ->
    blocks_ok st -> hashes_ok hok st ->
    hi < two64 -> lo < two64 -> ioff < two63 ->
    51 + blen (payload_hb ohb st) + blen trailer < two63 ->
    let st' := st ++ dedup_from (map fst st) (filter (fun b => match_filter sel inv (fst b)) bs) in
    51 + blen (payload_hb ohb st') + blen (idx_write (filter_index ohb st')) < two63 ->
    exists out st_,
      filter_car hok hdrdec sel inv 2 true file (Some (v2file hi lo 0 ioff (payload_hb ohb st) trailer))
        = (true, Some out) /\
      br_read_all hok hdrdec default_ropts out = Ok (2, oroots, mkscan st' EEof) /\
      inspect_car hok hdrdec true out = Ok st_ /\ is_count st_ = N.of_nat (length st').
  Proof.
    intros Hh Hb Hg Hix Hv Hoh Hlen Hst Hgst H1 H2 H3 H63 st' Hfit.
    assert (Hb' : blocks_ok st').
    { apply Forall_app. split; [exact Hst|]. apply Forall_forall. intros x Hx. apply dedup_from_in in Hx.
      apply filter_In in Hx. exact (proj1 (Forall_forall _ _) Hb x (proj1 Hx)). }
    assert (Hg' : hashes_ok hok st').
    { apply Forall_app. split; [exact Hgst|]. apply Forall_forall. intros x Hx. apply dedup_from_in in Hx.
      apply filter_In in Hx. exact (proj1 (Forall_forall _ _) Hg x (proj1 Hx)). }
    assert (Hfit64 : 51 + blen (payload_hb ohb st') < two64) by (unfold two63, two64 in *; lia).
    assert (Hio : 51 + blen (payload_hb ohb st') < two63) by lia.
    assert (Hall : 51 + 0 + blen (payload_hb ohb st') + blen (idx_write (filter_index ohb st')) < two63) by lia.
    do 2 eexists. split.
    - apply (filter_car_append sel inv hb roots bs file ohb oroots st hi lo ioff trailer); try assumption.
    - split; [|split].
      + apply (br_read_all_v2file hok hdrdec pragma_ok ohb oroots st' 0 0 0 _ _ Hoh Hb' Hg');
          [unfold two64; lia|unfold two64; lia|exact Hio|exact Hall].
      + apply (inspect_full_indexed0 hok hdrdec pragma_ok ohb oroots st' _ Hoh Hb' Hg' Hfit).
      + unfold is_count. cbn [is_secs]. rewrite map_length. reflexivity.
  Qed.
End Append.
