(* index.GetFirst = the head of GetAll's callback sequence (ErrNotFound when it is empty), for every
   index value; InsertionIndex.Get returns some record with the key's DIGEST (llrb.Get's pick), not
   found exactly when there is none -- the rest of the key's CID is not looked at. *)
From Coq Require Import Permutation Sorting.Sorted.
From GoCar Require Import Bytes Varint Cid Header Frame V2Header Scan Index IndexGen.
From GoCarProofs Require Import BytesFacts VarintFacts CidFacts HeaderFacts ScanFacts IndexKv IndexSort IndexCompact
  IndexSearch IndexRoundtrip IndexLoad IndexCanon IndexGenFacts IndexGenLookup.

Definition head_or_notfound (l : list N) : res N :=
  match l with [] => Err ENotFound | o :: _ => Ok o end.

Lemma swi_getfirst_head b d : swi_getfirst b d = head_or_notfound (swi_getall b d).
Proof.
  unfold swi_getfirst, swi_getall. cbn [swi_scan_eq].
  destruct (sort_search (swi_count b) (fun i => bytes_leb d (swi_digest_at b i)) <? swi_count b); [|reflexivity].
  cbn [andb]. destruct (bytes_eqb d (swi_digest_at b _)); reflexivity.
Qed.

Lemma mwi_getfirst_head m d : mwi_getfirst m d = head_or_notfound (mwi_getall m d).
Proof. unfold mwi_getfirst, mwi_getall. destruct (kv_get (blen d + 8) m); [apply swi_getfirst_head|reflexivity]. Qed.

Lemma mh_getfirst_head m c d : mh_getfirst m c d = head_or_notfound (mh_getall m c d).
Proof. unfold mh_getfirst, mh_getall. destruct (kv_get c m); [apply mwi_getfirst_head|reflexivity]. Qed.

Theorem idx_getfirst_head i c d : idx_getfirst i c d = head_or_notfound (idx_getall i c d).
Proof. destruct i; [apply mwi_getfirst_head|apply mh_getfirst_head]. Qed.

Theorem ii_getfirst_head d ii : ii_getfirst d ii = head_or_notfound (ii_getall d ii).
Proof. unfold ii_getfirst, ii_getall. destruct (ii_with_digest d ii); reflexivity. Qed.

(* on a loaded index: an offset of a record carrying the key, not found iff there is none *)
Theorem idx_getfirst_load (srt : list irec -> list irec) codec i0 rs c d :
  sort_contract srt -> idx_new codec = Some i0 -> Forall rec_ok rs -> recs_fit rs ->
  let spec := if codec =? codec_sorted then spec_offsets_digest rs d else spec_offsets_mh rs c d in
  match idx_getfirst (idx_load_with srt rs i0) c d with
  | Ok o => In o spec
  | Err e => e = ENotFound /\ spec = []
  end.
Proof.
  intros Hs Hnew Hok Hfit spec. rewrite idx_getfirst_head.
  pose proof (idx_getall_load srt Hs codec i0 rs c d Hnew Hok Hfit) as Hp. fold spec in Hp.
  destruct (idx_getall (idx_load_with srt rs i0) c d) as [|o l]; cbn [head_or_notfound].
  - split; [reflexivity|]. apply Permutation_nil in Hp. exact Hp.
  - eapply Permutation_in; [exact Hp|left; reflexivity].
Qed.

(* llrb.Get among records with one digest *)
Definition choose_contract (choose : list irec -> option irec) : Prop :=
  forall l, match choose l with Some r => In r l | None => l = [] end.

Lemma hd_error_choose : choose_contract (@hd_error irec).
Proof. intros [|x l]; cbn; [reflexivity|left; reflexivity]. Qed.

Theorem ii_get_some_record_with_digest choose d ii : choose_contract choose ->
  match ii_get_with choose d ii with
  | Ok o => exists r, In r ii /\ r_digest r = d /\ r_off r = o
  | Err e => e = ENotFound /\ forall r, In r ii -> r_digest r <> d
  end.
Proof.
  intros Hc. unfold ii_get_with. specialize (Hc (ii_with_digest d ii)).
  destruct (choose (ii_with_digest d ii)) as [r|].
  - unfold ii_with_digest in Hc. apply filter_In in Hc. destruct Hc as [Hin Hd].
    apply bytes_eqb_eq in Hd. exists r. repeat split; assumption.
  - split; [reflexivity|]. intros r Hin Hd.
    assert (Hr : In r (ii_with_digest d ii)).
    { unfold ii_with_digest. apply filter_In. split; [exact Hin|]. apply bytes_eqb_eq. exact Hd. }
    rewrite Hc in Hr. destruct Hr.
Qed.

(* the CID plays no part: an index holding one record answers Get for ANY key with that digest *)
Theorem ii_get_ignores_cid choose r : choose_contract choose ->
  ii_get_with choose (r_digest r) (ii_load [r] []) = Ok (r_off r).
Proof.
  intros Hc. unfold ii_get_with, ii_load, ii_insert, ii_with_digest. cbn [fold_left ins_by_digest filter].
  rewrite bytes_eqb_refl. specialize (Hc [r]). destruct (choose [r]) as [x|]; [|discriminate].
  destruct Hc as [->|[]]. reflexivity.
Qed.

(* GenerateIndexFromFile *)
Theorem generate_index_from_file_is_generate_index (srt : list irec -> list irec) hdrdec codec o all :
  generate_index_from_file_with srt hdrdec codec o (Some all) = generate_index_with srt hdrdec codec SrcSeek o all
  /\ generate_index_from_file_with srt hdrdec codec o None = Err EOther.
Proof. split; reflexivity. Qed.

Theorem generate_index_from_file_valid (srt : list irec -> list irec) hdrdec codec i0 o hi lo ioff pad roots bs trailer :
  idx_new codec = Some i0 ->
  pragma_good hdrdec o -> hdr_fits hdrdec o roots -> Forall gblock_ok bs -> Forall (cid_fits o) bs ->
  hi < two64 -> lo < two64 -> ioff < two63 ->
  blen (v2_container hi lo ioff pad (enc_payload roots bs) trailer) < two63 ->
  generate_index_from_file_with srt hdrdec codec o (Some (enc_payload roots bs))
  = Ok (idx_load_with srt (section_recs o (hlen_of roots) bs) i0) /\
  generate_index_from_file_with srt hdrdec codec o (Some (v2_container hi lo ioff pad (enc_payload roots bs) trailer))
  = Ok (idx_load_with srt (section_recs o (hlen_of roots) bs) i0).
Proof.
  intros Hnew Hp Hh Hok Hfit Hhi Hlo Hio Hall.
  assert (Hpl : blen (enc_payload roots bs) < two63).
  { unfold v2_container in Hall. rewrite !blen_app in Hall. lia. }
  unfold generate_index_from_file_with, generate_index_with. rewrite Hnew.
  rewrite (load_index_v1 hdrdec SrcSeek o roots bs Hh Hok Hfit Hpl).
  rewrite (load_index_v2 hdrdec SrcSeek o hi lo ioff pad roots bs trailer Hp Hh Hok Hfit Hhi Hlo Hio Hall).
  split; reflexivity.
Qed.

(* the evaluation shortcut of kind idxgenbig is the layer-B lookup *)
From GoCar Require Import Val RunScan RunIndex.
Lemma lookup_fast_eq o by_code code d hlen bs :
  lookup_fast o by_code code d (gbig_keys hlen bs) = spec_lookup o by_code code d hlen bs.
Proof.
  unfold lookup_fast, gbig_keys, spec_lookup. generalize (sections_at hlen bs). intros l.
  induction l as [|[off [c dd]] l IH]; [reflexivity|]. cbn [map filter fst snd].
  unfold section_indexed, key_match. destruct (cid_parse c) as [p|]; [|exact IH].
  destruct (indexed o p && (bytes_eqb (c_digest p) d && (negb by_code || (c_mhcode p =? code)))); cbn [map fst]; rewrite IH; reflexivity.
Qed.
